(** One iteration of the parser of Model/Newick.v on each kind of token the writer emits, and
    the reflexive-transitive closure [steps] of "the loop continues". *)
From Coq Require Import String Ascii ZArith QArith Bool Arith Lia List.
From GT Require Import Base.UTree Model.Newick Spec.NewickSpec Proofs.NewickLex Proofs.NewickFuel.
Import ListNotations.
Local Close Scope Q_scope.
Local Open Scope string_scope.

Definition cls (numeric : string -> bool) (n : string) : token := if numeric n then NUMERIC else IDENT.

(** a literal the lexer returns whole when it is followed by [rest] *)
Definition lexable (n : string) : Prop :=
  n <> "" /\ match n with String c _ => is_ws c = false | EmptyString => True end /\
  forall_chars (is_ident false) n = true /\ no_nul n = true.

Lemma comment_ok_chars : forall c, comment_ok c = true -> forall_chars comment_char c = true.
Proof. intros c H. unfold comment_ok in H. apply andb_true_iff in H. tauto. Qed.

Definition nodeprev (p : option token) : Prop :=
  p = Some CLOSEPAR \/ p = Some IDENT \/ p = Some NUMERIC \/ p = Some CLOSEBRACK.

Definition add_ncoms (cs : list string) (f : frame) : frame :=
  mkF (fname f) (fcom f ++ cs) (fslots f) (fedge f).

Section Step.
  Variable numeric : string -> bool.
  Variable parse_num : string -> option Q.

  Notation step := (step numeric parse_num).
  Notation parse_iter := (parse_iter numeric parse_num).

  Inductive steps : pstate -> string -> pstate -> string -> Prop :=
  | steps_refl : forall st s, steps st s st s
  | steps_step : forall st s st1 s1 st2 s2,
      step st s = Cont st1 s1 -> steps st1 s1 st2 s2 -> steps st s st2 s2.

  Lemma steps_one : forall st s st' s', step st s = Cont st' s' -> steps st s st' s'.
  Proof. intros. eapply steps_step; [eassumption|apply steps_refl]. Qed.

  Lemma steps_trans : forall st s st1 s1 st2 s2,
      steps st s st1 s1 -> steps st1 s1 st2 s2 -> steps st s st2 s2.
  Proof.
    intros st s st1 s1 st2 s2 H. induction H; intros; [assumption|].
    eapply steps_step; [eassumption|auto].
  Qed.

  Lemma steps_parse_iter : forall st s st' s',
      steps st s st' s' ->
      parse_iter (S (String.length s)) st s = parse_iter (S (String.length s')) st' s'.
  Proof.
    intros st s st' s' H. induction H; [reflexivity|].
    rewrite <- IHsteps. cbn [Newick.parse_iter]. rewrite H.
    apply parse_iter_enough. eapply step_length; eassumption.
  Qed.

  (** * single-character tokens *)
  Lemma step_open_root : forall p pe r,
      step (mkS [] None 0%Z p pe) (String "(" r) =
      Cont (mkS [mkF "" [] [] None] None 1%Z (Some OPENPAR) pe) r.
  Proof. intros. reflexivity. Qed.

  Lemma step_open_inner : forall f fs dr L p pe r,
      L <> 0%Z ->
      step (mkS (f :: fs) dr L p pe) (String "(" r) =
      Cont (mkS (mkF "" [] [None] (Some e0) :: f :: fs) dr (L + 1)%Z (Some OPENPAR) pe) r.
  Proof.
    intros. unfold Newick.step. cbn. apply Z.eqb_neq in H. rewrite H. reflexivity.
  Qed.

  Lemma step_close : forall f p0 fs dr L p pe r,
      (0 < L)%Z ->
      step (mkS (f :: p0 :: fs) dr L p pe) (String ")" r) =
      Cont (mkS (add_child p0 f :: fs) dr (L - 1)%Z (Some CLOSEPAR) false) r.
  Proof.
    intros. unfold Newick.step. cbn.
    replace (L - 1 <? 0)%Z with false by (symmetry; apply Z.ltb_ge; lia). reflexivity.
  Qed.

  Lemma step_comma : forall f p0 fs dr L p pe r,
      step (mkS (f :: p0 :: fs) dr L p pe) (String "," r) =
      Cont (mkS (add_child p0 f :: fs) dr L (Some NEWSIBLING) false) r.
  Proof. intros. reflexivity. Qed.

  Lemma step_eot : forall fs dr p r,
      step (mkS fs dr 0%Z p false) (String ";" r) = Stop (IRet (mkS fs dr 0%Z p false) (String ";" r)).
  Proof. intros. reflexivity. Qed.

  (** * names and numbers *)
  Lemma step_tip : forall n rest f fs dr L p pe,
      lexable n -> stops_at (is_ident false) rest = true ->
      p = Some OPENPAR \/ p = Some NEWSIBLING ->
      step (mkS (f :: fs) dr L p pe) (n ++ rest) =
      Cont (mkS (mkF n [] [None] (Some e0) :: f :: fs) dr L (Some (cls numeric n)) pe) rest.
  Proof.
    intros n rest f fs dr L p pe [Hne [Hws [Hall Hnn]]] Hstop Hp.
    unfold Newick.step. rewrite (scan_iw_ident numeric n rest Hne Hws Hall Hnn Hstop).
    unfold cls. destruct Hp; subst p; destruct (numeric n); reflexivity.
  Qed.

  Lemma step_name : forall n rest f fs dr L pe,
      lexable n -> stops_at (is_ident false) rest = true ->
      numeric n = false ->
      (forall v0 v1, split2 n = Some (v0, v1) -> numeric v0 && numeric v1 = false) ->
      exists pe', step (mkS (f :: fs) dr L (Some CLOSEPAR) pe) (n ++ rest) =
                  Cont (mkS (set_name n f :: fs) dr L (Some CLOSEPAR) pe') rest.
  Proof.
    intros n rest f fs dr L pe [Hne [Hws [Hall Hnn]]] Hstop Hnum Hsplit.
    unfold Newick.step. rewrite (scan_iw_ident numeric n rest Hne Hws Hall Hnn Hstop).
    rewrite Hnum. cbn.
    destruct (split2 n) as [[v0 v1]|] eqn:Es.
    - destruct (fedge f).
      + specialize (Hsplit v0 v1 eq_refl).
        destruct (numeric v0); [destruct (numeric v1); [discriminate|]|]; eexists; reflexivity.
      + eexists; reflexivity.
    - eexists; reflexivity.
  Qed.

  Lemma step_name_root : forall n rest f fs dr L pe,
      lexable n -> stops_at (is_ident false) rest = true ->
      numeric n = false -> fedge f = None ->
      step (mkS (f :: fs) dr L (Some CLOSEPAR) pe) (n ++ rest) =
      Cont (mkS (set_name n f :: fs) dr L (Some CLOSEPAR) pe) rest.
  Proof.
    intros n rest f fs dr L pe [Hne [Hws [Hall Hnn]]] Hstop Hnum He.
    unfold Newick.step. rewrite (scan_iw_ident numeric n rest Hne Hws Hall Hnn Hstop).
    rewrite Hnum. cbn. rewrite He. destruct (split2 n) as [[v0 v1]|]; reflexivity.
  Qed.

  Lemma step_sup : forall lit y rest f e' fs dr L pe,
      lexable lit -> stops_at (is_ident false) rest = true ->
      numeric lit = true -> parse_num lit = Some y ->
      fedge f = Some e' -> L <> 0%Z ->
      step (mkS (f :: fs) dr L (Some CLOSEPAR) pe) (lit ++ rest) =
      Cont (mkS (map_edge (set_sup y) f :: fs) dr L (Some CLOSEPAR) false) rest.
  Proof.
    intros lit y rest f e' fs dr L pe [Hne [Hws [Hall Hnn]]] Hstop Hnum Hp He HL.
    unfold Newick.step. rewrite (scan_iw_ident numeric lit rest Hne Hws Hall Hnn Hstop).
    rewrite Hnum. cbn. rewrite He. apply Z.eqb_neq in HL. rewrite HL.
    unfold with_num. rewrite Hp. reflexivity.
  Qed.

  Lemma step_sup_pv : forall lit a b x y rest f e' fs dr L pe,
      lexable lit -> stops_at (is_ident false) rest = true ->
      numeric lit = false -> split2 lit = Some (a, b) ->
      numeric a = true -> numeric b = true -> parse_num a = Some x -> parse_num b = Some y ->
      fedge f = Some e' ->
      step (mkS (f :: fs) dr L (Some CLOSEPAR) pe) (lit ++ rest) =
      Cont (mkS (map_edge (fun e => set_pv y (set_sup x e)) f :: fs) dr L (Some CLOSEPAR) false) rest.
  Proof.
    intros lit a b x y rest f e' fs dr L pe [Hne [Hws [Hall Hnn]]] Hstop Hnum Hs Ha Hb Hx Hy He.
    unfold Newick.step. rewrite (scan_iw_ident numeric lit rest Hne Hws Hall Hnn Hstop).
    rewrite Hnum. cbn. rewrite Hs, He, Ha, Hb. unfold with_num. rewrite Hx, Hy. reflexivity.
  Qed.

  Lemma step_len : forall lit y rest f e' fs dr L p pe,
      lexable lit -> stops_at (is_ident false) rest = true ->
      numeric lit = true -> parse_num lit = Some y ->
      fedge f = Some e' -> present (elen e') = false -> L <> 0%Z ->
      step (mkS (f :: fs) dr L p pe) (String ":" (lit ++ rest)) =
      Cont (mkS (map_edge (set_len y) f :: fs) dr L (Some STARTLEN) false) rest.
  Proof.
    intros lit y rest f e' fs dr L p pe [Hne [Hws [Hall Hnn]]] Hstop Hnum Hp He Hpres HL.
    unfold Newick.step.
    replace (scan_iw numeric (String ":" (lit ++ rest)))
      with (STARTLEN, ":", lit ++ rest, String ":" (lit ++ rest)) by reflexivity.
    cbv beta iota. rewrite (scan_iw_ident numeric lit rest Hne Hws Hall Hnn Hstop).
    rewrite Hnum. cbn. apply Z.eqb_neq in HL. rewrite HL. cbn. rewrite He, Hpres.
    unfold with_num. rewrite Hp. reflexivity.
  Qed.

  (** * comments *)
  Lemma step_ncom : forall c rest f fs dr L p pe,
      comment_ok c = true -> nodeprev p ->
      step (mkS (f :: fs) dr L p pe) (String "[" (c ++ String "]" rest)) =
      Cont (mkS (add_ncom c f :: fs) dr L (Some CLOSEBRACK) false) rest.
  Proof.
    intros c rest f fs dr L p pe Hc Hp. unfold Newick.step.
    replace (scan_iw numeric (String "[" (c ++ String "]" rest)))
      with (OPENBRACK, "[", c ++ String "]" rest, String "[" (c ++ String "]" rest)) by reflexivity.
    cbv beta iota.
    rewrite (consume_comment_spec numeric _ c "" rest); [|rewrite length_app_s; simpl; lia|apply comment_ok_chars; exact Hc].
    cbn. destruct Hp as [Hp|[Hp|[Hp|Hp]]]; subst p; reflexivity.
  Qed.

  Lemma step_ecom : forall c rest f e' fs dr L pe,
      comment_ok c = true -> fedge f = Some e' ->
      step (mkS (f :: fs) dr L (Some STARTLEN) pe) (String "[" (c ++ String "]" rest)) =
      Cont (mkS (map_edge (add_ecom c) f :: fs) dr L (Some CLOSEBRACK) false) rest.
  Proof.
    intros c rest f e' fs dr L pe Hc He. unfold Newick.step.
    replace (scan_iw numeric (String "[" (c ++ String "]" rest)))
      with (OPENBRACK, "[", c ++ String "]" rest, String "[" (c ++ String "]" rest)) by reflexivity.
    cbv beta iota.
    rewrite (consume_comment_spec numeric _ c "" rest); [|rewrite length_app_s; simpl; lia|apply comment_ok_chars; exact Hc].
    cbn. rewrite He. reflexivity.
  Qed.

  Lemma write_coms_cons : forall c cs rest,
      write_coms (c :: cs) ++ rest = String "[" (c ++ String "]" (write_coms cs ++ rest)).
  Proof.
    intros. unfold write_coms. simpl. f_equal. rewrite app_assoc_s. f_equal.
  Qed.

  Lemma ncoms_steps : forall cs rest f fs dr L p pe,
      forallb comment_ok cs = true -> nodeprev p ->
      exists p' pe', nodeprev p' /\ (pe' = pe \/ pe' = false) /\
        steps (mkS (f :: fs) dr L p pe) (write_coms cs ++ rest)
              (mkS (add_ncoms cs f :: fs) dr L p' pe') rest.
  Proof.
    induction cs as [|c cs IH]; intros rest f fs dr L p pe Hok Hp.
    - exists p, pe. split; [assumption|]. split; [left; reflexivity|]. simpl.
      replace (add_ncoms [] f) with f by (destruct f; unfold add_ncoms; simpl; rewrite app_nil_r; reflexivity).
      apply steps_refl.
    - simpl in Hok. apply andb_true_iff in Hok. destruct Hok as [Hc Hcs].
      destruct (IH rest (add_ncom c f) fs dr L (Some CLOSEBRACK) false Hcs) as [p' [pe' [Hp' [Hpe Hs]]]].
      { right; right; right; reflexivity. }
      exists p', pe'. split; [assumption|]. split; [right; destruct Hpe; assumption|].
      rewrite write_coms_cons.
      eapply steps_step; [apply step_ncom; assumption|].
      replace (add_ncoms (c :: cs) f) with (add_ncoms cs (add_ncom c f)); [exact Hs|].
      unfold add_ncoms, add_ncom. simpl. rewrite <- app_assoc. reflexivity.
  Qed.
End Step.
