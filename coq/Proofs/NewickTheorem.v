(** C01 assembled: the reader applied to the writer's text. *)
From Coq Require Import String Ascii ZArith QArith Bool Arith Lia List.
From GT Require Import Base.UTree Model.Newick Spec.NewickSpec
     Proofs.NewickCanon Proofs.NewickRound Proofs.NewickUtf8.
Import ListNotations.
Local Close Scope Q_scope.
Local Open Scope string_scope.

Section Final.
  Variable fmt : Q -> string.
  Variable numeric : string -> bool.
  Variable parse_num : string -> option Q.
  Variable numok : Q -> bool.
  Hypothesis SC : strconv_ok fmt numeric parse_num numok.

  Theorem parse_write : forall t, wfN numeric numok t = true ->
      parse numeric parse_num (write fmt t) = POk (canon_root fmt parse_num t).
  Proof.
    intros t H. unfold parse.
    rewrite (sanitize_write fmt numeric parse_num numok SC t H).
    apply (parse_raw_write fmt numeric parse_num numok SC t H).
  Qed.

  (** C01, under the assumed behaviour of strconv *)
  Theorem round_trip : forall t, wfN numeric numok t = true ->
      exists t', parse numeric parse_num (write fmt t) = POk t' /\
                 rose_eqb (rose_of t') (rose_of t) = true /\
                 write fmt t' = write fmt t.
  Proof.
    intros t Hwf. exists (canon_root fmt parse_num t). split; [apply parse_write; assumption|]. split.
    - apply rose_canon_root with (numeric := numeric) (numok := numok); assumption.
    - apply write_canon_root with (numeric := numeric) (numok := numok); assumption.
  Qed.

  (** whatever tree the reader returns for the writer's text, writing it again gives the
      same bytes and it has the same rose view (deterministic form of [round_trip]) *)
  Corollary rewrite_identical : forall t t', wfN numeric numok t = true ->
      parse numeric parse_num (write fmt t) = POk t' ->
      write fmt t' = write fmt t /\ rose_eqb (rose_of t') (rose_of t) = true.
  Proof.
    intros t t' Hwf Hp. rewrite (parse_write t Hwf) in Hp. inversion Hp; subst t'. split.
    - apply write_canon_root with (numeric := numeric) (numok := numok); assumption.
    - apply rose_canon_root with (numeric := numeric) (numok := numok); assumption.
  Qed.
End Final.
