(** C13, Newick -> Nexus (no translate table) -> Newick, on the common domain stated on the
    trees themselves: every tree is inside C01's quantifier, has no comments, its tip names
    are Nexus labels and its inner names identifier bytes, and every tree has exactly the taxa
    of the list.  No hypothesis on the written text is left. *)
From Coq Require Import String Ascii ZArith QArith Bool Arith Lia List Permutation.
From GT Require Import Base.Sexp Base.UTree Spec.Obs Spec.NewickSpec Model.Newick Model.Nexus
     Proofs.NewickCanon Proofs.NewickTheorem
     Proofs.NexusLex Proofs.NexusWords Proofs.NexusRoundTrip Proofs.NexusRoundTripMain Proofs.NexusRoundTripC01
     Proofs.NexusNewickText Proofs.NexusDomain.
Import ListNotations.
Local Close Scope Q_scope.
Local Open Scope string_scope.

(** * the labels of the TAXA block are tip names of the trees *)
Lemma add_tips_keys : forall names m n,
    In n (map fst (add_tips names m)) -> In n (map fst m) \/ In n names.
Proof.
  unfold add_tips. induction names as [|x r IH]; intros m n H; simpl in *; [left; exact H|].
  apply IH in H. destruct H as [H|H]; [|right; right; exact H].
  destruct (assoc_get x m); [left; exact H|].
  rewrite map_app in H. apply in_app_or in H. destruct H as [H|[H|[]]]; [left; exact H|right; left; exact H].
Qed.

Lemma final_map_keys : forall l m n,
    In n (map fst (final_map l m)) ->
    In n (map fst m) \/ exists it, In it l /\ In n (all_tip_names (snd it)).
Proof.
  unfold final_map. induction l as [|it r IH]; intros m n H; simpl in *; [left; exact H|].
  apply IH in H. destruct H as [H|[it' [Hi Hn]]].
  - apply add_tips_keys in H. destruct H as [H|H]; [left; exact H|right; exists it; auto].
  - right. exists it'. auto.
Qed.

Section Names.
  Variable fmt : Q -> string.

  Lemma all_tip_names_sub : forall t e, nx_sub fmt e t = true -> Forall (fun n => tword_b n = true) (all_tip_names t).
  Proof.
    induction t as [n c sl IH] using utree_ind'. intros e H.
    cbn [nx_sub] in H. apply andb5 in H. destruct H as (_ & _ & _ & _ & _ & Hn & Hk).
    cbn [all_tip_names].
    destruct (nilb (kids_of sl)) eqn:K.
    - apply andb_true_iff in Hn. destruct Hn as [L Hn]. rewrite L. constructor; [exact Hn|constructor].
    - apply andb_true_iff in Hn. destruct Hn as [L _]. apply Nat.ltb_lt in L.
      destruct (Nat.eqb (length sl) 1) eqn:E; [apply Nat.eqb_eq in E; lia|].
      clear - IH Hk. induction sl as [|[[e' ch]|] r IHr]; simpl in *; [constructor| |].
      + inversion IH as [|? ? Hc Hr]; subst. apply andb_true_iff in Hk. destruct Hk as [K1 K2].
        apply Forall_app. split; [exact (Hc e' K1)|apply IHr; assumption].
      + inversion IH as [|? ? Hc Hr]; subst. apply IHr; assumption.
  Qed.

  Lemma all_tip_names_root : forall t, nx_root fmt t = true -> Forall (fun n => tword_b n = true) (all_tip_names t).
  Proof.
    intros [n c sl] H. cbn [nx_root] in H.
    repeat (apply andb_true_iff in H; destruct H as [H ?]).
    rename H2 into L, H0 into Hk. apply Nat.ltb_lt in L.
    cbn [all_tip_names]. destruct (Nat.eqb (length sl) 1) eqn:E; [apply Nat.eqb_eq in E; lia|].
    clear - Hk. induction sl as [|[[e' ch]|] r IHr]; simpl in *; [constructor| |].
    - apply andb_true_iff in Hk. destruct Hk as [K1 K2].
      apply Forall_app. split; [exact (all_tip_names_sub ch e' K1)|apply IHr; assumption].
    - apply IHr; assumption.
  Qed.

  Lemma labels_ok_of_trees : forall l,
      Forall (fun it => nx_root fmt (snd it) = true) l -> Forall label_ok (labels_of l).
  Proof.
    intros l H. apply Forall_forall. intros n Hn.
    assert (K : In n (map fst (final_map l []))).
    { unfold labels_of in Hn. eapply Permutation_in; [apply ssort_perm|exact Hn]. }
    apply final_map_keys in K. destruct K as [[]|[it [Hi Ht]]].
    rewrite Forall_forall in H. pose proof (all_tip_names_root (snd it) (H it Hi)) as A.
    rewrite Forall_forall in A. apply tword_b_ok. apply A. exact Ht.
  Qed.
End Names.

Section Property.
  Variable fmt : Q -> string.
  Variable numeric : string -> bool.
  Variable parse_num : string -> option Q.
  Variable numok : Q -> bool.
  Hypothesis SC : strconv_ok fmt numeric parse_num numok.
  Hypothesis fmt_wchar : forall x, numok x = true -> all_chars wchar (fmt x) = true.

  (** one tree of the list, in the common domain *)
  Definition in_domain (labels : list string) (t : utree) : Prop :=
    wfN numeric numok t = true /\ plain_root t = true /\
    forallb (fun n => mem n labels) (tip_names t) = true /\ length (tip_names t) = length labels.

  Lemma domain_tree_ok : forall labels t, in_domain labels t ->
      nexus_tree_ok fmt numeric parse_num numok labels t.
  Proof.
    intros labels t (W & P & T1 & T2). unfold nexus_tree_ok. split; [exact W|]. split.
    - apply (newick_ok_domain fmt numeric numok fmt_wchar t W P).
    - rewrite (tips_canon_root fmt numeric parse_num numok t W). split; [exact T1|].
      pose proof (tips_canon_root fmt numeric parse_num numok t W) as E. unfold tip_names in E.
      rewrite <- (map_length uname), E. unfold tip_names in T2. exact T2.
  Qed.

  Theorem nexus_round_trip_domain : forall (l : list (nat * utree)),
      (Z.of_nat (length (final_map l [])) < two63)%Z ->
      Forall (fun it => in_domain (labels_of l) (snd it)) l ->
      exists ts',
        nexus_parse (np_newick numeric parse_num) (write_nexus (Newick.write fmt) false l) =
        Nexus.POk (mkDoc (combine (map (fun it => "tree" ++ itoa (fst it)) l) ts') false) /\
        Forall2 (fun it t' => rose_eqb (rose_of t') (rose_of (snd it)) = true) l ts'.
  Proof.
    intros l Hn HD.
    apply (nexus_round_trip_c01 fmt numeric parse_num numok SC l Hn).
    - apply (labels_ok_of_trees fmt). eapply Forall_impl; [|exact HD].
      intros it (W & P & _). apply (nx_of_wfN fmt numeric numok fmt_wchar _ W P).
    - eapply Forall_impl; [|exact HD]. intros it D. apply domain_tree_ok. exact D.
  Qed.
End Property.
