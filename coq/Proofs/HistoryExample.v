(** C03: the hypotheses of the history theorem are satisfiable -- a concrete history of 21 steps
    over all 19 operations, with every side condition discharged at the state where it is
    needed, that runs to the end. *)
From Coq Require Import String ZArith QArith Bool Arith Lia List.
From GT Require Import Base.UTree Model.Reroot Model.History Model.NewickNum Proofs.History.
Import ListNotations.
Local Close Scope Q_scope.
Local Open Scope string_scope.

Definition lf (n : string) : utree := UNode n [] [None].
Definition ed (l : Q) : einfo := mkE l nilv nilv [].
Definition eds (l s : Q) : einfo := mkE l s nilv [].

(** ((a:1,b:2)0.5:1,(c:1,d:1)0.75:2,e:3); with parent slots at different positions *)
Definition ex_start : utree :=
  UNode "" [] [Some (eds 1 (1#2), UNode "" [] [None; Some (ed 1, lf "a"); Some (ed 2, lf "b")]);
               Some (eds 2 (3#4), UNode "" [] [Some (ed 1, lf "c"); None; Some (ed 1, lf "d")]);
               Some (ed 3, lf "e")].
Definition ex_graft : utree := UNode "" [] [Some (ed 1, lf "x"); Some (ed 1, lf "y")].
Definition ex_second : utree := UNode "" [] [Some (ed 1, lf "p"); Some (ed 1, lf "q")].

Definition ex_history : list (bool * op) :=
  [(true, OReroot 1); (true, OOutgroup false false ["c"; "d"]); (true, OPrune false ["e"]);
   (true, OMidpoint); (true, OInsert [["a"; "a2"]]); (true, OGraft "b" ex_graft);
   (true, OMerge ex_second); (false, ONni 0 true); (false, ONni 1 false);
   (true, OOutgroup true true ["p"; "q"]);
   (false, ORotate [0;0;1;0;1;2;0;0;0;1;0;0;1;2;0;0;0;0;0;1;0;0;0]); (false, OSort);
   (true, OCollapseLen (1#2) false false); (false, OResolve [0;1;0]); (false, ORmSingle);
   (true, ORename "x" "z"); (false, OClone); (false, OSubtree 0); (true, OUnroot);
   (true, OCollapseDepth 1 1 false false); (true, OCollapseSup (7#8) false)].

Ltac side_tac :=
  unfold side; cbn [snd fst];
  repeat match goal with
         | |- True => exact I
         | |- _ /\ _ => split
         | |- (_ <= _)%nat => vm_compute; lia
         | |- distinct_tips true _ => left; reflexivity
         | |- true = true -> _ => intros _
         | |- false = true -> _ => intros; discriminate
         | |- rooted _ = true -> _ => intros _
         | |- _ = true => vm_compute; reflexivity
         | |- ~ In _ _ => vm_compute; intuition discriminate
         | |- Forall _ _ => constructor
         end.

Lemma sides_cons : forall s r t t1,
  side s t -> run_step s t = Ok t1 -> sides r t1 -> sides (s :: r) t.
Proof.
  intros s r t t1 S E R. split; [exact S|]. intros t' H. rewrite E in H. inversion H; subst. exact R.
Qed.

Ltac step_tac :=
  match goal with
  | |- sides (?s :: ?r) ?t =>
    let v := eval vm_compute in (run_step s t) in
    match v with
    | Ok ?t1 => apply (sides_cons s r t t1); [side_tac | vm_compute; reflexivity | ]
    end
  end.

Lemma history_example :
  wf ex_start = true /\ sides ex_history ex_start /\
  exists t, run ex_history ex_start = Ok t /\
            write_go t = "(z:1,y:1,((a:0,a2:0):1,d:1,c:1)0.75:3);".
Proof.
  split; [vm_compute; reflexivity|]. split.
  - unfold ex_history.
    do 21 (timeout 60 step_tac). exact I.
  - eexists. split; vm_compute; reflexivity.
Qed.
