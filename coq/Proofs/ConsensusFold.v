(** C09, construction of the consensus tree, the fold: IF one insertion step adds exactly the
    requested bipartition with its data and keeps the others (hypothesis [STEP] of the section,
    i.e. the single-step specification of AddBipartition at the LCA -- NOT proved for the
    neighbour-list graph of Model/Consensus.v, where it is only checked by the correspondence),
    THEN inserting a list of pairwise compatible, pairwise distinct bipartitions one after the
    other never fails and yields exactly these bipartitions, with their data, plus those of the
    initial (star) tree.  The premise "pairwise compatible" is a theorem for the splits the
    code keeps ([kept_splits_compatible], Proofs/ConsensusCompat.v). *)
From Coq Require Import String List Permutation.
From GT Require Import Proofs.ConsensusCompat.
Import ListNotations.

Section Fold.
  Variable T : Type.                      (* working trees *)
  Variable D : Type.                      (* data carried by a branch: (length, support) *)
  Variable all : list string.             (* the taxa *)
  Definition key := list string.
  Variable sp : T -> list (key * D).      (* the bipartitions of a tree, with their data *)
  Variable ins : T -> key * D -> option T.

  Definition keys (t : T) : list key := map fst (sp t).
  Definition fits (t : T) (k : key) : Prop :=
    ~ In k (keys t) /\ forall k', In k' (keys t) -> compatible all k k'.

  (** single-step specification (assumed) *)
  Hypothesis STEP : forall t kd, fits t (fst kd) ->
    exists t', ins t kd = Some t' /\ forall x, In x (sp t') <-> x = kd \/ In x (sp t).

  Fixpoint ins_all (t : T) (l : list (key * D)) : option T :=
    match l with
    | [] => Some t
    | kd :: r => match ins t kd with Some t' => ins_all t' r | None => None end
    end.

  Theorem ins_all_spec : forall l t,
      NoDup (map fst l) ->
      (forall kd, In kd l -> fits t (fst kd)) ->
      (forall kd kd', In kd l -> In kd' l -> fst kd <> fst kd' -> compatible all (fst kd) (fst kd')) ->
      exists t', ins_all t l = Some t' /\ forall x, In x (sp t') <-> In x l \/ In x (sp t).
  Proof.
    induction l as [|kd r IH]; intros t ND F C.
    - exists t. simpl. split; auto. intros x. tauto.
    - simpl in ND. inversion ND as [|? ? Hn ND']; subst.
      destruct (STEP t kd (F kd (or_introl eq_refl))) as (t1 & E1 & S1).
      simpl. rewrite E1.
      destruct (IH t1 ND') as (t' & E' & S').
      + intros kd' Hin. destruct (F kd' (or_intror Hin)) as [N1 N2]. split.
        * unfold keys. intro H. apply in_map_iff in H. destruct H as (x & Ex & Hx).
          apply S1 in Hx. destruct Hx as [->|Hx].
          -- apply Hn. rewrite Ex. now apply in_map.
          -- apply N1. unfold keys. rewrite <- Ex. now apply in_map.
        * intros k' Hk'. unfold keys in Hk'. apply in_map_iff in Hk'. destruct Hk' as (x & Ex & Hx).
          apply S1 in Hx. destruct Hx as [->|Hx].
          -- subst k'. apply C; simpl; auto. intro E. apply Hn. rewrite <- E. now apply in_map.
          -- apply N2. unfold keys. rewrite <- Ex. now apply in_map.
      + intros a b Ha Hb. apply C; simpl; auto.
      + exists t'. split; auto. intros x. rewrite S', S1. simpl.
        split; intros H; intuition (subst; auto).
  Qed.
End Fold.
