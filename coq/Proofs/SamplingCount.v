(** Counting toolkit shared by Proofs/SamplingRepl.v and Proofs/SamplingRes.v: finite sums over
    lists, the product structure of [all_choices (b1 ++ b2)], and counting in it. *)
From Coq Require Import Bool Arith Lia List Permutation.
From GT Require Import Model.Reroot Model.Sampling Spec.Counting Proofs.SamplingBase.
Import ListNotations.

Definition sum_over {A} (f : A -> nat) (l : list A) : nat :=
  fold_right (fun a acc => f a + acc) 0 l.

Definition b2n (b : bool) : nat := if b then 1 else 0.

Lemma sum_over_ext {A} (f g : A -> nat) l :
  (forall a, In a l -> f a = g a) -> sum_over f l = sum_over g l.
Proof.
  induction l as [|x l IH]; intros H; simpl; auto.
  rewrite (H x) by now left. rewrite IH; auto. intros; apply H; now right.
Qed.

Lemma sum_over_const {A} c (l : list A) : sum_over (fun _ => c) l = length l * c.
Proof. induction l as [|x l IH]; simpl; auto. Qed.

Lemma sum_over_mul_l {A} c (f : A -> nat) l : sum_over (fun a => c * f a) l = c * sum_over f l.
Proof. induction l as [|x l IH]; simpl; [lia|]. rewrite IH. lia. Qed.

Lemma sum_over_add {A} (f g : A -> nat) l :
  sum_over (fun a => f a + g a) l = sum_over f l + sum_over g l.
Proof. induction l as [|x l IH]; simpl; auto. rewrite IH. lia. Qed.

Lemma sum_over_b2n {A} (p : A -> bool) l : sum_over (fun a => b2n (p a)) l = count_where p l.
Proof.
  unfold count_where. induction l as [|x l IH]; simpl; auto.
  rewrite IH. destruct (p x); reflexivity.
Qed.

Lemma sum_over_swap {A B} (f : A -> B -> nat) l1 l2 :
  sum_over (fun a => sum_over (f a) l2) l1 = sum_over (fun b => sum_over (fun a => f a b) l1) l2.
Proof.
  induction l1 as [|x l1 IH]; simpl.
  - now rewrite sum_over_const, Nat.mul_0_r.
  - now rewrite IH, <- sum_over_add.
Qed.

Lemma count_where_sum_flat_map {A B} (p : B -> bool) (f : A -> list B) l :
  count_where p (flat_map f l) = sum_over (fun a => count_where p (f a)) l.
Proof. apply count_where_flat_map. Qed.

Lemma count_where_const {A} (b : bool) (l : list A) :
  count_where (fun _ => b) l = length l * b2n b.
Proof.
  unfold count_where. induction l as [|x l IH]; simpl; auto.
  destruct b; simpl in *; rewrite IH; lia.
Qed.

Lemma count_where_false {A} (p : A -> bool) l :
  (forall a, In a l -> p a = false) -> count_where p l = 0.
Proof.
  intros H. rewrite (count_where_ext p (fun _ => false)) by auto.
  rewrite count_where_const. simpl. lia.
Qed.

Lemma count_where_andb_const {A} (b : bool) (q : A -> bool) l :
  count_where (fun a => b && q a) l = b2n b * count_where q l.
Proof.
  destruct b; simpl.
  - rewrite (count_where_ext _ q); auto; lia.
  - apply count_where_false. auto.
Qed.

(** *** the product structure of the space of choice vectors *)
Lemma all_choices_app b1 b2 :
  all_choices (b1 ++ b2)
  = flat_map (fun c1 => map (app c1) (all_choices b2)) (all_choices b1).
Proof.
  induction b1 as [|b b1 IH].
  - simpl. rewrite app_nil_r. symmetry. erewrite map_ext; [apply map_id|]. reflexivity.
  - simpl app. rewrite !all_choices_cons. rewrite IH.
    generalize (seq 0 b) as l. induction l as [|v l IHl]; simpl; auto.
    rewrite flat_map_app, <- IHl. f_equal.
    generalize (all_choices b1) as Y. induction Y as [|c Y IHY]; simpl; auto.
    rewrite map_app, IHY, map_map. reflexivity.
Qed.

Lemma count_where_all_choices_app (p : list nat -> bool) b1 b2 :
  count_where p (all_choices (b1 ++ b2))
  = sum_over (fun c1 => count_where (fun c2 => p (c1 ++ c2)) (all_choices b2)) (all_choices b1).
Proof.
  rewrite all_choices_app, count_where_sum_flat_map.
  apply sum_over_ext. intros c1 _. now rewrite count_where_map.
Qed.

Lemma all_choices_single b : all_choices [b] = map (fun j => [j]) (seq 0 b).
Proof.
  simpl. generalize (seq 0 b) as l. induction l as [|v l IH]; simpl; auto; try now rewrite IH.
Qed.

Lemma count_where_all_choices_snoc (p : list nat -> bool) bs b :
  count_where p (all_choices (bs ++ [b]))
  = sum_over (fun c1 => count_where (fun j => p (c1 ++ [j])) (seq 0 b)) (all_choices bs).
Proof.
  rewrite count_where_all_choices_app. apply sum_over_ext. intros c1 _.
  now rewrite all_choices_single, count_where_map.
Qed.

Lemma count_where_all_choices_cons (p : list nat -> bool) b bs :
  count_where p (all_choices (b :: bs))
  = sum_over (fun r => count_where (fun c => p (r :: c)) (all_choices bs)) (seq 0 b).
Proof.
  rewrite all_choices_cons, count_where_sum_flat_map.
  apply sum_over_ext. intros r _. now rewrite count_where_map.
Qed.

(** an event that is a conjunction of an event on the first component and an event on the
    rest: the count is the product *)
Lemma count_where_all_choices_prod (p : list nat -> bool) (h : nat -> bool) (q : list nat -> bool) b bs :
  (forall r c, p (r :: c) = h r && q c) ->
  count_where p (all_choices (b :: bs))
  = count_where h (seq 0 b) * count_where q (all_choices bs).
Proof.
  intros H. rewrite count_where_all_choices_cons.
  rewrite (sum_over_ext _ (fun r => count_where q (all_choices bs) * b2n (h r))).
  - now rewrite sum_over_mul_l, sum_over_b2n, Nat.mul_comm.
  - intros r _. rewrite (count_where_ext _ (fun c => h r && q c)) by (intros; apply H).
    rewrite count_where_andb_const. lia.
Qed.

Lemma prod_app l1 l2 : prod (l1 ++ l2) = prod l1 * prod l2.
Proof. unfold prod. induction l1 as [|x l1 IH]; simpl; [lia|]. rewrite IH. lia. Qed.

Lemma prod_repeat b k : prod (repeat b k) = b ^ k.
Proof. unfold prod. induction k as [|k IH]; simpl; auto. Qed.

(** *** [set_nth] *)
Lemma set_nth_app_exact {A} (pre : list A) a x post :
  set_nth (length pre) x (pre ++ a :: post) = pre ++ x :: post.
Proof.
  unfold set_nth. induction pre as [|y pre IH]; simpl; auto. now rewrite IH.
Qed.

Lemma set_nth_map {A B} (f : A -> B) j x l : set_nth j (f x) (map f l) = map f (set_nth j x l).
Proof.
  unfold set_nth. rewrite firstn_map, skipn_map, map_app. f_equal.
  destruct (skipn j l); reflexivity.
Qed.

Lemma set_nth_length {A} j (x : A) l : length (set_nth j x l) = length l.
Proof.
  unfold set_nth. rewrite <- (firstn_skipn j l) at 3. rewrite !app_length.
  destruct (skipn j l); reflexivity.
Qed.
