(** C05, splits: the branches of the tree seen as unrooted ([bsplits], one entry per branch:
    edge data + leaves on the far side) are preserved by re-rooting (up to exchanging the two
    sides of the branches on the path), by reordering (same sides) and by unrooting (the two
    root branches become one); link with the canonical [branch_splits] of Spec/Obs.v. *)
From Coq Require Import String ZArith QArith Bool Arith Lia List Permutation Setoid Morphisms Sorted.
From Coq Require OrderedTypeEx.
From GT Require Import Base.UTree Spec.Obs Model.Reroot Spec.Unrooted
     Proofs.RerootBase Proofs.Reroot Proofs.Unroot Proofs.Reorder.
Import ListNotations.
Local Close Scope Q_scope.
Local Arguments n_up : simpl never.
Local Arguments leaves : simpl never.

(** * [bsplits] on the list of children *)
Definition isleaf (t : utree) : bool := match kids t with [] => true | _ => false end.
Definition kbs (K : list (einfo * utree)) : list (einfo * list string * bool) :=
  flat_map (fun p => (fst p, leaves (snd p), isleaf (snd p)) :: bsplits (snd p)) K.

Lemma bsplits_unfold n c sl : bsplits (UNode n c sl) = kbs (kids_of sl).
Proof.
  simpl. unfold kbs. induction sl as [|[[e ch]|] r IH]; simpl; auto. now rewrite IH.
Qed.
Lemma kbs_app a b : kbs (a ++ b) = kbs a ++ kbs b.
Proof. apply flat_map_app. Qed.
Lemma kbs_cons p K : kbs (p :: K) = (fst p, leaves (snd p), isleaf (snd p)) :: bsplits (snd p) ++ kbs K.
Proof. reflexivity. Qed.
Lemma bsplits_kids n c sl n' c' sl' :
  kids_of sl = kids_of sl' -> bsplits (UNode n c sl) = bsplits (UNode n' c' sl').
Proof. intros E. now rewrite !bsplits_unfold, E. Qed.
Lemma isleaf_kids n c sl n' c' sl' :
  kids_of sl = kids_of sl' -> isleaf (UNode n c sl) = isleaf (UNode n' c' sl').
Proof. unfold isleaf, kids. simpl. now intros ->. Qed.
Lemma isleaf_false n c sl : kids_of sl <> [] -> isleaf (UNode n c sl) = false.
Proof. unfold isleaf, kids. simpl. destruct (kids_of sl); congruence. Qed.

(** * the relations *)
Lemma PermR_mono {A} (R R' : A -> A -> Prop) l l' :
  (forall x y, R x y -> R' x y) -> PermR R l l' -> PermR R' l l'.
Proof.
  intros H. induction 1.
  - constructor.
  - apply PR_skip; auto.
  - apply PR_swap.
  - eapply PR_trans; eauto.
Qed.

Lemma PermR_map_eq {A B} (R : A -> A -> Prop) (f : A -> B) l l' :
  (forall x y, R x y -> f x = f y) -> PermR R l l' -> Permutation (map f l) (map f l').
Proof.
  intros H. induction 1; simpl.
  - constructor.
  - rewrite (H _ _ H0). now constructor.
  - apply perm_swap.
  - etransitivity; eauto.
Qed.

Global Instance bs_eq_Equivalence L : Equivalence (bs_eq L).
Proof.
  split.
  - intros [[e X] f]. repeat split; auto.
  - intros [[e X] f] [[e' X'] f'] (H1 & H2 & H3). simpl in *. repeat split; auto.
    simpl. destruct H3 as [H3|H3]; [left; now symmetry|right].
    rewrite <- H3. apply Permutation_app_comm.
  - intros [[e X] f] [[e' X'] f'] [[e'' X''] f''] (H1 & H2 & H3) (H4 & H5 & H6). simpl in *.
    repeat split; simpl; try congruence.
    destruct H3 as [H3|H3], H6 as [H6|H6].
    + left. etransitivity; eauto.
    + right. now rewrite H3.
    + right. now rewrite <- H6.
    + left. apply (Permutation_app_inv_l X').
      rewrite (Permutation_app_comm X' X), H3, H6. reflexivity.
Qed.

Global Instance bs_same_Equivalence : Equivalence bs_same.
Proof.
  split.
  - intros [[e X] f]. repeat split; auto.
  - intros x y (H1 & H2 & H3). repeat split; auto. now symmetry.
  - intros x y z (H1 & H2 & H3) (H4 & H5 & H6). repeat split; try congruence.
    etransitivity; eauto.
Qed.

Lemma bs_same_bs_eq L x y : bs_same x y -> bs_eq L x y.
Proof. intros (H1 & H2 & H3). repeat split; auto. Qed.

Lemma bs_eq_permL L L' x y : Permutation L L' -> bs_eq L x y -> bs_eq L' x y.
Proof.
  intros HL (H1 & H2 & H3). repeat split; auto.
  destruct H3; [left; auto|right]. now rewrite <- HL.
Qed.

Global Instance splits_equiv_Equivalence L : Equivalence (splits_equiv L).
Proof. unfold splits_equiv. apply PermR_Equivalence. apply bs_eq_Equivalence. Qed.

Lemma splits_equiv_permL L L' l l' :
  Permutation L L' -> splits_equiv L l l' -> splits_equiv L' l l'.
Proof. intros HL. apply PermR_mono. intros x y. now apply bs_eq_permL. Qed.

Lemma splits_equiv_perm L l l' : Permutation l l' -> splits_equiv L l l'.
Proof. apply PermR_of_perm. apply bs_eq_Equivalence. Qed.

(** * one rotation *)
Lemma step_bsplits n c sl k e n' c' sl' :
  nth_error sl k = Some (Some (e, UNode n' c' sl')) ->
  wf (UNode n c sl) = true -> 2 <= length sl -> 2 <= length sl' ->
  splits_equiv (leaves (UNode n c sl))
    (bsplits (UNode n' c' (replace_up sl' (Some (e, UNode n c (set_nth k None sl))))))
    (bsplits (UNode n c sl)).
Proof.
  intros Hk Hwf Hd Hd'.
  destruct (step_shape n c sl k e n' c' sl' Hk Hwf Hd Hd')
    as [A [B [A' [B' [E1 [E2 [E3 [E4 [N N']]]]]]]]].
  rewrite !bsplits_unfold, E4, E1, !kbs_app, !kbs_cons. cbn [fst snd].
  rewrite !bsplits_unfold, E2, E3, !kbs_app.
  rewrite (isleaf_false n c (set_nth k None sl)) by (rewrite E2; auto).
  rewrite (isleaf_false n' c' sl') by (rewrite E3; auto).
  set (R := UNode n c (set_nth k None sl)). set (ch := UNode n' c' sl').
  transitivity ((e, leaves R, false) :: (kbs A' ++ kbs A ++ kbs B ++ kbs B')).
  { apply splits_equiv_perm. perm. }
  transitivity ((e, leaves ch, false) :: (kbs A' ++ kbs A ++ kbs B ++ kbs B')).
  2:{ apply splits_equiv_perm. perm. }
  apply PR_skip; [|reflexivity].
  repeat split; auto. right. cbn [fst snd].
  unfold R, ch. rewrite !leaves_node by (rewrite ?E1, ?E2, ?E3; auto; destruct A; discriminate).
  rewrite E1, E2, E3, !kleaves_app, kleaves_cons. cbn [snd].
  rewrite leaves_node by (rewrite E3; auto). rewrite E3, kleaves_app. perm.
Qed.

Lemma rotate_to_bsplits t k t' :
  wf t = true -> 2 <= degree t -> path_ok t [k] -> rotate_to t k = Some t' ->
  splits_equiv (leaves t) (bsplits t') (bsplits t).
Proof.
  destruct t as [n c sl]. intros Hwf Hd Hp Hr. simpl in Hp, Hr.
  destruct (nth_error sl k) as [[[e [n' c' sl']]|]|] eqn:Hk; try discriminate; try tauto.
  destruct Hp as [Hd' _]. inversion Hr; subst t'. unfold degree in Hd, Hd'. simpl in Hd, Hd'.
  apply step_bsplits; auto.
Qed.

Theorem reroot_path_bsplits p : forall t t',
  wf t = true -> 2 <= degree t -> path_ok t p -> reroot_path t p = Some t' ->
  splits_equiv (leaves t) (bsplits t') (bsplits t).
Proof.
  induction p as [|k r IH]; intros t t' Hwf Hd Hp H.
  - simpl in H. inversion H; subst. reflexivity.
  - assert (Hp1 : path_ok t [k]).
    { simpl in *. destruct (nth_error (uslots t) k) as [[[e ch]|]|]; tauto. }
    destruct (rotate_to_defined _ _ Hp1) as [t1 Hr].
    destruct (rotate_to_preserves _ _ _ Hwf Hd Hp1 Hr) as [W1 [D1 [L1 P1]]].
    assert (Hp2 : path_ok t1 r).
    { destruct t as [n c sl]. simpl in Hr, Hp.
      destruct (nth_error sl k) as [[[e [n' c' sl']]|]|]; try tauto.
      inversion Hr; subst. apply path_ok_replace_up with (n := n') (c := c'). tauto. }
    simpl in H. rewrite Hr in H.
    transitivity (bsplits t1).
    + apply (splits_equiv_permL (leaves t1)); auto.
    + now apply (rotate_to_bsplits t k).
Qed.

Theorem reroot_bsplits t i t' :
  wf t = true -> 2 <= degree t -> reroot t i = Ok t' ->
  splits_equiv (leaves t) (bsplits t') (bsplits t).
Proof.
  intros Hwf Hd H. unfold reroot in H.
  destruct (nth_error (paths t) i) as [p|]; [|discriminate].
  destruct (node_at t p) as [m|] eqn:Hn; [|discriminate].
  destruct (Nat.ltb (degree m) 2) eqn:Hm; [discriminate|].
  apply Nat.ltb_ge in Hm.
  assert (Hp : path_ok t p) by (eapply node_at_path_ok; eauto).
  destruct (reroot_path t p) as [t1|] eqn:E; [|discriminate].
  inversion H; subst. eapply reroot_path_bsplits; eauto.
Qed.

(** * reorderings *)
Lemma tperm_isleaf t t' : tperm t t' -> isleaf t' = isleaf t.
Proof.
  revert t t'. apply tperm_ind'. intros n c sl sl' M HK HM HU.
  unfold isleaf, kids. simpl.
  pose proof (Forall2_nil_iff _ _ _ HK) as N1. pose proof (Permutation_nil_iff _ _ HM) as N2.
  destruct (kids_of sl) as [|k0 K0], (kids_of sl') as [|k1 K1]; auto.
  - assert (E : k1 :: K1 = []) by (apply N2, N1; reflexivity). discriminate.
  - assert (E : k0 :: K0 = []) by (apply N1, N2; reflexivity). discriminate.
Qed.

Theorem tperm_bsplits t t' : tperm t t' -> PermR bs_same (bsplits t') (bsplits t).
Proof.
  revert t t'. apply tperm_ind'. intros n c sl sl' M HK HM HU.
  rewrite !bsplits_unfold.
  transitivity (kbs M).
  { apply PermR_of_perm; [apply bs_same_Equivalence|].
    unfold kbs. apply Permutation_flat_map. now symmetry. }
  clear HM. induction HK as [|p q K M' Hp HK IH]; [reflexivity|].
  rewrite !kbs_cons. destruct Hp as [E [Hpq Hb]].
  apply PR_skip.
  - repeat split; cbn [fst snd]; auto.
    + now apply tperm_isleaf.
    + now apply tperm_leaves.
  - apply PermR_app; auto. apply bs_same_Equivalence.
Qed.

Corollary tperm_splits_equiv L t t' : tperm t t' -> splits_equiv L (bsplits t') (bsplits t).
Proof.
  intros H. eapply PermR_mono; [|apply tperm_bsplits, H]. intros x y. apply bs_same_bs_eq.
Qed.

(** * unrooting: the two root branches become one, everything else is kept *)
Lemma rooted_bsplits n0 c0 e1 N1 e2 N2 :
  bsplits (UNode n0 c0 [Some (e1, N1); Some (e2, N2)]) =
  (e1, leaves N1, isleaf N1) :: bsplits N1 ++ (e2, leaves N2, isleaf N2) :: bsplits N2.
Proof. rewrite bsplits_unfold. simpl. unfold kbs. simpl. now rewrite app_nil_r. Qed.

Theorem unroot_bsplits n0 c0 e1 n1 c1 sl1 e2 n2 c2 sl2 :
  let N1 := UNode n1 c1 sl1 in
  let N2 := UNode n2 c2 sl2 in
  let e3 := merged_edge e1 e2 (Nat.eqb (length sl1) 1) (Nat.eqb (length sl2) 1) in
  let far := if Nat.eqb (length sl1) 1 then N1 else N2 in
  Permutation (bsplits (unroot (UNode n0 c0 [Some (e1, N1); Some (e2, N2)])))
              ((e3, leaves far, isleaf far) :: bsplits N1 ++ bsplits N2).
Proof.
  intros N1 N2 e3 far. unfold N1, N2. rewrite unroot_eq. cbv zeta. fold e3. unfold far.
  destruct (Nat.eqb (length sl1) 1).
  - rewrite bsplits_unfold, kids_of_app, kids_of_drop_up, kbs_app. simpl kids_of.
    rewrite kbs_cons. cbn [fst snd]. change (kbs []) with (@nil (einfo * list string * bool)).
    rewrite app_nil_r, <- (bsplits_unfold n2 c2 sl2).
    assert (K : kids_of (drop_up sl1 ++ [None]) = kids_of sl1).
    { rewrite kids_of_app, kids_of_drop_up. simpl. now rewrite app_nil_r. }
    rewrite (leaves_kids n1 c1 _ n1 c1 sl1 eq_refl K), (isleaf_kids n1 c1 _ n1 c1 sl1 K),
      (bsplits_kids n1 c1 _ n1 c1 sl1 K).
    fold N1 N2. perm.
  - rewrite bsplits_unfold, kids_of_app, kids_of_drop_up, kbs_app. simpl kids_of.
    rewrite kbs_cons. cbn [fst snd]. change (kbs []) with (@nil (einfo * list string * bool)).
    rewrite app_nil_r, <- (bsplits_unfold n1 c1 sl1).
    assert (K : kids_of (drop_up sl2 ++ [None]) = kids_of sl2).
    { rewrite kids_of_app, kids_of_drop_up. simpl. now rewrite app_nil_r. }
    rewrite (leaves_kids n2 c2 _ n2 c2 sl2 eq_refl K), (isleaf_kids n2 c2 _ n2 c2 sl2 K),
      (bsplits_kids n2 c2 _ n2 c2 sl2 K).
    fold N1 N2. perm.
Qed.

(** the length of the merged branch is [merge_len] of Spec/Obs.v (what [usplits] computes for
    the two root branches of the rooted tree) *)
Lemma elen_merged_merge_len e1 e2 b1 b2 :
  elen (merged_edge e1 e2 b1 b2) = merge_len (elen e1) (elen e2).
Proof.
  unfold merged_edge, merge_len, qmax. cbn [elen].
  destruct (qeqb (elen e1) nilv), (qeqb (elen e2) nilv); reflexivity.
Qed.

(** * canonical sides: sorted string sets *)
Definition slt (a b : string) : Prop := String.compare a b = Lt.

Lemma slt_trans a b c : slt a b -> slt b c -> slt a c.
Proof.
  unfold slt. intros H1 H2.
  apply OrderedTypeEx.String_as_OT.cmp_lt in H1, H2. apply OrderedTypeEx.String_as_OT.cmp_lt.
  eapply OrderedTypeEx.String_as_OT.lt_trans; eauto.
Qed.
Lemma slt_irrefl a : ~ slt a a.
Proof.
  unfold slt. intros H. assert (E : String.compare a a = Eq) by (apply OrderedTypeEx.String_as_OT.cmp_eq; reflexivity).
  congruence.
Qed.
Lemma compare_gt_lt a b : String.compare a b = Gt -> slt b a.
Proof.
  unfold slt. intros H. rewrite String.compare_antisym, H. reflexivity.
Qed.

Lemma sinsert_In x l y : In y (sinsert x l) <-> y = x \/ In y l.
Proof.
  induction l as [|z r IH]; simpl; [intuition|].
  destruct (String.compare x z) eqn:E; simpl.
  - apply OrderedTypeEx.String_as_OT.cmp_eq in E. subst. intuition.
  - intuition.
  - rewrite IH. intuition.
Qed.

Lemma sset_In l y : In y (sset l) <-> In y l.
Proof.
  unfold sset. induction l as [|x r IH]; simpl; [tauto|].
  rewrite sinsert_In, IH. intuition.
Qed.

Lemma sinsert_sorted x l : StronglySorted slt l -> StronglySorted slt (sinsert x l).
Proof.
  induction 1 as [|z r Hs IH Hz]; simpl.
  - repeat constructor.
  - destruct (String.compare x z) eqn:E.
    + now constructor.
    + constructor; [now constructor|]. constructor; auto.
      rewrite Forall_forall in *. intros y Hy. eapply slt_trans; [exact E|auto].
    + constructor; auto. rewrite Forall_forall in *. intros y Hy.
      apply sinsert_In in Hy as [->|Hy]; auto. now apply compare_gt_lt.
Qed.

Lemma sset_sorted l : StronglySorted slt (sset l).
Proof.
  unfold sset. induction l; simpl; [constructor|]. now apply sinsert_sorted.
Qed.

Lemma sorted_ext l1 : forall l2,
  StronglySorted slt l1 -> StronglySorted slt l2 -> (forall x, In x l1 <-> In x l2) -> l1 = l2.
Proof.
  induction l1 as [|a r1 IH]; intros [|b r2] S1 S2 H.
  - reflexivity.
  - exfalso. apply (H b). now left.
  - exfalso. apply (H a). now left.
  - inversion S1 as [|? ? S1' F1]; subst. inversion S2 as [|? ? S2' F2]; subst.
    rewrite Forall_forall in F1, F2.
    assert (a = b).
    { destruct (proj1 (H a) (or_introl eq_refl)) as [E|Ha]; auto.
      destruct (proj2 (H b) (or_introl eq_refl)) as [E|Hb]; auto.
      exfalso. apply (slt_irrefl a). eapply slt_trans; [apply F1, Hb|apply F2, Ha]. }
    subst b. f_equal. apply IH; auto. intros x. split; intros Hx.
    + destruct (proj1 (H x) (or_intror Hx)) as [E|Hx']; auto.
      subst x. exfalso. apply (slt_irrefl a). now apply F1.
    + destruct (proj2 (H x) (or_intror Hx)) as [E|Hx']; auto.
      subst x. exfalso. apply (slt_irrefl a). now apply F2.
Qed.

Lemma filter_sorted {A} (R : A -> A -> Prop) f l : StronglySorted R l -> StronglySorted R (filter f l).
Proof.
  induction 1 as [|a r Hs IH Ha]; simpl; [constructor|].
  destruct (f a); auto. constructor; auto.
  rewrite Forall_forall in *. intros y Hy. apply filter_In in Hy. apply Ha. tauto.
Qed.

Lemma sset_ext l l' : (forall x, In x l <-> In x l') -> sset l = sset l'.
Proof.
  intros H. apply sorted_ext; try apply sset_sorted. intros x. rewrite !sset_In. apply H.
Qed.

Lemma sset_perm l l' : Permutation l l' -> sset l = sset l'.
Proof.
  intros H. apply sset_ext. intros x. split; apply Permutation_in; auto. now symmetry.
Qed.

Lemma smem_In x l : smem x l = true <-> In x l.
Proof.
  unfold smem. rewrite existsb_exists. split.
  - intros [y [Hy E]]. apply String.eqb_eq in E. now subst.
  - intros H. exists x. split; auto. apply String.eqb_refl.
Qed.

Lemma smem_sset x l : smem x (sset l) = true <-> In x l.
Proof. rewrite smem_In. apply sset_In. Qed.

Lemma NoDup_app_disjoint {A} (X Y : list A) x : NoDup (X ++ Y) -> In x X -> In x Y -> False.
Proof.
  induction X as [|a X IH]; simpl; intros H HX HY; [tauto|].
  inversion H; subst. destruct HX as [->|HX].
  - apply H2. apply in_or_app. now right.
  - now apply IH.
Qed.

(** complementary sides have the same canonical side *)
Lemma sdiff_complement L X X' :
  NoDup L -> Permutation (X ++ X') L -> sdiff (sset L) (sset X) = sset X'.
Proof.
  intros ND HP. apply sorted_ext.
  - apply filter_sorted, sset_sorted.
  - apply sset_sorted.
  - intros x. unfold sdiff. rewrite filter_In, !sset_In, negb_true_iff.
    assert (ND' : NoDup (X ++ X')) by (eapply Permutation_NoDup; [symmetry; exact HP|exact ND]).
    split.
    + intros [HL Hn]. apply (Permutation_in _ (Permutation_sym HP)) in HL.
      apply in_app_or in HL as [HX|HX']; auto.
      exfalso. assert (T : smem x (sset X) = true) by (apply smem_sset, HX). congruence.
    + intros HX'. split.
      * apply (Permutation_in _ HP). apply in_or_app. now right.
      * destruct (smem x (sset X)) eqn:E; auto.
        apply (proj1 (smem_sset _ _)) in E. exfalso. eapply NoDup_app_disjoint; eauto.
Qed.

Lemma canon_side_complement L X X' :
  NoDup L -> Permutation (X ++ X') L ->
  canon_side (sset L) (sset X) = canon_side (sset L) (sset X').
Proof.
  intros ND HP. unfold canon_side.
  destruct (sset L) as [|m all'] eqn:EL.
  - assert (HL : forall x, ~ In x L).
    { intros x Hx. apply sset_In in Hx. rewrite EL in Hx. destruct Hx. }
    apply sset_ext. intros x. split; intros Hx; exfalso; apply (HL x), (Permutation_in _ HP),
      in_or_app; auto.
  - rewrite <- EL.
    assert (Hm : In m L) by (apply sset_In; rewrite EL; now left).
    assert (ND' : NoDup (X ++ X')) by (eapply Permutation_NoDup; [symmetry; exact HP|exact ND]).
    apply (Permutation_in _ (Permutation_sym HP)) in Hm. apply in_app_or in Hm as [HX|HX'].
    + assert (T : smem m (sset X) = true) by (apply smem_sset, HX).
      assert (F : smem m (sset X') = false).
      { destruct (smem m (sset X')) eqn:E; auto. apply (proj1 (smem_sset _ _)) in E.
        exfalso. eapply NoDup_app_disjoint; eauto. }
      rewrite T, F. now apply sdiff_complement.
    + assert (T : smem m (sset X') = true) by (apply smem_sset, HX').
      assert (F : smem m (sset X) = false).
      { destruct (smem m (sset X)) eqn:E; auto. apply (proj1 (smem_sset _ _)) in E.
        exfalso. eapply NoDup_app_disjoint; eauto. }
      rewrite T, F. symmetry. apply sdiff_complement; auto.
      rewrite <- HP. apply Permutation_app_comm.
Qed.

Lemma canon_split_bs_eq L x y :
  NoDup L -> bs_eq L x y -> canon_split (sset L) x = canon_split (sset L) y.
Proof.
  destruct x as [[e X] f], y as [[e' X'] f']. intros ND (H1 & H2 & H3). simpl in *. subst.
  unfold canon_split. cbn [fst snd]. f_equal.
  destruct H3 as [H3|H3].
  - now rewrite (sset_perm _ _ H3).
  - now apply canon_side_complement.
Qed.

Lemma canon_split_bs_same all x y : bs_same x y -> canon_split all x = canon_split all y.
Proof.
  destruct x as [[e X] f], y as [[e' X'] f']. intros (H1 & H2 & H3). simpl in *. subst.
  unfold canon_split. cbn [fst snd]. now rewrite (sset_perm _ _ H3).
Qed.

(** [branch_splits] is the canonical form of [bsplits] *)
Lemma branch_splits_bsplits all t : branch_splits all t = map (canon_split all) (bsplits t).
Proof.
  induction t as [n c sl IH] using utree_ind'. simpl.
  induction IH as [|[[e ch]|] l Hs H IHl]; simpl; auto.
  rewrite map_app, IHl, Hs. reflexivity.
Qed.

Theorem splits_equiv_branch_splits L t t' :
  NoDup L -> splits_equiv L (bsplits t') (bsplits t) ->
  Permutation (branch_splits (sset L) t') (branch_splits (sset L) t).
Proof.
  intros ND H. rewrite !branch_splits_bsplits.
  eapply PermR_map_eq; [|exact H]. intros x y. now apply canon_split_bs_eq.
Qed.

(** ** the canonical statements *)
Theorem reroot_branch_splits t i t' :
  wf t = true -> 2 <= degree t -> NoDup (leaves t) -> reroot t i = Ok t' ->
  tipset t' = tipset t /\
  Permutation (branch_splits (tipset t') t') (branch_splits (tipset t) t).
Proof.
  intros Hwf Hd ND H.
  destruct (reroot_preserves t i t' Hwf Hd H) as [_ [_ [HL _]]].
  assert (E : tipset t' = tipset t) by (unfold tipset; now apply sset_perm).
  split; auto. rewrite E. unfold tipset.
  apply splits_equiv_branch_splits; auto. eapply reroot_bsplits; eauto.
Qed.

Theorem tperm_branch_splits all t t' :
  tperm t t' -> Permutation (branch_splits all t') (branch_splits all t).
Proof.
  intros H. rewrite !branch_splits_bsplits.
  eapply PermR_map_eq; [|apply tperm_bsplits, H]. intros x y. apply canon_split_bs_same.
Qed.

Theorem tperm_tipset t t' : tperm t t' -> tipset t' = tipset t.
Proof. intros H. unfold tipset. now apply sset_perm, tperm_leaves. Qed.

Theorem unroot_branch_splits all n0 c0 e1 n1 c1 sl1 e2 n2 c2 sl2 :
  let N1 := UNode n1 c1 sl1 in
  let N2 := UNode n2 c2 sl2 in
  let e3 := merged_edge e1 e2 (Nat.eqb (length sl1) 1) (Nat.eqb (length sl2) 1) in
  let far := if Nat.eqb (length sl1) 1 then N1 else N2 in
  Permutation (branch_splits all (unroot (UNode n0 c0 [Some (e1, N1); Some (e2, N2)])))
              (canon_split all (e3, leaves far, isleaf far)
               :: branch_splits all N1 ++ branch_splits all N2).
Proof.
  intros N1 N2 e3 far. rewrite !branch_splits_bsplits, <- map_app.
  change (canon_split all (e3, leaves far, isleaf far) :: map (canon_split all) (bsplits N1 ++ bsplits N2))
    with (map (canon_split all) ((e3, leaves far, isleaf far) :: bsplits N1 ++ bsplits N2)).
  apply Permutation_map. apply unroot_bsplits.
Qed.
