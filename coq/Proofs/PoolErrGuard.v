(** Model/PoolErrGuard.v: after a second failing worker has returned with errmux locked, a
    third failing worker waits in Lock() for ever: wg.Wait() never returns. *)
From Coq Require Import Bool Arith Lia List.
From GT Require Import Model.Pool Model.PoolErr Model.PoolErrGuard Proofs.Pool Proofs.PoolErr.
Import ListNotations.

Local Arguments epending {job err} _.
Local Arguments eclosed {job err} _.
Local Arguments equeue {job err} _.
Local Arguments ews {job err} _.
Local Arguments emutex {job err} _.
Local Arguments efirst {job err} _.
Local Arguments echan {job err} _.
Local Arguments mkE {job err}.
Local Arguments eproducer_step {job err}.
Local Arguments eworker_step {job err}.
Local Arguments einit {job err}.
Local Arguments efinished {job err} _.
Local Arguments e_exited {job} _.
Local Arguments eworker_step_spec {job err}.
Local Arguments ncrit {job} _.
Local Arguments in_crit {job} _.
Local Arguments ncrit_mid {job}.
Local Arguments gworker_step {job err}.
Local Arguments gstep {job err}.
Local Arguments grun {job err}.

Section GuardProofs.
  Variables (job err : Type).
  Variable fails : job -> bool.
  Variable e_of : job -> err.

  Local Notation state := (est job err).
  Local Notation stepg := (gstep fails e_of).
  Local Notation rung := (grun fails e_of).

  (** the mutex is held, nobody is inside the critical section, worker [i] wants in *)
  Definition stuckG (s : state) (i : nat) (j : job) : Prop :=
    emutex s = true /\ ncrit (ews s) = 0 /\ nth_error (ews s) i = Some (EBusy j) /\ fails j = true.

  Lemma stuckG_step s i j a : stuckG s i j -> stuckG (stepg s a) i j.
  Proof.
    intros (Mx & Nc & Hn & Hf). destruct a as [|i']; simpl.
    - unfold eproducer_step. destruct (epending s); repeat split; simpl; auto.
    - assert (Hnc : forall l1 w l2, ews s = l1 ++ w :: l2 -> in_crit w = 0).
      { intros l1 w l2 Hw. rewrite Hw, ncrit_mid in Nc. lia. }
      assert (E : gworker_step fails e_of s i' = eworker_step fails e_of ByMutex s i').
      { unfold gworker_step. destruct (nth_error (ews s) i') as [w|] eqn:N; [|reflexivity].
        destruct w; try reflexivity. exfalso.
        destruct (nth_error_split _ _ N) as (l1 & l2 & Hw & _).
        specialize (Hnc _ _ _ Hw). discriminate. }
      rewrite E.
      destruct (eworker_step_spec fails e_of ByMutex s i') as
        [ | l1 l2 j' q Hw Hi Q | l1 l2 Hw Hi Q C | l1 l2 j' Hw Hi F | l1 l2 j' Hw Hi F Mo Mx'
          | l1 l2 j' Hw Hi F Mo L | l1 l2 j' Hw Hi | l1 l2 Hw Hi ];
        [repeat split; auto| | | | | | | ];
        try (specialize (Hnc _ _ _ Hw); discriminate); try congruence;
        (split; [exact Mx|split; [|split; [|exact Hf]]]); simpl;
        try (rewrite Hw, ncrit_mid in Nc; rewrite ncrit_mid; simpl in *; lia);
        rewrite Hw in Hn; subst i';
        (destruct (Nat.eq_dec i (length l1)) as [->|Ne];
         [rewrite nth_error_mid_eq in Hn; try discriminate
         |erewrite nth_error_mid_neq; [exact Hn|exact Ne]]).
      injection Hn as <-. congruence.
  Qed.

  Lemma stuckG_never_finishes s i j cont : stuckG s i j -> efinished (rung cont s) = false.
  Proof.
    revert s. induction cont as [|a cont IH]; intros s H; simpl.
    - destruct H as (_ & _ & Hn & _). unfold efinished.
      destruct (forallb e_exited (ews s)) eqn:F; auto.
      rewrite forallb_forall in F. specialize (F _ (nth_error_In _ _ Hn)). discriminate.
    - apply IH. apply stuckG_step; auto.
  Qed.

  Lemma grun_app s1 s2 (s : state) : rung (s1 ++ s2) s = rung s2 (rung s1 s).
  Proof. unfold grun. apply fold_left_app. Qed.

  Lemma grun_cons a l (s : state) : rung (a :: l) s = rung l (stepg s a).
  Proof. reflexivity. Qed.

  (** three erroneous trees, three (or more) workers: each takes one; the first sets err and
      unlocks; the second finds err set and returns with the mutex locked; the third is stuck *)
  Lemma guard_clause_deadlocks j1 j2 j3 rest n cont :
    fails j1 = true -> fails j2 = true -> fails j3 = true ->
    efinished (rung cont (rung [0;0;0; 1;2;3; 1;1;1; 2;2]
                               (einit (j1 :: j2 :: j3 :: rest) (S (S (S n)))))) = false.
  Proof.
    intros F1 F2 F3. apply (stuckG_never_finishes _ 2 j3).
    set (I := repeat (@EIdle job) n).
    assert (E6 : rung [0;0;0; 1;2;3] (einit (j1 :: j2 :: j3 :: rest) (S (S (S n))))
                 = mkE rest false [] (EBusy j1 :: EBusy j2 :: EBusy j3 :: I) false None [])
      by reflexivity.
    assert (E7 : stepg (mkE rest false [] (EBusy j1 :: EBusy j2 :: EBusy j3 :: I) false None []) 1
                 = mkE rest false [] (ECrit j1 :: EBusy j2 :: EBusy j3 :: I) true None []).
    { unfold gstep, gworker_step, eworker_step. simpl. rewrite F1. reflexivity. }
    assert (E8 : stepg (mkE rest false [] (ECrit j1 :: EBusy j2 :: EBusy j3 :: I) true None []) 1
                 = mkE rest false [] (ELeave :: EBusy j2 :: EBusy j3 :: I) true (Some (e_of j1)) [])
      by reflexivity.
    assert (E9 : stepg (mkE rest false [] (ELeave :: EBusy j2 :: EBusy j3 :: I) true (Some (e_of j1)) []) 1
                 = mkE rest false [] (EExited :: EBusy j2 :: EBusy j3 :: I) false (Some (e_of j1)) [])
      by reflexivity.
    assert (E10 : stepg (mkE rest false [] (EExited :: EBusy j2 :: EBusy j3 :: I) false (Some (e_of j1)) []) 2
                 = mkE rest false [] (EExited :: ECrit j2 :: EBusy j3 :: I) true (Some (e_of j1)) []).
    { unfold gstep, gworker_step, eworker_step. simpl. rewrite F2. reflexivity. }
    assert (E11 : stepg (mkE rest false [] (EExited :: ECrit j2 :: EBusy j3 :: I) true (Some (e_of j1)) []) 2
                 = mkE rest false [] (EExited :: EExited :: EBusy j3 :: I) true (Some (e_of j1)) [])
      by reflexivity.
    change [0;0;0; 1;2;3; 1;1;1; 2;2] with ([0;0;0; 1;2;3] ++ [1;1;1;2;2]).
    rewrite grun_app, E6.
    rewrite grun_cons, E7, grun_cons, E8, grun_cons, E9, grun_cons, E10, grun_cons, E11.
    unfold grun. simpl fold_left.
    repeat split; auto.
    unfold ncrit. simpl. unfold I. clear. induction n; simpl; auto.
  Qed.
End GuardProofs.
