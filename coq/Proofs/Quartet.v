(** Proofs about Model/Quartet.v.  The agreement "HashEquals => same HashCode" is FALSE of the
    code (the second compare-exchange of Quartet.HashCode sorts the wrong way); what does hold
    is invariance under swaps inside each pair. *)
From Coq Require Import NArith ZArith Bool Lia List.
From GT Require Import Model.Index Model.HashMap Model.Quartet.
Import ListNotations.

(** minimal witness: (0,1|2,3) and (2,3|0,1) are the same quartet (Compare = QUARTET_EQUALS) *)
Lemma quartet_witness :
  q_compare (mkQ 0 1 2 3) (mkQ 2 3 0 1) = QEquals /\
  q_hash_equals (mkQ 0 1 2 3) (mkQ 2 3 0 1) = true /\
  q_hash_code (mkQ 0 1 2 3) = 924577%N /\ q_hash_code (mkQ 2 3 0 1) = 953377%N.
Proof. vm_compute. repeat split. Qed.

Lemma quartet_hash_compat_refuted :
  exists q q', q_hash_equals q q' = true /\ q_hash_code q <> q_hash_code q'.
Proof. exists (mkQ 0 1 2 3), (mkQ 2 3 0 1). vm_compute. split; [reflexivity | discriminate]. Qed.

(** the witness of DESIGN.md *)
Lemma quartet_witness_1234 :
  q_hash_equals (mkQ 1 2 3 4) (mkQ 3 4 1 2) = true /\
  q_hash_code (mkQ 1 2 3 4) = 955361%N /\ q_hash_code (mkQ 3 4 1 2) = 984161%N.
Proof. vm_compute. repeat split. Qed.

(** consequence for a HashMap keyed by quartets (IndexQuartets): a stored quartet is not found
    under another presentation, whereas the association list with the same HashEquals finds it *)
Lemma quartet_map_refuted :
  let need := fun (_ : nat) (_ : N) => false in
  let ops := [OPut (mkQ 0 1 2 3) 7%Z; OValue (mkQ 2 3 0 1)] in
  (exists mf, run quartet Z q_hash_code q_hash_equals need (new_hashmap quartet Z 256) ops = Some ([RPut; RValue None], mf)) /\
  fst (run_assoc quartet Z q_hash_equals [] ops) = [RPut; RValue (Some 7%Z)].
Proof. split; [eexists|]; vm_compute; reflexivity. Qed.

(** what remains true: the hash does not depend on the order inside each pair *)
Lemma cswap_lt_comm : forall a b, cswap_lt a b = cswap_lt b a.
Proof.
  intros. unfold cswap_lt.
  destruct (Z.ltb_spec b a), (Z.ltb_spec a b); try reflexivity; try lia.
  assert (a = b) by lia. subst. reflexivity.
Qed.

Lemma quartet_hash_compat_partial : forall a b c d,
    q_hash_code (mkQ a b c d) = q_hash_code (mkQ b a c d) /\
    q_hash_code (mkQ a b c d) = q_hash_code (mkQ a b d c).
Proof.
  intros. unfold q_hash_code. simpl.
  rewrite (cswap_lt_comm (to_int a) (to_int b)).
  rewrite (cswap_lt_comm (to_int d) (to_int c)).
  split; reflexivity.
Qed.

(** HashEquals itself is what it should be on the eight presentations of one quartet *)
Lemma quartet_equals_presentations : forall a b c d,
    q_compare (mkQ a b c d) (mkQ a b c d) = QEquals /\
    q_compare (mkQ a b c d) (mkQ b a c d) = QEquals /\
    q_compare (mkQ a b c d) (mkQ a b d c) = QEquals /\
    q_compare (mkQ a b c d) (mkQ b a d c) = QEquals /\
    q_compare (mkQ a b c d) (mkQ c d a b) = QEquals /\
    q_compare (mkQ a b c d) (mkQ d c a b) = QEquals /\
    q_compare (mkQ a b c d) (mkQ c d b a) = QEquals /\
    q_compare (mkQ a b c d) (mkQ d c b a) = QEquals.
Proof.
  intros. unfold q_compare. simpl. rewrite !N.eqb_refl. simpl.
  repeat split; try reflexivity;
    repeat (rewrite ?andb_true_r, ?orb_true_r, ?andb_true_l, ?orb_true_l; simpl); try reflexivity;
    destruct (a =? b)%N, (c =? d)%N, (a =? c)%N, (a =? d)%N, (b =? c)%N, (b =? d)%N, (c =? a)%N, (d =? a)%N, (c =? b)%N, (d =? b)%N; reflexivity.
Qed.

(** * the proposed repair *)
(** Quartet.HashCode with the second compare-exchange turned the right way
    (if i4 < i3 { i3, i4 = i4, i3 }): a 5-comparator sorting network *)
Definition sort4 (i1 i2 i3 i4 : Z) : Z * Z * Z * Z :=
  let '(i1, i2) := cswap_lt i1 i2 in
  let '(i3, i4) := cswap_lt i3 i4 in
  let '(i1, i3) := cswap_lt i1 i3 in
  let '(i2, i4) := cswap_lt i2 i4 in
  let '(i2, i3) := cswap_lt i2 i3 in (i1, i2, i3, i4).
Definition q_hash_code_fixed (q : quartet) : N :=
  let '(i1, i2, i3, i4) := sort4 (to_int (qt1 q)) (to_int (qt2 q)) (to_int (qt3 q)) (to_int (qt4 q)) in
  w64 (31 * w64 (31 * w64 (31 * w64 (31 + of_int i1) + of_int i2) + of_int i3) + of_int i4).

Ltac brute := unfold sort4, cswap_lt;
  repeat match goal with |- context[(?x <? ?y)%Z] => destruct (Z.ltb_spec x y) end;
  try (repeat f_equal; lia).

Lemma t12 : forall a b c d, sort4 a b c d = sort4 b a c d.
Proof. intros. brute. Qed.
Lemma t23 : forall a b c d, sort4 a b c d = sort4 a c b d.
Proof. intros. brute. Qed.
Lemma t34 : forall a b c d, sort4 a b c d = sort4 a b d c.
Proof. intros. brute. Qed.

(** every permutation is a product of at most six adjacent transpositions *)
Ltac psearch n :=
  reflexivity ||
  match n with
  | S ?m =>
    match goal with
    | |- sort4 ?a ?b ?c ?d = _ =>
      (rewrite (t12 a b c d); psearch m) || (rewrite (t23 a b c d); psearch m) || (rewrite (t34 a b c d); psearch m)
    end
  end.

Lemma hash_equals_sort4 : forall q q',
    q_hash_equals q q' = true ->
    sort4 (to_int (qt1 q)) (to_int (qt2 q)) (to_int (qt3 q)) (to_int (qt4 q)) =
    sort4 (to_int (qt1 q')) (to_int (qt2 q')) (to_int (qt3 q')) (to_int (qt4 q')).
Proof.
  intros [a1 a2 a3 a4] [b1 b2 b3 b4]. unfold q_hash_equals, q_compare. simpl.
  repeat match goal with |- context[if ?c then _ else _] => destruct c eqn:? end; try discriminate; intros _;
    match goal with H : _ = true |- _ =>
      rewrite !andb_true_iff, !orb_true_iff, !andb_true_iff, !N.eqb_eq in H; clear - H;
      destruct H as [[[? ?]|[? ?]] [[? ?]|[? ?]]]; subst end;
    generalize (to_int b1) (to_int b2) (to_int b3) (to_int b4); intros.
  all: timeout 60 psearch 6.
Qed.

Theorem quartet_hash_compat_fixed : forall q q',
    q_hash_equals q q' = true -> q_hash_code_fixed q = q_hash_code_fixed q'.
Proof. intros q q' H. unfold q_hash_code_fixed. now rewrite (hash_equals_sort4 q q' H). Qed.
