(** Proofs about Model/Quartet.v: Quartet.HashCode sorts the four taxa with a 5-comparator
    network, so quartets that are HashEquals (equal or conflicting: same four taxa) always have
    the same HashCode. *)
From Coq Require Import NArith ZArith Bool Lia List.
From GT Require Import Model.Index Model.HashMap Model.Quartet.
Import ListNotations.

(** the five compare-exchanges of Quartet.HashCode *)
Definition sort4 (i1 i2 i3 i4 : Z) : Z * Z * Z * Z :=
  let '(i1, i2) := cswap_lt i1 i2 in
  let '(i3, i4) := cswap_lt i3 i4 in
  let '(i1, i3) := cswap_lt i1 i3 in
  let '(i2, i4) := cswap_lt i2 i4 in
  let '(i2, i3) := cswap_lt i2 i3 in (i1, i2, i3, i4).

Lemma q_hash_code_sort4 : forall q,
    q_hash_code q =
    let '(i1, i2, i3, i4) := sort4 (to_int (qt1 q)) (to_int (qt2 q)) (to_int (qt3 q)) (to_int (qt4 q)) in
    w64 (31 * w64 (31 * w64 (31 * w64 (31 + of_int i1) + of_int i2) + of_int i3) + of_int i4).
Proof.
  intros q. unfold q_hash_code, sort4.
  destruct (cswap_lt (to_int (qt1 q)) (to_int (qt2 q))) as [a b].
  destruct (cswap_lt (to_int (qt3 q)) (to_int (qt4 q))) as [c d].
  destruct (cswap_lt a c) as [a' c']. destruct (cswap_lt b d) as [b' d'].
  destruct (cswap_lt b' c') as [b'' c'']. reflexivity.
Qed.

Ltac brute := unfold sort4, cswap_lt;
  repeat match goal with |- context[(?x <? ?y)%Z] => destruct (Z.ltb_spec x y) end;
  try (repeat f_equal; lia).

Lemma t12 : forall a b c d, sort4 a b c d = sort4 b a c d.
Proof. intros. brute. Qed.
Lemma t23 : forall a b c d, sort4 a b c d = sort4 a c b d.
Proof. intros. brute. Qed.
Lemma t34 : forall a b c d, sort4 a b c d = sort4 a b d c.
Proof. intros. brute. Qed.

(** every permutation is a product of at most six adjacent transpositions *)
Ltac psearch n :=
  reflexivity ||
  match n with
  | S ?m =>
    match goal with
    | |- sort4 ?a ?b ?c ?d = _ =>
      (rewrite (t12 a b c d); psearch m) || (rewrite (t23 a b c d); psearch m) || (rewrite (t34 a b c d); psearch m)
    end
  end.

Lemma hash_equals_sort4 : forall q q',
    q_hash_equals q q' = true ->
    sort4 (to_int (qt1 q)) (to_int (qt2 q)) (to_int (qt3 q)) (to_int (qt4 q)) =
    sort4 (to_int (qt1 q')) (to_int (qt2 q')) (to_int (qt3 q')) (to_int (qt4 q')).
Proof.
  intros [a1 a2 a3 a4] [b1 b2 b3 b4]. unfold q_hash_equals, q_compare. simpl.
  repeat match goal with |- context[if ?c then _ else _] => destruct c eqn:? end; try discriminate; intros _;
    match goal with H : _ = true |- _ =>
      rewrite !andb_true_iff, !orb_true_iff, !andb_true_iff, !N.eqb_eq in H; clear - H;
      destruct H as [[[? ?]|[? ?]] [[? ?]|[? ?]]]; subst end;
    generalize (to_int b1) (to_int b2) (to_int b3) (to_int b4); intros.
  all: timeout 60 psearch 6.
Qed.

(** HashEquals => same HashCode, for all quartets (also with repeated taxa) *)
Theorem quartet_hash_compat : forall q q',
    q_hash_equals q q' = true -> q_hash_code q = q_hash_code q'.
Proof. intros q q' H. rewrite !q_hash_code_sort4. now rewrite (hash_equals_sort4 q q' H). Qed.

(** the former witnesses now agree *)
Lemma quartet_former_witness :
  q_hash_equals (mkQ 0 1 2 3) (mkQ 2 3 0 1) = true /\
  q_hash_code (mkQ 0 1 2 3) = q_hash_code (mkQ 2 3 0 1) /\
  q_hash_code (mkQ 1 2 3 4) = q_hash_code (mkQ 3 4 1 2).
Proof. vm_compute. repeat split. Qed.

(** the lookup that used to fail *)
Lemma quartet_map_example :
  let need := fun (_ : nat) (_ : N) => false in
  let ops := [OPut (mkQ 0 1 2 3) 7%Z; OValue (mkQ 2 3 0 1)] in
  exists mf, run quartet Z q_hash_code q_hash_equals need (new_hashmap quartet Z 256) ops = Some ([RPut; RValue (Some 7%Z)], mf).
Proof. eexists. vm_compute. reflexivity. Qed.

(** the hash does not depend on the order inside each pair (special case) *)
Lemma quartet_hash_compat_partial : forall a b c d,
    q_hash_code (mkQ a b c d) = q_hash_code (mkQ b a c d) /\
    q_hash_code (mkQ a b c d) = q_hash_code (mkQ a b d c).
Proof.
  intros. rewrite !q_hash_code_sort4. simpl.
  rewrite (t12 (to_int b)), (t34 (to_int a) (to_int b) (to_int d)). split; reflexivity.
Qed.

(** Compare recognises the eight presentations of one quartet *)
Lemma quartet_equals_presentations : forall a b c d,
    q_compare (mkQ a b c d) (mkQ a b c d) = QEquals /\
    q_compare (mkQ a b c d) (mkQ b a c d) = QEquals /\
    q_compare (mkQ a b c d) (mkQ a b d c) = QEquals /\
    q_compare (mkQ a b c d) (mkQ b a d c) = QEquals /\
    q_compare (mkQ a b c d) (mkQ c d a b) = QEquals /\
    q_compare (mkQ a b c d) (mkQ d c a b) = QEquals /\
    q_compare (mkQ a b c d) (mkQ c d b a) = QEquals /\
    q_compare (mkQ a b c d) (mkQ d c b a) = QEquals.
Proof.
  intros. unfold q_compare. simpl. rewrite !N.eqb_refl. simpl.
  repeat split; try reflexivity;
    repeat (rewrite ?andb_true_r, ?orb_true_r, ?andb_true_l, ?orb_true_l; simpl); try reflexivity;
    destruct (a =? b)%N, (c =? d)%N, (a =? c)%N, (a =? d)%N, (b =? c)%N, (b =? d)%N, (c =? a)%N, (d =? a)%N, (c =? b)%N, (d =? b)%N; reflexivity.
Qed.
