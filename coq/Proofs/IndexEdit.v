(** Corollaries of the C04 theorems: indexes recomputed after an editing operation, FindEdge,
    and the link between the model's tip ranking and the specification's [ssort]. *)
From Coq Require Import String Ascii NArith ZArith QArith Bool Arith Lia List Permutation Sorted.
From GT Require Import Base.UTree Spec.Obs Model.Reroot Model.Index
     Proofs.IndexBase Proofs.IndexTree Proofs.IndexSplit Proofs.C05Main Proofs.Unroot.
Import ListNotations.
Local Close Scope Q_scope.

(** * ranks: the model's insertion sort is the specification's [ssort] *)
Lemma ins_name_head : forall h r, StronglySorted name_le (h :: r) -> ins_name h r = h :: r.
Proof.
  intros h r. revert h. induction r as [|k r IH]; intros h S; [reflexivity|].
  simpl. destruct (String.ltb h k) eqn:E; [reflexivity|].
  inversion S as [|? ? S' F]; subst. inversion F as [|? ? Hk F']; subst. unfold name_le in Hk.
  assert (h = k) by (apply ltb_total; auto). subst k.
  f_equal. apply IH. inversion S'; subst. constructor; auto.
Qed.

Lemma leb_ltb : forall x h, String.leb x h = String.ltb x h || String.eqb x h.
Proof.
  intros. unfold String.leb, String.ltb.
  destruct (String.compare x h) eqn:C; simpl.
  - apply String.compare_eq_iff in C. subst. now rewrite String.eqb_refl.
  - reflexivity.
  - destruct (String.eqb_spec x h); auto. subst.
    pose proof (String.compare_antisym h h) as A. rewrite C in A. discriminate.
Qed.

Lemma ins_name_minsert : forall x l, StronglySorted name_le l -> ins_name x l = minsert x l.
Proof.
  induction l as [|h r IH]; intros S; [reflexivity|].
  simpl. rewrite leb_ltb. destruct (String.ltb x h) eqn:E; [reflexivity|]. simpl.
  destruct (String.eqb_spec x h).
  - subst. f_equal. now apply ins_name_head.
  - f_equal. apply IH. now inversion S.
Qed.

Theorem sort_names_ssort : forall l, sort_names l = ssort l.
Proof.
  induction l; simpl; auto. rewrite <- IHl. apply ins_name_minsert, sort_names_sorted.
Qed.

(** tip ids are ranks in [ssort (leaves t)], the list the judge's oracle uses *)
Theorem sorted_tip_names_ssort : forall t, wf t = true -> 2 <= degree t -> sorted_tip_names t = ssort (leaves t).
Proof.
  intros t W D. unfold sorted_tip_names. destruct (root_NI t W D) as [_ ->]. apply sort_names_ssort.
Qed.

(** * after an edit *)
Lemma good_perm : forall t t',
    good t -> wf t' = true -> 2 <= degree t' -> Permutation (leaves t') (leaves t) -> good t'.
Proof.
  intros t t' (_ & _ & ND) W D P. repeat split; auto.
  eapply Permutation_NoDup; [apply Permutation_sym|]; eauto.
Qed.

(** whatever the operation: if it yields a well-formed tree on the same tips, the indexes
    recomputed on the result (ReinitIndexes) keep the same ranks, describe the new tree, and
    its branches compare and hash consistently with the branches of the old tree *)
Theorem after_edit : forall t t',
    good t -> good t' -> Permutation (leaves t') (leaves t) ->
    sorted_tip_names t' = sorted_tip_names t /\
    index_tables t' = Ok (mkTables (sorted_tip_names t)
                                   (map (fun n => index_of n (sorted_tip_names t)) (tip_names t'))
                                   (rows t')) /\
    Forall2 (row_describes (sorted_tip_names t) t') (edges t') (rows t') /\
    (forall ec r ec' r', branch_row t ec r -> branch_row t' ec' r' ->
       (same_bipartition r r' = true <-> same_split (leaves t) (leaves (snd ec)) (leaves (snd ec'))) /\
       (same_split (leaves t) (leaves (snd ec)) (leaves (snd ec')) -> hash_code r = hash_code r')).
Proof.
  intros t t' G G' P.
  pose proof (same_taxa_same_ids t' t G' G P) as E.
  destruct G' as (W' & D' & ND').
  split; [exact E|]. split; [|split].
  - rewrite <- E. now apply index_tables_ok.
  - rewrite <- E. apply (tables_spec t' W' D' ND').
  - intros ec r ec' r' B B'. split.
    + apply (same_bipartition_iff t t'); auto; [repeat split; auto | now apply Permutation_sym].
    + apply (hashcode_same_split t t'); auto; [repeat split; auto | now apply Permutation_sym].
Qed.

(** the operations modelled in Model/Reroot.v produce such trees *)
Theorem reroot_good : forall t i t', good t -> reroot t i = Ok t' -> good t' /\ Permutation (leaves t') (leaves t).
Proof.
  intros t i t' G H. pose proof G as (W & D & ND).
  destruct (reroot_all t i t' W D H) as (W' & D' & P & _).
  split; auto. eapply good_perm; eauto.
Qed.

Theorem rotate_good : forall t cs, good t ->
    good (fst (rotate_all t cs)) /\ Permutation (leaves (fst (rotate_all t cs))) (leaves t).
Proof.
  intros t cs G. pose proof G as (W & D & ND).
  destruct (rotate_all_all t cs) as (_ & W' & D' & P & _).
  split; auto. eapply good_perm; eauto. rewrite D'. exact D.
Qed.

Theorem sort_good : forall t, good t ->
    good (sort_by_tips t) /\ Permutation (leaves (sort_by_tips t)) (leaves t).
Proof.
  intros t G. pose proof G as (W & D & ND).
  destruct (sort_by_tips_all t) as (_ & W' & D' & P & _).
  split; auto. eapply good_perm; eauto. rewrite D'. exact D.
Qed.

Theorem unroot_good : forall t, good t -> rooted t = true -> root_has_inner_child t = true ->
    good (unroot t) /\ Permutation (leaves (unroot t)) (leaves t).
Proof.
  intros t G R I. pose proof G as (W & D & ND).
  destruct (unroot_all t W R I) as (W' & P & _).
  split; auto. eapply good_perm; eauto.
  destruct (rooted_shape t W R) as (n0&c0&e1&n1&c1&sl1&e2&n2&c2&sl2&->).
  rewrite unroot_degree by auto.
  apply wf_inv in W. destruct W as [_ Wc].
  pose proof (children_wf_in _ _ _ Wc (or_introl eq_refl)) as W1.
  pose proof (children_wf_in _ _ _ Wc (or_intror (or_introl eq_refl))) as W2.
  apply wf_sub_inv in W1. apply wf_sub_inv in W2. destruct W1 as [U1 _], W2 as [U2 _].
  pose proof (IndexTree.length_slots sl1). pose proof (IndexTree.length_slots sl2).
  unfold root_has_inner_child, kids, is_tip, degree in I. simpl in I. rewrite orb_false_r in I.
  destruct (Nat.eqb_spec (length sl1) 1) as [T1|T1]; simpl in I.
  - apply negb_true_iff, Nat.eqb_neq in I. lia.
  - lia.
Qed.

(** * FindEdge *)
Lemma find_edge_in_spec : forall e l,
    (forall e2, In e2 l -> bits_none (r_bits e2) = false) ->
    find_edge_in e l = Ok (existsb (fun e2 => Bool.eqb (r_tip e) (r_tip e2) && same_bipartition e e2) l).
Proof.
  induction l as [|e2 l IH]; intros HN; [reflexivity|].
  simpl. unfold same_bipartition at 1.
  rewrite IH by (intros; apply HN; now right).
  destruct (Bool.eqb (r_tip e) (r_tip e2)); simpl; auto.
  destruct (N.eqb (hash_code e) (hash_code e2)); simpl; auto.
  destruct (equal_or_complement (r_bits e) (r_bits e2)); simpl; auto.
  rewrite HN by now left. reflexivity.
Qed.

Lemma row_not_none : forall t ec r, good t -> branch_row t ec r -> bits_none (r_bits r) = false.
Proof.
  intros t ec r G B.
  destruct (bitset_spec t ec r G B) as [L T].
  destruct (counts_spec t ec r G B) as (Nr & _ & P & _).
  destruct (leaves (snd ec)) as [|x l] eqn:LC; [simpl in Nr; lia|].
  destruct (branch_row_describes _ _ _ G B) as [_ Hin].
  pose proof (edges_below_leaves _ _ Hin) as Incl.
  destruct G as (W & D & ND). destruct (tables_spec t W D ND) as (Pids & _ & _).
  assert (Hx : In x (sorted_tip_names t)).
  { eapply Permutation_in; [apply Permutation_sym, Pids|]. apply Incl. rewrite LC. now left. }
  apply In_nth_error in Hx. destruct Hx as [i Hi].
  assert (Tb : test_bit (r_bits r) i = true) by (apply T; exists x; split; auto; now left).
  unfold bits_none. destruct (forallb negb (r_bits r)) eqn:F; auto. exfalso.
  rewrite forallb_forall in F. unfold test_bit in Tb.
  assert (In true (r_bits r)).
  { rewrite <- Tb. apply nth_In. destruct (Nat.lt_ge_cases i (length (r_bits r))); auto.
    rewrite nth_overflow in Tb by auto. discriminate. }
  apply F in H. discriminate.
Qed.

Lemma in_combine_r_ex : forall A B (l1 : list A) (l2 : list B) y,
    length l1 = length l2 -> In y l2 -> exists x, In (x, y) (combine l1 l2).
Proof.
  induction l1 as [|a l1 IH]; destruct l2 as [|b l2]; simpl; intros y HL Hin; try lia; try contradiction.
  destruct Hin as [->|Hin]; [exists a; now left|].
  assert (HL' : length l1 = length l2) by lia.
  destruct (IH l2 y HL' Hin) as [x Hx]. exists x. now right.
Qed.

(** FindEdge never fails on initialized indexes, and finds a branch exactly when the other tree
    has a branch of the same kind (tip / internal) with the same bipartition *)
Theorem find_edge_spec : forall t1 t2 ec1 r1,
    good t1 -> good t2 -> Permutation (leaves t1) (leaves t2) -> branch_row t1 ec1 r1 ->
    exists b, find_edge r1 (rows t2) = Ok b /\
              (b = true <-> exists ec2 r2, branch_row t2 ec2 r2 /\ r_tip r2 = r_tip r1 /\
                                           same_split (leaves t1) (leaves (snd ec1)) (leaves (snd ec2))).
Proof.
  intros t1 t2 ec1 r1 G1 G2 P B1.
  unfold find_edge. rewrite (row_not_none t1 ec1 r1 G1 B1).
  assert (HN : forall e2, In e2 (rows t2) -> bits_none (r_bits e2) = false).
  { intros e2 Hin. destruct (in_combine_r_ex _ _ (edges t2) (rows t2) e2) as [ec2 Hc]; auto.
    - symmetry. now apply rows_length.
    - eapply row_not_none; eauto. }
  rewrite find_edge_in_spec by auto. eexists. split; [reflexivity|].
  rewrite existsb_exists. split.
  - intros (r2 & Hin & Hb). apply andb_prop in Hb. destruct Hb as [Ht Hs].
    destruct (in_combine_r_ex _ _ (edges t2) (rows t2) r2) as [ec2 Hc]; auto.
    { symmetry. now apply rows_length. }
    exists ec2, r2. split; [exact Hc|]. split; [symmetry; now apply eqb_prop|].
    now apply (same_bipartition_iff t1 t2 ec1 r1 ec2 r2).
  - intros (ec2 & r2 & B2 & Ht & S). exists r2. split; [eapply in_combine_r; eauto|].
    rewrite Ht, eqb_reflx. simpl. now apply (same_bipartition_iff t1 t2 ec1 r1 ec2 r2).
Qed.
