(** C15: Merge and GraftTreeOnTip leave every path length between pre-existing tips unchanged
    and add exactly the requested tips. *)
From Coq Require Import String ZArith QArith Bool Arith Lia List Permutation Setoid Morphisms.
From GT Require Import Base.UTree Spec.Obs Model.Reroot Spec.Unrooted
     Proofs.RerootBase Proofs.PruneBase Model.LocalEdit Proofs.LocalEditBase.
Import ListNotations.
Local Close Scope Q_scope.
Local Arguments n_up : simpl never.

(** * addChild(new parent): nothing below changes *)
Lemma kids_add_up_end t : kids (add_up_end t) = kids t.
Proof. destruct t as [n c sl]. unfold kids. simpl. rewrite kids_of_app. simpl. apply app_nil_r. Qed.

Lemma leaves_add_up_end t : leaves (add_up_end t) = leaves t.
Proof.
  destruct t as [n c sl]. simpl add_up_end. apply leaves_kids; auto.
  rewrite kids_of_app. simpl. apply app_nil_r.
Qed.
Lemma depths_add_up_end w t : depths w (add_up_end t) = depths w t.
Proof.
  destruct t as [n c sl]. simpl add_up_end. apply depths_kids; auto.
  rewrite kids_of_app. simpl. apply app_nil_r.
Qed.
Lemma pairdists_add_up_end w t : pairdists w (add_up_end t) = pairdists w t.
Proof.
  destruct t as [n c sl]. simpl add_up_end. apply pairdists_kids.
  rewrite kids_of_app. simpl. apply app_nil_r.
Qed.
Lemma wf_sub_add_up_end t : wf t = true -> wf_sub (add_up_end t) = true.
Proof.
  destruct t as [n c sl]. simpl add_up_end. rewrite wf_unfold, wf_sub_unfold.
  intros H. apply andb_true_iff in H as [H1 H2]. apply Nat.eqb_eq in H1.
  rewrite n_up_app, H1, kids_of_app. simpl. now rewrite app_nil_r.
Qed.

(** * Merge *)
Section Merge.
  Variables t1 t2 t' : utree.
  Variables i1 i2 : list string.
  Hypothesis Hm : merge t1 t2 i1 i2 = Ok t'.

  Lemma merge_shape :
    t' = UNode "" [] [Some (e0, add_up_end t1); Some (e0, add_up_end t2)] /\
    rooted t1 = true /\ rooted t2 = true /\
    (forall a, In a i1 -> In a i2 -> False).
  Proof.
    unfold merge in Hm.
    destruct (rooted t1) eqn:R1; simpl in Hm; [|discriminate].
    destruct (rooted t2) eqn:R2; simpl in Hm; [|discriminate].
    destruct i1 as [|a1 r1]; [discriminate|]. destruct i2 as [|a2 r2]; [discriminate|].
    destruct (existsb (fun a => name_mem a (a2 :: r2)) (a1 :: r1)) eqn:E; [discriminate|].
    inversion Hm. repeat split; auto.
    intros a Ha Hb. assert (X : existsb (fun a => name_mem a (a2 :: r2)) (a1 :: r1) = true).
    { apply existsb_exists. exists a. split; auto. unfold name_mem. apply existsb_exists.
      exists a. split; auto. apply String.eqb_refl. }
    congruence.
  Qed.

  Theorem merge_wf : wf t1 = true -> wf t2 = true -> wf t' = true /\ rooted t' = true.
  Proof.
    intros W1 W2. destruct merge_shape as [-> _]. split; [|reflexivity].
    rewrite wf_unfold. simpl. unfold n_up. simpl.
    now rewrite !wf_sub_add_up_end.
  Qed.

  (** exactly the tips of the two trees *)
  Theorem merge_leaves : leaves t' = leaves t1 ++ leaves t2.
  Proof.
    destruct merge_shape as [-> _]. rewrite leaves_unfold. simpl. unfold kleaves. simpl.
    now rewrite !leaves_add_up_end, app_nil_r.
  Qed.

  (** the path sums of the result: those of the first tree, those of the second tree, and
      the paths joining a tip of one to a tip of the other through the new root *)
  Theorem merge_pairdists w :
    dists_equiv (pairdists w t')
                (pairdists w t1 ++ pairdists w t2 ++
                 symcross (shift (w e0) (depths w t1)) (shift (w e0) (depths w t2))).
  Proof.
    destruct merge_shape as [-> _]. rewrite pairdists_unfold. simpl. unfold kpd, symcross. simpl.
    rewrite !depths_add_up_end, !pairdists_add_up_end, !app_nil_r.
    apply dists_equiv_perm. perm.
  Qed.

  (** restricted to the tips of one tree, nothing changed (tips disjoint) *)
  Theorem merge_dists_within w :
    (forall x, In x (leaves t1) -> In x (leaves t2) -> False) ->
    dists_equiv (fP (fun x => smem x (leaves t1)) (pairdists w t')) (pairdists w t1) /\
    dists_equiv (fP (fun x => smem x (leaves t2)) (pairdists w t')) (pairdists w t2).
  Proof.
    intros Hd.
    assert (Min : forall x l, In x l -> smem x l = true).
    { intros x l H. unfold smem. apply existsb_exists. exists x. split; auto. apply String.eqb_refl. }
    assert (Mout : forall x l, ~ In x l -> smem x l = false).
    { intros x l H. unfold smem. destruct (existsb (String.eqb x) l) eqn:E; auto.
      apply existsb_exists in E. destruct E as [y [Hy E]]. apply String.eqb_eq in E. subst. tauto. }
    assert (Hcross : forall a b d,
               In (a, b, d) (symcross (shift (w e0) (depths w t1)) (shift (w e0) (depths w t2))) ->
               (In a (leaves t1) /\ In b (leaves t2)) \/ (In a (leaves t2) /\ In b (leaves t1))).
    { intros a b d H. unfold symcross in H. rewrite in_app_iff in H.
      destruct H as [H|H]; apply cross_names in H; rewrite !shift_names, !depths_names in H; tauto. }
    split.
    - etransitivity; [apply fP_dists_equiv, merge_pairdists|]. rewrite !fP_app.
      rewrite fP_id, (fP_none _ (pairdists w t2)), (fP_none _ (symcross _ _)), !app_nil_r; [reflexivity| | |].
      + intros a b d H. destruct (Hcross a b d H) as [[Ha Hb]|[Ha Hb]].
        * right. apply Mout. intro. eauto.
        * left. apply Mout. intro. eauto.
      + intros a b d H. apply pairdists_names in H. destruct H as [Ha Hb]. left. apply Mout. intro. eauto.
      + intros a b d H. apply pairdists_names in H. destruct H. split; apply Min; auto.
    - etransitivity; [apply fP_dists_equiv, merge_pairdists|]. rewrite !fP_app.
      rewrite (fP_none _ (pairdists w t1)), fP_id, (fP_none _ (symcross _ _)), !app_nil_r; [reflexivity| | |].
      + intros a b d H. destruct (Hcross a b d H) as [[Ha Hb]|[Ha Hb]].
        * left. apply Mout. intro. eauto.
        * right. apply Mout. intro. eauto.
      + intros a b d H. apply pairdists_names in H. destruct H. split; apply Min; auto.
      + intros a b d H. apply pairdists_names in H. destruct H as [Ha Hb]. left. apply Mout. intro. eauto.
  Qed.
End Merge.

(** refusals *)
Theorem merge_err t1 t2 i1 i2 :
  (exists m, merge t1 t2 i1 i2 = Err m) <->
  rooted t1 = false \/ rooted t2 = false \/ i1 = [] \/ i2 = [] \/
  exists a, In a i1 /\ In a i2.
Proof.
  unfold merge. destruct (rooted t1); simpl; [|split; eauto].
  destruct (rooted t2); simpl; [|split; eauto].
  destruct i1 as [|a1 r1]; [split; eauto 6|]. destruct i2 as [|a2 r2]; [split; eauto 6|].
  destruct (existsb (fun a => name_mem a (a2 :: r2)) (a1 :: r1)) eqn:E.
  - split; eauto. intros _. apply existsb_exists in E. destruct E as [a [Ha E]].
    unfold name_mem in E. apply existsb_exists in E. destruct E as [b [Hb E]].
    apply String.eqb_eq in E. subst. right. right. right. right. eauto.
  - split.
    + intros [m H]. discriminate.
    + intros [H|[H|[H|[H|[a [Ha Hb]]]]]]; try discriminate. exfalso.
      assert (X : existsb (fun a => name_mem a (a2 :: r2)) (a1 :: r1) = true).
      { apply existsb_exists. exists a. split; auto. unfold name_mem. apply existsb_exists.
        exists a. split; auto. apply String.eqb_refl. }
      congruence.
Qed.

(** * GraftTreeOnTip *)
(** at the parent of the tip: the slot of the tip now holds the root of the graft *)
Inductive graft_base (tip : string) (g' : utree) : utree -> utree -> Prop :=
| gb n c sl1 e cx sl2 :
    graft_base tip g' (UNode n c (sl1 ++ Some (e, UNode tip cx [None]) :: sl2))
               (UNode n c (sl1 ++ Some (e, g') :: sl2)).

Definition kids_wf (t : utree) : Prop := forallb (fun p => wf_sub (snd p)) (kids t) = true.

Lemma tip_shape x : wf_sub x = true -> is_tip x = true -> exists cx, x = UNode (uname x) cx [None].
Proof.
  destruct x as [n c sl]. rewrite wf_sub_unfold. unfold is_tip, degree. simpl.
  intros H L. apply andb_true_iff in H as [H _]. apply Nat.eqb_eq in H, L.
  destruct sl as [|[p|] [|s r]]; try discriminate. eauto.
Qed.

Lemma graft_sub_edited tip g' t :
  forall t', kids_wf t -> graft_sub tip g' t = Some t' -> edited (graft_base tip g') t t'.
Proof.
  induction t as [n c sl IH] using utree_ind'. intros t' W H. simpl in H.
  match type of H with
  | match ?F sl with _ => _ end = _ =>
    assert (G : forall l l', Forall (fun s : slot => match s with
                                       | Some (_, t) => forall t', kids_wf t -> graft_sub tip g' t = Some t' ->
                                                                   edited (graft_base tip g') t t'
                                       | None => True end) l ->
                             forallb (fun p => wf_sub (snd p)) (kids_of l) = true ->
                             F l = Some l' ->
                             (exists sl1 e cx sl2, l = sl1 ++ Some (e, UNode tip cx [None]) :: sl2 /\
                                                   l' = sl1 ++ Some (e, g') :: sl2) \/
                             (exists sl1 e ch ch' sl2, l = sl1 ++ Some (e, ch) :: sl2 /\
                                                       l' = sl1 ++ Some (e, ch') :: sl2 /\
                                                       edited (graft_base tip g') ch ch'))
  end.
  { clear. induction l as [|[[e ch]|] r IHr]; intros l' HF W H; simpl in H; [discriminate| |].
    - inversion HF as [|? ? Hc HFr]; subst. simpl in W. apply andb_true_iff in W as [W1 W2].
      destruct (is_tip ch && String.eqb (uname ch) tip) eqn:E.
      + apply andb_true_iff in E as [E1 E2]. apply String.eqb_eq in E2.
        destruct (tip_shape ch W1 E1) as [cx Hx]. rewrite E2 in Hx. clear E2.
        injection H as Hl. subst l' ch.
        left. exists [], e, cx, r. split; reflexivity.
      + destruct (graft_sub tip g' ch) as [ch'|] eqn:Eg.
        * inversion H; subst. right. exists [], e, ch, ch', r. repeat split.
          apply Hc; auto. unfold kids_wf. destruct ch as [n1 c1 s1].
          rewrite wf_sub_unfold in W1. apply andb_true_iff in W1 as [_ W1]. exact W1.
        * match type of H with match ?X with _ => _ end = _ => destruct X as [r'|] eqn:Er end; [|discriminate].
          inversion H; subst.
          destruct (IHr r' HFr W2 eq_refl) as [[sl1 [e1 [cx [sl2 [A B]]]]]|[sl1 [e1 [c1 [c1' [sl2 [A [B C]]]]]]]]; subst.
          -- left. exists (Some (e, ch) :: sl1), e1, cx, sl2. split; reflexivity.
          -- right. exists (Some (e, ch) :: sl1), e1, c1, c1', sl2. repeat split; auto.
    - inversion HF as [|? ? Hc HFr]; subst. simpl in W.
      match type of H with match ?X with _ => _ end = _ => destruct X as [r'|] eqn:Er end; [|discriminate].
      inversion H; subst.
      destruct (IHr r' HFr W eq_refl) as [[sl1 [e1 [cx [sl2 [A B]]]]]|[sl1 [e1 [c1 [c1' [sl2 [A [B C]]]]]]]]; subst.
      + left. exists (None :: sl1), e1, cx, sl2. split; reflexivity.
      + right. exists (None :: sl1), e1, c1, c1', sl2. repeat split; auto. }
  match type of H with
  | match ?X with _ => _ end = _ => destruct X as [sl'|] eqn:Es
  end; [|discriminate].
  inversion H; subst.
  destruct (G sl sl' IH W Es) as [[sl1 [e1 [cx [sl2 [A B]]]]]|[sl1 [e1 [c1 [c1' [sl2 [A [B C]]]]]]]]; subst.
  - apply ed_here. constructor.
  - now apply ed_below.
Qed.

Lemma graft_base_wf_sub tip g a b :
  wf g = true -> graft_base tip (add_up_end g) a b -> wf_sub a = true -> wf_sub b = true.
Proof.
  intros Wg H. destruct H. rewrite !wf_sub_mid. intros H0.
  repeat (apply andb_true_iff in H0 as [H0 ?]).
  rewrite H0, H2, H, wf_sub_add_up_end; auto.
Qed.
Lemma graft_base_wf tip g a b :
  wf g = true -> graft_base tip (add_up_end g) a b -> wf a = true -> wf b = true.
Proof.
  intros Wg H. destruct H. rewrite !wf_mid. intros H0.
  repeat (apply andb_true_iff in H0 as [H0 ?]).
  rewrite H0, H2, H, wf_sub_add_up_end; auto.
Qed.
Lemma graft_base_leaves tip g a b :
  graft_base tip (add_up_end g) a b -> Permutation (leaves b ++ [tip]) (leaves a ++ leaves g).
Proof.
  intros H. destruct H. rewrite !leaves_mid, leaves_add_up_end. simpl. perm.
Qed.
Lemma graft_base_obs w k tip g a b :
  k tip = false -> (forall x, In x (leaves g) -> k x = false) ->
  graft_base tip (add_up_end g) a b -> obs_eq w k a b.
Proof.
  intros Kt Kg H. destruct H.
  eapply node_obs; try apply kids_of_nonempty_mid; [reflexivity|].
  rewrite !kids_of_app. simpl. apply Forall2_app; [apply Forall2_kid_eq_refl|].
  constructor; [|apply Forall2_kid_eq_refl].
  unfold kid_eq, ceq, fC, contrib_of. simpl fst. simpl snd.
  rewrite depths_add_up_end, pairdists_add_up_end.
  rewrite Kt, fD_shift, (fD_none k (depths w g)).
  - rewrite (fP_none k (pairdists w g)); [split; reflexivity|].
    intros a b d H. apply pairdists_names in H. left. apply Kg. tauto.
  - intros x. rewrite depths_names. apply Kg.
Qed.

Section Graft.
  Variables t g t' : utree.
  Variable idx : list string.
  Variable tip : string.
  Hypothesis Hg : graft t idx tip g = Ok t'.
  Hypothesis Wt : wf t = true.
  Hypothesis Wg : wf g = true.

  Lemma graft_edited : edited (graft_base tip (add_up_end g)) t t'.
  Proof.
    unfold graft in Hg. destruct idx; [discriminate|].
    destruct (negb (name_mem tip (s :: l))); [discriminate|].
    destruct (is_tip t && String.eqb (uname t) tip); [discriminate|].
    destruct (graft_sub tip (add_up_end g) t) as [t1|] eqn:E; [|discriminate].
    inversion Hg; subst. apply graft_sub_edited; auto.
    unfold kids_wf. destruct t as [n c sl]. rewrite wf_unfold in Wt.
    apply andb_true_iff in Wt as [_ W]. exact W.
  Qed.

  Theorem graft_wf : wf t' = true.
  Proof.
    apply (edited_wf (graft_base tip (add_up_end g)) t t'); auto using graft_edited.
    - intros a b. now apply graft_base_wf.
    - intros a b. now apply graft_base_wf_sub.
  Qed.

  (** the tips: the grafted-on tip is gone, those of the graft are added *)
  Theorem graft_leaves : Permutation (leaves t' ++ [tip]) (leaves t ++ leaves g).
  Proof.
    apply (edited_leaves (graft_base tip (add_up_end g))); auto using graft_edited.
    intros a b. apply graft_base_leaves.
  Qed.

  (** path sums between the other tips of [t] are unchanged: for any selection [k] of tip
      names that leaves out the grafted-on tip and the tips of the graft *)
  Theorem graft_dists w k :
    k tip = false -> (forall x, In x (leaves g) -> k x = false) ->
    dists_equiv (fP k (pairdists w t')) (fP k (pairdists w t)).
  Proof.
    intros Kt Kg. symmetry.
    apply (edited_obs w k (graft_base tip (add_up_end g))); auto using graft_edited.
    intros a b. now apply graft_base_obs.
  Qed.

  (** the tip named must be a tip of the tree *)
  Theorem graft_tip_indexed : In tip idx.
  Proof.
    unfold graft in Hg. destruct idx as [|i0 ir]; [discriminate|].
    destruct (name_mem tip (i0 :: ir)) eqn:E; simpl in Hg; [|discriminate].
    unfold name_mem in E. apply existsb_exists in E. destruct E as [x [Hx E]].
    apply String.eqb_eq in E. now subst.
  Qed.
End Graft.

(** * path sums inside the grafted tree are unchanged too *)
Definition nilc : contrib := ([], []).

Lemma cross_all_nils l : Forall (fun d : list (string * Q) => d = []) l -> cross_all l = [].
Proof.
  induction 1 as [|d r Hd _ IH]; simpl; auto. subst d. rewrite IH, app_nil_r.
  clear. induction r as [|d' r' IHr]; simpl; auto. rewrite cross_nil_r. simpl. exact IHr.
Qed.

Lemma cross_all_one A d B :
  Forall (fun x : list (string * Q) => x = []) A -> Forall (fun x : list (string * Q) => x = []) B ->
  cross_all (A ++ d :: B) = [].
Proof.
  intros HA HB. induction HA as [|a r Ha _ IH]; simpl app.
  - simpl. rewrite (cross_all_nils B HB), app_nil_r.
    clear -HB. induction HB as [|b r Hb _ IH]; simpl; auto. subst b.
    rewrite cross_nil_r. simpl. exact IH.
  - subst a. rewrite cross_all_nil_head. exact IH.
Qed.

Lemma agg_one A x B :
  Forall (fun c : contrib => c = nilc) A -> Forall (fun c : contrib => c = nilc) B ->
  aggD (A ++ x :: B) = fst x /\ aggP (A ++ x :: B) = snd x.
Proof.
  intros HA HB.
  assert (N : forall l, Forall (fun c : contrib => c = nilc) l ->
                        Forall (fun d : list (string * Q) => d = []) (map fst l) /\
                        concat (map fst l) = [] /\ concat (map snd l) = []).
  { induction 1 as [|c r Hc _ IH]; simpl; auto. subst c. simpl. destruct IH as [I1 [I2 I3]]. auto. }
  destruct (N A HA) as [A1 [A2 A3]]. destruct (N B HB) as [B1 [B2 B3]].
  unfold aggD, aggP. rewrite !map_app. simpl map. rewrite !concat_app. simpl concat.
  unfold contrib in *. rewrite A2, A3, B2, B3, cross_all_one by auto. simpl. now rewrite !app_nil_r.
Qed.

Section GraftInside.
  Variable w : einfo -> Q.
  Variable k : string -> bool.
  Variable g : utree.

  Definition inside (b : utree) : Prop :=
    dists_equiv (fP k (pairdists w b)) (fP k (pairdists w g)) /\
    exists q, deq (fD k (depths w b)) (shift q (fD k (depths w g))).

  Lemma killed_contrib p :
    (forall x, In x (leaves (snd p)) -> k x = false) -> fC k (contrib_of w p) = nilc.
  Proof.
    intros H. unfold fC, contrib_of, nilc. simpl. f_equal.
    - apply fD_none. intros x. rewrite shift_names, depths_names. apply H.
    - apply fP_none. intros a b d X. apply pairdists_names in X. left. apply H. tauto.
  Qed.

  Lemma killed_contribs ks :
    (forall x, In x (kleaves ks) -> k x = false) ->
    Forall (fun c : contrib => c = nilc) (map (fC k) (contribs w ks)).
  Proof.
    induction ks as [|p r IH]; simpl; intros H; constructor.
    - apply killed_contrib. intros x X. apply H. unfold kleaves. simpl. rewrite in_app_iff. auto.
    - apply IH. intros x X. apply H. unfold kleaves. simpl. rewrite in_app_iff. auto.
  Qed.

  Lemma inside_node n c sl1 e ch sl2 :
    (forall x, In x (kleaves (kids_of sl1)) -> k x = false) ->
    (forall x, In x (kleaves (kids_of sl2)) -> k x = false) ->
    fD k (depths w (UNode n c (sl1 ++ Some (e, ch) :: sl2))) = shift (w e) (fD k (depths w ch)) /\
    fP k (pairdists w (UNode n c (sl1 ++ Some (e, ch) :: sl2))) = fP k (pairdists w ch).
  Proof.
    intros H1 H2.
    rewrite depths_agg, pairdists_agg, fD_aggD, fP_aggP by apply kids_of_nonempty_mid.
    rewrite kids_of_app. simpl kids_of. unfold contribs. rewrite !map_app. simpl map.
    destruct (agg_one (map (fC k) (map (contrib_of w) (kids_of sl1))) (fC k (contrib_of w (e, ch)))
                      (map (fC k) (map (contrib_of w) (kids_of sl2)))) as [A B].
    - apply (killed_contribs _ H1).
    - apply (killed_contribs _ H2).
    - rewrite A, B. unfold fC, contrib_of. simpl. now rewrite fD_shift.
  Qed.

  Lemma edited_inside tip a b :
    edited (graft_base tip (add_up_end g)) a b ->
    (forall x, In x (leaves a) -> k x = false) -> inside b.
  Proof.
    induction 1 as [a b H|n c sl1 e ch ch' sl2 H IH]; intros K.
    - destruct H. rewrite leaves_mid in K.
      destruct (inside_node n c sl1 e (add_up_end g) sl2) as [A B].
      + intros x X. apply K. rewrite in_app_iff. auto.
      + intros x X. apply K. rewrite !in_app_iff. auto.
      + unfold inside. rewrite A, B, depths_add_up_end, pairdists_add_up_end.
        split; [reflexivity|]. exists (w e). reflexivity.
    - rewrite leaves_mid in K.
      destruct (inside_node n c sl1 e ch' sl2) as [A B].
      + intros x X. apply K. rewrite in_app_iff. auto.
      + intros x X. apply K. rewrite !in_app_iff. auto.
      + destruct IH as [I1 [q I2]].
        { intros x X. apply K. rewrite !in_app_iff. auto. }
        unfold inside. rewrite A, B. split; auto. exists (w e + q)%Q.
        etransitivity; [apply shift_deq; [reflexivity|exact I2]|].
        apply deq_Forall2, shift_shift.
  Qed.
End GraftInside.

(** for every selection [k] of names that leaves out the tips of [t]: the path sums between
    selected tips of the result are those of the grafted tree *)
Theorem graft_dists_inside t g t' idx tip w k :
  graft t idx tip g = Ok t' -> wf t = true ->
  (forall x, In x (leaves t) -> k x = false) ->
  dists_equiv (fP k (pairdists w t')) (fP k (pairdists w g)).
Proof.
  intros H W K. destruct (edited_inside w k g tip t t' (graft_edited t g t' idx tip H W) K) as [I _].
  exact I.
Qed.

(** * GraftTreeOnTip is accepted whatever the names in the grafted tree *)
Fixpoint has_tip_child (tip : string) (t : utree) : bool :=
  match t with
  | UNode _ _ sl =>
    existsb (fun s : slot => match s with
                             | Some (_, ch) => (is_tip ch && String.eqb (uname ch) tip) || has_tip_child tip ch
                             | None => false end) sl
  end.

Lemma graft_sub_defined tip g' t :
  has_tip_child tip t = true -> exists t', graft_sub tip g' t = Some t'.
Proof.
  induction t as [n c sl IH] using utree_ind'. intros H. simpl in H. simpl.
  match goal with
  | |- exists t', match ?F sl with _ => _ end = _ => assert (G : exists sl', F sl = Some sl')
  end.
  { induction IH as [|[[e ch]|] r Hs _ IHr]; simpl in H; [discriminate| |].
    - destruct (is_tip ch && String.eqb (uname ch) tip) eqn:T; [eauto|]. simpl in H.
      destruct (graft_sub tip g' ch) as [ch'|] eqn:E; [eauto|].
      destruct (has_tip_child tip ch) eqn:Hc.
      + destruct (Hs eq_refl) as [t' X]. congruence.
      + simpl in H. destruct (IHr H) as [sl' ->]. eauto.
    - destruct (IHr H) as [sl' ->]. eauto. }
  destruct G as [sl' ->]. eauto.
Qed.

(** the only conditions: an index that holds the name, and a tip of that name below the root;
    nothing is asked of the names of the grafted tree (it may re-use the name of the replaced
    tip, or any other) *)
Theorem graft_accepts t idx tip g :
  idx <> [] -> In tip idx -> (is_tip t && String.eqb (uname t) tip) = false ->
  has_tip_child tip t = true ->
  exists t', graft t idx tip g = Ok t'.
Proof.
  intros Hi Ht Hr Hc. unfold graft. destruct idx as [|i0 ir]; [congruence|].
  assert (name_mem tip (i0 :: ir) = true) as ->.
  { unfold name_mem. apply existsb_exists. exists tip. split; auto. apply String.eqb_refl. }
  simpl negb. rewrite Hr. destruct (graft_sub_defined tip (add_up_end g) t Hc) as [t' ->]. eauto.
Qed.

(** non-vacuity: (l1:1,x:2,y:3); grafted on l1 with (l1:1,z:1); *)
Lemma graft_reuse_example :
  exists t', graft (UNode "" [] [Some (mkE 1 nilv nilv [], UNode "l1" [] [None]);
                                 Some (mkE 2 nilv nilv [], UNode "x" [] [None]);
                                 Some (mkE 3 nilv nilv [], UNode "y" [] [None])])
                   ["l1"; "x"; "y"]%string "l1"
                   (UNode "" [] [Some (mkE 1 nilv nilv [], UNode "l1" [] [None]);
                                 Some (mkE 1 nilv nilv [], UNode "z" [] [None])]) = Ok t' /\
             leaves t' = ["l1"; "z"; "x"; "y"]%string.
Proof. eexists. split; vm_compute; reflexivity. Qed.
