(** Heap model: the loop of Tree.RemoveEdges over a list of distinct branches of the tree
    always ends (no error, no panic) in a good heap: a contraction deletes the contracted
    branch only, so the other branches of the list are still there. *)
From Coq Require Import String ZArith QArith Bool Arith Lia Permutation List.
From GT Require Import Base.UTree Model.Reroot Model.Collapse Model.NNI Model.Heap Model.HeapEdit Proofs.Enum Proofs.HeapBase Proofs.HeapRep
     Proofs.HeapGood Proofs.HeapGoodRep Proofs.HeapRerootL Proofs.HeapReorder Proofs.HeapReroot Proofs.HeapUnrootL Proofs.HeapUnroot
     Proofs.HeapCtx Proofs.HeapGraft Proofs.HeapCollapse Proofs.HeapPaths Proofs.HeapCollapseTree Proofs.HeapCollapseSq.
Import ListNotations.
Local Close Scope Q_scope.

Lemma seids_some_slots sl x : In x (seids sl) -> In x (seids (lsome_slots sl)).
Proof.
  induction sl as [|[[[e ei] ch]|] sl IH]; cbn [seids flat_map lsome_slots filter]; intros H; [exact H| |exact (IH H)].
  destruct H as [<-|H]; [left; reflexivity|]. right. apply in_app_or in H. apply in_or_app. destruct H as [H|H]; [left; exact H|right; exact (IH H)].
Qed.

(** the branches of the contracted neighbourhood other than [e] are kept *)
Lemma lcontract_keeps rr rt l nm cm l1 e ei ch l2 x : x <> e ->
  In x (leids (LNode l nm cm (l1 ++ Some (e, ei, ch) :: l2))) -> In x (leids (lcontract_new rr rt l nm cm l1 e ei ch l2)).
Proof.
  intros Ne H. unfold lcontract_new.
  destruct (Nat.eqb (length (lslots ch)) 1).
  { rewrite leids_eq in *. fold (seids (l1 ++ Some (e, ei, ch) :: l2)) in H. fold (seids (l1 ++ Some (e, (if rt then set_len0 ei else ei), ch) :: l2)).
    rewrite seids_app_cons in *. exact H. }
  destruct (negb rr && (Nat.eqb (length (lslots ch)) 2 || Nat.eqb (length (l1 ++ Some (e, ei, ch) :: l2)) 2)); [exact H|].
  rewrite leids_eq in *. fold (seids (l1 ++ Some (e, ei, ch) :: l2)) in H. fold (seids ((l1 ++ l2) ++ lsome_slots (lslots ch))).
  rewrite seids_app_cons in H. rewrite !seids_app.
  apply in_app_or in H. destruct H as [H|[H|H]]; [apply in_or_app; left; apply in_or_app; left; exact H|congruence|].
  apply in_app_or in H. destruct H as [H|H].
  - apply in_or_app. right. apply seids_some_slots. destruct ch as [r nmr cmr slr]. rewrite leids_eq in H. exact H.
  - apply in_or_app. left. apply in_or_app. right. exact H.
Qed.

Lemma edge_context lt e : lwf lt -> In e (leids lt) ->
  exists p l nm cm l1 l2 ei ch, In (p, LNode l nm cm (l1 ++ Some (e, ei, ch) :: l2)) (lsubs None lt).
Proof.
  intros W Hin. destruct (In_nth_error _ _ Hin) as [k Hk].
  destruct lt as [i n c sl]. apply lwf_iff in W. destruct W as [_ Wk].
  destruct (edge_locs_leids (LNode i n c sl) Wk k e Hk) as (p & j & [l nm cm slx] & ei & ch & _ & Hp & Hj). cbn [lslots] in Hj.
  destruct (nth_error_split _ _ Hj) as (l1 & l2 & -> & _).
  destruct (lnode_at_lsubs p _ None _ Hp) as [q Hq]. exists q, l, nm, cm, l1, l2, ei, ch. exact Hq.
Qed.

Theorem remove_edge_step_total rr rt h lt e : Rep h lt -> In e (leids lt) ->
  exists h' lt', remove_edge rr rt e h = HOk h' /\ Rep h' lt' /\ forall x, x <> e -> In x (leids lt) -> In x (leids lt').
Proof.
  intros R Hin. destruct (edge_context lt e (rep_wf _ _ R) Hin) as (p & l & nm & cm & l1 & l2 & ei & ch & Hsub).
  destruct (remove_edge_Rep rr rt h lt p l nm cm l1 l2 e ei ch R Hsub) as (h' & Ev & R').
  exists h'. eexists. split; [exact Ev|]. split; [exact R'|]. intros x Ne Hx.
  destruct (lreplace_perm l (lcontract_new rr rt l nm cm l1 e ei ch l2) lt None p _ (rep_nd _ _ R) Hsub eq_refl) as (rn & re & _ & _ & P3 & P4).
  eapply Permutation_in; [symmetry; exact P4|]. apply (Permutation_in _ P3) in Hx. apply in_app_or in Hx. apply in_or_app.
  destruct Hx as [Hx|Hx]; [left; apply lcontract_keeps; assumption|right; exact Hx].
Qed.

Theorem remove_edges_heap_total rr rt : forall es h lt, Rep h lt -> NoDup es -> (forall e, In e es -> In e (leids lt)) ->
  exists h', remove_edges_heap rr rt es h = HOk h' /\ Good h'.
Proof.
  induction es as [|e es IH]; intros h lt R Nd Hall.
  - exists h. split; [reflexivity|exact (Rep_Good _ _ R)].
  - apply NoDup_cons_iff in Nd. destruct Nd as [Ne Nd].
    destruct (remove_edge_step_total rr rt h lt e R (Hall e (or_introl eq_refl))) as (h1 & lt1 & Ev & R1 & Keep).
    cbn [remove_edges_heap]. rewrite Ev. cbn [hbind]. apply (IH h1 lt1 R1 Nd).
    intros x Hx. apply Keep; [intros ->; exact (Ne Hx)|apply Hall; right; exact Hx].
Qed.
