(** C07, option --tips (removeTips = true): the collapse of t with removeTips is the collapse without
    removeTips of [zero_tips cr t] (the input with its qualifying tip branches set to length 0).
    Hence the oracle clause [collapse_ok_tips] of Spec/Contract.v holds for the model's output on the
    unrooted and rooted domains, by length and by depth. *)
From Coq Require Import String ZArith QArith Bool Arith Lia List Permutation Sorted Setoid Morphisms.
From GT Require Import Base.UTree Spec.Obs Spec.Induced Spec.Contract Model.Reroot Model.Rand Spec.Unrooted
     Proofs.RerootBase Proofs.PruneBase Proofs.PairKeys Model.Prune Model.Collapse Proofs.PruneStep Proofs.PruneSub Proofs.PruneRoot
     Proofs.Prune Proofs.CollapseBase Proofs.CollapseSplits Proofs.CollapseExact Proofs.CollapseDepth
     Proofs.OracleDist Proofs.OracleSets Proofs.CollapseOracle Proofs.CollapseOracleFull Proofs.RootedUSplits Proofs.RootedOracle
     Proofs.OracleMeaning.
Import ListNotations.
Local Close Scope Q_scope.
Local Arguments n_up : simpl never.
Local Arguments leaves : simpl never.
Local Arguments wf_sub : simpl never.
Local Arguments no_single_sub : simpl never.

Section ZeroTips.
  Variable cr : crit.
  Notation zt := (zero_tips cr).
  Definition zedge (e : einfo) (ch : utree) : einfo :=
    match kids ch with
    | [] => if tip_crit cr e then mkE 0%Q (esup e) (epv e) (ecom e) else e
    | _ => e
    end.
  Definition zslot (s : slot) : slot :=
    match s with None => None | Some (e, ch) => Some (zedge e ch, zt ch) end.

  Lemma zt_unfold n c sl : zt (UNode n c sl) = UNode n c (map zslot sl).
  Proof. reflexivity. Qed.

  Lemma zt_degree t : degree (zt t) = degree t.
  Proof. destruct t as [n c sl]. unfold degree. simpl. now rewrite map_length. Qed.
  Lemma zt_is_tip t : is_tip (zt t) = is_tip t.
  Proof. unfold is_tip. now rewrite zt_degree. Qed.
  Lemma zt_uname t : uname (zt t) = uname t.
  Proof. destruct t; reflexivity. Qed.
  Lemma zt_ucom t : ucom (zt t) = ucom t.
  Proof. destruct t; reflexivity. Qed.
  Lemma n_up_zslots sl : n_up (map zslot sl) = n_up sl.
  Proof. induction sl as [|[[e ch]|] r IH]; simpl; auto; rewrite !n_up_cons, IH; reflexivity. Qed.
  Lemma kids_zslots sl : kids_of (map zslot sl) = map (fun p => (zedge (fst p) (snd p), zt (snd p))) (kids_of sl).
  Proof. induction sl as [|[[e ch]|] r IH]; simpl; auto. now rewrite IH. Qed.

  Lemma zt_leaves : forall t, leaves (zt t) = leaves t.
  Proof.
    induction t as [n c sl IH] using utree_ind'. rewrite zt_unfold, !leaves_unfold, kids_zslots.
    assert (IH' : Forall (fun p : einfo * utree => leaves (zt (snd p)) = leaves (snd p)) (kids_of sl)).
    { clear -IH. induction IH as [|[[e ch]|] r H _ IHr]; simpl; auto. }
    assert (E : kleaves (map (fun p => (zedge (fst p) (snd p), zt (snd p))) (kids_of sl)) = kleaves (kids_of sl)).
    { unfold kleaves. induction IH' as [|q l H _ IHl]; simpl; auto. simpl in H. now rewrite H, IHl. }
    destruct (kids_of sl) as [|p r]; [reflexivity|]. exact E.
  Qed.

  Lemma zt_wf_sub : forall t, wf_sub (zt t) = wf_sub t.
  Proof.
    induction t as [n c sl IH] using utree_ind'. rewrite zt_unfold, !wf_sub_unfold, n_up_zslots, kids_zslots. f_equal.
    induction IH as [|[[e ch]|] r H _ IHr]; simpl; auto. now rewrite H, IHr.
  Qed.
  Lemma zt_wf t : wf (zt t) = wf t.
  Proof.
    destruct t as [n c sl]. rewrite zt_unfold, !wf_unfold, n_up_zslots, kids_zslots. f_equal.
    induction sl as [|[[e ch]|] r IHr]; simpl; auto. now rewrite zt_wf_sub, IHr.
  Qed.
  Lemma zt_nss : forall t, no_single_sub (zt t) = no_single_sub t.
  Proof.
    induction t as [n c sl IH] using utree_ind'. rewrite zt_unfold, !nss_unfold, map_length, kids_zslots. f_equal.
    induction IH as [|[[e ch]|] r H _ IHr]; simpl; auto. now rewrite H, IHr.
  Qed.
  Lemma zt_no_single t : no_single (zt t) = no_single t.
  Proof.
    destruct t as [n c sl]. rewrite zt_unfold, !no_single_unfold, kids_zslots.
    induction sl as [|[[e ch]|] r IHr]; simpl; auto. now rewrite zt_nss, IHr.
  Qed.

  Lemma zt_edges_below : forall t, length (edges_below (zt t)) = length (edges_below t).
  Proof.
    induction t as [n c sl IH] using utree_ind'. rewrite zt_unfold. simpl.
    induction IH as [|[[e ch]|] r H _ IHr]; simpl; auto.
    rewrite !app_length, IHr, zt_degree. destruct (Nat.ltb 1 (degree ch)); simpl; auto.
  Qed.
  Lemma zt_span t : span (zt t) = span t.
  Proof. unfold span. now rewrite zt_degree, zt_edges_below. Qed.

  Lemma tips_length_unfold n c sl :
    length (tips (UNode n c sl)) =
    (if Nat.eqb (length sl) 1 then 1 else 0) +
    length (flat_map (fun s : slot => match s with Some (_, ch) => tips ch | None => [] end) sl).
  Proof. simpl tips. rewrite app_length. unfold is_tip, degree. simpl uslots. destruct (Nat.eqb (length sl) 1); reflexivity. Qed.

  Lemma zt_tips : forall t, length (tips (zt t)) = length (tips t).
  Proof.
    induction t as [n c sl IH] using utree_ind'.
    rewrite zt_unfold, !tips_length_unfold, map_length. f_equal.
    induction IH as [|[[e ch]|] r H _ IHr]; simpl; auto. now rewrite !app_length, H, IHr.
  Qed.
End ZeroTips.

Lemma tip_kids c : wf_sub c = true -> is_tip c = true -> kids c = [].
Proof.
  intros Hw Ht. generalize (wf_sub_up c Hw). destruct c as [n cm sl]. unfold is_tip, degree, kids in *. simpl in *.
  apply Nat.eqb_eq in Ht. intros Hu. generalize (length_slots sl). rewrite Hu, Ht.
  destruct (kids_of sl); simpl; auto. lia.
Qed.
Lemma nontip_kids c : wf_sub c = true -> is_tip c = false -> kids c <> [].
Proof. intros Hw Ht. destruct (nontip_leaves c Hw Ht) as [H _]. exact H. Qed.

Lemma branches_kid n cm sl e ch p : In (Some (e, ch)) sl -> In p (branches ch) -> In p (branches (UNode n cm sl)).
Proof.
  intros Hs Hp. rewrite branches_unfold. unfold brs. rewrite in_flat_map. exists (Some (e, ch)). split; auto. now right.
Qed.
Lemma branches_self n cm sl e ch : In (Some (e, ch)) sl -> In (e, ch) (branches (UNode n cm sl)).
Proof.
  intros Hs. rewrite branches_unfold. unfold brs. rewrite in_flat_map. exists (Some (e, ch)). split; auto. now left.
Qed.

Section TipsEquiv.
  Variable cr : crit.
  Variable rr : bool.
  Variables sel sel' : nat -> einfo -> utree -> bool.
  Notation zt := (zero_tips cr).

  (** on the branches of t: a tip branch is selected iff it satisfies the criterion; an inner branch
      is selected in the zeroed tree iff it is in t *)
  Definition good_sel (t : utree) : Prop :=
    forall e c k, In (e, c) (branches t) ->
                  (is_tip c = true -> sel k e c = tip_crit cr e) /\
                  (is_tip c = false -> sel' k e (zt c) = sel k e c).

  Lemma proc_tips : forall t top k m,
      forallb (fun p => wf_sub (snd p)) (kids t) = true -> good_sel t ->
      Collapse.proc rr false sel' (zt t) top k m = Collapse.proc rr true sel t top k m.
  Proof.
    induction t as [n cm sl IH] using utree_ind'. intros top k m Hw Hg.
    rewrite zt_unfold, !proc_eq. unfold kids in Hw. simpl uslots in Hw.
    assert (Hg' : forall e ch, In (Some (e, ch)) sl ->
                               (forall e0 c0 k0, In (e0, c0) (branches ch) ->
                                                 (is_tip c0 = true -> sel k0 e0 c0 = tip_crit cr e0) /\
                                                 (is_tip c0 = false -> sel' k0 e0 (zt c0) = sel k0 e0 c0)) /\
                               (forall k0, (is_tip ch = true -> sel k0 e ch = tip_crit cr e) /\
                                           (is_tip ch = false -> sel' k0 e (zt ch) = sel k0 e ch))).
    { intros e ch Hs. split.
      - intros e0 c0 k0 Hp. apply Hg. eapply branches_kid; eauto.
      - intros k0. apply Hg. now apply branches_self. }
    clear Hg. revert k m.
    induction sl as [|[[e ch]|] r IHr]; intros k m; [reflexivity| |].
    - inversion IH as [|? ? Hc Hr]; subst. simpl in Hw. apply andb_true_iff in Hw. destruct Hw as [Hwc Hwr].
      assert (IHr' := IHr Hr Hwr (fun e0 c0 H0 => Hg' e0 c0 (or_intror H0))). clear IHr.
      destruct (Hg' e ch (or_introl eq_refl)) as [Gsub Gself].
      simpl map. rewrite !proc_go_some. cbv zeta.
      rewrite map_length, kids_zslots, map_length, zt_span.
      assert (Ed : forall nn, decide rr sel' k (zedge cr e ch) (zt ch) nn = decide rr sel k e ch nn).
      { intros nn. unfold decide. rewrite zt_is_tip, zt_degree. destruct (is_tip ch) eqn:Et.
        - now rewrite !andb_false_r.
        - assert (Ez : zedge cr e ch = e).
          { unfold zedge. generalize (nontip_kids ch Hwc Et). destruct (kids ch); [congruence|reflexivity]. }
          rewrite Ez. destruct (Gself k) as [_ G2]. now rewrite (G2 eq_refl). }
      rewrite Ed.
      assert (Hpc : forall top0 k0 m0, Collapse.proc rr false sel' (zt ch) top0 k0 m0 = Collapse.proc rr true sel ch top0 k0 m0).
      { intros. apply Hc; [apply (wf_sub_kids ch Hwc)|]. intros e0 c0 k1 Hp. now apply Gsub. }
      destruct (decide rr sel k e ch (m + 1 + (if top then length r else length (kids_of r)))).
      + rewrite Hpc. destruct (Collapse.proc rr true sel ch false (S k) (m + (if top then length r else length (kids_of r)))) as [bc ac].
        now rewrite IHr'.
      + rewrite Hpc. destruct (Collapse.proc rr true sel ch true (S k) 0) as [b1 a1]. rewrite IHr'.
        destruct (proc_go rr true sel top r (k + 1 + span ch) (S m)) as [b a].
        rewrite zt_uname, zt_ucom. f_equal. f_equal. f_equal. f_equal.
        unfold adj. rewrite andb_false_r. rewrite andb_true_r.
        destruct (is_tip ch) eqn:Et.
        * destruct (Gself k) as [G1 _]. rewrite (G1 eq_refl), andb_true_r. unfold zedge.
          rewrite (tip_kids ch Hwc Et). destruct (tip_crit cr e); reflexivity.
        * rewrite andb_false_r. unfold zedge. generalize (nontip_kids ch Hwc Et). destruct (kids ch); [congruence|reflexivity].
    - inversion IH as [|? ? _ Hr]; subst. simpl in Hw.
      assert (IHr' := IHr Hr Hw (fun e0 c0 H0 => Hg' e0 c0 (or_intror H0))).
      simpl map. rewrite !proc_go_none. destruct top; now rewrite IHr'.
  Qed.

  Theorem remove_edges_tips t :
    wf t = true -> good_sel t ->
    remove_edges rr true sel t = remove_edges rr false sel' (zt t).
  Proof.
    intros Hw Hg. unfold remove_edges. rewrite proc_tips; auto.
    - destruct (Collapse.proc rr true sel t true 0 0). now rewrite zt_uname, zt_ucom.
    - destruct t as [n c sl]. rewrite wf_unfold in Hw. apply andb_true_iff in Hw. tauto.
  Qed.
End TipsEquiv.

(** * the oracle clause for --tips *)
Lemma collapse_ok_tips_iff cr t g : collapse_ok_tips cr t g = None <-> collapse_ok cr (zero_tips cr t) g = None.
Proof. unfold collapse_ok_tips. destruct (collapse_ok cr (zero_tips cr t) g); split; intros; congruence. Qed.

Lemma zt_unrooted cr t : unrooted t -> unrooted (zero_tips cr t).
Proof.
  intros [[H1 [H2 H3]] [H4 H5]]. unfold CompareDomain.unrooted, IndexSplit.good.
  rewrite zt_wf, zt_degree, zt_leaves, zt_no_single. auto.
Qed.

Lemma zt_rooted_dom cr t : rooted_dom t -> rooted_dom (zero_tips cr t).
Proof.
  intros [Hw [Hs [Hn [n [cm [e1 [c1 [e2 [c2 [-> Hi]]]]]]]]]]. unfold rooted_dom.
  rewrite zt_wf, zt_no_single, zt_leaves. repeat split; auto.
  exists n, cm, (zedge cr e1 c1), (zero_tips cr c1), (zedge cr e2 c2), (zero_tips cr c2). split; [reflexivity|].
  now rewrite !zt_is_tip.
Qed.

Lemma len_good_sel l t : good_sel (CLen l) (fun _ e _ => sel_len l e) (fun _ e _ => sel_len l e) t.
Proof. intros e c k _. split; intros _; reflexivity. Qed.

Lemma depth_good_sel mn mx t :
  wf t = true -> 2 <= degree t ->
  good_sel (CDepth mn mx) (fun _ _ c => sel_depth t mn mx c) (fun _ _ c => sel_depth (zero_tips (CDepth mn mx) t) mn mx c) t.
Proof.
  intros Hw Hd e c k Hp. split; intros Ht.
  - rewrite (sel_depth_light mn mx t e c Hw Hd Hp). cbv zeta.
    destruct (clade_proper t e c Hw Hd Hp) as [Hwc [L1 L2]].
    rewrite (tip_one_leaf c Hwc Ht) in *.
    assert (E : Nat.min (length (leaves t) - 1) 1 = 1) by lia. rewrite E. reflexivity.
  - unfold sel_depth, topo_depth, ntax_left, ntax_right. now rewrite !zt_tips.
Qed.

Section TipsOracle.
  Theorem tips_len_equiv l rr t :
    wf t = true -> collapse_len l rr true t = collapse_len l rr false (zero_tips (CLen l) t).
  Proof. intros Hw. unfold collapse_len. apply remove_edges_tips; auto. apply len_good_sel. Qed.

  Theorem tips_depth_equiv mn mx rr t :
    wf t = true -> 2 <= degree t ->
    collapse_depth mn mx rr true t = collapse_depth mn mx rr false (zero_tips (CDepth mn mx) t).
  Proof.
    intros Hw Hd. rewrite !collapse_depth_ok; auto; [|now rewrite zt_wf|now rewrite zt_degree].
    f_equal. apply remove_edges_tips; auto. now apply depth_good_sel.
  Qed.

  Theorem tips_len_oracle l t :
    unrooted t -> collapse_ok_tips (CLen l) t (collapse_len l false true t) = None.
  Proof.
    intros U. destruct (unrooted_parts t U) as [Hw _]. apply collapse_ok_tips_iff.
    rewrite tips_len_equiv by auto. apply collapse_len_oracle. now apply zt_unrooted.
  Qed.

  Theorem tips_depth_oracle mn mx t :
    unrooted t ->
    exists g, collapse_depth mn mx false true t = Ok g /\ collapse_ok_tips (CDepth mn mx) t g = None.
  Proof.
    intros U. destruct (unrooted_parts t U) as [Hw [Hd _]].
    rewrite tips_depth_equiv by (auto; lia).
    destruct (collapse_depth_oracle mn mx _ (zt_unrooted (CDepth mn mx) t U)) as [g [E O]].
    exists g. split; auto. now apply collapse_ok_tips_iff.
  Qed.

  Theorem rooted_tips_len_oracle l t :
    rooted_dom t -> collapse_ok_tips (CLen l) t (collapse_len l false true t) = None.
  Proof.
    intros R. destruct R as [Hw R']. apply collapse_ok_tips_iff.
    rewrite tips_len_equiv by auto. apply rooted_collapse_len_oracle. apply zt_rooted_dom. split; auto.
  Qed.

  Theorem rooted_tips_depth_oracle mn mx t :
    rooted_dom t ->
    exists g, collapse_depth mn mx false true t = Ok g /\ collapse_ok_tips (CDepth mn mx) t g = None.
  Proof.
    intros R. assert (R0 := R). destruct R as [Hw [Hs [Hn [n [cm [e1 [c1 [e2 [c2 [Et Hi]]]]]]]]]].
    assert (Hd : 2 <= degree t) by (subst t; unfold degree; simpl; lia).
    rewrite tips_depth_equiv by auto.
    destruct (rooted_collapse_depth_oracle mn mx _ (zt_rooted_dom (CDepth mn mx) t R0)) as [g [E O]].
    exists g. split; auto. now apply collapse_ok_tips_iff.
  Qed.
End TipsOracle.

Theorem collapse_ok_tips_meaning cr t g :
  collapse_ok_tips cr t g = None <->
  wf g = true /\ sset_eqb (Obs.ssort (leaves t)) (Obs.ssort (leaves g)) = true /\
  same_splits (expected_after_collapse cr (zero_tips cr t)) (usplits g).
Proof.
  rewrite collapse_ok_tips_iff, collapse_ok_meaning, zt_leaves. reflexivity.
Qed.
