(** Lemmas on the count vectors of Model/Parsimony.v *)
From Coq Require Import String ZArith QArith Bool Arith Lia List.
From GT Require Import Base.UTree Model.Parsimony.
Import ListNotations.
Local Close Scope Q_scope.

Lemma vadd_length : forall d s, length (vadd d s) = length d.
Proof. induction d as [|x d IH]; intros [|y s]; simpl; auto. Qed.

Lemma nth_vadd : forall d s x, length s <= length d ->
  nth x (vadd d s) 0 = nth x d 0 + nth x s 0.
Proof.
  induction d as [|a d IH]; intros [|b s] x H; simpl in *; try lia.
  - destruct x; reflexivity.
  - destruct x; lia.
  - destruct x; simpl; [reflexivity | apply IH; lia].
Qed.

Lemma vzero_length : forall k, length (vzero k) = k.
Proof. intros; apply repeat_length. Qed.

Lemma nth_vzero : forall k x, nth x (vzero k) 0 = 0.
Proof.
  induction k; intros [|x]; simpl; auto.
Qed.

Definition nsum (x : nat) (l : list vec) : nat := fold_right (fun v acc => nth x v 0 + acc) 0 l.

Lemma fold_vadd_length : forall l acc, length (fold_left vadd l acc) = length acc.
Proof. induction l; simpl; intros; auto. rewrite IHl. apply vadd_length. Qed.

Lemma nth_fold_vadd : forall l acc x, Forall (fun v => length v = length acc) l ->
  nth x (fold_left vadd l acc) 0 = nth x acc 0 + nsum x l.
Proof.
  induction l as [|v l IH]; intros acc x H; simpl; [lia|].
  inversion H; subst.
  rewrite IH.
  - rewrite nth_vadd by lia. lia.
  - rewrite vadd_length. assumption.
Qed.

Lemma vsum_length : forall k l, length (vsum k l) = k.
Proof. intros. unfold vsum. rewrite fold_vadd_length. apply vzero_length. Qed.

Lemma nth_vsum : forall k l x, Forall (fun v => length v = k) l -> nth x (vsum k l) 0 = nsum x l.
Proof.
  intros. unfold vsum. rewrite nth_fold_vadd.
  - rewrite nth_vzero. lia.
  - rewrite vzero_length. assumption.
Qed.

(** ** maxima *)
Lemma fold_max_ge_acc : forall v a, a <= fold_left Nat.max v a.
Proof. induction v; simpl; intros; [lia|]. specialize (IHv (Nat.max a0 a)). lia. Qed.

Lemma fold_max_mono : forall v a b, a <= b -> fold_left Nat.max v a <= fold_left Nat.max v b.
Proof. induction v; simpl; intros; [lia|]. apply IHv. lia. Qed.

Lemma nth_le_fold_max : forall v a x, nth x v 0 <= fold_left Nat.max v a.
Proof.
  induction v as [|c v IH]; intros a x; simpl.
  - destruct x; lia.
  - destruct x.
    + pose proof (fold_max_ge_acc v (Nat.max a c)). lia.
    + apply IH.
Qed.

Lemma nth_le_vmax : forall v x, nth x v 0 <= vmax v.
Proof. intros. apply nth_le_fold_max. Qed.

Lemma vmax_app1 : forall pre c, vmax (pre ++ [c]) = Nat.max (vmax pre) c.
Proof. intros. unfold vmax. rewrite fold_left_app. reflexivity. Qed.

Lemma first_max_go_spec : forall v pre best bi,
  nth bi pre 0 = best -> best = vmax pre ->
  nth (first_max_go v (length pre) best bi) (pre ++ v) 0 = vmax (pre ++ v).
Proof.
  induction v as [|c v IH]; intros pre best bi Hn Hb; simpl.
  - rewrite app_nil_r. congruence.
  - replace (pre ++ c :: v) with ((pre ++ [c]) ++ v) by (rewrite <- app_assoc; reflexivity).
    destruct (Nat.ltb best c) eqn:E.
    + apply Nat.ltb_lt in E.
      replace (S (length pre)) with (length (pre ++ [c])) by (rewrite app_length; simpl; lia).
      apply IH.
      * rewrite app_nth2 by lia. rewrite Nat.sub_diag. reflexivity.
      * rewrite vmax_app1. lia.
    + apply Nat.ltb_ge in E.
      replace (S (length pre)) with (length (pre ++ [c])) by (rewrite app_length; simpl; lia).
      apply IH.
      * destruct (Nat.lt_ge_cases bi (length pre)) as [L|G].
        -- rewrite app_nth1 by assumption. assumption.
        -- rewrite (nth_overflow pre) in Hn by assumption. subst best.
           assert (c = 0) by lia. subst c.
           rewrite app_nth2 by assumption.
           destruct (bi - length pre) as [|[|j]]; reflexivity.
      * rewrite vmax_app1. lia.
Qed.

Lemma first_max_spec : forall v, nth (first_max v) v 0 = vmax v.
Proof.
  intros. unfold first_max.
  apply (first_max_go_spec v [] 0 0); reflexivity.
Qed.

Lemma first_max_go_lt : forall v k best bi, bi < k + length v -> 0 < length v + k ->
  first_max_go v k best bi < k + length v.
Proof.
  induction v as [|c v IH]; intros k best bi H H0; simpl in *.
  - lia.
  - destruct (Nat.ltb best c).
    + specialize (IH (S k) c k). lia.
    + specialize (IH (S k) best bi). lia.
Qed.

Lemma first_max_lt : forall v, v <> [] -> first_max v < length v.
Proof.
  intros v H. unfold first_max.
  destruct v as [|c v]; [congruence|].
  pose proof (first_max_go_lt (c :: v) 0 0 0). simpl in *. apply H0; lia.
Qed.

(** ** computeParsimony *)
Lemma compute_parsimony_length : forall v, length (compute_parsimony v) = length v.
Proof. intros. unfold compute_parsimony. apply map_length. Qed.

Lemma nth_compute_parsimony : forall v x,
  nth x (compute_parsimony v) 0 =
  if Nat.ltb x (length v) then (if Nat.eqb (nth x v 0) (vmax v) then 1 else 0) else 0.
Proof.
  intros. unfold compute_parsimony.
  destruct (Nat.ltb x (length v)) eqn:E.
  - apply Nat.ltb_lt in E.
    set (f := fun c => if Nat.eqb c (vmax v) then 1 else 0).
    rewrite (nth_indep (map f v) 0 (f 0)) by (rewrite map_length; assumption).
    rewrite map_nth. reflexivity.
  - apply Nat.ltb_ge in E. apply nth_overflow. rewrite map_length. assumption.
Qed.

Lemma compute_parsimony_01 : forall v x, nth x (compute_parsimony v) 0 <= 1.
Proof.
  intros. rewrite nth_compute_parsimony.
  destruct (Nat.ltb x (length v)); [destruct (Nat.eqb _ _)|]; lia.
Qed.

(** sums of 0/1 vectors *)
Lemma nsum_count : forall x (l : list vec),
  Forall (fun v => nth x v 0 <= 1) l ->
  length (filter (fun v => Nat.eqb (nth x v 0) 0) l) + nsum x l = length l.
Proof.
  induction l as [|v l IH]; intros H; simpl; [reflexivity|].
  inversion H; subst. specialize (IH H3).
  destruct (Nat.eqb (nth x v 0) 0) eqn:E.
  - apply Nat.eqb_eq in E. simpl. lia.
  - apply Nat.eqb_neq in E. lia.
Qed.
