(** C15: Clone is an exact copy (same children in the same order with the same names,
    comments and branch data, same Newick text; equal to the source when the parent is the
    first neighbour of every node); SubTree is the copy of the node's subtree. *)
From Coq Require Import String ZArith QArith Bool Arith Lia List Permutation.
From GT Require Import Base.UTree Spec.Obs Spec.Unrooted Model.Reroot Model.Newick Spec.NewickSpec
     Proofs.RerootBase Model.LocalEdit.
Import ListNotations.
Local Close Scope Q_scope.
Local Arguments n_up : simpl never.

Lemma copy_edge_id e : copy_edge e = e.
Proof. destruct e. reflexivity. Qed.

Definition copy_slots (sl : list slot) : list slot :=
  flat_map (fun s : slot => match s with
                            | None => []
                            | Some (e, ch) => [Some (copy_edge e, copy_node false ch)]
                            end) sl.

Lemma copy_node_unfold b n c sl :
  copy_node b (UNode n c sl) = UNode n c ((if b then [] else [None]) ++ copy_slots sl).
Proof. reflexivity. Qed.

(** * the copy has the same children, in the same order, with the same data *)
Definition rose_kids : list slot -> list (einfo * rose) :=
  fix go (l : list slot) : list (einfo * rose) :=
    match l with
    | [] => []
    | None :: r => go r
    | Some (e, ch) :: r => (e, rose_of ch) :: go r
    end.

Lemma rose_of_unfold n c sl : rose_of (UNode n c sl) = RNode n c (rose_kids sl).
Proof. reflexivity. Qed.

Theorem copy_node_rose t : forall b, rose_of (copy_node b t) = rose_of t.
Proof.
  induction t as [n c sl IH] using utree_ind'. intros b.
  rewrite copy_node_unfold, !rose_of_unfold. f_equal.
  assert (H : rose_kids (copy_slots sl) = rose_kids sl).
  { unfold copy_slots. induction IH as [|[[e ch]|] r Hs _ IHr]; simpl; auto.
    now rewrite copy_edge_id, Hs, IHr. }
  destruct b; simpl; exact H.
Qed.

Theorem clone_rose t : rose_of (clone t) = rose_of t.
Proof. apply copy_node_rose. Qed.

(** * when the parent is the first neighbour everywhere, the clone is the tree itself *)
Fixpoint upfirst_sub (t : utree) : bool :=
  match t with
  | UNode _ _ (None :: sl) =>
    forallb (fun s : slot => match s with Some (_, c) => upfirst_sub c | None => false end) sl
  | _ => false
  end.
Definition upfirst (t : utree) : bool :=
  forallb (fun s : slot => match s with Some (_, c) => upfirst_sub c | None => false end) (uslots t).

Lemma copy_slots_id sl :
  Forall (fun s : slot => match s with
                          | Some (_, t) => upfirst_sub t = true -> copy_node false t = t
                          | None => True end) sl ->
  forallb (fun s : slot => match s with Some (_, c) => upfirst_sub c | None => false end) sl = true ->
  copy_slots sl = sl.
Proof.
  unfold copy_slots. induction 1 as [|[[e ch]|] r Hs _ IHr]; simpl; intros F; auto; [|discriminate].
  apply andb_true_iff in F as [F1 F2]. now rewrite copy_edge_id, Hs, IHr.
Qed.

Lemma copy_node_id_sub t : upfirst_sub t = true -> copy_node false t = t.
Proof.
  induction t as [n c sl IH] using utree_ind'. intros H. rewrite copy_node_unfold.
  destruct sl as [|[p|] r]; simpl in H; try discriminate.
  inversion IH; subst. simpl. now rewrite (copy_slots_id r).
Qed.

Theorem clone_id t : upfirst t = true -> clone t = t.
Proof.
  destruct t as [n c sl]. unfold upfirst, clone. simpl uslots. intros H.
  rewrite copy_node_unfold. simpl. rewrite copy_slots_id; auto.
  apply Forall_forall. intros [[e ch]|] _; auto. apply copy_node_id_sub.
Qed.

(** * well-formedness of a copy, whatever the source *)
Lemma copy_slots_n_up sl : n_up (copy_slots sl) = 0.
Proof.
  unfold copy_slots. induction sl as [|[[e ch]|] r IH]; simpl; auto.
Qed.
Lemma copy_slots_kids sl :
  kids_of (copy_slots sl) = map (fun p => (copy_edge (fst p), copy_node false (snd p))) (kids_of sl).
Proof. unfold copy_slots. induction sl as [|[[e ch]|] r IH]; simpl; auto. now rewrite IH. Qed.

Lemma copy_node_wf_sub t : wf_sub (copy_node false t) = true.
Proof.
  induction t as [n c sl IH] using utree_ind'. rewrite copy_node_unfold, wf_sub_unfold.
  simpl app. rewrite n_up_cons, copy_slots_n_up. simpl.
  rewrite copy_slots_kids. clear -IH.
  induction IH as [|[[e ch]|] r Hs _ IHr]; simpl; auto. now rewrite Hs, IHr.
Qed.

Theorem clone_wf t : wf (clone t) = true.
Proof.
  destruct t as [n c sl]. unfold clone. rewrite copy_node_unfold, wf_unfold. simpl app.
  rewrite copy_slots_n_up. simpl. rewrite copy_slots_kids.
  induction (kids_of sl) as [|p r IH]; simpl; auto. now rewrite copy_node_wf_sub, IH.
Qed.

(** * observables: tips and path sums *)
Lemma copy_obs w t b :
  leaves (copy_node b t) = leaves t /\ depths w (copy_node b t) = depths w t /\
  pairdists w (copy_node b t) = pairdists w t.
Proof.
  revert b. induction t as [n c sl IH] using utree_ind'. intros b.
  rewrite copy_node_unfold.
  assert (K : kids_of ((if b then [] else [None]) ++ copy_slots sl) = kids_of (copy_slots sl))
    by (destruct b; reflexivity).
  rewrite !leaves_unfold, !depths_unfold, !pairdists_unfold, K, copy_slots_kids.
  assert (H : kleaves (map (fun p => (copy_edge (fst p), copy_node false (snd p))) (kids_of sl)) = kleaves (kids_of sl) /\
              kD w (map (fun p => (copy_edge (fst p), copy_node false (snd p))) (kids_of sl)) = kD w (kids_of sl) /\
              kpd w (map (fun p => (copy_edge (fst p), copy_node false (snd p))) (kids_of sl)) = kpd w (kids_of sl)).
  { clear -IH. unfold kleaves, kD, kpd.
    induction IH as [|[[e ch]|] r Hs _ IHr]; simpl; auto.
    destruct (Hs false) as [A [B C]]. destruct IHr as [D [E F]].
    rewrite copy_edge_id, A, B, C, D, E, F. auto. }
  destruct H as [A [B C]]. rewrite A, B, C.
  destruct (kids_of sl) as [|k0 K0]; simpl; auto.
Qed.

Theorem clone_leaves t : leaves (clone t) = leaves t.
Proof. apply (copy_obs len0 t true). Qed.
Theorem clone_pairdists w t : pairdists w (clone t) = pairdists w t.
Proof. apply (copy_obs w t true). Qed.

(** * the Newick text *)
Section Text.
  Variable fmt : Q -> string.

  Definition write_body : bool -> list slot -> string :=
    fix go (first : bool) (l : list slot) : string :=
      match l with
      | [] => ""%string
      | None :: r => go first r
      | Some (e, ch) :: r =>
        ((if first then "" else ",") ++ write_node fmt ch ++ deco fmt e ch ++ go false r)%string
      end.

  Lemma write_node_unfold n c sl :
    write_node fmt (UNode n c sl) =
    ((if Nat.ltb 1 (length sl) then "(" ++ write_body true sl ++ ")" else write_body true sl) ++ n)%string.
  Proof. reflexivity. Qed.

  Lemma copy_slots_length sl : length (copy_slots sl) = length (kids_of sl).
  Proof. unfold copy_slots. induction sl as [|[[e ch]|] r IH]; simpl; auto. Qed.

  Lemma deco_copy e ch : deco fmt (copy_edge e) (copy_node false ch) = deco fmt e ch.
  Proof. rewrite copy_edge_id. destruct ch as [n c sl]. reflexivity. Qed.

  Lemma write_body_copy sl :
    Forall (fun s : slot => match s with
                            | Some (_, t) => wf_sub t = true ->
                                             write_node fmt (copy_node false t) = write_node fmt t
                            | None => True end) sl ->
    forallb (fun p => wf_sub (snd p)) (kids_of sl) = true ->
    forall first, write_body first (copy_slots sl) = write_body first sl.
  Proof.
    unfold copy_slots. induction 1 as [|[[e ch]|] r Hs _ IHr]; simpl; intros F first; auto.
    apply andb_true_iff in F as [F1 F2]. now rewrite Hs, deco_copy, IHr.
  Qed.

  Lemma write_copy_sub t : wf_sub t = true -> write_node fmt (copy_node false t) = write_node fmt t.
  Proof.
    induction t as [n c sl IH] using utree_ind'. intros W.
    rewrite wf_sub_unfold in W. apply andb_true_iff in W as [U F]. apply Nat.eqb_eq in U.
    rewrite copy_node_unfold, !write_node_unfold. simpl app. simpl length.
    rewrite copy_slots_length, (length_slots sl), U.
    change (write_body true (None :: copy_slots sl)) with (write_body true (copy_slots sl)).
    now rewrite (write_body_copy sl IH F).
  Qed.

  Theorem write_clone t : wf t = true -> write fmt (clone t) = write fmt t.
  Proof.
    destruct t as [n c sl]. intros W. unfold write, clone.
    rewrite wf_unfold in W. apply andb_true_iff in W as [U F]. apply Nat.eqb_eq in U.
    rewrite copy_node_unfold, !write_node_unfold. simpl app.
    rewrite copy_slots_length, (length_slots sl), U. simpl plus.
    rewrite (write_body_copy sl); auto.
    apply Forall_forall. intros [[e ch]|] _; auto. apply write_copy_sub.
  Qed.
End Text.

(** * SubTree *)
Theorem subtree_spec t i s :
  subtree t i = Some s ->
  exists node, nth_error (nodes t) i = Some node /\
               rose_of s = rose_of node /\ wf s = true /\
               leaves s = leaves node /\ forall w, pairdists w s = pairdists w node.
Proof.
  unfold subtree. destruct (nth_error (nodes t) i) as [node|]; [|discriminate].
  intros H. inversion H; subst. exists node. split; auto. split; [apply copy_node_rose|].
  split; [apply clone_wf|]. split; [apply (copy_obs len0 node true)|].
  intros w. apply (copy_obs w node true).
Qed.

Theorem subtree_defined t i : i < length (nodes t) -> exists s, subtree t i = Some s.
Proof.
  intros H. unfold subtree. destruct (nth_error (nodes t) i) eqn:E; eauto.
  apply nth_error_None in E. lia.
Qed.
