(** Tree.RemoveEdges with ONE selected branch, on the tree model: [remove_edges_idx rr rt [k]]
    is a local rewrite at the left node of the k-th branch ([NNI.edge_locs], [NNI.at_path]). *)
From Coq Require Import String ZArith QArith Bool Arith Lia List.
From GT Require Import Base.UTree Model.Reroot Model.Prune Model.Collapse Model.NNI Proofs.Enum.
Import ListNotations.
Local Close Scope Q_scope.

Section Proc.
  Variables (rr rt : bool) (sel : nat -> einfo -> utree -> bool).

  (** the inner loop of [proc] as a named function *)
  Definition proc_go (top : bool) : list slot -> nat -> nat -> list slot * list slot :=
    fix go (l : list slot) (k m : nat) {struct l} : list slot * list slot :=
      match l with
      | [] => ([], [])
      | None :: r => if top then let '(b, a) := go r k (S m) in (None :: b, a) else go r k m
      | Some (e, c) :: r =>
        let cnt_r := if top then length r else length (kids_of r) in
        let k' := k + 1 + span c in
        let keep (e' : einfo) :=
            let '(b1, a1) := proc rr rt sel c true (S k) 0 in
            let '(b, a) := go r k' (S m) in
            (Some (e', UNode (uname c) (ucom c) (b1 ++ a1)) :: b, a) in
        if sel k e c then
          if is_tip c then keep (if rt then set_len0 e else e)
          else if negb rr && (Nat.eqb (degree c) 2 || Nat.eqb (m + 1 + cnt_r) 2) then keep e
          else
            let '(bc, ac) := proc rr rt sel c false (S k) (m + cnt_r) in
            let '(b, a) := go r k' (m + length bc + length ac) in
            (b, (bc ++ ac ++ a)%list)
        else keep e
      end.

  Lemma proc_eq n c sl top k m : proc rr rt sel (UNode n c sl) top k m = proc_go top sl k m.
  Proof. reflexivity. Qed.
End Proc.

(** number of Edges() entries below a slot list *)
Definition espan (sl : list slot) : nat :=
  fold_right (fun s acc => match s with Some (_, c) => 1 + span c + acc | None => acc end) 0 sl.

Definition some_slots (sl : list slot) : list slot :=
  filter (fun s : slot => match s with Some _ => true | None => false end) sl.

Lemma edges_below_espan n c sl : length (edges_below (UNode n c sl)) = espan sl.
Proof.
  cbn [edges_below]. induction sl as [|[[e0 c0]|] r IHr]; cbn [flat_map espan fold_right]; [reflexivity| |exact IHr].
  rewrite app_length, IHr. fold (espan r). unfold span. cbn [length]. destruct (Nat.ltb 1 (degree c0)); cbn [length]; lia.
Qed.

(** children are well formed: a node with at most one neighbour has no child *)
Definition kids_wf (sl : list slot) : Prop := Forall (slotP (fun t => wf_sub t = true)) sl.

Lemma wf_sub_kids n c sl : wf_sub (UNode n c sl) = true -> kids_wf sl.
Proof. intros H. apply wf_sub_slots in H. apply H. Qed.
Lemma wf_kids n c sl : wf (UNode n c sl) = true -> kids_wf sl.
Proof. intros H. apply wf_slots in H. apply H. Qed.

Lemma span_espan c : wf_sub c = true -> span c = espan (uslots c).
Proof.
  intros W. unfold span. destruct c as [n c0 sl]. cbn [uslots]. destruct (Nat.ltb_spec 1 (degree (UNode n c0 sl))) as [H|H].
  - apply edges_below_espan.
  - unfold degree in H. cbn [uslots] in H. rewrite (wf_sub_small _ _ _ W H). reflexivity.
Qed.

Lemma espan_app a b : espan (a ++ b) = espan a + espan b.
Proof. induction a as [|[[e c]|] a IH]; cbn [app espan fold_right]; [reflexivity| |exact IH]. fold (espan (a ++ b)) (espan a). lia. Qed.

Section None.
  Variables (rr rt : bool) (sel : nat -> einfo -> utree -> bool).

  (** no selected index in the range: nothing changes *)
  Lemma proc_none : forall t, kids_wf (uslots t) -> forall k0 m,
    (forall i e c, k0 <= i < k0 + espan (uslots t) -> sel i e c = false) ->
    proc rr rt sel t true k0 m = (uslots t, []) /\ proc rr rt sel t false k0 m = (some_slots (uslots t), []).
  Proof.
    induction t as [n c sl IH] using utree_ind'. intros W k0 m Hsel. rewrite !proc_eq. cbn [uslots] in *.
    revert k0 m Hsel. unfold kids_wf in W. induction IH as [|s sl Hs _ IHsl]; intros k0 m Hsel; [split; reflexivity|].
    inversion W as [|? ? Ws Wsl]; subst.
    destruct s as [[e ch]|]; cbn [proc_go espan fold_right some_slots filter] in *; fold (espan sl) in *; fold (some_slots sl).
    - cbn [slotP] in Hs, Ws. rewrite (Hsel k0 e ch) by lia. rewrite (span_espan ch Ws) in *.
      assert (Wk : kids_wf (uslots ch)) by (destruct ch as [n' c'' sl']; exact (wf_sub_kids _ _ _ Ws)).
      destruct (Hs Wk (S k0) 0) as [P1 _].
      { intros i e' c' Hi. apply Hsel. lia. }
      rewrite P1.
      destruct (IHsl Wsl (k0 + 1 + espan (uslots ch)) (S m)) as [Q1 Q2]; [intros i e' c' Hi; apply Hsel; lia|].
      rewrite app_nil_r. destruct ch as [n' c'' sl']. cbn [uname ucom uslots] in *. rewrite Q1, Q2. split; reflexivity.
    - destruct (IHsl Wsl k0 (S m) Hsel) as [P1 _]. destruct (IHsl Wsl k0 m Hsel) as [_ P2]. rewrite P1, P2. split; reflexivity.
  Qed.
End None.

(** * one selected branch *)
Definition edge_locs_go : nat -> list slot -> list (list nat * nat) :=
  fix go (k : nat) (l : list slot) : list (list nat * nat) :=
    match l with
    | [] => []
    | None :: r => go (S k) r
    | Some (_, c) :: r =>
      ([], k) :: (if Nat.ltb 1 (degree c)
                  then map (fun q => (k :: fst q, snd q)) (edge_locs c) else [])
              ++ go (S k) r
    end.

Lemma edge_locs_eq n c sl : edge_locs (UNode n c sl) = edge_locs_go 0 sl.
Proof. reflexivity. Qed.

Lemma edge_locs_length : forall t, length (edge_locs t) = length (edges_below t).
Proof.
  induction t as [n c sl IH] using utree_ind'. rewrite edge_locs_eq. cbn [edges_below].
  assert (G : forall i, length (edge_locs_go i sl) =
    length (flat_map (fun s : slot => match s with
                       | Some (e, c0) => (e, c0) :: (if Nat.ltb 1 (degree c0) then edges_below c0 else [])
                       | None => [] end) sl)); [|apply G].
  induction IH as [|s sl Hs _ IHsl]; intros i; [reflexivity|]. destruct s as [[e ch]|]; cbn [edge_locs_go flat_map]; [|apply IHsl].
  cbn [length]. rewrite !app_length, IHsl. cbn [slotP] in Hs. destruct (Nat.ltb 1 (degree ch)); [rewrite map_length, Hs|]; reflexivity.
Qed.

Lemma edge_locs_guard c (f : list nat * nat -> list nat * nat) : wf_sub c = true ->
  (if Nat.ltb 1 (degree c) then map f (edge_locs c) else []) = map f (edge_locs c) /\ length (edge_locs c) = espan (uslots c).
Proof.
  intros W. destruct c as [n c0 sl]. cbn [uslots]. rewrite edge_locs_length, edges_below_espan. split; [|reflexivity].
  destruct (Nat.ltb_spec 1 (degree (UNode n c0 sl))) as [H|H]; [reflexivity|].
  unfold degree in H. cbn [uslots] in H. rewrite (wf_sub_small _ _ _ W H). reflexivity.
Qed.

Definition contract_slot (rr rt : bool) (j : nat) (t : utree) : option utree :=
  match t with
  | UNode n c sl =>
    match nth_error sl j with
    | Some (Some (e, ch)) =>
      if is_tip ch then Some (UNode n c (set_nth j (Some ((if rt then set_len0 e else e), ch)) sl))
      else if negb rr && (Nat.eqb (degree ch) 2 || Nat.eqb (length sl) 2) then Some t
      else Some (UNode n c (remove_nth j sl ++ some_slots (uslots ch)))
    | _ => None
    end
  end.

Lemma set_nth_app_mid {A} (pre : list A) a r x : set_nth (length pre) x (pre ++ a :: r) = pre ++ x :: r.
Proof. induction pre as [|b pre IH]; [reflexivity|]. cbn [length app]. unfold set_nth in *. cbn [firstn skipn app]. f_equal. exact IH. Qed.
Lemma remove_nth_app_mid {A} (pre : list A) a r : remove_nth (length pre) (pre ++ a :: r) = pre ++ r.
Proof. induction pre as [|b pre IH]; [reflexivity|]. cbn [length app]. unfold remove_nth in *. cbn [firstn skipn app]. f_equal. exact IH. Qed.
Lemma nth_error_app_mid' {A} (pre : list A) a r : nth_error (pre ++ a :: r) (length pre) = Some a.
Proof. rewrite nth_error_app2 by lia. rewrite Nat.sub_diag. reflexivity. Qed.

Lemma unode_eta t : UNode (uname t) (ucom t) (uslots t) = t.
Proof. destruct t. reflexivity. Qed.

Section Hit.
  Variables (rr rt : bool) (k : nat).
  Let sel : nat -> einfo -> utree -> bool := fun i _ _ => existsb (Nat.eqb i) [k].

  Lemma sel_spec i e c : sel i e c = Nat.eqb i k.
  Proof. unfold sel. cbn. apply orb_false_r. Qed.

  Lemma go_none l k0 m : kids_wf l -> (k < k0 \/ k0 + espan l <= k) ->
    proc_go rr rt sel true l k0 m = (l, []) /\ proc_go rr rt sel false l k0 m = (some_slots l, []).
  Proof.
    intros W Hk. pose proof (proc_none rr rt sel (UNode EmptyString [] l) W k0 m) as H. rewrite !proc_eq in H. cbn [uslots] in H.
    apply H. intros i e c Hi. rewrite sel_spec. apply Nat.eqb_neq. lia.
  Qed.

  Lemma proc_hit : forall t, kids_wf (uslots t) -> forall k0 p j, k0 <= k ->
    nth_error (edge_locs t) (k - k0) = Some (p, j) ->
    exists t', at_path (contract_slot rr rt j) p t = Some t' /\ uname t' = uname t /\ ucom t' = ucom t /\
      fst (proc rr rt sel t true k0 0) ++ snd (proc rr rt sel t true k0 0) = uslots t'.
  Proof.
    induction t as [n c sl IH] using utree_ind'. intros W k0 p j Hk0 Hloc. rewrite edge_locs_eq in Hloc. rewrite proc_eq. cbn [uslots uname ucom] in *.
    assert (H : forall l pre, sl = pre ++ l -> forall idx, k = k0 + espan pre + idx ->
              nth_error (edge_locs_go (length pre) l) idx = Some (p, j) ->
              exists t', at_path (contract_slot rr rt j) p (UNode n c sl) = Some t' /\ uname t' = n /\ ucom t' = c /\
                pre ++ fst (proc_go rr rt sel true l (k0 + espan pre) (length pre)) ++ snd (proc_go rr rt sel true l (k0 + espan pre) (length pre)) = uslots t').
    { induction l as [|s l IHl]; intros pre Esl idx Hk Hidx; [destruct idx; discriminate|].
      assert (Esl' : sl = (pre ++ [s]) ++ l) by (rewrite <- app_assoc; exact Esl).
      assert (Ws : In s sl) by (rewrite Esl; apply in_or_app; right; left; reflexivity).
      assert (Wl : kids_wf l).
      { unfold kids_wf in *. rewrite Esl in W. apply Forall_app in W. destruct W as [_ W]. inversion W. assumption. }
      destruct s as [[e ch]|]; cbn [edge_locs_go proc_go] in *.
      - assert (Wc : wf_sub ch = true).
        { unfold kids_wf in W. rewrite Forall_forall in W. exact (W _ Ws). }
        rewrite (span_espan ch Wc).
        destruct (edge_locs_guard ch (fun q => (length pre :: fst q, snd q)) Wc) as [Eg Lg]. rewrite Eg in Hidx.
        assert (Wck : kids_wf (uslots ch)) by (destruct ch as [n' c'' sl']; exact (wf_sub_kids _ _ _ Wc)).
        rewrite sel_spec.
        destruct idx as [|idx]; cbn [nth_error] in Hidx.
        + (* the selected branch itself *)
          injection Hidx as <- <-. replace (k0 + espan pre =? k) with true by (symmetry; apply Nat.eqb_eq; lia).
          destruct (proc_none rr rt sel ch Wck (S (k0 + espan pre)) 0) as [C1 _].
          { intros i e' c' Hi. rewrite sel_spec. apply Nat.eqb_neq. lia. }
          cbn [at_path contract_slot]. rewrite Esl, nth_error_app_mid'.
          destruct (is_tip ch) eqn:Etip.
          * rewrite C1. destruct (go_none l (k0 + espan pre + 1 + espan (uslots ch)) (S (length pre)) Wl) as [G1 _]; [left; lia|].
            rewrite G1. cbn [fst snd]. rewrite !app_nil_r, unode_eta. eexists. split; [reflexivity|]. cbn [uname ucom uslots].
            rewrite set_nth_app_mid. repeat split.
          * replace (length pre + 1 + length l) with (length (pre ++ Some (e, ch) :: l)) by (rewrite app_length; cbn; lia).
            destruct (negb rr && (Nat.eqb (degree ch) 2 || Nat.eqb (length (pre ++ Some (e, ch) :: l)) 2)) eqn:Eprot.
            -- rewrite C1. destruct (go_none l (k0 + espan pre + 1 + espan (uslots ch)) (S (length pre)) Wl) as [G1 _]; [left; lia|].
               rewrite G1. cbn [fst snd]. rewrite !app_nil_r, unode_eta. eexists. split; [reflexivity|]. cbn [uname ucom uslots].
               repeat split.
            -- destruct (proc_none rr rt sel ch Wck (S (k0 + espan pre)) (length pre + length l)) as [_ C2].
               { intros i e' c' Hi. rewrite sel_spec. apply Nat.eqb_neq. lia. }
               rewrite C2. cbn [length]. rewrite Nat.add_0_r.
               destruct (go_none l (k0 + espan pre + 1 + espan (uslots ch)) (length pre + length (some_slots (uslots ch))) Wl) as [G1 _]; [left; lia|].
               rewrite G1. cbn [fst snd app]. eexists. split; [reflexivity|]. cbn [uname ucom uslots].
               rewrite remove_nth_app_mid, !app_nil_r, app_assoc. repeat split.
        + replace (k0 + espan pre =? k) with false by (symmetry; apply Nat.eqb_neq; lia).
          destruct (Nat.lt_ge_cases idx (espan (uslots ch))) as [Hlt|Hge].
          * (* inside the child *)
            rewrite nth_error_app1 in Hidx by (rewrite map_length, Lg; exact Hlt). rewrite nth_error_map in Hidx.
            destruct (nth_error (edge_locs ch) idx) as [[q j']|] eqn:Eq; [|discriminate]. cbn in Hidx. injection Hidx as <- <-.
            rewrite Forall_forall in IH. pose proof (IH _ Ws) as IHc. cbn [slotP] in IHc.
            destruct (IHc Wck (S (k0 + espan pre)) q j') as [c' (A1 & A2 & A3 & A4)]; [lia|replace (k - S (k0 + espan pre)) with idx by lia; exact Eq|].
            destruct (go_none l (k0 + espan pre + 1 + espan (uslots ch)) (S (length pre)) Wl) as [G1 _]; [left; lia|].
            destruct (proc rr rt sel ch true (S (k0 + espan pre)) 0) as [b1 a1]. cbn [fst snd] in A4. rewrite G1. cbn [fst snd].
            cbn [at_path]. rewrite Esl, nth_error_app_mid', A1. eexists. split; [reflexivity|]. cbn [uname ucom uslots].
            rewrite set_nth_app_mid, app_nil_r, A4, <- A2, <- A3, unode_eta. repeat split.
          * (* further right *)
            rewrite nth_error_app2 in Hidx by (rewrite map_length, Lg; exact Hge). rewrite map_length, Lg in Hidx.
            destruct (proc_none rr rt sel ch Wck (S (k0 + espan pre)) 0) as [C1 _].
            { intros i e' c' Hi. rewrite sel_spec. apply Nat.eqb_neq. lia. }
            rewrite C1, app_nil_r, unode_eta.
            destruct (IHl (pre ++ [Some (e, ch)]) Esl' (idx - espan (uslots ch))) as [t' (A1 & A2 & A3 & A4)].
            { rewrite espan_app. cbn [espan fold_right]. rewrite (span_espan ch Wc). lia. }
            { rewrite app_length. cbn [length]. rewrite Nat.add_1_r. exact Hidx. }
            replace (k0 + espan (pre ++ [Some (e, ch)])) with (k0 + espan pre + 1 + espan (uslots ch)) in A4
              by (rewrite espan_app; cbn [espan fold_right]; rewrite (span_espan ch Wc); lia).
            replace (length (pre ++ [Some (e, ch)])) with (S (length pre)) in A4 by (rewrite app_length; cbn; lia).
            destruct (proc_go rr rt sel true l (k0 + espan pre + 1 + espan (uslots ch)) (S (length pre))) as [b a]. cbn [fst snd] in *.
            exists t'. split; [exact A1|]. split; [exact A2|]. split; [exact A3|]. rewrite <- A4, <- app_assoc. reflexivity.
      - destruct (IHl (pre ++ [None]) Esl' idx) as [t' (A1 & A2 & A3 & A4)].
        { rewrite espan_app. cbn [espan fold_right]. lia. }
        { rewrite app_length. cbn [length]. rewrite Nat.add_1_r. exact Hidx. }
        replace (k0 + espan (pre ++ [None])) with (k0 + espan pre) in A4 by (rewrite espan_app; cbn [espan fold_right]; lia).
        replace (length (pre ++ [None])) with (S (length pre)) in A4 by (rewrite app_length; cbn; lia).
        destruct (proc_go rr rt sel true l (k0 + espan pre) (S (length pre))) as [b a]. cbn [fst snd] in *.
        exists t'. split; [exact A1|]. split; [exact A2|]. split; [exact A3|]. rewrite <- A4, <- app_assoc. reflexivity. }
    destruct (H sl [] eq_refl (k - k0)) as [t' (A1 & A2 & A3 & A4)]; [cbn; lia|exact Hloc|].
    cbn [espan fold_right length app] in A4. rewrite Nat.add_0_r in A4. exists t'. repeat split; assumption.
  Qed.

  Theorem remove_edges_single t p j : wf t = true -> nth_error (edge_locs t) k = Some (p, j) ->
    at_path (contract_slot rr rt j) p t = Some (remove_edges_idx rr rt [k] t).
  Proof.
    intros W Hloc. destruct t as [n c sl].
    destruct (proc_hit (UNode n c sl) (wf_kids _ _ _ W) 0 p j) as [t' (A1 & A2 & A3 & A4)]; [lia|rewrite Nat.sub_0_r; exact Hloc|].
    rewrite A1. f_equal. unfold remove_edges_idx, remove_edges. fold sel.
    destruct (proc rr rt sel (UNode n c sl) true 0 0) as [b a]. cbn [fst snd uname ucom] in *.
    rewrite A4, <- A2, <- A3. symmetry. apply unode_eta.
  Qed.
End Hit.
