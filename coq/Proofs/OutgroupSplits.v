(** C05, splits of the unrooted tree ([usplits]: same-bipartition branches merged) under the
    insertion of a root in the middle of a branch followed by re-rooting on it: every
    bipartition is found with the same length (the cut branch = its two parts merged), the same
    support and the same tip flag. *)
From Coq Require Import String ZArith QArith Bool Arith Lia Lqa List Permutation Setoid Morphisms.
From GT Require Import Base.UTree Spec.Obs Model.Reroot Model.Outgroup Spec.Unrooted
     Proofs.RerootBase Proofs.Reroot Proofs.Reorder Proofs.Unroot Proofs.Splits Proofs.USplits Proofs.C05Main
     Proofs.OutgroupBase Proofs.OutgroupCut Proofs.OutgroupKeep.
Import ListNotations.
Local Close Scope Q_scope.
Local Arguments n_up : simpl never.

Notation bentry := (einfo * list string * bool)%type.

(** * re-rooting along a path *)
Theorem reroot_path_usplits p t t' :
  wf t = true -> 2 <= degree t -> path_ok t p -> NoDup (leaves t) -> reroot_path t p = Some t' ->
  forall k, orel split_qeq (find_split k (usplits t')) (find_split k (usplits t)).
Proof.
  intros Hwf Hd Hp ND H k.
  destruct (reroot_path_preserves p t Hwf Hd Hp) as [t'' [E [_ [_ [HL _]]]]].
  assert (t'' = t') by congruence. subst t''.
  assert (ET : tipset t' = tipset t) by (unfold tipset; now apply sset_perm).
  rewrite !usplits_eq, ET. apply foldsplits_perm. unfold tipset.
  apply splits_equiv_branch_splits; auto. eapply reroot_path_bsplits; eauto.
Qed.

(** * one branch replaced by two, somewhere below *)
Definition brel (x0 x1 x2 : bentry) (s s' : utree) : Prop :=
  isleaf s' = isleaf s /\ Permutation (leaves s') (leaves s) /\
  exists rest rest', PermR bs_same rest' rest /\
                     Permutation (bsplits s) (x0 :: rest) /\
                     Permutation (bsplits s') (x1 :: x2 :: rest').

Lemma PermR_bs_refl l : PermR bs_same l l.
Proof. apply PermR_refl. exact bs_same_Equivalence. Qed.

Lemma brel_step x0 x1 x2 n c sl k e0 s s' :
  nth_error sl k = Some (Some (e0, s)) -> brel x0 x1 x2 s s' ->
  brel x0 x1 x2 (UNode n c sl) (UNode n c (set_nth k (Some (e0, s')) sl)).
Proof.
  intros Hk [Hl [HL [rest [rest' [HR [P0 P1]]]]]].
  destruct (kids_of_set_nth_some sl k (e0, s) (e0, s') Hk) as [A [B [K1 [K2 _]]]].
  assert (NE : kids_of sl <> []) by (rewrite K1; destruct A; discriminate).
  assert (NE' : kids_of (set_nth k (Some (e0, s')) sl) <> []) by (rewrite K2; destruct A; discriminate).
  split; [|split].
  - now rewrite !isleaf_false.
  - rewrite !leaves_node by assumption. rewrite K1, K2, !kleaves_app, !kleaves_cons. cbn [snd].
    now rewrite HL.
  - exists (kbs A ++ (e0, leaves s, isleaf s) :: rest ++ kbs B),
           (kbs A ++ (e0, leaves s', isleaf s') :: rest' ++ kbs B).
    split; [|split].
    + apply PermR_app; [exact bs_same_Equivalence | apply PermR_bs_refl|].
      apply PR_skip; [repeat split; auto|].
      apply PermR_app; [exact bs_same_Equivalence | exact HR | apply PermR_bs_refl].
    + rewrite bsplits_unfold, K1, kbs_app, kbs_cons. cbn [fst snd]. rewrite P0. perm.
    + rewrite bsplits_unfold, K2, kbs_app, kbs_cons. cbn [fst snd]. rewrite P1. perm.
Qed.

Lemma update_at_brel x0 x1 x2 p : forall t s f s',
  node_at t p = Some s -> f s = Some s' -> brel x0 x1 x2 s s' ->
  exists t', update_at p f t = Some t' /\ brel x0 x1 x2 t t'.
Proof.
  induction p as [|k r IH]; intros t s f s' Hn Hf Hb.
  - simpl in *. inversion Hn; subst. eauto.
  - destruct t as [n c sl]. simpl in Hn.
    destruct (nth_error sl k) as [[[e ch]|]|] eqn:Ek; try discriminate.
    destruct (IH ch s f s' Hn Hf Hb) as [ch' [U B]].
    exists (UNode n c (set_nth k (Some (e, ch')) sl)). split.
    + simpl. now rewrite Ek, U.
    + now apply (brel_step x0 x1 x2 n c sl k e ch ch').
Qed.

Lemma cut_slot_brel k cf eP eC P e ch P' :
  nth_error (uslots P) k = Some (Some (e, ch)) -> cut_slot k cf eP eC P = Some P' ->
  brel (e, leaves ch, isleaf ch) (eP, leaves ch, false) (eC, leaves ch, isleaf ch) P P'.
Proof.
  destruct P as [n c sl]. simpl uslots. intros Hk Hc.
  simpl in Hc. rewrite Hk in Hc. destruct ch as [nc cc slc]. inversion Hc; subst P'. clear Hc.
  set (ch := UNode nc cc slc) in *.
  set (cc' := UNode nc cc (drop_up slc ++ [None])).
  set (X := UNode "" [] (if cf then [Some (eC, cc'); None] else [None; Some (eC, cc')])).
  destruct (kids_of_remove_nth sl k (e, ch) Hk) as [A [B [K1 [K2 _]]]].
  assert (KC : kids_of (drop_up slc ++ [None]) = kids_of slc).
  { rewrite kids_of_app, kids_of_drop_up. simpl. apply app_nil_r. }
  assert (Lc : leaves cc' = leaves ch) by (apply leaves_kids; auto).
  assert (Ic : isleaf cc' = isleaf ch) by (apply isleaf_kids; auto).
  assert (Bc : bsplits cc' = bsplits ch) by (apply bsplits_kids; auto).
  assert (KX : kids_of (if cf then [Some (eC, cc'); None] else [None; Some (eC, cc')]) = [(eC, cc')])
    by (destruct cf; reflexivity).
  assert (LX : leaves X = leaves ch).
  { unfold X. rewrite leaves_node by (rewrite KX; discriminate). rewrite KX. simpl. now rewrite app_nil_r. }
  assert (IX : isleaf X = false) by (unfold X; apply isleaf_false; rewrite KX; discriminate).
  assert (BX : bsplits X = (eC, leaves ch, isleaf ch) :: bsplits ch).
  { unfold X. rewrite bsplits_unfold, KX, kbs_cons. cbn [fst snd]. rewrite Lc, Ic, Bc.
    change (kbs []) with (@nil bentry). now rewrite app_nil_r. }
  assert (KP' : kids_of (remove_nth k sl ++ [Some (eP, X)]) = A ++ B ++ [(eP, X)]).
  { rewrite kids_of_app, K2. simpl. now rewrite <- app_assoc. }
  assert (NE : kids_of sl <> []) by (rewrite K1; destruct A; discriminate).
  assert (NE' : kids_of (remove_nth k sl ++ [Some (eP, X)]) <> []) by (rewrite KP'; destruct A, B; discriminate).
  split; [|split].
  - now rewrite !isleaf_false.
  - rewrite !leaves_node by assumption. rewrite K1, KP', !kleaves_app, !kleaves_cons. cbn [snd].
    rewrite LX. unfold kleaves at 3. simpl. perm.
  - exists (kbs A ++ bsplits ch ++ kbs B), (kbs A ++ bsplits ch ++ kbs B).
    split; [apply PermR_bs_refl|]. split.
    + rewrite bsplits_unfold, K1, kbs_app, kbs_cons. cbn [fst snd]. perm.
    + rewrite bsplits_unfold, KP', !kbs_app, kbs_cons. cbn [fst snd]. rewrite LX, IX, BX.
      change (kbs []) with (@nil bentry). perm.
Qed.

(** * at the level of [usplits] *)
Lemma fold_two_one k c0 c1 c2 R :
  sside c1 = sside c0 -> sside c2 = sside c0 -> split_qeq (merge_split c1 c2) c0 ->
  orel split_qeq (find_split k (foldsplits (c1 :: c2 :: R))) (find_split k (foldsplits (c0 :: R))).
Proof.
  intros K1 K2 H. rewrite !find_split_foldsplits. simpl fold_left.
  apply fold_step_rel; auto using split_qeq_refl, merge_split_qeq.
  unfold step. rewrite K1, K2. destruct (sset_eqb (sside c0) k); simpl; auto.
Qed.

Lemma brel_usplits (e eP eC : einfo) L b b1 t2 t3 :
  brel (e, L, b) (eP, L, b1) (eC, L, b) t2 t3 ->
  (merge_len (elen eP) (elen eC) == elen e)%Q -> (qmax (esup eP) (esup eC) == esup e)%Q ->
  b1 = false ->
  forall k, orel split_qeq (find_split k (usplits t3)) (find_split k (usplits t2)).
Proof.
  intros [_ [HL [rest [rest' [HR [P0 P1]]]]]] Hlen Hsup -> k.
  assert (ET : tipset t3 = tipset t2) by (unfold tipset; now apply sset_perm).
  rewrite !usplits_eq, ET. set (all := tipset t2). rewrite !branch_splits_bsplits.
  assert (PR : Permutation (map (canon_split all) rest') (map (canon_split all) rest)).
  { eapply PermR_map_eq; [|exact HR]. intros x y. apply canon_split_bs_same. }
  eapply orel_trans; [apply split_qeq_trans| |].
  { apply foldsplits_perm. apply (Permutation_map (canon_split all)) in P1. simpl map in P1.
    rewrite PR in P1. exact P1. }
  eapply orel_trans; [apply split_qeq_trans| |].
  2:{ apply foldsplits_perm. apply (Permutation_map (canon_split all)) in P0. simpl map in P0.
      symmetry. exact P0. }
  apply fold_two_one; try reflexivity.
  rewrite merge_split_eq. unfold canon_split. cbn [fst snd sside slen ssup stip].
  repeat split; auto.
Qed.

(** * [cut_and_root] *)
Theorem cut_and_root_usplits t2 pp k cf eP eC P e ch t4 :
  wf t2 = true -> 2 <= degree t2 -> NoDup (leaves t2) ->
  node_at t2 pp = Some P -> nth_error (uslots P) k = Some (Some (e, ch)) ->
  (merge_len (elen eP) (elen eC) == elen e)%Q -> (qmax (esup eP) (esup eC) == esup e)%Q ->
  cut_and_root t2 pp k cf eP eC = Some t4 ->
  forall key, orel split_qeq (find_split key (usplits t4)) (find_split key (usplits t2)).
Proof.
  intros Hwf Hd ND Hn Hk Hlen Hsup Hc key.
  destruct (cut_slot_spec (fun _ => 0%Q) k cf eP eC P e ch Hk ltac:(reflexivity))
    as [P' [C1 [C2 [C3 [C4 [C5 [C6 [C7 C8]]]]]]]].
  destruct (update_at_spec (fun _ => 0%Q) pp t2 P (cut_slot k cf eP eC) P' Hn C1 C2 C4 C5 C3)
    as [t3 [U1 [U2 [U3 [U4 [U5 U6]]]]]].
  destruct (update_at_brel _ _ _ pp t2 P (cut_slot k cf eP eC) P' Hn C1 (cut_slot_brel k cf eP eC P e ch P' Hk C1))
    as [t3' [U1' HB]].
  assert (t3' = t3) by congruence. subst t3'.
  assert (W3 : wf t3 = true) by auto.
  assert (D3 : 2 <= degree t3) by lia.
  assert (L3 : Permutation (leaves t3) (leaves t2)) by (destruct U2 as [L _]; exact L).
  assert (ND3 : NoDup (leaves t3)) by (now rewrite L3).
  set (X := cut_node cf eC ch) in *.
  assert (NX : node_at t3 (pp ++ [degree P - 1]) = Some X).
  { rewrite node_at_app, U3. simpl. now rewrite C8. }
  assert (PO : path_ok t3 (pp ++ [degree P - 1])).
  { eapply node_at_path_ok; eauto. unfold X. destruct cf; simpl; unfold degree; simpl; lia. }
  unfold cut_and_root in Hc. rewrite Hn, U1 in Hc.
  eapply orel_trans; [apply split_qeq_trans| |].
  - eapply reroot_path_usplits; eauto.
  - eapply brel_usplits; eauto.
Qed.

(** * the branch data of the result of [cut_and_root]: the two new branches and old ones *)
Lemma bs_same_einfo x y : bs_same x y -> fst (fst x) = fst (fst y).
Proof. intros (H & _). exact H. Qed.

Theorem cut_and_root_edges (Q : einfo -> Prop) t2 pp k cf eP eC P e ch t4 :
  wf t2 = true -> 2 <= degree t2 ->
  node_at t2 pp = Some P -> nth_error (uslots P) k = Some (Some (e, ch)) ->
  cut_and_root t2 pp k cf eP eC = Some t4 ->
  Q eP -> Q eC -> (forall x, In x (bsplits t2) -> Q (fst (fst x))) ->
  forall z, In z (bsplits t4) -> Q (fst (fst z)).
Proof.
  intros Hwf Hd Hn Hk Hc QP QC Q2 z Hz.
  destruct (cut_slot_spec (fun _ => 0%Q) k cf eP eC P e ch Hk ltac:(reflexivity))
    as [P' [C1 [C2 [C3 [C4 [C5 [C6 [C7 C8]]]]]]]].
  destruct (update_at_spec (fun _ => 0%Q) pp t2 P (cut_slot k cf eP eC) P' Hn C1 C2 C4 C5 C3)
    as [t3 [U1 [U2 [U3 [U4 [U5 U6]]]]]].
  destruct (update_at_brel _ _ _ pp t2 P (cut_slot k cf eP eC) P' Hn C1 (cut_slot_brel k cf eP eC P e ch P' Hk C1))
    as [t3' [U1' HB]].
  assert (t3' = t3) by congruence. subst t3'.
  assert (W3 : wf t3 = true) by auto.
  assert (D3 : 2 <= degree t3) by lia.
  set (X := cut_node cf eC ch) in *.
  assert (NX : node_at t3 (pp ++ [degree P - 1]) = Some X).
  { rewrite node_at_app, U3. simpl. now rewrite C8. }
  assert (PO : path_ok t3 (pp ++ [degree P - 1])).
  { eapply node_at_path_ok; eauto. unfold X. destruct cf; simpl; unfold degree; simpl; lia. }
  unfold cut_and_root in Hc. rewrite Hn, U1 in Hc.
  pose proof (reroot_path_bsplits _ t3 t4 W3 D3 PO Hc) as SE.
  destruct (PermR_In _ _ (bs_eq_Equivalence (leaves t3)) _ _ SE _ Hz) as [y [Hy (E1 & _)]].
  rewrite E1.
  destruct HB as [_ [_ [rest [rest' [HR [P0 P1]]]]]].
  apply (Permutation_in _ P1) in Hy. destruct Hy as [<-|[<-|Hy]]; [exact QP | exact QC|].
  destruct (PermR_In _ _ bs_same_Equivalence _ _ HR _ Hy) as [y0 [Hy0 Hs]].
  rewrite (bs_same_einfo _ _ Hs). apply Q2. apply (Permutation_in _ (Permutation_sym P0)). now right.
Qed.
