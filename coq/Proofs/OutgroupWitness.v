(** C05, rooting on an outgroup: the halves of the cut branch, the zero-length defect as a
    refuted statement, and examples showing that the hypotheses of the theorems are satisfiable. *)
From Coq Require Import String ZArith QArith Bool Arith Lia List Permutation Setoid Morphisms.
From GT Require Import Base.UTree Spec.Obs Model.Reroot Model.Outgroup Spec.Unrooted
     Proofs.RerootBase Proofs.Reroot Proofs.Unroot Proofs.C05Main
     Proofs.OutgroupKeep Proofs.OutgroupMain Proofs.OutgroupMidpoint.
Import ListNotations.
Local Close Scope Q_scope.
Local Open Scope string_scope.

(** a branch of positive length is cut into two equal halves that keep its support *)
Lemma half_edge_pos e :
  (0 < elen e)%Q ->
  (elen (half_edge e) == elen e * (1 # 2))%Q /\ esup (half_edge e) = esup e /\
  (elen (half_edge e) + elen (half_edge e) == elen e)%Q.
Proof.
  intros H. unfold half_edge, qltb.
  assert (E : Qle_bool (elen e) 0 = false).
  { destruct (Qle_bool (elen e) 0) eqn:E; auto. apply Qle_bool_iff in E.
    exfalso. apply (Qlt_irrefl 0). eapply Qlt_le_trans; eauto. }
  rewrite E. simpl. unfold qhalf. repeat split; try reflexivity. field.
Qed.

(** a branch of length 0 (or less) is replaced by two branches WITHOUT length and support *)
Lemma half_edge_nonpos e : (elen e <= 0)%Q -> half_edge e = e0.
Proof.
  intros H. unfold half_edge, qltb. apply Qle_bool_iff in H. now rewrite H.
Qed.

Definition Es (l s : Q) : einfo := mkE l s nilv [].

(** ((a:1,b:1)0.8:0,c:1,d:1);  rooted on {a,b}: the branch of length 0 and support 4/5 comes
    back as two branches with neither length nor support *)
Definition og_w0 : utree :=
  UNode "" [] [Some (Es 0%Q (4 # 5)%Q, UNode "" [] [None; Some (Ez 1%Q, tipn "a"); Some (Ez 1%Q, tipn "b")]);
               Some (Ez 1%Q, tipn "c"); Some (Ez 1%Q, tipn "d")].

Theorem outgroup_zero_cut_refuted :
  exists t names t' e,
    wf t = true /\ 3 <= degree t /\ NoDup (leaves t) /\
    reroot_outgroup false true t names = Ok t' /\
    side_of_e (unroot t) (group (unroot t) names) e /\
    (elen e == 0)%Q /\ (esup e == 4 # 5)%Q /\
    Forall (fun p => (elen (fst p) == -1)%Q /\ (esup (fst p) == -1)%Q) (kids t') /\
    ~ Forall (fun p => (elen (fst p) == elen e * (1 # 2))%Q) (kids t').
Proof.
  exists og_w0, ["a"; "b"].
  destruct (reroot_outgroup false true og_w0 ["a"; "b"]) as [t'|] eqn:E; [|vm_compute in E; discriminate].
  exists t', (Es 0%Q (4 # 5)%Q). vm_compute in E. inversion E; subst t'. clear E.
  repeat split.
  - vm_compute; lia.
  - vm_compute. repeat constructor; simpl; intuition discriminate.
  - exists ["a"; "b"], false. split; [vm_compute; auto|]. left. vm_compute. reflexivity.
  - vm_compute. repeat constructor.
  - intros H. inversion H as [|x l H1 _]. vm_compute in H1. discriminate.
Qed.

(** ((a:1,b:1)0.8:2,c:1,d:1);  the hypotheses of the theorems hold and the functions act *)
Definition og_w1 : utree :=
  UNode "" [] [Some (Es 2%Q (4 # 5)%Q, UNode "" [] [None; Some (Ez 1%Q, tipn "a"); Some (Ez 1%Q, tipn "b")]);
               Some (Ez 1%Q, tipn "c"); Some (Ez 1%Q, tipn "d")].

Lemma outgroup_example :
  wf og_w1 = true /\ 2 <= degree og_w1 /\ rooted og_w1 = false /\ NoDup (leaves og_w1) /\
  (exists t', reroot_outgroup false true og_w1 ["a"; "b"] = Ok t' /\ utree_eqb t' og_w1 = false /\
              Forall (fun p => (elen (fst p) == 1)%Q /\ (esup (fst p) == 4 # 5)%Q) (kids t')) /\
  (exists t', reroot_outgroup true true og_w1 ["a"; "b"] = Ok t' /\ leaves t' = ["c"; "d"]) /\
  (exists m, reroot_outgroup false true og_w1 ["a"; "c"] = Err m) /\
  (exists t', reroot_outgroup false false og_w1 ["a"; "c"] = Ok t') /\
  (exists m, reroot_outgroup false false og_w1 ["zz"] = Err m) /\
  (exists t', reroot_midpoint og_w1 = Ok t' /\ halfway og_w1 t').
Proof.
  repeat split; try (vm_compute; reflexivity); try (vm_compute; lia).
  - vm_compute. repeat constructor; simpl; intuition discriminate.
  - eexists. split; [vm_compute; reflexivity|]. split; [vm_compute; reflexivity|].
    repeat constructor; vm_compute; reflexivity.
  - eexists. split; vm_compute; reflexivity.
  - eexists. vm_compute. reflexivity.
  - eexists. vm_compute. reflexivity.
  - eexists. vm_compute. reflexivity.
  - eexists. split; [vm_compute; reflexivity|].
    exists "a", "c", 4%Q, (4 # 2)%Q, (4 # 2)%Q. repeat split; try (vm_compute; auto 20; fail).
    intros x Hx. vm_compute in Hx.
    repeat (destruct Hx as [<-|Hx]; [vm_compute; discriminate|]). destruct Hx.
Qed.
