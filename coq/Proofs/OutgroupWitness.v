(** C05, rooting on an outgroup: the halves of the cut branch, the zero-length defect as a
    refuted statement, and examples showing that the hypotheses of the theorems are satisfiable. *)
From Coq Require Import String ZArith QArith Bool Arith Lia List Permutation Setoid Morphisms.
From GT Require Import Base.UTree Spec.Obs Model.Reroot Model.Outgroup Spec.Unrooted
     Proofs.RerootBase Proofs.Reroot Proofs.Unroot Proofs.C05Main
     Proofs.OutgroupKeep Proofs.OutgroupMain Proofs.OutgroupMidpoint.
Import ListNotations.
Local Close Scope Q_scope.
Local Open Scope string_scope.

(** a branch that has a length is cut into two equal halves (a length 0 included); the support
    is copied on both halves *)
Lemma half_edge_len e :
  qeqb (elen e) nilv = false ->
  (elen (half_edge e) == elen e * (1 # 2))%Q /\
  (elen (half_edge e) + elen (half_edge e) == elen e)%Q.
Proof.
  intros H. unfold half_edge. cbn [elen]. rewrite H. unfold qhalf. split; [reflexivity | field].
Qed.

Lemma half_edge_sup e : (esup (half_edge e) == esup e)%Q.
Proof.
  unfold half_edge. cbn [esup]. destruct (qeqb (esup e) nilv) eqn:E; [|reflexivity].
  unfold qeqb in E. apply Qeq_bool_iff in E. now symmetry.
Qed.

(** a branch without length gives two branches without length *)
Lemma half_edge_nil e : qeqb (elen e) nilv = true -> elen (half_edge e) = nilv.
Proof. intros H. unfold half_edge. cbn [elen]. now rewrite H. Qed.

Definition Es (l s : Q) : einfo := mkE l s nilv [].

(** ((a:1,b:1)0.8:0,c:1,d:1);  rooted on {a,b}: the branch of length 0 and support 4/5 gives two
    branches of length 0 and support 4/5 (before the repair: neither length nor support) *)
Definition og_w0 : utree :=
  UNode "" [] [Some (Es 0%Q (4 # 5)%Q, UNode "" [] [None; Some (Ez 1%Q, tipn "a"); Some (Ez 1%Q, tipn "b")]);
               Some (Ez 1%Q, tipn "c"); Some (Ez 1%Q, tipn "d")].

Lemma outgroup_zero_cut_example :
  exists t',
    wf og_w0 = true /\ 3 <= degree og_w0 /\ NoDup (leaves og_w0) /\
    reroot_outgroup false true og_w0 ["a"; "b"] = Ok t' /\
    Forall (fun p => (elen (fst p) == 0)%Q /\ (esup (fst p) == 4 # 5)%Q) (kids t').
Proof.
  eexists. split; [reflexivity|]. split; [vm_compute; lia|]. split; [|split].
  - vm_compute. repeat constructor; simpl; intuition discriminate.
  - vm_compute. reflexivity.
  - repeat constructor; vm_compute; reflexivity.
Qed.

(** ((a:1,b:1)0.8:2,c:1,d:1);  the hypotheses of the theorems hold and the functions act *)
Definition og_w1 : utree :=
  UNode "" [] [Some (Es 2%Q (4 # 5)%Q, UNode "" [] [None; Some (Ez 1%Q, tipn "a"); Some (Ez 1%Q, tipn "b")]);
               Some (Ez 1%Q, tipn "c"); Some (Ez 1%Q, tipn "d")].

Lemma outgroup_example :
  wf og_w1 = true /\ 2 <= degree og_w1 /\ rooted og_w1 = false /\ NoDup (leaves og_w1) /\
  (exists t', reroot_outgroup false true og_w1 ["a"; "b"] = Ok t' /\ utree_eqb t' og_w1 = false /\
              Forall (fun p => (elen (fst p) == 1)%Q /\ (esup (fst p) == 4 # 5)%Q) (kids t')) /\
  (exists t', reroot_outgroup true true og_w1 ["a"; "b"] = Ok t' /\ leaves t' = ["c"; "d"]) /\
  (exists m, reroot_outgroup false true og_w1 ["a"; "c"] = Err m) /\
  (exists t', reroot_outgroup false false og_w1 ["a"; "c"] = Ok t') /\
  (exists m, reroot_outgroup false false og_w1 ["zz"] = Err m) /\
  (exists t', reroot_midpoint og_w1 = Ok t' /\ halfway og_w1 t').
Proof.
  repeat split; try (vm_compute; reflexivity); try (vm_compute; lia).
  - vm_compute. repeat constructor; simpl; intuition discriminate.
  - eexists. split; [vm_compute; reflexivity|]. split; [vm_compute; reflexivity|].
    repeat constructor; vm_compute; reflexivity.
  - eexists. split; vm_compute; reflexivity.
  - eexists. vm_compute. reflexivity.
  - eexists. vm_compute. reflexivity.
  - eexists. vm_compute. reflexivity.
  - eexists. split; [vm_compute; reflexivity|].
    exists "a", "c", 4%Q, (4 # 2)%Q, (4 # 2)%Q. repeat split; try (vm_compute; auto 20; fail).
    intros x Hx. vm_compute in Hx.
    repeat (destruct Hx as [<-|Hx]; [vm_compute; discriminate|]). destruct Hx.
Qed.
