(** The degree of the new root after the editing operations, which turns the conditional
    corollaries of Proofs/IndexEditOps.v into unconditional ones; SubTree; the summary theorem
    over the operation alphabet of Model/History.v. *)
From Coq Require Import String ZArith QArith Bool Arith Lia List Permutation.
From GT Require Import Base.UTree Spec.Obs Model.Reroot Model.Index Model.Prune Model.Collapse Model.LocalEdit
     Model.NNI Model.Outgroup
     Proofs.IndexBase Proofs.IndexTree Proofs.IndexSplit Proofs.IndexEdit Proofs.IndexEditOps
     Proofs.RerootBase Proofs.Prune Proofs.PruneTotal Proofs.CollapseBase Proofs.CollapseResolve Proofs.CollapseDepth
     Proofs.LocalEditBase Proofs.LocalEdit Proofs.LocalEditInsert Proofs.LocalEditInsertAll Proofs.LocalEditClone
     Proofs.LocalEditSingle Proofs.NNIBase Proofs.NNITop.
Import ListNotations.
Local Close Scope Q_scope.

(** * RemoveTips: at least two tips left *)
Theorem remove_tips_degree : forall revert names t t',
    good t -> no_single t = true -> remove_tips revert names t = Ok t' ->
    2 <= length (leaves t') -> 2 <= degree t'.
Proof.
  intros revert names t t' (W & D & ND) NS H L. unfold remove_tips in H.
  destruct (remove_loop revert names (tip_names t) t) as [t1|m] eqn:E; [|discriminate].
  destruct (update_tip_index t1); inversion H; subst.
  assert (D1 : degree t <> 1) by lia.
  destruct (remove_loop_ok revert names _ t t' W NS D1 ND E) as (W' & _ & D' & _).
  now apply degree_of_leaves.
Qed.

Theorem remove_tips_tables' : forall revert names t t',
    good t -> no_single t = true -> remove_tips revert names t = Ok t' -> 2 <= length (leaves t') ->
    good t' /\ tables_describe t' /\ Permutation (leaves t') (filter (kept revert names) (leaves t)).
Proof.
  intros. eapply remove_tips_tables; eauto. eapply remove_tips_degree; eauto.
Qed.

(** * RemoveEdges: the root never loses a neighbour (the children of a contracted child are
    appended) *)
Section CollapseDeg.
  Variable rr rt : bool.
  Variable sel : nat -> einfo -> utree -> bool.

  Definition cnt (top : bool) (sl : list slot) : nat := if top then length sl else length (kids_of sl).

  Lemma kids_of_cons_some : forall p (r : list slot), kids_of (Some p :: r) = p :: kids_of r.
  Proof. reflexivity. Qed.
  Lemma kids_of_cons_none : forall r : list slot, kids_of (None :: r) = kids_of r.
  Proof. reflexivity. Qed.

  Lemma proc_go_len top sl :
    Forall (fun s : slot => match s with
                            | Some (_, c) => forall top k m b a, wf_sub c = true -> proc rr rt sel c top k m = (b, a) ->
                                                                 cnt top (uslots c) <= length b + length a
                            | None => True end) sl ->
    forallb (fun p => wf_sub (snd p)) (kids_of sl) = true ->
    forall k m b a, proc_go rr rt sel top sl k m = (b, a) -> cnt top sl <= length b + length a.
  Proof.
    induction sl as [|[[e c]|] r IHr]; intros IH Hw k m b a Hp.
    - simpl in Hp. inversion Hp; subst. unfold cnt. destruct top; simpl; lia.
    - inversion IH as [|? ? Hc Hr]; subst. rewrite kids_of_cons_some in Hw. simpl in Hw.
      apply andb_prop in Hw. destruct Hw as [Hwc Hwr]. specialize (IHr Hr Hwr).
      rewrite proc_go_some in Hp. cbv zeta in Hp.
      destruct (decide rr sel k e c (m + 1 + (if top then length r else length (kids_of r)))) eqn:Ed.
      + destruct (proc rr rt sel c false (S k) (m + (if top then length r else length (kids_of r)))) as [bc ac] eqn:Ec.
        destruct (proc_go rr rt sel top r (k + 1 + span c) (m + length bc + length ac)) as [b' a'] eqn:Er.
        inversion Hp; subst.
        pose proof (Hc false _ _ _ _ Hwc Ec) as Lc. pose proof (IHr _ _ _ _ Er) as Lr.
        (* the contracted child is not a tip: it has a child *)
        pose proof (decide_nontip _ _ _ _ _ _ Ed) as NT.
        pose proof (wf_sub_up c Hwc) as U. pose proof (IndexTree.length_slots (uslots c)) as LS.
        unfold is_tip, degree in NT. apply Nat.eqb_neq in NT.
        unfold cnt in *. rewrite !app_length. destruct top; simpl length; rewrite ?kids_of_cons_some; simpl length; lia.
      + destruct (proc rr rt sel c true (S k) 0) as [b1 a1] eqn:Ec.
        destruct (proc_go rr rt sel top r (k + 1 + span c) (S m)) as [b' a'] eqn:Er.
        inversion Hp; subst. pose proof (IHr _ _ _ _ Er) as Lr.
        unfold cnt in *. destruct top; simpl length; rewrite ?kids_of_cons_some; simpl length; lia.
    - inversion IH as [|? ? _ Hr]; subst. rewrite kids_of_cons_none in Hw. specialize (IHr Hr Hw).
      rewrite proc_go_none in Hp. destruct top.
      + destruct (proc_go rr rt sel true r k (S m)) as [b' a'] eqn:Er. inversion Hp; subst.
        pose proof (IHr _ _ _ _ Er). unfold cnt in *. simpl length. lia.
      + pose proof (IHr _ _ _ _ Hp). unfold cnt in *. rewrite kids_of_cons_none. lia.
  Qed.

  Lemma proc_len : forall t top k m b a,
      wf_sub t = true -> proc rr rt sel t top k m = (b, a) -> cnt top (uslots t) <= length b + length a.
  Proof.
    induction t as [n cm sl IH] using utree_ind'. intros top k m b a Hw Hp.
    rewrite proc_eq in Hp. simpl uslots.
    exact (proc_go_len top sl IH (wf_sub_kids (UNode n cm sl) Hw) k m b a Hp).
  Qed.

  Theorem remove_edges_degree : forall t, wf t = true -> degree t <= degree (remove_edges rr rt sel t).
  Proof.
    destruct t as [n cm sl]. intros Hw. unfold remove_edges.
    destruct (proc rr rt sel (UNode n cm sl) true 0 0) as [b a] eqn:Ep.
    rewrite proc_eq in Ep. unfold degree. simpl uslots. rewrite app_length.
    apply wf_inv in Hw. destruct Hw as [_ Hw].
    refine (proc_go_len true sl _ _ 0 0 b a Ep).
    - apply Forall_forall. intros [[e c]|] _; auto. intros. eapply proc_len; eauto.
    - unfold children_wf in Hw. clear - Hw. induction sl as [|[[e c]|] r IH]; simpl in *; auto.
      apply andb_prop in Hw. destruct Hw as [-> Hw]. simpl. auto.
  Qed.
End CollapseDeg.

Theorem remove_edges_tables' : forall rr rt sel t,
    good t ->
    good (remove_edges rr rt sel t) /\ tables_describe (remove_edges rr rt sel t) /\
    Permutation (leaves (remove_edges rr rt sel t)) (leaves t).
Proof.
  intros rr rt sel t G. apply remove_edges_tables; auto.
  destruct G as (W & D & _). pose proof (remove_edges_degree rr rt sel t W). lia.
Qed.

Theorem collapse_len_tables' : forall l rr rt t,
    good t -> good (collapse_len l rr rt t) /\ tables_describe (collapse_len l rr rt t) /\
              Permutation (leaves (collapse_len l rr rt t)) (leaves t).
Proof. intros. now apply remove_edges_tables'. Qed.

Theorem collapse_sup_tables' : forall s rr t,
    good t -> good (collapse_sup s rr t) /\ tables_describe (collapse_sup s rr t) /\
              Permutation (leaves (collapse_sup s rr t)) (leaves t).
Proof. intros. now apply remove_edges_tables'. Qed.

Theorem collapse_depth_tables' : forall mn mx rr rt t t',
    good t -> collapse_depth mn mx rr rt t = Ok t' ->
    good t' /\ tables_describe t' /\ Permutation (leaves t') (leaves t).
Proof.
  intros mn mx rr rt t t' G H. pose proof G as (W & D & _).
  rewrite (collapse_depth_ok mn mx rr rt t W D) in H. inversion H; subst.
  now apply remove_edges_tables'.
Qed.

(** * Resolve: the root ends with min(3, degree) neighbours *)
Theorem resolve_tables' : forall t cs,
    good t -> good (resolve t cs) /\ tables_describe (resolve t cs) /\ Permutation (leaves (resolve t cs)) (leaves t).
Proof.
  intros t cs G. apply resolve_tables; auto. destruct G as (W & D & _).
  rewrite (resolve_root_degree t cs W). lia.
Qed.

(** * Clone: same number of root neighbours *)
Lemma copy_kids_length : forall (f : einfo * utree -> slot) (sl : list slot),
    length (flat_map (fun s : slot => match s with None => [] | Some p => [f p] end) sl) = length (kids_of sl).
Proof. induction sl as [|[p|] r IH]; simpl; auto. Qed.

Theorem clone_degree : forall t, wf t = true -> degree (clone t) = degree t.
Proof.
  destruct t as [n c sl]. intros W. apply wf_inv in W. destruct W as [U _].
  unfold clone, degree. simpl. pose proof (IndexTree.length_slots sl) as L. rewrite U in L. simpl in L. rewrite L.
  clear. induction sl as [|[[e ch]|] r IH]; simpl; auto.
Qed.

Theorem clone_tables' : forall t,
    good t -> good (clone t) /\ tables_describe (clone t) /\ leaves (clone t) = leaves t.
Proof.
  intros t G. apply clone_tables; auto. destruct G as (W & D & _). now rewrite clone_degree.
Qed.

(** * GraftTreeOnTip, InsertIdenticalTips: local edits never shrink a node *)
Theorem graft_degree : forall t g t' idx tip,
    graft t idx tip g = Ok t' -> wf t = true -> degree t <= degree t'.
Proof.
  intros t g t' idx tip H W. apply (edited_degree (graft_base tip (add_up_end g))).
  - intros a b Hb. destruct Hb. unfold degree. simpl. rewrite !app_length. simpl. lia.
  - eapply graft_edited; eauto.
Qed.

Theorem graft_tables' : forall t g t' idx tip,
    good t -> good g -> (forall x, In x (leaves t) -> In x (leaves g) -> False) ->
    graft t idx tip g = Ok t' ->
    good t' /\ tables_describe t' /\ Permutation (leaves t' ++ [tip]) (leaves t ++ leaves g).
Proof.
  intros t g t' idx tip G Gg Dis H. eapply graft_tables; eauto.
  destruct G as (W & D & _). pose proof (graft_degree _ _ _ _ _ H W). lia.
Qed.

Lemma iseq_degree : forall ps t t', iseq ps t t' -> degree t <= degree t'.
Proof.
  induction 1; auto. eapply Nat.le_trans; [|exact IHiseq].
  apply (edited_degree (insert_base o n)); [|now apply istep_edited].
  intros a b Hb. destruct Hb; unfold degree; simpl; rewrite !app_length; simpl; rewrite ?app_length; simpl; lia.
Qed.

Theorem insert_identical_tables' : forall t t' idx groups,
    good t -> (forall x, In x (leaves t) -> In x idx) -> ~ In ""%string idx ->
    Forall (fun g => ~ In ""%string g) groups ->
    insert_identical t idx groups = Ok t' ->
    good t' /\ tables_describe t'.
Proof.
  intros t t' idx groups G Hidx He Hg H. eapply insert_identical_tables; eauto.
  destruct G as (W & D & _).
  destruct (insert_identical_seq t t' idx groups W Hidx He Hg H) as (ps & S & _).
  pose proof (iseq_degree _ _ _ S). lia.
Qed.

(** * NNI: every array keeps its length; the two ends of the central branch have 3 neighbours *)
Lemma at_path_degree : forall f p t t', p <> [] -> at_path f p t = Some t' -> degree t' = degree t.
Proof.
  intros f [|k q] t t' Hp H; [congruence|]. destruct t as [n c sl]. simpl in H.
  destruct (nth_error sl k) as [[[e ch]|]|]; try discriminate.
  destruct (at_path f q ch); inversion H; subst. unfold degree. simpl. apply length_set_nth.
Qed.

Theorem nni_degree : forall t r t', In r (nni_list t) -> apply r t = Some t' -> 2 <= degree t -> 2 <= degree t'.
Proof.
  intros t r t' Hr H D. unfold apply in H.
  destruct (r_path r) as [|k q] eqn:P.
  - destruct (nni_list_valid t r Hr) as (n1 & ec & n2 & H1 & H2 & D1 & D2 & _).
    rewrite P in H1. simpl in H1. inversion H1; subst n1. simpl in H.
    destruct t as [nx cx slx]. simpl in H2. unfold swap_local in H. rewrite H2 in H.
    destruct n2 as [ny cy sly]. unfold degree in D1, D2. simpl in D1, D2.
    destruct (nth_error sly (r_j r)) as [[?|]|]; try discriminate.
    destruct (nth_error sly (n22_index r)) as [[mv2|]|]; try discriminate.
    destruct (nth_error slx (n12_index r)) as [[mv1|]|]; inversion H; subst; unfold degree; simpl;
      rewrite !length_set_nth; lia.
  - assert (Hne : k :: q <> []) by discriminate.
    rewrite (at_path_degree _ (k :: q) t t' Hne H). exact D.
Qed.

Theorem nni_tables' : forall t r t',
    good t -> In r (nni_list t) -> apply r t = Some t' ->
    good t' /\ tables_describe t' /\ Permutation (leaves t) (leaves t').
Proof.
  intros t r t' G Hr H. eapply nni_tables; eauto. destruct G as (_ & D & _). eapply nni_degree; eauto.
Qed.

(** * SubTree: the copy of the subtree of a node with at least two children *)
Lemma nodes_in : forall t x, In x (nodes t) ->
    x = t \/ exists e c, In (Some (e, c)) (uslots t) /\ In x (nodes c).
Proof.
  destruct t as [n cm sl]. simpl. intros x [<-|H]; auto. right.
  apply in_flat_map in H. destruct H as ([[e c]|] & Hs & Hx); [|contradiction]. eauto.
Qed.

Lemma nodes_nodup : forall t x, NoDup (leaves t) -> In x (nodes t) -> NoDup (leaves x).
Proof.
  induction t as [n cm sl IH] using utree_ind'. intros x ND H.
  apply nodes_in in H. destruct H as [->|(e & c & Hs & Hx)]; auto. simpl uslots in Hs.
  rewrite leaves_node in ND by (eapply kids_of_in; eauto).
  assert (NDc : NoDup (leaves c)).
  { apply in_split in Hs. destruct Hs as (pre & post & ->).
    rewrite sub_leaves_split in ND. simpl slot_leaves in ND.
    apply nodup_app_r in ND. now apply nodup_app_l in ND. }
  rewrite Forall_forall in IH. specialize (IH _ Hs). simpl in IH. now apply IH.
Qed.

Theorem subtree_tables : forall t i s,
    good t -> subtree t i = Some s -> 2 <= degree s ->
    good s /\ tables_describe s /\ exists node, nth_error (nodes t) i = Some node /\ leaves s = leaves node.
Proof.
  intros t i s (W & D & ND) H Ds.
  destruct (subtree_spec t i s H) as (node & Hn & _ & Ws & L & _).
  assert (NDs : NoDup (leaves s)).
  { rewrite L. eapply nodes_nodup; eauto. eapply nth_error_In; eauto. }
  destruct (good_of s Ws Ds NDs) as [G T]. repeat split; try apply G; try apply T. eauto.
Qed.
