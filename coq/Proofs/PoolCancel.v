(** Model/PoolCancel.v: leaving the loop through the deferred Done keeps termination reachable
    whenever the cancellation comes; a `return` without Done makes wg.Wait() hang. *)
From Coq Require Import Bool Arith Lia List.
From GT Require Import Model.Pool Model.PoolCancel Proofs.Pool.
Import ListNotations.

Local Arguments kpending {job res} _.
Local Arguments kclosed {job res} _.
Local Arguments kqueue {job res} _.
Local Arguments kws {job res} _.
Local Arguments kcanceled {job res} _.
Local Arguments kout {job res} _.
Local Arguments mkK {job res}.
Local Arguments kproducer_step {job res}.
Local Arguments kcancel_step {job res}.
Local Arguments kworker_step {job res}.
Local Arguments kstep {job res}.
Local Arguments krun {job res}.
Local Arguments kinit {job res}.
Local Arguments kfinished {job res} _.
Local Arguments is_exited {job} _.

Section CancelProofs.
  Variables (job res : Type).
  Variable f : job -> res.
  Variable doc : bool.

  Local Notation state := (kst job res).
  Local Notation stepf := (kstep f doc).
  Local Notation runf := (krun f doc).

  Definition kwt (w : wstate job) : nat := match w with Idle => 1 | Busy _ => 2 | _ => 0 end.
  Definition kwsum (l : list (wstate job)) : nat := list_sum (map kwt l).
  Lemma kwsum_mid l1 w l2 : kwsum (l1 ++ w :: l2) = kwsum l1 + kwt w + kwsum l2.
  Proof. unfold kwsum. rewrite map_app, list_sum_app. simpl. lia. Qed.

  Definition kM (s : state) : nat :=
    3 * length (kpending s) + (if kclosed s then 0 else 1) + 2 * length (kqueue s) + kwsum (kws s).

  Lemma not_all_exitedK (l : list (wstate job)) :
    forallb is_exited l = false -> exists l1 w l2, l = l1 ++ w :: l2 /\ is_exited w = false.
  Proof.
    induction l as [|w l IH]; simpl; [discriminate|].
    destruct (is_exited w) eqn:E; simpl.
    - intros H. destruct (IH H) as (l1 & w' & l2 & -> & Hw). exists (w :: l1), w', l2. auto.
    - intros _. exists [], w, l. auto.
  Qed.

  (** worker steps replace one position *)
  Lemma kworker_ws s i :
    kws (kworker_step f doc s i) = kws s
    \/ exists l1 w w' l2, kws s = l1 ++ w :: l2 /\ kws (kworker_step f doc s i) = l1 ++ w' :: l2
                          /\ w <> Dead /\ (w' = Dead -> doc = false).
  Proof.
    unfold kworker_step. destruct (nth_error (kws s) i) as [w|] eqn:E; auto.
    destruct (nth_error_mid _ _ _ E) as (l1 & l2 & Hl & _ & Hset).
    destruct w as [|j| |]; auto.
    - destruct (kqueue s) as [|j q].
      + destruct (kclosed s); auto. right. exists l1, Idle, Exited, l2. simpl. rewrite Hset.
        repeat split; auto; discriminate.
      + right. eexists l1, Idle, _, l2. simpl. rewrite Hset. repeat split; eauto; try discriminate.
        destruct (kcanceled s); [destruct doc|]; auto; discriminate.
    - right. exists l1, (Busy j), Idle, l2. simpl. rewrite Hset. repeat split; auto; discriminate.
  Qed.

  Lemma step_ws_nodead s a : doc = true -> ~ In Dead (kws s) -> ~ In Dead (kws (stepf s a)).
  Proof.
    intros D H. destruct a as [|[|i]]; simpl.
    - unfold kproducer_step. destruct (kpending s); auto.
    - auto.
    - destruct (kworker_ws s i) as [E|(l1 & w & w' & l2 & Hw & Hw' & _ & Hd)]; [rewrite E; auto|].
      rewrite Hw'. intros X. apply H. rewrite Hw. eapply in_mid_swap; eauto.
      intros E. rewrite (Hd (eq_sym E)) in D. discriminate.
  Qed.

  Lemma step_ws_dead s a : In Dead (kws s) -> In Dead (kws (stepf s a)).
  Proof.
    intros H. destruct a as [|[|i]]; simpl.
    - unfold kproducer_step. destruct (kpending s); auto.
    - auto.
    - destruct (kworker_ws s i) as [E|(l1 & w & w' & l2 & Hw & Hw' & Hn & _)]; [rewrite E; auto|].
      rewrite Hw'. rewrite Hw in H. eapply in_mid_swap; eauto.
  Qed.

  Lemma kprogress (s : state) :
    ~ In Dead (kws s) -> kfinished s = false -> exists a, kM (stepf s a) < kM s.
  Proof.
    intros Hd F. destruct (not_all_exitedK _ F) as (l1 & w & l2 & Hw & Hne).
    assert (E : forall x, nth_error (l1 ++ x :: l2) (length l1) = Some x)
      by (intros; apply nth_error_mid_eq).
    destruct w as [|j| |]; try discriminate.
    - destruct (kqueue s) as [|j q] eqn:Q.
      + destruct (kpending s) as [|j p] eqn:P.
        * destruct (kclosed s) eqn:C.
          -- exists (S (S (length l1))). simpl. unfold kworker_step. rewrite Hw, E, Q, C.
             rewrite set_nth_mid. unfold kM. simpl. rewrite Hw, Q, P, C, !kwsum_mid. simpl. lia.
          -- exists 0. simpl. unfold kproducer_step. rewrite P. unfold kM. simpl. rewrite P, C.
             simpl. lia.
        * exists 0. simpl. unfold kproducer_step. rewrite P. unfold kM. simpl. rewrite P, Q.
          simpl. lia.
      + exists (S (S (length l1))). simpl. unfold kworker_step. rewrite Hw, E, Q.
        rewrite set_nth_mid. unfold kM. simpl. rewrite Hw, Q, !kwsum_mid.
        destruct (kcanceled s); [destruct doc|]; simpl; lia.
    - exists (S (S (length l1))). simpl. unfold kworker_step. rewrite Hw, E.
      rewrite set_nth_mid. unfold kM. simpl. rewrite Hw, !kwsum_mid. simpl. lia.
    - exfalso. apply Hd. rewrite Hw. apply in_or_app. right. left. reflexivity.
  Qed.

  Lemma krun_snoc sched a (s : state) : runf (sched ++ [a]) s = stepf (runf sched s) a.
  Proof. unfold krun. rewrite fold_left_app. reflexivity. Qed.

  Lemma nodead_reach jobs n sched : doc = true -> ~ In Dead (kws (runf sched (kinit jobs n))).
  Proof.
    intros D. induction sched as [|a sched IH] using rev_ind.
    - simpl. intros H. apply repeat_spec in H. discriminate.
    - rewrite krun_snoc. apply step_ws_nodead; auto.
  Qed.

  Lemma kcan_finish jobs n : doc = true -> forall m sched,
    kM (runf sched (kinit jobs n)) <= m ->
    exists cont, kfinished (runf cont (runf sched (kinit jobs n))) = true.
  Proof.
    intros D m. induction m as [|m IH]; intros sched Hm;
      destruct (kfinished (runf sched (kinit jobs n))) eqn:F;
      try (exists []; exact F);
      destruct (kprogress _ (nodead_reach jobs n sched D) F) as (a & Ha).
    - lia.
    - destruct (IH (sched ++ [a])) as (cont & Hc).
      + rewrite krun_snoc. lia.
      + exists (a :: cont). rewrite krun_snoc in Hc. exact Hc.
  Qed.

  Lemma cancel_with_done_terminates jobs n sched :
    doc = true -> exists cont, kfinished (runf cont (runf sched (kinit jobs n))) = true.
  Proof. intros D. eapply kcan_finish; eauto. Qed.

  Lemma dead_never_finishesK (s : state) cont : In Dead (kws s) -> kfinished (runf cont s) = false.
  Proof.
    revert s. induction cont as [|a cont IH]; intros s H; simpl.
    - unfold kfinished. destruct (forallb is_exited (kws s)) eqn:F; auto.
      rewrite forallb_forall in F. specialize (F _ H). discriminate.
    - apply IH. apply step_ws_dead. exact H.
  Qed.
End CancelProofs.

(** cancel, send one tree, a worker receives it, sees the flag and returns without Done *)
Lemma cancel_without_done_hangs {job res} (f : job -> res) j rest n cont :
  kfinished (krun f false cont (krun f false [1; 0; 2] (kinit (j :: rest) (S n)))) = false.
Proof. apply dead_never_finishesK. simpl. left. reflexivity. Qed.
