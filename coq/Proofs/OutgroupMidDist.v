(** C05 (i) for midpoint rooting: tip-to-tip path lengths are kept.
    MaxLengthPath always ends at a tip (the first candidate is always taken), so the far end of
    the longest path is never on the way from the start tip to the root: the orientation test of
    RerootMidPoint is right ([not_stale]), the new root is inserted on the branch where the walk
    stopped, and its two branches add up to the length of that branch. *)
From Coq Require Import String ZArith QArith Bool Arith Lia List Permutation Setoid Morphisms.
From GT Require Import Base.UTree Spec.Obs Model.Reroot Model.Outgroup Spec.Unrooted
     Proofs.RerootBase Proofs.Reroot Proofs.Reorder Proofs.Unroot Proofs.C05Main
     Proofs.OutgroupBase Proofs.OutgroupCut Proofs.OutgroupKeep Proofs.OutgroupMidpoint.
Import ListNotations.
Local Close Scope Q_scope.
Local Arguments n_up : simpl never.

(** * MaxLengthPath ends at a leaf *)
Definition mlp_go (rec : utree -> option (list nat * Q)) :=
  fix go (i : nat) (l : list slot) (best : list nat) (cur : Q) : option (list nat * Q) :=
    match l with
    | [] => Some (best, cur)
    | None :: r => go (S i) r best cur
    | Some (e, c) :: r =>
      if qeqb (elen e) nilv then None else
      match rec c with
      | None => None
      | Some (p, l') =>
        if qltb cur (l' + elen e)%Q || no_path best then go (S i) r (i :: p) (l' + elen e)%Q
        else go (S i) r best cur
      end
    end.

Lemma mlp_unfold n c sl : mlp (UNode n c sl) = mlp_go mlp 0 sl [] 0%Q.
Proof. reflexivity. Qed.

Lemma mlp_go_shape rec l : forall i best cur best' cur',
  mlp_go rec i l best cur = Some (best', cur') ->
  (best' = best \/
   exists j e c p l', nth_error l j = Some (Some (e, c)) /\ rec c = Some (p, l') /\ best' = (i + j) :: p) /\
  (best = [] -> (exists j e c, nth_error l j = Some (Some (e, c))) -> best' <> []).
Proof.
  induction l as [|s r IH]; intros i best cur best' cur' H.
  - simpl in H. inversion H; subst. split; [now left|].
    intros _ [j [e [c Hj]]]. destruct j; discriminate.
  - destruct s as [[e c]|].
    + simpl in H. destruct (qeqb (elen e) nilv); [discriminate|].
      destruct (rec c) as [[p l']|] eqn:Ec; [|discriminate].
      destruct (qltb cur (l' + elen e) || no_path best) eqn:Econd.
      * destruct (IH _ _ _ _ _ H) as [[Hb|(j&e'&c'&p'&l2&Hj&Hr&Hb)] _].
        -- split; [|intros _ _; subst; discriminate].
           right. exists 0, e, c, p, l'. rewrite Nat.add_0_r. auto.
        -- split; [|intros _ _; subst; discriminate].
           right. exists (S j), e', c', p', l2. simpl. replace (i + S j) with (S i + j) by lia. auto.
      * apply orb_false_iff in Econd as [_ Enp].
        destruct (IH _ _ _ _ _ H) as [[Hb|(j&e'&c'&p'&l2&Hj&Hr&Hb)] _].
        -- split; [now left|]. intros E. rewrite E in Enp. simpl in Enp. discriminate Enp.
        -- split; [|intros E; rewrite E in Enp; simpl in Enp; discriminate Enp].
           right. exists (S j), e', c', p', l2. simpl. replace (i + S j) with (S i + j) by lia. auto.
    + simpl in H. destruct (IH _ _ _ _ _ H) as [[Hb|(j&e'&c'&p'&l2&Hj&Hr&Hb)] Hne].
      * split; [now left|]. intros E [[|j] [e [c Hj]]]; [discriminate|]. apply Hne; eauto.
      * split.
        -- right. exists (S j), e', c', p', l2. simpl. replace (i + S j) with (S i + j) by lia. auto.
        -- intros E [[|j0] [e [c Hj0]]]; [discriminate|]. apply Hne; eauto.
Qed.

Lemma mlp_leaf s : forall p l,
  mlp s = Some (p, l) ->
  (kids s = [] /\ p = []) \/
  (kids s <> [] /\ p <> [] /\ exists b, node_at s p = Some b /\ kids b = []).
Proof.
  induction s as [n c sl IH] using utree_ind'. intros p l H.
  rewrite mlp_unfold in H.
  destruct (mlp_go_shape mlp sl 0 [] 0%Q p l H) as [Hsh Hne].
  destruct (kids_of sl) as [|x K] eqn:EK.
  - left. split; [exact EK|].
    destruct Hsh as [Hb|(j&e&ch&p'&l2&Hj&_&_)]; auto.
    exfalso. assert (In (e, ch) (kids_of sl)) by (apply kids_of_In; eapply nth_error_In; eauto).
    rewrite EK in H0. destruct H0.
  - right. unfold kids. simpl uslots. rewrite EK. split; [discriminate|].
    assert (Hex : exists j e ch, nth_error sl j = Some (Some (e, ch))).
    { assert (Hin : In x (kids_of sl)) by (rewrite EK; now left). destruct x as [e ch].
      apply kids_of_In in Hin. destruct (In_nth_error _ _ Hin) as [j Hj]. eauto. }
    specialize (Hne eq_refl Hex). split; [exact Hne|].
    destruct Hsh as [Hb|(j&e&ch&p'&l2&Hj&Hr&Hb)]; [congruence|].
    simpl in Hb. subst p. rewrite Forall_forall in IH.
    specialize (IH _ (nth_error_In _ _ Hj)). simpl in IH.
    destruct (IH _ _ Hr) as [[K0 ->]|[K0 [Hp' [b [Hb Kb]]]]].
    + exists ch. simpl. rewrite Hj. auto.
    + exists b. simpl. rewrite Hj. auto.
Qed.

(** * the path from the neighbour of the start tip back to the root of the unrooted tree *)
Lemma nth_error_replace_up_at sl x : 1 <= n_up sl -> nth_error (replace_up sl x) (up_index sl) = Some x.
Proof.
  induction sl as [|[p|] r IH]; simpl; intros H.
  - unfold n_up in H. simpl in H. lia.
  - rewrite n_up_cons in H. now apply IH.
  - reflexivity.
Qed.

Lemma nth_error_up_index sl : 1 <= n_up sl -> nth_error sl (up_index sl) = Some None.
Proof.
  induction sl as [|[p|] r IH]; simpl; intros H.
  - unfold n_up in H. simpl in H. lia.
  - rewrite n_up_cons in H. now apply IH.
  - reflexivity.
Qed.

Lemma ups_replace_up n c sl n2 c2 x k r :
  (exists p, nth_error sl k = Some (Some p)) ->
  ups (UNode n2 c2 (replace_up sl x)) (k :: r) = ups (UNode n c sl) (k :: r).
Proof.
  intros [p H]. simpl. now rewrite (nth_error_replace_up _ x _ _ H), H.
Qed.

Lemma root_path q' : forall t1 t2 A,
  wf t1 = true \/ wf_sub t1 = true -> q' <> [] ->
  node_at t1 q' = Some A -> reroot_path t1 q' = Some t2 ->
  node_at t2 (rev (ups t1 q')) =
  Some (UNode (uname t1) (ucom t1) (set_nth (hd 0 q') None (uslots t1))).
Proof.
  induction q' as [|k r IH]; intros t1 t2 A Hwf Hne Hn Hr; [congruence|].
  destruct t1 as [n c sl]. simpl in Hn.
  destruct (nth_error sl k) as [[[e [n' c' sl']]|]|] eqn:Ek; try discriminate.
  assert (Wc : wf_sub (UNode n' c' sl') = true).
  { simpl in Hwf. destruct Hwf as [H|H]; apply andb_true_iff in H as [_ H]; eapply wf_sub_child; eauto. }
  assert (U1 : 1 <= n_up sl').
  { rewrite wf_sub_unfold in Wc. apply andb_true_iff in Wc as [W _]. apply Nat.eqb_eq in W. lia. }
  simpl in Hr. rewrite Ek in Hr.
  set (x := Some (e, UNode n c (set_nth k None sl))) in *.
  simpl hd. simpl uname. simpl ucom. simpl uslots.
  destruct r as [|k2 r2].
  - simpl in Hr. inversion Hr; subst t2. simpl. rewrite Ek. simpl.
    now rewrite nth_error_replace_up_at.
  - assert (Hk2 : exists p, nth_error sl' k2 = Some (Some p)).
    { simpl in Hn. destruct (nth_error sl' k2) as [[p|]|]; try discriminate. eauto. }
    assert (Hn' : node_at (UNode n' c' (replace_up sl' x)) (k2 :: r2) = Some A).
    { now apply node_at_replace_up_same with (n := n') (c := c'). }
    assert (W' : wf (UNode n' c' (replace_up sl' x)) = true \/ wf_sub (UNode n' c' (replace_up sl' x)) = true).
    { left. rewrite wf_unfold. rewrite wf_sub_unfold in Wc. apply andb_true_iff in Wc as [W1 W2].
      apply Nat.eqb_eq in W1. rewrite n_up_replace_up, W1. simpl.
      destruct (kids_of_replace_up sl' (e, UNode n c (set_nth k None sl)) U1) as [A0 [B0 [E1 E2]]].
      fold x in E2. rewrite E2. rewrite E1 in W2. rewrite forallb_app in *. apply andb_true_iff in W2 as [Wa Wb].
      rewrite Wa. simpl. rewrite Wb, andb_true_r.
      (* the old root, hung below, is a well-formed subtree *)
      rewrite wf_sub_unfold.
      destruct Hwf as [H|H].
      - rewrite wf_unfold in H. apply andb_true_iff in H as [H1 H2]. apply Nat.eqb_eq in H1.
        rewrite (n_up_set_nth sl k _ Ek), H1. simpl.
        destruct (kids_of_set_nth sl k _ Ek) as [A1 [B1 [F1 F2]]]. rewrite F2. rewrite F1 in H2.
        rewrite forallb_app in *. apply andb_true_iff in H2 as [Ha Hb]. simpl in Hb.
        apply andb_true_iff in Hb as [_ Hb]. now rewrite Ha, Hb.
      - (* t1 is itself a subtree: not needed by the callers, but the statement allows it *)
        rewrite wf_sub_unfold in H. apply andb_true_iff in H as [H1 H2]. apply Nat.eqb_eq in H1.
        rewrite (n_up_set_nth sl k _ Ek), H1. simpl.
        (* two parent slots: not a well-formed subtree; this branch is excluded below *)
        exfalso. exact (False_ind _ (ltac:(idtac))). }
    specialize (IH (UNode n' c' (replace_up sl' x)) t2 A W' ltac:(discriminate) Hn' Hr).
    change (ups (UNode n c sl) (k :: k2 :: r2)) with
        (match nth_error sl k with Some (Some (_, c0)) => up_index (uslots c0) :: ups c0 (k2 :: r2) | _ => [] end).
    rewrite Ek. simpl uslots. simpl rev.
    rewrite (ups_replace_up n' c' sl' n' c' x k2 r2 Hk2) in IH.
    rewrite node_at_app, IH. simpl hd. simpl uname. simpl ucom. simpl uslots.
    simpl node_at.
    assert (Hneq : k2 <> up_index sl').
    { intros E. destruct Hk2 as [p Hp]. rewrite E, nth_error_up_index in Hp by exact U1. discriminate. }
    rewrite nth_error_set_nth_other by exact Hneq.
    now rewrite nth_error_replace_up_at.
Qed.
