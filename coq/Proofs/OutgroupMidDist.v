(** C05 (i) for midpoint rooting: tip-to-tip path lengths are kept.
    MaxLengthPath always ends at a tip (the first candidate is always taken), so the far end of
    the longest path is never on the way from the start tip to the root: the orientation test of
    RerootMidPoint is right ([not_stale]), the new root is inserted on the branch where the walk
    stopped, and its two branches add up to the length of that branch. *)
From Coq Require Import String ZArith QArith Bool Arith Lia List Permutation Setoid Morphisms.
From GT Require Import Base.UTree Spec.Obs Model.Reroot Model.Outgroup Spec.Unrooted
     Proofs.RerootBase Proofs.Reroot Proofs.Reorder Proofs.Unroot Proofs.C05Main
     Proofs.OutgroupBase Proofs.OutgroupCut Proofs.OutgroupKeep Proofs.OutgroupMidpoint.
Import ListNotations.
Local Close Scope Q_scope.
Local Arguments n_up : simpl never.

(** * MaxLengthPath ends at a leaf *)
Definition mlp_go (rec : utree -> option (list nat * Q)) :=
  fix go (i : nat) (l : list slot) (best : list nat) (cur : Q) : option (list nat * Q) :=
    match l with
    | [] => Some (best, cur)
    | None :: r => go (S i) r best cur
    | Some (e, c) :: r =>
      if qeqb (elen e) nilv then None else
      match rec c with
      | None => None
      | Some (p, l') =>
        if qltb cur (l' + elen e)%Q || no_path best then go (S i) r (i :: p) (l' + elen e)%Q
        else go (S i) r best cur
      end
    end.

Lemma mlp_unfold n c sl : mlp (UNode n c sl) = mlp_go mlp 0 sl [] 0%Q.
Proof. reflexivity. Qed.

Lemma mlp_go_shape rec l : forall i best cur best' cur',
  mlp_go rec i l best cur = Some (best', cur') ->
  (best' = best \/
   exists j e c p l', nth_error l j = Some (Some (e, c)) /\ rec c = Some (p, l') /\ best' = (i + j) :: p) /\
  (best = [] -> (exists j e c, nth_error l j = Some (Some (e, c))) -> best' <> []).
Proof.
  induction l as [|s r IH]; intros i best cur best' cur' H.
  - simpl in H. inversion H; subst. split; [now left|].
    intros _ [j [e [c Hj]]]. destruct j; discriminate.
  - destruct s as [[e c]|].
    + simpl in H. destruct (qeqb (elen e) nilv); [discriminate|].
      destruct (rec c) as [[p l']|] eqn:Ec; [|discriminate].
      destruct (qltb cur (l' + elen e) || no_path best) eqn:Econd.
      * destruct (IH _ _ _ _ _ H) as [[Hb|(j&e'&c'&p'&l2&Hj&Hr&Hb)] _].
        -- split; [|intros _ _; subst; discriminate].
           right. exists 0, e, c, p, l'. rewrite Nat.add_0_r. auto.
        -- split; [|intros _ _; subst; discriminate].
           right. exists (S j), e', c', p', l2. simpl. replace (i + S j) with (S i + j) by lia. auto.
      * apply orb_false_iff in Econd as [_ Enp].
        destruct (IH _ _ _ _ _ H) as [[Hb|(j&e'&c'&p'&l2&Hj&Hr&Hb)] _].
        -- split; [now left|]. intros E. rewrite E in Enp. simpl in Enp. discriminate Enp.
        -- split; [|intros E; rewrite E in Enp; simpl in Enp; discriminate Enp].
           right. exists (S j), e', c', p', l2. simpl. replace (i + S j) with (S i + j) by lia. auto.
    + simpl in H. destruct (IH _ _ _ _ _ H) as [[Hb|(j&e'&c'&p'&l2&Hj&Hr&Hb)] Hne].
      * split; [now left|]. intros E [[|j] [e [c Hj]]]; [discriminate|]. apply Hne; eauto.
      * split.
        -- right. exists (S j), e', c', p', l2. simpl. replace (i + S j) with (S i + j) by lia. auto.
        -- intros E [[|j0] [e [c Hj0]]]; [discriminate|]. apply Hne; eauto.
Qed.

Lemma mlp_leaf s : forall p l,
  mlp s = Some (p, l) ->
  (kids s = [] /\ p = []) \/
  (kids s <> [] /\ p <> [] /\ exists b, node_at s p = Some b /\ kids b = []).
Proof.
  induction s as [n c sl IH] using utree_ind'. intros p l H.
  rewrite mlp_unfold in H.
  destruct (mlp_go_shape mlp sl 0 [] 0%Q p l H) as [Hsh Hne].
  destruct (kids_of sl) as [|x K] eqn:EK.
  - left. split; [exact EK|].
    destruct Hsh as [Hb|(j&e&ch&p'&l2&Hj&_&_)]; auto.
    exfalso. assert (In (e, ch) (kids_of sl)) by (apply kids_of_In; eapply nth_error_In; eauto).
    rewrite EK in H0. destruct H0.
  - right. unfold kids. simpl uslots. rewrite EK. split; [discriminate|].
    assert (Hex : exists j e ch, nth_error sl j = Some (Some (e, ch))).
    { assert (Hin : In x (kids_of sl)) by (rewrite EK; now left). destruct x as [e ch].
      apply kids_of_In in Hin. destruct (In_nth_error _ _ Hin) as [j Hj]. eauto. }
    specialize (Hne eq_refl Hex). split; [exact Hne|].
    destruct Hsh as [Hb|(j&e&ch&p'&l2&Hj&Hr&Hb)]; [congruence|].
    simpl in Hb. subst p. rewrite Forall_forall in IH.
    specialize (IH _ (nth_error_In _ _ Hj)). simpl in IH.
    destruct (IH _ _ Hr) as [[K0 ->]|[K0 [Hp' [b [Hb Kb]]]]].
    + exists ch. simpl. rewrite Hj. auto.
    + exists b. simpl. rewrite Hj. auto.
Qed.

(** * the path from the neighbour of the start tip back to the root of the unrooted tree *)
Lemma nth_error_replace_up_at sl x : 1 <= n_up sl -> nth_error (replace_up sl x) (up_index sl) = Some x.
Proof.
  induction sl as [|[p|] r IH]; simpl; intros H.
  - unfold n_up in H. simpl in H. lia.
  - rewrite n_up_cons in H. now apply IH.
  - reflexivity.
Qed.

Lemma nth_error_up_index sl : 1 <= n_up sl -> nth_error sl (up_index sl) = Some None.
Proof.
  induction sl as [|[p|] r IH]; simpl; intros H.
  - unfold n_up in H. simpl in H. lia.
  - rewrite n_up_cons in H. now apply IH.
  - reflexivity.
Qed.

Lemma ups_replace_up n c sl n2 c2 x k r :
  (exists p, nth_error sl k = Some (Some p)) ->
  ups (UNode n2 c2 (replace_up sl x)) (k :: r) = ups (UNode n c sl) (k :: r).
Proof.
  intros [p H]. simpl. now rewrite (nth_error_replace_up _ x _ _ H), H.
Qed.

(** every node met along the path (the start excluded) has a parent slot *)
Fixpoint has_ups (t : utree) (q : list nat) : Prop :=
  match q with
  | [] => True
  | k :: r => match nth_error (uslots t) k with
              | Some (Some (_, c)) => 1 <= n_up (uslots c) /\ has_ups c r
              | _ => False
              end
  end.

Lemma has_ups_of_wf q : forall t A,
  wf t = true \/ wf_sub t = true -> node_at t q = Some A -> has_ups t q.
Proof.
  induction q as [|k r IH]; intros t A Hwf Hn; simpl; auto.
  simpl in Hn. destruct (nth_error (uslots t) k) as [[[e ch]|]|] eqn:E; try discriminate.
  assert (Hc : wf_sub ch = true).
  { destruct t as [n c sl]. simpl in *.
    destruct Hwf as [H|H]; apply andb_true_iff in H as [_ H]; eapply wf_sub_child; eauto. }
  split; [|eapply IH; eauto].
  destruct ch as [n' c' sl']. rewrite wf_sub_unfold in Hc. apply andb_true_iff in Hc as [W _].
  apply Nat.eqb_eq in W. simpl. lia.
Qed.

Lemma root_path q' : forall t1 t2,
  q' <> [] -> has_ups t1 q' -> reroot_path t1 q' = Some t2 ->
  node_at t2 (rev (ups t1 q')) =
  Some (UNode (uname t1) (ucom t1) (set_nth (hd 0 q') None (uslots t1))).
Proof.
  induction q' as [|k r IH]; intros t1 t2 Hne Hu Hr; [congruence|].
  destruct t1 as [n c sl]. simpl in Hu.
  destruct (nth_error sl k) as [[[e [n' c' sl']]|]|] eqn:Ek; try tauto.
  destruct Hu as [U1 Hu]. simpl in U1.
  simpl in Hr. rewrite Ek in Hr.
  set (x := Some (e, UNode n c (set_nth k None sl))) in *.
  simpl hd. simpl uname. simpl ucom. simpl uslots.
  destruct r as [|k2 r2].
  - simpl in Hr. inversion Hr; subst t2. simpl. rewrite Ek. simpl.
    now rewrite nth_error_replace_up_at.
  - assert (Hk2 : exists p, nth_error sl' k2 = Some (Some p)).
    { simpl in Hu. destruct (nth_error sl' k2) as [[p|]|]; try tauto. eauto. }
    assert (Hu' : has_ups (UNode n' c' (replace_up sl' x)) (k2 :: r2)).
    { destruct Hk2 as [p Hp]. simpl. rewrite (nth_error_replace_up _ x _ _ Hp).
      simpl in Hu. now rewrite Hp in Hu. }
    specialize (IH (UNode n' c' (replace_up sl' x)) t2 ltac:(discriminate) Hu' Hr).
    change (ups (UNode n c sl) (k :: k2 :: r2)) with
        (match nth_error sl k with Some (Some (_, c0)) => up_index (uslots c0) :: ups c0 (k2 :: r2) | _ => [] end).
    rewrite Ek. cbn [rev uslots].
    rewrite (ups_replace_up n' c' sl' n' c' x k2 r2 Hk2) in IH.
    rewrite node_at_app, IH. simpl hd. simpl uname. simpl ucom. simpl uslots.
    simpl node_at.
    assert (Hneq : k2 <> up_index sl').
    { intros E. destruct Hk2 as [p Hp]. rewrite E, nth_error_up_index in Hp by exact U1. discriminate. }
    rewrite nth_error_set_nth_other by exact Hneq.
    now rewrite nth_error_replace_up_at.
Qed.

(** * prefixes of a valid path *)
Lemma is_prefix_node a : forall b t R,
  is_prefix a b = true -> node_at t b = Some R ->
  exists m, node_at t a = Some m /\
            (a = b \/ exists k e c, nth_error (uslots m) k = Some (Some (e, c))).
Proof.
  induction a as [|x a IH]; intros b t R Hp Hn.
  - exists t. split; auto. destruct b as [|y b]; [now left|right].
    simpl in Hn. destruct (nth_error (uslots t) y) as [[[e c]|]|] eqn:E; try discriminate. eauto.
  - destruct b as [|y b]; [discriminate|]. simpl in Hp. apply andb_true_iff in Hp as [E Hp].
    apply Nat.eqb_eq in E. subst y. simpl in Hn. simpl.
    destruct (nth_error (uslots t) x) as [[[e c]|]|]; try discriminate.
    destruct (IH _ _ _ Hp Hn) as [m [Hm Hc]]. exists m. split; auto.
    destruct Hc as [->|Hc]; auto.
Qed.

Lemma node_at_masked n c sl j p b :
  p <> [] -> node_at (UNode n c (set_nth j None sl)) p = Some b -> node_at (UNode n c sl) p = Some b.
Proof.
  destruct p as [|k r]; [congruence|]. intros _. simpl.
  destruct (Nat.eq_dec j k) as [->|Hne].
  - destruct (nth_error sl k) eqn:E.
    + rewrite nth_error_set_nth_same by (apply nth_error_Some; congruence). discriminate.
    + assert (length sl <= k) by (now apply nth_error_None).
      assert (nth_error (set_nth k None sl) k = None)
        by (apply nth_error_None; rewrite length_set_nth; lia).
      rewrite H0. discriminate.
  - now rewrite nth_error_set_nth_other by exact Hne.
Qed.

(** * the branches along a path *)
Lemma path_edges_length p : forall t b, node_at t p = Some b -> length (path_edges t p) = length p.
Proof.
  induction p as [|k r IH]; intros t b H; simpl; auto.
  simpl in H. destruct (nth_error (uslots t) k) as [[[e c]|]|]; try discriminate.
  simpl. f_equal. eapply IH; eauto.
Qed.

Lemma path_edges_nth p : forall t b i,
  node_at t p = Some b -> i < length p ->
  exists P c, node_at t (firstn i p) = Some P /\
              nth_error (uslots P) (nth i p 0) = Some (Some (nth i (path_edges t p) e0, c)).
Proof.
  induction p as [|k r IH]; intros t b i H Hi; simpl in Hi; [lia|].
  simpl in H. destruct (nth_error (uslots t) k) as [[[e c]|]|] eqn:E; try discriminate.
  destruct i as [|i].
  - exists t, c. simpl. rewrite E. auto.
  - destruct (IH c b i H ltac:(lia)) as [P [c' [H1 H2]]].
    exists P, c'. simpl. rewrite E. auto.
Qed.

Lemma walk_le half ls : forall i acc i' len, walk half ls i acc = (i', len) -> i' <= i + length ls.
Proof.
  induction ls as [|x r IH]; intros i acc i' len H; simpl in H.
  - inversion H; subst. lia.
  - destruct (qltb acc half).
    + apply IH in H. simpl. lia.
    + inversion H; subst. lia.
Qed.

(** * a richer inversion of a success of [reroot_midpoint] *)
Definition mp_from2 (t1 : utree) (L : list (list nat * utree)) (st : mp_state) : Prop :=
  match st with
  | MPNone => True
  | MPBest v p => exists pn l, In pn L /\ view_from t1 (fst pn) = Some v /\ mlp_tip v = Some (Some p, l)
  end.

Definition mp_result (v : tipview) (pA : list nat) (curlength : Q) (ea : einfo) : option utree :=
  let t2 := tv_tree v in
  let j := tv_slot v in
  let m := length pA in
  let pe := rev (path_edges t2 pA) ++ [ea] in
  let half := qhalf curlength in
  let '(i, len) := walk half (map elen pe) 0 0%Q in
  let idx := i - 1 in
  let ce := nth idx pe e0 in
  let cut := (len - half)%Q in
  let e1 := mkE (elen ce - cut)%Q (esup ce) nilv [] in
  let e2 := mkE cut (esup ce) nilv [] in
  if is_prefix pA (tv_root v) then
    match pA with
    | [] => cut_and_root t2 [] j true e2 e1
    | _ :: _ => cut_and_root t2 (removelast pA) (last pA 0) false e1 e2
    end
  else if Nat.ltb idx m then
    let d := m - idx in
    cut_and_root t2 (firstn (d - 1) pA) (nth (d - 1) pA 0) true e2 e1
  else cut_and_root t2 [] j false e1 e2.

Lemma reroot_midpoint_inv2 t t' :
  2 <= degree (unroot t) ->
  reroot_midpoint t = Ok t' ->
  exists q lf v pA l cur ea,
    In (q, lf) (tip_paths (unroot t)) /\ view_from (unroot t) q = Some v /\
    mlp_tip v = Some (Some pA, l) /\ edge_at (tv_tree v) (tv_slot v) = Some ea /\
    mp_result v pA cur ea = Some t'.
Proof.
  intros D0. rewrite (reroot_midpoint_gen_eq t D0). unfold reroot_midpoint_gen.
  set (t1 := unroot t).
  set (f := fun (st : res (mp_state * Q)) (pn : list nat * utree) => _).
  assert (INV : forall l acc,
             incl l (tip_paths t1) ->
             match acc with Ok (s, _) => mp_from2 t1 (tip_paths t1) s | Err _ => True end ->
             match fold_left f l acc with Ok (s, _) => mp_from2 t1 (tip_paths t1) s | Err _ => True end).
  { induction l as [|pn l IH]; intros acc Hi Ha; simpl; auto.
    apply IH; [intros x Hx; apply Hi; now right|].
    unfold f at 1. destruct acc as [[best cur]|m]; auto.
    destruct (view_from t1 (fst pn)) as [v|] eqn:Ev; auto.
    destruct (mlp_tip v) as [[op l0]|] eqn:Em; auto.
    destruct (qltb cur l0); auto.
    destruct op as [p|]; auto. simpl. exists pn, l0. repeat split; auto. apply Hi. now left. }
  specialize (INV (tip_paths t1) (Ok (MPNone, 0%Q)) (incl_refl _) I).
  destruct (fold_left f (tip_paths t1) (Ok (MPNone, 0%Q))) as [[[|v pA] cur]|m]; try discriminate.
  simpl in INV. destruct INV as [[q lf] [l [Hin [Hv Hm]]]]. simpl in Hv.
  destruct (edge_at (tv_tree v) (tv_slot v)) as [ea|] eqn:Ee; [|discriminate].
  intros H. exists q, lf, v, pA, l, cur, ea. repeat split; auto.
  unfold mp_result. cbv zeta.
  destruct (walk _ _ 0 0%Q) as [i len].
  match type of H with
  | match ?r with Some _ => _ | None => _ end = _ =>
    destruct r as [t4|] eqn:Er; [|discriminate]
  end.
  inversion H; subst t4. first [reflexivity | exact Er].
Qed.

(** * (i) for RerootMidPoint: tip-to-tip path lengths *)
Theorem reroot_midpoint_preserves t t' :
  wf t = true -> 2 <= degree t -> (rooted t = true -> root_has_inner_child t = true) ->
  (rooted t = true -> forall p, In p (kids t) -> (0 <= elen (fst p))%Q) ->
  reroot_midpoint t = Ok t' ->
  wf t' = true /\ degree t' = 2 /\ Permutation (leaves t') (leaves t) /\
  dists_equiv (pairdists elen t') (pairdists elen t).
Proof.
  intros Hwf Hd Hi Hnn H.
  destruct (reroot_midpoint_wf_leaves t t' Hwf Hd Hi H) as [W' [D' L']].
  split; [exact W'|]. split; [exact D'|]. split; [exact L'|].
  destruct (unroot_stage t Hwf Hd Hi) as [W1 [D1 [L1 _]]].
  destruct (reroot_midpoint_inv2 _ _ D1 H) as (q&lf&v&pA&l&cur&ea&Hin&Hv&Hm&He&Hres).
  assert (P1 : dists_equiv (pairdists elen (unroot t)) (pairdists elen t)).
  { destruct (rooted t) eqn:Hr.
    - apply unroot_pairdists_elen; auto.
    - rewrite (unroot_not_rooted t Hr). reflexivity. }
  pose proof Hin as Hin'. apply tip_paths_In in Hin' as [Hq _].
  destruct (view_from_spec _ _ _ _ W1 D1 Hq Hv) as [W2 [D2 [L2 P2]]].
  transitivity (pairdists elen (tv_tree v)); [|etransitivity; [apply P2 | exact P1]].
  (* the shape of the view and of the path *)
  unfold mlp_tip in Hm. unfold edge_at in He.
  destruct (tv_tree v) as [n c sl] eqn:E2. simpl uslots in He.
  destruct (nth_error sl (tv_slot v)) as [[[ea' a]|]|] eqn:Ej; try discriminate.
  inversion He; subst ea'. clear He.
  destruct (qeqb (elen ea) nilv); [discriminate|].
  destruct (mlp (UNode n c (set_nth (tv_slot v) None sl))) as [[pA' l0]|] eqn:Emlp; [|discriminate].
  inversion Hm; subst pA' l. clear Hm.
  assert (U0 : n_up sl = 0).
  { rewrite wf_unfold in W2. apply andb_true_iff in W2 as [W _]. now apply Nat.eqb_eq in W. }
  assert (Kmask : kids (UNode n c (set_nth (tv_slot v) None sl)) <> []).
  { unfold kids. simpl uslots. destruct (kids_of_set_nth sl _ _ Ej) as [A0 [B0 [F1 F2]]].
    rewrite F2. pose proof (length_slots sl) as HL. rewrite U0, F1, app_length in HL. simpl in HL.
    unfold degree in D2. simpl in D2. destruct A0, B0; simpl in *; try discriminate; lia. }
  destruct (mlp_leaf _ _ _ Emlp) as [[K0 _]|[_ [HpA [b [Hb Kb]]]]]; [contradiction|].
  apply node_at_masked in Hb; [|exact HpA].
  (* the far end is not on the way to the root *)
  assert (NS : is_prefix pA (tv_root v) = false).
  { destruct (is_prefix pA (tv_root v)) eqn:Ep; auto. exfalso.
    unfold view_from in Hv. destruct q as [|k0 r0]; [discriminate|]. cbv zeta in Hv.
    assert (Hq' : k0 :: r0 = removelast (k0 :: r0) ++ [last (k0 :: r0) 0])
      by (apply removelast_last_nat; discriminate).
    remember (removelast (k0 :: r0)) as q' eqn:Eq'.
    destruct (reroot_path (unroot t) q') as [t2|] eqn:Er; [|discriminate].
    inversion Hv; subst v. cbn [tv_tree tv_slot tv_root] in *. subst t2.
    destruct q' as [|k1 r1].
    - simpl in Ep. destruct pA; [congruence|discriminate].
    - rewrite Hq', node_at_app in Hq.
      destruct (node_at (unroot t) (k1 :: r1)) as [A|] eqn:EA; [|discriminate].
      assert (HU : has_ups (unroot t) (k1 :: r1)) by (eapply has_ups_of_wf; eauto).
      pose proof (root_path (k1 :: r1) (unroot t) _ ltac:(discriminate) HU Er) as HR.
      destruct (is_prefix_node _ _ _ _ Ep HR) as [m [Hm' Hc]].
      assert (m = b) by congruence. subst m.
      destruct Hc as [Hc|(k&e&ch&Hc)].
      + (* the far end would be the old root, which has children *)
        rewrite Hc in Hb. rewrite HR in Hb. inversion Hb; subst b.
        unfold kids in Kb. simpl uslots in Kb.
        destruct (unroot t) as [n1 c1 sl1] eqn:E1. simpl uslots in *. simpl hd in *.
        simpl in EA. destruct (nth_error sl1 k1) as [[x|]|] eqn:Ek1; try discriminate.
        destruct (kids_of_set_nth sl1 k1 x Ek1) as [A0 [B0 [F1 F2]]]. rewrite F2 in Kb.
        rewrite wf_unfold in W1. apply andb_true_iff in W1 as [W _]. apply Nat.eqb_eq in W.
        pose proof (length_slots sl1) as HL. rewrite W, F1, app_length in HL. simpl in HL.
        unfold degree in D1. simpl in D1. apply app_eq_nil in Kb as [-> ->]. simpl in HL. lia.
      + assert (In (e, ch) (kids b)) by (apply kids_of_In; eapply nth_error_In; eauto).
        rewrite Kb in H0. destruct H0. }
  unfold mp_result in Hres. cbv zeta in Hres. rewrite E2 in Hres. rewrite NS in Hres.
  set (t2 := UNode n c sl) in *.
  set (m := length pA) in *.
  set (PE := path_edges t2 pA) in *.
  assert (LPE : length PE = m) by (unfold PE, m; eapply path_edges_length; eauto).
  destruct (walk (qhalf cur) (map elen (rev PE ++ [ea])) 0 0%Q) as [i len] eqn:Ew.
  assert (Hi' : i <= m + 1).
  { apply walk_le in Ew. rewrite map_length, app_length, rev_length, LPE in Ew. simpl in Ew. lia. }
  destruct (Nat.ltb (i - 1) m) eqn:Elt.
  - apply Nat.ltb_lt in Elt.
    set (d := m - (i - 1)) in *.
    assert (Hd1 : d - 1 < length pA) by (fold m; unfold d; lia).
    destruct (path_edges_nth pA t2 b (d - 1) Hb Hd1) as [P [ch [HP HK]]].
    fold PE in HK.
    assert (Ece : nth (i - 1) (rev PE ++ [ea]) e0 = nth (d - 1) PE e0).
    { rewrite app_nth1 by (rewrite rev_length; lia). rewrite rev_nth by lia.
      f_equal. unfold d. lia. }
    rewrite Ece in Hres.
    set (ce := nth (d - 1) PE e0) in *.
    destruct (cut_and_root_spec elen t2 (firstn (d - 1) pA) (nth (d - 1) pA 0) true
                (mkE (len - qhalf cur) (esup ce) nilv []) (mkE (elen ce - (len - qhalf cur)) (esup ce) nilv [])
                P ce ch W2 D2 HP HK) as [t4 [R [E4 [_ [_ [_ P4]]]]]].
    { simpl. ring. }
    assert (t4 = t') by congruence. subst t4. exact P4.
  - apply Nat.ltb_ge in Elt. assert (Ei : i - 1 = m) by lia.
    assert (Ece : nth (i - 1) (rev PE ++ [ea]) e0 = ea).
    { rewrite Ei, app_nth2 by (rewrite rev_length; lia). rewrite rev_length, LPE, Nat.sub_diag. reflexivity. }
    rewrite Ece in Hres.
    destruct (cut_and_root_spec elen t2 [] (tv_slot v) false
                (mkE (elen ea - (len - qhalf cur)) (esup ea) nilv []) (mkE (len - qhalf cur) (esup ea) nilv [])
                t2 ea a W2 D2 eq_refl Ej) as [t4 [R [E4 [_ [_ [_ P4]]]]]].
    { simpl. ring. }
    assert (t4 = t') by congruence. subst t4. exact P4.
Qed.
