(** C15: RemoveSingleNodes keeps the tips and every tip-to-tip path length, keeps the
    representation well formed and leaves no single-child node. *)
From Coq Require Import String ZArith QArith Bool Arith Lia List Permutation Setoid Morphisms.
From GT Require Import Base.UTree Spec.Obs Model.Reroot Spec.Unrooted
     Proofs.RerootBase Proofs.PruneBase Model.LocalEdit Proofs.LocalEditBase.
Import ListNotations.
Local Close Scope Q_scope.
Local Arguments n_up : simpl never.

(** * the length of the merged branch *)
Lemma qmax0_is_len0 e : qmax 0%Q (elen e) = len0 e.
Proof. reflexivity. Qed.

Lemma len0_nonneg' e : (0 <= len0 e)%Q.
Proof.
  unfold len0. destruct (Qle_bool 0 (elen e)) eqn:E.
  - now apply Qle_bool_iff.
  - apply Qle_refl.
Qed.

Lemma len0_absent e : qeqb (elen e) nilv = true -> (len0 e == 0)%Q.
Proof.
  unfold qeqb. intros H. apply Qeq_bool_iff in H. unfold len0.
  destruct (Qle_bool 0 (elen e)) eqn:E; [|reflexivity].
  apply Qle_bool_iff in E. rewrite H in E. unfold nilv in E. exfalso.
  apply (Qlt_not_le (-1) 0); [reflexivity|exact E].
Qed.

Lemma len0_rs_edge pe e2 : (len0 (rs_edge pe e2) == len0 pe + len0 e2)%Q.
Proof.
  unfold rs_edge.
  destruct (negb (qeqb (elen e2) nilv) || negb (qeqb (elen pe) nilv)) eqn:E.
  - unfold len0 at 1. simpl elen. rewrite !qmax0_is_len0.
    assert (H : (0 <= len0 e2 + len0 pe)%Q).
    { rewrite <- (Qplus_0_l 0). apply Qplus_le_compat; apply len0_nonneg'. }
    apply Qle_bool_iff in H. rewrite H. ring.
  - apply orb_false_iff in E as [E1 E2]. apply negb_false_iff in E1, E2.
    assert (X : (len0 (mkE (elen e2) (qmax (esup e2) (esup pe)) (epv e2) (ecom e2)) == 0)%Q)
      by (apply len0_absent; exact E1).
    rewrite X, (len0_absent _ E1), (len0_absent _ E2). ring.
Qed.

(** * the loop over the slots, as a function *)
Fixpoint rs_slots (l : list slot) : list slot * list slot :=
  match l with
  | [] => ([], [])
  | None :: r => let kp := rs_slots r in (None :: fst kp, snd kp)
  | Some (e, ch) :: r =>
    let ch' := rs_node ch in
    let kp := rs_slots r in
    match single_child ch' with
    | Some (e2, gc) => (fst kp, Some (rs_edge e e2, gc) :: snd kp)
    | None => (Some (e, ch') :: fst kp, snd kp)
    end
  end.

Lemma rs_node_unfold n c sl :
  rs_node (UNode n c sl) = UNode n c (fst (rs_slots sl) ++ snd (rs_slots sl)).
Proof.
  unfold rs_node; fold rs_node.
  match goal with
  | |- context [fst (?F sl)] => assert (H : forall l, F l = rs_slots l)
  end.
  { induction l as [|[[e ch]|] r IH]; simpl; auto; now rewrite IH. }
  now rewrite H.
Qed.

(** what a child becomes for its parent *)
Definition rk (p : einfo * utree) : einfo * utree :=
  match single_child (rs_node (snd p)) with
  | Some (e2, gc) => (rs_edge (fst p) e2, gc)
  | None => (fst p, rs_node (snd p))
  end.

Lemma rs_slots_kids sl :
  Permutation (kids_of (fst (rs_slots sl) ++ snd (rs_slots sl))) (map rk (kids_of sl)).
Proof.
  induction sl as [|[[e ch]|] r IH]; simpl.
  - reflexivity.
  - unfold rk at 1. simpl fst. simpl snd.
    destruct (single_child (rs_node ch)) as [[e2 gc]|]; simpl.
    + rewrite kids_of_app in *. simpl. rewrite <- IH. perm.
    + now rewrite IH.
  - exact IH.
Qed.

Lemma rs_slots_n_up sl : n_up (fst (rs_slots sl) ++ snd (rs_slots sl)) = n_up sl.
Proof.
  induction sl as [|[[e ch]|] r IH]; simpl; auto.
  - destruct (single_child (rs_node ch)) as [[e2 gc]|]; simpl.
    + rewrite n_up_app in *. rewrite n_up_cons. simpl. rewrite n_up_cons. exact IH.
    + rewrite !n_up_cons. simpl. exact IH.
  - rewrite !n_up_cons. now rewrite IH.
Qed.

Lemma rs_slots_length sl : length (fst (rs_slots sl) ++ snd (rs_slots sl)) = length sl.
Proof.
  induction sl as [|[[e ch]|] r IH]; simpl; auto.
  destruct (single_child (rs_node ch)) as [[e2 gc]|]; simpl.
  - rewrite app_length in *. simpl. lia.
  - now rewrite IH.
Qed.

Lemma single_child_kids t x : single_child t = Some x -> kids_of (uslots t) = [x].
Proof.
  unfold single_child. destruct (uslots t) as [|[p|] [|[q|] [|s r]]]; try discriminate;
    intros H; inversion H; reflexivity.
Qed.

(** * path lengths *)
Lemma obs_single w n1 c1 s1 e2 gc :
  kids_of s1 = [(e2, gc)] ->
  depths w (UNode n1 c1 s1) = shift (w e2) (depths w gc) /\
  pairdists w (UNode n1 c1 s1) = pairdists w gc.
Proof.
  intros H. rewrite depths_unfold, pairdists_unfold, H. unfold kpd. simpl.
  now rewrite !app_nil_r.
Qed.

Section Dists.
  Variable k : string -> bool.
  Let w := len0.

  Lemma kid_eq_trans p q r : kid_eq w k p q -> kid_eq w k q r -> kid_eq w k p r.
  Proof. intros [A B] [C D]. split; etransitivity; eauto. Qed.

  Lemma rk_kid_eq e ch : obs_eq w k (rs_node ch) ch -> kid_eq w k (rk (e, ch)) (e, ch).
  Proof.
    intros IH. unfold rk. cbn [fst snd].
    destruct (single_child (rs_node ch)) as [[e2 gc]|] eqn:E.
    - apply kid_eq_trans with (e, rs_node ch); [|apply kid_eq_of_obs; auto; reflexivity].
      apply single_child_kids in E. destruct (rs_node ch) as [n1 c1 s1]. simpl in E.
      destruct (obs_single w n1 c1 s1 e2 gc E) as [Hd Hp].
      unfold kid_eq, ceq, fC, contrib_of. cbn [fst snd]. rewrite Hd, Hp.
      split; [|reflexivity]. rewrite !fD_shift.
      etransitivity; [|symmetry; apply deq_Forall2, shift_shift].
      apply shift_deq; [|reflexivity]. unfold w. apply len0_rs_edge.
    - apply kid_eq_of_obs; auto. reflexivity.
  Qed.

  Theorem rs_node_obs t : obs_eq w k (rs_node t) t.
  Proof.
    induction t as [n c sl IH] using utree_ind'. rewrite rs_node_unfold.
    assert (D : kids_of sl = [] \/ kids_of sl <> [])
      by (destruct (kids_of sl); [left|right]; congruence).
    assert (P := rs_slots_kids sl).
    destruct D as [E|Hne].
    - rewrite E in P. simpl in P. symmetry in P. apply Permutation_nil in P.
      unfold obs_eq. rewrite !depths_unfold, !pairdists_unfold, P, E. split; reflexivity.
    - assert (Hne' : kids_of (fst (rs_slots sl) ++ snd (rs_slots sl)) <> []).
      { intros X. rewrite X in P. apply Permutation_nil in P. apply map_eq_nil in P.
        congruence. }
      apply obs_eq_sym. eapply node_obs; eauto.
      clear -IH. induction sl as [|[[e ch]|] r IHr]; simpl.
      + constructor.
      + inversion IH; subst. constructor; auto.
        apply (rk_kid_eq e) in H1.
        destruct H1 as [A B]. split; now symmetry.
      + inversion IH; subst. auto.
  Qed.
End Dists.

Lemma fD_all l : fD (fun _ => true) l = l.
Proof. apply fD_id. auto. Qed.
Lemma fP_all l : fP (fun _ => true) l = l.
Proof. apply fP_id. auto. Qed.

(** every tip-to-tip path length is unchanged, and the tips are the same *)
Theorem remove_single_dists t :
  dists_equiv (pairdists len0 (remove_single t)) (pairdists len0 t).
Proof.
  destruct (rs_node_obs (fun _ => true) t) as [_ H]. now rewrite !fP_all in H.
Qed.

Theorem remove_single_leaves t : Permutation (leaves (remove_single t)) (leaves t).
Proof.
  destruct (rs_node_obs (fun _ => true) t) as [H _]. rewrite !fD_all in H.
  apply deq_names in H. now rewrite !depths_names in H.
Qed.

(** * well-formedness, and no single-child node is left *)
Lemma forallb_slots_kids (f : utree -> bool) sl :
  forallb (fun s : slot => match s with Some (_, c) => f c | None => true end) sl
  = forallb (fun p => f (snd p)) (kids_of sl).
Proof. induction sl as [|[[e c]|] r IH]; simpl; auto. now rewrite IH. Qed.

Lemma no_single_sub_unfold n c sl :
  no_single_sub (UNode n c sl) =
  negb (Nat.eqb (length sl) 2) && forallb (fun p => no_single_sub (snd p)) (kids_of sl).
Proof. simpl. now rewrite <- forallb_slots_kids. Qed.

Lemma forallb_perm {A} (f : A -> bool) l l' : Permutation l l' -> forallb f l = forallb f l'.
Proof.
  induction 1; simpl; auto.
  - now rewrite IHPermutation.
  - destruct (f x), (f y); reflexivity.
  - congruence.
Qed.

Lemma two_slots_single sl :
  length sl = 2 -> n_up sl = 1 -> exists x, sl = [None; Some x] \/ sl = [Some x; None].
Proof.
  destruct sl as [|[p|] [|[q|] [|s r]]]; simpl; intros L U; try discriminate; eauto.
Qed.

Definition good_sub (t : utree) : Prop :=
  wf_sub t = true /\
  (single_child t = None -> no_single_sub t = true) /\
  (forall x, single_child t = Some x -> no_single_sub (snd x) = true /\ wf_sub (snd x) = true).

Lemma rk_good p :
  good_sub (rs_node (snd p)) -> no_single_sub (snd (rk p)) = true /\ wf_sub (snd (rk p)) = true.
Proof.
  intros [W [N S]]. unfold rk. destruct (single_child (rs_node (snd p))) as [[e2 gc]|] eqn:E.
  - apply (S (e2, gc)). reflexivity.
  - simpl. auto.
Qed.

Lemma rs_kids_good sl :
  Forall (fun p : einfo * utree => good_sub (rs_node (snd p))) (kids_of sl) ->
  forallb (fun p => no_single_sub (snd p)) (kids_of (fst (rs_slots sl) ++ snd (rs_slots sl))) = true /\
  forallb (fun p => wf_sub (snd p)) (kids_of (fst (rs_slots sl) ++ snd (rs_slots sl))) = true.
Proof.
  intros H. rewrite !(forallb_perm _ _ _ (rs_slots_kids sl)).
  induction H as [|p r Hp _ IH]; simpl; auto.
  destruct (rk_good p Hp) as [A B]. destruct IH as [C D]. now rewrite A, B, C, D.
Qed.

Theorem rs_node_good_sub t : wf_sub t = true -> good_sub (rs_node t).
Proof.
  induction t as [n c sl IH] using utree_ind'. intros W.
  rewrite wf_sub_unfold in W. apply andb_true_iff in W as [U F]. apply Nat.eqb_eq in U.
  rewrite rs_node_unfold. set (sl' := fst (rs_slots sl) ++ snd (rs_slots sl)).
  assert (HK : Forall (fun p : einfo * utree => good_sub (rs_node (snd p))) (kids_of sl)).
  { clear -IH F. induction sl as [|[[e ch]|] r IHr]; simpl in *; auto.
    - inversion IH; subst. apply andb_true_iff in F as [F1 F2]. constructor; auto.
    - inversion IH; subst. auto. }
  destruct (rs_kids_good sl HK) as [KN KW]. fold sl' in KN, KW.
  assert (U' : n_up sl' = 1) by (unfold sl'; now rewrite rs_slots_n_up).
  split; [|split].
  - rewrite wf_sub_unfold, U', KW. reflexivity.
  - intros S. rewrite no_single_sub_unfold, KN, andb_true_r.
    destruct (Nat.eqb (length sl') 2) eqn:L; auto.
    apply Nat.eqb_eq in L. destruct (two_slots_single sl' L U') as [x [E|E]];
      unfold single_child in S; simpl uslots in S; rewrite E in S; discriminate.
  - intros x S. apply single_child_kids in S. simpl uslots in S.
    rewrite S in KN, KW. simpl in KN, KW. rewrite andb_true_r in KN, KW. auto.
Qed.

Theorem remove_single_wf t :
  wf t = true -> wf (remove_single t) = true /\ no_single (remove_single t) = true.
Proof.
  destruct t as [n c sl]. intros W. unfold remove_single.
  rewrite wf_unfold in W. apply andb_true_iff in W as [U F]. apply Nat.eqb_eq in U.
  rewrite rs_node_unfold.
  assert (HK : Forall (fun p : einfo * utree => good_sub (rs_node (snd p))) (kids_of sl)).
  { clear -F. induction (kids_of sl) as [|p r IHr]; simpl in *; auto.
    apply andb_true_iff in F as [F1 F2]. constructor; auto. now apply rs_node_good_sub. }
  destruct (rs_kids_good sl HK) as [KN KW]. split.
  - rewrite wf_unfold, rs_slots_n_up, U, KW. reflexivity.
  - unfold no_single, kids. simpl uslots. exact KN.
Qed.

(** the degree of the root does not change *)
Theorem remove_single_degree t : degree (remove_single t) = degree t.
Proof. destruct t as [n c sl]. unfold remove_single. rewrite rs_node_unfold. apply rs_slots_length. Qed.
