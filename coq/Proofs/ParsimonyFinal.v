(** The state sets reported by the three algorithms, at the root of the whole tree:
    DOWNPASS is exact, DELTRAN and ACCTRAN report only states of most-parsimonious labellings. *)
From Coq Require Import String ZArith QArith Bool Arith Lia List.
From GT Require Import Base.UTree Spec.Obs Spec.Parsimony Model.Reroot Model.Parsimony
     Proofs.ParsimonyVec Proofs.ParsimonyHartigan Proofs.ParsimonyReroot Proofs.ParsimonyCtx
     Proofs.ParsimonyDown.
Import ListNotations.
Local Close Scope Q_scope.

(** * induction on vtrees *)
Section VInd.
  Variable P : vtree -> Prop.
  Hypothesis H : forall v ks, Forall P ks -> P (VNode v ks).
  Fixpoint vtree_ind' (t : vtree) : P t :=
    match t with
    | VNode v ks =>
      H v ks ((fix go (l : list vtree) : Forall P l :=
                 match l with
                 | [] => Forall_nil _
                 | c :: r => Forall_cons c (vtree_ind' c) (go r)
                 end) ks)
    end.
End VInd.

(** * vectors of length k with entries 0/1 *)
Definition good (k : nat) (v : vec) : Prop := length v = k /\ forall x, nth x v 0 <= 1.

Lemma good_cp : forall k l, good k (compute_parsimony (vsum k l)).
Proof.
  intros. split.
  - rewrite compute_parsimony_length. apply vsum_length.
  - intros. apply compute_parsimony_01.
Qed.

Lemma nth_map_01 : forall (f : nat -> nat) s x, f 0 = 0 -> nth x (map f s) 0 = f (nth x s 0).
Proof.
  intros f s x H0. rewrite <- H0 at 1. apply map_nth.
Qed.

(** [refine parent child]: the intersection when it is not empty, else the child *)
Lemma refine_cases : forall k p c, good k p -> good k c ->
  (exists z, nth z p 0 = 1 /\ nth z c 0 = 1) /\
  (forall y, nth y (refine p c) 0 = 1 <-> (nth y p 0 = 1 /\ nth y c 0 = 1)) /\ good k (refine p c)
  \/
  (forall z, ~ (nth z p 0 = 1 /\ nth z c 0 = 1)) /\ refine p c = c.
Proof.
  intros k p c [Lp Bp] [Lc Bc]. unfold refine.
  assert (Hn : forall x, nth x (vadd c p) 0 = nth x c 0 + nth x p 0) by (intros; apply nth_vadd; lia).
  destruct (existsb (fun x => Nat.ltb 1 x) (vadd c p)) eqn:E.
  - left. apply existsb_exists in E. destruct E as [w [Hin Hw]]. apply Nat.ltb_lt in Hw.
    destruct (In_nth _ _ 0 Hin) as [z [Hz Hzw]].
    split; [|split].
    + exists z. rewrite Hn in Hzw. pose proof (Bp z). pose proof (Bc z). lia.
    + intros y. rewrite nth_map_01 by reflexivity. rewrite Hn.
      pose proof (Bp y). pose proof (Bc y).
      destruct (Nat.ltb 1 (nth y c 0 + nth y p 0)) eqn:E2.
      * apply Nat.ltb_lt in E2. split; [lia | reflexivity].
      * apply Nat.ltb_ge in E2. split; [discriminate | lia].
    + split.
      * rewrite map_length, vadd_length. exact Lc.
      * intros x. rewrite nth_map_01 by reflexivity. destruct (Nat.ltb 1 _); lia.
  - right. split; [|reflexivity].
    intros z [Hp Hc].
    assert (Hz : z < length (vadd c p)).
    { rewrite vadd_length. destruct (Nat.lt_ge_cases z (length c)); [assumption|].
      rewrite nth_overflow in Hc by assumption. discriminate. }
    assert (existsb (fun x => Nat.ltb 1 x) (vadd c p) = true).
    { apply existsb_exists. exists (nth z (vadd c p) 0). split; [apply nth_In; exact Hz|].
      apply Nat.ltb_lt. rewrite Hn. lia. }
    congruence.
Qed.

Lemma refine_sub : forall k p c y, good k p -> good k c -> nth y (refine p c) 0 = 1 -> nth y c 0 = 1.
Proof.
  intros k p c y Gp Gc H.
  destruct (refine_cases k p c Gp Gc) as [[_ [Hi _]]|[_ He]].
  - apply Hi in H. tauto.
  - rewrite He in H. exact H.
Qed.

Lemma refine_good : forall k p c, good k p -> good k c -> good k (refine p c).
Proof.
  intros k p c Gp Gc.
  destruct (refine_cases k p c Gp Gc) as [[_ [_ G]]|[_ He]]; [exact G | rewrite He; exact Gc].
Qed.

Section Generic.
Variable tv : string -> vec.
Variable ts : string -> list nat.
Variable k : nat.

(** ** all the vectors are 0/1 of length k *)
Definition vall (P : vec -> Prop) (vt : vtree) : Prop := forall v, In v (vflat vt) -> P v.

Lemma vall_node : forall P v ks, vall P (VNode v ks) <-> P v /\ Forall (vall P) ks.
Proof.
  intros. unfold vall. simpl. split.
  - intros H. split; [apply H; left; reflexivity|].
    apply Forall_forall. intros c Hc w Hw. apply H. right. apply in_flat_map. eauto.
  - intros [Hv Hf] w [E|Hin]; [subst; exact Hv|].
    apply in_flat_map in Hin. destruct Hin as [c [Hc Hw]].
    rewrite Forall_forall in Hf. apply (Hf c Hc w Hw).
Qed.

Lemma uppass_good : forall c, wf_sub c = true -> (forall n, In n (leaves c) -> tip_ok tv ts k n) ->
  vall (good k) (fst (uppass tv k c)).
Proof.
  induction c using utree_ind'. intros Hw Ht.
  pose proof (wf_sub_tip_leaf n c sl Hw) as Htl.
  rewrite uppass_unfold.
  destruct (Nat.eqb (length sl) 1) eqn:E.
  - simpl. apply vall_node. split; [|constructor].
    assert (In n (leaves (UNode n c sl))).
    { simpl. symmetry in Htl. unfold is_leaf, kids in Htl. simpl in Htl.
      destruct (kids_of sl); [left; reflexivity | discriminate]. }
    destruct (Ht n H0) as [L [B _]]. split; [exact L|].
    intros x. rewrite B. destruct (mem x (ts n)); lia.
  - cbv zeta. simpl fst. apply vall_node. split; [apply good_cp|].
    pose proof (wf_sub_slots n c sl Hw) as Hws.
    apply Forall_forall. intros vc Hvc.
    apply in_map_iff in Hvc. destruct Hvc as [r [Er Hr]]. subst vc.
    unfold kid_results in Hr. apply in_flat_map in Hr. destruct Hr as [[[e d]|] [Hin Hr]]; [|destruct Hr].
    destruct Hr as [Hr|[]]. subst r.
    rewrite Forall_forall in H, Hws.
    apply (H _ Hin); [apply (Hws _ Hin)|].
    intros m Hm. apply Ht. eapply leaves_child; eauto.
Qed.


Lemma down_kids_good : forall basem roots l s,
  Forall (fun vt => forall isroot up, vall (good k) vt -> vall (good k) (downpass isroot up k vt)) l ->
  Forall (vall (good k)) l ->
  Forall (vall (good k)) (down_kids basem roots k s l).
Proof.
  induction l as [|c l IH]; intros s Hf Hk; simpl; [constructor|].
  inversion Hf; inversion Hk; subst. constructor; auto.
Qed.

Lemma downpass_good : forall vt isroot up, vall (good k) vt -> vall (good k) (downpass isroot up k vt).
Proof.
  induction vt using vtree_ind'. intros isroot up Hg.
  destruct ks as [|c0 ks]; [exact Hg|].
  rewrite downpass_node. cbv zeta.
  apply vall_node in Hg. destruct Hg as [Hv Hk].
  apply vall_node. split.
  - destruct isroot; [exact Hv | apply good_cp].
  - apply down_kids_good; assumption.
Qed.

(** ** DELTRAN reports a subset of what DOWNPASS reports *)
Lemma deltran_sub : forall q t vt par v',
  vall (good k) vt -> (forall p, par = Some p -> good k p) ->
  vec_at t (deltran par vt) q = Some v' ->
  exists v, vec_at t vt q = Some v /\ forall y, nth y v' 0 = 1 -> nth y v 0 = 1.
Proof.
  induction q as [|i q IH]; intros t vt par v' Hg Hp Hv.
  - destruct vt as [v [|c0 ks]]; simpl in Hv.
    + exists v. split; [reflexivity|]. inversion Hv as [Ev]. auto.
    + exists v. split; [reflexivity|]. inversion Hv as [Ev]. clear Hv.
      destruct par as [p|]; [|auto].
      intros y Hy. apply vall_node in Hg. destruct Hg as [Gv _].
      apply (refine_sub k p v y); auto.
  - destruct vt as [v [|c0 ks]].
    + simpl in Hv. exists v'. split; [exact Hv | auto].
    + simpl vec_at in *.
      destruct (nth_error (uslots t) i) as [[[e c]|]|]; try discriminate.
      simpl vkids in *.
      set (v2 := match par with Some p => refine p v | None => v end) in *.
      change (deltran (Some v2) c0 :: map (deltran (Some v2)) ks)
        with (map (deltran (Some v2)) (c0 :: ks)) in Hv.
      rewrite nth_error_map in Hv.
      destruct (nth_error (c0 :: ks) (kidx (uslots t) i)) as [vc|] eqn:E; [|discriminate].
      simpl in Hv.
      apply vall_node in Hg. destruct Hg as [Gv Gk].
      rewrite Forall_forall in Gk.
      apply (IH c vc (Some v2) v'); auto.
      * apply Gk. eapply nth_error_In; eauto.
      * intros p Ep. inversion Ep; subst p. unfold v2.
        destruct par as [p0|]; [apply refine_good; auto | exact Gv].
Qed.

End Generic.

Section Final.
Variable tv : string -> vec.
Variable ts : string -> list nat.
Variable k : nat.
Variable T : utree.
Hypothesis Hwf : wf T = true.
Hypothesis Hdeg : 2 <= degree T.
Hypothesis tips : forall n, In n (leaves T) -> tip_ok tv ts k n.

Lemma root_facts :
  is_tip T = false /\ inner T /\ 2 <= length (kids_of (uslots T)) /\
  Forall (fun s => match s with Some (_, d) => wf_sub d = true | None => True end) (uslots T).
Proof.
  destruct T as [n cm sl]. unfold degree in Hdeg. simpl in *.
  pose proof (wf_slots n cm sl Hwf) as Hw.
  apply andb_prop in Hwf. destruct Hwf as [Hu _]. apply Nat.eqb_eq in Hu.
  pose proof (length_up_kids sl) as L. rewrite Hu in L.
  split; [unfold is_tip, degree; simpl; apply Nat.eqb_neq; lia|].
  split; [|split; [lia | exact Hw]].
  split.
  - unfold is_leaf, kids. simpl. destruct (kids_of sl); simpl in *; [lia | reflexivity].
  - simpl. apply Nat.eqb_neq. lia.
Qed.

(** ** DOWNPASS: exactly the states of the most-parsimonious labellings *)
Theorem downpass_exact : forall skip q x v,
  node_at T q = Some x -> is_leaf x = false ->
  vec_at T (fst (parsimony skip tv k Downpass T)) q = Some v ->
  forall y, nth y v 0 = 1 <-> opt_state_at ts T q y.
Proof.
  intros skip q x v Hq Hx Hv y.
  destruct root_facts as [Htip [Hin [Hk Hw]]].
  unfold parsimony in Hv. rewrite Htip in Hv.
  destruct (uppass tv k T) as [u s] eqn:Eu. simpl in Hv.
  replace u with (fst (uppass tv k T)) in Hv by (rewrite Eu; reflexivity).
  apply (down_sub tv ts k T T [] [] true [] eq_refl (ctx_root ts k T) eq_refl (or_intror Hk) Hin Hw tips
                  q x v Hq Hx Hv y).
Qed.

Lemma uppass_good_root : vall (good k) (fst (uppass tv k T)).
Proof.
  destruct root_facts as [_ [[_ Hnt] [_ Hw]]].
  destruct T as [n cm sl]. simpl in Hnt, Hw.
  rewrite uppass_unfold, Hnt. cbv zeta. simpl fst. apply vall_node. split; [apply good_cp|].
  apply Forall_forall. intros vc Hvc.
  apply in_map_iff in Hvc. destruct Hvc as [r [Er Hr]]. subst vc.
  unfold kid_results in Hr. apply in_flat_map in Hr. destruct Hr as [[[e d]|] [Hin Hr]]; [|destruct Hr].
  destruct Hr as [Hr|[]]. subst r.
  rewrite Forall_forall in Hw.
  apply (uppass_good tv ts k); [apply (Hw _ Hin)|].
  intros m Hm. apply tips. eapply leaves_child; eauto.
Qed.

Theorem deltran_sound : forall skip q x v,
  node_at T q = Some x -> is_leaf x = false ->
  vec_at T (fst (parsimony skip tv k Deltran T)) q = Some v ->
  forall y, nth y v 0 = 1 -> opt_state_at ts T q y.
Proof.
  intros skip q x v Hq Hx Hv y Hy.
  destruct root_facts as [Htip _].
  pose proof (downpass_exact skip q x) as D.
  unfold parsimony in Hv, D. rewrite Htip in Hv, D.
  destruct (uppass tv k T) as [u s] eqn:Eu. simpl in Hv, D.
  assert (Gu : vall (good k) u).
  { replace u with (fst (uppass tv k T)) by (rewrite Eu; reflexivity). apply uppass_good_root. }
  destruct (deltran_sub k q T (downpass true [] k u) None v (downpass_good k u true [] Gu)
                        ltac:(intros; discriminate) Hv) as [v0 [Hv0 Hsub]].
  apply (D v0 Hq Hx Hv0 y). apply Hsub. exact Hy.
Qed.

End Final.
