(** Every loop of the Nexus parser (Model/Nexus.v) consumes input or stops: with fuel larger
    than the length of the remaining input no loop runs out of fuel, and none panics.
    Stated for every input string and every single-tree Newick parser. *)
From Coq Require Import String Ascii ZArith Bool Arith Lia List.
From GT Require Import Base.UTree Model.Nexus Proofs.NexusLex.
Import ListNotations.
Local Open Scope string_scope.

(** the function returned, having consumed some of the input *)
Definition good {A} (n : nat) (x : run A) : Prop :=
  exists v e r, x = Ret v e r /\ String.length r <= n.

Lemma good_ret : forall A (v : A) e r n, String.length r <= n -> good n (Ret v e r).
Proof. intros. exists v, e, r. auto. Qed.

Lemma good_le : forall A (x : run A) n m, good n x -> n <= m -> good m x.
Proof. intros A x n m (v & e & r & H1 & H2) H. exists v, e, r. split; [assumption|lia]. Qed.

Lemma is_err_false : forall e, is_err e = false -> e = None.
Proof. destruct e; simpl; [discriminate|reflexivity]. Qed.

(** * automation *)
Ltac norm_hyps :=
  repeat match goal with
         | H : is_err _ = false |- _ => apply is_err_false in H; try subst
         | H : tok_eqb _ _ = true |- _ => apply tok_eqb_true in H; subst
         | H : tok_eqb _ _ = false |- _ => apply tok_eqb_false in H
         | H : negb _ = true |- _ => apply negb_true_iff in H
         | H : negb _ = false |- _ => apply negb_false_iff in H
         | H : (_ || _)%bool = true |- _ => apply orb_true_iff in H; destruct H
         | H : (_ || _)%bool = false |- _ => apply orb_false_iff in H; destruct H
         | H : (_ && _)%bool = true |- _ => apply andb_true_iff in H; destruct H
         | H : (_ && _)%bool = false |- _ => apply andb_false_iff in H; destruct H
         end.

(** discharge the premises "the token is not EOF" of the consumption facts *)
Ltac use_B :=
  repeat match goal with
         | B : ?t <> EOF -> _ |- _ =>
           first [ specialize (B ltac:(first [discriminate | assumption | congruence])) | clear B ]
         | B : ?e = None -> _ |- _ =>
           first [ specialize (B ltac:(first [reflexivity | assumption | congruence])) | clear B ]
         end.

Ltac len_solve := norm_hyps; use_B; simpl String.length in *; lia.

Ltac scan_step x :=
  let t := fresh "t" in let l := fresh "l" in let r := fresh "r" in
  let E := fresh "E" in let A := fresh "A" in let B := fresh "B" in
  destruct (scan_iw x) as [[t l] r] eqn:E; apply scan_iw_spec in E; destruct E as [A B].

Ltac key_step x :=
  let e := fresh "e" in let r := fresh "r" in
  let E := fresh "E" in let A := fresh "A" in let B := fresh "B" in
  destruct (unsupported_key x) as [e r] eqn:E; apply unsupported_key_spec in E; destruct E as [A B].

(** use the totality lemma [L : length x < f -> good (length x) call] of a callee *)
Ltac use_total L :=
  let H := fresh "H" in let v := fresh "v" in let e := fresh "e" in let r := fresh "r" in
  let Heq := fresh "Heq" in let Hle := fresh "Hle" in
  lazymatch type of L with
  | ?P -> _ => assert (H : P) by len_solve; destruct (L H) as (v & e & r & Heq & Hle); rewrite Heq; clear Heq
  end.

Ltac base_step :=
  match goal with
  | |- ?P (if ?b then _ else _) => let Q := fresh "Q" in destruct b eqn:Q; norm_hyps
  | |- ?P (match (if ?b then _ else _) with _ => _ end) => let Q := fresh "Q" in destruct b eqn:Q; norm_hyps
  | |- context [match scan_iw ?x with _ => _ end] => scan_step x
  | |- context [match unsupported_key ?x with _ => _ end] => key_step x
  | |- context [match parse_int ?x with _ => _ end] => destruct (parse_int x)
  | |- ?P (match (match ?x with _ => _ end) with _ => _ end) => is_var x; destruct x
  | |- ?P (match ?x with _ => _ end) => is_var x; destruct x
  end.

Ltac crunch extra := repeat (cbv beta iota zeta; first [ extra | base_step ]).

Ltac leaf IH :=
  cbv beta iota zeta;
  first [ apply good_ret; len_solve
        | eapply good_le; [ apply IH; len_solve | len_solve ] ].

Ltac no_extra := fail.

(** * the simple loops *)
Lemma scan_iw_eol_total : forall fuel s,
    String.length s < fuel -> good (String.length s) (scan_iw_eol fuel s).
Proof.
  induction fuel as [|f IH]; intros s Hf; [lia|].
  cbn [scan_iw_eol].
  destruct (scan s) as [[t l] r] eqn:E. apply scan_spec in E. destruct E as [A B].
  crunch no_extra; leaf IH.
Qed.

Lemma consume_comment_total : forall fuel s,
    String.length s < fuel -> good (String.length s) (consume_comment fuel s).
Proof.
  induction fuel as [|f IH]; intros s Hf; [lia|].
  cbn [consume_comment]. crunch no_extra; leaf IH.
Qed.

Lemma unsupported_command_total : forall fuel s,
    String.length s < fuel -> good (String.length s) (unsupported_command fuel s).
Proof.
  induction fuel as [|f IH]; intros s Hf; [lia|].
  cbn [unsupported_command]. crunch no_extra; leaf IH.
Qed.

Lemma unsupported_block_total : forall fuel s,
    String.length s < fuel -> good (String.length s) (unsupported_block fuel s).
Proof.
  induction fuel as [|f IH]; intros s Hf; [lia|].
  cbn [unsupported_block]. crunch no_extra; leaf IH.
Qed.

(** * TAXA *)
Lemma taxa_dims_total : forall fuel ntax err stop s,
    String.length s < fuel -> good (String.length s) (taxa_dims fuel ntax err stop s).
Proof.
  induction fuel as [|f IH]; intros ntax err stop s Hf; [lia|].
  cbn [taxa_dims]. crunch no_extra; leaf IH.
Qed.

Lemma taxa_labels_total : forall fuel labels err s,
    String.length s < fuel -> good (String.length s) (taxa_labels fuel labels err s).
Proof.
  induction fuel as [|f IH]; intros labels err s Hf; [lia|].
  cbn [taxa_labels]. crunch no_extra; leaf IH.
Qed.

Ltac extra_taxa :=
  idtac; match goal with
  | |- context [match taxa_dims ?f ?a ?b ?c ?x with _ => _ end] => use_total (taxa_dims_total f a b c x)
  | |- context [match taxa_labels ?f ?a ?b ?x with _ => _ end] => use_total (taxa_labels_total f a b x)
  | |- context [match consume_comment ?f ?x with _ => _ end] => use_total (consume_comment_total f x)
  | |- context [match unsupported_command ?f ?x with _ => _ end] => use_total (unsupported_command_total f x)
  end.

Lemma parse_taxa_total : forall fuel ntax labels err s,
    String.length s < fuel -> good (String.length s) (parse_taxa fuel ntax labels err s).
Proof.
  induction fuel as [|f IH]; intros ntax labels err s Hf; [lia|].
  cbn [parse_taxa]. crunch extra_taxa; leaf IH.
Qed.

(** * TREES *)
Lemma parse_translate_total : forall fuel tbl s,
    String.length s < fuel -> good (String.length s) (parse_translate fuel tbl s).
Proof.
  induction fuel as [|f IH]; intros tbl s Hf; [lia|].
  cbn [parse_translate]. crunch extra_taxa; leaf IH.
Qed.

(** the token loop of "TREE name = ...": the current token is ahead of the input, so one
    more unit of fuel is needed (the iteration that sees the EOF token consumes nothing) *)
Lemma tree_tokens_total : forall fuel t l s,
    String.length s + 1 < fuel -> good (String.length s) (tree_tokens fuel t l s).
Proof.
  induction fuel as [|f IH]; intros t l s Hf; [lia|].
  cbn [tree_tokens].
  destruct (tok_eqb t ENDOFCOMMAND); [apply good_ret; lia|].
  destruct (negb (tree_tok t)) eqn:TT; [apply good_ret; lia|].
  destruct (scan_iw s) as [[t' l'] r] eqn:E. pose proof (scan_iw_spec _ _ _ _ E) as [A B].
  cbv beta iota zeta.
  assert (G : good (String.length s) (tree_tokens f t' l' r)).
  { destruct (tok_eqb t' EOF) eqn:Q.
    - apply tok_eqb_true in Q. subst t'.
      destruct f as [|f']; [lia|]. cbn [tree_tokens]. simpl. apply good_ret. lia.
    - apply tok_eqb_false in Q. specialize (B Q).
      eapply good_le; [apply IH; lia|lia]. }
  destruct G as (v & e & r' & Heq & Hle). rewrite Heq.
  destruct v as [tr|u]; apply good_ret; assumption.
Qed.

Ltac extra_trees :=
  idtac; match goal with
  | |- context [match parse_translate ?f ?a ?x with _ => _ end] => use_total (parse_translate_total f a x)
  | |- context [match scan_iw_eol ?f ?x with _ => _ end] => use_total (scan_iw_eol_total f x)
  | |- context [match consume_comment ?f ?x with _ => _ end] => use_total (consume_comment_total f x)
  | |- context [match unsupported_command ?f ?x with _ => _ end] => use_total (unsupported_command_total f x)
  | |- context [match tree_tokens ?f ?t ?l ?x with _ => _ end] =>
    let H := fresh "H" in let v := fresh "v" in let e := fresh "e" in let r := fresh "r" in
    let Heq := fresh "Heq" in let Hle := fresh "Hle" in
    assert (H : String.length x + 1 < f) by len_solve;
    destruct (tree_tokens_total f t l x H) as (v & e & r & Heq & Hle); rewrite Heq; clear Heq
  end.

Lemma parse_trees_total : forall fuel st err s,
    String.length s < fuel -> good (String.length s) (parse_trees fuel st err s).
Proof.
  induction fuel as [|f IH]; intros st err s Hf; [lia|].
  cbn [parse_trees]. crunch extra_trees; leaf IH.
Qed.

(** * DATA *)
Lemma data_dims_total : forall fuel nchar ntax err stop s,
    String.length s < fuel -> good (String.length s) (data_dims fuel nchar ntax err stop s).
Proof.
  induction fuel as [|f IH]; intros nchar ntax err stop s Hf; [lia|].
  cbn [data_dims]. crunch no_extra; leaf IH.
Qed.

Lemma data_format_total : forall fuel dt mis gp err stop s,
    String.length s < fuel -> good (String.length s) (data_format fuel dt mis gp err stop s).
Proof.
  induction fuel as [|f IH]; intros dt mis gp err stop s Hf; [lia|].
  cbn [data_format]. crunch no_extra; leaf IH.
Qed.

Lemma matrix_seq_total : forall fuel acc s,
    String.length s < fuel -> good (String.length s) (matrix_seq fuel acc s).
Proof.
  induction fuel as [|f IH]; intros acc s Hf; [lia|].
  cbn [matrix_seq]. crunch no_extra; leaf IH.
Qed.

Ltac extra_matrix :=
  idtac; match goal with
  | |- context [match matrix_seq ?f ?a ?x with _ => _ end] => use_total (matrix_seq_total f a x)
  end.

Lemma data_matrix_total : forall fuel st err s,
    String.length s < fuel -> good (String.length s) (data_matrix fuel st err s).
Proof.
  induction fuel as [|f IH]; intros st err s Hf; [lia|].
  cbn [data_matrix]. crunch extra_matrix; leaf IH.
Qed.

Ltac extra_data :=
  idtac; match goal with
  | |- context [match data_dims ?f ?a ?b ?c ?d ?x with _ => _ end] => use_total (data_dims_total f a b c d x)
  | |- context [match data_format ?f ?a ?b ?c ?d ?e ?x with _ => _ end] => use_total (data_format_total f a b c d e x)
  | |- context [match data_matrix ?f ?a ?b ?x with _ => _ end] => use_total (data_matrix_total f a b x)
  | |- context [match consume_comment ?f ?x with _ => _ end] => use_total (consume_comment_total f x)
  | |- context [match unsupported_command ?f ?x with _ => _ end] => use_total (unsupported_command_total f x)
  end.

Lemma parse_data_total : forall fuel st err s,
    String.length s < fuel -> good (String.length s) (parse_data fuel st err s).
Proof.
  induction fuel as [|f IH]; intros st err s Hf; [lia|].
  cbn [parse_data]. crunch extra_data; leaf IH.
Qed.

(** * Parse *)
Definition safe (p : pres) : Prop := p <> PPanic /\ p <> POutOfFuel.

Section Parse.
  Variable nparse : string -> utree + string.

  Lemma finish_safe : forall st, safe (finish nparse st).
  Proof.
    intros st. unfold finish.
    repeat match goal with
           | |- safe (if ?b then _ else _) => destruct b
           | |- safe (match ?x with _ => _ end) => destruct x
           end; split; discriminate.
  Qed.

  Ltac extra_main :=
    idtac; match goal with
    | |- context [match consume_comment ?f ?x with _ => _ end] => use_total (consume_comment_total f x)
    | |- context [match parse_taxa ?f ?a ?b ?c ?x with _ => _ end] => use_total (parse_taxa_total f a b c x)
    | |- context [match parse_trees ?f ?a ?b ?x with _ => _ end] => use_total (parse_trees_total f a b x)
    | |- context [match parse_data ?f ?a ?b ?x with _ => _ end] => use_total (parse_data_total f a b x)
    | |- context [match unsupported_block ?f ?x with _ => _ end] => use_total (unsupported_block_total f x)
    end.

  Lemma main_loop_safe : forall fuel st s, String.length s < fuel -> safe (main_loop nparse fuel st s).
  Proof.
    induction fuel as [|f IH]; intros st s Hf; [lia|].
    cbn [main_loop]. crunch extra_main;
      first [ apply finish_safe
            | split; discriminate
            | apply IH; len_solve ].
  Qed.

  (** nexus.Parser.Parse terminates and does not panic, on every input *)
  Theorem nexus_parse_total : forall s, safe (nexus_parse nparse s).
  Proof.
    intros s. unfold nexus_parse, nexus_parse_fuel, nexus_fuel.
    destruct (scan_iw s) as [[t l] r] eqn:E. apply scan_iw_spec in E. destruct E as [A _].
    destruct (negb (tok_eqb t NEXUS)); [split; discriminate|].
    apply main_loop_safe. lia.
  Qed.

  (** more fuel changes nothing *)
  Theorem nexus_parse_fuel_safe : forall s fuel,
      String.length s + 2 <= fuel -> safe (nexus_parse_fuel nparse fuel s).
  Proof.
    intros s fuel Hf. unfold nexus_parse_fuel.
    destruct (scan_iw s) as [[t l] r] eqn:E. apply scan_iw_spec in E. destruct E as [A _].
    destruct (negb (tok_eqb t NEXUS)); [split; discriminate|].
    apply main_loop_safe. lia.
  Qed.
End Parse.

(** * Before the fix fcf4ced consumeComment did not leave its loop on EOF: at the end of the
    input it ran forever (out of fuel for every fuel). *)
Fixpoint consume_comment_unfixed (fuel : nat) (err : option string) (s : string) : run tok :=
  match fuel with
  | O => OutOfFuel
  | S f =>
    let '(t, _, r) := scan_iw s in
    let err' := if tok_eqb t EOF || tok_eqb t ILLEGAL then Some "Unmatched bracket" else err in
    if tok_eqb t CLOSEBRACK then Ret t err' r else consume_comment_unfixed f err' r
  end.

Lemma consume_comment_unfixed_hangs : forall fuel err, consume_comment_unfixed fuel err "" = OutOfFuel.
Proof. induction fuel as [|f IH]; intros err; [reflexivity|]. simpl. apply IH. Qed.
