(** C07, the clause [branches_kept] of Spec/Contract.v: every branch of the input, as (leaf set
    below, length, support, p-value), appears in [resolve t cs] (multiset inclusion, values up to
    Qeq), tip branches included, for every well-formed tree and every choice vector. *)
From Coq Require Import String ZArith QArith Bool Arith Lia List Permutation Setoid Morphisms.
From GT Require Import Base.UTree Spec.Obs Spec.Contract Model.Reroot Model.Collapse Proofs.RerootBase Proofs.Prune
     Proofs.CollapseBase Proofs.CollapseResolve Proofs.OracleSets.
From GT Require Proofs.USplits.
Import ListNotations.
Local Close Scope Q_scope.
Local Arguments leaves : simpl never.

Notation bdata := (list string * (Q * Q * Q))%type.

(** * [data_eqb] is a decidable equivalence *)
Definition dsame (a b : bdata) : Prop :=
  fst a = fst b /\ (fst (fst (snd a)) == fst (fst (snd b)))%Q /\
  (snd (fst (snd a)) == snd (fst (snd b)))%Q /\ (snd (snd a) == snd (snd b))%Q.

Lemma qeqb_iff a b : qeqb a b = true <-> (a == b)%Q.
Proof. unfold qeqb. apply Qeq_bool_iff. Qed.

Lemma data_eqb_iff a b : data_eqb a b = true <-> dsame a b.
Proof.
  unfold data_eqb, dsame. rewrite !andb_true_iff, USplits.sset_eqb_eq, !qeqb_iff. tauto.
Qed.

Lemma dsame_refl a : dsame a a.
Proof. repeat split; reflexivity. Qed.
Lemma dsame_sym a b : dsame a b -> dsame b a.
Proof. intros (H1 & H2 & H3 & H4). repeat split; now symmetry. Qed.
Lemma dsame_trans a b c : dsame a b -> dsame b c -> dsame a c.
Proof. intros (H1 & H2 & H3 & H4) (K1 & K2 & K3 & K4). repeat split; etransitivity; eauto. Qed.

Lemma data_eqb_right x y z : data_eqb x y = true -> data_eqb z y = data_eqb z x.
Proof.
  intros H. apply data_eqb_iff in H. apply Bool.eq_iff_eq_true. rewrite !data_eqb_iff. split; intros K.
  - eapply dsame_trans; [exact K|now apply dsame_sym].
  - eapply dsame_trans; eauto.
Qed.

(** * counting up to the equivalence *)
Definition cnt (z : bdata) (l : list bdata) : nat := length (filter (data_eqb z) l).
Definition one (z x : bdata) : nat := if data_eqb z x then 1 else 0.

Lemma cnt_cons z y l : cnt z (y :: l) = one z y + cnt z l.
Proof. unfold cnt, one. simpl. destruct (data_eqb z y); reflexivity. Qed.
Lemma cnt_app z a b : cnt z (a ++ b) = cnt z a + cnt z b.
Proof. unfold cnt. now rewrite filter_app, app_length. Qed.
Lemma cnt_perm z a b : Permutation a b -> cnt z a = cnt z b.
Proof. intros H. unfold cnt. apply Permutation_length. now apply Permutation_filter. Qed.

Lemma data_remove_cnt x b :
  1 <= cnt x b -> exists b', data_remove x b = Some b' /\ forall z, cnt z b = cnt z b' + one z x.
Proof.
  induction b as [|y r IH]; [unfold cnt; simpl; lia|]. intros H. simpl. destruct (data_eqb x y) eqn:E.
  - exists r. split; auto. intros z. rewrite cnt_cons. unfold one. rewrite (data_eqb_right x y z E). lia.
  - rewrite cnt_cons in H. unfold one in H. rewrite E in H. destruct (IH H) as [r' [R1 R2]].
    rewrite R1. exists (y :: r'). split; auto. intros z. rewrite !cnt_cons, R2. lia.
Qed.

Lemma data_msub_of_cnt : forall a b, (forall z, cnt z a <= cnt z b) -> data_msub a b = true.
Proof.
  induction a as [|x r IH]; intros b H; [reflexivity|]. simpl.
  assert (H1 : 1 <= cnt x b).
  { generalize (H x). rewrite cnt_cons. unfold one. rewrite (proj2 (data_eqb_iff x x) (dsame_refl x)). lia. }
  destruct (data_remove_cnt x b H1) as [b' [R1 R2]]. rewrite R1. apply IH. intros z.
  generalize (H z). rewrite cnt_cons, R2. lia.
Qed.

(** * the branches of a tree as data *)
Definition bd (p : einfo * utree) : bdata := (sset (leaves (snd p)), edata (fst p)).
Definition dview (v : (Q * Q * Q) * list string) : bdata := (sset (snd v), fst v).

Lemma branch_data_branches t : branch_data t = map bd (branches t).
Proof.
  induction t as [n c sl IH] using utree_ind'. rewrite branches_unfold. simpl branch_data.
  induction sl as [|[[e ch]|] r IHr]; [reflexivity| |].
  - inversion IH as [|? ? Hc Hr]; subst. rewrite brs_cons_some. simpl.
    rewrite map_app, Hc, (IHr Hr). reflexivity.
  - inversion IH; subst. rewrite brs_cons_none. simpl. auto.
Qed.

Lemma branch_data_views t : branch_data t = map dview (map view2 (branches t)).
Proof. rewrite branch_data_branches, map_map. reflexivity. Qed.

Lemma dview_perm l l' : veq2 l l' -> Permutation (map dview l) (map dview l').
Proof.
  induction 1 as [|x y l l' [R1 R2] _ IH| |]; simpl.
  - constructor.
  - replace (dview y) with (dview x); [now constructor|]. unfold dview. now rewrite R1, (sset_perm _ _ R2).
  - apply perm_swap.
  - etransitivity; eauto.
Qed.

(** * Resolve *)
Theorem resolve_branch_data t cs :
  wf t = true -> exists extra, Permutation (branch_data (resolve t cs)) (branch_data t ++ extra).
Proof.
  intros Hw. destruct (resolve_branches t cs Hw) as [news [_ HV]].
  exists (map dview news). rewrite !branch_data_views, <- map_app. now apply dview_perm.
Qed.

Theorem resolve_branches_kept t cs : wf t = true -> branches_kept t (resolve t cs) = None.
Proof.
  intros Hw. destruct (resolve_branch_data t cs Hw) as [extra HP].
  unfold branches_kept. rewrite data_msub_of_cnt; auto.
  intros z. rewrite (cnt_perm z _ _ HP), cnt_app. lia.
Qed.
