(** C10 (i): the post-order recursion of minTransferDistRecur computes the transfer index
    [delta]: the minimum over the branches b' of the bootstrap tree of
    min(|L Δ below b'|, |X| - |L Δ below b'|), L the light side of the reference branch. *)
From Coq Require Import String ZArith QArith Bool Arith Lia Permutation List.
From GT Require Import Base.UTree Spec.Obs Spec.Support Model.Support Proofs.SupportBase.
Import ListNotations.
Local Close Scope Q_scope.

(** * the scan over the d values *)
Definition step (absent : bool) (d : nat) (st : mstate) : mstate :=
  if Nat.leb d (fst st) then (d, Nat.eqb d 1 && absent) else st.

Fixpoint scan (absent : bool) (l : list nat) (st : mstate) : mstate :=
  match l with
  | [] => st
  | d :: l' => if snd st then st else scan absent l' (step absent d st)
  end.

Lemma scan_stopped : forall absent l st, snd st = true -> scan absent l st = st.
Proof. intros absent l st H. destruct l; simpl; [reflexivity|]. rewrite H. reflexivity. Qed.

Lemma scan_app : forall absent l1 l2 st, scan absent (l1 ++ l2) st = scan absent l2 (scan absent l1 st).
Proof.
  intros absent l1. induction l1 as [|d l1 IH]; intros l2 st; simpl; [reflexivity|].
  destruct (snd st) eqn:E; [|apply IH]. rewrite scan_stopped by exact E. reflexivity.
Qed.

Definition lmin (m : nat) (l : list nat) : nat := fold_right Nat.min m l.
Arguments lmin : simpl never.

Lemma lmin_cons : forall m d l, lmin m (d :: l) = Nat.min d (lmin m l).
Proof. reflexivity. Qed.

Lemma lmin_le_init : forall l m, lmin m l <= m.
Proof.
  induction l as [|d l IH]; intros m; [unfold lmin; simpl; lia|].
  rewrite lmin_cons. specialize (IH m). lia.
Qed.

Lemma lmin_le_in : forall l m d, In d l -> lmin m l <= d.
Proof.
  induction l as [|x l IH]; intros m d H; [contradiction|].
  rewrite lmin_cons. destruct H as [->|H]; [lia|]. specialize (IH m d H). lia.
Qed.

Lemma lmin_min : forall l a b, lmin (Nat.min a b) l = Nat.min a (lmin b l).
Proof.
  induction l as [|x l IH]; intros a b; [reflexivity|].
  rewrite !lmin_cons, IH. lia.
Qed.

Lemma lmin_ge : forall l m k, k <= m -> Forall (fun d => k <= d) l -> k <= lmin m l.
Proof.
  induction l as [|x l IH]; intros m k Hm Hl; [exact Hm|].
  rewrite lmin_cons. inversion Hl; subst. specialize (IH m k Hm H2). lia.
Qed.

Lemma lmin_perm : forall m l l', Permutation l l' -> lmin m l = lmin m l'.
Proof.
  intros m l l' P. unfold lmin. induction P; simpl; try lia.
Qed.

Lemma lmin_init_irrel : forall l a b d, In d l -> d <= a -> d <= b -> lmin a l = lmin b l.
Proof.
  induction l as [|x l IH]; intros a b d H Ha Hb; [contradiction|].
  rewrite !lmin_cons. destruct H as [->|H].
  - destruct (in_dec Nat.eq_dec d l) as [Hin|Hnin].
    + rewrite (IH a b d Hin Ha Hb). reflexivity.
    + clear IH Hnin. induction l as [|y l IHl]; [unfold lmin; simpl; lia|].
      rewrite !lmin_cons. lia.
  - rewrite (IH a b d H Ha Hb). reflexivity.
Qed.

(** without the early stop the scan is a running minimum *)
Lemma scan_false : forall l m, scan false l (m, false) = (lmin m l, false).
Proof.
  induction l as [|d l IH]; intros m; simpl; [reflexivity|].
  unfold step. simpl. rewrite andb_false_r.
  destruct (Nat.leb d m) eqn:E.
  - apply Nat.leb_le in E. rewrite IH. f_equal.
    replace d with (Nat.min d m) at 1 by lia. rewrite lmin_min. reflexivity.
  - apply Nat.leb_gt in E. rewrite IH. f_equal.
    pose proof (lmin_le_init l m). rewrite lmin_cons. lia.
Qed.

(** with the early stop at d = 1 the result is the same as long as no d is 0 *)
Lemma scan_true : forall l m,
    1 <= m -> Forall (fun d => 1 <= d) l -> fst (scan true l (m, false)) = lmin m l.
Proof.
  induction l as [|d l IH]; intros m Hm Hl; simpl; [reflexivity|].
  inversion Hl as [|? ? Hd Hl']; subst.
  unfold step. simpl. rewrite andb_true_r.
  destruct (Nat.leb d m) eqn:E.
  - apply Nat.leb_le in E. destruct (Nat.eqb d 1) eqn:D.
    + apply Nat.eqb_eq in D. subst d. rewrite scan_stopped by reflexivity. simpl.
      pose proof (lmin_ge l m 1 Hm Hl'). rewrite lmin_cons. lia.
    + rewrite IH by assumption.
      replace d with (Nat.min d m) at 1 by lia. rewrite lmin_min. reflexivity.
  - apply Nat.leb_gt in E. rewrite IH by assumption.
    pose proof (lmin_le_init l m). rewrite lmin_cons. lia.
Qed.

Section Recursion.
  Variables (ntips p r : nat) (A : list string) (absent : bool).

  (** is the tip on the light side of the reference branch (for minTransferDistRecur) *)
  Definition inl (x : string) : bool :=
    if Nat.ltb (ntips / 2) r then negb (mem x A) else mem x A.

  Lemma tip_one_inl : forall x, tip_one ntips r A x = if inl x then 0 else 1.
  Proof. intros x. unfold tip_one, inl. destruct (Nat.ltb (ntips / 2) r); reflexivity. Qed.

  (** ones[] of the branch above [c] *)
  Definition ones_of (c : utree) : nat := cnt (fun x => negb (inl x)) (all_tip_names c).

  (** the d computed at a branch with [rr] tips below, [o] of them ones *)
  Definition dval (rr o : nat) : nat :=
    let d := p - (rr - o) + o in
    if Nat.ltb (ntips / 2) d then ntips - d else d.

  Definition dv (c : utree) : nat := dval (ntax_right c) (ones_of c).

  Lemma mtd_edge_step : forall rr o st, mtd_edge ntips p absent rr o st = step absent (dval rr o) st.
  Proof. reflexivity. Qed.

  (** the d values of the branches strictly below [c], in the order the recursion meets them *)
  Fixpoint dl (c : utree) : list nat :=
    match c with
    | UNode _ _ sl =>
      if Nat.eqb (length sl) 1 then []
      else flat_map (fun s => match s with Some (_, ch) => dl ch ++ [dv ch] | None => [] end) sl
    end.

  Definition dl_slots (sl : list slot) : list nat :=
    flat_map (fun s => match s with Some (_, ch) => dl ch ++ [dv ch] | None => [] end) sl.

  Definition ones_slots (sl : list slot) : nat :=
    fold_right (fun s acc => match s with Some (_, ch) => ones_of ch + acc | None => acc end) 0 sl.

  (** specification of one recursive call through a branch *)
  Definition rec_ok (rec : utree -> mstate -> nat * mstate) (c : utree) : Prop :=
    forall st, snd (rec c st) = scan absent (dl c ++ [dv c]) st /\
               (snd (snd (rec c st)) = false -> fst (rec c st) = ones_of c).

  Lemma mtd_loop_spec : forall rec sl,
      (forall e c, In (Some (e, c)) sl -> rec_ok rec c) ->
      forall acc st,
        snd (mtd_loop rec sl acc st) = scan absent (dl_slots sl) st /\
        (snd (snd (mtd_loop rec sl acc st)) = false -> fst (mtd_loop rec sl acc st) = acc + ones_slots sl).
  Proof.
    intros rec sl. induction sl as [|s sl IH]; intros H acc st.
    - simpl. split; [reflexivity|intros; lia].
    - assert (H' : forall e c, In (Some (e, c)) sl -> rec_ok rec c) by (intros; eapply H; right; eassumption).
      destruct s as [[e c]|].
      + destruct (H e c (or_introl eq_refl) st) as [H1 H2].
        cbn [mtd_loop]. destruct (rec c st) as [o st'] eqn:R. cbn [fst snd] in H1, H2.
        unfold dl_slots. cbn [flat_map]. fold (dl_slots sl). rewrite scan_app. rewrite <- H1.
        cbn [ones_slots fold_right]. fold (ones_slots sl).
        destruct (snd st') eqn:S.
        * cbn [fst snd]. rewrite scan_stopped by exact S. split; [reflexivity|]. intros F. congruence.
        * specialize (H2 eq_refl). subst o. destruct (IH H' (acc + ones_of c) st') as [I1 I2].
          split; [exact I1|]. intros F. rewrite (I2 F). lia.
      + cbn [mtd_loop]. unfold dl_slots. cbn [flat_map app]. fold (dl_slots sl).
        cbn [ones_slots fold_right]. fold (ones_slots sl). apply IH. exact H'.
  Qed.

  Lemma ones_slots_cnt : forall sl : list slot,
      cnt (fun x => negb (inl x))
          (flat_map (fun s => match s with Some (_, c) => all_tip_names c | None => [] end) sl)
      = ones_slots sl.
  Proof.
    induction sl as [|s sl IH]; [reflexivity|].
    cbn [flat_map]. rewrite cnt_app, IH.
    destruct s as [[e c]|]; reflexivity.
  Qed.

  Lemma ones_of_node : forall n cm sl,
      Nat.eqb (length sl) 1 = false -> ones_of (UNode n cm sl) = ones_slots sl.
  Proof.
    intros n cm sl E. unfold ones_of. cbn [all_tip_names]. rewrite E. apply ones_slots_cnt.
  Qed.

  (** the recursion is the scan over the d values in post-order *)
  Lemma mtd_rec_spec : forall c he st,
      snd (mtd_rec ntips p r A absent c he st)
      = scan absent (dl c ++ if he then [dv c] else []) st /\
      (snd (snd (mtd_rec ntips p r A absent c he st)) = false ->
       fst (mtd_rec ntips p r A absent c he st) = ones_of c).
  Proof.
    induction c as [n cm sl IH] using utree_ind'. intros he st.
    cbn [mtd_rec]. destruct (snd st) eqn:S.
    - cbn [fst snd]. rewrite scan_stopped by exact S. split; [reflexivity|]. intros F. congruence.
    - destruct (Nat.eqb (length sl) 1) eqn:E.
      + (* a tip *)
        rewrite S.
        assert (O : tip_one ntips r A n = ones_of (UNode n cm sl)).
        { unfold ones_of. cbn [all_tip_names]. rewrite E. rewrite tip_one_inl.
          unfold cnt. simpl. destruct (inl n); reflexivity. }
        cbn [dl]. rewrite E. cbn [app].
        destruct he; cbn [fst snd].
        * rewrite mtd_edge_step. simpl. rewrite S. unfold dv. rewrite <- O. split; [reflexivity|]. intros _. reflexivity.
        * simpl. split; [reflexivity|]. intros _. exact O.
      + (* an inner node *)
        assert (R : forall e c, In (Some (e, c)) sl ->
                                rec_ok (fun c st => mtd_rec ntips p r A absent c true st) c).
        { intros e c Hin st'. rewrite Forall_forall in IH. exact (IH _ Hin true st'). }
        destruct (mtd_loop_spec _ sl R 0 st) as [L1 L2].
        destruct (mtd_loop (fun c st => mtd_rec ntips p r A absent c true st) sl 0 st) as [o st1] eqn:ML.
        cbn [fst snd] in L1, L2.
        cbn [dl]. rewrite E. fold (dl_slots sl). rewrite scan_app. rewrite <- L1.
        destruct (snd st1) eqn:S1.
        * cbn [fst snd]. rewrite scan_stopped by exact S1. split; [reflexivity|]. intros F. congruence.
        * specialize (L2 eq_refl). simpl in L2. rewrite <- (ones_of_node n cm sl E) in L2. subst o.
          destruct he; cbn [fst snd].
          -- rewrite mtd_edge_step. simpl. rewrite S1. split; [reflexivity|]. intros _. reflexivity.
          -- simpl. split; [reflexivity|]. intros _. reflexivity.
  Qed.

  Lemma min_transfer_dist_scan : forall boot,
      p <> 1 ->
      min_transfer_dist ntips p r A absent boot = fst (scan absent (dl boot) (p - 1, false)).
  Proof.
    intros boot Hp. unfold min_transfer_dist.
    replace (Nat.eqb p 1) with false by (symmetry; apply Nat.eqb_neq; exact Hp).
    destruct (mtd_rec_spec boot false (p - 1, false)) as [H _]. rewrite H.
    rewrite app_nil_r. reflexivity.
  Qed.

  (** the d values are those of all proper subtrees *)
  Lemma dl_perm : forall c,
      (forall e ch, In (Some (e, ch)) (uslots c) -> wf_sub ch = true) ->
      Nat.eqb (degree c) 1 = false ->
      Permutation (dl c) (map dv (subs c)).
  Proof.
    induction c as [n cm sl IH] using utree_ind'. intros Hk D.
    unfold degree in D. cbn [uslots] in *. cbn [dl subs]. rewrite D.
    clear D. induction sl as [|s sl IHsl]; [constructor|].
    cbn [flat_map]. rewrite map_app. apply Permutation_app.
    - destruct s as [[e ch]|]; [|constructor].
      cbn [map]. apply Permutation_sym. apply Permutation_cons_app. rewrite app_nil_r.
      apply Permutation_sym.
      pose proof (Hk e ch (or_introl eq_refl)) as W.
      inversion IH as [|? ? H1 H2]; subst.
      destruct ch as [n' c' sl']. pose proof (wf_sub_inv _ _ _ W) as [Hup Hk'].
      destruct (Nat.eqb (length sl') 1) eqn:E.
      + (* a tip: no subtree *)
        cbn [dl]. rewrite E. pose proof (slots_length sl') as HL. apply Nat.eqb_eq in E.
        cbn [subs]. rewrite (flat_map_kids _ (fun c => c :: subs c)).
        destruct (kids_of sl'); [constructor|simpl in HL; lia].
      + apply H1; [exact Hk'|exact E].
    - apply IHsl; [inversion IH; assumption|].
      intros e ch Hin. apply (Hk e ch). right. exact Hin.
  Qed.
End Recursion.

(** * the d value of a branch is the transfer distance of the definition *)
Section Distance.
  Variables (X A : list string).
  Hypothesis HX : NoDup X.
  Hypothesis HA : NoDup A.
  Hypothesis HAX : incl A X.

  Let n := length X.
  Let r := length A.
  Let p := Nat.min (n - r) r.
  Let L := light X A.

  Lemma r_le_n : r <= n.
  Proof.
    unfold r, n. rewrite <- (cnt_mem_length X A HX HA HAX). apply cnt_le.
  Qed.

  Lemma sinter_length : length (sinter X A) = r.
  Proof. unfold sinter. apply (cnt_mem_length X A HX HA HAX). Qed.

  Lemma sdiff_length : length (sdiff X A) = n - r.
  Proof.
    unfold sdiff. pose proof (cnt_neg _ (fun x => mem x A) X) as H.
    pose proof (cnt_mem_length X A HX HA HAX) as H1. unfold cnt in *. unfold smem.
    fold (mem) in *. unfold n, r.
    change (fun x => negb (existsb (String.eqb x) A)) with (fun x => negb (mem x A)). lia.
  Qed.

  Lemma half_lt : forall a b, b <= a -> (Nat.ltb (a / 2) b = negb (Nat.leb b (a - b))).
  Proof.
    intros a b Hb. pose proof (Nat.div_mod a 2 ltac:(lia)) as H.
    pose proof (Nat.mod_upper_bound a 2 ltac:(lia)) as H2.
    destruct (Nat.ltb (a / 2) b) eqn:E1, (Nat.leb b (a - b)) eqn:E2; try reflexivity;
      [apply Nat.ltb_lt in E1; apply Nat.leb_le in E2|apply Nat.ltb_ge in E1; apply Nat.leb_gt in E2]; lia.
  Qed.

  Lemma light_inl : forall x, In x X -> smem x L = inl n r A x.
  Proof.
    intros x Hx. unfold L, light, inl. rewrite sinter_length, sdiff_length.
    rewrite (half_lt n r r_le_n). apply mem_In in Hx.
    destruct (Nat.leb r (n - r)); simpl.
    - unfold sinter. rewrite smem_mem, mem_filter, Hx. reflexivity.
    - unfold sdiff. rewrite smem_mem, mem_filter, Hx. reflexivity.
  Qed.

  Lemma light_length : length L = p.
  Proof.
    unfold L, light. rewrite sinter_length, sdiff_length. pose proof r_le_n.
    destruct (Nat.leb r (n - r)) eqn:E.
    - apply Nat.leb_le in E. rewrite sinter_length. unfold p. lia.
    - apply Nat.leb_gt in E. rewrite sdiff_length. unfold p. lia.
  Qed.

  Lemma light_nodup : NoDup L.
  Proof. unfold L, light. destruct (Nat.leb _ _); apply NoDup_filter; exact HX. Qed.

  Lemma light_incl : incl L X.
  Proof.
    unfold L, light. destruct (Nat.leb _ _); intros x Hx; apply filter_In in Hx; tauto.
  Qed.

  Lemma cnt_inl_X : cnt (inl n r A) X = p.
  Proof.
    rewrite <- light_length. rewrite <- (cnt_mem_length X L HX light_nodup light_incl).
    apply cnt_ext_in. intros x Hx. rewrite <- light_inl by exact Hx. reflexivity.
  Qed.

  (** for a set B of taxa (duplicate-free, within X): the d of the recursion is [tdist] *)
  Lemma dval_tdist : forall B,
      NoDup B -> incl B X ->
      dval n p (length B) (cnt (fun x => negb (inl n r A x)) B) = tdist X L B.
  Proof.
    intros B HB HBX. unfold dval, tdist, symdiff.
    set (o := cnt (fun x => negb (inl n r A x)) B).
    assert (Z : length B - o = cnt (inl n r A) B).
    { pose proof (cnt_neg _ (inl n r A) B). unfold o. lia. }
    assert (S : length (filter (fun x => xorb (smem x L) (smem x B)) X) = p - (length B - o) + o).
    { rewrite Z. unfold o. rewrite <- cnt_inl_X.
      rewrite <- (symdiff_count X B (inl n r A) HX HB HBX).
      apply cnt_ext_in. intros x Hx. rewrite (light_inl x Hx). reflexivity. }
    rewrite S. set (d := p - (length B - o) + o).
    assert (D : d <= n).
    { unfold d. rewrite <- S. apply (cnt_le _ _ X). }
    fold n. rewrite (half_lt n d D).
    destruct (Nat.leb d (n - d)) eqn:E; simpl.
    - apply Nat.leb_le in E. lia.
    - apply Nat.leb_gt in E. lia.
  Qed.

  Lemma tdist_tip : forall x, In x L -> tdist X L [x] <= p - 1.
  Proof.
    intros x Hx.
    assert (HxX : In x X) by (apply light_incl; exact Hx).
    assert (HB : NoDup [x]) by (constructor; [intros []|constructor]).
    assert (HBX : incl [x] X) by (intros y [->|[]]; exact HxX).
    rewrite <- (dval_tdist [x] HB HBX).
    assert (I : inl n r A x = true).
    { rewrite <- (light_inl x HxX). apply mem_In. exact Hx. }
    assert (P : 1 <= p).
    { rewrite <- light_length. destruct L; [contradiction|simpl; lia]. }
    unfold cnt. cbn [filter]. rewrite I. cbn [negb length]. unfold dval.
    replace (p - (1 - 0) + 0) with (p - 1) by lia.
    pose proof (Nat.div_mod n 2 ltac:(lia)) as Hd. pose proof (Nat.mod_upper_bound n 2 ltac:(lia)) as Hm.
    pose proof r_le_n as Hr.
    destruct (Nat.ltb (n / 2) (p - 1)) eqn:E; [apply Nat.ltb_lt in E|lia].
    unfold p in *. lia.
  Qed.
End Distance.

(** a leaf of a tree with branches is below a tip branch *)
Lemma leaf_sub : forall t x,
    In x (leaves t) -> kids t <> [] -> exists c, In c (subs t) /\ leaves c = [x].
Proof.
  induction t as [n cm sl IH] using utree_ind'. intros x Hx K.
  unfold kids in K. cbn [uslots] in K. rewrite (leaves_root _ _ _ K) in Hx.
  apply in_flat_map in Hx. destruct Hx as [s [Hs Hin]].
  destruct s as [[e c]|]; [|contradiction].
  destruct (kids c) eqn:Kc.
  - exists c. split.
    + apply subs_in. exists e, c. split; [exact Hs|left; reflexivity].
    + destruct c as [n' c' sl']. unfold kids in Kc. cbn [uslots] in Kc.
      simpl in Hin. rewrite Kc in Hin. destruct Hin as [->|[]]. simpl. rewrite Kc. reflexivity.
  - rewrite Forall_forall in IH. destruct (IH _ Hs x Hin) as [c' [Hc' Hl]]; [rewrite Kc; discriminate|].
    exists c'. split; [|exact Hl]. apply subs_in. exists e, c. split; [exact Hs|right; exact Hc'].
Qed.

(** * Theorem (i) *)
Section Main.
  Variables (ref boot : utree) (e : einfo) (c : utree).
  Hypothesis Gref : good ref.
  Hypothesis Gboot : good boot.
  Hypothesis Same : forall x, In x (leaves ref) <-> In x (leaves boot).
  Hypothesis Hin : In (e, c) (edges ref).

  Let X := leaves ref.
  Let A := leaves c.

  Lemma c_sub : In c (subs ref).
  Proof. destruct Gref as [W _]. eapply edges_in_subs; eassumption. Qed.

  Lemma c_wf : wf_sub c = true.
  Proof. destruct Gref as [W _]. eapply subs_wf; [exact W|exact c_sub]. Qed.

  Lemma X_nodup : NoDup X. Proof. destruct Gref as [_ [_ N]]. exact N. Qed.
  Lemma A_nodup : NoDup A.
  Proof. destruct Gref as [_ [_ N]]. eapply subs_nodup; [exact N|exact c_sub]. Qed.
  Lemma A_incl : incl A X. Proof. apply subs_incl. exact c_sub. Qed.

  Lemma model_args :
    length (tips ref) = length X /\ ntax_right c = length A /\ below c = A /\
    topo_depth ref c = Nat.min (length X - length A) (length A).
  Proof.
    destruct Gref as [W [D N]].
    assert (E : all_tip_names c = A) by (apply all_tip_names_leaves; exact c_wf).
    repeat split.
    - apply tips_length; assumption.
    - unfold ntax_right. rewrite E. reflexivity.
    - exact E.
    - unfold topo_depth, ntax_left, ntax_right. rewrite E. rewrite (ntax_root_leaves ref W D). reflexivity.
  Qed.

  (** every branch of the bootstrap tree: its d value is the transfer distance *)
  Lemma dv_boot : forall b,
      In b (subs boot) ->
      dv (length X) (Nat.min (length X - length A) (length A)) (length A) A b
      = tdist X (light X A) (leaves b).
  Proof.
    intros b Hb. destruct Gboot as [Wb [Db Nb]].
    assert (Wsub : wf_sub b = true) by (eapply subs_wf; eassumption).
    unfold dv, ones_of, ntax_right. rewrite (all_tip_names_leaves b Wsub).
    apply (dval_tdist X A X_nodup A_nodup A_incl).
    - eapply subs_nodup; eassumption.
    - intros y Hy. apply Same. eapply subs_incl; eassumption.
  Qed.

  Lemma dl_boot_lmin : forall m,
      lmin m (dl (length X) (Nat.min (length X - length A) (length A)) (length A) A boot)
      = lmin m (map (tdist X (light X A)) (clades boot)).
  Proof.
    intros m. destruct Gboot as [Wb [Db Nb]].
    rewrite (lmin_perm m _ _ (dl_perm _ _ _ _ boot
               ltac:(destruct boot as [n' c' sl']; apply wf_inv in Wb; exact (proj2 Wb))
               ltac:(apply Nat.eqb_neq; lia))).
    rewrite clades_subs, map_map. f_equal. apply map_ext_in. intros b Hb. apply dv_boot. exact Hb.
  Qed.

  (** some branch of the bootstrap tree is within p - 1 *)
  Lemma close_branch :
    1 <= Nat.min (length X - length A) (length A) ->
    exists d, In d (map (tdist X (light X A)) (clades boot)) /\
              d <= Nat.min (length X - length A) (length A) - 1.
  Proof.
    intros P. destruct Gboot as [Wb [Db Nb]].
    assert (Ex : exists x, In x (light X A)).
    { pose proof (light_length X A X_nodup A_nodup A_incl) as LL.
      destruct (light X A) as [|x L']; [simpl in LL; lia|]. exists x. left. reflexivity. }
    destruct Ex as [x Hx].
    assert (HxB : In x (leaves boot)).
    { apply Same. apply (light_incl X A). exact Hx. }
    assert (K : kids boot <> []).
    { destruct boot as [n' c' sl']. unfold degree in Db. simpl in Db. unfold kids. simpl.
      eapply root_kids; eassumption. }
    destruct (leaf_sub boot x HxB K) as [b [Hb Hl]].
    exists (tdist X (light X A) [x]). split.
    - rewrite clades_subs, map_map. apply in_map_iff. exists b. split; [rewrite Hl; reflexivity|exact Hb].
    - apply (tdist_tip X A X_nodup A_nodup A_incl). exact Hx.
  Qed.

  Theorem min_transfer_dist_delta :
    1 <= topo_depth ref c ->
    min_transfer_dist (length (tips ref)) (topo_depth ref c) (ntax_right c) (below c) false boot
    = delta X (light X A) boot.
  Proof.
    destruct model_args as [E1 [E2 [E3 E4]]]. rewrite E1, E2, E3, E4. intros P.
    destruct (close_branch P) as [d [Hd Hle]].
    set (p := Nat.min (length X - length A) (length A)) in *.
    assert (Hn : d <= length X).
    { apply in_map_iff in Hd. destruct Hd as [B [<- _]]. unfold tdist. lia. }
    unfold delta. fold (lmin (length X) (map (tdist X (light X A)) (clades boot))).
    destruct (Nat.eq_dec p 1) as [P1|P1].
    - unfold min_transfer_dist. rewrite P1. simpl.
      pose proof (lmin_le_in _ (length X) d Hd). lia.
    - rewrite min_transfer_dist_scan by exact P1. rewrite scan_false. simpl.
      rewrite dl_boot_lmin. apply (lmin_init_irrel _ _ _ d Hd Hle Hn).
  Qed.

  (** with the early stop (absent = true): the same when no bootstrap branch is at distance 0 *)
  Theorem min_transfer_dist_absent_delta :
    2 <= topo_depth ref c ->
    1 <= delta X (light X A) boot ->
    min_transfer_dist (length (tips ref)) (topo_depth ref c) (ntax_right c) (below c) true boot
    = delta X (light X A) boot.
  Proof.
    destruct model_args as [E1 [E2 [E3 E4]]]. rewrite E1, E2, E3, E4. intros P Hd1.
    destruct (close_branch ltac:(lia)) as [d [Hd Hle]].
    set (p := Nat.min (length X - length A) (length A)) in *.
    assert (Hn : d <= length X).
    { apply in_map_iff in Hd. destruct Hd as [B [<- _]]. unfold tdist. lia. }
    unfold delta in *. fold (lmin (length X) (map (tdist X (light X A)) (clades boot))) in *.
    rewrite min_transfer_dist_scan by lia.
    destruct Gboot as [Wb [Db Nb]].
    pose proof (dl_perm (length X) p (length A) A boot
               ltac:(destruct boot as [n' c' sl']; apply wf_inv in Wb; exact (proj2 Wb))
               ltac:(apply Nat.eqb_neq; lia)) as Perm.
    assert (All : Forall (fun d => 1 <= d) (map (tdist X (light X A)) (clades boot))).
    { apply Forall_forall. intros y Hy. pose proof (lmin_le_in _ (length X) y Hy). lia. }
    assert (All' : Forall (fun d => 1 <= d) (dl (length X) p (length A) A boot)).
    { apply Forall_forall. intros y Hy.
      apply (Permutation_in _ Perm) in Hy. apply in_map_iff in Hy. destruct Hy as [b [<- Hb]].
      unfold p. rewrite (dv_boot b Hb). rewrite Forall_forall in All. apply All.
      rewrite clades_subs, map_map. apply in_map_iff. exists b. split; [reflexivity|exact Hb]. }
    rewrite scan_true by (try exact All'; lia).
    rewrite dl_boot_lmin. apply (lmin_init_irrel _ _ _ d Hd Hle Hn).
  Qed.
End Main.
