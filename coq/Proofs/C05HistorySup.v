(** C05, histories with supports: along any history of the six operations the supports of the
    internal splits are kept too ("supports of untouched branches kept"): every bipartition is
    looked up in [usplits] with the same length and, when it is internal, the same support, and
    the clause [supports_kept] of the judge's oracle accepts the last tree against the first.
    Invariant added to the one of Proofs/C05History.v: every support is absent or >= 0
    ([good_sup], as for UnRoot alone in C05_unroot_usplits_sup). *)
From Coq Require Import String ZArith QArith Bool Arith Lia Lqa List Permutation Setoid Morphisms.
From GT Require Import Base.UTree Spec.Obs Model.Reroot Model.Outgroup Model.History Spec.Unrooted
     Judge.Common Judge.C05
     Proofs.RerootBase Proofs.Reroot Proofs.Reorder Proofs.Unroot Proofs.Splits Proofs.USplits Proofs.C05Main
     Proofs.OutgroupBase Proofs.OutgroupCut Proofs.OutgroupKeep Proofs.OutgroupLCA Proofs.OutgroupClade
     Proofs.OutgroupMain Proofs.OutgroupSide Proofs.OutgroupRemove Proofs.OutgroupMidpoint
     Proofs.OutgroupMidDist Proofs.OutgroupMlp Proofs.OutgroupHalf Proofs.OutgroupSplits
     Proofs.OutgroupSplitsMain Proofs.OutgroupWitness Proofs.OracleC05 Proofs.OracleMid Proofs.OracleSup
     Proofs.C05History.
Import ListNotations.
Local Close Scope Q_scope.
Local Arguments n_up : simpl never.

(** * a predicate on the data of every branch *)
Definition edges_all (Q : einfo -> Prop) (t : utree) : Prop :=
  forall x, In x (bsplits t) -> Q (fst (fst x)).

Lemma edges_of_equiv (Q : einfo -> Prop) L t t' : splits_equiv L (bsplits t') (bsplits t) -> edges_all Q t -> edges_all Q t'.
Proof.
  intros SE H z Hz.
  destruct (PermR_In _ _ (bs_eq_Equivalence L) _ _ SE _ Hz) as [y [Hy [E _]]].
  rewrite E. now apply H.
Qed.

Lemma edges_tperm (Q : einfo -> Prop) t t' : tperm t t' -> edges_all Q t -> edges_all Q t'.
Proof. intros H. apply (edges_of_equiv Q (leaves t)). now apply tperm_splits_equiv. Qed.

Lemma unroot_edges (Q : einfo -> Prop) t :
  wf t = true -> (forall e1 e2 b1 b2, Q (merged_edge e1 e2 b1 b2)) ->
  edges_all Q t -> edges_all Q (unroot t).
Proof.
  intros Hwf Hm H x Hx. destruct (rooted t) eqn:Hr; [|rewrite (unroot_not_rooted t Hr) in Hx; auto].
  destruct (rooted_shape t Hwf Hr) as (n0&c0&e1&n1&c1&sl1&e2&n2&c2&sl2&->).
  pose proof (unroot_bsplits n0 c0 e1 n1 c1 sl1 e2 n2 c2 sl2) as BU. cbv zeta in BU.
  apply (Permutation_in _ BU) in Hx. destruct Hx as [<-|Hx]; [apply Hm|].
  apply H. rewrite rooted_bsplits. right.
  apply in_app_or in Hx as [Hx|Hx]; apply in_or_app; [left; auto|right; right; auto].
Qed.

Theorem outgroup_edges (Q : einfo -> Prop) strict t names t' :
  wf t = true -> 2 <= degree t -> (rooted t = true -> root_has_inner_child t = true) ->
  NoDup (leaves t) -> (forall e, Q e -> Q (half_edge e)) -> edges_all Q (unroot t) ->
  reroot_outgroup false strict t names = Ok t' -> edges_all Q t'.
Proof.
  intros Hwf Hd Hi HND Qh Hnn H.
  destruct (reroot_outgroup_keep_inv _ _ _ _ H)
    as (q&lf&v&p&es&diff&pp&ks&lower&P&e&_&_&Hf&Hv&_&_&_&_&HP&He&Hc).
  apply find_some in Hf as [Hq _].
  destruct (setting_facts t names Hwf Hd Hi HND q lf v Hq Hv) as (W1&D1&L1&W2&D2&L2&ND2&_&_&SE).
  unfold edge_at in He.
  destruct (nth_error (uslots P) ks) as [[[e' ch]|]|] eqn:Ek; try discriminate.
  inversion He; subst e'.
  destruct (view_edge_in t names Hwf Hd Hi HND q lf v pp P ks e ch Hq Hv HP Ek) as [L [b Hin]].
  assert (He0 : Q e) by (apply (Hnn _ Hin)).
  intros z Hz.
  apply (cut_and_root_edges Q (tv_tree v) pp ks
           (is_prefix (pp ++ [ks]) (tv_root v)) (half_edge e) (half_edge e) P e ch t'
           W2 D2 HP Ek Hc); auto.
  intros x Hx.
  destruct (PermR_In _ _ (bs_eq_Equivalence (leaves (unroot t))) _ _ SE _ Hx) as [y [Hy [E1 _]]].
  rewrite E1. now apply Hnn.
Qed.

(** midpoint rooting: the two new root branches carry the support of the branch that is cut *)
Theorem midpoint_edges (Q : einfo -> Prop) t t' :
  wf t = true -> 2 <= degree t -> (rooted t = true -> root_has_inner_child t = true) ->
  NoDup (leaves t) ->
  (forall x, In x (bsplits (unroot t)) -> (0 <= elen (fst (fst x)))%Q) ->
  (forall e c, Q e -> Q (mkE c (esup e) nilv [])) ->
  (forall x, In x (bsplits (unroot t)) -> Q (fst (fst x))) ->
  reroot_midpoint t = Ok t' ->
  forall z, In z (bsplits t') -> Q (fst (fst z)).
Proof.
  intros Hwf Hd Hi HND Hnn Qcl QQ H z Hz.
  destruct (unroot_stage t Hwf Hd Hi) as [_ [D0 _]].
  destruct (reroot_midpoint_scan _ _ D0 H) as (q&lf&v&pA&cur&ea0&Hin&Hv&Hm&Hcur&_&He&Hres).
  destruct (setting_facts t [] Hwf Hd Hi HND q lf v Hin Hv) as (W1&D1&L1&W2'&D2'&L2'&ND2'&_&_&SE).
  assert (ND1 : NoDup (leaves (unroot t))) by (now rewrite L1).
  pose proof Hin as Hin'. apply tip_paths_In in Hin' as [Hnq _].
  (* every branch of the view is not negative *)
  assert (NN2 : forall e L b, In (e, L, b) (bsplits (tv_tree v)) -> (0 <= elen e)%Q).
  { intros e L b Hin2.
    destruct (PermR_In _ _ (bs_eq_Equivalence (leaves (unroot t))) _ _ SE _ Hin2) as [[[e' X'] b'] [Hy [E1 _]]].
    simpl in E1. subst e'. exact (Hnn _ Hy). }
  assert (QQ2 : forall e L b, In (e, L, b) (bsplits (tv_tree v)) -> Q e).
  { intros e L b Hin2.
    destruct (PermR_In _ _ (bs_eq_Equivalence (leaves (unroot t))) _ _ SE _ Hin2) as [[[e' X'] b'] [Hy [E1 _]]].
    simpl in E1. subst e'. exact (QQ _ Hy). }
  destruct (view_shape _ _ _ _ _ _ W1 D1 Hin Hv Hm)
    as (n&c&sl&ea&l0&E2&Hj&Klf&Emlp&Ecur&Kmask&W2&D2&L2&P2).
  assert (ea0 = ea).
  { unfold edge_at in He. rewrite E2 in He. simpl uslots in He. rewrite Hj in He. congruence. }
  subst ea0. rewrite E2 in *.
  set (j := tv_slot v) in *. set (t2 := UNode n c sl) in *.
  destruct (mlp_leaf _ _ _ Emlp) as [[K0 _]|[_ [HpA [b [HbA Kb]]]]]; [contradiction|].
  destruct (mlp_spec _ _ _ Emlp) as [Hl0 _].
  rewrite (path_edges_masked n c sl j pA b HbA) in Hl0. fold t2 in Hl0.
  assert (Hb : node_at t2 pA = Some b) by (apply (node_at_masked n c sl j pA b HpA HbA)).
  set (PE := path_edges t2 pA) in *.
  assert (LPE : length PE = length pA) by (unfold PE; eapply path_edges_length; eauto).
  assert (NS : is_prefix pA (tv_root v) = false).
  { apply (not_stale (unroot t) q lf v pA b W1 D1 Hnq Hv HpA); [rewrite E2; exact Hb | exact Kb]. }
  unfold mp_result in Hres. cbv zeta in Hres. rewrite E2, NS in Hres. fold j t2 PE in Hres.
  set (m := length pA) in *.
  set (half := qhalf cur) in *.
  assert (Hhalf : (0 < half)%Q) by (unfold half, qhalf; lra).
  set (pe := rev PE ++ [ea]) in *.
  (* the branches of the path are not negative and add up to cur *)
  assert (Hea : (0 <= elen ea)%Q).
  { apply (NN2 ea (leaves lf) (isleaf lf)). apply (node_at_bsplits [] t2 t2 j ea lf eq_refl Hj). }
  assert (NNpe : Forall (fun x => (0 <= x)%Q) (map elen pe)).
  { unfold pe. rewrite map_app. apply Forall_app. split; [|constructor; [exact Hea|constructor]].
    rewrite map_rev. apply Forall_rev. apply Forall_forall. intros x Hx.
    apply in_map_iff in Hx as [e [<- He']].
    pose proof (path_edges_in pA t2 b Hb) as F. rewrite Forall_forall in F.
    destruct (F _ He') as (L & bb & Hin2). eapply NN2; eauto. }
  assert (Htot : (qsum (map elen pe) == cur)%Q).
  { unfold pe. rewrite map_app, qsum_app, map_rev, qsum_rev. simpl. rewrite Ecur, Hl0. ring. }
  destruct (walk half (map elen pe) 0 0%Q) as [i len] eqn:Ew.
  destruct (walk_stop half (map elen pe) NNpe 0 0%Q i len Ew Hhalf)
    as (pre & x & post & Els & Ei & Hlo & Hhi & Hlen).
  { rewrite Htot. unfold half, qhalf. lra. }
  simpl in Ei.
  assert (Ex : elen (nth (i - 1) pe e0) = x).
  { rewrite <- (map_nth elen pe e0 (i - 1)), Els. replace (i - 1) with (length pre) by lia.
    rewrite app_nth2 by lia. now rewrite Nat.sub_diag. }
  set (ce := nth (i - 1) pe e0) in *.
  set (cut := (len - half)%Q) in *.
  assert (Hc0 : (0 <= cut)%Q) by (unfold cut; lra).
  assert (Hc1 : (0 <= elen ce - cut)%Q) by (rewrite Ex; unfold cut; lra).
  assert (Hi' : i <= m + 1).
  { apply walk_le in Ew. rewrite map_length in Ew. unfold pe in Ew.
    rewrite app_length, rev_length, LPE in Ew. simpl in Ew. fold m in Ew. lia. }
  destruct (Nat.ltb (i - 1) m) eqn:Elt.
  - apply Nat.ltb_lt in Elt.
    set (d := m - (i - 1)) in *.
    assert (Hd1 : d - 1 < length pA) by (fold m; unfold d; lia).
    destruct (path_edges_nth pA t2 b (d - 1) Hb Hd1) as [P [ch [HP HK]]].
    fold PE in HK.
    assert (Ece : ce = nth (d - 1) PE e0).
    { unfold ce, pe. rewrite app_nth1 by (rewrite rev_length; lia). rewrite rev_nth by lia.
      f_equal. unfold d. lia. }
    rewrite <- Ece in HK.
    assert (Qce : Q ce).
    { apply (QQ2 ce (leaves ch) (isleaf ch)).
      apply (node_at_bsplits (firstn (d - 1) pA) t2 P (nth (d - 1) pA 0) ce ch HP HK). }
    apply (cut_and_root_edges Q t2 (firstn (d - 1) pA) (nth (d - 1) pA 0) true
              (mkE cut (esup ce) nilv []) (mkE (elen ce - cut) (esup ce) nilv []) P ce ch t'
              W2 D2 HP HK Hres); auto.
    intros [[e0' L0'] b0'] Hin0. cbn [fst]. eapply QQ2; eauto.
  - apply Nat.ltb_ge in Elt. assert (Ei' : i - 1 = m) by lia.
    assert (Ece : ce = ea).
    { unfold ce, pe. rewrite Ei', app_nth2 by (rewrite rev_length; lia).
      rewrite rev_length, LPE. fold m. rewrite Nat.sub_diag. reflexivity. }
    rewrite Ece in *.
    assert (Qea : Q ea).
    { apply (QQ2 ea (leaves lf) (isleaf lf)). apply (node_at_bsplits [] t2 t2 j ea lf eq_refl Hj). }
    apply (cut_and_root_edges Q t2 [] j false
              (mkE (elen ea - cut) (esup ea) nilv []) (mkE cut (esup ea) nilv []) t2 ea lf t'
              W2 D2 eq_refl Hj Hres); auto.
    intros [[e0' L0'] b0'] Hin0. cbn [fst]. eapply QQ2; eauto.
Qed.

(** * supports absent or not negative *)
Definition sups (t : utree) : Prop := edges_all good_sup t.

Lemma good_sup_qeq e e' : (esup e == esup e')%Q -> good_sup e -> good_sup e'.
Proof.
  intros E [H|H]; [left|right].
  - now rewrite <- (isnil_proper _ _ E).
  - now rewrite <- E.
Qed.

Lemma good_sup_merged e1 e2 b1 b2 : good_sup (merged_edge e1 e2 b1 b2).
Proof.
  unfold good_sup, merged_edge. cbn [esup].
  destruct (negb b1 && negb b2 && (negb (qeqb (esup e1) nilv) || negb (qeqb (esup e2) nilv))).
  - right. qmax_split; lra.
  - left. reflexivity.
Qed.

Lemma good_sup_half e : good_sup e -> good_sup (half_edge e).
Proof. apply good_sup_qeq. symmetry. apply half_edge_sup. Qed.

Lemma good_sup_mk e c : good_sup e -> good_sup (mkE c (esup e) nilv []).
Proof. intros H. exact H. Qed.

Lemma kids_in_bsplits t p : In p (kids t) -> In (fst p, leaves (snd p), isleaf (snd p)) (bsplits t).
Proof.
  destruct t as [n c sl]. unfold kids. simpl uslots. intros H.
  rewrite bsplits_unfold. unfold kbs. apply in_flat_map. exists p. split; auto. now left.
Qed.

Definition sup_rel (n : nat) (t t' : utree) : Prop :=
  forall k, orel (split_seq n) (find_split k (usplits t')) (find_split k (usplits t)).

Lemma sup_rel_refl n t : sup_rel n t t.
Proof. intros k. apply orel_refl. apply split_seq_refl. Qed.

Lemma sup_rel_trans n a b c : sup_rel n a b -> sup_rel n b c -> sup_rel n a c.
Proof. intros H1 H2 k. eapply orel_trans; [apply split_seq_trans|apply H2|apply H1]. Qed.

Lemma sup_rel_of_qeq n t t' :
  (forall k, orel split_qeq (find_split k (usplits t')) (find_split k (usplits t))) -> sup_rel n t t'.
Proof. intros H k. eapply orel_mono; [apply split_qeq_seq|apply H]. Qed.

(** UnRoot as a step *)
Lemma unroot_sup_rel t :
  inv t -> sups t -> sup_rel (length (tipset t)) t (unroot t).
Proof.
  intros I S. pose proof I as (W & D & ND & L3). destruct (rooted t) eqn:R.
  - intros k. apply unroot_usplits_sup; auto.
    + now apply inv_inner.
    + intros p Hp. apply (S _ (kids_in_bsplits t p Hp)).
  - rewrite (unroot_not_rooted t R). apply sup_rel_refl.
Qed.

(** * one step *)
Theorem c05_step_sup o t t' :
  inv t -> sups t -> c05_op o -> basic_op o \/ lens t -> run_op o t = Ok t' ->
  sups t' /\ sup_rel (length (tipset t)) t t'.
Proof.
  intros I S Ho Hl H. pose proof I as (W & D & ND & L3).
  pose proof (inv_inner t I) as Hi.
  destruct o; simpl in Ho; try contradiction; simpl in H.
  - destruct (reroot_all t i t' W D H) as (W' & D' & L & _ & P & SE & _). split.
    + exact (edges_of_equiv good_sup (leaves t) t t' SE S).
    + apply sup_rel_of_qeq. intros k. eapply reroot_usplits; eauto.
  - inversion H; subst t'. split.
    + apply unroot_edges; auto. apply good_sup_merged.
    + now apply unroot_sup_rel.
  - subst remove. destruct (Nat.ltb (length (tips t)) 3); [discriminate|].
    assert (Hl' : lens t) by (destruct Hl as [[]|Hl]; exact Hl).
    assert (Hu : lens (unroot t)) by exact (unroot_nonneg t W Hl').
    assert (Su : sups (unroot t)) by (apply unroot_edges; auto; apply good_sup_merged).
    split.
    + exact (outgroup_edges good_sup strict t names t' W D Hi ND good_sup_half Su H).
    + eapply sup_rel_trans; [now apply unroot_sup_rel|]. apply sup_rel_of_qeq.
      apply (outgroup_usplits strict t names t' W D Hi ND); auto. intros x Hx. right. now apply Hu.
  - assert (Hl' : lens t) by (destruct Hl as [[]|Hl]; exact Hl).
    assert (Hu : lens (unroot t)) by exact (unroot_nonneg t W Hl').
    assert (Su : sups (unroot t)) by (apply unroot_edges; auto; apply good_sup_merged).
    split.
    + exact (midpoint_edges good_sup t t' W D Hi ND Hu good_sup_mk Su H).
    + eapply sup_rel_trans; [now apply unroot_sup_rel|]. apply sup_rel_of_qeq.
      exact (midpoint_usplits t t' W D Hi ND Hu H).
  - inversion H; subst t'. pose proof (rotate_all_tperm t cs) as T. split.
    + exact (edges_tperm good_sup t _ T S).
    + apply sup_rel_of_qeq. now apply tperm_usplits.
  - inversion H; subst t'. pose proof (sort_by_tips_tperm t) as T. split.
    + exact (edges_tperm good_sup t _ T S).
    + apply sup_rel_of_qeq. now apply tperm_usplits.
Qed.

(** * histories *)
Theorem c05_history_sup_inv ops : forall t0 t,
  inv t0 -> sups t0 ->
  Forall (fun s => c05_op (snd s)) ops ->
  Forall (fun s => basic_op (snd s)) ops \/ lens t0 ->
  run ops t0 = Ok t ->
  sups t /\ sup_rel (length (tipset t0)) t0 t.
Proof.
  induction ops as [|s r IH]; intros t0 t I S Fo Hl H; simpl in H.
  - inversion H; subst. split; auto. apply sup_rel_refl.
  - destruct (run_step s t0) as [t1|m] eqn:E; [|discriminate].
    apply run_step_op in E. inversion Fo as [|? ? Ho Fo']; subst.
    assert (Hl1 : basic_op (snd s) \/ lens t0).
    { destruct Hl as [Hb|Hl]; [left; now inversion Hb|right; exact Hl]. }
    destruct (c05_step _ _ _ I Ho Hl1 E) as (I1 & (L1 & _) & N1).
    destruct (c05_step_sup _ _ _ I S Ho Hl1 E) as (S1 & R1).
    assert (Hlr : Forall (fun s => basic_op (snd s)) r \/ lens t1).
    { destruct Hl as [Hb|Hl]; [left; now inversion Hb|right; now apply N1]. }
    destruct (IH t1 t I1 S1 Fo' Hlr H) as (S2 & R2).
    split; auto.
    assert (ET : tipset t1 = tipset t0) by (unfold tipset; now apply sset_perm).
    rewrite ET in R2. eapply sup_rel_trans; eauto.
Qed.

(** the clause "the support of an untouched branch changed" of the judge's oracle never fires
    between the first and the last tree of a history *)
Theorem c05_history_supports ops t0 t :
  wf t0 = true -> 2 <= degree t0 -> NoDup (leaves t0) -> 3 <= length (leaves t0) ->
  (forall x, In x (bsplits t0) -> good_sup (fst (fst x))) ->
  Forall (fun s => c05_op (snd s)) ops ->
  Forall (fun s => basic_op (snd s)) ops \/
  (forall x, In x (bsplits t0) -> (0 <= elen (fst (fst x)))%Q) ->
  run ops t0 = Ok t ->
  (forall x, In x (bsplits t) -> good_sup (fst (fst x))) /\
  (forall k, orel (split_seq (length (tipset t0))) (find_split k (usplits t)) (find_split k (usplits t0))) /\
  supports_kept t0 t = true.
Proof.
  intros W D ND L3 S Fo Hl H.
  destruct (c05_history_sup_inv ops t0 t (conj W (conj D (conj ND L3))) S Fo Hl H) as (S' & R).
  repeat split; auto. now apply supports_kept_of_lookup.
Qed.

(** the example history of Proofs/C05History.v starts from a tree whose supports are all absent;
    here one with supports on its internal branches *)
Local Open Scope string_scope.
Definition Es' (l s : Q) : einfo := mkE l s nilv [].
Definition c05_sup_tree : utree :=
  UNode "r" []
    [Some (E (1#2)%Q, tip "a");
     Some (Es' (3#4)%Q (9#10)%Q, UNode "x" [] [Some (E 1%Q, tip "b"); None; Some (E (1#4)%Q, tip "c");
                                              Some (E 2%Q, tip "d")]);
     Some (Es' (5#4)%Q (1#2)%Q, UNode "y" [] [None; Some (E (1#8)%Q, tip "e");
                                             Some (Es' (7#8)%Q (3#4)%Q, UNode "z" [] [Some (E 1%Q, tip "f");
                                                                                    Some (E 3%Q, tip "g"); None])])].

Lemma c05_history_sup_example :
  wf c05_sup_tree = true /\ 2 <= degree c05_sup_tree /\ NoDup (leaves c05_sup_tree) /\
  3 <= length (leaves c05_sup_tree) /\
  (forall x, In x (bsplits c05_sup_tree) -> good_sup (fst (fst x))) /\
  (forall x, In x (bsplits c05_sup_tree) -> (0 <= elen (fst (fst x)))%Q) /\
  exists t, run c05_history_ops c05_sup_tree = Ok t /\ utree_eqb t c05_sup_tree = false /\
            map (fun s => (sside s, Qred (ssup s))) (filter (nontrivial_split 7) (usplits t)) =
            [(["f"; "g"], (3#4)%Q); (["e"; "f"; "g"], (1#2)%Q); (["b"; "c"; "d"], (9#10)%Q)].
Proof.
  split; [vm_compute; reflexivity|]. split; [vm_compute; lia|].
  split.
  { vm_compute. repeat (constructor; [simpl; intuition discriminate|]). constructor. }
  split; [vm_compute; lia|].
  split.
  { intros x Hx. vm_compute in Hx.
    repeat (destruct Hx as [<-|Hx]; [first [left; vm_compute; reflexivity | right; vm_compute; discriminate]|]).
    destruct Hx. }
  split.
  { intros x Hx. vm_compute in Hx.
    repeat (destruct Hx as [<-|Hx]; [vm_compute; discriminate|]). destruct Hx. }
  eexists. split; [vm_compute; reflexivity|]. split; vm_compute; reflexivity.
Qed.
