(** The word-level model of the bitset package (Model/BitsetWords.v) agrees with the [list bool]
    model used in Model/Index.v, for every length: New, Set (in range), Test, ClearAll, None,
    Equal, ComplementTest (with the masking of the last word), EqualOrComplement. *)
From Coq Require Import NArith Bool Arith Lia List.
From GT Require Import Base.UTree Model.Index Model.BitsetWords Proofs.IndexBase Proofs.IndexSplit.
Import ListNotations.

Definition W := 18446744073709551616%N.

(** * positions *)
Lemma divmod64 : forall p k, k < 64 -> (64 * p + k) / 64 = p /\ (64 * p + k) mod 64 = k.
Proof.
  intros p k H. split.
  - symmetry. apply (Nat.div_unique (64 * p + k) 64 p k); auto.
  - symmetry. apply (Nat.mod_unique (64 * p + k) 64 p k); auto.
Qed.

Lemma pos_split : forall i, exists p k, k < 64 /\ i = 64 * p + k /\ i / 64 = p /\ i mod 64 = k.
Proof.
  intros i. exists (i / 64), (i mod 64).
  pose proof (Nat.mod_upper_bound i 64). pose proof (Nat.div_mod i 64). repeat split; lia.
Qed.

Lemma words_needed_spec : forall q r, r < 64 -> words_needed (64 * q + r) = if Nat.eqb r 0 then q else S q.
Proof.
  intros q r H. unfold words_needed. destruct (Nat.eqb_spec r 0).
  - subst. symmetry. apply (Nat.div_unique _ 64 q 63); lia.
  - symmetry. apply (Nat.div_unique _ 64 (S q) (r - 1)); lia.
Qed.

(** * words *)
Lemma testbit_high : forall x n, (x < W)%N -> (64 <= n)%N -> N.testbit x n = false.
Proof.
  intros x n Hx Hn. destruct (N.eq_dec x 0) as [->|Hz]; [apply N.bits_0|].
  apply N.bits_above_log2. apply N.lt_le_trans with 64%N; auto.
  apply N.log2_lt_pow2; [lia | exact Hx].
Qed.

Lemma word_ext : forall x y, (x < W)%N -> (y < W)%N ->
    (forall k, k < 64 -> N.testbit x (N.of_nat k) = N.testbit y (N.of_nat k)) -> x = y.
Proof.
  intros x y Hx Hy H. apply N.bits_inj. intros n.
  destruct (N.lt_ge_cases n 64).
  - rewrite <- (N2Nat.id n). apply H. lia.
  - rewrite !testbit_high; auto.
Qed.

Definition bounded (s : list N) : Prop := Forall (fun w => (w < W)%N) s.

Lemma nth_bounded : forall s p, bounded s -> (nth p s 0 < W)%N.
Proof.
  intros s p B. destruct (Nat.lt_ge_cases p (length s)).
  - unfold bounded in B. rewrite Forall_forall in B. apply B. now apply nth_In.
  - rewrite nth_overflow by auto. reflexivity.
Qed.

Lemma w_bit_pos : forall s p k, k < 64 -> w_bit s (64 * p + k) = N.testbit (nth p s 0%N) (N.of_nat k).
Proof. intros s p k H. unfold w_bit. destruct (divmod64 p k H) as [-> ->]. reflexivity. Qed.

Lemma w_bit_beyond : forall s i, 64 * length s <= i -> w_bit s i = false.
Proof.
  intros s i H. unfold w_bit. rewrite nth_overflow; [apply N.bits_0|].
  destruct (pos_split i) as (p & k & Hk & -> & -> & _). lia.
Qed.

(** two bounded word lists of the same length are equal iff they have the same bits *)
Lemma words_ext : forall s1 s2, bounded s1 -> bounded s2 -> length s1 = length s2 ->
    (forall i, w_bit s1 i = w_bit s2 i) -> s1 = s2.
Proof.
  intros s1 s2 B1 B2 HL H. apply (nth_ext s1 s2 0%N 0%N HL). intros p Hp.
  apply word_ext; try now apply nth_bounded.
  intros k Hk. rewrite <- !w_bit_pos by auto. apply H.
Qed.

(** * the comparison loop *)
Lemma words_cmp_spec : forall f bs cs p,
    p + length bs = length cs ->
    words_cmp f p bs cs = Some (forallb (fun x => x) (map (fun j => N.eqb (nth (p + j) cs 0%N) (f (p + j) (nth j bs 0%N))) (seq 0 (length bs)))).
Proof.
  induction bs as [|v r IH]; intros cs p HL; [reflexivity|].
  simpl length in *. simpl words_cmp.
  destruct (nth_error cs p) as [c|] eqn:E; [|apply nth_error_None in E; lia].
  rewrite (nth_error_nth _ _ 0%N E) at 1 || idtac.
  simpl seq. simpl map. simpl forallb. rewrite Nat.add_0_r.
  rewrite (nth_error_nth cs p 0%N E).
  destruct (N.eqb c (f p v)); simpl; [|reflexivity].
  rewrite IH by lia. f_equal. f_equal.
  rewrite <- seq_shift, map_map. apply map_ext. intros j.
  now rewrite <- Nat.add_succ_comm.
Qed.

Lemma forallb_id_map : forall (g : nat -> bool) n,
    forallb (fun x => x) (map g (seq 0 n)) = true <-> (forall j, j < n -> g j = true).
Proof.
  intros g n. rewrite forallb_forall. split.
  - intros H j Hj. apply H. apply in_map_iff. exists j. split; auto. apply in_seq. lia.
  - intros H x Hx. apply in_map_iff in Hx. destruct Hx as (j & <- & Hj). apply in_seq in Hj. apply H. lia.
Qed.

(** for lists of the same length: the loop answers true iff the expected words are the words of [cs] *)
Lemma words_cmp_true : forall f bs cs,
    length bs = length cs ->
    exists b, words_cmp f 0 bs cs = Some b /\
              (b = true <-> forall j, j < length bs -> nth j cs 0%N = f j (nth j bs 0%N)).
Proof.
  intros f bs cs HL. rewrite words_cmp_spec by (simpl; auto). eexists. split; [reflexivity|].
  rewrite forallb_id_map. simpl. split; intros H j Hj; specialize (H j Hj); now apply N.eqb_eq.
Qed.

(** * representation invariant: as many words as needed, words below 2^64, no bit set beyond
    the length (what New, Set in range and ClearAll guarantee) *)
Record wb_ok (b : wbits) : Prop := mkOk {
  ok_len : length (wb_set b) = words_needed (wb_len b);
  ok_bnd : bounded (wb_set b);
  ok_junk : forall i, wb_len b <= i -> w_bit (wb_set b) i = false }.

Lemma nth_map_seq : forall A (f : nat -> A) n i d, i < n -> nth i (map f (seq 0 n)) d = f i.
Proof.
  intros A f n i d H. rewrite (nth_indep _ d (f 0)) by (rewrite map_length, seq_length; auto).
  rewrite map_nth. now rewrite seq_nth.
Qed.

Lemma to_bits_length : forall b, length (to_bits b) = wb_len b.
Proof. intros. unfold to_bits. now rewrite map_length, seq_length. Qed.

Lemma to_bits_test : forall b i,
    test_bit (to_bits b) i = if Nat.ltb i (wb_len b) then w_bit (wb_set b) i else false.
Proof.
  intros b i. unfold test_bit. destruct (Nat.ltb_spec i (wb_len b)).
  - unfold to_bits. now apply nth_map_seq.
  - apply nth_overflow. now rewrite to_bits_length.
Qed.

Lemma words_needed_ge : forall n, n <= 64 * words_needed n.
Proof.
  intros n. destruct (pos_split n) as (q & r & Hr & -> & _).
  rewrite words_needed_spec by auto. destruct (Nat.eqb_spec r 0); lia.
Qed.

Lemma word_index_lt : forall n i, i < n -> i / 64 < words_needed n.
Proof.
  intros n i H. destruct (pos_split n) as (q & r & Hr & -> & _).
  destruct (pos_split i) as (p & k & Hk & -> & -> & _).
  rewrite words_needed_spec by auto. destruct (Nat.eqb_spec r 0); lia.
Qed.

Lemma bits_eq_of_test : forall a b : list bool,
    length a = length b -> (forall i, test_bit a i = test_bit b i) -> a = b.
Proof. intros. apply list_ext_test; auto. Qed.

(** ** New *)
Lemma nth_repeat0 : forall k p, nth p (repeat 0%N k) 0%N = 0%N.
Proof. induction k; destruct p; simpl; auto. Qed.

Theorem w_new_ok : forall n, wb_ok (w_new n) /\ to_bits (w_new n) = bits_new n.
Proof.
  intros n.
  assert (Z : forall i, w_bit (repeat 0%N (words_needed n)) i = false).
  { intros. unfold w_bit. rewrite nth_repeat0. apply N.bits_0. }
  split.
  - constructor; simpl.
    + apply repeat_length.
    + unfold bounded. apply Forall_forall. intros x Hx. apply repeat_spec in Hx. subst. reflexivity.
    + intros. apply Z.
  - apply bits_eq_of_test.
    + rewrite to_bits_length. unfold bits_new. now rewrite repeat_length.
    + intros i. rewrite to_bits_test, test_bit_new. simpl. rewrite Z. now destruct (Nat.ltb i n).
Qed.

Lemma nth_map_zero : forall (l : list N) p, nth p (map (fun _ => 0%N) l) 0%N = 0%N.
Proof. induction l; destruct p; simpl; auto. Qed.

(** ** ClearAll *)
Theorem w_clear_all_ok : forall b, wb_ok b -> wb_ok (w_clear_all b) /\ to_bits (w_clear_all b) = bits_new (wb_len b).
Proof.
  intros b O.
  assert (Z : forall i, w_bit (map (fun _ => 0%N) (wb_set b)) i = false).
  { intros. unfold w_bit.
    rewrite nth_map_zero. apply N.bits_0. }
  split.
  - constructor; simpl.
    + rewrite map_length. apply (ok_len _ O).
    + unfold bounded. apply Forall_forall. intros x Hx. apply in_map_iff in Hx. destruct Hx as (? & <- & _). reflexivity.
    + intros. apply Z.
  - apply bits_eq_of_test.
    + rewrite to_bits_length. unfold bits_new. now rewrite repeat_length.
    + intros i. rewrite to_bits_test, test_bit_new. simpl. rewrite Z. now destruct (Nat.ltb i (wb_len b)).
Qed.

(** ** Test *)
Theorem w_test_spec : forall b i, wb_ok b -> w_test b i = Some (test_bit (to_bits b) i).
Proof.
  intros b i O. unfold w_test. rewrite to_bits_test.
  destruct (Nat.leb_spec (wb_len b) i) as [H|H].
  - destruct (Nat.ltb_spec i (wb_len b)); [lia | reflexivity].
  - destruct (Nat.ltb_spec i (wb_len b)); [|lia].
    pose proof (word_index_lt _ _ H) as Hp. rewrite <- (ok_len _ O) in Hp.
    destruct (nth_error (wb_set b) (i / 64)) eqn:E; [|apply nth_error_None in E; lia].
    unfold w_bit. now rewrite (nth_error_nth _ _ 0%N E).
Qed.

(** ** Set, in range *)
Lemma upd_word_spec : forall p f l, p < length l ->
    exists l', upd_word p f l = Some l' /\ length l' = length l /\
               forall q, nth q l' 0%N = if Nat.eqb q p then f (nth p l 0%N) else nth q l 0%N.
Proof.
  induction p; destruct l as [|w r]; simpl; intros H; try lia.
  - eexists. split; [reflexivity|]. split; auto. intros [|q]; reflexivity.
  - destruct (IHp f r) as (r' & -> & HL & Hn); [lia|].
    eexists. split; [reflexivity|]. split; [simpl; lia|]. intros [|q]; simpl; auto.
Qed.

Lemma lor_pow2_bound : forall w k, (w < W)%N -> k < 64 -> (N.lor w (N.shiftl 1 (N.of_nat k)) < W)%N.
Proof.
  intros w k Hw Hk. rewrite N.shiftl_1_l.
  assert (N.lor w (2 ^ N.of_nat k) <> 0)%N.
  { intro E. apply N.lor_eq_0_iff in E. destruct E as [_ E]. apply N.pow_nonzero in E; auto. discriminate. }
  change W with (2 ^ 64)%N. apply N.log2_lt_pow2; [lia|]. rewrite N.log2_lor. rewrite N.log2_pow2 by lia.
  apply N.max_lub_lt; [|lia].
  destruct (N.eq_dec w 0) as [->|Hz]; [reflexivity|]. apply N.log2_lt_pow2; [lia | exact Hw].
Qed.

Theorem w_set_spec : forall b i, wb_ok b -> i < wb_len b ->
    exists b', w_set b i = Some b' /\ wb_ok b' /\ to_bits b' = set_bit i (to_bits b).
Proof.
  intros b i O Hi. unfold w_set.
  pose proof (word_index_lt _ _ Hi) as Hp. rewrite <- (ok_len _ O) in Hp.
  destruct (upd_word_spec (i / 64) (fun w => N.lor w (N.shiftl 1 (N.of_nat (i mod 64)))) _ Hp) as (s' & -> & HL & Hn).
  eexists. split; [reflexivity|].
  assert (Hk : i mod 64 < 64) by (apply Nat.mod_upper_bound; lia).
  assert (Bit : forall j, w_bit s' j = Nat.eqb i j || w_bit (wb_set b) j).
  { intros j. unfold w_bit. rewrite Hn. destruct (Nat.eqb_spec (j / 64) (i / 64)) as [E|E].
    - rewrite N.lor_spec, N.shiftl_1_l, N.pow2_bits_eqb, E, orb_comm. f_equal.
      destruct (Nat.eqb_spec i j) as [->|Hne].
      + apply N.eqb_refl.
      + apply N.eqb_neq. intro Q. apply Nat2N.inj in Q. apply Hne.
        rewrite (Nat.div_mod i 64), (Nat.div_mod j 64) by lia. lia.
    - destruct (Nat.eqb_spec i j) as [->|_]; [congruence | reflexivity]. }
  split.
  - constructor; simpl.
    + rewrite HL. apply (ok_len _ O).
    + unfold bounded. apply Forall_forall. intros x Hx. apply (In_nth _ _ 0%N) in Hx.
      destruct Hx as (q & Hq & <-). rewrite Hn. pose proof (nth_bounded _ (i / 64) (ok_bnd _ O)).
      destruct (Nat.eqb q (i / 64)); [now apply lor_pow2_bound | apply nth_bounded, (ok_bnd _ O)].
    + intros j Hj. rewrite Bit, (ok_junk _ O) by auto. destruct (Nat.eqb_spec i j); [lia | reflexivity].
  - apply bits_eq_of_test.
    + rewrite set_bit_length; rewrite !to_bits_length; auto.
    + intros j. rewrite set_bit_test, !to_bits_test. simpl. rewrite Bit.
      destruct (Nat.ltb_spec j (wb_len b)); [reflexivity|].
      destruct (Nat.eqb_spec i j); [lia | reflexivity].
Qed.

(** ** None *)
Theorem w_none_spec : forall b, wb_ok b -> w_none b = bits_none (to_bits b).
Proof.
  intros b O. apply eq_iff_eq_true. unfold w_none, bits_none. rewrite !forallb_forall. split.
  - intros H x Hx. apply (In_nth _ _ false) in Hx. destruct Hx as (i & Hi & <-).
    rewrite to_bits_length in Hi. fold (test_bit (to_bits b) i). rewrite to_bits_test.
    destruct (Nat.ltb_spec i (wb_len b)); [|lia]. unfold w_bit.
    destruct (Nat.lt_ge_cases (i / 64) (length (wb_set b))) as [L|L].
    + assert (Z : nth (i / 64) (wb_set b) 0%N = 0%N).
      { specialize (H _ (nth_In _ 0%N L)). destruct (N.ltb_spec 0 (nth (i / 64) (wb_set b) 0%N)); [discriminate | lia]. }
      rewrite Z, N.bits_0. reflexivity.
    + rewrite nth_overflow by auto. rewrite N.bits_0. reflexivity.
  - intros H w Hw. apply (In_nth _ _ 0%N) in Hw. destruct Hw as (p & Hp & <-).
    assert (Z : nth p (wb_set b) 0%N = 0%N).
    { apply N.bits_inj_0. intros n. destruct (N.lt_ge_cases n 64).
      - rewrite <- (N2Nat.id n). rewrite <- w_bit_pos by lia.
        destruct (Nat.lt_ge_cases (64 * p + N.to_nat n) (wb_len b)) as [I|I].
        + assert (In (test_bit (to_bits b) (64 * p + N.to_nat n)) (to_bits b)).
          { unfold test_bit. apply nth_In. now rewrite to_bits_length. }
          apply H in H1. rewrite to_bits_test in H1.
          destruct (Nat.ltb_spec (64 * p + N.to_nat n) (wb_len b)); [|lia].
          now destruct (w_bit (wb_set b) (64 * p + N.to_nat n)).
        + now apply (ok_junk _ O).
      - apply testbit_high; auto. apply nth_bounded, (ok_bnd _ O). }
    rewrite Z. reflexivity.
Qed.

(** ** Equal *)
Lemma to_bits_eq_iff : forall a b, wb_len a = wb_len b ->
    (to_bits a = to_bits b <-> forall i, i < wb_len a -> w_bit (wb_set a) i = w_bit (wb_set b) i).
Proof.
  intros a b HL. split.
  - intros E i Hi. pose proof (to_bits_test a i) as Ta. pose proof (to_bits_test b i) as Tb.
    rewrite E in Ta. rewrite Ta in Tb. rewrite <- HL in Tb.
    destruct (Nat.ltb_spec i (wb_len a)); [auto | lia].
  - intros H. apply bits_eq_of_test; [rewrite !to_bits_length; auto|].
    intros i. rewrite !to_bits_test, <- HL. destruct (Nat.ltb_spec i (wb_len a)); auto.
Qed.

Lemma same_words_iff : forall a b, wb_ok a -> wb_ok b -> wb_len a = wb_len b ->
    ((forall j, j < length (wb_set a) -> nth j (wb_set b) 0%N = nth j (wb_set a) 0%N) <-> to_bits a = to_bits b).
Proof.
  intros a b Oa Ob HL.
  assert (HS : length (wb_set a) = length (wb_set b)) by (rewrite (ok_len _ Oa), (ok_len _ Ob), HL; reflexivity).
  rewrite (to_bits_eq_iff a b HL). split.
  - intros H i Hi. unfold w_bit. f_equal. symmetry. apply H.
    rewrite (ok_len _ Oa). now apply word_index_lt.
  - intros H j Hj.
    assert (E : wb_set a = wb_set b).
    { apply words_ext; auto; try apply (ok_bnd _ Oa); try apply (ok_bnd _ Ob).
      intros i. destruct (Nat.lt_ge_cases i (wb_len a)); auto.
      rewrite (ok_junk _ Oa), (ok_junk _ Ob); auto. lia. }
    now rewrite E.
Qed.

Theorem w_equal_spec : forall a b, wb_ok a -> wb_ok b ->
    w_equal a b = Some (bits_equal (to_bits a) (to_bits b)).
Proof.
  intros a b Oa Ob. unfold w_equal, bits_equal. rewrite !to_bits_length.
  destruct (Nat.eqb_spec (wb_len a) (wb_len b)) as [HL|HL]; [|reflexivity]. simpl.
  destruct (Nat.eqb_spec (wb_len a) 0) as [Z|Z].
  - unfold to_bits. rewrite <- HL, Z. reflexivity.
  - assert (HS : length (wb_set a) = length (wb_set b)) by (rewrite (ok_len _ Oa), (ok_len _ Ob), HL; reflexivity).
    destruct (words_cmp_true (fun _ v => v) _ _ HS) as (r & -> & Hr). f_equal.
    apply eq_iff_eq_true. rewrite Hr, (same_words_iff a b Oa Ob HL). symmetry. apply list_eqb_bool_eq.
Qed.

(** ** ComplementTest *)
Lemma high_zero_lt : forall x, (forall n, (64 <= n)%N -> N.testbit x n = false) -> (x < W)%N.
Proof.
  intros x H. destruct (N.eq_dec x 0) as [->|Hz]; [reflexivity|].
  change W with (2 ^ 64)%N. apply N.log2_lt_pow2; [lia|].
  destruct (N.lt_ge_cases (N.log2 x) 64); auto.
  pose proof (N.bit_log2 x Hz) as B. rewrite H in B by auto. discriminate.
Qed.

Lemma ones64_bit : forall n, N.testbit ones64 n = N.ltb n 64.
Proof.
  intros n. change ones64 with (N.ones 64). apply eq_iff_eq_true.
  rewrite N.ones_spec_iff, N.ltb_lt. tauto.
Qed.

Section Compl.
  Variable n : nat.                       (* the common length, not 0 *)
  Let L := words_needed n.
  Let r := n mod 64.
  Let toapply := N.shiftr ones64 (N.of_nat (64 - r)).
  Definition cexp (p : nat) (v : N) : N :=
    let v' := N.lxor v ones64 in
    if Nat.eqb p (L - 1) && negb (Nat.eqb r 0) then N.land v' toapply else v'.

  Lemma toapply_bit : forall k, k < 64 -> r <> 0 -> N.testbit toapply (N.of_nat k) = Nat.ltb k r.
  Proof.
    intros k Hk Hr. unfold toapply. rewrite N.shiftr_spec by lia. rewrite ones64_bit.
    assert (r < 64) by (apply Nat.mod_upper_bound; lia).
    apply eq_iff_eq_true. rewrite N.ltb_lt, Nat.ltb_lt. lia.
  Qed.

  Lemma cond_in_range : forall p k, p < L -> k < 64 ->
      (if Nat.eqb p (L - 1) && negb (Nat.eqb r 0) then Nat.ltb k r else true) = Nat.ltb (64 * p + k) n.
  Proof.
    intros p k Hp Hk. unfold L, r in *.
    destruct (pos_split n) as (q & r' & Hr & E & _ & M). rewrite M. rewrite E in Hp |- *.
    rewrite words_needed_spec in * by auto.
    destruct (Nat.eqb_spec r' 0) as [Z|Z]; cbn [negb].
    - rewrite andb_false_r. symmetry. apply Nat.ltb_lt. lia.
    - rewrite andb_true_r. destruct (Nat.eqb_spec p (S q - 1)) as [P|P].
      + apply eq_iff_eq_true. rewrite !Nat.ltb_lt. split; intros; lia.
      + symmetry. apply Nat.ltb_lt. lia.
  Qed.

  Lemma cexp_bit : forall p k v, p < L -> k < 64 ->
      N.testbit (cexp p v) (N.of_nat k) = negb (N.testbit v (N.of_nat k)) && Nat.ltb (64 * p + k) n.
  Proof.
    intros p k v Hp Hk. rewrite <- (cond_in_range p k Hp Hk). unfold cexp.
    assert (X : N.testbit (N.lxor v ones64) (N.of_nat k) = negb (N.testbit v (N.of_nat k))).
    { rewrite N.lxor_spec, ones64_bit. replace (N.of_nat k <? 64)%N with true; [apply xorb_true_r|].
      symmetry. apply N.ltb_lt. lia. }
    destruct (Nat.eqb p (L - 1) && negb (Nat.eqb r 0)) eqn:C.
    - rewrite N.land_spec, X. f_equal. apply toapply_bit; auto.
      apply andb_prop in C. destruct C as [_ C]. apply negb_true_iff, Nat.eqb_neq in C. exact C.
    - rewrite X. now rewrite andb_true_r.
  Qed.

  Lemma cexp_bounded : forall p v, (v < W)%N -> (cexp p v < W)%N.
  Proof.
    intros p v Hv. apply high_zero_lt. intros m Hm. unfold cexp.
    assert (X : N.testbit (N.lxor v ones64) m = false).
    { rewrite N.lxor_spec, ones64_bit, testbit_high by auto.
      replace (m <? 64)%N with false; [reflexivity|]. symmetry. apply N.ltb_ge. exact Hm. }
    destruct (Nat.eqb p (L - 1) && negb (Nat.eqb r 0)); auto.
    now rewrite N.land_spec, X.
  Qed.
End Compl.

Lemma compl_words_iff : forall a b, wb_ok a -> wb_ok b -> wb_len a = wb_len b ->
    ((forall j, j < length (wb_set a) -> nth j (wb_set b) 0%N = cexp (wb_len a) j (nth j (wb_set a) 0%N))
     <-> map negb (to_bits a) = to_bits b).
Proof.
  intros a b Oa Ob HL.
  assert (HS : length (wb_set a) = length (wb_set b)) by (rewrite (ok_len _ Oa), (ok_len _ Ob), HL; reflexivity).
  assert (T : map negb (to_bits a) = to_bits b <->
              forall i, i < wb_len a -> w_bit (wb_set b) i = negb (w_bit (wb_set a) i)).
  { split.
    - intros E i Hi. pose proof (to_bits_test b i) as Tb. rewrite <- E in Tb.
      rewrite test_bit_map_negb in Tb by (rewrite to_bits_length; auto).
      rewrite to_bits_test in Tb. rewrite <- HL in Tb.
      destruct (Nat.ltb_spec i (wb_len a)); [auto | lia].
    - intros H. apply bits_eq_of_test; [rewrite map_length, !to_bits_length; auto|].
      intros i. destruct (Nat.lt_ge_cases i (wb_len a)) as [Hi|Hi].
      + rewrite test_bit_map_negb by (rewrite to_bits_length; auto).
        rewrite !to_bits_test, <- HL. destruct (Nat.ltb_spec i (wb_len a)); [symmetry; auto | lia].
      + unfold test_bit. rewrite !nth_overflow; auto; rewrite ?map_length, to_bits_length; lia. }
  rewrite T. clear T. split.
  - intros H i Hi. destruct (pos_split i) as (p & k & Hk & -> & _).
    assert (Hp : p < words_needed (wb_len a)).
    { pose proof (word_index_lt _ _ Hi) as Q. destruct (divmod64 p k Hk) as [E _]. now rewrite E in Q. }
    rewrite !w_bit_pos by auto. rewrite H by (rewrite (ok_len _ Oa); auto).
    rewrite cexp_bit by auto. apply Nat.ltb_lt in Hi. now rewrite Hi, andb_true_r.
  - intros H j Hj. rewrite (ok_len _ Oa) in Hj.
    apply word_ext.
    + apply nth_bounded, (ok_bnd _ Ob).
    + apply cexp_bounded, nth_bounded, (ok_bnd _ Oa).
    + intros k Hk. rewrite cexp_bit by auto. rewrite <- !w_bit_pos by auto.
      destruct (Nat.ltb_spec (64 * j + k) (wb_len a)) as [I|I].
      * rewrite andb_true_r. now apply H.
      * rewrite andb_false_r. apply (ok_junk _ Ob). lia.
Qed.

Theorem w_complement_test_spec : forall a b, wb_ok a -> wb_ok b ->
    w_complement_test a b = Some (bits_complement (to_bits a) (to_bits b)).
Proof.
  intros a b Oa Ob. unfold w_complement_test, bits_complement. rewrite !to_bits_length.
  destruct (Nat.eqb_spec (wb_len a) (wb_len b)) as [HL|HL]; [|reflexivity]. simpl.
  destruct (Nat.eqb_spec (wb_len a) 0) as [Z|Z].
  - unfold to_bits. rewrite <- HL, Z. reflexivity.
  - assert (HS : length (wb_set a) = length (wb_set b)) by (rewrite (ok_len _ Oa), (ok_len _ Ob), HL; reflexivity).
    match goal with |- words_cmp ?f 0 _ _ = _ =>
      change f with (cexp (wb_len a)) end.
    destruct (words_cmp_true (cexp (wb_len a)) _ _ HS) as (r & -> & Hr). f_equal.
    apply eq_iff_eq_true. rewrite Hr, (compl_words_iff a b Oa Ob HL). symmetry. apply list_eqb_bool_eq.
Qed.

(** ** EqualOrComplement *)
Theorem w_equal_or_complement_spec : forall a b, wb_ok a -> wb_ok b ->
    w_equal_or_complement a b = Some (equal_or_complement (to_bits a) (to_bits b)).
Proof.
  intros a b Oa Ob. unfold w_equal_or_complement, equal_or_complement.
  rewrite w_equal_spec, w_complement_test_spec by auto.
  destruct (bits_equal (to_bits a) (to_bits b)); reflexivity.
Qed.

(** * the bitsets of the branches, built as the Go code builds them (New, then Set for every
    tip below), are word-level sets standing for the rows' [r_bits] *)
Fixpoint w_set_all (b : wbits) (l : list nat) : option wbits :=
  match l with
  | [] => Some b
  | i :: r => match w_set b i with Some b' => w_set_all b' r | None => None end
  end.

Lemma w_set_len : forall b i b', w_set b i = Some b' -> wb_len b' = wb_len b.
Proof. unfold w_set. intros. destruct (upd_word _ _ _); inversion H; reflexivity. Qed.

Theorem w_set_all_spec : forall l b, wb_ok b -> Forall (fun i => i < wb_len b) l ->
    exists b', w_set_all b l = Some b' /\ wb_ok b' /\ wb_len b' = wb_len b /\
               to_bits b' = fold_left (fun x i => set_bit i x) l (to_bits b).
Proof.
  induction l as [|i r IH]; intros b O F; simpl.
  - eauto.
  - inversion F as [|? ? Hi Fr]; subst.
    destruct (w_set_spec b i O Hi) as (b1 & E1 & O1 & T1). rewrite E1.
    pose proof (w_set_len _ _ _ E1) as L1.
    destruct (IH b1 O1) as (b' & E' & O' & L' & T'); [now rewrite L1|].
    exists b'. split; [exact E'|]. split; [exact O'|]. split; [now rewrite L', L1|]. now rewrite T', T1.
Qed.

Theorem row_bitset_words : forall t ec r,
    good t -> branch_row t ec r ->
    exists w, w_set_all (w_new (length (sorted_tip_names t))) (tip_ids_below (sorted_tip_names t) (snd ec)) = Some w /\
              wb_ok w /\ to_bits w = r_bits r.
Proof.
  intros t ec r G B.
  destruct (branch_row_describes _ _ _ G B) as [_ Hin].
  pose proof G as (W & D & ND).
  assert (Wc : IndexTree.children_wf (uslots t) = true) by (destruct t; apply IndexTree.wf_inv in W; apply W).
  pose proof (IndexTree.edges_below_wf _ _ Wc Hin) as Wec.
  pose proof (IndexTree.edges_below_leaves _ _ Hin) as Incl.
  destruct (IndexTree.tables_spec t W D ND) as (P & _ & F).
  set (ids := sorted_tip_names t) in *.
  destruct (IndexTree.sub_spec ids _ Wec) as (_ & T & _ & _).
  destruct (w_new_ok (length ids)) as [O0 T0].
  destruct (w_set_all_spec (tip_ids_below ids (snd ec)) (w_new (length ids)) O0) as (w & E & O & _ & Tw).
  - simpl. rewrite T. apply Forall_forall. intros i Hi. apply in_map_iff in Hi. destruct Hi as (x & <- & Hx).
    apply index_of_lt. eapply Permutation.Permutation_in; [apply Permutation.Permutation_sym, P|]. now apply Incl.
  - exists w. split; [exact E|]. split; [exact O|]. rewrite Tw, T0.
    assert (Rb : r_bits r = bitset_of ids (snd ec)).
    { unfold branch_row in B. clear - B W D ND Wc.
      destruct (IndexTree.root_NI t W D) as [I _].
      pose proof (IndexTree.rows_below_spec (sorted_tip_names t) _ _ t (0%N, 0) Wc I) as F2.
      pose proof (Forall2_combine_in _ _ _ _ _ _ _ F2 B) as R. apply R. }
    rewrite Rb. reflexivity.
Qed.

(** hence Edge.HashEquals / SameBipartition's EqualOrComplement, run on the words, is the
    [equal_or_complement] of the rows *)
Theorem row_words_equal_or_complement : forall t1 ec1 r1 t2 ec2 r2 w1 w2,
    good t1 -> good t2 -> branch_row t1 ec1 r1 -> branch_row t2 ec2 r2 ->
    wb_ok w1 -> wb_ok w2 -> to_bits w1 = r_bits r1 -> to_bits w2 = r_bits r2 ->
    w_equal_or_complement w1 w2 = Some (equal_or_complement (r_bits r1) (r_bits r2)).
Proof.
  intros. rewrite w_equal_or_complement_spec by auto. congruence.
Qed.
