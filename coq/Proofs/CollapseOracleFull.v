(** C07: the oracle of Judge/C07.v ([collapse_ok], [resolve_ok] of Spec/Contract.v) accepts the
    model's output on unrooted trees of the domain (root with >= 3 neighbours, no single-child
    node, distinct tip names).  Uses C08's theorem that on such trees two branches never define
    the same bipartition ([CompareDupfree.unrooted_dupfree]), so that [usplits] is the list of the
    branches' canonical splits. *)
From Coq Require Import String ZArith QArith Bool Arith Lia List Permutation Sorted Setoid Morphisms.
From GT Require Import Base.UTree Spec.Obs Spec.Induced Spec.Contract Model.Reroot Model.Rand Spec.Unrooted
     Proofs.RerootBase Proofs.PruneBase Proofs.PairKeys
     Model.Prune Model.Collapse Proofs.PruneSub Proofs.Prune Proofs.CollapseBase Proofs.CollapseSplits Proofs.CollapseExact Proofs.CollapseDist
     Proofs.CollapseResolve Proofs.CollapseDepth Proofs.OracleDist Proofs.OracleSets Proofs.CollapseOracle.
From GT Require Proofs.CompareBase Proofs.CompareMain Proofs.CompareDomain Proofs.CompareDupfree.
Import ListNotations.
Local Close Scope Q_scope.
Local Arguments leaves : simpl never.
Local Arguments pairdists : simpl never.

Notation unrooted := CompareDomain.unrooted.

(** * [usplits] as the list of the branches' splits *)
Definition isleaf (c : utree) : bool := match kids c with [] => true | _ => false end.
Definition csplit (A : list string) (p : einfo * utree) : split :=
  mkSplit (canon_side A (sset (leaves (snd p)))) (elen (fst p)) (esup (fst p)) (isleaf (snd p)).

Lemma branch_splits_csplit A t : branch_splits A t = map (csplit A) (branches t).
Proof.
  induction t as [n c sl IH] using utree_ind'. rewrite branches_unfold. simpl branch_splits.
  induction sl as [|[[e ch]|] r IHr]; [reflexivity| |].
  - inversion IH as [|? ? Hc Hr]; subst. rewrite brs_cons_some. simpl.
    rewrite map_app. rewrite Hc, (IHr Hr). reflexivity.
  - inversion IH; subst. rewrite brs_cons_none. simpl. auto.
Qed.

Lemma usplits_of_nodup t :
  NoDup (map (fun p => canon_side (tipset t) (sset (leaves (snd p)))) (branches t)) ->
  usplits t = map (csplit (tipset t)) (branches t).
Proof.
  intros H. rewrite <- branch_splits_csplit. apply CompareMain.usplits_dupfree.
  unfold CompareMain.dupfree. rewrite branch_splits_csplit, map_map. exact H.
Qed.

Lemma unrooted_keys_nodup t :
  unrooted t -> NoDup (map (fun p => canon_side (tipset t) (sset (leaves (snd p)))) (branches t)).
Proof.
  intros U. generalize (CompareDupfree.unrooted_dupfree t U). unfold CompareMain.dupfree.
  now rewrite branch_splits_csplit, map_map.
Qed.

(** look-ups in a split list with distinct keys *)
Lemma find_split_in l s : NoDup (map sside l) -> In s l -> find_split (sside s) l = Some s.
Proof.
  unfold find_split. induction l as [|x l IH]; simpl; intros Hn Hin; [tauto|].
  inversion Hn as [|? ? Hx Hn0]; subst. destruct Hin as [->|Hin].
  - unfold sset_eqb. now rewrite (proj2 (list_eqb_eq _ _) eq_refl).
  - destruct (sset_eqb (sside x) (sside s)) eqn:E; [|auto].
    unfold sset_eqb in E. apply list_eqb_eq in E. exfalso. apply Hx. rewrite E. now apply in_map.
Qed.
Lemma find_split_none l k : ~ In k (map sside l) -> find_split k l = None.
Proof.
  unfold find_split. induction l as [|x l IH]; simpl; intros H; auto.
  destruct (sset_eqb (sside x) k) eqn:E.
  - unfold sset_eqb in E. apply list_eqb_eq in E. exfalso. apply H. now left.
  - apply IH. intros Hin. apply H. now right.
Qed.

Lemma splits_sub_intro (cmp : split -> split -> bool) X Y :
  NoDup (map sside Y) ->
  (forall x, In x X -> exists y, In y Y /\ sside y = sside x /\ cmp x y = true) ->
  splits_sub cmp X Y = true.
Proof.
  intros Hn H. unfold splits_sub. apply forallb_forall. intros x Hx.
  destruct (H x Hx) as [y [Hy [Ek Hc]]]. rewrite <- Ek, (find_split_in Y y Hn Hy). exact Hc.
Qed.

Lemma NoDup_map_filter' {A B} (f : A -> B) (p : A -> bool) l : NoDup (map f l) -> NoDup (map f (filter p l)).
Proof.
  induction l as [|x l IH]; simpl; intros H; [constructor|]. inversion H; subst.
  destruct (p x); simpl; auto. constructor; auto. intros Hin. apply H2.
  apply in_map_iff in Hin. destruct Hin as [y [E Hy]]. apply filter_In in Hy. rewrite <- E. apply in_map. tauto.
Qed.

Lemma filter_map_comm {A B} (f : A -> B) (p : B -> bool) l : filter p (map f l) = map f (filter (fun x => p (f x)) l).
Proof. induction l as [|x l IH]; simpl; auto. destruct (p (f x)); simpl; now rewrite IH. Qed.

Lemma qeqb_refl q : qeqb q q = true.
Proof. unfold qeqb. apply Qeq_bool_iff. reflexivity. Qed.

Lemma isleaf_tip c : wf_sub c = true -> isleaf c = is_tip c.
Proof.
  intros H. generalize (wf_sub_up c H). destruct c as [n cm sl]. unfold isleaf, kids, is_tip, degree. simpl.
  intros Hu. generalize (length_slots sl). rewrite Hu. destruct (kids_of sl); simpl; intros ->; reflexivity.
Qed.

Lemma unrooted_parts t : unrooted t -> wf t = true /\ 3 <= degree t /\ no_single t = true /\ NoDup (leaves t).
Proof. intros [[H1 [H2 H3]] [H4 H5]]. auto. Qed.

Lemma branches_wf t p : wf t = true -> In p (branches t) -> wf_sub (snd p) = true.
Proof.
  intros Hw Hp. destruct p as [e c]. destruct t as [n cm sl]. rewrite wf_unfold in Hw.
  apply andb_true_iff in Hw. destruct Hw as [_ Hw].
  destruct (branches_sub (UNode n cm sl) e c Hw Hp) as [H _]. exact H.
Qed.

(** * Collapse *)
Section CollapseOracle.
  Variable cr : crit.
  Variable s : einfo -> utree -> bool.
  Variable t : utree.
  Hypothesis U : unrooted t.
  Let A := tipset t.
  Let n := length (tipset t).
  (** the documented criterion, read on the split, is the selection made on the branch *)
  Hypothesis Hcrit : forall p, In p (branches t) -> crit_holds n cr (csplit A p) = s (fst p) (snd p).

  Let g := remove_edges false false (fun _ e c => s e c) t.
  Let key := fun p : einfo * utree => canon_side A (sset (leaves (snd p))).

  Lemma view_adj_false p : view_adj false s p = view p.
  Proof. unfold view_adj, view. now rewrite andb_false_r. Qed.

  Theorem collapse_oracle_accepts : collapse_ok cr t g = None.
  Proof.
    destruct (unrooted_parts t U) as [Hw [Hd [Hs Hn]]].
    assert (HV : veq (map view (branches g)) (map view (filter (stays s) (branches t)))).
    { unfold g. rewrite remove_edges_transfer by auto.
      generalize (remove_edges_exact false s t Hw).
      rewrite (map_ext (view_adj false s) view view_adj_false). auto. }
    assert (HL : Permutation (leaves g) (leaves t)) by (apply remove_edges_leaves; auto).
    assert (HA : tipset g = A) by (apply tipset_perm; auto).
    set (keyv := fun v : einfo * list string => canon_side A (sset (snd v))).
    assert (Hkv : forall x y, vrel x y -> keyv x = keyv y).
    { intros x y [_ P]. unfold keyv. now rewrite (sset_perm _ _ P). }
    assert (Nt : NoDup (map key (branches t))) by (apply unrooted_keys_nodup; auto).
    assert (NF : NoDup (map key (filter (stays s) (branches t)))) by (now apply NoDup_map_filter').
    assert (Ng : NoDup (map key (branches g))).
    { generalize (PermR_map_perm vrel keyv _ _ Hkv HV). rewrite !map_map. intros P.
      eapply Permutation_NoDup; [symmetry; exact P|exact NF]. }
    assert (Ut : usplits t = map (csplit A) (branches t)) by (apply usplits_of_nodup; auto).
    assert (Ug : usplits g = map (csplit A) (branches g)).
    { rewrite <- HA. apply usplits_of_nodup. rewrite HA. exact Ng. }
    assert (EX : expected_after_collapse cr t = map (csplit A) (filter (stays s) (branches t))).
    { unfold expected_after_collapse. rewrite Ut, filter_map_comm. f_equal. apply filter_ext_in.
      intros p Hp. fold n. fold A. rewrite (Hcrit p Hp).
      assert (Er : is_root_split t (csplit A p) = false).
      { unfold is_root_split, root_keys, rooted. destruct (Nat.eqb (degree t) 2) eqn:E; auto.
        apply Nat.eqb_eq in E. lia. }
      rewrite Er. unfold csplit at 1. simpl stip. rewrite (isleaf_tip _ (branches_wf t p Hw Hp)).
      unfold stays, coll. destruct (s (fst p) (snd p)), (is_tip (snd p)); reflexivity. }
    (* correspondence between the two branch lists *)
    assert (F1 : forall x, In x (map (csplit A) (filter (stays s) (branches t))) ->
                           exists y, In y (map (csplit A) (branches g)) /\ sside y = sside x /\ same_len_sup x y = true).
    { intros x Hx. apply in_map_iff in Hx. destruct Hx as [p [<- Hp]].
      assert (Hin : In (view p) (map view (filter (stays s) (branches t)))) by now apply in_map.
      symmetry in HV. destruct (PermR_In _ _ vrel_Equivalence _ _ HV _ Hin) as [v [Hv [V1 V2]]].
      apply in_map_iff in Hv. destruct Hv as [p' [<- Hp']].
      exists (csplit A p'). split; [now apply in_map|]. simpl in V1, V2. split.
      - unfold csplit. simpl. now rewrite (sset_perm _ _ V2).
      - unfold same_len_sup, csplit. simpl. rewrite <- V1. now rewrite !qeqb_refl. }
    assert (F2 : forall y, In y (map (csplit A) (branches g)) ->
                           exists x, In x (map (csplit A) (filter (stays s) (branches t))) /\ sside x = sside y /\ same_len_sup x y = true).
    { intros y Hy. apply in_map_iff in Hy. destruct Hy as [p' [<- Hp']].
      assert (Hin : In (view p') (map view (branches g))) by now apply in_map.
      destruct (PermR_In _ _ vrel_Equivalence _ _ HV _ Hin) as [v [Hv [V1 V2]]].
      apply in_map_iff in Hv. destruct Hv as [p [<- Hp]].
      exists (csplit A p). split; [now apply in_map|]. simpl in V1, V2. split.
      - unfold csplit. simpl. now rewrite (sset_perm _ _ V2).
      - unfold same_len_sup, csplit. simpl. rewrite V1. now rewrite !qeqb_refl. }
    assert (NE : NoDup (map sside (map (csplit A) (filter (stays s) (branches t))))) by (rewrite map_map; exact NF).
    assert (NG : NoDup (map sside (map (csplit A) (branches g)))) by (rewrite map_map; exact Ng).
    assert (Hwg : wf g = true) by (unfold g; now apply remove_edges_wf).
    assert (Htg : sset_eqb (Obs.ssort (leaves t)) (Obs.ssort (leaves g)) = true) by (unfold g; now apply collapse_tips).
    unfold collapse_ok. rewrite Hwg, Htg. simpl negb. cbv iota.
    rewrite EX, Ug.
    assert (S1 : splits_sub same_key (map (csplit A) (filter (stays s) (branches t))) (map (csplit A) (branches g)) = true).
    { apply splits_sub_intro; auto. intros x Hx. destruct (F1 x Hx) as [y [H1 [H2 _]]]. exists y. auto. }
    assert (S2 : splits_sub same_key (map (csplit A) (branches g)) (map (csplit A) (filter (stays s) (branches t))) = true).
    { apply splits_sub_intro; auto. intros y Hy. destruct (F2 y Hy) as [x [H1 [H2 _]]]. exists x. auto. }
    rewrite S1, S2. simpl negb. cbv iota.
    assert (S3 : splits_eq same_len_sup (map (csplit A) (filter (stays s) (branches t))) (map (csplit A) (branches g)) = true).
    { unfold splits_eq. rewrite !andb_true_iff. split; [split|].
      - apply Nat.eqb_eq. rewrite !map_length. apply PermR_length in HV. now rewrite !map_length in HV.
      - apply splits_sub_intro; auto.
      - apply splits_sub_intro; auto. }
    rewrite S3. reflexivity.
  Qed.
End CollapseOracle.

(** the three commands *)
Theorem collapse_len_oracle l t :
  unrooted t -> collapse_ok (CLen l) t (collapse_len l false false t) = None.
Proof.
  intros U. unfold collapse_len. apply (collapse_oracle_accepts (CLen l) (fun e _ => sel_len l e) t U).
  intros p _. reflexivity.
Qed.

Theorem collapse_sup_oracle x t :
  unrooted t -> collapse_ok (CSup x) t (collapse_sup x false t) = None.
Proof.
  intros U. unfold collapse_sup. apply (collapse_oracle_accepts (CSup x) (fun e _ => sel_sup x e) t U).
  intros p _. reflexivity.
Qed.

Lemma sdiff_length A S : canon A -> canon S -> (forall x, In x S -> In x A) -> length (sdiff A S) = length A - length S.
Proof.
  intros [_ HA] [_ HS] Hsub.
  assert (P : Permutation A (S ++ sdiff A S)).
  { apply NoDup_Permutation; auto.
    - apply NoDup_app_intro; auto.
      + unfold sdiff. now apply NoDup_filter.
      + intros x H1 H2. apply sdiff_In in H2. tauto.
    - intros x. rewrite in_app_iff, sdiff_In. split; [|intuition].
      intros Hx. destruct (in_dec string_dec x S); auto. }
  apply Permutation_length in P. rewrite app_length in P. lia.
Qed.

Lemma kid_leaves_incl n1 c1 sl1 e1 ch : In (Some (e1, ch)) sl1 -> incl (leaves ch) (leaves (UNode n1 c1 sl1)).
Proof.
  intros Hs1 y Hy. rewrite leaves_unfold. assert (Hk1 : In (e1, ch) (kids_of sl1)) by (apply kids_of_In; auto).
  destruct (kids_of sl1) eqn:E; [destruct Hk1|]. rewrite <- E in *. unfold kleaves. rewrite in_flat_map. exists (e1, ch). auto.
Qed.

Lemma branches_incl : forall t p, In p (branches t) -> incl (leaves (snd p)) (leaves t).
Proof.
  induction t as [n1 c1 sl1 IH] using utree_ind'. intros p Hp.
  rewrite branches_unfold in Hp. unfold brs in Hp. rewrite in_flat_map in Hp.
  destruct Hp as [[[e1 ch]|] [Hs1 Hp]]; [|destruct Hp].
  generalize (kid_leaves_incl n1 c1 sl1 e1 ch Hs1). intros Hin.
  destruct Hp as [<-|Hp]; [exact Hin|].
  rewrite Forall_forall in IH. intros x Hx. apply Hin. exact (IH _ Hs1 p Hp x Hx).
Qed.

Lemma branches_nodup : forall t p, NoDup (leaves t) -> In p (branches t) -> NoDup (leaves (snd p)).
Proof.
  induction t as [n1 c1 sl1 IH] using utree_ind'. intros p Hn Hp.
  rewrite branches_unfold in Hp. unfold brs in Hp. rewrite in_flat_map in Hp.
  destruct Hp as [[[e1 ch]|] [Hs1 Hp]]; [|destruct Hp].
  assert (NDch : NoDup (leaves ch)).
  { rewrite leaves_unfold in Hn. assert (Hk1 : In (e1, ch) (kids_of sl1)) by (apply kids_of_In; auto).
    destruct (kids_of sl1) eqn:E; [destruct Hk1|]. rewrite <- E in *. clear E.
    induction (kids_of sl1) as [|q r IHr]; [destruct Hk1|]. rewrite kleaves_cons in Hn.
    destruct Hk1 as [->|Hk1]; [now apply NoDup_app_l in Hn|]. apply IHr; auto. now apply NoDup_app_r in Hn. }
  destruct Hp as [<-|Hp]; [exact NDch|].
  rewrite Forall_forall in IH. exact (IH _ Hs1 p NDch Hp).
Qed.

Theorem collapse_depth_oracle mn mx t :
  unrooted t ->
  exists g, collapse_depth mn mx false false t = Ok g /\ collapse_ok (CDepth mn mx) t g = None.
Proof.
  intros U. destruct (unrooted_parts t U) as [Hw [Hd [Hs Hn]]].
  rewrite collapse_depth_ok by (auto; lia). eexists. split; [reflexivity|].
  apply (collapse_oracle_accepts (CDepth mn mx) (fun _ c => sel_depth t mn mx c) t U).
  intros [e c] Hp. simpl fst. simpl snd.
  rewrite (sel_depth_light mn mx t e c Hw ltac:(lia) Hp). cbv zeta.
  unfold crit_holds, csplit. simpl sside.
  destruct (clade_proper t e c Hw ltac:(lia) Hp) as [Hwc [L1 L2]].
  assert (Hsub : forall x, In x (sset (leaves c)) -> In x (tipset t)).
  { intros x Hx. unfold tipset. rewrite sset_In in *. exact (branches_incl t (e, c) Hp x Hx). }
  assert (NDc : NoDup (leaves c)) by exact (branches_nodup t (e, c) Hn Hp).
  assert (ES : length (sset (leaves c)) = length (leaves c)).
  { rewrite sset_ssort by auto. symmetry. apply Permutation_length, ssort_perm. }
  assert (EA : length (tipset t) = length (leaves t)).
  { unfold tipset. rewrite sset_ssort by auto. symmetry. apply Permutation_length, ssort_perm. }
  assert (EK : Nat.min (length (canon_side (tipset t) (sset (leaves c))))
                       (length (tipset t) - length (canon_side (tipset t) (sset (leaves c)))) =
               Nat.min (length (leaves t) - length (leaves c)) (length (leaves c))).
  { unfold canon_side. destruct (tipset t) as [|m r] eqn:ET.
    - simpl in EA. lia.
    - rewrite <- ET in *. destruct (smem m (sset (leaves c))).
      + rewrite sdiff_length; auto; try apply sset_canon. rewrite ES, EA. lia.
      + rewrite ES, EA. lia. }
  rewrite EK. reflexivity.
Qed.

(** * Resolve *)
Lemma Forall_forallb {A} (P : A -> Prop) (f : A -> bool) l :
  (forall x, P x -> f x = true) -> Forall P l -> forallb f l = true.
Proof. intros H. induction 1; simpl; auto. now rewrite H, IHForall. Qed.

Theorem resolve_oracle_accepts t cs : unrooted t -> resolve_ok t (resolve t cs) = None.
Proof.
  intros U. destruct (unrooted_parts t U) as [Hw [Hd [Hs Hn]]].
  set (g := resolve t cs).
  assert (HL : Permutation (leaves g) (leaves t)) by (apply resolve_leaves; auto).
  assert (Hwg : wf g = true) by (apply resolve_wf; auto).
  assert (Hdg : degree g = 3) by (unfold g; rewrite resolve_root_degree by auto; lia).
  assert (Hsg : no_single g = true) by (apply resolve_no_single; auto).
  assert (Hng : NoDup (leaves g)) by (eapply Permutation_NoDup; [symmetry; exact HL|auto]).
  assert (Ug : unrooted g).
  { unfold CompareDomain.unrooted. repeat split; auto; lia. }
  set (A := tipset t).
  assert (HA : tipset g = A) by (apply tipset_perm; auto).
  assert (Nt := unrooted_keys_nodup t U). assert (Ng := unrooted_keys_nodup g Ug). rewrite HA in Ng. fold A in Nt.
  assert (Ut : usplits t = map (csplit A) (branches t)) by (apply usplits_of_nodup; auto).
  assert (Ugs : usplits g = map (csplit A) (branches g)).
  { rewrite <- HA. apply usplits_of_nodup. now rewrite HA. }
  destruct (resolve_branches t cs Hw) as [news [Hnew HV]]. fold g in HV.
  assert (Htg : sset_eqb (Obs.ssort (leaves t)) (Obs.ssort (leaves g)) = true) by (unfold g; now apply resolve_tips).
  assert (Hmg : matrix_eqb (dist_matrix len0 t) (dist_matrix len0 g) = true) by (unfold g; now apply resolve_matrix).
  unfold resolve_ok. fold g. rewrite Hwg, Htg. simpl negb. cbv iota.
  assert (Bin : binary g = true).
  { unfold binary. rewrite Hsg, Hdg. simpl. rewrite !andb_true_r.
    apply (Forall_forallb (fun x => degree x <= 3)); [intros x Hx; now apply Nat.leb_le|].
    apply resolve_binary; auto. }
  rewrite Bin. simpl negb. cbv iota.
  assert (S1 : splits_sub same_len_sup (usplits t) (usplits g) = true).
  { rewrite Ut, Ugs. apply splits_sub_intro; [rewrite map_map; exact Ng|].
    intros x Hx. apply in_map_iff in Hx. destruct Hx as [p [<- Hp]].
    assert (Hin : In (view2 p) (map view2 (branches t) ++ news)) by (apply in_or_app; left; now apply in_map).
    symmetry in HV. destruct (PermR_In _ _ vrel2_Equivalence _ _ HV _ Hin) as [v [Hv [V1 V2]]].
    apply in_map_iff in Hv. destruct Hv as [p' [<- Hp']].
    exists (csplit A p'). split; [now apply in_map|]. unfold view2 in V1, V2. simpl in V1, V2. split.
    - unfold csplit. simpl. now rewrite (sset_perm _ _ V2).
    - unfold same_len_sup, csplit. simpl. unfold edata in V1. inversion V1 as [[E1 E2 E3]].
      rewrite E1, E2. now rewrite !qeqb_refl. }
  rewrite S1. simpl negb. cbv iota.
  assert (S2 : forallb (fun sp => qeqb (slen sp) 0%Q && qeqb (ssup sp) nilv) (added_splits t g) = true).
  { apply forallb_forall. intros sp Hsp. unfold added_splits in Hsp. apply filter_In in Hsp.
    destruct Hsp as [Hsp Hnone]. rewrite Ugs in Hsp. apply in_map_iff in Hsp. destruct Hsp as [p' [<- Hp']].
    assert (Hin : In (view2 p') (map view2 (branches g))) by now apply in_map.
    destruct (PermR_In _ _ vrel2_Equivalence _ _ HV _ Hin) as [v [Hv [V1 V2]]].
    apply in_app_or in Hv. destruct Hv as [Hv|Hv].
    - exfalso. apply in_map_iff in Hv. destruct Hv as [p [<- Hp]]. unfold view2 in V2. simpl in V2.
      assert (Ek : sside (csplit A p') = sside (csplit A p)).
      { unfold csplit. simpl. now rewrite (sset_perm _ _ V2). }
      rewrite Ek, Ut, (find_split_in _ (csplit A p)) in Hnone; [discriminate| |now apply in_map].
      rewrite map_map. exact Nt.
    - rewrite Forall_forall in Hnew. specialize (Hnew v Hv). unfold is_new in Hnew.
      unfold view2 in V1. simpl in V1. rewrite Hnew in V1. unfold edata in V1. injection V1 as E1 E2 E3.
      unfold csplit. simpl slen. simpl ssup. rewrite E1, E2. reflexivity. }
  rewrite S2. simpl negb. cbv iota.
  rewrite Hmg. reflexivity.
Qed.
