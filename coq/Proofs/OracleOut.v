(** C05, the whole oracle of rooting on an outgroup without removal ([oracle_outgroup_ok false]
    and the index clause of Judge/C05.v) accepts the result of the model, for all well-formed trees
    with distinct, non-empty tip names whose branches all have a length >= 0. *)
From Coq Require Import String ZArith QArith Bool Arith Lia Lqa List Permutation Setoid Morphisms.
From GT Require Import Base.Sexp Base.UTree Spec.Obs Model.Reroot Model.Index Model.Outgroup Spec.Unrooted
     Judge.Common Judge.C05
     Proofs.RerootBase Proofs.Reroot Proofs.Unroot Proofs.Splits Proofs.USplits Proofs.C05Main
     Proofs.IndexSplit Proofs.IndexEditOps
     Proofs.OutgroupKeep Proofs.OutgroupClade Proofs.OutgroupMain Proofs.OutgroupSide Proofs.OutgroupHalf
     Proofs.OutgroupSplits Proofs.OutgroupSplitsMain Proofs.OutgroupWitness
     Proofs.OracleC05 Proofs.OracleSup Proofs.OracleIndex Proofs.OracleMid Proofs.OracleSide.
Import ListNotations.
Local Close Scope Q_scope.
Local Arguments leaves : simpl never.
Local Arguments bsplits : simpl never.

(** * the set of the judge and the group of the model *)
Lemma present_group t names :
  wf t = true -> 2 <= degree t -> (rooted t = true -> root_has_inner_child t = true) ->
  ~ In ""%string (leaves t) ->
  present t names = sset (group (unroot t) names).
Proof.
  intros Hwf Hd Hi Hne. destruct (unroot_stage t Hwf Hd Hi) as [W1 [D1 [L1 _]]].
  unfold present. apply sset_ext. intros x.
  rewrite (group_In (unroot t) names x W1 D1), filter_In, smem_In. split.
  - intros [H1 H2]. repeat split; auto.
    + now apply (Permutation_in _ (Permutation_sym L1)).
    + intros ->. contradiction.
  - intros [H1 [H2 _]]. split; auto. now apply (Permutation_in _ L1).
Qed.

Lemma tip_name_in_leaves t1 q lf :
  wf t1 = true -> 2 <= degree t1 -> In (q, lf) (tip_paths t1) -> In (uname lf) (leaves t1).
Proof.
  intros W D Hin. rewrite (leaves_tip_names t1 W D). unfold tip_names. apply in_map.
  rewrite tips_filter. unfold tip_paths in Hin. apply filter_In in Hin as [H1 H2]. simpl in H2.
  apply filter_In. split; auto. now apply in_combine_r in H1.
Qed.

Lemma ssubset_of_incl A B : incl A B -> ssubset (sset A) (sset B) = true.
Proof.
  intros H. unfold ssubset. apply forallb_forall. intros x Hx. apply smem_sset. apply H. now apply sset_In.
Qed.

Lemma sset_eqb_refl l : sset_eqb l l = true.
Proof. now apply sset_eqb_eq. Qed.

(** * the theorem *)
Theorem oracle_outgroup_accepts strict t names t' :
  wf t = true -> 2 <= degree t -> (rooted t = true -> root_has_inner_child t = true) ->
  NoDup (leaves t) -> ~ In ""%string (leaves t) ->
  (forall x, In x (bsplits t) -> (0 <= elen (fst (fst x)))%Q) ->
  (forall p, In p (kids t) -> good_sup (fst p)) ->
  reroot_outgroup false strict t names = Ok t' ->
  oracle_outgroup_ok false strict t t' names = None /\
  (let '(idx, st, bs) := tables_obs t' in index_ok_data t' idx st bs = None).
Proof.
  intros Hwf Hd Hi ND Hne Hnn Hgs H.
  pose proof (unroot_nonneg t Hwf Hnn) as Hnn1.
  assert (Hgl : forall x, In x (bsplits (unroot t)) -> good_len (fst (fst x))) by (intros x Hx; right; auto).
  destruct (unroot_stage t Hwf Hd Hi) as [W1 [D1 [L1 _]]].
  destruct (reroot_outgroup_keep_preserves strict t names t' Hwf Hd Hi H) as (W' & D' & L' & _).
  set (G := group (unroot t) names).
  assert (EP : present t names = sset G) by (now apply present_group).
  assert (NG : NoDup G) by apply group_NoDup.
  assert (IG : incl G (leaves t)).
  { intros x Hx. apply (Permutation_in _ L1). now apply (group_incl (unroot t) names W1 D1). }
  destruct (reroot_outgroup_keep_inv _ _ _ _ H)
    as (q&lf&v&p&es&diff&pp&ks&lower&P0&e0&_&GN&Hf&_).
  fold G in GN, Hf.
  assert (Hout : exists x, In x (leaves t) /\ ~ In x G).
  { apply find_some in Hf as [Hq Ho]. simpl in Ho. exists (uname lf). split.
    - apply (Permutation_in _ L1). eapply tip_name_in_leaves; eauto.
    - intros Hx. apply smem_In in Hx. rewrite Hx in Ho. discriminate. }
  split; [|apply index_ok_tables; repeat split; auto; [lia | eapply Permutation_NoDup; [symmetry; exact L'|exact ND]]].
  unfold oracle_outgroup_ok. rewrite EP.
  assert (ST : same_tree_obs t t' = None) by (eapply oracle_accepts_outgroup; eauto).
  assert (SK : supports_kept t t' = true).
  { apply supports_kept_of_lookup. intros k.
    apply (orel_trans _ (split_seq_trans _) _ (find_split k (usplits (unroot t)))).
    - eapply orel_mono; [apply split_qeq_seq|]. exact (outgroup_usplits strict t names t' Hwf Hd Hi ND Hgl H k).
    - destruct (rooted t) eqn:Hr.
      + apply unroot_usplits_sup; auto.
      + rewrite (unroot_not_rooted t Hr). apply orel_refl, split_seq_refl. }
  destruct (is_side t (sset G)) eqn:ES.
  - (* one side of a split *)
    cbn [negb andb]. rewrite ST, SK. cbn [negb].
    pose proof (is_side_side_of t G ND NG IG ES) as Hside.
    destruct (outgroup_side_clade strict t names t' Hwf Hd Hi ND Hside H)
      as (e & e1 & c1 & e2 & c2 & HK & _ & E1 & E2 & (L0 & b & Hin & Hs) & Hcl).
    fold G in Hs, Hcl. rewrite HK.
    assert (Hc : sset_eqb (sset (leaves c1)) (sset G) || sset_eqb (sset (leaves c2)) (sset G) = true).
    { destruct Hcl as [Hc|Hc]; rewrite (sset_perm _ _ Hc), sset_eqb_refl; auto. apply orb_true_r. }
    rewrite Hc. cbn [negb].
    destruct (all_lengths t); cbn [negb]; [|reflexivity].
    (* the halves *)
    assert (Ene : qeqb (elen e) nilv = false).
    { destruct (qeqb (elen e) nilv) eqn:En; auto. apply isnil_iff in En.
      pose proof (Hnn1 _ Hin) as Hp. cbn [fst] in Hp. lra. }
    destruct (half_edge_len e Ene) as [Hh _].
    assert (Hq : qeqb (elen e1) (elen e2) = true).
    { subst e1 e2. unfold qeqb. apply Qeq_bool_iff. reflexivity. }
    rewrite Hq. cbn [andb].
    set (key := canon_side (tipset t) (sset G)).
    assert (Hs' : Permutation L0 G \/ Permutation (L0 ++ G) (leaves t)).
    { destruct Hs as [Hs|Hs]; [left; auto | right; now rewrite <- L1]. }
    match goal with |- (if existsb ?f ?cands then _ else _) = _ =>
      assert (EX : existsb f cands = true) end.
    { apply existsb_exists. exists (elen e). split.
      - (* the length of the separating branch is among the candidates *)
        assert (InT : forall e' Lx b', In (e', Lx, b') (bsplits t) ->
                   (Permutation Lx G \/ Permutation (Lx ++ G) (leaves t)) ->
                   In (elen e') (map slen (filter (fun s => sset_eqb (sside s) key) (branch_splits (tipset t) t)))).
        { intros e' Lx b' Hin' Hs''. apply in_map_iff. exists (canon_split (tipset t) (e', Lx, b')). split; [reflexivity|].
          apply filter_In. split; [rewrite branch_splits_bsplits; now apply in_map|].
          unfold canon_split. cbn [sside fst snd]. apply sset_eqb_eq. unfold key, tipset.
          now apply key_of_side. }
        destruct (rooted t) eqn:Hr.
        + destruct (unroot_splits t Hwf Hr) as (r1&N1&r2&N2&e3&far&K&Hfar&E3&_&B&BU&_).
          apply (Permutation_in _ BU) in Hin. destruct Hin as [Hin|Hin].
          * inversion Hin; subst e3 L0 b. rewrite K.
            assert (Lt : leaves t = leaves N1 ++ leaves N2).
            { destruct t as [n c sl]. unfold kids in K. simpl in K.
              rewrite leaves_node by (rewrite K; discriminate). rewrite K. simpl. now rewrite app_nil_r. }
            assert (Ek : sset_eqb (canon_side (tipset t) (sset (leaves N1))) key = true).
            { apply sset_eqb_eq. unfold key, tipset.
              destruct Hfar as [->| ->]; [now apply key_of_side|].
              rewrite (canon_side_complement (leaves t) (leaves N1) (leaves N2) ND) by (now rewrite Lt).
              now apply key_of_side. }
            rewrite Ek. apply in_or_app. right. apply in_or_app. left. rewrite <- E3. now left.
          * apply in_or_app. right. apply in_or_app. right. apply (InT e L0 b); auto.
            rewrite B. right. apply in_app_or in Hin as [Hin|Hin]; apply in_or_app; [left; auto|right; right; auto].
        + rewrite (unroot_not_rooted t Hr) in Hin.
          apply in_or_app. right. apply in_or_app. right. apply (InT e L0 b); auto.
      - subst e1. unfold qeqb. apply Qeq_bool_iff. exact Hh. }
    now rewrite EX.
  - (* not one side of a split *)
    assert (Hstrict : strict = false).
    { destruct strict; auto. exfalso.
      pose proof (outgroup_strict_side false t names t' Hwf Hd Hi ND H) as Hside. fold G in Hside.
      rewrite (side_of_is_side t G ND Hside GN IG Hout) in ES. discriminate. }
    subst strict. cbn [negb andb]. rewrite ST, SK. cbn [negb].
    destruct (outgroup_inside_one_clade false t names t' Hwf Hd Hi ND H)
      as (e1 & c1 & e2 & c2 & HK & _ & Hin).
    fold G in Hin. rewrite HK.
    destruct (sset_eqb (sset G) [] || sset_eqb (sset G) (tipset t)); [reflexivity|].
    assert (Hc : ssubset (sset G) (sset (leaves c1)) || ssubset (sset G) (sset (leaves c2)) = true).
    { destruct Hin as [Hc|Hc]; rewrite (ssubset_of_incl _ _ Hc); auto. apply orb_true_r. }
    now rewrite Hc.
Qed.
