(** Heap model: the invariant [Good h] as a list of clauses about the pointer structure, and
    the proof that the representation invariant [Rep] implies it. *)
From Coq Require Import String ZArith QArith Bool Arith Lia Permutation List.
From GT Require Import Base.UTree Model.Reroot Model.Heap Proofs.Enum Proofs.HeapBase Proofs.HeapRep.
Import ListNotations.
Local Close Scope Q_scope.

(** node [n] lists neighbour [m] through edge [e] (same index in neigh and br) *)
Definition has_slot (h : heap) (n m e : nat) : Prop :=
  exists hn, alookup n (hnodes h) = Some hn /\ In (m, e) (slots_of hn).

(** reachable from the root following edges from their left end to their right end *)
Inductive reach (h : heap) : nat -> Prop :=
| reach_root : reach h (hroot h)
| reach_step : forall n m e ed, reach h n -> has_slot h n m e ->
    alookup e (hedges h) = Some ed -> hleft ed = n -> reach h m.

Record Good (h : heap) : Prop := mkGood {
  (* every id referenced exists; ids are below the allocation counters *)
  g_root : alookup (hroot h) (hnodes h) <> None;
  g_slot_exists : forall n m e, has_slot h n m e ->
      alookup m (hnodes h) <> None /\ alookup e (hedges h) <> None;
  g_fresh_n : forall n, alookup n (hnodes h) <> None -> n < hnextn h;
  g_fresh_e : forall e, alookup e (hedges h) <> None -> e < hnexte h;
  (* neigh and br are parallel *)
  g_len : forall n hn, alookup n (hnodes h) = Some hn -> length (hneigh hn) = length (hbr hn);
  (* adjacency is symmetric, with the same edge on both sides *)
  g_sym : forall n m e, has_slot h n m e -> has_slot h m n e;
  (* the ends of an edge are exactly the two nodes that list it *)
  g_ends : forall n m e ed, has_slot h n m e -> alookup e (hedges h) = Some ed ->
      (hleft ed = n /\ hright ed = m) \/ (hleft ed = m /\ hright ed = n);
  g_edge_listed : forall e ed, alookup e (hedges h) = Some ed -> has_slot h (hleft ed) (hright ed) e;
  (* no node twice in a neighbour list *)
  g_nodup : forall n hn, alookup n (hnodes h) = Some hn -> NoDup (hneigh hn);
  (* every edge points away from the root: its left end is one step nearer *)
  g_rank : exists rank : nat -> nat, rank (hroot h) = 0 /\
      forall e ed, alookup e (hedges h) = Some ed -> rank (hright ed) = S (rank (hleft ed));
  (* no shared child: at most one edge enters a node *)
  g_one_parent : forall n m1 e1 ed1 m2 e2 ed2, has_slot h n m1 e1 -> has_slot h n m2 e2 ->
      alookup e1 (hedges h) = Some ed1 -> alookup e2 (hedges h) = Some ed2 ->
      hright ed1 = n -> hright ed2 = n -> e1 = e2;
  (* connected: every node is reachable from the root *)
  g_reach : forall n, alookup n (hnodes h) <> None -> reach h n
}.

(** * generic list facts *)
Lemma Forall2_in_r {A B} (P : A -> B -> Prop) l l' b :
  Forall2 P l l' -> In b l' -> exists a, In a l /\ P a b.
Proof.
  induction 1 as [|a0 b0 l l' H0 _ IH]; intros Hin; [destruct Hin|].
  destruct Hin as [->|Hin]; [exists a0; split; [left; reflexivity|exact H0]|].
  destruct (IH Hin) as [a [Ha Hp]]. exists a. split; [right; exact Ha|exact Hp].
Qed.

Lemma Forall2_in_l {A B} (P : A -> B -> Prop) l l' a :
  Forall2 P l l' -> In a l -> exists b, In b l' /\ P a b.
Proof.
  induction 1 as [|a0 b0 l l' H0 _ IH]; intros Hin; [destruct Hin|].
  destruct Hin as [->|Hin]; [exists b0; split; [left; reflexivity|exact H0]|].
  destruct (IH Hin) as [b [Hb Hp]]. exists b. split; [right; exact Hb|exact Hp].
Qed.

Lemma Forall2_nth {A B} (P : A -> B -> Prop) l l' j a :
  Forall2 P l l' -> nth_error l j = Some a -> exists b, nth_error l' j = Some b /\ P a b.
Proof.
  intros H. revert j. induction H as [|a0 b0 l l' H0 _ IH]; intros [|j] Hj; cbn in *; try discriminate.
  - injection Hj as <-. exists b0. split; [reflexivity|exact H0].
  - exact (IH j Hj).
Qed.

Lemma NoDup_flat_map_in {A B} (f : A -> list B) l a : NoDup (flat_map f l) -> In a l -> NoDup (f a).
Proof.
  induction l as [|x l IH]; intros H Hin; [destruct Hin|]. cbn in H.
  destruct Hin as [->|Hin].
  - apply NoDup_app_remove_r in H. exact H.
  - apply IH; [|exact Hin]. apply NoDup_app_remove_l in H. exact H.
Qed.

(** two elements of a duplicate-free flat_map that share a member are at the same index *)
Lemma NoDup_flat_map_nth {A B} (f : A -> list B) l j1 j2 a1 a2 x :
  NoDup (flat_map f l) -> nth_error l j1 = Some a1 -> nth_error l j2 = Some a2 ->
  In x (f a1) -> In x (f a2) -> j1 = j2.
Proof.
  revert j1 j2. induction l as [|y l IH]; intros j1 j2 H H1 H2 X1 X2; [destruct j1; discriminate|].
  cbn in H. destruct j1 as [|j1], j2 as [|j2]; cbn in H1, H2.
  - reflexivity.
  - injection H1 as ->. exfalso. apply nth_error_In in H2.
    assert (In x (flat_map f l)) by (apply in_flat_map; exists a2; split; assumption).
    clear - H X1 H0. induction (f a1) as [|z r IHr]; [destruct X1|]. cbn in H. inversion H; subst.
    destruct X1 as [->|X1]; [apply H3; apply in_or_app; right; exact H0|exact (IHr H4 X1)].
  - injection H2 as ->. exfalso. apply nth_error_In in H1.
    assert (In x (flat_map f l)) by (apply in_flat_map; exists a1; split; assumption).
    clear - H X2 H0. induction (f a2) as [|z r IHr]; [destruct X2|]. cbn in H. inversion H; subst.
    destruct X2 as [->|X2]; [apply H3; apply in_or_app; right; exact H0|exact (IHr H4 X2)].
  - f_equal. apply (IH j1 j2); try assumption. apply NoDup_app_remove_l in H. exact H.
Qed.

Lemma NoDup_map_nth {A B} (f : A -> B) (l : list A) :
  (forall j1 j2 a1 a2, nth_error l j1 = Some a1 -> nth_error l j2 = Some a2 -> f a1 = f a2 -> j1 = j2) ->
  NoDup (map f l).
Proof.
  induction l as [|a l IH]; intros H; [constructor|]. cbn. constructor.
  - intros Hin. apply in_map_iff in Hin. destruct Hin as [a' [E Hin]].
    apply In_nth_error in Hin. destruct Hin as [j Hj].
    specialize (H 0 (S j) a a' eq_refl Hj (eq_sym E)). discriminate.
  - apply IH. intros j1 j2 a1 a2 H1 H2 E. specialize (H (S j1) (S j2) a1 a2 H1 H2 E). lia.
Qed.

Lemma lnup_le1_nth sl j1 j2 : lnup sl <= 1 ->
  nth_error sl j1 = Some None -> nth_error sl j2 = Some None -> j1 = j2.
Proof.
  unfold lnup. revert j1 j2. induction sl as [|s sl IH]; intros j1 j2 H H1 H2; [destruct j1; discriminate|].
  assert (Hz : forall j, length (filter (fun s : lslot => match s with None => true | _ => false end) sl) = 0 ->
                         nth_error sl j = Some None -> False).
  { intros j Hl Hj. apply nth_error_In in Hj.
    assert (In None (filter (fun s : lslot => match s with None => true | _ => false end) sl)) as Hf
        by (apply filter_In; split; [exact Hj|reflexivity]).
    destruct (filter _ sl); [destruct Hf|discriminate]. }
  destruct j1 as [|j1], j2 as [|j2]; cbn in H1, H2.
  - reflexivity.
  - injection H1 as ->. cbn in H. exfalso. apply (Hz j2); [lia|exact H2].
  - injection H2 as ->. cbn in H. exfalso. apply (Hz j1); [lia|exact H1].
  - f_equal. apply IH; try assumption. cbn in H. destruct s; cbn in H; lia.
Qed.

Lemma lnup_pos_in sl : 1 <= lnup sl -> In None sl.
Proof.
  unfold lnup. induction sl as [|s sl IH]; cbn; [lia|]. destruct s; cbn; [|left; reflexivity].
  intros H. right. exact (IH H).
Qed.

Lemma lnup_zero_notin sl : lnup sl = 0 -> ~ In None sl.
Proof.
  unfold lnup. induction sl as [|s sl IH]; cbn; [intros _ []|]. destruct s; cbn; [|discriminate].
  intros H [E|Hin]; [discriminate|exact (IH H Hin)].
Qed.

(** * local views of a represented heap *)
Lemma lsubs_NoDup : forall lt prev p sub, NoDup (lids lt) -> In (p, sub) (lsubs prev lt) -> NoDup (lids sub).
Proof.
  induction lt as [i n c sl IH] using ltree_ind'. intros prev p sub Hnd Hin.
  rewrite lsubs_eq in Hin. destruct Hin as [[= <- <-]|Hin]; [exact Hnd|].
  rewrite lids_eq in Hnd. inversion Hnd as [|? ? _ Hnd']; subst.
  apply in_flat_map in Hin. destruct Hin as [s [Hs Hin]].
  rewrite Forall_forall in IH. specialize (IH s Hs).
  pose proof (NoDup_flat_map_in _ _ _ Hnd' Hs) as Hc.
  destruct s as [[[e ei] ch]|]; [|destruct Hin]. eapply IH; eassumption.
Qed.

(** the parent of a sub-node *)
Lemma lsubs_parent : forall lt prev m e sub, In (Some (m, e), sub) (lsubs prev lt) ->
  (prev = Some (m, e) /\ sub = lt) \/
  exists pp nm cm sl ei, In (pp, LNode m nm cm sl) (lsubs prev lt) /\ In (Some (e, ei, sub)) sl.
Proof.
  induction lt as [i n c sl IH] using ltree_ind'. intros prev m e sub Hin.
  rewrite lsubs_eq in Hin. destruct Hin as [[= -> <-]|Hin]; [left; split; reflexivity|]. right.
  apply in_flat_map in Hin. destruct Hin as [s [Hs Hin]].
  rewrite Forall_forall in IH. specialize (IH s Hs).
  destruct s as [[[e' ei] ch]|]; [|destruct Hin].
  destruct (IH _ _ _ _ Hin) as [[[= -> ->] ->]|(pp & nm & cm & sl' & ei' & H1 & H2)].
  - exists prev, n, c, sl, ei. split; [apply lsubs_self|exact Hs].
  - exists pp, nm, cm, sl', ei'. split; [|exact H2].
    eapply lsubs_trans; [|exact H1]. eapply lsubs_child. exact Hs.
Qed.

Lemma lids_head_notin i n c sl : NoDup (lids (LNode i n c sl)) ->
  forall e ei ch, In (Some (e, ei, ch)) sl -> ~ In i (lids ch).
Proof.
  intros Hnd e ei ch Hs Hi. rewrite lids_eq in Hnd. inversion Hnd as [|? ? Hni _]; subst.
  apply Hni. apply in_flat_map. exists (Some (e, ei, ch)). split; assumption.
Qed.

Section RepView.
  Variables (h : heap) (lt : ltree).
  Hypothesis R : Rep h lt.

  (** a node of the heap is a sub-node of [lt], with its slots *)
  Lemma Rep_view n hn : alookup n (hnodes h) = Some hn ->
    exists p nm cm sl, In (p, LNode n nm cm sl) (lsubs None lt) /\
      length (hneigh hn) = length (hbr hn) /\
      Forall2 (slot_ok true h p n) (slots_of hn) sl /\
      NoDup (lids (LNode n nm cm sl)) /\
      ((p = None /\ lnup sl = 0) \/ (exists m e, p = Some (m, e)) /\ lnup sl = 1) /\
      (forall e ei ch, In (Some (e, ei, ch)) sl -> lwf_sub ch).
  Proof.
    intros Hn. assert (In n (lids lt)) as Hin by (apply (rep_nodes _ _ R); congruence).
    destruct (in_lids_lsubs lt None n Hin) as [p [sub [Hs Hl]]]. destruct sub as [i nm cm sl]. cbn in Hl. subst i.
    exists p, nm, cm, sl. split; [exact Hs|].
    pose proof (shape_lsubs _ _ _ _ _ _ (rep_shape _ _ R) Hs) as Sh.
    apply shape_unfold in Sh. destruct Sh as [hn' (H1 & H2 & H3 & H4 & H5)].
    rewrite Hn in H1. injection H1 as <-. split; [exact H4|]. split; [exact H5|].
    split; [eapply lsubs_NoDup; [exact (rep_nd _ _ R)|exact Hs]|].
    destruct (lwf_sub_lsubs lt None p _ (or_introl (rep_wf _ _ R)) Hs) as [[= -> E]|Hw].
    - pose proof (rep_wf _ _ R) as W. rewrite <- E in W. apply lwf_iff in W. destruct W as [W1 W2].
      split; [left; split; [reflexivity|exact W1]|exact W2].
    - apply lwf_sub_iff in Hw. destruct Hw as [W1 W2]. split; [|exact W2]. right. split; [|exact W1].
      destruct p as [[m e]|]; [eauto|]. exfalso.
      assert (In None sl) as Hnone by (apply lnup_pos_in; lia).
      destruct (Forall2_in_r _ _ _ _ H5 Hnone) as [ce [_ Hce]]. cbn in Hce. discriminate.
  Qed.

  (** the parent side of a sub-node entered from (m, e) *)
  Lemma Rep_parent m e sub : In (Some (m, e), sub) (lsubs None lt) ->
    exists hm ed, alookup m (hnodes h) = Some hm /\ In (lid sub, e) (slots_of hm) /\
      alookup e (hedges h) = Some ed /\ hleft ed = m /\ hright ed = lid sub /\ ~ In m (lids sub).
  Proof.
    intros Hin. destruct (lsubs_parent _ _ _ _ _ Hin) as [[E _]|(pp & nm & cm & sl & ei & H1 & H2)]; [discriminate|].
    pose proof (shape_lsubs _ _ _ _ _ _ (rep_shape _ _ R) H1) as Sh.
    apply shape_unfold in Sh. destruct Sh as [hm (A1 & A2 & A3 & A4 & A5)].
    destruct (Forall2_in_r _ _ _ _ A5 H2) as [[c0 e0] [Hce Hok]]. cbn in Hok.
    destruct Hok as (B1 & B2 & B3 & [ed (B4 & B5 & B6 & B7)] & B8). subst e0 c0.
    exists hm, ed. repeat split; try assumption.
    eapply lids_head_notin; [|exact H2]. eapply lsubs_NoDup; [exact (rep_nd _ _ R)|exact H1].
  Qed.
End RepView.

(** * depth in a labelled tree (the rank function) *)
Fixpoint ldepth (x : nat) (lt : ltree) : option nat :=
  match lt with
  | LNode i _ _ sl =>
    if Nat.eqb i x then Some 0
    else (fix go (l : list lslot) : option nat :=
            match l with
            | [] => None
            | None :: r => go r
            | Some (_, _, ch) :: r => match ldepth x ch with Some k => Some (S k) | None => go r end
            end) sl
  end.

Definition ldepth_kids (x : nat) : list lslot -> option nat :=
  fix go (l : list lslot) : option nat :=
    match l with
    | [] => None
    | None :: r => go r
    | Some (_, _, ch) :: r => match ldepth x ch with Some k => Some (S k) | None => go r end
    end.

Lemma ldepth_eq x i n c sl :
  ldepth x (LNode i n c sl) = if Nat.eqb i x then Some 0 else ldepth_kids x sl.
Proof. reflexivity. Qed.

Lemma ldepth_None : forall lt x, ~ In x (lids lt) -> ldepth x lt = None.
Proof.
  induction lt as [i n c sl IH] using ltree_ind'. intros x Hx. rewrite ldepth_eq.
  destruct (Nat.eqb_spec i x) as [->|Hne]; [exfalso; apply Hx; left; reflexivity|].
  rewrite lids_eq in Hx. assert (Hx' : ~ In x (flat_map (fun s : lslot => match s with Some (_, _, ch) => lids ch | None => [] end) sl))
    by (intros H; apply Hx; right; exact H). clear Hx.
  induction IH as [|s sl Hs _ IHsl]; [reflexivity|]. cbn [ldepth_kids].
  destruct s as [[[e ei] ch]|].
  - rewrite Hs; [|intros H; apply Hx'; cbn; apply in_or_app; left; exact H].
    apply IHsl. intros H. apply Hx'. cbn. apply in_or_app. right. exact H.
  - apply IHsl. intros H. apply Hx'. exact H.
Qed.

Lemma ldepth_kids_found x sl e ei ch k :
  NoDup (flat_map (fun s : lslot => match s with Some (_, _, ch) => lids ch | None => [] end) sl) ->
  In (Some (e, ei, ch)) sl -> ldepth x ch = Some k -> In x (lids ch) -> ldepth_kids x sl = Some (S k).
Proof.
  induction sl as [|s sl IH]; intros Hnd Hin Hk Hx; [destruct Hin|]. cbn [ldepth_kids]. cbn [flat_map] in Hnd.
  destruct Hin as [->|Hin]; [rewrite Hk; reflexivity|].
  assert (NoDup (flat_map (fun s : lslot => match s with Some (_, _, ch) => lids ch | None => [] end) sl)) as Hnd'
      by (apply NoDup_app_remove_l in Hnd; exact Hnd).
  destruct s as [[[e' ei'] ch']|]; [|exact (IH Hnd' Hin Hk Hx)].
  rewrite (ldepth_None ch' x); [exact (IH Hnd' Hin Hk Hx)|].
  intros Hx'. assert (In x (flat_map (fun s : lslot => match s with Some (_, _, ch) => lids ch | None => [] end) sl)) as Hx2
      by (apply in_flat_map; exists (Some (e, ei, ch)); split; assumption).
  clear - Hnd Hx' Hx2. induction (lids ch') as [|z r IHr]; [destruct Hx'|]. cbn in Hnd. inversion Hnd; subst.
  destruct Hx' as [->|Hx']; [apply H1; apply in_or_app; right; exact Hx2|exact (IHr H2 Hx')].
Qed.

(** along a child slot the depth grows by one *)
Lemma ldepth_step : forall lt prev p i n c sl e ei ch,
  NoDup (lids lt) -> In (p, LNode i n c sl) (lsubs prev lt) -> In (Some (e, ei, ch)) sl ->
  exists k, ldepth i lt = Some k /\ ldepth (lid ch) lt = Some (S k).
Proof.
  induction lt as [i0 n0 c0 sl0 IH] using ltree_ind'. intros prev p i n c sl e ei ch Hnd Hin Hs.
  rewrite lsubs_eq in Hin. rewrite lids_eq in Hnd. inversion Hnd as [|? ? Hni Hnd']; subst.
  destruct Hin as [[= <- <- <- <- <-]|Hin].
  - exists 0. rewrite !ldepth_eq, Nat.eqb_refl. split; [reflexivity|].
    destruct (Nat.eqb_spec i0 (lid ch)) as [E|_].
    + exfalso. apply Hni. apply in_flat_map. exists (Some (e, ei, ch)). split; [exact Hs|]. rewrite E. apply lid_in_lids.
    + apply (ldepth_kids_found _ _ e ei ch 0 Hnd' Hs); [|apply lid_in_lids].
      destruct ch as [i' n' c' sl']. rewrite ldepth_eq. cbn [lid]. rewrite Nat.eqb_refl. reflexivity.
  - apply in_flat_map in Hin. destruct Hin as [s [Hs0 Hin]].
    rewrite Forall_forall in IH. specialize (IH s Hs0).
    pose proof (NoDup_flat_map_in _ _ _ Hnd' Hs0) as Hc.
    destruct s as [[[e' ei'] ch']|]; [|destruct Hin].
    destruct (IH _ _ _ _ _ _ _ _ _ Hc Hin Hs) as [k [K1 K2]].
    assert (Hi : In i (lids ch')) by (apply (lsubs_in_lids _ _ _ _ Hin)).
    assert (Hc' : In (lid ch) (lids ch')).
    { eapply lsubs_sub_lids; [exact Hin|]. eapply in_lids_child; [exact Hs|apply lid_in_lids]. }
    exists (S k). rewrite !ldepth_eq.
    destruct (Nat.eqb_spec i0 i) as [E|_].
    { exfalso. apply Hni. apply in_flat_map. exists (Some (e', ei', ch')). split; [exact Hs0|]. rewrite E. exact Hi. }
    destruct (Nat.eqb_spec i0 (lid ch)) as [E|_].
    { exfalso. apply Hni. apply in_flat_map. exists (Some (e', ei', ch')). split; [exact Hs0|]. rewrite E. exact Hc'. }
    split; eapply ldepth_kids_found; eassumption.
Qed.

(** * Rep implies Good *)
Lemma slots_of_in_neigh hn m e : In (m, e) (slots_of hn) -> In m (hneigh hn).
Proof. unfold slots_of. intros H. eapply in_combine_l. exact H. Qed.

Section RepGood.
  Variables (h : heap) (lt : ltree).
  Hypothesis R : Rep h lt.

  Lemma RG_has_slot_cases n m e : has_slot h n m e ->
    (exists ed, alookup e (hedges h) = Some ed /\ hleft ed = n /\ hright ed = m /\ has_slot h m n e /\
                alookup m (hnodes h) <> None) \/
    (exists ed, alookup e (hedges h) = Some ed /\ hleft ed = m /\ hright ed = n /\ has_slot h m n e /\
                alookup m (hnodes h) <> None).
  Proof.
    intros [hn [Hn Hin]].
    destruct (Rep_view h lt R n hn Hn) as (p & nm & cm & sl & V1 & V2 & V3 & V4 & V5 & V6).
    destruct (Forall2_in_l _ _ _ _ V3 Hin) as [s [Hs Hok]].
    destruct s as [[[e' ei] ch]|]; cbn [slot_ok fst snd] in Hok.
    - left. destruct Hok as (B1 & B2 & B3 & [ed (B4 & B5 & B6 & B7)] & B8). subst e'.
      exists ed. repeat split; try assumption.
      + (* the child lists us back *)
        specialize (V6 _ _ _ Hs). destruct ch as [i' n' c' sl']. cbn [lid] in *. subst i'.
        apply lwf_sub_iff in V6. destruct V6 as [W1 _].
        apply shape_unfold in B8. destruct B8 as [hm (C1 & C2 & C3 & C4 & C5)].
        assert (In None sl') as Hnone by (apply lnup_pos_in; lia).
        destruct (Forall2_in_r _ _ _ _ C5 Hnone) as [ce [Hce Hc]]. cbn in Hc. injection Hc as <-.
        exists hm. split; assumption.
      + apply (rep_nodes _ _ R). eapply lsubs_sub_lids; [exact V1|]. eapply in_lids_child; [exact Hs|].
        rewrite <- B3. apply lid_in_lids.
    - right. subst p. destruct (Rep_parent h lt R _ _ _ V1) as (hm & ed & P1 & P2 & P3 & P4 & P5 & P6).
      cbn [lid] in *. exists ed. repeat split; try assumption.
      + exists hm. split; assumption.
      + congruence.
  Qed.

  Lemma RG_rank : exists rank : nat -> nat, rank (hroot h) = 0 /\
      forall e ed, alookup e (hedges h) = Some ed -> rank (hright ed) = S (rank (hleft ed)).
  Proof.
    exists (fun x => match ldepth x lt with Some k => k | None => 0 end). split.
    - rewrite (rep_root _ _ R). destruct lt as [i n c sl]. rewrite ldepth_eq. cbn [lid]. rewrite Nat.eqb_refl. reflexivity.
    - intros e ed He. assert (In e (leids lt)) as Hin by (apply (rep_edges _ _ R); congruence).
      destruct (in_leids_lsubs lt None e Hin) as (p & i & n & c & sl & ei & ch & H1 & H2).
      pose proof (shape_lsubs _ _ _ _ _ _ (rep_shape _ _ R) H1) as Sh.
      apply shape_unfold in Sh. destruct Sh as [hm (A1 & A2 & A3 & A4 & A5)].
      destruct (Forall2_in_r _ _ _ _ A5 H2) as [[c0 e0] [Hce Hok]]. cbn in Hok.
      destruct Hok as (B1 & B2 & B3 & [ed' (B4 & B5 & B6 & B7)] & B8). subst e0 c0.
      rewrite He in B4. injection B4 as <-. rewrite B6, B7.
      destruct (ldepth_step lt None p i n c sl e ei ch (rep_nd _ _ R) H1 H2) as [k [K1 K2]].
      rewrite K1, K2. reflexivity.
  Qed.

  Lemma RG_reach_sub : forall sub p, shape true h p sub -> reach h (lid sub) -> forall x, In x (lids sub) -> reach h x.
  Proof.
    induction sub as [i n c sl IH] using ltree_ind'. intros p Sh Hr x Hx.
    rewrite lids_eq in Hx. destruct Hx as [<-|Hx]; [exact Hr|].
    apply in_flat_map in Hx. destruct Hx as [s [Hs Hx]]. rewrite Forall_forall in IH. specialize (IH s Hs).
    destruct s as [[[e ei] ch]|]; [|destruct Hx].
    apply shape_unfold in Sh. destruct Sh as [hm (A1 & A2 & A3 & A4 & A5)].
    destruct (Forall2_in_r _ _ _ _ A5 Hs) as [[c0 e0] [Hce Hok]]. cbn in Hok.
    destruct Hok as (B1 & B2 & B3 & [ed' (B4 & B5 & B6 & B7)] & B8). subst e0 c0.
    apply (IH _ B8); [|exact Hx]. cbn [lid] in Hr.
    eapply reach_step; [exact Hr| |exact B4|exact B6]. exists hm. split; assumption.
  Qed.

  Theorem Rep_Good : Good h.
  Proof.
    constructor.
    - apply (rep_nodes _ _ R). rewrite (rep_root _ _ R). apply lid_in_lids.
    - intros n m e Hs. destruct (RG_has_slot_cases _ _ _ Hs) as [[ed (A & B & C & D & E)]|[ed (A & B & C & D & E)]];
        (split; [exact E|congruence]).
    - intros n Hn. apply (rep_fn _ _ R). apply (rep_nodes _ _ R). exact Hn.
    - intros e He. apply (rep_fe _ _ R). apply (rep_edges _ _ R). exact He.
    - intros n hn Hn. destruct (Rep_view h lt R n hn Hn) as (p & nm & cm & sl & V1 & V2 & _). exact V2.
    - intros n m e Hs. destruct (RG_has_slot_cases _ _ _ Hs) as [[ed (A & B & C & D & E)]|[ed (A & B & C & D & E)]]; exact D.
    - intros n m e ed Hs He. destruct (RG_has_slot_cases _ _ _ Hs) as [[ed' (A & B & C & D & E)]|[ed' (A & B & C & D & E)]];
        rewrite He in A; injection A as <-; [left|right]; split; assumption.
    - intros e ed He. assert (In e (leids lt)) as Hin by (apply (rep_edges _ _ R); congruence).
      destruct (in_leids_lsubs lt None e Hin) as (p & i & n & c & sl & ei & ch & H1 & H2).
      pose proof (shape_lsubs _ _ _ _ _ _ (rep_shape _ _ R) H1) as Sh.
      apply shape_unfold in Sh. destruct Sh as [hm (A1 & A2 & A3 & A4 & A5)].
      destruct (Forall2_in_r _ _ _ _ A5 H2) as [[c0 e0] [Hce Hok]]. cbn in Hok.
      destruct Hok as (B1 & B2 & B3 & [ed' (B4 & B5 & B6 & B7)] & B8). subst e0 c0.
      rewrite He in B4. injection B4 as <-. rewrite B6, B7. exists hm. split; assumption.
    - (* NoDup neigh *)
      intros n hn Hn. destruct (Rep_view h lt R n hn Hn) as (p & nm & cm & sl & V1 & V2 & V3 & V4 & V5 & V6).
      rewrite <- (slots_of_fst hn V2). apply NoDup_map_nth. intros j1 j2 [m1 e1] [m2 e2] J1 J2 E. cbn in E. subst m2.
      destruct (Forall2_nth _ _ _ _ _ V3 J1) as [s1 [S1 O1]]. destruct (Forall2_nth _ _ _ _ _ V3 J2) as [s2 [S2 O2]].
      rewrite lids_eq in V4. inversion V4 as [|? ? Hni Hnd']; subst.
      destruct s1 as [[[e1' ei1] ch1]|], s2 as [[[e2' ei2] ch2]|]; cbn [slot_ok fst snd] in O1, O2.
      + destruct O1 as (_ & _ & L1 & _). destruct O2 as (_ & _ & L2 & _).
        eapply (NoDup_flat_map_nth _ _ _ _ _ _ m1 Hnd' S1 S2); cbn; [rewrite <- L1|rewrite <- L2]; apply lid_in_lids.
      + exfalso. subst p. destruct O1 as (_ & _ & L1 & _).
        destruct (Rep_parent h lt R _ _ _ V1) as (hm & ed & P1 & P2 & P3 & P4 & P5 & P6). apply P6.
        eapply in_lids_child; [eapply nth_error_In; exact S1|]. rewrite <- L1. apply lid_in_lids.
      + exfalso. subst p. destruct O2 as (_ & _ & L2 & _).
        destruct (Rep_parent h lt R _ _ _ V1) as (hm & ed & P1 & P2 & P3 & P4 & P5 & P6). apply P6.
        eapply in_lids_child; [eapply nth_error_In; exact S2|]. rewrite <- L2. apply lid_in_lids.
      + eapply (lnup_le1_nth sl); [|exact S1|exact S2]. destruct V5 as [[_ V5]|[_ V5]]; lia.
    - exact RG_rank.
    - (* one parent *)
      intros n m1 e1 ed1 m2 e2 ed2 [hn [Hn I1]] [hn' [Hn' I2]] E1 E2 R1 R2.
      rewrite Hn in Hn'. injection Hn' as <-.
      destruct (Rep_view h lt R n hn Hn) as (p & nm & cm & sl & V1 & V2 & V3 & V4 & V5 & V6).
      assert (Hcase : forall m e ed, In (m, e) (slots_of hn) -> alookup e (hedges h) = Some ed -> hright ed = n -> p = Some (m, e)).
      { intros m e ed I E Rr. destruct (Forall2_in_l _ _ _ _ V3 I) as [s [Hs Hok]].
        destruct s as [[[e' ei] ch]|]; cbn [slot_ok fst snd] in Hok; [|exact Hok]. exfalso.
        destruct Hok as (B1 & B2 & B3 & [ed' (B4 & B5 & B6 & B7)] & B8). rewrite E in B4. injection B4 as <-.
        eapply (lids_head_notin _ _ _ _ V4 _ _ _ Hs). rewrite <- Rr, B7, <- B3. apply lid_in_lids. }
      pose proof (Hcase _ _ _ I1 E1 R1) as P1. pose proof (Hcase _ _ _ I2 E2 R2) as P2. congruence.
    - intros n Hn. apply (rep_nodes _ _ R) in Hn.
      apply (RG_reach_sub lt None (rep_shape _ _ R)); [|exact Hn]. rewrite <- (rep_root _ _ R). constructor.
  Qed.
End RepGood.
