(** C09, rooted inputs: the tree the loop works on ([prep_input t] = UnRoot of a Clone when the
    root has degree 2) contains exactly the bipartitions of [t] in the sense of the specification
    ([usplits], which merges the two root branches).  Hence the Count of a bipartition is the
    specification's [freq_count] for rooted inputs too, and the selection is invariant under
    re-rooting, reordering and permutation of the inputs. *)
From Coq Require Import String NArith ZArith QArith Bool Arith Lia List Permutation.
From GT Require Import Base.UTree Spec.Obs Spec.Unrooted Spec.CompareSpec Spec.ConsensusSpec Model.Reroot Model.Index Model.EdgeIndex
     Model.Compare Model.Consensus
     Proofs.RerootBase Proofs.Reroot Proofs.Unroot Proofs.Reorder Proofs.Splits Proofs.USplits
     Proofs.IndexTree Proofs.IndexSplit Proofs.CompareBase Proofs.CompareTree Proofs.CompareMain Proofs.CompareWeighted
     Proofs.ConsensusCount Proofs.ConsensusMain Proofs.ConsensusFreq.
Import ListNotations.
Local Close Scope Q_scope.
Local Arguments leaves : simpl never.

(** * Clone only moves the parent slot to the front *)
Definition cl_slot (s : slot) : slot := match s with Some (e, ch) => Some (e, clone_sub ch) | None => None end.
Definition cl_kids (sl : list slot) : list slot :=
  flat_map (fun s => match s with Some (e, ch) => [Some (e, clone_sub ch)] | None => [] end) sl.

Lemma clone_sub_unfold n c sl : clone_sub (UNode n c sl) = UNode n c (None :: cl_kids sl).
Proof. reflexivity. Qed.
Lemma clone_unfold n c sl : clone (UNode n c sl) = UNode n c (cl_kids sl).
Proof. reflexivity. Qed.

Lemma cl_perm sl : Permutation (map cl_slot sl) (repeat None (n_up sl) ++ cl_kids sl).
Proof.
  unfold n_up, cl_kids. induction sl as [|[[e ch]|] r IH]; simpl; auto.
  apply Permutation_cons_app. exact IH.
Qed.

Lemma tperm_clone_sub c : wf_sub c = true -> tperm c (clone_sub c).
Proof.
  induction c as [n cm sl IH] using utree_ind'. intros W.
  apply wf_sub_inv in W. destruct W as [Hup Hch].
  rewrite clone_sub_unfold. apply tperm_unfold. repeat split; auto.
  exists (map cl_slot sl). split.
  - pose proof (cl_perm sl) as P. rewrite Hup in P. exact P.
  - clear Hup. induction sl as [|s r IHr]; [constructor|].
    inversion IH as [|? ? Hs Hr]; subst. simpl in Hch. apply andb_prop in Hch. destruct Hch as [Hc Hch].
    constructor; [|apply IHr; auto].
    destruct s as [[e ch]|]; simpl; auto.
Qed.

Lemma tperm_clone t : wf t = true -> tperm t (clone t).
Proof.
  destruct t as [n cm sl]. intros W. apply wf_inv in W. destruct W as [Hup Hch].
  rewrite clone_unfold. apply tperm_unfold. repeat split; auto.
  exists (map cl_slot sl). split.
  - pose proof (cl_perm sl) as P. rewrite Hup in P. exact P.
  - clear Hup. induction sl as [|s r IHr]; [constructor|].
    simpl in Hch. apply andb_prop in Hch. destruct Hch as [Hc Hch].
    constructor; [|apply IHr; auto].
    destruct s as [[e ch]|]; simpl; auto. split; auto. now apply tperm_clone_sub.
Qed.

Lemma tperm_is_tip a b : tperm a b -> is_tip b = is_tip a.
Proof. intros H. unfold is_tip. now rewrite (tperm_degree a b H). Qed.

Lemma clone_inner_child t : wf t = true -> root_has_inner_child t = true -> root_has_inner_child (clone t) = true.
Proof.
  destruct t as [n cm sl]. intros W H. apply wf_inv in W. destruct W as [_ Hch].
  unfold root_has_inner_child, kids in *. rewrite clone_unfold. simpl uslots in *.
  apply existsb_exists in H. destruct H as ([e ch] & Hin & Ht). simpl in Ht.
  apply existsb_exists. exists (e, clone_sub ch). split.
  - unfold kids_of, cl_kids in *. apply in_flat_map in Hin. destruct Hin as ([[e' c']|] & Hs & Hp); simpl in Hp; [|contradiction].
    destruct Hp as [Hp|[]]. inversion Hp; subst.
    apply in_flat_map. exists (Some (e, clone_sub ch)). split; [|now left].
    apply in_flat_map. exists (Some (e, ch)). split; auto. now left.
  - simpl. rewrite (tperm_is_tip ch (clone_sub ch)); auto. apply tperm_clone_sub.
    unfold kids_of in Hin. apply in_flat_map in Hin. destruct Hin as ([[e' c']|] & Hs & Hp); simpl in Hp; [|contradiction].
    destruct Hp as [Hp|[]]. inversion Hp; subst. apply (children_wf_in _ _ _ Hch Hs).
Qed.

(** * the prepared tree has the bipartitions of the input *)
Definition has_split (t : utree) (k : key) : bool := tree_has t k.

Lemma orel_is_some R o o' : orel R o o' -> is_some o = is_some o'.
Proof. destruct o, o'; simpl; tauto. Qed.

Lemma tree_has_is_some t k : tree_has t k = is_some (find_split k (usplits t)).
Proof. unfold tree_has, tree_split. destruct (find_split k (usplits t)); reflexivity. Qed.

Theorem tperm_tree_has t t' k : tperm t t' -> tree_has t' k = tree_has t k.
Proof. intros H. rewrite !tree_has_is_some. apply (orel_is_some _ _ _ (tperm_usplits t t' H k)). Qed.

Theorem reroot_tree_has t i t' k :
  wf t = true -> 2 <= degree t -> NoDup (leaves t) -> reroot t i = Ok t' -> tree_has t' k = tree_has t k.
Proof. intros W D N H. rewrite !tree_has_is_some. apply (orel_is_some _ _ _ (reroot_usplits t i t' W D N H k)). Qed.

Theorem prep_tree_has t k :
  wf t = true -> NoDup (leaves t) -> (rooted t = true -> root_has_inner_child t = true) ->
  tree_has (prep_input t) k = tree_has t k.
Proof.
  intros W ND RI. unfold prep_input. destruct (rooted t) eqn:R; [|reflexivity].
  pose proof (tperm_clone t W) as T.
  rewrite <- (tperm_tree_has t (clone t) k T).
  rewrite !tree_has_is_some. apply (orel_is_some split_weq).
  apply unroot_usplits.
  - apply (tperm_wf t); auto.
  - unfold rooted in *. now rewrite (tperm_degree t (clone t) T).
  - apply clone_inner_child; auto.
  - eapply Permutation_NoDup; [apply Permutation_sym, (tperm_leaves t (clone t) T)|]. exact ND.
Qed.

(** * frequencies in the vocabulary of the specification, rooted inputs included *)
Definition input_ok (t : utree) : Prop :=
  wf t = true /\ NoDup (leaves t) /\ (rooted t = true -> root_has_inner_child t = true) /\ dupfree (prep_input t).

Theorem tree_freq_spec_gen s ts : Forall input_ok ts -> tree_freq s ts = freq_count ts (sside s).
Proof.
  intros F. unfold tree_freq, freq_count. f_equal. apply filter_ext_in'. intros t Ht.
  rewrite Forall_forall in F. destruct (F t Ht) as (W & ND & RI & D).
  rewrite <- (prep_tree_has t (sside s) W ND RI).
  unfold psplits. rewrite <- (usplits_dupfree _ D).
  rewrite tree_has_is_some. apply find_split_has_key.
Qed.

Corollary selected_iff_freq_count_gen t0 r c64 :
  ok_input t0 -> dupfree (prep_input t0) -> Forall (member t0) r -> Forall input_ok (t0 :: r) ->
  exists a, cons_counts_assoc (t0 :: r) = Some (Ok (a, Z.of_nat (length (t0 :: r)))) /\
    forall k c l, In (k, (c, l)) a ->
      exists tj s, In tj (t0 :: r) /\ key_of (prep_input tj) k s /\
                   c = Z.of_nat (freq_count (t0 :: r) (sside s)) /\
                   (In (k, (c, l)) (filter (fun kv => keep_split c64 (Z.of_nat (length (t0 :: r))) (fst (snd kv))) a)
                    <-> keep_split c64 (Z.of_nat (length (t0 :: r))) (Z.of_nat (freq_count (t0 :: r) (sside s))) = true).
Proof.
  intros G0 D0 FM FI.
  destruct (selected_iff_frequency t0 r c64 G0 D0 FM) as (a & E & H).
  exists a. split; auto. intros k c l Hin.
  destruct (H k c l Hin) as (tj & s & Hj & Hk & Ec & Hsel).
  exists tj, s. rewrite <- (tree_freq_spec_gen s (t0 :: r) FI). auto.
Qed.

(** * the frequency, hence the selection, does not depend on the order of the collection, nor on
    the rooting or the order of the children of each input *)
Theorem freq_count_perm ts ts' k : Permutation ts ts' -> freq_count ts k = freq_count ts' k.
Proof. intros P. unfold freq_count. apply Permutation_length. now apply CompareCor.filter_perm'. Qed.

Theorem freq_count_pointwise ts ts' k :
  Forall2 (fun t t' => tree_has t' k = tree_has t k) ts ts' -> freq_count ts' k = freq_count ts k.
Proof.
  intros F. unfold freq_count. induction F as [|t t' ts ts' H F IH]; simpl; auto.
  rewrite H. destruct (tree_has t k); simpl; auto.
Qed.

Corollary freq_count_tperm ts ts' k : Forall2 tperm ts ts' -> freq_count ts' k = freq_count ts k.
Proof.
  intros F. apply freq_count_pointwise. induction F; constructor; auto. now apply tperm_tree_has.
Qed.

Corollary freq_count_reroot ts ts' k :
  Forall2 (fun t t' => wf t = true /\ 2 <= degree t /\ NoDup (leaves t) /\ exists i, reroot t i = Ok t') ts ts' ->
  freq_count ts' k = freq_count ts k.
Proof.
  intros F. apply freq_count_pointwise. induction F as [|t t' ts ts' (W & D & N & i & R) F IH]; constructor; auto.
  now apply (reroot_tree_has t i).
Qed.

Lemma Forall2_length' {A B} (R : A -> B -> Prop) l l' : Forall2 R l l' -> length l = length l'.
Proof. induction 1; simpl; auto. Qed.

(** the decision of the code on a split of given key: same for both collections *)
Corollary selection_invariant c64 ts ts' k :
  (exists ts1, Permutation ts ts1 /\ Forall2 (fun t t' => tree_has t' k = tree_has t k) ts1 ts') ->
  keep_split c64 (Z.of_nat (length ts')) (Z.of_nat (freq_count ts' k)) =
  keep_split c64 (Z.of_nat (length ts)) (Z.of_nat (freq_count ts k)).
Proof.
  intros (ts1 & P & F).
  rewrite (freq_count_pointwise ts1 ts' k F), <- (freq_count_perm ts ts1 k P).
  rewrite <- (Forall2_length' _ _ _ F), <- (Permutation_length P). reflexivity.
Qed.

(** the hypotheses are satisfiable by a rooted input: ((a,b),(c,d)) *)
Local Open Scope string_scope.
Definition wit_rooted : utree :=
  UNode "" [] [CompareCor.br (UNode "" [] [None; CompareCor.br (CompareCor.tipn "a"); CompareCor.br (CompareCor.tipn "b")]);
               CompareCor.br (UNode "" [] [None; CompareCor.br (CompareCor.tipn "c"); CompareCor.br (CompareCor.tipn "d")])].

Lemma nodup_concrete (l : list (list string)) :
  (fix chk (l : list (list string)) : bool :=
     match l with [] => true | x :: r => negb (existsb (fun y => list_eqb String.eqb x y) r) && chk r end) l = true ->
  NoDup l.
Proof.
  induction l as [|x r IH]; intros H; constructor.
  - apply andb_prop in H. destruct H as [H _]. apply negb_true_iff in H. intro Hin.
    assert (existsb (fun y => list_eqb String.eqb x y) r = true).
    { apply existsb_exists. exists x. split; auto. apply USplits.list_eqb_eq. reflexivity. }
    congruence.
  - apply IH. apply andb_prop in H. apply H.
Qed.

Example rooted_input_inhabited :
  rooted wit_rooted = true /\ ok_input wit_rooted /\ input_ok wit_rooted /\ member wit_rooted wit_rooted.
Proof.
  assert (N : NoDup ["a"; "b"; "c"; "d"]).
  { repeat constructor; simpl; intuition discriminate. }
  assert (L1 : leaves wit_rooted = ["a"; "b"; "c"; "d"]) by (vm_compute; reflexivity).
  assert (L2 : leaves (prep_input wit_rooted) = ["a"; "b"; "c"; "d"]) by (vm_compute; reflexivity).
  assert (G : ok_input wit_rooted).
  { unfold ok_input, good. rewrite L2. repeat split; auto; vm_compute; auto. }
  assert (D : dupfree (prep_input wit_rooted)).
  { unfold dupfree. apply nodup_concrete. vm_compute. reflexivity. }
  split; [reflexivity|]. split; [exact G|]. split.
  - unfold input_ok. rewrite L1. repeat split; auto.
  - unfold member. repeat split; auto; apply G.
Qed.
