(** Keys of [pairdists]: with distinct tip names every ordered pair of different tips occurs
    exactly once.  (These lemmas are copied from Proofs/MatrixCells.v, which belongs to another
    property, so that the C06/C07 developments do not depend on it.) *)
From Coq Require Import String ZArith QArith Bool Arith Lia List Permutation Sorted Setoid Morphisms.
From GT Require Import Base.UTree Spec.Obs Model.Reroot Spec.Unrooted Proofs.RerootBase Proofs.PruneBase.
Import ListNotations.
Local Close Scope Q_scope.
Local Arguments n_up : simpl never.

Lemma Forall_slots_kids (P : utree -> Prop) sl :
  Forall (fun s : slot => match s with Some (_, t) => P t | None => True end) sl ->
  Forall (fun p : einfo * utree => P (snd p)) (kids_of sl).
Proof. induction 1 as [|[[e c]|] r H _ IH]; simpl; auto. Qed.

Lemma NoDup_app_intro {A} (a b : list A) :
  NoDup a -> NoDup b -> (forall x, In x a -> In x b -> False) -> NoDup (a ++ b).
Proof.
  induction a as [|x a IH]; simpl; intros Ha Hb Hd; auto.
  inversion Ha as [|? ? Hx Ha0]; subst. constructor.
  - rewrite in_app_iff. intros [H|H]; [auto|]. eapply Hd; eauto.
  - apply IH; auto. intros y Hy. apply Hd. auto.
Qed.
Lemma NoDup_app_l {A} (a b : list A) : NoDup (a ++ b) -> NoDup a.
Proof.
  induction a as [|x a IH]; simpl; intros H; [constructor|].
  inversion H as [|? ? Hx H0]; subst. constructor; eauto. rewrite in_app_iff in Hx. tauto.
Qed.
Lemma NoDup_app_r {A} (a b : list A) : NoDup (a ++ b) -> NoDup b.
Proof. induction a as [|x a IH]; simpl; intros H; auto. inversion H; auto. Qed.
Lemma NoDup_app_disjoint {A} (a b : list A) x : NoDup (a ++ b) -> In x a -> In x b -> False.
Proof.
  induction a as [|y a IH]; simpl; intros H Ha Hb; [tauto|].
  inversion H as [|? ? Hy H0]; subst. destruct Ha as [->|Ha]; [|eauto].
  apply Hy. rewrite in_app_iff. auto.
Qed.

Lemma NoDup_prod {A B} (l : list A) (l' : list B) : NoDup l -> NoDup l' -> NoDup (list_prod l l').
Proof.
  induction l as [|x l IH]; simpl; intros Hl Hl'; [constructor|].
  inversion Hl as [|? ? Hx Hl0]; subst. apply NoDup_app_intro; auto.
  - apply FinFun.Injective_map_NoDup; auto. intros a b E. now inversion E.
  - intros [a b] X1 X2. rewrite in_map_iff in X1. destruct X1 as [y [E _]]. inversion E; subst.
    apply in_prod_iff in X2. tauto.
Qed.

Lemma PermR_map_perm {A B} (R : A -> A -> Prop) (f : A -> B) l l' :
  (forall x y, R x y -> f x = f y) -> PermR R l l' -> Permutation (map f l) (map f l').
Proof.
  intros Hf. induction 1; simpl.
  - constructor.
  - rewrite (Hf x y H). constructor; auto.
  - apply perm_swap.
  - etransitivity; eauto.
Qed.

(** * keys of [pairdists] *)
Definition keys (l : list (string * string * Q)) : list (string * string) := map fst l.

Lemma keys_app a b : keys (a ++ b) = keys a ++ keys b.
Proof. apply map_app. Qed.

Lemma keys_cross a b : keys (cross a b) = list_prod (map fst a) (map fst b).
Proof.
  unfold keys, cross. induction a as [|x a IH]; simpl; auto.
  rewrite map_app, IH, !map_map. reflexivity.
Qed.

Lemma keys_perm l l' : Permutation l l' -> Permutation (keys l) (keys l').
Proof. apply Permutation_map. Qed.

Lemma keys_dists_equiv l l' : dists_equiv l l' -> Permutation (keys l) (keys l').
Proof. apply PermR_map_perm. intros x y [H _]. exact H. Qed.

Definition names (d : list (string * Q)) : list string := map fst d.

Lemma names_concat ds : names (concat ds) = concat (map names ds).
Proof. unfold names. now rewrite concat_map. Qed.

(** the keys of [cross_all ds] are distinct pairs joining two different elements of [ds] *)
Lemma cross_all_keys ds :
  NoDup (concat (map names ds)) ->
  NoDup (keys (cross_all ds)) /\
  (forall a b, In (a, b) (keys (cross_all ds)) ->
               In a (concat (map names ds)) /\ In b (concat (map names ds)) /\ a <> b /\
               forall d, In d ds -> ~ (In a (names d) /\ In b (names d))).
Proof.
  induction ds as [|d r IH]; intros Hn.
  - simpl. split; [constructor|]. intros a b [].
  - simpl map in Hn. simpl concat in Hn.
    assert (Hnd := NoDup_app_l _ _ Hn). assert (Hnr := NoDup_app_r _ _ Hn).
    destruct (IH Hnr) as [IH1 IH2]. clear IH.
    assert (P := keys_perm _ _ (cross_all_cons d r)).
    unfold symcross in P. rewrite !keys_app, !keys_cross in P.
    fold (names d) in P. fold (names (concat r)) in P. rewrite names_concat in P.
    set (Nd := names d) in *. set (NC := concat (map names r)) in *.
    assert (Hdisj : forall x, In x Nd -> In x NC -> False).
    { intros x. apply (NoDup_app_disjoint _ _ x Hn). }
    split.
    + eapply Permutation_NoDup; [symmetry; exact P|].
      apply NoDup_app_intro; [apply NoDup_app_intro|exact IH1|].
      * now apply NoDup_prod.
      * now apply NoDup_prod.
      * intros [a b] H1 H2. apply in_prod_iff in H1. apply in_prod_iff in H2.
        apply (Hdisj a); tauto.
      * intros [a b] H1 H2. destruct (IH2 a b H2) as [Ha [Hb _]].
        rewrite in_app_iff in H1. destruct H1 as [H1|H1]; apply in_prod_iff in H1.
        -- apply (Hdisj a); tauto.
        -- apply (Hdisj b); tauto.
    + intros a b Hin. simpl map. simpl concat. fold Nd. fold NC.
      apply (Permutation_in _ P) in Hin. rewrite !in_app_iff in Hin.
      destruct Hin as [[H|H]|H].
      * apply in_prod_iff in H. destruct H as [Ha Hb]. rewrite !in_app_iff.
        split; [auto|]. split; [auto|]. split.
        -- intros ->. eauto.
        -- intros d' [<-|Hd'] [Xa Xb].
           ++ eauto.
           ++ apply (Hdisj a); auto. unfold NC. apply in_concat. exists (names d').
              split; auto. now apply in_map.
      * apply in_prod_iff in H. destruct H as [Ha Hb]. rewrite !in_app_iff.
        split; [auto|]. split; [auto|]. split.
        -- intros ->. eauto.
        -- intros d' [<-|Hd'] [Xa Xb].
           ++ eauto.
           ++ apply (Hdisj b); auto. unfold NC. apply in_concat. exists (names d').
              split; auto. now apply in_map.
      * destruct (IH2 a b H) as [Ha [Hb [Hab Hs]]]. rewrite !in_app_iff.
        split; [auto|]. split; [auto|]. split; [auto|].
        intros d' [<-|Hd'] [Xa Xb]; [|apply (Hs d'); auto].
        apply (Hdisj a); auto.
Qed.

Section Keys.
  Variable w : einfo -> Q.

  Lemma names_kD ks : map names (kD w ks) = map (fun p => leaves (snd p)) ks.
  Proof.
    unfold kD, names. rewrite map_map. apply map_ext. intros [e c]. simpl.
    now rewrite shift_names, depths_names.
  Qed.

  Lemma concat_leaves ks : concat (map (fun p : einfo * utree => leaves (snd p)) ks) = kleaves ks.
  Proof. unfold kleaves. now rewrite flat_map_concat_map. Qed.

  Theorem pairdists_keys t :
    NoDup (leaves t) ->
    NoDup (keys (pairdists w t)) /\ forall a b d, In (a, b, d) (pairdists w t) -> a <> b.
  Proof.
    induction t as [n c sl IH] using utree_ind'. intros Hn.
    apply Forall_slots_kids in IH.
    rewrite pairdists_unfold. rewrite leaves_unfold in Hn.
    destruct (kids_of sl) as [|k0 K] eqn:E.
    { simpl. split; [constructor|]. intros a b d []. }
    rewrite <- E in *. clear E k0 K.
    set (ks := kids_of sl) in *.
    assert (Hc : NoDup (concat (map names (kD w ks)))) by (rewrite names_kD, concat_leaves; exact Hn).
    destruct (cross_all_keys _ Hc) as [C1 C2].
    (* the part below the children *)
    assert (Hk : NoDup (keys (kpd w ks)) /\
                 (forall a b, In (a, b) (keys (kpd w ks)) ->
                              a <> b /\ exists p, In p ks /\ In a (leaves (snd p)) /\ In b (leaves (snd p)))).
    { clear C1 C2 Hc. unfold kpd. induction IH as [|p r Hp _ IHr]; simpl.
      - split; [constructor|]. intros a b [].
      - unfold kleaves in Hn. simpl in Hn. fold (kleaves r) in Hn.
        destruct (Hp (NoDup_app_l _ _ Hn)) as [P1 P2].
        destruct (IHr (NoDup_app_r _ _ Hn)) as [R1 R2].
        rewrite keys_app. split.
        + apply NoDup_app_intro; auto.
          intros [a b] H1 H2. destruct (R2 a b H2) as [_ [q [Hq [Ha _]]]].
          unfold keys in H1. rewrite in_map_iff in H1. destruct H1 as [[[a' b'] d] [E H1]].
          simpl in E. inversion E; subst. apply pairdists_names in H1. destruct H1 as [Xa _].
          apply (NoDup_app_disjoint _ _ a Hn Xa). unfold kleaves. apply in_flat_map. eauto.
        + intros a b H. rewrite in_app_iff in H. destruct H as [H|H].
          * unfold keys in H. rewrite in_map_iff in H. destruct H as [[[a' b'] d] [E H]].
            simpl in E. inversion E; subst. split; [eapply P2; eauto|].
            exists p. split; [now left|]. now apply pairdists_names in H.
          * destruct (R2 a b H) as [Hab [q [Hq Hl]]]. split; auto. exists q. split; [now right|auto]. }
    destruct Hk as [K1 K2].
    split.
    - rewrite keys_app. apply NoDup_app_intro; auto.
      intros [a b] H1 H2. destruct (C2 a b H1) as [_ [_ [_ Hs]]].
      destruct (K2 a b H2) as [_ [p [Hp [Ha Hb]]]].
      apply (Hs (shift (w (fst p)) (depths w (snd p)))).
      + unfold kD. apply in_map_iff. exists p. auto.
      + unfold names. rewrite shift_names, depths_names. auto.
    - intros a b d H. rewrite in_app_iff in H. destruct H as [H|H].
      + apply (in_map fst) in H. simpl in H. now destruct (C2 a b H) as [_ [_ [Hab _]]].
      + apply (in_map fst) in H. simpl in H. now destruct (K2 a b H).
  Qed.

End Keys.
