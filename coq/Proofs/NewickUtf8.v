(** The reader's rune decoding ([utf8_sanitize]) leaves the writer's text unchanged when the
    names and comments of the tree are valid UTF-8 text and numbers print as ASCII. *)
From Coq Require Import String Ascii ZArith QArith Bool Arith Lia List.
From GT Require Import Base.UTree Model.Newick Spec.NewickSpec
     Proofs.NewickLex Proofs.NewickCanon.
Import ListNotations.
Local Close Scope Q_scope.
Local Open Scope string_scope.

(** decoding [s] from a clean state copies it and ends in a clean state *)
Definition tok_ok (s : string) : Prop := ufold uclean s = (s, uclean).

Lemma ufold_app : forall a b st,
    ufold st (a ++ b) =
    let '(o1, st1) := ufold st a in let '(o2, st2) := ufold st1 b in (o1 ++ o2, st2).
Proof.
  induction a as [|c a IH]; intros b st.
  - simpl. destruct (ufold st b). reflexivity.
  - simpl. destruct (ufeed st c) as [o st1]. rewrite IH.
    destruct (ufold st1 a) as [o1 st2]. destruct (ufold st2 b) as [o2 st3].
    rewrite app_assoc_s. reflexivity.
Qed.

Lemma tok_ok_app : forall a b, tok_ok a -> tok_ok b -> tok_ok (a ++ b).
Proof.
  intros a b Ha Hb. unfold tok_ok in *. rewrite ufold_app, Ha, Hb. reflexivity.
Qed.

Lemma tok_ok_empty : tok_ok "".
Proof. reflexivity. Qed.

Definition is_ascii (c : ascii) : bool := Nat.ltb (nat_of_ascii c) 128.

Lemma tok_ok_ascii : forall s, forall_chars is_ascii s = true -> tok_ok s.
Proof.
  induction s as [|c s IH]; intros H; [reflexivity|].
  simpl in H. apply andb_true_iff in H. destruct H as [Hc Hs].
  unfold tok_ok. cbn [ufold]. change (ufeed uclean c) with (ustart c).
  unfold ustart. unfold is_ascii in Hc. rewrite Hc. cbv beta iota zeta.
  pose proof (IH Hs) as IH'. unfold tok_ok in IH'. rewrite IH'. reflexivity.
Qed.

Lemma sanitize_ok : forall s, tok_ok s -> utf8_sanitize s = s.
Proof.
  intros s H. unfold utf8_sanitize. rewrite H. simpl. apply app_empty_r.
Qed.

(** a state with nothing needed is the clean state *)
Lemma ustart_state : forall c o st, ustart c = (o, st) -> st = uclean \/ 1 <= uneed st.
Proof.
  intros c o st H. unfold ustart in H.
  repeat break_match_hyp; inversion H; subst; simpl; auto.
Qed.

Lemma ufeed_state : forall st c o st', ufeed st c = (o, st') -> st' = uclean \/ 1 <= uneed st'.
Proof.
  intros st c o st' H. unfold ufeed in H.
  destruct (uneed st) as [|k]; [eapply ustart_state; eassumption|].
  destruct (Nat.leb (ulo st) (nat_of_ascii c) && Nat.leb (nat_of_ascii c) (uhi st)).
  - destruct k; inversion H; subst; simpl; auto. right. lia.
  - destruct (ustart c) as [o1 st1] eqn:E. inversion H; subst. eapply ustart_state; eassumption.
Qed.

Lemma ufold_state : forall s st o st',
    ufold st s = (o, st') -> (st = uclean \/ 1 <= uneed st) -> st' = uclean \/ 1 <= uneed st'.
Proof.
  induction s as [|c s IH]; intros st o st' H Hst.
  - simpl in H. inversion H; subst. exact Hst.
  - simpl in H. destruct (ufeed st c) as [o1 st1] eqn:E.
    destruct (ufold st1 s) as [o2 st2] eqn:E2. inversion H; subst.
    eapply IH; [exact E2|]. eapply ufeed_state; eassumption.
Qed.

Lemma text_ok_tok : forall s, text_ok s = true -> tok_ok s.
Proof.
  intros s H. unfold text_ok in H. unfold tok_ok.
  destruct (ufold uclean s) as [o st] eqn:E.
  apply andb_true_iff in H. destruct H as [H1 H2].
  apply String.eqb_eq in H1. apply Nat.eqb_eq in H2. subst o.
  destruct (ufold_state s uclean s st E (or_introl eq_refl)) as [Hc|Hc]; [subst; reflexivity|lia].
Qed.

Section Utf8.
  Variable fmt : Q -> string.
  Variable numeric : string -> bool.
  Variable parse_num : string -> option Q.
  Variable numok : Q -> bool.
  Hypothesis SC : strconv_ok fmt numeric parse_num numok.

  Notation write_node := (write_node fmt).
  Notation deco := (deco fmt).
  Notation joinF := (joinF fmt).

  Lemma tok_ok_fmt : forall x, numok x = true -> tok_ok (fmt x).
  Proof.
    intros x H. apply tok_ok_ascii.
    eapply forall_chars_impl; [|exact (h_fmt_chars _ _ _ _ SC x H)].
    intros c Hc. unfold num_char in Hc. apply andb_true_iff in Hc. destruct Hc as [_ Hc]. exact Hc.
  Qed.

  Lemma tok_ok_coms : forall cs, forallb comment_ok cs = true -> tok_ok (write_coms cs).
  Proof.
    induction cs as [|c cs IH]; intros H; [reflexivity|].
    simpl in H. apply andb_true_iff in H. destruct H as [Hc Hcs].
    unfold write_coms. simpl fold_right.
    change (tok_ok ("[" ++ c ++ "]" ++ write_coms cs)).
    apply tok_ok_app; [reflexivity|]. apply tok_ok_app.
    - apply text_ok_tok. unfold comment_ok in Hc. apply andb_true_iff in Hc. tauto.
    - apply tok_ok_app; [reflexivity|]. apply IH. exact Hcs.
  Qed.

  Lemma tok_ok_num : forall x, num_ok numok x = true -> present x = true -> tok_ok (fmt x).
  Proof.
    intros x H Hp. apply tok_ok_fmt. unfold num_ok in H. rewrite Hp in H. exact H.
  Qed.

  Lemma tok_ok_deco : forall e ch,
      edge_ok numok e (uname ch) = true -> forallb comment_ok (ucom ch) = true -> tok_ok (deco e ch).
  Proof.
    intros e ch He Hc. unfold edge_ok in He.
    repeat (apply andb_true_iff in He; destruct He as [He ?]).
    unfold Newick.deco.
    apply tok_ok_app; [|apply tok_ok_app; [apply tok_ok_coms; exact Hc|apply tok_ok_app]].
    - destruct (present (esup e) && String.eqb (uname ch) "") eqn:E; [|reflexivity].
      apply andb_true_iff in E. destruct E as [E _].
      apply tok_ok_app; [apply tok_ok_num; assumption|].
      destruct (present (epv e)) eqn:E2; [|reflexivity].
      apply tok_ok_app; [reflexivity|apply tok_ok_num; assumption].
    - destruct (present (elen e)) eqn:E; [|reflexivity].
      apply tok_ok_app; [reflexivity|apply tok_ok_num; assumption].
    - apply tok_ok_coms. assumption.
  Qed.

  Lemma tok_ok_inner_name : forall n, inner_name_ok numeric n = true -> tok_ok n.
  Proof.
    intros n H. unfold inner_name_ok in H. apply orb_true_iff in H. destruct H as [H|H].
    - apply String.eqb_eq in H. subst. reflexivity.
    - apply text_ok_tok. repeat (apply andb_true_iff in H; destruct H as [H ?]). assumption.
  Qed.

  Lemma tok_ok_tip_name : forall n, tip_name_ok n = true -> tok_ok n.
  Proof.
    intros n H. apply text_ok_tok. unfold tip_name_ok in H.
    repeat (apply andb_true_iff in H; destruct H as [H ?]). assumption.
  Qed.

  Lemma tok_ok_join : forall l first,
      Forall (fun p => tok_ok (write_node (snd p)) /\ tok_ok (deco (fst p) (snd p))) l ->
      tok_ok (joinF first l).
  Proof.
    induction l as [|[e ch] r IH]; intros first H; [reflexivity|].
    inversion H; subst. destruct H2 as [Hw Hd]. simpl in Hw, Hd. cbn [NewickCanon.joinF].
    apply tok_ok_app; [destruct first; reflexivity|].
    apply tok_ok_app; [exact Hw|]. apply tok_ok_app; [exact Hd|]. apply IH. exact H3.
  Qed.

  Lemma tok_ok_node : forall t e, wfN_sub numeric numok e t = true ->
      tok_ok (write_node t) /\ tok_ok (deco e t).
  Proof.
    induction t as [n c sl IH] using utree_ind'. intros e H.
    apply wfN_sub_inv in H. destruct H as [Hup [Hname [Hcom [Hedge Hk]]]].
    apply (Forall_slots_kids (fun t => forall e, wfN_sub numeric numok e t = true ->
                                                 tok_ok (write_node t) /\ tok_ok (deco e t))) in IH.
    split; [|apply tok_ok_deco; assumption].
    rewrite write_node_eq.
    assert (HJ : tok_ok (joinF true (kids_of sl))).
    { apply tok_ok_join. clear Hname Hup.
      induction (kids_of sl) as [|[e' ch] r IHr]; [constructor|].
      inversion IH; subst. inversion Hk; subst. constructor; [apply H1; assumption|apply IHr; assumption]. }
    assert (Hn : tok_ok n).
    { destruct (kids_of sl); [apply tok_ok_tip_name|apply tok_ok_inner_name]; assumption. }
    apply tok_ok_app; [|exact Hn].
    destruct (Nat.ltb 1 (length sl)); [|exact HJ].
    apply tok_ok_app; [reflexivity|]. apply tok_ok_app; [exact HJ|reflexivity].
  Qed.

  Lemma tok_ok_write : forall t, wfN numeric numok t = true -> tok_ok (write fmt t).
  Proof.
    intros [n c sl] H. apply wfN_inv in H. destruct H as [Hup [Hlen [Hname [Hcom Hk]]]].
    unfold write. simpl ucom. rewrite write_node_eq.
    assert (HJ : tok_ok (joinF true (kids_of sl))).
    { apply tok_ok_join. eapply Forall_impl; [|exact Hk].
      intros [e ch] Hx. simpl in *. apply tok_ok_node. exact Hx. }
    apply tok_ok_app; [|apply tok_ok_app; [apply tok_ok_coms; assumption|reflexivity]].
    apply tok_ok_app; [|apply tok_ok_inner_name; exact Hname].
    destruct (Nat.ltb 1 (length sl)); [|exact HJ].
    apply tok_ok_app; [reflexivity|]. apply tok_ok_app; [exact HJ|reflexivity].
  Qed.

  Lemma sanitize_write : forall t, wfN numeric numok t = true -> utf8_sanitize (write fmt t) = write fmt t.
  Proof. intros t H. apply sanitize_ok. apply tok_ok_write. exact H. Qed.
End Utf8.
