(** C05, sequences of operations: any history made of Reroot, UnRoot, RotateInternalNodes,
    SortNeighborsByTips, RerootOutGroup (without removal) and RerootMidPoint -- in any order,
    any number of times, each step optionally preceded by ReinitIndexes -- leaves the tip set,
    every tip-to-tip path length and every split with its length as they were in the FIRST
    tree, and the oracle of the judge ([same_tree_obs]) accepts the last tree against the first.
    The single-step theorems have hypotheses; the point here is the invariant that every step
    re-establishes, so that they can be chained: well-formed, root with at least two neighbours,
    distinct tip names, at least three tips (the quantifier of the property), and -- needed only
    when the history contains an outgroup or midpoint rooting -- no negative branch length.
    Histories: Model/History.v ([op], [run_op], [run]), shared with C03. *)
From Coq Require Import String ZArith QArith Bool Arith Lia Lqa List Permutation Setoid Morphisms.
From GT Require Import Base.UTree Spec.Obs Model.Reroot Model.Outgroup Model.History Spec.Unrooted
     Judge.Common
     Proofs.RerootBase Proofs.Reroot Proofs.Unroot Proofs.Reorder Proofs.Splits Proofs.USplits
     Proofs.C05Main Proofs.OutgroupKeep Proofs.OutgroupMain Proofs.OutgroupSplits
     Proofs.OutgroupSplitsMain Proofs.OutgroupWitness Proofs.OutgroupMidpoint
     Proofs.OracleC05 Proofs.OracleMid.
Import ListNotations.
Local Close Scope Q_scope.
Local Arguments n_up : simpl never.
Local Arguments leaves : simpl never.

(** * the operations of this property *)
Definition basic_op (o : op) : Prop :=
  match o with OReroot _ | OUnroot | ORotate _ | OSort => True | _ => False end.

Definition c05_op (o : op) : Prop :=
  match o with
  | OReroot _ | OUnroot | ORotate _ | OSort | OMidpoint => True
  | OOutgroup remove _ _ => remove = false
  | _ => False
  end.

Lemma basic_c05 o : basic_op o -> c05_op o.
Proof. destruct o; simpl; tauto. Qed.

(** * the invariant, the optional length condition, the relation "same tree" *)
Definition inv (t : utree) : Prop :=
  wf t = true /\ 2 <= degree t /\ NoDup (leaves t) /\ 3 <= length (leaves t).

Definition lens (t : utree) : Prop :=
  forall x, In x (bsplits t) -> (0 <= elen (fst (fst x)))%Q.

Definition same_obs (t t' : utree) : Prop :=
  Permutation (leaves t') (leaves t) /\
  dists_equiv (pairdists len0 t') (pairdists len0 t) /\
  forall k, orel split_weq (find_split k (usplits t')) (find_split k (usplits t)).

Lemma same_obs_refl t : same_obs t t.
Proof. repeat split; try reflexivity. intros k. apply orel_weq_refl. Qed.

Lemma same_obs_trans a b c : same_obs a b -> same_obs b c -> same_obs a c.
Proof.
  intros (L1 & D1 & S1) (L2 & D2 & S2). repeat split.
  - now rewrite L2.
  - etransitivity; eauto.
  - intros k. eapply orel_trans; [apply split_weq_trans|apply S2|apply S1].
Qed.

(** a rooted tree with three leaves has an inner node next to its root *)
Lemma inv_inner t : inv t -> rooted t = true -> root_has_inner_child t = true.
Proof.
  intros (W & D & ND & L3) R.
  destruct (rooted_shape t W R) as (n0&c0&e1&n1&c1&sl1&e2&n2&c2&sl2&->).
  destruct (rooted_facts n0 c0 e1 n1 c1 sl1 e2 n2 c2 sl2 W) as [U1 [U2 _]].
  unfold root_has_inner_child, kids, is_tip, degree. simpl.
  destruct (Nat.eqb (length sl1) 1) eqn:T1; [|reflexivity].
  destruct (Nat.eqb (length sl2) 1) eqn:T2; [|reflexivity].
  exfalso. apply Nat.eqb_eq in T1, T2.
  pose proof (length_slots sl1) as A1. pose proof (length_slots sl2) as A2.
  assert (K1 : kids_of sl1 = []) by (destruct (kids_of sl1); [reflexivity|simpl in A1; lia]).
  assert (K2 : kids_of sl2 = []) by (destruct (kids_of sl2); [reflexivity|simpl in A2; lia]).
  rewrite leaves_node in L3 by (simpl; discriminate).
  simpl kids_of in L3. unfold kleaves in L3. simpl in L3.
  rewrite !leaves_unfold, K1, K2 in L3. simpl in L3. lia.
Qed.

Lemma inv_of_perm t t' :
  inv t -> wf t' = true -> 2 <= degree t' -> Permutation (leaves t') (leaves t) -> inv t'.
Proof.
  intros (_ & _ & ND & L3) W D P. repeat split; auto.
  - eapply Permutation_NoDup; [symmetry; exact P|exact ND].
  - now rewrite (Permutation_length P).
Qed.

(** * branch lengths stay non-negative *)
Lemma lens_of_equiv L t t' : splits_equiv L (bsplits t') (bsplits t) -> lens t -> lens t'.
Proof.
  intros SE H z Hz.
  destruct (PermR_In _ _ (bs_eq_Equivalence L) _ _ SE _ Hz) as [y [Hy [E _]]].
  rewrite E. now apply H.
Qed.

Lemma lens_tperm t t' : tperm t t' -> lens t -> lens t'.
Proof. intros H. apply (lens_of_equiv (leaves t)). now apply tperm_splits_equiv. Qed.

Lemma half_edge_nonneg e : (0 <= elen e)%Q -> (0 <= elen (half_edge e))%Q.
Proof.
  intros H.
  assert (N : qeqb (elen e) nilv = false).
  { destruct (qeqb (elen e) nilv) eqn:E; auto. apply isnil_iff in E. lra. }
  destruct (half_edge_len e N) as [E _]. rewrite E. lra.
Qed.

Theorem outgroup_edges_nonneg strict t names t' :
  wf t = true -> 2 <= degree t -> (rooted t = true -> root_has_inner_child t = true) ->
  NoDup (leaves t) -> lens (unroot t) ->
  reroot_outgroup false strict t names = Ok t' -> lens t'.
Proof.
  intros Hwf Hd Hi HND Hnn H.
  destruct (reroot_outgroup_keep_inv _ _ _ _ H)
    as (q&lf&v&p&es&diff&pp&ks&lower&P&e&_&_&Hf&Hv&_&_&_&_&HP&He&Hc).
  apply find_some in Hf as [Hq _].
  destruct (setting_facts t names Hwf Hd Hi HND q lf v Hq Hv) as (W1&D1&L1&W2&D2&L2&ND2&_&_&SE).
  unfold edge_at in He.
  destruct (nth_error (uslots P) ks) as [[[e' ch]|]|] eqn:Ek; try discriminate.
  inversion He; subst e'.
  destruct (view_edge_in t names Hwf Hd Hi HND q lf v pp P ks e ch Hq Hv HP Ek) as [L [b Hin]].
  assert (He0 : (0 <= elen e)%Q) by (apply (Hnn _ Hin)).
  intros z Hz.
  apply (cut_and_root_edges (fun e => (0 <= elen e)%Q) (tv_tree v) pp ks
           (is_prefix (pp ++ [ks]) (tv_root v)) (half_edge e) (half_edge e) P e ch t'
           W2 D2 HP Ek Hc); auto using half_edge_nonneg.
  intros x Hx.
  destruct (PermR_In _ _ (bs_eq_Equivalence (leaves (unroot t))) _ _ SE _ Hx) as [y [Hy [E1 _]]].
  rewrite E1. now apply Hnn.
Qed.

(** * one step *)
Theorem c05_step o t t' :
  inv t -> c05_op o -> basic_op o \/ lens t -> run_op o t = Ok t' ->
  inv t' /\ same_obs t t' /\ (lens t -> lens t').
Proof.
  intros I Ho Hl H. pose proof I as (W & D & ND & L3).
  pose proof (inv_inner t I) as Hi.
  destruct o; simpl in Ho; try contradiction; simpl in H.
  - (* Reroot *)
    destruct (reroot_all t i t' W D H) as (W' & D' & L & _ & P & SE & _).
    split; [now apply (inv_of_perm t)|]. split.
    + repeat split; auto. intros k. eapply orel_mono; [apply split_qeq_weq|].
      eapply reroot_usplits; eauto.
    + now apply (lens_of_equiv (leaves t)).
  - (* UnRoot *)
    inversion H; subst t'.
    destruct (unroot_stage t W D Hi) as (W' & D' & L & P).
    split; [now apply (inv_of_perm t)|]. split.
    + repeat split; auto. intros k. destruct (rooted t) eqn:R.
      * apply unroot_usplits; auto.
      * rewrite (unroot_not_rooted t R). apply orel_weq_refl.
    + intros Hn. exact (unroot_nonneg t W Hn).
  - (* RerootOutGroup, no removal *)
    subst remove. destruct (Nat.ltb (length (tips t)) 3); [discriminate|].
    assert (Hl' : lens t) by (destruct Hl as [[]|Hl]; exact Hl).
    assert (Hu : lens (unroot t)) by exact (unroot_nonneg t W Hl').
    destruct (reroot_outgroup_keep_preserves strict t names t' W D Hi H) as (W' & D' & L & P).
    split; [apply (inv_of_perm t); auto; lia|]. split.
    + repeat split; auto.
      apply (outgroup_usplits_input strict t names t' W D Hi ND); auto. intros x Hx. right. now apply Hu.
    + intros _. exact (outgroup_edges_nonneg strict t names t' W D Hi ND Hu H).
  - (* RerootMidPoint *)
    assert (Hl' : lens t) by (destruct Hl as [[]|Hl]; exact Hl).
    assert (Hu : lens (unroot t)) by exact (unroot_nonneg t W Hl').
    destruct (reroot_midpoint_wf_leaves t t' W D Hi H) as (W' & D' & L).
    split; [apply (inv_of_perm t); auto; lia|]. split.
    + repeat split; auto.
      * exact (midpoint_len0 t t' W D Hi ND Hu H).
      * exact (midpoint_usplits_input t t' W D Hi ND Hu H).
    + intros _. exact (midpoint_edges_nonneg t t' W D Hi ND Hu H).
  - (* RotateInternalNodes *)
    inversion H; subst t'. pose proof (rotate_all_tperm t cs) as T.
    destruct (tperm_all _ _ T) as (W' & D' & L & _ & _ & P & _).
    split; [apply (inv_of_perm t); auto; lia|]. split.
    + repeat split; auto. intros k. eapply orel_mono; [apply split_qeq_weq|]. now apply tperm_usplits.
    + now apply lens_tperm.
  - (* SortNeighborsByTips *)
    inversion H; subst t'. pose proof (sort_by_tips_tperm t) as T.
    destruct (tperm_all _ _ T) as (W' & D' & L & _ & _ & P & _).
    split; [apply (inv_of_perm t); auto; lia|]. split.
    + repeat split; auto. intros k. eapply orel_mono; [apply split_qeq_weq|]. now apply tperm_usplits.
    + now apply lens_tperm.
Qed.

(** ReinitIndexes before the step changes nothing but may refuse *)
Lemma run_step_op s t t' : run_step s t = Ok t' -> run_op (snd s) t = Ok t'.
Proof.
  unfold run_step. destruct (fst s); auto. destruct (reinit t); [auto|discriminate].
Qed.

(** * histories *)
Theorem c05_history_inv ops : forall t0 t,
  inv t0 ->
  Forall (fun s => c05_op (snd s)) ops ->
  Forall (fun s => basic_op (snd s)) ops \/ lens t0 ->
  run ops t0 = Ok t ->
  inv t /\ same_obs t0 t /\ (lens t0 -> lens t).
Proof.
  induction ops as [|s r IH]; intros t0 t I Fo Hl H; simpl in H.
  - inversion H; subst. split; auto. split; [apply same_obs_refl|auto].
  - destruct (run_step s t0) as [t1|m] eqn:E; [|discriminate].
    apply run_step_op in E. inversion Fo as [|? ? Ho Fo']; subst.
    assert (Hl1 : basic_op (snd s) \/ lens t0).
    { destruct Hl as [Hb|Hl]; [left; now inversion Hb|right; exact Hl]. }
    destruct (c05_step _ _ _ I Ho Hl1 E) as (I1 & S1 & N1).
    assert (Hlr : Forall (fun s => basic_op (snd s)) r \/ lens t1).
    { destruct Hl as [Hb|Hl]; [left; now inversion Hb|right; now apply N1]. }
    destruct (IH t1 t I1 Fo' Hlr H) as (I2 & S2 & N2).
    split; auto. split; [eapply same_obs_trans; eauto|auto].
Qed.

(** the statement: the last tree is the first tree for the specification and for the oracle *)
Theorem c05_history ops t0 t :
  wf t0 = true -> 2 <= degree t0 -> NoDup (leaves t0) -> 3 <= length (leaves t0) ->
  Forall (fun s => c05_op (snd s)) ops ->
  Forall (fun s => basic_op (snd s)) ops \/
  (forall x, In x (bsplits t0) -> (0 <= elen (fst (fst x)))%Q) ->
  run ops t0 = Ok t ->
  wf t = true /\ 2 <= degree t /\ NoDup (leaves t) /\
  Permutation (leaves t) (leaves t0) /\ tipset t = tipset t0 /\
  dists_equiv (pairdists len0 t) (pairdists len0 t0) /\
  (forall k, orel split_weq (find_split k (usplits t)) (find_split k (usplits t0))) /\
  same_tree_obs t0 t = None.
Proof.
  intros W D ND L3 Fo Hl H.
  destruct (c05_history_inv ops t0 t (conj W (conj D (conj ND L3))) Fo Hl H)
    as ((W' & D' & ND' & _) & (L & P & S) & _).
  repeat split; auto.
  - unfold tipset. now apply sset_perm.
  - now apply same_tree_obs_accepts.
Qed.

(** histories of the four operations that need no condition on the lengths *)
Corollary c05_history_basic ops t0 t :
  wf t0 = true -> 2 <= degree t0 -> NoDup (leaves t0) -> 3 <= length (leaves t0) ->
  Forall (fun s => basic_op (snd s)) ops ->
  run ops t0 = Ok t ->
  wf t = true /\ 2 <= degree t /\ NoDup (leaves t) /\
  Permutation (leaves t) (leaves t0) /\ tipset t = tipset t0 /\
  dists_equiv (pairdists len0 t) (pairdists len0 t0) /\
  (forall k, orel split_weq (find_split k (usplits t)) (find_split k (usplits t0))) /\
  same_tree_obs t0 t = None.
Proof.
  intros W D ND L3 Fb H. apply (c05_history ops t0 t); auto.
  eapply Forall_impl; [|exact Fb]. intros s. apply basic_c05.
Qed.

(** the four basic operations never refuse except Reroot (bad index / tip): a history of
    unroot / rotate / sort steps without ReinitIndexes always runs to its end *)
Lemma run_total_reorder ops : forall t0,
  Forall (fun s => fst s = false /\
                   match snd s with OUnroot | ORotate _ | OSort => True | _ => False end) ops ->
  exists t, run ops t0 = Ok t.
Proof.
  induction ops as [|[b o] r IH]; intros t0 F; simpl; [eauto|].
  inversion F as [|? ? [Hb Ho] F']; subst. simpl in Hb, Ho. subst b.
  unfold run_step. simpl. destruct o; try contradiction; simpl; apply IH; auto.
Qed.

(** * a concrete history on a multifurcating tree with parent slots at several positions *)
Local Open Scope string_scope.
Definition c05_history_ops : list (bool * op) :=
  [(false, OReroot 8); (false, OUnroot); (false, ORotate [0;0;1;0;1;1;0;0;0;2;1;0;1;0;0;1;2;0;0;0;0;0;0]);
   (false, OOutgroup false true ["f"; "g"]); (true, OSort); (false, OReroot 4); (false, OMidpoint);
   (false, OOutgroup false false ["a"; "e"; "zz"]); (false, OUnroot); (false, OReroot 3)].

Lemma NoDup_strings_b (l : list string) : Model.Prune.has_dup l = false -> NoDup l.
Proof.
  induction l as [|x l IH]; simpl; intros H; [constructor|].
  apply orb_false_iff in H as [H1 H2]. constructor; auto.
  intros Hin. clear - H1 Hin. induction l as [|y l IHl]; simpl in *; [tauto|].
  apply orb_false_iff in H1 as [A B]. destruct Hin as [->|Hin]; auto.
  rewrite String.eqb_refl in A. discriminate.
Qed.

Lemma c05_history_example :
  wf c05_tree = true /\ 2 <= degree c05_tree /\ NoDup (leaves c05_tree) /\
  3 <= length (leaves c05_tree) /\
  Forall (fun s => c05_op (snd s)) c05_history_ops /\
  (forall x, In x (bsplits c05_tree) -> (0 <= elen (fst (fst x)))%Q) /\
  exists t, run c05_history_ops c05_tree = Ok t /\ rooted t = true /\
            utree_eqb t c05_tree = false /\ utree_eqb (sort_by_tips t) (sort_by_tips c05_tree) = false.
Proof.
  split; [vm_compute; reflexivity|]. split; [vm_compute; lia|].
  split; [apply NoDup_c05_tree|]. split; [vm_compute; lia|].
  split; [repeat constructor|].
  split.
  - intros x Hx. vm_compute in Hx.
    repeat (destruct Hx as [<-|Hx]; [vm_compute; discriminate|]). destruct Hx.
  - eexists. split; [vm_compute; reflexivity|]. repeat split; vm_compute; reflexivity.
Qed.
