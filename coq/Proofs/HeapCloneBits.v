(** C15, aliasing of the branch bitsets: the store of Model/HeapClone.v paired with the bitset
    layer of Model/HeapBits.v (c03heap).  Re-indexing a tree (ClearBitSets then UpdateBitSet)
    writes the bitsets of ITS branches only; the branches of a clone live in the fresh region
    and those of the source below it, so re-indexing the clone leaves every bitset of the
    source as it was, and vice versa. *)
From Coq Require Import String ZArith QArith Bool Arith Lia List.
From GT Require Import Base.UTree Model.HeapBits Proofs.HeapBits Model.LocalEdit Model.HeapClone Proofs.HeapClone.
Import ListNotations.
Local Close Scope Q_scope.

(** the branch ids of the tree [t] carried by the node [nid] of the store *)
Fixpoint rbr_go (rbr : utree -> nat -> list nat) (ns bs : list nat) (l : list slot) : list nat :=
  match ns, bs, l with
  | x :: ns', e :: bs', Some (_, ch) :: r => e :: rbr ch x ++ rbr_go rbr ns' bs' r
  | _ :: ns', _ :: bs', None :: r => rbr_go rbr ns' bs' r
  | _, _, _ => []
  end.

Fixpoint rbr (h : HeapClone.heap) (t : utree) (nid : nat) : list nat :=
  match t with
  | UNode _ _ sl =>
    match HeapClone.hnodes h nid with
    | Some hn =>
      (fix go (ns bs : list nat) (l : list slot) {struct l} : list nat :=
         match ns, bs, l with
         | x :: ns', e :: bs', Some (_, ch) :: r => e :: rbr h ch x ++ go ns' bs' r
         | _ :: ns', _ :: bs', None :: r => go ns' bs' r
         | _, _, _ => []
         end) (hn_neigh hn) (hn_br hn) sl
    | None => []
    end
  end.

Lemma rbr_region (P : nat -> Prop) h t : forall nid par, repr P h nid par t -> Forall P (rbr h t nid).
Proof.
  induction t as [n c sl IH] using utree_ind'. intros nid par R.
  apply repr_unfold in R. destruct R as [_ [hn [H1 [_ [_ [_ H5]]]]]]. simpl. rewrite H1.
  revert H5. generalize (hn_neigh hn) (hn_br hn).
  induction IH as [|[[ei ch]|] r Hs _ IHr]; intros [|x ns] [|e bs]; simpl; auto; try (intros []; fail).
  - intros [Pe [_ [_ [Rc Rr]]]]. constructor; auto. apply Forall_app. split; eauto.
  - intros [_ Rr]. eauto.
Qed.

(** ClearBitSets then UpdateBitSet of a tree whose branches are [es] *)
Definition reindex (len : nat) (es : list nat) (rows : list (nat * list nat)) (b : bits) : option bits :=
  update_bits rows (clear_bits len es b).

Lemma reindex_frame (P Q : nat -> Prop) len es rows b b' x :
  (forall i, P i -> Q i -> False) -> Forall Q es -> Forall Q (map fst rows) ->
  reindex len es rows b = Some b' -> P x -> b' x = b x.
Proof.
  intros D Fe Fr H Px. unfold reindex in H.
  rewrite (update_bits_frame rows _ b' x H).
  - apply clear_bits_frame. intros Hx. rewrite Forall_forall in Fe. exact (D x Px (Fe x Hx)).
  - intros Hx. rewrite Forall_forall in Fr. exact (D x Px (Fr x Hx)).
Qed.

(** re-indexing the clone leaves the bitsets of the source untouched, and vice versa *)
Theorem clone_reindex_bitsets t fuel h root k (b : bits) :
  repr (below k) h root None t -> k <= hnext h -> usize t <= fuel ->
  let h' := fst (clone_h fuel h root) in
  let r' := snd (clone_h fuel h root) in
  let es_source := rbr h' t root in
  let es_clone := rbr h' (clone t) r' in
  (forall len rows b', (forall e, In e (map fst rows) -> In e es_clone) ->
      reindex len es_clone rows b = Some b' -> forall x, In x es_source -> b' x = b x) /\
  (forall len rows b', (forall e, In e (map fst rows) -> In e es_source) ->
      reindex len es_source rows b = Some b' -> forall x, In x es_clone -> b' x = b x).
Proof.
  intros R Lk Fu. destruct (clone_h_ok t fuel h root k R Lk Fu) as [m' [E [B [A [R1 R2]]]]].
  cbv zeta. assert (Fs := rbr_region _ _ _ _ _ R1). assert (Fc := rbr_region _ _ _ _ _ R2).
  rewrite Forall_forall in Fs, Fc.
  split; intros len rows b' Hr H x Hx.
  - apply (reindex_frame (below k) (between (hnext h) m') len _ rows b b' x) with (4 := H); auto.
    + intros i Hi Hj. exact (regions_disjoint k (hnext h) m' i Lk Hi Hj).
    + apply Forall_forall. exact Fc.
    + apply Forall_forall. intros e He. apply Fc. now apply Hr.
  - apply (reindex_frame (between (hnext h) m') (below k) len _ rows b b' x) with (4 := H); auto.
    + intros i Hi Hj. exact (regions_disjoint k (hnext h) m' i Lk Hj Hi).
    + apply Forall_forall. exact Fs.
    + apply Forall_forall. intros e He. apply Fs. now apply Hr.
Qed.

(** Non-vacuity on the store of [ex_heap]: source branches 3 and 4, the clone's are fresh. *)
Definition ex_h' := fst (clone_h 3 ex_heap 0).
Definition ex_r' := snd (clone_h 3 ex_heap 0).
Definition ex_es_source := rbr ex_h' ex_tree 0.
Definition ex_es_clone := rbr ex_h' (clone ex_tree) ex_r'.

(** every branch, source and clone, carries the bitset of its tip side before re-indexing *)
Definition ex_bits : bits :=
  fun e => if existsb (Nat.eqb e) (ex_es_source ++ ex_es_clone) then Some [true; false] else None.

Lemma ex_reindex_clone :
  ex_es_source = [3; 4] /\ length ex_es_clone = 2 /\
  (forall e, In e ex_es_clone -> ~ In e ex_es_source) /\
  match reindex 2 ex_es_clone (map (fun e => (e, [1])) ex_es_clone) ex_bits with
  | Some b' => map b' ex_es_source = [Some [true; false]; Some [true; false]] /\
               map b' ex_es_clone = [Some [false; true]; Some [false; true]]
  | None => False
  end /\
  match reindex 2 ex_es_source (map (fun e => (e, [1])) ex_es_source) ex_bits with
  | Some b' => map b' ex_es_clone = [Some [true; false]; Some [true; false]] /\
               map b' ex_es_source = [Some [false; true]; Some [false; true]]
  | None => False
  end.
Proof.
  vm_compute. repeat split; try reflexivity.
  intros e [<-|[<-|[]]] [H|[H|[]]]; discriminate.
Qed.
