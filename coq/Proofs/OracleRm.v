(** C05, the whole oracle of rooting on an outgroup WITH removal ([oracle_outgroup_ok true] and
    the index clause of Judge/C05.v) accepts the result of the model. *)
From Coq Require Import String ZArith QArith Bool Arith Lia Lqa List Permutation Sorted Setoid Morphisms.
From GT Require Import Base.Sexp Base.UTree Spec.Obs Model.Reroot Model.Index Model.Outgroup Spec.Unrooted
     Judge.Common Judge.C05
     Proofs.RerootBase Proofs.Reroot Proofs.Unroot Proofs.Splits Proofs.USplits Proofs.C05Main
     Proofs.PruneBase Proofs.PairKeys Proofs.OracleDist
     Proofs.IndexSplit Proofs.IndexEditOps
     Proofs.OutgroupKeep Proofs.OutgroupClade Proofs.OutgroupMain Proofs.OutgroupSide Proofs.OutgroupRemove
     Proofs.OutgroupRemoveMain Proofs.OutgroupHalf
     Proofs.OracleC05 Proofs.OracleSup Proofs.OracleIndex Proofs.OracleMid Proofs.OracleSide Proofs.OracleOut.
From GT Require Proofs.MapOrder.
Import ListNotations.
Local Close Scope Q_scope.
Local Arguments leaves : simpl never.
Local Arguments bsplits : simpl never.
Local Arguments pairdists : simpl never.

Lemma filter_by_map {A B} (f : A -> bool) (g : A -> B) l :
  filter_by (map f l) (map g l) = map g (filter f l).
Proof. induction l as [|x l IH]; simpl; auto. destruct (f x); simpl; now rewrite IH. Qed.

Lemma filter_by_self {A} (f : A -> bool) l : filter_by (map f l) l = filter f l.
Proof. rewrite <- (map_id l) at 2. rewrite filter_by_map. apply map_id. Qed.

Lemma Permutation_in_iff {A} (x : A) l l' : Permutation l l' -> (In x l <-> In x l').
Proof. intros P. split; apply Permutation_in; auto. now symmetry. Qed.

(** a sorted list of distinct names is determined by its elements *)
Lemma sorted_filter_eq (f : string -> bool) L M :
  NoDup L -> NoDup M -> (forall x, In x M <-> In x L /\ f x = true) ->
  filter f (ssort L) = ssort M.
Proof.
  intros NL NM H. apply MapOrder.sorted_perm_unique.
  - apply filter_sorted, OracleDist.ssort_sorted.
  - apply OracleDist.ssort_sorted.
  - apply NoDup_Permutation.
    + apply NoDup_filter. eapply Permutation_NoDup; [apply OracleDist.ssort_perm | exact NL].
    + eapply Permutation_NoDup; [apply OracleDist.ssort_perm | exact NM].
    + intros x. rewrite filter_In.
      rewrite <- (Permutation_in_iff x _ _ (OracleDist.ssort_perm L)), <- (Permutation_in_iff x _ _ (OracleDist.ssort_perm M)).
      symmetry. apply H.
Qed.

Lemma oq_eqb_sym a b : oq_eqb a b = oq_eqb b a.
Proof.
  destruct a as [x|], b as [y|]; simpl; auto. unfold qeqb.
  destruct (Qeq_bool x y) eqn:E1, (Qeq_bool y x) eqn:E2; auto.
  - apply Qeq_bool_iff in E1. symmetry in E1. apply Qeq_bool_iff in E1. congruence.
  - apply Qeq_bool_iff in E2. symmetry in E2. apply Qeq_bool_iff in E2. congruence.
Qed.

Lemma fP_none k l :
  Forall (fun x : string * string * Q => k (fst (fst x)) = false \/ k (snd (fst x)) = false) l -> fP k l = [].
Proof.
  unfold fP. induction 1 as [|x r Hx Hr IH]; simpl; auto.
  destruct Hx as [-> | ->]; simpl; auto. now rewrite andb_false_r.
Qed.

Theorem oracle_outgroup_remove_accepts strict t names t' :
  wf t = true -> 2 <= degree t -> (rooted t = true -> root_has_inner_child t = true) ->
  NoDup (leaves t) -> ~ In ""%string (leaves t) ->
  reroot_outgroup true strict t names = Ok t' ->
  oracle_outgroup_ok true strict t t' names = None /\
  (let '(idx, st, bs) := tables_obs t' in index_ok_data t' idx st bs = None).
Proof.
  intros Hwf Hd Hi ND Hne H.
  destruct (unroot_stage t Hwf Hd Hi) as [W1 [D1 [L1 _]]].
  set (G := group (unroot t) names).
  assert (EP : present t names = sset G) by (now apply present_group).
  assert (NG : NoDup G) by apply group_NoDup.
  assert (IG : incl G (leaves t)).
  { intros x Hx. apply (Permutation_in _ L1). now apply (group_incl (unroot t) names W1 D1). }
  destruct (reroot_outgroup_remove_inv _ _ _ _ H) as (q&lf&v&p&es&diff&pp&ks&lower&P0&GN&Hf&_).
  fold G in GN, Hf.
  assert (Hout : exists x, In x (leaves t) /\ ~ In x G).
  { apply find_some in Hf as [Hq Ho]. simpl in Ho. exists (uname lf). split.
    - apply (Permutation_in _ L1). eapply tip_name_in_leaves; eauto.
    - intros Hx. apply smem_In in Hx. rewrite Hx in Ho. discriminate. }
  destruct (reroot_outgroup_remove strict t names t' Hwf Hd Hi ND H)
    as (W' & D' & Rm & PL & IGR & EX & Em & PD & FE).
  fold G in IGR, EX.
  assert (NDA : NoDup (leaves t' ++ Rm)) by (eapply Permutation_NoDup; [exact PL | exact ND]).
  assert (ND' : NoDup (leaves t')) by (eapply NoDup_app_l; eauto).
  assert (Dis : forall x, In x (leaves t') -> In x Rm -> False) by (intros x; apply (NoDup_app_disjoint _ _ x NDA)).
  split; [|apply index_ok_tables; repeat split; auto].
  unfold oracle_outgroup_ok. rewrite EP.
  (* strict mode: the outgroup is one side of a split *)
  assert (Hst : strict = true -> is_side t (sset G) = true).
  { intros ->. apply side_of_is_side; auto. eapply (outgroup_strict_side true); eauto. }
  assert (C0 : negb (is_side t (sset G)) && strict && negb (sset_eqb (sset G) []) &&
               negb (sset_eqb (sset G) (tipset t)) = false).
  { destruct strict; [rewrite (Hst eq_refl); reflexivity | now rewrite andb_false_r]. }
  rewrite C0. unfold removed_obs. rewrite W'. cbn [negb].
  set (ts := ssort (leaves t)).
  set (kf := fun x => negb (smem x (sset G)) && smem x (leaves t')).
  assert (Ef : filter kf ts = ssort (leaves t')).
  { apply sorted_filter_eq; auto. intros x. unfold kf. split.
    - intros Hx. split; [apply (Permutation_in _ (Permutation_sym PL)), in_or_app; now left|].
      apply andb_true_iff. split; [|now apply smem_In].
      apply negb_true_iff. destruct (smem x (sset G)) eqn:Es; auto.
      exfalso. apply smem_sset in Es. apply (Dis x Hx). now apply IGR.
    - intros [_ Hk]. apply andb_true_iff in Hk as [_ Hk]. now apply smem_In. }
  rewrite filter_by_self. fold kf ts. rewrite Ef, sset_eqb_refl. cbn [negb].
  (* exactly the old tips minus the outgroup, when it is one side of a split *)
  assert (C1 : is_side t (sset G) &&
               negb (sset_eqb (ssort (sdiff (leaves t) (sset G))) (ssort (leaves t'))) = false).
  { destruct (is_side t (sset G)) eqn:ES; [|reflexivity]. cbn [andb].
    pose proof (is_side_side_of t G ND NG IG ES) as Hside.
    pose proof (EX (or_intror Hside)) as ER.
    assert (PS : Permutation (sdiff (leaves t) (sset G)) (leaves t')).
    { apply NoDup_Permutation; auto; [unfold sdiff; now apply NoDup_filter|].
      intros x. unfold sdiff. rewrite filter_In, negb_true_iff. split.
      - intros [Hx Hn]. apply (Permutation_in _ PL) in Hx. apply in_app_or in Hx as [Hx|Hx]; auto.
        exfalso. apply (Permutation_in _ ER) in Hx. apply smem_sset in Hx. congruence.
      - intros Hx. split; [apply (Permutation_in _ (Permutation_sym PL)), in_or_app; now left|].
        destruct (smem x (sset G)) eqn:Es; auto. exfalso. apply smem_sset in Es. apply (Dis x Hx). now apply IGR. }
    rewrite (ssort_eq_perm _ _ PS), sset_eqb_refl. reflexivity. }
  rewrite C1.
  (* the path lengths among the remaining tips *)
  rewrite !dist_matrix_lookup. fold ts.
  rewrite map_map.
  assert (Em1 : map (fun a => filter_by (map kf ts)
                   (map (fun b => if String.eqb a b then Some 0%Q else lookup (pairdists len0 t) a b) ts)) ts =
                map (fun a => map (fun b => if String.eqb a b then Some 0%Q else lookup (pairdists len0 t) a b)
                                  (filter kf ts)) ts).
  { apply map_ext. intros a. apply filter_by_map. }
  rewrite Em1, filter_by_map, Ef.
  assert (MX : matrix_eqb
                 (map (fun a => map (fun b => if String.eqb a b then Some 0%Q else lookup (pairdists len0 t) a b)
                                    (ssort (leaves t'))) (ssort (leaves t')))
                 (map (fun a => map (fun b => if String.eqb a b then Some 0%Q else lookup (pairdists len0 t') a b)
                                    (ssort (leaves t'))) (ssort (leaves t'))) = true).
  { unfold matrix_eqb. apply list_eqb_map2. intros a Ha. apply list_eqb_map2. intros b Hb.
    destruct (String.eqb a b); [reflexivity|].
    rewrite oq_eqb_sym.
    set (k := fun x => negb (smem x Rm)).
    assert (Hk : forall x, In x (ssort (leaves t')) -> k x = true).
    { intros x Hx. apply (Permutation_in _ (Permutation_sym (OracleDist.ssort_perm (leaves t')))) in Hx.
      unfold k. apply negb_true_iff. destruct (smem x Rm) eqn:Es; auto. apply smem_In in Es. exfalso. eauto. }
    apply (lookup_restrict k); auto.
    - apply (pairdists_keys len0 t ND).
    - apply (pairdists_keys len0 t' ND').
    - symmetry. etransitivity; [apply fP_dists_equiv; exact PD|].
      rewrite fP_app.
      rewrite (fP_id k (pairdists len0 t')).
      + rewrite (fP_none k Em); [now rewrite app_nil_r|].
        eapply Forall_impl; [|exact FE]. intros [[x y] d] [Hx|Hx]; simpl in *; [left|right];
          unfold k; apply negb_false_iff; now apply smem_In.
      + intros x y d Hin. pose proof (OutgroupRemove.pairdists_names_in len0 t') as FN.
        rewrite Forall_forall in FN. destruct (FN _ Hin) as [H1 H2]. simpl in H1, H2.
        split; unfold k; apply negb_true_iff.
        * destruct (smem x Rm) eqn:Es; auto. apply smem_In in Es. exfalso. eauto.
        * destruct (smem y Rm) eqn:Es; auto. apply smem_In in Es. exfalso. eauto. }
  now rewrite MX.
Qed.
