(** C14: the run-time oracle of the matrix (Judge/C14.v: rows in tip-name order, every cell
    equal to the specification's [dist_matrix], symmetric, zero diagonal) has no complaint
    about the model's own output, for every good tree and the three metrics.  Needs the
    completeness of the specification: every ordered pair of distinct leaves has an entry. *)
From Coq Require Import String ZArith QArith Bool Arith Lia List Permutation.
From GT Require Import Base.Sexp Base.UTree Spec.Obs Spec.Unrooted Model.Reroot
     Proofs.RerootBase Proofs.PruneBase Model.Matrix Proofs.MatrixWalk Proofs.MatrixCells
     Proofs.MatrixMain Proofs.CutPaths Judge.C14.
Import ListNotations.
Local Close Scope Q_scope.

(** * every pair of distinct leaves has a path sum *)
Lemma leaf_has_depth w t a : In a (leaves t) -> exists d, In (a, d) (depths w t).
Proof.
  rewrite <- (depths_names w t). intros H. apply in_map_iff in H. destruct H as [[a' d] [E H]].
  simpl in E. subst. eauto.
Qed.

Theorem pairdists_complete w t : forall a b,
    In a (leaves t) -> In b (leaves t) -> a <> b -> exists d, In (a, b, d) (pairdists w t).
Proof.
  induction t as [n c sl IH] using utree_ind'. intros a b Ha Hb N.
  rewrite leaves_unfold in Ha, Hb. destruct (kids_of sl) as [|k0 K] eqn:E.
  { destruct Ha as [<-|[]]. destruct Hb as [<-|[]]. congruence. }
  rewrite <- E in Ha, Hb. clear E k0 K.
  apply Forall_slots_kids in IH. rewrite Forall_forall in IH.
  unfold kleaves in Ha. apply in_flat_map in Ha. destruct Ha as [[ea ca] [Pa Ha]]. simpl in Ha.
  destruct (in_split _ _ Pa) as [k1 [k2 Ek]].
  rewrite pairdists_unfold, Ek. rewrite Ek in Hb. unfold kD. rewrite map_app. simpl map.
  rewrite kleaves_app in Hb. unfold kleaves at 2 in Hb. simpl in Hb. fold (kleaves k2) in Hb.
  destruct (leaf_has_depth w ca a Ha) as [da Da].
  rewrite !in_app_iff in Hb. destruct Hb as [Hb|[Hb|Hb]].
  - unfold kleaves in Hb. apply in_flat_map in Hb. destruct Hb as [[eb cb] [Pb Hb]]. simpl in Hb.
    destruct (leaf_has_depth w cb b Hb) as [db Db].
    destruct (in_split _ _ Pb) as [j1 [j2 Ej]]. rewrite Ej, map_app. simpl map.
    exists ((w ea + da) + (w eb + db))%Q. apply in_app_iff. left. rewrite <- app_assoc. simpl app.
    apply cross_all_mem with (d2 := shift (w ea) (depths w ca)).
    + rewrite in_app_iff. right. now left.
    + right. apply cross_In. exists (w ea + da)%Q, (w eb + db)%Q. split; [|split; auto].
      * unfold shift. apply in_map_iff. exists (a, da). auto.
      * unfold shift. apply in_map_iff. exists (b, db). auto.
  - assert (Pa' : In (ea, ca) (kids_of sl)) by exact Pa.
    destruct (IH (ea, ca) Pa' a b Ha Hb N) as [d H]. exists d.
    apply in_app_iff. right. unfold kpd. apply in_flat_map. exists (ea, ca). split; auto.
    rewrite in_app_iff. right. now left.
  - unfold kleaves in Hb. apply in_flat_map in Hb. destruct Hb as [[eb cb] [Pb Hb]]. simpl in Hb.
    destruct (leaf_has_depth w cb b Hb) as [db Db].
    exists ((w ea + da) + (w eb + db))%Q. apply in_app_iff. left.
    apply cross_all_mem with (d2 := shift (w eb) (depths w cb)).
    + apply in_map_iff. exists (eb, cb). auto.
    + left. apply cross_In. exists (w ea + da)%Q, (w eb + db)%Q. split; [|split; auto].
      * unfold shift. apply in_map_iff. exists (a, da). auto.
      * unfold shift. apply in_map_iff. exists (b, db). auto.
Qed.

(** * small facts about the boolean checks *)
Lemma name_sort_ssort l : name_sort l = ssort l.
Proof.
  unfold name_sort, ssort. induction l as [|x r IH]; simpl; auto.
Qed.

Lemma list_eqb_string_refl l : list_eqb String.eqb l l = true.
Proof. induction l; simpl; auto. now rewrite String.eqb_refl. Qed.

Lemma list_eqb_map2 {A B} (R : B -> B -> bool) (f g : A -> B) l :
  (forall x, In x l -> R (f x) (g x) = true) -> list_eqb R (map f l) (map g l) = true.
Proof.
  induction l as [|x r IH]; simpl; intros H; auto. rewrite H by auto. simpl. apply IH. auto.
Qed.

Lemma omap_map_Some {A B} (f : A -> option B) (g : A -> B) l :
  (forall x, In x l -> f x = Some (g x)) -> omap f l = Some (map g l).
Proof.
  induction l as [|x r IH]; simpl; intros H; auto. rewrite H by auto. simpl.
  rewrite IH by auto. reflexivity.
Qed.

Lemma omap_map_map_Some {A B C} (h : A -> B) (f : B -> option C) (g : A -> C) l :
  (forall x, In x l -> f (h x) = Some (g x)) -> omap f (map h l) = Some (map g l).
Proof.
  induction l as [|x r IH]; simpl; intros H; auto. rewrite H by auto. simpl.
  rewrite IH by auto. reflexivity.
Qed.

Lemma find_exists {A} (f : A -> bool) l x : In x l -> f x = true -> exists p, find f l = Some p.
Proof.
  induction l as [|y r IH]; simpl; intros H E; [destruct H|].
  destruct (f y) eqn:Ey; eauto. destruct H as [->|H]; [congruence|eauto].
Qed.

Lemma qeqb_true a b : (a == b)%Q -> qeqb a b = true.
Proof. intros H. unfold qeqb. now apply Qeq_bool_iff. Qed.

(** * the oracle accepts the model *)
Section Accept.
  Variable m : metric.
  Variable t : utree.
  Hypothesis G : good t.
  Let ts := name_sort (leaves t).
  Let pd := pairdists (mweight m) t.

  Definition spec_cell (a b : string) : Q :=
    if String.eqb a b then 0%Q
    else match find (fun p : string * string * Q =>
                       String.eqb (fst (fst p)) a && String.eqb (snd (fst p)) b) pd with
         | Some p => snd p
         | None => 0%Q
         end.

  Lemma ts_leaves a : In a ts -> In a (leaves t).
  Proof. intros H. apply (Permutation_in _ (Permutation_sym (name_sort_perm (leaves t)))). exact H. Qed.

  Lemma find_pair a b :
    In a ts -> In b ts -> a <> b ->
    exists d, find (fun p : string * string * Q =>
                      String.eqb (fst (fst p)) a && String.eqb (snd (fst p)) b) pd = Some (a, b, d) /\
              In (a, b, d) pd.
  Proof.
    intros Ha Hb N. destruct (pairdists_complete (mweight m) t a b (ts_leaves a Ha) (ts_leaves b Hb) N) as [d0 H0].
    destruct (find_exists (fun p : string * string * Q =>
                             String.eqb (fst (fst p)) a && String.eqb (snd (fst p)) b) pd (a, b, d0) H0)
      as [[[a' b'] d] F].
    { simpl. now rewrite !String.eqb_refl. }
    assert (F' := F). apply find_some in F'. destruct F' as [Hin E]. simpl in E.
    apply andb_true_iff in E as [E1 E2]. apply String.eqb_eq in E1, E2. subst.
    exists d. auto.
  Qed.

  Lemma spec_matrix_value :
    spec_matrix m t = Some (map (fun a => map (fun b => spec_cell a b) ts) ts).
  Proof.
    unfold spec_matrix, dist_matrix. change (wspec m) with (mweight m). fold pd.
    rewrite <- (name_sort_ssort (leaves t)). fold ts.
    apply omap_map_map_Some. intros a Ha.
    apply omap_map_map_Some. intros b Hb.
    unfold spec_cell. destruct (String.eqb a b) eqn:E; auto.
    apply String.eqb_neq in E. destruct (find_pair a b Ha Hb E) as [d [F _]]. now rewrite F.
  Qed.

  Lemma cell_spec a b : In a ts -> In b ts -> qeqb (cell m t a b) (spec_cell a b) = true.
  Proof.
    intros Ha Hb. apply qeqb_true. unfold spec_cell. destruct (String.eqb a b) eqn:E.
    - apply String.eqb_eq in E. subst. rewrite (cell_diag m t G b). reflexivity.
    - apply String.eqb_neq in E. destruct (find_pair a b Ha Hb E) as [d [F H]]. rewrite F. simpl.
      apply (cell_path_sum m t G a b d H).
  Qed.

  Let g := map (fun a => map (fun b => cell m t a b) ts) ts.

  Lemma nth_row k : k < length ts ->
    nth k g [] = map (fun b => cell m t (nth k ts ""%string) b) ts.
  Proof.
    intros H. unfold g.
    rewrite (nth_indep _ [] ((fun a => map (fun b => cell m t a b) ts) ""%string)) by (now rewrite map_length).
    now rewrite (map_nth (fun a => map (fun b => cell m t a b) ts)).
  Qed.

  Lemma transpose_col k : k < length ts ->
    transpose_row g k = map (fun a => cell m t a (nth k ts ""%string)) ts.
  Proof.
    intros H. unfold transpose_row, g. rewrite map_map. apply map_ext. intros a.
    rewrite (nth_indep _ 0%Q ((fun b => cell m t a b) ""%string)) by (now rewrite map_length).
    now rewrite (map_nth (fun b => cell m t a b)).
  Qed.

  Theorem matrix_oracle_accepts :
    matrix_oracle m t (fst (to_matrix m t)) (snd (to_matrix m t)) = None.
  Proof.
    destruct G as [W [D N]]. rewrite (to_matrix_shape m t W D). simpl fst. simpl snd.
    fold ts. fold g. unfold matrix_oracle.
    rewrite <- (name_sort_ssort (leaves t)). fold ts. rewrite list_eqb_string_refl. simpl negb.
    rewrite spec_matrix_value.
    assert (Q1 : qmat_eqb g (map (fun a => map (fun b => spec_cell a b) ts) ts) = true).
    { unfold qmat_eqb, g. apply list_eqb_map2. intros a Ha. apply list_eqb_map2. intros b Hb.
      now apply cell_spec. }
    rewrite Q1. simpl negb.
    assert (Q2 : symmetric g = true).
    { unfold symmetric. apply forallb_forall. intros k Hk. apply in_seq in Hk.
      assert (Lk : k < length ts) by (unfold g in Hk; rewrite map_length in Hk; lia).
      rewrite (nth_row k Lk), (transpose_col k Lk). apply list_eqb_map2. intros a _.
      apply qeqb_true. apply (cell_sym m t (conj W (conj D N))). }
    rewrite Q2. simpl negb.
    assert (Q3 : zero_diag g = true).
    { unfold zero_diag. apply forallb_forall. intros k Hk. apply in_seq in Hk.
      assert (Lk : k < length ts) by (unfold g in Hk; rewrite map_length in Hk; lia).
      rewrite (nth_row k Lk).
      rewrite (nth_indep _ 1%Q ((fun b => cell m t (nth k ts ""%string) b) ""%string)) by (now rewrite map_length).
      rewrite (map_nth (fun b => cell m t (nth k ts ""%string) b)).
      rewrite (cell_diag m t (conj W (conj D N))). reflexivity. }
    rewrite Q3. reflexivity.
  Qed.
End Accept.
