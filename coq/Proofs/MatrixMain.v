(** C14, part 3: the statements about [to_matrix] and [avg_matrix]. *)
From Coq Require Import String ZArith QArith Bool Arith Lia List Permutation Sorted Setoid Morphisms.
From GT Require Import Base.UTree Spec.Obs Model.Reroot Spec.Unrooted
     Proofs.RerootBase Proofs.PruneBase Model.Matrix Proofs.MatrixWalk Proofs.MatrixCells.
Import ListNotations.
Local Close Scope Q_scope.

(** the cell of the matrix for the tips named [a] (row) and [b] (column) *)
Definition cell (m : metric) (t : utree) (a b : string) : Q :=
  assoc_q b (assoc_row a (tip_rows (mweight m) t)).

(** the trees the statements are about *)
Definition good (t : utree) : Prop := wf t = true /\ 2 <= degree t /\ NoDup (leaves t).

(** * shape of the result *)
Theorem to_matrix_shape m t :
  wf t = true -> 2 <= degree t ->
  to_matrix m t =
  (name_sort (leaves t),
   map (fun a => map (fun b => cell m t a b) (name_sort (leaves t))) (name_sort (leaves t))).
Proof.
  intros Hwf Hd. unfold to_matrix. rewrite tip_rows_names by auto. reflexivity.
Qed.

(** rows follow tip-name order *)
Lemma name_insert_perm x l : Permutation (x :: l) (name_insert x l).
Proof.
  induction l as [|y r IH]; simpl; auto.
  destruct (String.leb x y); auto. rewrite perm_swap. now constructor.
Qed.
Lemma name_sort_perm l : Permutation l (name_sort l).
Proof.
  induction l as [|x r IH]; simpl; auto.
  etransitivity; [|apply name_insert_perm]. now constructor.
Qed.

Definition sle (a b : string) : Prop := String.leb a b = true.

Lemma name_insert_sorted x l : Sorted sle l -> Sorted sle (name_insert x l).
Proof.
  induction 1 as [|y r Hs IH Hh]; simpl.
  - repeat constructor.
  - destruct (String.leb x y) eqn:E.
    + constructor; [constructor; auto|]. constructor. exact E.
    + constructor; auto.
      assert (Hyx : sle y x).
      { destruct (String.leb_total x y) as [H|H]; [congruence|exact H]. }
      destruct r as [|z r']; simpl.
      * constructor. exact Hyx.
      * destruct (String.leb x z); constructor; auto. now inversion Hh.
Qed.
Theorem name_sort_sorted l : Sorted sle (name_sort l).
Proof. induction l; simpl; [constructor|]. now apply name_insert_sorted. Qed.

Theorem matrix_names m t :
  wf t = true -> 2 <= degree t ->
  Permutation (leaves t) (fst (to_matrix m t)) /\ Sorted sle (fst (to_matrix m t)).
Proof.
  intros Hwf Hd. rewrite to_matrix_shape by auto. simpl.
  split; [apply name_sort_perm|apply name_sort_sorted].
Qed.

(** * cells *)
Section Cells.
  Variable m : metric.
  Variable t : utree.
  Hypothesis G : good t.
  Let w := mweight m.

  Lemma rows_nodup : NoDup (map fst (tip_rows w t)).
  Proof. destruct G as [Hwf [Hd Hn]]. now rewrite tip_rows_names. Qed.

  Lemma triples_equiv : dists_equiv (triples (tip_rows w t)) (pairdists w t).
  Proof. destruct G as [Hwf [Hd Hn]]. apply tip_rows_pairdists; auto. lia. Qed.

  Lemma triples_keys_nodup : NoDup (keys (triples (tip_rows w t))).
  Proof.
    destruct G as [Hwf [Hd Hn]].
    eapply Permutation_NoDup; [symmetry; apply keys_dists_equiv, triples_equiv|].
    now apply pairdists_keys.
  Qed.

  Lemma in_triples rows a b d :
    In (a, b, d) (triples rows) <-> exists R, In (a, R) rows /\ In (b, d) R.
  Proof.
    unfold triples. rewrite in_flat_map. split.
    - intros [[x R] [HR H]]. simpl in H. rewrite in_map_iff in H. destruct H as [[y q] [E Hq]].
      simpl in E. inversion E; subst. eauto.
    - intros [R [HR Hq]]. exists (a, R). split; auto. simpl. apply in_map_iff. exists (b, d). auto.
  Qed.

  Lemma row_nodup a R : In (a, R) (tip_rows w t) -> NoDup (map fst R).
  Proof.
    intros HR. assert (H := triples_keys_nodup). unfold keys, triples in H.
    rewrite flat_map_concat_map, concat_map, map_map in H.
    rewrite <- flat_map_concat_map in H.
    apply (NoDup_flat_map_in _ _ _ H) in HR. simpl in HR. rewrite map_map in HR. simpl in HR.
    rewrite <- (map_map fst (fun y => (a, y))) in HR.
    now apply NoDup_map_inv in HR.
  Qed.

  (** a triple written by the walks is what the cell holds *)
  Lemma cell_of_triple a b d : In (a, b, d) (triples (tip_rows w t)) -> cell m t a b = d.
  Proof.
    intros H. apply in_triples in H. destruct H as [R [HR Hq]].
    unfold cell, assoc_row. fold w. rewrite (find_key_unique _ a R rows_nodup HR). simpl.
    unfold assoc_q. now rewrite (find_key_unique _ b d (row_nodup a R HR) Hq).
  Qed.

  (** every cell is the sum over the path *)
  Theorem cell_path_sum a b d : In (a, b, d) (pairdists w t) -> (cell m t a b == d)%Q.
  Proof.
    intros H. assert (E := triples_equiv). symmetry in E.
    destruct (dists_equiv_In _ _ E a b d H) as [d' [H' Hq]].
    rewrite (cell_of_triple a b d' H'). now symmetry.
  Qed.

  (** a cell is 0 or it is the path sum of an entry of the specification *)
  Lemma cell_dicho a b :
    cell m t a b = 0%Q \/ exists d, In (a, b, d) (pairdists w t) /\ (cell m t a b == d)%Q.
  Proof.
    unfold cell, assoc_row. fold w.
    destruct (find (fun p => String.eqb (fst p) a) (tip_rows w t)) as [[a' R]|] eqn:E1; [|now left].
    apply find_key_in in E1. destruct E1 as [HR Ha]. simpl in Ha. subst a'. simpl.
    unfold assoc_q.
    destruct (find (fun p => String.eqb (fst p) b) R) as [[b' d]|] eqn:E2; [|now left].
    apply find_key_in in E2. destruct E2 as [Hq Hb]. simpl in Hb. subst b'. simpl. right.
    assert (Ht : In (a, b, d) (triples (tip_rows w t))) by (apply in_triples; eauto).
    destruct (dists_equiv_In _ _ triples_equiv a b d Ht) as [d' [H' Hq']]. eauto.
  Qed.

  Theorem cell_diag a : cell m t a a = 0%Q.
  Proof.
    destruct (cell_dicho a a) as [H|[d [H _]]]; auto.
    destruct G as [_ [_ Hn]]. exfalso. eapply (proj2 (pairdists_keys w t Hn)); eauto.
  Qed.

  Theorem cell_sym a b : (cell m t a b == cell m t b a)%Q.
  Proof.
    destruct (cell_dicho a b) as [H|[d [H Hq]]].
    - destruct (cell_dicho b a) as [H'|[d [H' Hq']]].
      + rewrite H, H'. reflexivity.
      + destruct (pairdists_sym w t _ _ _ H') as [d' [H2 Hq2]].
        rewrite (cell_path_sum a b d' H2), Hq'. now symmetry.
    - destruct (pairdists_sym w t _ _ _ H) as [d' [H2 Hq2]].
      rewrite (cell_path_sum b a d' H2), Hq. exact Hq2.
  Qed.
End Cells.

(** * the average matrix *)
Definition mcell (a : list (list Q)) (i j : nat) : Q := nth j (nth i a []) 0%Q.

Definition radd : list Q -> list Q -> list Q :=
  fix row (x y : list Q) : list Q :=
    match x, y with
    | p :: x', q :: y' => (p + q)%Q :: row x' y'
    | _, _ => x
    end.

Lemma madd_cons ra rb a b : madd (ra :: a) (rb :: b) = radd ra rb :: madd a b.
Proof. reflexivity. Qed.

Lemma radd_length x : forall y, length x = length y -> length (radd x y) = length x.
Proof. induction x as [|p x IH]; intros [|q y] H; simpl in *; try discriminate; auto. Qed.

Lemma radd_nth x : forall y j, length x = length y -> (nth j (radd x y) 0 == nth j x 0 + nth j y 0)%Q.
Proof.
  induction x as [|p x IH]; intros [|q y] j H; simpl in *; try discriminate.
  - destruct j; ring.
  - destruct j as [|j]; [ring|]. apply IH. lia.
Qed.

(** [r] rows of [c] cells *)
Definition rect (r c : nat) (a : list (list Q)) : Prop :=
  length a = r /\ Forall (fun x => length x = c) a.

Lemma madd_rect c a : forall r b, rect r c a -> rect r c b -> rect r c (madd a b).
Proof.
  induction a as [|x a IH]; intros r [|y b] [La Fa] [Lb Fb]; simpl in *; subst; try discriminate.
  - split; auto.
  - inversion Fa as [|? ? Hx Fa']; subst. inversion Fb as [|? ? Hy Fb']; subst.
    destruct (IH (length a) b) as [L F]; [split; auto|split; auto; try lia|].
    fold (radd x y). split; simpl; [now rewrite L|].
    constructor; auto. rewrite radd_length; congruence.
Qed.

Lemma madd_cell c a : forall r b i j, rect r c a -> rect r c b ->
  (mcell (madd a b) i j == mcell a i j + mcell b i j)%Q.
Proof.
  induction a as [|x a IH]; intros r [|y b] i j [La Fa] [Lb Fb]; simpl in *; subst; try discriminate.
  - unfold mcell. simpl. destruct i; destruct j; simpl; ring.
  - inversion Fa as [|? ? Hx Fa']; subst. inversion Fb as [|? ? Hy Fb']; subst.
    fold (radd x y). destruct i as [|i].
    + unfold mcell. simpl. apply radd_nth. congruence.
    + unfold mcell in *. simpl. apply (IH (length a) b i j); split; auto; try lia.
Qed.

Lemma mdiv_cell k a i j : (mcell (mdiv k a) i j == mcell a i j / inject_Z (Z.of_nat k))%Q.
Proof.
  unfold mcell, mdiv. revert i. induction a as [|r a IH]; intros i.
  - destruct i; destruct j; simpl; unfold Qdiv; ring.
  - destruct i as [|i]; simpl; [|apply IH].
    clear IH. revert j. induction r as [|p r IHr]; intros j.
    + destruct j; simpl; unfold Qdiv; ring.
    + destruct j as [|j]; simpl; [reflexivity|apply IHr].
Qed.

Lemma to_matrix_rect m t :
  rect (length (fst (to_matrix m t))) (length (fst (to_matrix m t))) (snd (to_matrix m t)).
Proof.
  unfold to_matrix. simpl. split.
  - now rewrite map_length.
  - apply Forall_forall. intros r Hr. rewrite in_map_iff in Hr. destruct Hr as [a [<- _]].
    now rewrite map_length.
Qed.

Local Arguments to_matrix : simpl never.

Lemma list_eqb_string_eq a : forall b, list_eqb String.eqb a b = true -> a = b.
Proof.
  induction a as [|x a IH]; intros [|y b] H; simpl in *; try discriminate; auto.
  apply andb_true_iff in H as [H1 H2]. apply String.eqb_eq in H1. subst. f_equal. auto.
Qed.

(** sum of the cells (i, j) of the matrices of the trees *)
Definition sum_cells (m : metric) (ts : list utree) (i j : nat) : Q :=
  fold_right (fun t acc => (mcell (snd (to_matrix m t)) i j + acc)%Q) 0%Q ts.

Lemma avg_loop_cons m nms acc t r :
  avg_loop m nms acc (t :: r) =
  let '(names2, m2) := to_matrix m t in
  if negb (Nat.eqb (length nms) (length names2)) then Err "index out of range"%string
  else if negb (list_eqb String.eqb nms names2)
       then Err "trees do not have the same sets of tip names"%string
       else avg_loop m nms (madd acc m2) r.
Proof. reflexivity. Qed.

Lemma avg_loop_sem m nms : forall ts acc s,
  rect (length nms) (length nms) acc ->
  avg_loop m nms acc ts = Ok s ->
  Forall (fun t => fst (to_matrix m t) = nms) ts /\
  rect (length nms) (length nms) s /\
  forall i j, (mcell s i j == mcell acc i j + sum_cells m ts i j)%Q.
Proof.
  induction ts as [|t r IH]; intros acc s Hacc H.
  - simpl in H. inversion H; subst. repeat split; auto; try apply Hacc. intros. simpl. ring.
  - rewrite avg_loop_cons in H. destruct (to_matrix m t) as [n2 m2] eqn:E.
    destruct (Nat.eqb (length nms) (length n2)); simpl in H; [|discriminate].
    destruct (list_eqb String.eqb nms n2) eqn:En; simpl in H; [|discriminate].
    apply list_eqb_string_eq in En. subst n2.
    assert (R2 : rect (length nms) (length nms) m2).
    { generalize (to_matrix_rect m t). now rewrite E. }
    destruct (IH _ _ (madd_rect _ _ _ _ Hacc R2) H) as [F [Rs Hs]].
    split; [constructor; auto; now rewrite E|]. split; auto.
    intros i j. rewrite Hs, (madd_cell _ _ _ _ i j Hacc R2).
    change (sum_cells m (t :: r) i j) with (mcell (snd (to_matrix m t)) i j + sum_cells m r i j)%Q.
    rewrite E. simpl snd. ring.
Qed.

(** the average matrix is the entrywise mean of the matrices of the trees, which all have
    the same row names *)
Theorem avg_matrix_mean m t r nms M :
  avg_matrix m (t :: r) = Ok (nms, M) ->
  Forall (fun t' => fst (to_matrix m t') = nms) (t :: r) /\
  forall i j, (mcell M i j == sum_cells m (t :: r) i j / inject_Z (Z.of_nat (length (t :: r))))%Q.
Proof.
  unfold avg_matrix. destruct (to_matrix m t) as [n1 m1] eqn:E.
  destruct (avg_loop m n1 m1 r) as [s|e] eqn:L; [|discriminate].
  intros H. inversion H; subst. clear H.
  assert (R1 : rect (length nms) (length nms) m1).
  { generalize (to_matrix_rect m t). now rewrite E. }
  destruct (avg_loop_sem _ _ _ _ _ R1 L) as [F [Rs Hs]].
  split; [constructor; auto; now rewrite E|].
  intros i j. destruct r as [|t2 r2].
  - simpl in L. inversion L; subst.
    change (sum_cells m [t] i j) with (mcell (snd (to_matrix m t)) i j + 0)%Q.
    rewrite E. simpl. field.
  - rewrite mdiv_cell, Hs.
    change (sum_cells m (t :: t2 :: r2) i j) with (mcell (snd (to_matrix m t)) i j + sum_cells m (t2 :: r2) i j)%Q.
    rewrite E. simpl snd. reflexivity.
Qed.

(** the average is defined as soon as all trees have the same row names *)
Theorem avg_matrix_defined m t r :
  Forall (fun t' => fst (to_matrix m t') = fst (to_matrix m t)) r ->
  exists M, avg_matrix m (t :: r) = Ok (fst (to_matrix m t), M).
Proof.
  intros F. unfold avg_matrix. destruct (to_matrix m t) as [n1 m1] eqn:E. simpl in F.
  assert (X : forall acc, exists s, avg_loop m n1 acc r = Ok s).
  { induction F as [|t' r' Ht _ IH]; intros acc; [simpl; eauto|]. rewrite avg_loop_cons.
    destruct (to_matrix m t') as [n2 m2] eqn:E2.
    assert (n2 = n1) by (rewrite <- Ht; unfold to_matrix in E2; now inversion E2). subst n2.
    rewrite Nat.eqb_refl. simpl.
    assert (list_eqb String.eqb n1 n1 = true) as ->.
    { clear. induction n1; simpl; auto. now rewrite String.eqb_refl. }
    simpl. apply IH. }
  destruct (X m1) as [s ->]. eauto.
Qed.

(** the cell at position (i, j) of the returned matrix is the cell of the i-th and j-th names *)
Theorem to_matrix_entry m t i j :
  wf t = true -> 2 <= degree t ->
  i < length (fst (to_matrix m t)) -> j < length (fst (to_matrix m t)) ->
  mcell (snd (to_matrix m t)) i j =
  cell m t (nth i (fst (to_matrix m t)) ""%string) (nth j (fst (to_matrix m t)) ""%string).
Proof.
  intros Hwf Hd. rewrite to_matrix_shape by auto. simpl fst. simpl snd. intros Hi Hj.
  set (nm := name_sort (leaves t)) in *. unfold mcell.
  set (F := fun a : string => map (fun b : string => cell m t a b) nm).
  rewrite (nth_indep (map F nm) [] (F ""%string)) by (now rewrite map_length).
  rewrite map_nth. unfold F.
  set (G := fun b : string => cell m t (nth i nm ""%string) b).
  rewrite (nth_indep (map G nm) 0%Q (G ""%string)) by (now rewrite map_length).
  now rewrite map_nth.
Qed.

(** a concrete tree in the domain of the statements: ((a:1,b:2)0.5:3,c:4,d); *)
Definition c14_tree : utree :=
  UNode "" [] [Some (mkE 3 (1#2) nilv [], UNode "" [] [None; Some (mkE 1 nilv nilv [], UNode "a" [] [None]);
                                                        Some (mkE 2 nilv nilv [], UNode "b" [] [None])]);
               Some (mkE 4 nilv nilv [], UNode "c" [] [None]);
               Some (mkE nilv nilv nilv [], UNode "d" [] [None])]%string.

Lemma c14_tree_good : good c14_tree.
Proof.
  split; [vm_compute; reflexivity|]. split; [vm_compute; lia|].
  vm_compute. repeat constructor; simpl; intuition discriminate.
Qed.

Lemma c14_tree_matrix :
  to_matrix MBrlen c14_tree =
  (["a"; "b"; "c"; "d"]%string,
   [[0; 3; 8; 4]; [3; 0; 9; 5]; [8; 9; 0; 4]; [4; 5; 4; 0]]%Q) /\
  to_matrix MBoots c14_tree =
  (["a"; "b"; "c"; "d"]%string,
   [[0; 2; 5#2; 5#2]; [2; 0; 5#2; 5#2]; [5#2; 5#2; 0; 2]; [5#2; 5#2; 2; 0]]%Q).
Proof. split; vm_compute; reflexivity. Qed.
