(** C05 (i), rooting on an outgroup without removal: the stages of [reroot_outgroup]
    (unroot, look from the neighbour of a tip outside the outgroup, insert the new root in the
    middle of the chosen branch, re-root) keep well-formedness, the leaves and every tip-to-tip
    path length ([len0]: an absent length counts 0). *)
From Coq Require Import String ZArith QArith Bool Arith Lia List Permutation Setoid Morphisms.
From GT Require Import Base.UTree Spec.Obs Model.Reroot Model.Outgroup Spec.Unrooted
     Proofs.RerootBase Proofs.Reroot Proofs.Reorder Proofs.Unroot Proofs.OutgroupBase Proofs.OutgroupCut.
Import ListNotations.
Local Close Scope Q_scope.
Local Arguments n_up : simpl never.

(** ** stage 1: UnRoot *)
Lemma unroot_stage t :
  wf t = true -> 2 <= degree t -> (rooted t = true -> root_has_inner_child t = true) ->
  wf (unroot t) = true /\ 2 <= degree (unroot t) /\
  Permutation (leaves (unroot t)) (leaves t) /\
  dists_equiv (pairdists len0 (unroot t)) (pairdists len0 t).
Proof.
  intros Hwf Hd Hi. destruct (rooted t) eqn:Hr.
  - specialize (Hi eq_refl). repeat split.
    + now apply unroot_wf_rooted.
    + destruct (rooted_shape t Hwf Hr) as (n0&c0&e1&n1&c1&sl1&e2&n2&c2&sl2&->).
      rewrite unroot_degree by auto.
      destruct (rooted_facts n0 c0 e1 n1 c1 sl1 e2 n2 c2 sl2 Hwf) as [U1 [U2 _]].
      unfold root_has_inner_child, kids, is_tip, degree in Hi. simpl in Hi.
      rewrite orb_false_r in Hi.
      pose proof (length_slots sl1). pose proof (length_slots sl2).
      destruct (Nat.eqb (length sl1) 1) eqn:T1.
      * simpl in Hi. apply negb_true_iff, Nat.eqb_neq in Hi. lia.
      * apply Nat.eqb_neq in T1. lia.
    + now apply unroot_leaves_rooted.
    + now apply unroot_pairdists_len0.
  - rewrite (unroot_not_rooted t Hr). repeat split; auto; reflexivity.
Qed.

(** ** stage 2: the view from the neighbour of a tip *)
Lemma Forall2_combine_In {A B} (R : A -> B -> Prop) l l' a b :
  Forall2 R l l' -> In (a, b) (combine l l') -> R a b.
Proof.
  induction 1; simpl; intros H'; [tauto|]. destruct H' as [E|H']; auto. now inversion E; subst.
Qed.

Lemma tip_paths_In t q lf :
  In (q, lf) (tip_paths t) -> node_at t q = Some lf /\ is_tip lf = true.
Proof.
  unfold tip_paths. rewrite filter_In. simpl. intros [H1 H2]. split; auto.
  exact (Forall2_combine_In _ _ _ _ _ (paths_nodes t) H1).
Qed.

Lemma node_at_wf_sub p : forall t m,
  (wf t = true \/ wf_sub t = true) -> p <> [] -> node_at t p = Some m -> wf_sub m = true.
Proof.
  induction p as [|k r IH]; intros t m Hwf Hp Hn; [congruence|].
  simpl in Hn. destruct (nth_error (uslots t) k) as [[[e ch]|]|] eqn:E; try discriminate.
  assert (Hc : wf_sub ch = true).
  { destruct t as [n c sl]. simpl in *.
    destruct Hwf as [H|H]; apply andb_true_iff in H as [_ H]; eapply wf_sub_child; eauto. }
  destruct r as [|k2 r2].
  - simpl in Hn. now inversion Hn; subst.
  - apply (IH ch m); [right; exact Hc | discriminate | exact Hn].
Qed.

Lemma wf_sub_with_child m k e ch :
  wf_sub m = true -> nth_error (uslots m) k = Some (Some (e, ch)) -> 2 <= degree m.
Proof.
  destruct m as [n c sl]. rewrite wf_sub_unfold. unfold degree. simpl. intros H Hk.
  apply andb_true_iff in H as [H _]. apply Nat.eqb_eq in H.
  rewrite length_slots, H.
  assert (In (e, ch) (kids_of sl)) by (apply kids_of_In; eapply nth_error_In; eauto).
  destruct (kids_of sl); simpl in *; [tauto | lia].
Qed.

Lemma removelast_last_nat (q : list nat) : q <> [] -> q = removelast q ++ [last q 0].
Proof. apply app_removelast_last. Qed.

Lemma view_from_spec t1 q lf v :
  wf t1 = true -> 2 <= degree t1 ->
  node_at t1 q = Some lf -> view_from t1 q = Some v ->
  let t2 := tv_tree v in
  wf t2 = true /\ 2 <= degree t2 /\ Permutation (leaves t2) (leaves t1) /\
  (forall w, dists_equiv (pairdists w t2) (pairdists w t1)).
Proof.
  intros Hwf Hd Hn Hv. unfold view_from in Hv.
  destruct q as [|k0 r0]; [discriminate|].
  cbv zeta in Hv.
  assert (Hq : k0 :: r0 = removelast (k0 :: r0) ++ [last (k0 :: r0) 0])
    by (apply removelast_last_nat; discriminate).
  remember (removelast (k0 :: r0)) as q' eqn:Eq'.
  remember (last (k0 :: r0) 0) as j eqn:Ej'.
  destruct (reroot_path t1 q') as [t2|] eqn:E2; [|discriminate].
  inversion Hv; subst v. cbn [tv_tree].
  rewrite Hq, node_at_app in Hn.
  destruct (node_at t1 q') as [A|] eqn:EA; [|discriminate].
  cbn [node_at] in Hn.
  destruct (nth_error (uslots A) j) as [[[e ch]|]|] eqn:Ej; try discriminate.
  assert (DA : 2 <= degree A).
  { destruct q' as [|k1 r1].
    - simpl in EA. now inversion EA; subst.
    - eapply wf_sub_with_child; eauto. eapply (node_at_wf_sub (k1 :: r1)); eauto. discriminate. }
  assert (PO : path_ok t1 q') by (eapply node_at_path_ok; eauto).
  destruct (reroot_path_preserves _ _ Hwf Hd PO) as [t2' [E2' [W [D [L P]]]]].
  rewrite E2 in E2'. inversion E2'; subst t2'. auto.
Qed.

(** ** the two new branches weigh as much as the branch that is cut *)
Definition half_edge (e : einfo) : einfo :=
  mkE (if qeqb (elen e) nilv then nilv else qhalf (elen e))
      (if qeqb (esup e) nilv then nilv else esup e) nilv [].

Lemma len0_half_edge e : (len0 (half_edge e) + len0 (half_edge e) == len0 e)%Q.
Proof.
  unfold half_edge, len0, qhalf. cbn [elen].
  destruct (qeqb (elen e) nilv) eqn:E0.
  - unfold qeqb in E0. apply Qeq_bool_iff in E0.
    assert (H : Qle_bool 0 (elen e) = false).
    { destruct (Qle_bool 0 (elen e)) eqn:E; auto. apply Qle_bool_iff in E. rewrite E0 in E.
      exfalso. apply (Qlt_irrefl 0). eapply Qle_lt_trans; [exact E|]. reflexivity. }
    rewrite H. reflexivity.
  - destruct (Qle_bool 0 (elen e)) eqn:E1.
    + apply Qle_bool_iff in E1.
      assert (H1 : Qle_bool 0 (elen e * (1 # 2)) = true).
      { apply Qle_bool_iff. apply Qmult_le_0_compat; [auto | discriminate]. }
      rewrite H1. field.
    + assert (H1 : Qle_bool 0 (elen e * (1 # 2)) = false).
      { destruct (Qle_bool 0 (elen e * (1 # 2))) eqn:E; auto. apply Qle_bool_iff in E.
        assert (0 <= elen e)%Q.
        { setoid_replace (elen e) with (elen e * (1 # 2) * 2)%Q by field.
          apply Qmult_le_0_compat; [auto | discriminate]. }
        apply Qle_bool_iff in H. congruence. }
      rewrite H1. reflexivity.
Qed.

(** ** what a success of [reroot_outgroup] (without removal) is made of *)
Lemma reroot_outgroup_keep_inv strict t names t' :
  reroot_outgroup false strict t names = Ok t' ->
  let t1 := unroot t in
  let grp := group t1 names in
  exists q lf v p es diff pp ks lower P e,
    has_dup (node_names t1) = false /\ grp <> [] /\
    find (fun pn => negb (smem (uname (snd pn)) grp)) (tip_paths t1) = Some (q, lf) /\
    view_from t1 q = Some v /\ is_tip (tv_tree v) = false /\
    lca_rec grp (length grp) (tv_tree v) = LFound p es diff /\
    (diff = 0 \/ strict = false) /\
    root_edge (tv_tree v) p es = Ok (pp, ks, lower) /\
    node_at (tv_tree v) pp = Some P /\ edge_at P ks = Some e /\
    cut_and_root (tv_tree v) pp ks (is_prefix (pp ++ [ks]) (tv_root v)) (half_edge e) (half_edge e) = Some t'.
Proof.
  unfold reroot_outgroup. intros H. cbv zeta in *.
  destruct (Nat.ltb (length (tips t)) 3); [discriminate|].
  set (t1 := unroot t) in *. set (grp := group t1 names) in *.
  destruct (has_dup (node_names t1)) eqn:Hdup; [discriminate|].
  destruct (Nat.eqb (length grp) 0) eqn:Hk; [discriminate|].
  destruct (find _ (tip_paths t1)) as [[q lf]|] eqn:Hf; [|discriminate].
  destruct (view_from t1 q) as [v|] eqn:Hv; [|discriminate].
  destruct (is_tip (tv_tree v)) eqn:Ht; [discriminate|].
  destruct (lca_rec grp (length grp) (tv_tree v)) as [p es diff|] eqn:Hl; [|discriminate].
  destruct (negb (Nat.eqb diff 0) && strict) eqn:Hs; [discriminate|].
  destruct (root_edge (tv_tree v) p es) as [[[pp ks] lower]|] eqn:Hr; [|discriminate].
  destruct (node_at (tv_tree v) pp) as [P|] eqn:HP; [|discriminate].
  simpl in H.
  destruct (edge_at P ks) as [e|] eqn:He; [|discriminate].
  fold (half_edge e) in H.
  destruct (cut_and_root _ _ _ _ _ _) as [t4|] eqn:Hc; [|discriminate].
  inversion H; subst t4.
  exists q, lf, v, p, es, diff, pp, ks, lower, P, e.
  repeat split; auto.
  - intros E. rewrite E in Hk. discriminate.
  - apply andb_false_iff in Hs as [Hs|Hs]; [left|right; auto].
    apply negb_false_iff, Nat.eqb_eq in Hs. auto.
Qed.

(** ** (i) for RerootOutGroup(false, strict, ...) *)
Theorem reroot_outgroup_keep_preserves strict t names t' :
  wf t = true -> 2 <= degree t -> (rooted t = true -> root_has_inner_child t = true) ->
  reroot_outgroup false strict t names = Ok t' ->
  wf t' = true /\ degree t' = 2 /\ Permutation (leaves t') (leaves t) /\
  dists_equiv (pairdists len0 t') (pairdists len0 t).
Proof.
  intros Hwf Hd Hi H.
  destruct (reroot_outgroup_keep_inv _ _ _ _ H)
    as (q&lf&v&p&es&diff&pp&ks&lower&P&e&_&_&Hf&Hv&_&_&_&_&HP&He&Hc).
  destruct (unroot_stage t Hwf Hd Hi) as [W1 [D1 [L1 P1]]].
  apply find_some in Hf as [Hf _]. apply tip_paths_In in Hf as [Hq _].
  destruct (view_from_spec _ _ _ _ W1 D1 Hq Hv) as [W2 [D2 [L2 P2]]].
  unfold edge_at in He.
  destruct (nth_error (uslots P) ks) as [[[e' ch]|]|] eqn:Ek; try discriminate.
  inversion He; subst e'.
  destruct (cut_and_root_spec len0 (tv_tree v) pp ks (is_prefix (pp ++ [ks]) (tv_root v))
              (half_edge e) (half_edge e) P e ch W2 D2 HP Ek (len0_half_edge e))
    as [t4 [R [E4 [S4 [W4 [L4 P4]]]]]].
  assert (Et : t4 = t') by congruence.
  rewrite Et in *. clear Et E4.
  repeat split.
  - exact W4.
  - rewrite S4. destruct (is_prefix _ _); reflexivity.
  - now rewrite L4, L2.
  - etransitivity; [exact P4|]. etransitivity; [apply P2 | exact P1].
Qed.
