(** C08, part 7: the weighted comparison.  On the domain of [compare_counts] the three lists of
    CompareWeighted are exactly the lengths of the splits only in the reference, the lengths of
    the splits only in the compared tree and (reference length - compared length) for the shared
    splits, listed along the branches of the tree they come from; Sametree holds exactly when the
    first two are empty and all the differences are zero. *)
From Coq Require Import String NArith ZArith QArith Bool Arith Lia List Permutation Sorted.
From GT Require Import Base.UTree Spec.Obs Spec.CompareSpec Model.Reroot Model.Index Model.HashMap Model.EdgeIndex
     Model.Compare Proofs.IndexBase Proofs.IndexTree Proofs.IndexSplit Proofs.Splits Proofs.USplits
     Proofs.CompareBase Proofs.CompareTree Proofs.CompareMain.
Import ListNotations.
Local Close Scope Q_scope.
Local Arguments leaves : simpl never.

(** * the two loops in closed form (association-list index, no identical-only shortcut) *)
Definition oreflen (a : aindex) (k : ekey) : option Q :=
  match assoc_value ekey einfo_v ekey_eqb a k with Some v => Some (snd v) | None => None end.

Section Loops.
  Variable tips : bool.
  Variable ra ca : aindex.       (* index of the reference tree, of the compared tree *)

  Definition wcnt (k : ekey) : bool := tips || negb (key_tip k).
  Definition wfound (a : aindex) (k : ekey) : bool := is_some (assoc_value ekey einfo_v ekey_eqb a k).
  Definition wdiff (k : ekey) : Q :=
    match oreflen ra k with Some l => (l - ek_len k)%Q | None => 0%Q end.
  Definition wsame1 (k : ekey) : bool :=
    negb (wcnt k) || match oreflen ra k with Some l => qeqb l (ek_len k) | None => false end.

  Lemma fold_w1 : forall K2 com cmp s,
      fold_left (w1_step aindex ai_value tips false ra) K2 (Some (com, cmp, s, false)) =
      Some (com ++ map wdiff (filter (fun k => wcnt k && wfound ra k) K2),
            cmp ++ map ek_len (filter (fun k => wcnt k && negb (wfound ra k)) K2),
            s && forallb wsame1 K2, false).
  Proof.
    induction K2 as [|k r IH]; intros com cmp s.
    - simpl. now rewrite !app_nil_r, andb_true_r.
    - cbn [fold_left filter forallb].
      assert (STEP : w1_step aindex ai_value tips false ra (Some (com, cmp, s, false)) k =
                     Some (if wcnt k
                           then match assoc_value ekey einfo_v ekey_eqb ra k with
                                | Some v => (com ++ [(snd v - ek_len k)%Q], cmp, s && qeqb (snd v) (ek_len k), false)
                                | None => (com, cmp ++ [ek_len k], false, false)
                                end
                           else (com, cmp, s, false))).
      { unfold w1_step, ai_value. fold (wcnt k). destruct (wcnt k); auto.
        destruct (assoc_value ekey einfo_v ekey_eqb ra k) as [[i l]|]; auto. cbn [snd].
        destruct (qeqb l (ek_len k)); rewrite ?andb_true_r, ?andb_false_r; auto. }
      rewrite STEP. clear STEP.
      destruct (wcnt k) eqn:C; cbn [andb].
      + destruct (assoc_value ekey einfo_v ekey_eqb ra k) as [[i l]|] eqn:E.
        * assert (Fk : wfound ra k = true) by (unfold wfound; rewrite E; reflexivity).
          assert (Dk : wdiff k = (l - ek_len k)%Q) by (unfold wdiff, oreflen; rewrite E; reflexivity).
          assert (Sk : wsame1 k = qeqb l (ek_len k)) by (unfold wsame1, oreflen; rewrite C, E; reflexivity).
          rewrite Fk, Sk. cbn [negb map snd]. rewrite Dk, IH. rewrite <- !app_assoc. cbn [app].
          now rewrite andb_assoc.
        * assert (Fk : wfound ra k = false) by (unfold wfound; rewrite E; reflexivity).
          assert (Sk : wsame1 k = false) by (unfold wsame1, oreflen; rewrite C, E; reflexivity).
          rewrite Fk, Sk. cbn [negb map]. rewrite IH. rewrite <- !app_assoc. cbn [app].
          now rewrite andb_false_r.
      + assert (Sk : wsame1 k = true) by (unfold wsame1; rewrite C; reflexivity).
        rewrite Sk, IH. reflexivity.
  Qed.

  Lemma qeqb_diff (l x : Q) : qeqb l x = qeqb (l - x)%Q 0%Q.
  Proof.
    unfold qeqb. destruct (Qeq_bool l x) eqn:E1, (Qeq_bool (l - x) 0) eqn:E2; auto.
    - apply Qeq_bool_iff in E1. apply Qeq_bool_neq in E2. exfalso. apply E2. rewrite E1. ring.
    - apply Qeq_bool_iff in E2. apply Qeq_bool_neq in E1. exfalso. apply E1.
      setoid_replace l with ((l - x) + x)%Q by ring. rewrite E2. ring.
  Qed.

  Lemma same1_split K :
    forallb wsame1 K =
    Nat.eqb (length (map ek_len (filter (fun k => wcnt k && negb (wfound ra k)) K))) 0
    && forallb (fun x => qeqb x 0%Q) (map wdiff (filter (fun k => wcnt k && wfound ra k) K)).
  Proof.
    induction K as [|k r IH]; [reflexivity|].
    cbn [forallb filter].
    destruct (wcnt k) eqn:C; cbn [andb].
    - destruct (assoc_value ekey einfo_v ekey_eqb ra k) as [[i l]|] eqn:E.
      + assert (Fk : wfound ra k = true) by (unfold wfound; rewrite E; reflexivity).
        assert (Dk : wdiff k = (l - ek_len k)%Q) by (unfold wdiff, oreflen; rewrite E; reflexivity).
        assert (Sk : wsame1 k = qeqb l (ek_len k)) by (unfold wsame1, oreflen; rewrite C, E; reflexivity).
        rewrite Fk, Sk. cbn [negb map forallb]. rewrite Dk, IH, (qeqb_diff l (ek_len k)).
        destruct (qeqb (l - ek_len k) 0); cbn [andb]; [reflexivity|]. now rewrite andb_false_r.
      + assert (Fk : wfound ra k = false) by (unfold wfound; rewrite E; reflexivity).
        assert (Sk : wsame1 k = false) by (unfold wsame1, oreflen; rewrite C, E; reflexivity).
        rewrite Fk, Sk. cbn [negb map length]. reflexivity.
    - assert (Sk : wsame1 k = true) by (unfold wsame1; rewrite C; reflexivity).
      rewrite Sk. exact IH.
  Qed.

  Definition wsame2 (k : ekey) : bool := negb (wcnt k) || wfound ca k.

  Lemma same2_split K :
    forallb wsame2 K = Nat.eqb (length (map ek_len (filter (fun k => wcnt k && negb (wfound ca k)) K))) 0.
  Proof.
    induction K as [|k r IH]; [reflexivity|].
    cbn [forallb filter]. unfold wsame2 at 1.
    destruct (wcnt k); cbn [negb orb andb]; [|exact IH].
    destruct (wfound ca k); cbn [negb]; [exact IH|reflexivity].
  Qed.

  Lemma fold_w2 : forall K1 rf s,
      fold_left (w2_step aindex ai_value tips false ca) K1 (Some (rf, s, false)) =
      Some (rf ++ map ek_len (filter (fun k => wcnt k && negb (wfound ca k)) K1), s && forallb wsame2 K1, false).
  Proof.
    induction K1 as [|k r IH]; intros rf s.
    - simpl. now rewrite app_nil_r, andb_true_r.
    - cbn [fold_left filter forallb].
      assert (STEP : w2_step aindex ai_value tips false ca (Some (rf, s, false)) k =
                     Some (if wcnt k
                           then match assoc_value ekey einfo_v ekey_eqb ca k with
                                | Some _ => (rf, s, false)
                                | None => (rf ++ [ek_len k], false, false)
                                end
                           else (rf, s, false))).
      { unfold w2_step, ai_value. fold (wcnt k). destruct (wcnt k); auto.
        destruct (assoc_value ekey einfo_v ekey_eqb ca k); auto. }
      rewrite STEP. clear STEP.
      destruct (wcnt k) eqn:C; cbn [andb].
      + destruct (assoc_value ekey einfo_v ekey_eqb ca k) as [v|] eqn:E.
        * assert (Fk : wfound ca k = true) by (unfold wfound; rewrite E; reflexivity).
          assert (Sk : wsame2 k = true) by (unfold wsame2; rewrite Fk; apply orb_true_r).
          rewrite Fk, Sk. cbn [negb]. rewrite IH. reflexivity.
        * assert (Fk : wfound ca k = false) by (unfold wfound; rewrite E; reflexivity).
          assert (Sk : wsame2 k = false) by (unfold wsame2; rewrite Fk, C; reflexivity).
          rewrite Fk, Sk. cbn [negb map]. rewrite IH. rewrite <- app_assoc. cbn [app].
          now rewrite andb_false_r.
      + assert (Sk : wsame2 k = true) by (unfold wsame2; rewrite C; reflexivity).
        rewrite Sk, IH. reflexivity.
  Qed.
End Loops.

(** * keys and splits in correspondence: stored lengths *)
Section Abs.
  Variable KS : ekey -> split -> Prop.
  Hypothesis KS_eqb : forall k s k' s', KS k s -> KS k' s' -> ekey_eqb k k' = split_key_eqb s s'.
  Hypothesis KS_len : forall k s, KS k s -> ek_len k = slen s.

  Definition vals_ok (a : aindex) : Prop := forall kv, In kv a -> snd (snd kv) = ek_len (fst kv).

  Lemma put_all_fresh_vals : forall K B,
      Forall2 KS K B -> NoDup (map sside B) ->
      forall pre Bpre (a : aindex) i,
        Forall2 KS pre Bpre -> map fst a = pre -> vals_ok a ->
        (forall s s', In s Bpre -> In s' B -> sside s <> sside s') ->
        exists a', put_all aindex ai_put a i K = Some a' /\ map fst a' = pre ++ K /\ vals_ok a'.
  Proof.
    induction 1 as [|k s K B Hks HF IH]; intros ND pre Bpre a i Hpre Ha Hv Hdis.
    - exists a. simpl. rewrite app_nil_r. auto.
    - simpl in ND. inversion ND as [|? ? Hnin ND']; subst.
      simpl put_all. unfold ai_put at 1.
      rewrite assoc_put_fresh.
      + destruct (IH ND' (map fst a ++ [k]) (Bpre ++ [s]) (a ++ [(k, (i, ek_len k))]) (i + 1)%Z) as (a' & E & M & V).
        * apply Forall2_app'; auto.
        * now rewrite map_app.
        * intros kv Hkv. apply in_app_or in Hkv. destruct Hkv as [Hkv|[<-|[]]]; auto.
        * intros s1 s2 H1 H2. apply in_app_or in H1. destruct H1 as [H1|[<-|[]]].
          -- apply Hdis; auto. now right.
          -- intro E. apply Hnin. rewrite E. now apply in_map.
        * exists a'. split; auto. split; auto. rewrite M, <- app_assoc. reflexivity.
      + intros [k' v'] Hin. simpl.
        assert (Hk' : In k' (map fst a)) by (apply in_map_iff; exists (k', v'); auto).
        destruct (Forall2_in_l _ _ _ _ Hpre Hk') as (s' & Hs' & Hks').
        rewrite (KS_eqb _ _ _ _ Hks Hks'). unfold split_key_eqb. apply sset_eqb_false.
        intro E. apply (Hdis s' s); auto. now left.
  Qed.

  Lemma build_index_vals K B :
    Forall2 KS K B -> NoDup (map sside B) ->
    exists a, build_index aindex ai_new ai_put K = Some a /\ map fst a = K /\ vals_ok a.
  Proof.
    intros HF ND. unfold build_index, ai_new.
    destruct (put_all_fresh_vals K B HF ND [] [] [] 0%Z (Forall2_nil _) eq_refl) as (a & E & M & V).
    { intros ? []. }
    { intros ? ? []. }
    exists a. auto.
  Qed.

  (** the length stored for the bipartition of [q] is the length of the split with that key *)
  Lemma oreflen_find K B : forall (a : aindex) q sq,
      Forall2 KS K B -> map fst a = K -> vals_ok a -> KS q sq ->
      oreflen a q = match find_split (sside sq) B with Some s => Some (slen s) | None => None end.
  Proof.
    intros a q sq HF. revert a. induction HF as [|k s K B Hks HF IH]; intros a Ha Hv Hq.
    - destruct a; [reflexivity|discriminate].
    - destruct a as [|[k0 v0] a]; [discriminate|]. simpl in Ha. inversion Ha; subst.
      unfold oreflen, assoc_value, bucket_find, find_split. simpl.
      rewrite (KS_eqb _ _ _ _ Hq Hks). unfold split_key_eqb.
      assert (SYM : sset_eqb (sside s) (sside sq) = sset_eqb (sside sq) (sside s)).
      { destruct (sset_eqb (sside s) (sside sq)) eqn:E1, (sset_eqb (sside sq) (sside s)) eqn:E2; auto.
        - apply sset_eqb_eq in E1. apply sset_eqb_false in E2. congruence.
        - apply sset_eqb_eq in E2. apply sset_eqb_false in E1. congruence. }
      rewrite SYM. destruct (sset_eqb (sside sq) (sside s)).
      + simpl. f_equal. pose proof (Hv (k, v0) (or_introl eq_refl)) as Hv0. simpl in Hv0. rewrite Hv0.
        apply (KS_len _ _ Hks).
      + apply (IH a eq_refl); auto. intros kv Hkv. apply Hv. now right.
  Qed.

  Lemma filter_map_transport {X} (f : ekey -> bool) (g : split -> bool) (h : ekey -> X) (h' : split -> X) K B :
    Forall2 KS K B -> (forall k s, KS k s -> f k = g s /\ (g s = true -> h k = h' s)) ->
    map h (filter f K) = map h' (filter g B).
  Proof.
    intros HF H. induction HF as [|k s K B Hks HF IH]; simpl; auto.
    destruct (H _ _ Hks) as [E1 E2]. rewrite E1. destruct (g s); simpl; auto. rewrite IH, E2; auto.
  Qed.

  Lemma forallb_transport (f : ekey -> bool) (g : split -> bool) K B :
    Forall2 KS K B -> (forall k s, KS k s -> f k = g s) -> forallb f K = forallb g B.
  Proof. intros HF H. induction HF; simpl; auto. now rewrite (H _ _ H0), IHHF. Qed.
End Abs.

(** * lookups in a split list with pairwise distinct keys *)
Lemma find_split_filter (p : split -> bool) k B :
  NoDup (map sside B) ->
  find_split k (filter p B) = match find_split k B with Some s => if p s then Some s else None | None => None end.
Proof.
  unfold find_split. induction B as [|x B IH]; simpl; intros ND; auto.
  inversion ND as [|? ? Hn ND']; subst.
  destruct (sset_eqb (sside x) k) eqn:E.
  - destruct (p x); simpl; [now rewrite E|].
    rewrite (IH ND'). destruct (find (fun s => sset_eqb (sside s) k) B) eqn:F; auto.
    exfalso. apply find_some in F. destruct F as [Hin Ek]. apply sset_eqb_eq in E. apply sset_eqb_eq in Ek.
    apply Hn. rewrite E, <- Ek. now apply in_map.
  - destruct (p x); simpl; [rewrite E|]; apply (IH ND').
Qed.

Lemma find_split_has_key B s : has_key B s = is_some (find_split (sside s) B).
Proof.
  unfold has_key, find_split. induction B as [|x B IH]; simpl; auto.
  unfold split_key_eqb.
  assert (SYM : sset_eqb (sside s) (sside x) = sset_eqb (sside x) (sside s)).
  { destruct (sset_eqb (sside s) (sside x)) eqn:E1, (sset_eqb (sside x) (sside s)) eqn:E2; auto.
    - apply sset_eqb_eq in E1. apply sset_eqb_false in E2. congruence.
    - apply sset_eqb_eq in E2. apply sset_eqb_false in E1. congruence. }
  rewrite SYM. destruct (sset_eqb (sside x) (sside s)); simpl; auto.
Qed.

Definition all_zero (l : list Q) : bool := forallb (fun x => qeqb x 0%Q) l.

(** * the main statement *)
Theorem compare_weighted_terms tips t1 t2 :
  good t1 -> good t2 -> Permutation (leaves t1) (leaves t2) ->
  dupfree t1 -> dupfree t2 -> tipflags t1 -> tipflags t2 ->
  compare_weighted tips false t1 t2 =
  Some (Ok (mkWS (spec_w_only1 tips t1 t2) (spec_w_only2 tips t1 t2) (spec_w_common tips t1 t2)
                 (Nat.eqb (length (spec_w_only1 tips t1 t2)) 0 && Nat.eqb (length (spec_w_only2 tips t1 t2)) 0
                  && all_zero (spec_w_common tips t1 t2))
                 EmptyString)).
Proof.
  intros G1 G2 P D1 D2 F1 F2.
  assert (ET : tipset t2 = tipset t1) by (unfold tipset; apply sset_perm; now symmetry).
  set (B1 := branch_splits (tipset t1) t1).
  set (B2 := branch_splits (tipset t2) t2).
  set (K1 := branch_keys 0 t1). set (K2 := branch_keys 1 t2).
  set (KS := fun k s => key_of t1 k s \/ key_of t2 k s).
  assert (KS_eqb : forall k s k' s', KS k s -> KS k' s' -> ekey_eqb k k' = split_key_eqb s s').
  { intros k s k' s' [H|H] [H'|H'].
    - apply (key_of_eqb t1 t1); auto.
    - apply (key_of_eqb t1 t2); auto.
    - apply (key_of_eqb t2 t1); auto. now symmetry.
    - apply (key_of_eqb t2 t2); auto. }
  assert (KS_tip : forall k s, KS k s -> key_tip k = stip s).
  { intros k s [H|H]; [apply (key_of_tip t1)|apply (key_of_tip t2)]; auto. }
  assert (KS_len : forall k s, KS k s -> ek_len k = slen s).
  { intros k s [H|H]; eapply key_of_len; eauto. }
  assert (FK1 : Forall2 KS K1 B1).
  { eapply Forall2_mono; [|apply branch_keys_splits; auto]. intros; left; auto. }
  assert (FK2 : Forall2 KS K2 B2).
  { eapply Forall2_mono; [|apply branch_keys_splits; auto]. intros; right; auto. }
  unfold compare_weighted, compare_weighted_gen.
  rewrite (reinit_good 0 t1 G1), (reinit_good 1 t2 G2). fold K1 K2.
  destruct (build_index_vals KS KS_eqb K1 B1 FK1 D1) as (ra & Era & Mra & Vra).
  destruct (build_index_vals KS KS_eqb K2 B2 FK2 D2) as (ca & Eca & Mca & Vca).
  rewrite Era, Eca. rewrite fold_w1. cbn [app]. rewrite fold_w2. cbn [app].
  rewrite (compare_tip_indexes_same t1 t2 G1 G2 P).
  set (S1 := filter (counted tips) B1). set (S2 := filter (counted tips) B2).
  (* pointwise facts *)
  assert (Ecnt : forall k s, KS k s -> wcnt tips k = counted tips s).
  { intros k s H. unfold wcnt, counted. now rewrite (KS_tip _ _ H). }
  assert (Ef1 : forall k s, KS k s -> wfound ra k = has_key B1 s).
  { intros k s H. unfold wfound. rewrite assoc_value_existsb, Mra. apply (existsb_transport KS KS_eqb K1 B1 k s FK1 H). }
  assert (Ef2 : forall k s, KS k s -> wfound ca k = has_key B2 s).
  { intros k s H. unfold wfound. rewrite assoc_value_existsb, Mca. apply (existsb_transport KS KS_eqb K2 B2 k s FK2 H). }
  assert (Er1 : forall k s, KS k s -> oreflen ra k = match find_split (sside s) B1 with Some s' => Some (slen s') | None => None end).
  { intros k s H. apply (oreflen_find KS KS_eqb KS_len K1 B1); auto. }
  (* a counted split found among all the branches of the other tree is found among the counted ones *)
  assert (TK : forall s s', (In s B1 \/ In s B2) -> (In s' B1 \/ In s' B2) -> sside s = sside s' -> stip s = stip s').
  { intros s s' Hs Hs' E.
    assert (A : stip s = negb (nontrivial_split (length (tipset t1)) s)) by (destruct Hs as [H|H]; [apply F1|rewrite <- ET; apply F2]; auto).
    assert (A' : stip s' = negb (nontrivial_split (length (tipset t1)) s')) by (destruct Hs' as [H|H]; [apply F1|rewrite <- ET; apply F2]; auto).
    rewrite A, A'. unfold nontrivial_split. now rewrite E. }
  assert (FS12 : forall s, In s B2 -> counted tips s = true -> find_split (sside s) S1 = find_split (sside s) B1).
  { intros s Hs C. unfold S1. rewrite find_split_filter by exact D1.
    destruct (find_split (sside s) B1) as [s'|] eqn:Fs; auto.
    unfold find_split in Fs. apply find_some in Fs. destruct Fs as [Hin E]. apply sset_eqb_eq in E.
    assert (C' : counted tips s' = true).
    { unfold counted in *. rewrite (TK s' s); auto. }
    now rewrite C'. }
  assert (FS21 : forall s, In s B1 -> counted tips s = true -> find_split (sside s) S2 = find_split (sside s) B2).
  { intros s Hs C. unfold S2. rewrite find_split_filter by exact D2.
    destruct (find_split (sside s) B2) as [s'|] eqn:Fs; auto.
    unfold find_split in Fs. apply find_some in Fs. destruct Fs as [Hin E]. apply sset_eqb_eq in E.
    assert (C' : counted tips s' = true).
    { unfold counted in *. rewrite (TK s' s); auto. }
    now rewrite C'. }
  assert (HK12 : forall s, In s B2 -> counted tips s = true -> has_key B1 s = has_key S1 s).
  { intros s Hs C. now rewrite !find_split_has_key, FS12. }
  assert (HK21 : forall s, In s B1 -> counted tips s = true -> has_key B2 s = has_key S2 s).
  { intros s Hs C. now rewrite !find_split_has_key, FS21. }
  (* the three lists *)
  assert (L1 : map ek_len (filter (fun k => wcnt tips k && negb (wfound ca k)) K1) = spec_w_only1 tips t1 t2).
  { unfold spec_w_only1, only_in, split_list. rewrite (usplits_dupfree t1 D1), (usplits_dupfree t2 D2). fold B1 B2 S1 S2.
    unfold S1 at 1. rewrite filter_filter.
    rewrite (filter_ext_in' (fun x => counted tips x && negb (has_key S2 x)) (fun x => counted tips x && negb (has_key B2 x)) B1).
    - apply (filter_map_transport KS); auto. intros k s H. rewrite (Ecnt _ _ H), (Ef2 _ _ H). split; auto.
    - intros s Hs. destruct (counted tips s) eqn:C; simpl; auto. now rewrite (HK21 s Hs C). }
  assert (L2 : map ek_len (filter (fun k => wcnt tips k && negb (wfound ra k)) K2) = spec_w_only2 tips t1 t2).
  { unfold spec_w_only2, only_in, split_list. rewrite (usplits_dupfree t1 D1), (usplits_dupfree t2 D2). fold B1 B2 S1 S2.
    unfold S2 at 1. rewrite filter_filter.
    rewrite (filter_ext_in' (fun x => counted tips x && negb (has_key S1 x)) (fun x => counted tips x && negb (has_key B1 x)) B2).
    - apply (filter_map_transport KS); auto. intros k s H. rewrite (Ecnt _ _ H), (Ef1 _ _ H). split; auto.
    - intros s Hs. destruct (counted tips s) eqn:C; simpl; auto. now rewrite (HK12 s Hs C). }
  assert (L3 : map (wdiff ra) (filter (fun k => wcnt tips k && wfound ra k) K2) = spec_w_common tips t1 t2).
  { unfold spec_w_common, in_both, split_list. rewrite (usplits_dupfree t1 D1), (usplits_dupfree t2 D2). fold B1 B2 S1 S2.
    unfold S2 at 1. rewrite filter_filter.
    rewrite (filter_ext_in' (fun x => counted tips x && has_key S1 x) (fun x => counted tips x && has_key B1 x) B2).
    2:{ intros s Hs. destruct (counted tips s) eqn:C; simpl; auto. now rewrite (HK12 s Hs C). }
    (* the transport needs membership in B2 for the lengths: go through an explicit induction *)
    assert (GEN : forall K B, Forall2 KS K B -> incl B B2 ->
                              map (wdiff ra) (filter (fun k => wcnt tips k && wfound ra k) K) =
                              map (fun s2 => (len_in S1 s2 - slen s2)%Q) (filter (fun x => counted tips x && has_key B1 x) B)).
    { intros K B HF. induction HF as [|k s K B Hks HF IHF]; intros I; simpl; auto.
      rewrite (Ecnt _ _ Hks), (Ef1 _ _ Hks).
      assert (Hs : In s B2) by (apply I; now left).
      assert (I' : incl B B2) by (intros x Hx; apply I; now right).
      destruct (counted tips s) eqn:C; simpl; [|apply IHF; auto].
      destruct (has_key B1 s) eqn:H1; simpl; [|apply IHF; auto].
      rewrite (IHF I'). f_equal.
      unfold wdiff. rewrite (Er1 _ _ Hks). unfold len_in. rewrite (FS12 s Hs C).
      rewrite (KS_len _ _ Hks).
      rewrite find_split_has_key in H1.
      destruct (find_split (sside s) B1); [reflexivity|discriminate]. }
    apply GEN; auto. apply incl_refl. }
  rewrite L1, L2, L3.
  (* sametree *)
  f_equal. f_equal. f_equal.
  rewrite andb_true_l.
  assert (SA : forallb (wsame1 tips ra) K2 = Nat.eqb (length (spec_w_only2 tips t1 t2)) 0 && all_zero (spec_w_common tips t1 t2)).
  { rewrite <- L2, <- L3. apply same1_split. }
  assert (SB : forallb (wsame2 tips ca) K1 = Nat.eqb (length (spec_w_only1 tips t1 t2)) 0).
  { rewrite <- L1. apply same2_split. }
  rewrite SA, SB.
  destruct (Nat.eqb (length (spec_w_only1 tips t1 t2)) 0), (Nat.eqb (length (spec_w_only2 tips t1 t2)) 0),
    (all_zero (spec_w_common tips t1 t2)); reflexivity.
Qed.
