(** C13, Newick -> Nexus with a TRANSLATE table -> Newick with the writer and parser of C01,
    on the common domain: every tree comes back, in order, with the same rose. *)
From Coq Require Import String Ascii ZArith QArith Bool Arith Lia List Permutation.
From GT Require Import Base.Sexp Base.UTree Spec.Obs Spec.NewickSpec Model.Newick Model.Nexus
     Proofs.NewickCanon Proofs.NewickTheorem
     Proofs.NexusLex Proofs.NexusWords Proofs.NexusRoundTrip Proofs.NexusRoundTripMain Proofs.NexusRoundTripC01
     Proofs.NexusRoundTripTr Proofs.NexusRename Proofs.NexusNewickText Proofs.NexusDomain Proofs.NexusProperty
     Proofs.NexusTranslate Proofs.NexusPrinted.
Import ListNotations.
Local Close Scope Q_scope.
Local Open Scope string_scope.

(** * the writer's map only grows *)
Lemma add_tips_ext : forall names m, exists x, add_tips names m = (m ++ x)%list.
Proof.
  unfold add_tips. induction names as [|n r IH]; intros m; simpl; [exists []; rewrite app_nil_r; reflexivity|].
  destruct (assoc_get n m).
  - apply IH.
  - destruct (IH (m ++ [(n, itoa (length m))])%list) as [x Hx]. rewrite Hx.
    exists ((n, itoa (length m)) :: x). rewrite <- app_assoc. reflexivity.
Qed.

Lemma final_map_ext : forall l m, exists x, final_map l m = (m ++ x)%list.
Proof.
  unfold final_map. induction l as [|p r IH]; intros m; simpl; [exists []; rewrite app_nil_r; reflexivity|].
  destruct (add_tips_ext (all_tip_names (snd p)) m) as [x Hx]. rewrite Hx.
  destruct (IH (m ++ x)%list) as [y Hy]. rewrite Hy. exists (x ++ y)%list. rewrite app_assoc. reflexivity.
Qed.

Lemma assoc_get_app : forall n a b,
    assoc_get n (a ++ b)%list = match assoc_get n a with Some v => Some v | None => assoc_get n b end.
Proof.
  induction a as [|[x y] a IH]; intros b; simpl; [reflexivity|].
  destruct (String.eqb x n); [reflexivity|apply IH].
Qed.

Lemma assoc_get_in : forall m n, In n (map fst m) -> exists v, assoc_get n m = Some v.
Proof.
  induction m as [|[x y] m IH]; intros n H; simpl in *; [contradiction|].
  destruct (String.eqb x n) eqn:E; [eauto|].
  apply String.eqb_neq in E. destruct H as [H|H]; [contradiction|]. apply IH. exact H.
Qed.

Lemma assoc_get_notin : forall m n, ~ In n (map fst m) -> assoc_get n m = None.
Proof.
  induction m as [|[x y] m IH]; intros n H; simpl in *; [reflexivity|].
  destruct (String.eqb x n) eqn:E.
  - apply String.eqb_eq in E. subst. exfalso. apply H. left. reflexivity.
  - apply IH. intros C. apply H. right. exact C.
Qed.

Lemma add_tips_has : forall names m n, In n names -> In n (map fst (add_tips names m)).
Proof.
  unfold add_tips. induction names as [|x r IH]; intros m n H; [contradiction|]. simpl.
  destruct H as [H|H].
  - subst x.
    assert (K : In n (map fst (match assoc_get n m with Some _ => m | None => (m ++ [(n, itoa (length m))])%list end))).
    { destruct (assoc_get n m) eqn:G.
      - destruct (in_dec string_dec n (map fst m)) as [I|I]; [exact I|].
        rewrite (assoc_get_notin m n I) in G. discriminate.
      - rewrite map_app. apply in_or_app. right. left. reflexivity. }
    set (m1 := match assoc_get n m with Some _ => m | None => (m ++ [(n, itoa (length m))])%list end) in *.
    destruct (add_tips_ext r m1) as [x Hx]. unfold add_tips in Hx. rewrite Hx, map_app. apply in_or_app. left. exact K.
  - apply IH. exact H.
Qed.

(** * every printed tree is the tree renamed with a prefix of the final map that knows its tips *)
Section Rendered.
  Variable wdummy : unit.

  Lemma rendered_spec : forall l m,
      Forall2 (fun it r => fst r = fst it /\
                           exists mi ext, final_map l m = (mi ++ ext)%list /\
                                          (forall n, In n (all_tip_names (snd it)) -> In n (map fst mi)) /\
                                          snd r = renamed true mi (snd it))
              l (rendered m l).
  Proof.
    induction l as [|[id t] r IH]; intros m; [constructor|].
    cbn [rendered]. constructor.
    - split; [reflexivity|].
      destruct (final_map_ext r (add_tips (all_tip_names t) m)) as [x Hx].
      exists (add_tips (all_tip_names t) m), x. split; [exact Hx|]. split; [|reflexivity].
      intros n Hn. apply add_tips_has. exact Hn.
    - exact (IH (add_tips (all_tip_names t) m)).
  Qed.
End Rendered.

(** * tip names as the writer collects them *)
Section Atn.
  Variable fmt : Q -> string.

  Lemma atn_sub : forall t e, nx_sub fmt e t = true -> all_tip_names t = tip_names t.
  Proof.
    induction t as [n c sl IH] using utree_ind'. intros e H.
    cbn [nx_sub] in H. apply andb5 in H. destruct H as (_ & _ & _ & _ & _ & Hn & Hk).
    unfold tip_names. cbn [all_tip_names tips]. unfold is_tip, degree. cbn [uslots].
    destruct (nilb (kids_of sl)) eqn:K.
    - apply andb_true_iff in Hn. destruct Hn as [L _]. rewrite L.
      apply Nat.eqb_eq in L. destruct sl as [|s [|s2 r]]; simpl in L; try lia.
      destruct s as [[e' ch]|]; [discriminate K|]. reflexivity.
    - apply andb_true_iff in Hn. destruct Hn as [L _]. apply Nat.ltb_lt in L.
      destruct (Nat.eqb (length sl) 1) eqn:E; [apply Nat.eqb_eq in E; lia|]. cbn [app].
      clear - IH Hk. induction sl as [|[[e' ch]|] r IHr]; simpl in *; [reflexivity| |].
      + inversion IH as [|? ? Hc Hr]; subst. apply andb_true_iff in Hk. destruct Hk as [K1 K2].
        rewrite map_app. rewrite (Hc e' K1). unfold tip_names. f_equal. apply IHr; assumption.
      + inversion IH as [|? ? Hc Hr]; subst. apply IHr; assumption.
  Qed.

  Lemma atn_root : forall t, nx_root fmt t = true -> all_tip_names t = tip_names t.
  Proof.
    intros [n c sl] H. cbn [nx_root] in H.
    repeat (apply andb_true_iff in H; destruct H as [H ?]).
    rename H2 into L, H0 into Hk. apply Nat.ltb_lt in L.
    unfold tip_names. cbn [all_tip_names tips]. unfold is_tip, degree. cbn [uslots].
    destruct (Nat.eqb (length sl) 1) eqn:E; [apply Nat.eqb_eq in E; lia|]. cbn [app].
    clear - Hk. induction sl as [|[[e' ch]|] r IHr]; simpl in *; [reflexivity| |].
    - apply andb_true_iff in Hk. destruct Hk as [K1 K2].
      rewrite map_app. rewrite (atn_sub ch e' K1). unfold tip_names. f_equal. apply IHr; assumption.
    - apply IHr; assumption.
  Qed.

  (** renaming keeps the Nexus-readable form when tips become decimal numbers and the other
      names do not change *)
  Definition node_ok (m : list (string * string)) (x : utree) : Prop :=
    if is_tip x then exists k, ren_name m (uname x) = itoa k /\ (Z.of_nat k < two63)%Z
    else ren_name m (uname x) = uname x.

  Lemma itoa_tword : forall k, (Z.of_nat k < two63)%Z -> tword_b (itoa k) = true.
  Proof.
    intros k H. unfold tword_b. rewrite (itoa_word k), (itoa_classify k H). reflexivity.
  Qed.

  Lemma nilb_kids_map : forall m (sl : list slot),
      nilb (kids_of (map (fun s : slot => match s with Some (e, ch) => Some (e, rename_nodes m ch) | None => None end) sl)) =
      nilb (kids_of sl).
  Proof. intros m sl. induction sl as [|[[e ch]|] r IH]; unfold kids_of in *; simpl; auto. Qed.

  Lemma nx_sub_rename : forall m t e, nx_sub fmt e t = true -> Forall (node_ok m) (nodes t) ->
      nx_sub fmt e (rename_nodes m t) = true.
  Proof.
    intros m. induction t as [n c sl IH] using utree_ind'. intros e H HN.
    cbn [nodes] in HN. inversion HN as [|? ? Hn0 Hks]; subst.
    cbn [nx_sub] in H. apply andb5 in H. destruct H as (Hc & He & Hl & Hs & Hp & Hn & Hk).
    rewrite rename_unfold. cbn [nx_sub]. rewrite Hc, He, Hl, Hs, Hp. cbn [andb].
    rewrite nilb_kids_map, map_length.
    unfold node_ok, is_tip, degree in Hn0. cbn [uslots uname] in Hn0.
    apply andb_true_iff. split.
    - destruct (nilb (kids_of sl)).
      + apply andb_true_iff in Hn. destruct Hn as [L _]. rewrite L in *.
        destruct Hn0 as [k [Hk1 Hk2]]. rewrite Hk1. apply itoa_tword. exact Hk2.
      + apply andb_true_iff in Hn. destruct Hn as [L Hw]. rewrite L.
        apply Nat.ltb_lt in L. destruct (Nat.eqb (length sl) 1) eqn:E; [apply Nat.eqb_eq in E; lia|].
        rewrite Hn0. exact Hw.
    - clear - IH Hk Hks. induction sl as [|[[e' ch]|] r IHr]; simpl in *; [reflexivity| |].
      + inversion IH as [|? ? Hc Hr]; subst. apply andb_true_iff in Hk. destruct Hk as [K1 K2].
        apply Forall_app in Hks. destruct Hks as [N1 N2].
        rewrite (Hc e' K1 N1). simpl. apply IHr; assumption.
      + inversion IH as [|? ? Hc Hr]; subst. apply IHr; assumption.
  Qed.

  Lemma nx_root_rename : forall m t, nx_root fmt t = true -> Forall (node_ok m) (nodes t) ->
      nx_root fmt (rename_nodes m t) = true.
  Proof.
    intros m [n c sl] H HN.
    cbn [nodes] in HN. inversion HN as [|? ? Hn0 Hks]; subst.
    cbn [nx_root] in H. repeat (apply andb_true_iff in H; destruct H as [H ?]).
    rename H into Hc, H3 into K, H2 into L, H1 into Hw, H0 into Hk.
    rewrite rename_unfold. cbn [nx_root]. rewrite Hc, nilb_kids_map, K, map_length, L. cbn [andb].
    unfold node_ok, is_tip, degree in Hn0. cbn [uslots uname] in Hn0.
    apply Nat.ltb_lt in L. destruct (Nat.eqb (length sl) 1) eqn:E; [apply Nat.eqb_eq in E; lia|].
    rewrite Hn0, Hw. cbn [andb].
    clear - Hk Hks. induction sl as [|[[e' ch]|] r IHr]; simpl in *; [reflexivity| |].
    - apply andb_true_iff in Hk. destruct Hk as [K1 K2].
      apply Forall_app in Hks. destruct Hks as [N1 N2].
      rewrite (nx_sub_rename m ch e' K1 N1). simpl. apply IHr; assumption.
    - apply IHr; assumption.
  Qed.
End Atn.

(** * the table, with the bound on the indices *)
Lemma table_inverse_bound : forall (l : list (nat * utree)) n, In n (labels_of l) ->
    exists k, assoc_get n (final_map l []) = Some (itoa k) /\ k < length (final_map l []) /\
              assoc_get (itoa k) (tr_table (pairs_of l) []) = Some n.
Proof.
  intros l n Hn. exists (assoc_pos n (final_map l [])).
  destruct (assoc_pos_spec (final_map l []) 0 n (final_map_vals l [] eq_refl) (labels_in_map l n Hn)) as [A B].
  split; [exact A|]. split; [exact B|].
  apply tr_table_get.
  - unfold pairs_of. rewrite map_map. cbn [fst].
    apply nodup_idx; [apply labels_nodup|]. intros x Hx. apply labels_in_map. exact Hx.
  - unfold pairs_of. apply in_map_iff. exists n. split; [reflexivity|exact Hn].
Qed.

Lemma table_no_key : forall (l : list (nat * utree)) n, (forall k, n <> itoa k) ->
    assoc_get n (tr_table (pairs_of l) []) = None.
Proof.
  intros l n H. rewrite tr_table_other; [reflexivity|].
  intros C. apply in_map_iff in C. destruct C as [p [E _]]. exact (H (fst p) (eq_sym E)).
Qed.

Lemma labels_keys : forall (l : list (nat * utree)) n, In n (map fst (final_map l [])) -> In n (labels_of l).
Proof.
  intros l n H. unfold labels_of. eapply Permutation_in; [apply Permutation_sym; apply ssort_perm|exact H].
Qed.

Section Property.
  Variable fmt : Q -> string.
  Variable numeric : string -> bool.
  Variable parse_num : string -> option Q.
  Variable numok : Q -> bool.
  Hypothesis SC : strconv_ok fmt numeric parse_num numok.
  Hypothesis fmt_wchar : forall x, numok x = true -> all_chars wchar (fmt x) = true.

  (** what the translate chain adds to the common domain, for one tree: the names of its
      nodes are distinct, and the names of its inner nodes and root are empty or neither a
      taxon label nor a decimal number (Rename would replace them) *)
  Definition inner_free (labels : list string) (t : utree) : Prop :=
    Forall (fun x => is_tip x = true \/ uname x = "" \/
                     (~ In (uname x) labels /\ forall k, uname x <> itoa k)) (nodes t).

  Definition in_domain_tr (labels : list string) (t : utree) : Prop :=
    in_domain numeric numok labels t /\ NoDup (ne_names t) /\ inner_free labels t.

  Section Tree.
    Variable l : list (nat * utree).
    Let m := final_map l [].
    Let labels := labels_of l.
    Let tbl := tr_table (pairs_of l) [].
    Hypothesis bound : (Z.of_nat (length m) < two63)%Z.

    Variable t : utree.
    Variable mi ext : list (string * string).
    Hypothesis Hm : m = (mi ++ ext)%list.
    Hypothesis Htips : forall n, In n (all_tip_names t) -> In n (map fst mi).
    Hypothesis D : in_domain_tr labels t.

    Lemma W : wfN numeric numok t = true.
    Proof. exact (proj1 (proj1 D)). Qed.
    Lemma NX : nx_root fmt t = true.
    Proof. pose proof D as [[W' [P _]] _]. exact (nx_of_wfN fmt numeric numok fmt_wchar t W' P). Qed.

    Lemma tip_in_labels : forall n, In n (tip_names t) -> In n labels.
    Proof.
      intros n Hn. pose proof D as [[_ [_ [T _]]] _]. rewrite forallb_forall in T.
      apply mem_in. apply T. exact Hn.
    Qed.

    Lemma tip_name_nonempty : forall n, In n (tip_names t) -> n <> "".
    Proof.
      intros n Hn. pose proof (all_tip_names_root fmt t NX) as F. rewrite (atn_root fmt t NX) in F.
      rewrite Forall_forall in F. pose proof (F _ Hn) as Tw.
      unfold tword_b, word in Tw. intros C0. rewrite C0 in Tw. discriminate Tw.
    Qed.

    Lemma node_facts : forall x, In x (nodes t) ->
        inverse_on mi tbl (uname x) /\ node_ok mi x.
    Proof.
      intros x Hx. unfold node_ok. destruct (is_tip x) eqn:Tx.
      - assert (Hn : In (uname x) (tip_names t)).
        { unfold tip_names. rewrite tips_filter. apply in_map. apply filter_In. auto. }
        pose proof (tip_in_labels _ Hn) as HL.
        destruct (table_inverse_bound l (uname x) HL) as [k [A [B C]]]. fold m in A, B. fold tbl in C.
        assert (Hi : In (uname x) (map fst mi)) by (apply Htips; rewrite (atn_root fmt t NX); exact Hn).
        destruct (assoc_get_in mi (uname x) Hi) as [v Hv].
        assert (v = itoa k).
        { rewrite Hm, assoc_get_app, Hv in A. inversion A. reflexivity. }
        subst v.
        assert (NE : uname x <> "") by (apply tip_name_nonempty; exact Hn).
        split.
        + right. rewrite Hv. split; [apply itoa_nonempty|exact C].
        + exists k. split; [|lia]. unfold ren_name. apply String.eqb_neq in NE. rewrite NE, Hv. reflexivity.
      - pose proof D as [_ [_ IF]]. unfold inner_free in IF. rewrite Forall_forall in IF.
        destruct (IF x Hx) as [C|[C|[C1 C2]]]; [congruence| |].
        + rewrite C. split; [left; reflexivity|reflexivity].
        + assert (G : assoc_get (uname x) mi = None).
          { destruct (assoc_get (uname x) mi) as [v|] eqn:G; [|reflexivity].
            exfalso. apply C1. apply labels_keys. fold m. rewrite Hm, map_app. apply in_or_app. left.
            clear - G. induction mi as [|[a b] r IH]; simpl in *; [discriminate|].
            destruct (String.eqb a (uname x)) eqn:E; [left; apply String.eqb_eq; exact E|right; apply IH; exact G]. }
          split.
          * right. rewrite G. apply table_no_key. exact C2.
          * unfold ren_name. rewrite G. destruct (String.eqb (uname x) ""); reflexivity.
    Qed.

    Lemma inv_all : Forall (inverse_on mi tbl) (map uname (nodes t)).
    Proof.
      apply Forall_forall. intros n Hn. apply in_map_iff in Hn. destruct Hn as [x [E Hx]]. subst n.
      exact (proj1 (node_facts x Hx)).
    Qed.

    Lemma ok_all : Forall (node_ok mi) (nodes t).
    Proof. apply Forall_forall. intros x Hx. exact (proj2 (node_facts x Hx)). Qed.

    Lemma tips_nodup : NoDup (tip_names t).
    Proof.
      pose proof D as [_ [N _]]. apply tip_names_nodup; [|exact N].
      intros x Hx Tx. apply tip_name_nonempty.
      unfold tip_names. rewrite tips_filter. apply in_map. apply filter_In. auto.
    Qed.
    (** the printed tree is inside C01's quantifier (tip names are decimal numbers now) *)
    Lemma Wr : wfN numeric numok (rename_nodes mi t) = true.
    Proof.
      apply wfN_rename; [exact W|]. apply Forall_forall. intros x Hx.
      pose proof (proj2 (node_facts x Hx)) as K. unfold node_ok in K. unfold node_keep.
      destruct (is_tip x) eqn:Tx; [|exact K].
      destruct K as [k [E _]]. split; [exists k; exact E|].
      apply tip_name_nonempty. unfold tip_names. rewrite tips_filter. apply in_map. apply filter_In. auto.
    Qed.

    Definition back (x : utree) : utree := rename_nodes tbl (canon_root fmt parse_num x).

    Lemma printed_is_renamed : renamed true mi t = rename_nodes mi t.
    Proof.
      unfold renamed. pose proof D as [_ [N _]].
      rewrite (rename_tree_ok mi tbl t inv_all N tips_nodup). reflexivity.
    Qed.

    Lemma printed_tree_ok :
      tree_ok_tr (Newick.write fmt) (np_newick numeric parse_num) labels tbl (canon_root fmt parse_num) back
                 (rename_nodes mi t) /\
      rose_eqb (rose_of (back (rename_nodes mi t))) (rose_of t) = true.
    Proof.
      pose proof D as [[_ [_ [T1 T2]]] [N _]].
      destruct (rename_back_ok mi tbl t (canon_root fmt parse_num (rename_nodes mi t)) inv_all N tips_nodup
                               (names_canon_root fmt parse_num _)
                               (tips_canon_root fmt numeric parse_num numok _ Wr)) as [R1 R2].
      split.
      - unfold tree_ok_tr. split.
        + apply newick_ok_write. apply nx_root_rename; [exact NX|exact ok_all].
        + split.
          * unfold np_newick. rewrite (parse_write fmt numeric parse_num numok SC _ Wr). reflexivity.
          * split; [exact R1|]. unfold back. rewrite R2. split; [exact T1|].
            unfold tip_names in R2. rewrite <- (map_length uname), R2. unfold tip_names in T2. exact T2.
      - unfold back. apply (translate_rose mi tbl t); [|exact inv_all].
        destruct (round_trip fmt numeric parse_num numok SC _ Wr) as [t' [P [R _]]].
        rewrite (parse_write fmt numeric parse_num numok SC _ Wr) in P. inversion P; subst. exact R.
    Qed.
  End Tree.
End Property.

Section Final.
  Variable fmt : Q -> string.
  Variable numeric : string -> bool.
  Variable parse_num : string -> option Q.
  Variable numok : Q -> bool.
  Hypothesis SC : strconv_ok fmt numeric parse_num numok.
  Hypothesis fmt_wchar : forall x, numok x = true -> all_chars wchar (fmt x) = true.

  Lemma Forall2_impl_in : forall {A B} (P Q : A -> B -> Prop) (l : list A) (r : list B),
      Forall2 P l r -> (forall a b, In a l -> In b r -> P a b -> Q a b) -> Forall2 Q l r.
  Proof.
    intros A B P Q l r H. induction H as [|a b l' r' Hab Hr IH]; intros G; [constructor|].
    constructor; [apply G; [left; reflexivity|left; reflexivity|exact Hab]|].
    apply IH. intros a' b' Ha Hb. apply G; right; assumption.
  Qed.

  Lemma Forall2_weaken : forall {A B} (P Q : A -> B -> Prop) (l : list A) (r : list B),
      (forall a b, P a b -> Q a b) -> Forall2 P l r -> Forall2 Q l r.
  Proof. intros A B P Q l r G H. induction H; constructor; auto. Qed.

  Lemma Forall2_right : forall {A B} (P : A -> B -> Prop) (Q : B -> Prop) (l : list A) (r : list B),
      Forall2 P l r -> (forall a b, P a b -> Q b) -> Forall Q r.
  Proof. intros A B P Q l r H G. induction H; constructor; eauto. Qed.

  Lemma Forall2_map_right : forall {A B C} (f : B -> C) (P : A -> C -> Prop) (l : list A) (r : list B),
      Forall2 (fun a b => P a (f b)) l r -> Forall2 P l (map f r).
  Proof. intros A B C f P l r H. induction H; simpl; constructor; auto. Qed.

  Lemma combine_names : forall (l r : list (nat * utree)) (q : utree -> utree),
      Forall2 (fun it x => fst x = fst it) l r ->
      map (fun it => ("tree" ++ itoa (fst it), q (snd it))) r =
      combine (map (fun it => "tree" ++ itoa (fst it)) l) (map (fun x => q (snd x)) r).
  Proof.
    intros l r q H. induction H as [|it x l' r' E Hr IH]; [reflexivity|].
    cbn [map combine]. f_equal; [rewrite E; reflexivity|exact IH].
  Qed.

  Theorem nexus_round_trip_translate_domain : forall (l : list (nat * utree)),
      (Z.of_nat (length (final_map l [])) < two63)%Z ->
      Forall (fun it => in_domain_tr numeric numok (labels_of l) (snd it)) l ->
      exists ts',
        nexus_parse (np_newick numeric parse_num) (write_nexus (Newick.write fmt) true l) =
        Nexus.POk (mkDoc (combine (map (fun it => "tree" ++ itoa (fst it)) l) ts') false) /\
        Forall2 (fun it t' => rose_eqb (rose_of t') (rose_of (snd it)) = true) l ts'.
  Proof.
    intros l Hn HD.
    set (q := back fmt parse_num l).
    exists (map (fun x => q (snd x)) (rendered [] l)).
    pose proof (rendered_spec l []) as RS.
    (* per tree facts *)
    assert (F : Forall2 (fun it r => fst r = fst it /\
                                     tree_ok_tr (Newick.write fmt) (np_newick numeric parse_num) (labels_of l)
                                                (tr_table (pairs_of l) []) (canon_root fmt parse_num) q (snd r) /\
                                     rose_eqb (rose_of (q (snd r))) (rose_of (snd it)) = true)
                        l (rendered [] l)).
    { rewrite Forall_forall in HD.
      assert (G : forall it r, In it l -> In r (rendered [] l) ->
                  (fst r = fst it /\ exists mi ext, final_map l [] = (mi ++ ext)%list /\
                     (forall n, In n (all_tip_names (snd it)) -> In n (map fst mi)) /\
                     snd r = renamed true mi (snd it)) ->
                  fst r = fst it /\
                  tree_ok_tr (Newick.write fmt) (np_newick numeric parse_num) (labels_of l)
                             (tr_table (pairs_of l) []) (canon_root fmt parse_num) q (snd r) /\
                  rose_eqb (rose_of (q (snd r))) (rose_of (snd it)) = true).
      { intros it r Hi Hr [E [mi [ext [Hm [Ht Hs]]]]]. split; [exact E|].
        pose proof (HD it Hi) as Di.
        assert (PR : renamed true mi (snd it) = rename_nodes mi (snd it))
          by (eapply printed_is_renamed; eassumption).
        rewrite Hs, PR.
        eapply printed_tree_ok; eassumption. }
      exact (Forall2_impl_in _ _ _ _ RS G). }
    split.
    - rewrite (nexus_round_trip_translate (Newick.write fmt) (np_newick numeric parse_num) l (canon_root fmt parse_num) q Hn).
      + f_equal. f_equal. apply combine_names.
        eapply Forall2_weaken; [|exact F]. intros a b [E _]. exact E.
      + apply (labels_ok_of_trees fmt). eapply Forall_impl; [|exact HD].
        intros it [[W [P _]] _]. exact (nx_of_wfN fmt numeric numok fmt_wchar _ W P).
      + eapply Forall2_right; [exact F|]. intros a b [_ [T _]]. exact T.
    - apply Forall2_map_right. eapply Forall2_weaken; [|exact F]. intros a b [_ [_ R]]. exact R.
  Qed.
End Final.
