(** C14 (cut), part 4: the groups are the classes of "joined by a path of branches all shorter
    than the threshold".  With the weight [w_long] (1 for a branch that is not short, 0
    otherwise) the specification's path sum between two tips is the number of long branches
    between them; it is 0 exactly when both tips are reached from a common node through short
    branches ([comp_down]), and that happens exactly when they are in the same group. *)
From Coq Require Import String ZArith QArith Bool Arith Lia Lqa List Permutation.
From GT Require Import Base.UTree Spec.Obs Spec.Unrooted Spec.Cut Model.Reroot
     Proofs.RerootBase Proofs.PruneBase Model.Matrix Proofs.MatrixWalk Proofs.MatrixCells
     Proofs.CutBase Proofs.CutSem Proofs.CutSpec.
Import ListNotations.
Local Close Scope Q_scope.
Local Arguments n_up : simpl never.

Section Paths.
  Variable maxlen : Q.
  Notation sh := (short maxlen).
  Notation w := (w_long maxlen).
  Notation comp_down := (comp_down maxlen).
  Notation side_tips := (side_tips maxlen).

  Lemma w_cases e : (sh e = true /\ w e = 0%Q) \/ (sh e = false /\ w e = 1%Q).
  Proof. unfold w_long, is_short, short. destruct (Qle_bool maxlen (elen e)); simpl; auto. Qed.

  Lemma w_nonneg e : (0 <= w e)%Q.
  Proof. destruct (w_cases e) as [[_ ->]|[_ ->]]; lra. Qed.

  Lemma w_zero e : (w e == 0)%Q -> sh e = true.
  Proof. destruct (w_cases e) as [[H _]|[_ E]]; auto. rewrite E. intros X. lra. Qed.

  Lemma depths_nonneg t : forall a d, In (a, d) (depths w t) -> (0 <= d)%Q.
  Proof.
    induction t as [n c sl IH] using utree_ind'. intros a d. rewrite depths_unfold.
    apply Forall_slots_kids in IH.
    destruct (kids_of sl) as [|k0 K] eqn:E.
    - intros [X|[]]. inversion X. lra.
    - rewrite <- E in *. clear E. unfold kD. intros H. apply in_concat in H. destruct H as [l [Hl H]].
      apply in_map_iff in Hl. destruct Hl as [[e ch] [<- Hp]].
      unfold shift in H. apply in_map_iff in H. destruct H as [[a' d'] [X H]]. inversion X; subst.
      rewrite Forall_forall in IH. specialize (IH _ Hp _ _ H). simpl in *.
      assert (N := w_nonneg e). lra.
  Qed.

  (** ** membership *)
  Lemma depths_inner_In n c sl a d :
    kids_of sl <> [] ->
    (In (a, d) (depths w (UNode n c sl)) <->
     exists e ch d', In (e, ch) (kids_of sl) /\ In (a, d') (depths w ch) /\ d = (w e + d')%Q).
  Proof.
    intros Hne. rewrite depths_unfold. destruct (kids_of sl) as [|k0 K] eqn:E; [congruence|].
    rewrite <- E. clear E Hne. unfold kD. rewrite in_concat. split.
    - intros [l [Hl H]]. apply in_map_iff in Hl. destruct Hl as [[e ch] [<- Hp]].
      unfold shift in H. apply in_map_iff in H. destruct H as [[a' d'] [X H]]. inversion X; subst.
      exists e, ch, d'. auto.
    - intros [e [ch [d' [Hp [H ->]]]]]. exists (shift (w e) (depths w ch)). split.
      + apply in_map_iff. exists (e, ch). auto.
      + unfold shift. apply in_map_iff. exists (a, d'). auto.
  Qed.

  Lemma side_tips_In sl a :
    In a (side_tips sl) <->
    exists e ch, In (e, ch) (kids_of sl) /\ sh e = true /\ In a (comp_down ch).
  Proof.
    unfold CutBase.side_tips. rewrite in_flat_map. split.
    - intros [[[e ch]|] [Hs H]]; [|destruct H]. destruct (sh e) eqn:S; [|destruct H].
      exists e, ch. split; auto. now apply kids_of_In.
    - intros [e [ch [Hp [S H]]]]. exists (Some (e, ch)). split; [now apply kids_of_In|]. now rewrite S.
  Qed.

  Lemma wf_sub_shape n c sl :
    wf_sub (UNode n c sl) = true ->
    (sl = [None]) \/ (kids_of sl <> [] /\ Nat.eqb (length sl) 1 = false).
  Proof.
    rewrite wf_sub_unfold. intros H. apply andb_true_iff in H as [U _]. apply Nat.eqb_eq in U.
    assert (Hl := length_slots sl). rewrite U in Hl.
    destruct (kids_of sl) as [|k0 K] eqn:E.
    - left. destruct sl as [|[p|] [|s2 r2]]; simpl in *; try discriminate; try lia. reflexivity.
    - right. split; [discriminate|]. apply Nat.eqb_neq. simpl in Hl. lia.
  Qed.

  Lemma wf_sub_kids_all n c sl :
    wf_sub (UNode n c sl) = true -> forall e ch, In (e, ch) (kids_of sl) -> wf_sub ch = true.
  Proof.
    rewrite wf_sub_unfold. intros H e ch Hp. apply andb_true_iff in H as [_ F].
    rewrite forallb_forall in F. apply (F (e, ch) Hp).
  Qed.

  (** ** the tips reached through short branches are the leaves at depth 0 *)
  Lemma zero_depth_comp t : forall a d,
      wf_sub t = true -> In (a, d) (depths w t) -> (d == 0)%Q -> In a (comp_down t).
  Proof.
    induction t as [n c sl IH] using utree_ind'. intros a d W H Z.
    apply Forall_slots_kids in IH. rewrite Forall_forall in IH.
    destruct (wf_sub_shape n c sl W) as [->|[Hne T]].
    - simpl in H. destruct H as [X|[]]. inversion X; subst. simpl. now left.
    - apply (depths_inner_In n c sl a d Hne) in H. destruct H as [e [ch [d' [Hp [H ->]]]]].
      assert (N1 := w_nonneg e). assert (N2 := depths_nonneg ch a d' H).
      assert (Z1 : (w e == 0)%Q) by lra. assert (Z2 : (d' == 0)%Q) by lra.
      rewrite comp_down_unfold, T. simpl app. apply side_tips_In.
      exists e, ch. split; auto. split; [now apply w_zero|].
      apply (IH (e, ch) Hp a d'); auto. eapply wf_sub_kids_all; eauto.
  Qed.

  Lemma comp_zero_depth t : forall a,
      wf_sub t = true -> In a (comp_down t) -> exists d, In (a, d) (depths w t) /\ (d == 0)%Q.
  Proof.
    induction t as [n c sl IH] using utree_ind'. intros a W H.
    apply Forall_slots_kids in IH. rewrite Forall_forall in IH.
    destruct (wf_sub_shape n c sl W) as [->|[Hne T]].
    - simpl in H. destruct H as [<-|[]]. exists 0%Q. split; [now left|reflexivity].
    - rewrite comp_down_unfold, T in H. simpl app in H. apply side_tips_In in H.
      destruct H as [e [ch [Hp [S H]]]].
      destruct (IH (e, ch) Hp a) as [d' [Hd Z]]; auto. { eapply wf_sub_kids_all; eauto. }
      exists (w e + d')%Q. split.
      + apply depths_inner_In; auto. exists e, ch, d'. auto.
      + destruct (w_cases e) as [[_ ->]|[X _]]; [lra|congruence].
  Qed.

  (** ** entries of [cross] and [cross_all] *)
  Lemma cross_In (l1 l2 : list (string * Q)) x y d :
    In (x, y, d) (cross l1 l2) <->
    exists dx dy, In (x, dx) l1 /\ In (y, dy) l2 /\ d = (dx + dy)%Q.
  Proof.
    unfold cross. rewrite in_flat_map. split.
    - intros [[x' dx] [H1 H]]. apply in_map_iff in H. destruct H as [[y' dy] [X H2]].
      simpl in X. inversion X; subst. eauto.
    - intros [dx [dy [H1 [H2 ->]]]]. exists (x, dx). split; auto.
      apply in_map_iff. exists (y, dy). auto.
  Qed.

  Lemma cross_all_In ds x y d :
    In (x, y, d) (cross_all ds) ->
    exists d1 d2 dx dy, In d1 ds /\ In d2 ds /\ In (x, dx) d1 /\ In (y, dy) d2 /\ d = (dx + dy)%Q.
  Proof.
    induction ds as [|d0 r IH]; simpl; [tauto|].
    rewrite in_app_iff, in_flat_map. intros [[d' [Hd' H]]|H].
    - rewrite in_app_iff in H. destruct H as [H|H]; apply cross_In in H;
        destruct H as [dx [dy [H1 [H2 E]]]].
      + exists d0, d', dx, dy. auto 10.
      + exists d', d0, dx, dy. auto 10.
    - destruct (IH H) as [d1 [d2 [dx [dy [A [B C]]]]]]. exists d1, d2, dx, dy. auto 10.
  Qed.

  Lemma cross_all_mem (x : string * string * Q) d1 d2 post : forall pre,
      In d2 post -> In x (cross d1 d2) \/ In x (cross d2 d1) -> In x (cross_all (pre ++ d1 :: post)).
  Proof.
    induction pre as [|p pre IH]; intros H2 Hx; simpl.
    - apply in_app_iff. left. apply in_flat_map. exists d2. split; auto. apply in_app_iff. tauto.
    - apply in_app_iff. right. now apply IH.
  Qed.

  (** ** nodes the statements are about *)
  Definition okn (t : utree) : Prop := wf_sub t = true \/ (wf t = true /\ 2 <= degree t).

  Lemma okn_cases n c sl :
    okn (UNode n c sl) ->
    sl = [None] \/
    (kids_of sl <> [] /\ Nat.eqb (length sl) 1 = false /\
     forall e ch, In (e, ch) (kids_of sl) -> wf_sub ch = true).
  Proof.
    intros [W|[W D]].
    - destruct (wf_sub_shape n c sl W) as [->|[A B]]; auto. right. split; auto. split; auto.
      apply (wf_sub_kids_all n c sl W).
    - right. rewrite wf_unfold in W. apply andb_true_iff in W as [U F]. apply Nat.eqb_eq in U.
      unfold degree in D. simpl in D. assert (Hl := length_slots sl). rewrite U in Hl.
      split; [destruct (kids_of sl); simpl in *; [lia|discriminate]|].
      split; [apply Nat.eqb_neq; lia|]. intros e ch Hp. rewrite forallb_forall in F. apply (F (e, ch) Hp).
  Qed.

  Lemma okn_kid n c sl e ch : okn (UNode n c sl) -> In (e, ch) (kids_of sl) -> okn ch.
  Proof.
    intros O Hp. destruct (okn_cases n c sl O) as [->|[_ [_ F]]]; [destruct Hp|]. left. eauto.
  Qed.

  (** ** a path sum of 0: both tips are reached from a common node through short branches *)
  Lemma zero_entry_common t : forall a b d,
      okn t -> In (a, b, d) (pairdists w t) -> (d == 0)%Q ->
      exists u, In u (nodes t) /\ In a (comp_down u) /\ In b (comp_down u).
  Proof.
    induction t as [n c sl IH] using utree_ind'. intros a b d O H Z.
    apply Forall_slots_kids in IH. rewrite Forall_forall in IH.
    destruct (okn_cases n c sl O) as [->|[Hne [T F]]]; [destruct H|].
    rewrite pairdists_unfold, in_app_iff in H. destruct H as [H|H].
    - exists (UNode n c sl). split; [now left|].
      apply cross_all_In in H. destruct H as [d1 [d2 [dx [dy [H1 [H2 [X [Y E]]]]]]]].
      unfold kD in H1, H2. apply in_map_iff in H1, H2.
      destruct H1 as [[e1 c1] [<- P1]]. destruct H2 as [[e2 c2] [<- P2]]. simpl in X, Y.
      unfold shift in X, Y. apply in_map_iff in X, Y.
      destruct X as [[a' da] [Xa X]]. destruct Y as [[b' db] [Yb Y]].
      inversion Xa; subst. inversion Yb; subst. cbn [fst snd] in *.
      assert (N1 := w_nonneg e1). assert (N2 := w_nonneg e2).
      assert (N3 := depths_nonneg c1 a da X). assert (N4 := depths_nonneg c2 b db Y).
      rewrite !comp_down_unfold, T. simpl app. split; apply side_tips_In.
      + exists e1, c1. split; auto. split; [apply w_zero; lra|].
        apply (zero_depth_comp c1 a da); eauto. lra.
      + exists e2, c2. split; auto. split; [apply w_zero; lra|].
        apply (zero_depth_comp c2 b db); eauto. lra.
    - unfold kpd in H. apply in_flat_map in H. destruct H as [[e ch] [Hp H]]. simpl in H.
      destruct (IH (e, ch) Hp a b d) as [u [Hu [A B]]]; auto. { left. eauto. }
      exists u. split; auto. simpl. right. apply in_flat_map. exists (Some (e, ch)).
      split; auto. now apply kids_of_In.
  Qed.

  (** the path sums inside a node are path sums of the tree *)
  Lemma pairdists_sub t : forall u, In u (nodes t) -> incl (pairdists w u) (pairdists w t).
  Proof.
    induction t as [n c sl IH] using utree_ind'. intros u H. simpl in H. destruct H as [<-|H].
    - apply incl_refl.
    - apply in_flat_map in H. destruct H as [[[e ch]|] [Hs H]]; [|destruct H].
      rewrite Forall_forall in IH. specialize (IH _ Hs u H). simpl in IH.
      intros x Hx. rewrite pairdists_unfold, in_app_iff. right. unfold kpd. apply in_flat_map.
      exists (e, ch). split; [now apply kids_of_In|]. now apply IH.
  Qed.

  Lemma nodes_okn t : okn t -> forall u, In u (nodes t) -> okn u.
  Proof.
    induction t as [n c sl IH] using utree_ind'. intros O u H. simpl in H. destruct H as [<-|H]; auto.
    apply in_flat_map in H. destruct H as [[[e ch]|] [Hs H]]; [|destruct H].
    rewrite Forall_forall in IH. apply (IH _ Hs); auto.
    apply (okn_kid n c sl e ch O). now apply kids_of_In.
  Qed.

  (** conversely: two different tips reached from a common node through short branches have
      an entry whose path sum is 0 *)
  Lemma common_zero_entry u : forall a b,
      okn u -> a <> b -> In a (comp_down u) -> In b (comp_down u) ->
      exists d, In (a, b, d) (pairdists w u) /\ (d == 0)%Q.
  Proof.
    induction u as [n c sl IH] using utree_ind'. intros a b O Nab Ha Hb.
    destruct (okn_cases n c sl O) as [->|[Hne [T F]]].
    { simpl in Ha, Hb. destruct Ha as [<-|[]]. destruct Hb as [<-|[]]. congruence. }
    rewrite comp_down_unfold, T in Ha, Hb. simpl app in Ha, Hb.
    (* the slot through which [a] is reached *)
    unfold CutBase.side_tips in Ha. apply in_flat_map in Ha. destruct Ha as [[[ea ca]|] [Hsa Ha]]; [|destruct Ha].
    destruct (sh ea) eqn:Sa; [|destruct Ha].
    destruct (in_split _ _ Hsa) as [l1 [l2 E]]. subst sl.
    assert (Wa : wf_sub ca = true) by (apply (F ea ca); apply kids_of_In; auto).
    unfold CutBase.side_tips in Hb. rewrite flat_map_app in Hb. simpl flat_map in Hb. rewrite Sa in Hb.
    fold (side_tips l1) in Hb. fold (side_tips l2) in Hb.
    destruct (comp_zero_depth ca a Wa Ha) as [da [Da Za]].
    assert (Wea : (w ea == 0)%Q) by (destruct (w_cases ea) as [[_ ->]|[X _]]; [reflexivity|congruence]).
    rewrite pairdists_unfold, kids_of_app. simpl kids_of. unfold kD. rewrite map_app. simpl map.
    rewrite !in_app_iff in Hb. destruct Hb as [Hb|[Hb|Hb]].
    - (* [b] is reached through an earlier slot *)
      apply side_tips_In in Hb. destruct Hb as [eb [cb [Pb [Sb Hb]]]].
      assert (Wb : wf_sub cb = true) by (apply (F eb cb); rewrite kids_of_app, in_app_iff; auto).
      destruct (comp_zero_depth cb b Wb Hb) as [db [Db Zb]].
      assert (Web : (w eb == 0)%Q) by (destruct (w_cases eb) as [[_ ->]|[X _]]; [reflexivity|congruence]).
      destruct (in_split _ _ Pb) as [k1 [k2 Ek]]. rewrite Ek, map_app. simpl map.
      exists ((w ea + da) + (w eb + db))%Q. split; [|lra].
      apply in_app_iff. left. rewrite <- app_assoc. simpl app.
      apply cross_all_mem with (d2 := shift (w ea) (depths w ca)).
      + rewrite in_app_iff. right. now left.
      + right. apply cross_In. exists (w ea + da)%Q, (w eb + db)%Q. split; [|split; auto].
        * unfold shift. apply in_map_iff. exists (a, da). auto.
        * unfold shift. apply in_map_iff. exists (b, db). auto.
    - (* through the same slot *)
      rewrite Forall_forall in IH. specialize (IH _ Hsa). simpl in IH.
      destruct (IH a b) as [d [H Z]]; auto. { now left. }
      exists d. split; auto. apply in_app_iff. right. unfold kpd. apply in_flat_map.
      exists (ea, ca). split; auto. rewrite in_app_iff. right. now left.
    - (* through a later slot *)
      apply side_tips_In in Hb. destruct Hb as [eb [cb [Pb [Sb Hb]]]].
      assert (Wb : wf_sub cb = true) by (apply (F eb cb); rewrite kids_of_app, in_app_iff; right; now right).
      destruct (comp_zero_depth cb b Wb Hb) as [db [Db Zb]].
      assert (Web : (w eb == 0)%Q) by (destruct (w_cases eb) as [[_ ->]|[X _]]; [reflexivity|congruence]).
      exists ((w ea + da) + (w eb + db))%Q. split; [|lra].
      apply in_app_iff. left.
      apply cross_all_mem with (d2 := shift (w eb) (depths w cb)).
      + apply in_map_iff. exists (eb, cb). auto.
      + left. apply cross_In. exists (w ea + da)%Q, (w eb + db)%Q. split; [|split; auto].
        * unfold shift. apply in_map_iff. exists (a, da). auto.
        * unfold shift. apply in_map_iff. exists (b, db). auto.
  Qed.

  (** ** every node belongs to the piece of one top node *)
  Notation tops_below := (tops_below maxlen).
  Notation tops_slots := (tops_slots maxlen).
  Notation sgroups := (sgroups maxlen).
  Notation sg_go := (sg_go maxlen).

  Lemma tops_nodes t : forall v, In v (tops_below t) -> In v (nodes t).
  Proof.
    induction t as [n c sl IH] using utree_ind'. intros v H. simpl in H. simpl. right.
    apply in_flat_map in H. destruct H as [[[e ch]|] [Hs H]]; [|destruct H].
    apply in_flat_map. exists (Some (e, ch)). split; auto.
    rewrite Forall_forall in IH. specialize (IH _ Hs). simpl in IH.
    rewrite in_app_iff in H. destruct H as [H|H]; auto.
    destruct (sh e); [destruct H|]. destruct H as [<-|[]]. destruct ch. now left.
  Qed.

  Lemma node_top t : forall u, In u (nodes t) ->
    exists v, In v (t :: tops_below t) /\ incl (comp_down u) (comp_down v).
  Proof.
    induction t as [n c sl IH] using utree_ind'. intros u H. simpl in H. destruct H as [<-|H].
    - exists (UNode n c sl). split; [now left|apply incl_refl].
    - apply in_flat_map in H. destruct H as [[[e ch]|] [Hs H]]; [|destruct H].
      rewrite Forall_forall in IH. destruct (IH _ Hs u H) as [v [Hv I]].
      assert (X : forall x, In x ((if sh e then [] else [ch]) ++ tops_below ch) -> In x (tops_below (UNode n c sl))).
      { intros x Hx. simpl. apply in_flat_map. exists (Some (e, ch)). auto. }
      destruct Hv as [<-|Hv].
      + destruct (sh e) eqn:S.
        * exists (UNode n c sl). split; [now left|]. intros x Hx. apply I in Hx.
          rewrite comp_down_unfold, in_app_iff. right. unfold CutBase.side_tips. apply in_flat_map.
          exists (Some (e, ch)). split; auto. now rewrite S.
        * exists ch. split; auto. right. apply X. now left.
      + exists v. split; auto. right. apply X. rewrite in_app_iff. now right.
  Qed.

  (** ** every top node whose piece holds a tip has its group *)
  Definition conv_cond (t : utree) (fl : bool) : Prop :=
    if fl then wf_sub t = true else (wf_sub t = true /\ 1 < degree t) \/ wf t = true.

  Definition grp_conv (t : utree) : Prop :=
    forall (fl : bool) v, conv_cond t fl ->
      In v ((if fl then [] else [t]) ++ tops_below t) -> comp_down v <> [] ->
      exists g, In g (sgroups t fl) /\ Permutation g (comp_down v).

  Lemma side_tips_short l : side_tips l <> [] -> has_short maxlen l = true.
  Proof.
    unfold CutBase.side_tips. induction l as [|[[e c]|] r IH]; simpl; auto.
    destruct (sh e); simpl; auto.
  Qed.

  Lemma wf_sub_not_tip c : wf_sub c = true -> is_tip c = false -> 1 < degree c.
  Proof.
    destruct c as [n cm sl]. intros W T. rewrite wf_sub_unfold in W. apply andb_true_iff in W as [U _].
    apply Nat.eqb_eq in U. unfold is_tip, degree in *. simpl uslots in *.
    apply Nat.eqb_neq in T. assert (Hl := length_slots sl). lia.
  Qed.

  Lemma leaf_no_tops c : wf_sub c = true -> Nat.ltb 1 (degree c) = false -> tops_below c = [].
  Proof.
    destruct c as [n cm sl]. intros W D. apply Nat.ltb_ge in D. unfold degree in D. simpl in D.
    destruct (wf_sub_shape n cm sl W) as [->|[Hne T]]; [reflexivity|].
    apply Nat.eqb_neq in T. exfalso. assert (Hl := length_slots sl).
    rewrite wf_sub_unfold in W. apply andb_true_iff in W as [U _]. apply Nat.eqb_eq in U.
    destruct (kids_of sl); [congruence|]. simpl in Hl. lia.
  Qed.

  Lemma sg_go_conv n cm sl : forall l pre fl,
      sl = pre ++ l ->
      Forall (fun p : einfo * utree => grp_conv (snd p)) (kids_of l) ->
      forallb (fun p => wf_sub (snd p)) (kids_of l) = true ->
      (forall v, In v (tops_slots l) -> comp_down v <> [] ->
                 exists g, In g (sg_go sgroups n (Nat.eqb (length sl) 1) pre l fl) /\ Permutation g (comp_down v)) /\
      (fl = false -> has_short maxlen l = true -> comp_down (UNode n cm sl) <> [] ->
       exists g, In g (sg_go sgroups n (Nat.eqb (length sl) 1) pre l fl) /\
                 Permutation g (comp_down (UNode n cm sl))).
  Proof.
    induction l as [|[[e c]|] r IH]; intros pre fl E HK W.
    - split; [intros v []|]. simpl. discriminate.
    - simpl kids_of in HK, W. inversion HK as [|? ? Hc HKr]; subst. simpl in Hc.
      simpl in W. apply andb_true_iff in W as [Wc Wr].
      assert (E' : pre ++ Some (e, c) :: r = (pre ++ [Some (e, c)]) ++ r) by (now rewrite <- app_assoc).
      destruct (IH (pre ++ [Some (e, c)]) (fl || sh e) E' HKr Wr) as [IHa IHb].
      simpl sg_go. split.
      + intros v Hv Nv. unfold CutSpec.tops_slots in Hv. simpl flat_map in Hv. fold (tops_slots r) in Hv.
        rewrite !in_app_iff in Hv. destruct Hv as [[Hv|Hv]|Hv].
        * (* the child itself, behind a long branch *)
          destruct (sh e) eqn:S; [destruct Hv|]. destruct Hv as [<-|[]].
          destruct (is_tip c) eqn:Tc.
          -- exists [uname c]. split; [|now rewrite (leaf_shape maxlen c Wc Tc)].
             rewrite !in_app_iff. left. right. now left.
          -- assert (D := wf_sub_not_tip c Wc Tc). assert (D' : Nat.ltb 1 (degree c) = true) by (apply Nat.ltb_lt; auto).
             destruct (Hc false c) as [g [Hg Pg]]; auto.
             { left. auto. } { now left. }
             exists g. split; auto. rewrite D', !in_app_iff. right. left. exact Hg.
        * (* a top node below the child *)
          destruct (Nat.ltb 1 (degree c)) eqn:D.
          2:{ rewrite (leaf_no_tops c Wc D) in Hv. destruct Hv. }
          destruct (Hc (sh e) v) as [g [Hg Pg]]; auto.
          { unfold conv_cond. destruct (sh e); auto. left. split; auto. now apply Nat.ltb_lt. }
          { rewrite in_app_iff. now right. }
          exists g. split; auto. rewrite !in_app_iff. right. left. exact Hg.
        * destruct (IHa v Hv Nv) as [g [Hg Pg]]. exists g. split; auto.
          rewrite !in_app_iff. right. right. exact Hg.
      + intros F Hs Nt. subst fl. simpl orb in *. simpl has_short in Hs.
        destruct (sh e) eqn:S.
        * (* the group is made here *)
          set (around := (if Nat.eqb (length (pre ++ Some (e, c) :: r)) 1 then [n] else []) ++
                         side_tips pre ++ side_tips r ++ comp_down c).
          assert (P : Permutation around (comp_down (UNode n cm (pre ++ Some (e, c) :: r)))).
          { unfold around. rewrite comp_down_unfold, side_tips_app.
            unfold CutBase.side_tips at 4. simpl flat_map. rewrite S. fold (side_tips r). perm. }
          exists around. split; auto. rewrite !in_app_iff. left.
          fold around. destruct around as [|x0 xs] eqn:Ea; [|now left].
          exfalso. apply Nt. now apply Permutation_nil in P.
        * simpl in Hs. destruct (IHb eq_refl Hs Nt) as [g [Hg Pg]]. exists g. split; auto.
          rewrite !in_app_iff. right. right. exact Hg.
    - simpl kids_of in HK, W.
      assert (E' : pre ++ None :: r = (pre ++ [None]) ++ r) by (now rewrite <- app_assoc).
      subst sl. simpl sg_go. simpl has_short.
      unfold CutSpec.tops_slots. simpl flat_map. fold (tops_slots r).
      exact (IH (pre ++ [None]) fl E' HK W).
  Qed.

  Theorem sgroups_conv t : grp_conv t.
  Proof.
    induction t as [n c sl IH] using utree_ind'. intros fl v C Hv Nv.
    assert (HK : Forall (fun p : einfo * utree => grp_conv (snd p)) (kids_of sl)).
    { clear -IH. induction IH as [|[[e ch]|] r Hs _ IHr]; simpl; auto. }
    assert (F : forallb (fun p => wf_sub (snd p)) (kids_of sl) = true).
    { unfold conv_cond in C. destruct fl; [|destruct C as [[C _]|C]];
        try rewrite wf_sub_unfold in C; try rewrite wf_unfold in C; apply andb_true_iff in C; tauto. }
    rewrite sgroups_unfold.
    destruct (sg_go_conv n c sl sl [] fl eq_refl HK F) as [A B].
    rewrite in_app_iff in Hv. destruct Hv as [Hv|Hv]; [|now apply A].
    destruct fl; [destruct Hv|]. destruct Hv as [<-|[]].
    destruct (Nat.eqb (length sl) 1) eqn:T.
    - (* a root with a single neighbour *)
      unfold conv_cond in C. destruct C as [[_ D]|C].
      { apply Nat.eqb_eq in T. unfold degree in D. simpl in D. lia. }
      rewrite wf_unfold in C. apply andb_true_iff in C as [U _]. apply Nat.eqb_eq in U, T.
      assert (Hl := length_slots sl). rewrite U in Hl.
      destruct sl as [|[[e ch]|] [|s2 r2]]; simpl in *; try discriminate; try lia.
      destruct (sh e) eqn:S.
      + apply B; auto; try discriminate.
      + exists [n]. split; [now left|]. reflexivity.
    - apply B; auto. apply side_tips_short. rewrite comp_down_unfold, T in Nv. exact Nv.
  Qed.

  (** ** the theorem: same group iff joined by a path of short branches *)
  Lemma key_unique (l : list (string * string * Q)) k v v' :
    NoDup (keys l) -> In (k, v) l -> In (k, v') l -> v = v'.
  Proof.
    unfold keys. induction l as [|[k0 v0] l IH]; simpl; intros N H H'; [destruct H|].
    inversion N as [|? ? Nk Nl]; subst. destruct H as [E|H], H' as [E'|H'].
    - congruence.
    - inversion E; subst. exfalso. apply Nk. apply (in_map fst) in H'. exact H'.
    - inversion E'; subst. exfalso. apply Nk. apply (in_map fst) in H. exact H.
    - auto.
  Qed.

  Theorem groups_are_classes t :
    wf t = true -> 2 <= degree t -> NoDup (leaves t) ->
    forall a b d, In (a, b, d) (pairdists w t) ->
      ((d == 0)%Q <-> exists g, In g (sgroups t false) /\ In a g /\ In b g).
  Proof.
    intros W D N a b d H. assert (O : okn t) by (right; auto).
    destruct (pairdists_keys w t N) as [K Kne]. split.
    - intros Z. destruct (zero_entry_common t a b d O H Z) as [u [Hu [Ha Hb]]].
      destruct (node_top t u Hu) as [v [Hv I]].
      assert (Nv : comp_down v <> []) by (intros X; apply I in Ha; rewrite X in Ha; destruct Ha).
      destruct (sgroups_conv t false v) as [g [Hg Pg]]; auto.
      { right. exact W. }
      exists g. split; auto. split; apply (Permutation_in _ (Permutation_sym Pg)); auto.
    - intros [g [Hg [Ha Hb]]].
      destruct (sgroups_grp maxlen t false g) as [v [Hv Pv]]; auto.
      assert (Hn : In v (nodes t)).
      { destruct Hv as [<-|Hv]; [destruct t; now left|now apply tops_nodes]. }
      assert (Ov := nodes_okn t O v Hn).
      destruct (common_zero_entry v a b Ov) as [d0 [H0 Z0]].
      + eapply Kne; eauto.
      + apply (Permutation_in _ Pv); auto.
      + apply (Permutation_in _ Pv); auto.
      + apply (pairdists_sub t v Hn) in H0.
        rewrite (key_unique _ (a, b) d d0 K H H0). exact Z0.
  Qed.
End Paths.

(** * CutEdgesMaxLength: two tips are in the same bag exactly when the path between them has
    no branch that is not shorter than the threshold *)
Theorem cut_classes maxlen t :
  wf t = true -> 2 <= degree t -> NoDup (leaves t) ->
  forall a b d, In (a, b, d) (pairdists (w_long maxlen) t) ->
    ((d == 0)%Q <-> exists bag, In bag (cut maxlen t) /\ In a bag /\ In b bag).
Proof.
  intros W D N a b d H. rewrite (groups_are_classes maxlen t W D N a b d H).
  rewrite (cut_sgroups maxlen t W). split.
  - intros [g [Hg [Ha Hb]]]. exists (bag_of g). split; [now apply in_map|].
    split; now apply bag_of_In.
  - intros [bag [Hb [Ha Hb']]]. apply in_map_iff in Hb. destruct Hb as [g [<- Hg]].
    exists g. split; auto. split; now apply bag_of_In.
Qed.
