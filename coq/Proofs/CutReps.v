(** C14 (cut), part 5b: connectivity in the numbered graph of Spec/Cut.v, structurally.
    [nreps t id top] lists the nodes of [t] in pre-order with their number (from [id]) and the
    number of the top node of their piece ([top] for the nodes reached from the root of [t]
    through short branches).  Two nodes are connected by short branches ([conn] over the
    short pairs of [gedges]) exactly when they have the same top node. *)
From Coq Require Import String ZArith QArith Bool Arith Lia List Permutation.
From GT Require Import Base.UTree Spec.Obs Spec.Cut Model.Reroot Proofs.RerootBase
     Model.Matrix Proofs.CutBase Proofs.CutSem Proofs.CutSpec Proofs.CutUF.
Import ListNotations.
Local Close Scope Q_scope.

Section Reps.
  Variable maxlen : Q.
  Notation sh := (is_short maxlen).

  Fixpoint nreps_go (nreps : utree -> nat -> nat -> list (nat * utree * nat))
           (top : nat) (l : list slot) (next : nat) : list (nat * utree * nat) :=
    match l with
    | [] => []
    | None :: r => nreps_go nreps top r next
    | Some (e, c) :: r =>
      nreps c next (if sh e then top else next) ++ nreps_go nreps top r (next + usize c)
    end.

  Fixpoint nreps (t : utree) (id top : nat) : list (nat * utree * nat) :=
    match t with
    | UNode _ _ sl =>
      (id, t, top) ::
      (fix go (l : list slot) (next : nat) : list (nat * utree * nat) :=
         match l with
         | [] => []
         | None :: r => go r next
         | Some (e, c) :: r => nreps c next (if sh e then top else next) ++ go r (next + usize c)
         end) sl (S id)
    end.

  Lemma nreps_unfold n c sl id top :
    nreps (UNode n c sl) id top = (id, UNode n c sl, top) :: nreps_go nreps top sl (S id).
  Proof.
    simpl. f_equal. generalize (S id). induction sl as [|[[e ch]|] r IH]; intros k; simpl; auto.
    now rewrite IH.
  Qed.

  Fixpoint gedges_go (l : list slot) (id next : nat) : list (nat * nat * einfo) :=
    match l with
    | [] => []
    | None :: r => gedges_go r id next
    | Some (e, c) :: r => (id, next, e) :: gedges c next ++ gedges_go r id (next + usize c)
    end.

  Lemma gedges_unfold n c sl id : gedges (UNode n c sl) id = gedges_go sl id (S id).
  Proof.
    simpl. generalize (S id). induction sl as [|[[e ch]|] r IH]; intros k; simpl; auto.
    now rewrite IH.
  Qed.

  Fixpoint kids_size (l : list slot) : nat :=
    match l with
    | [] => 0
    | None :: r => kids_size r
    | Some (_, c) :: r => usize c + kids_size r
    end.
  Lemma usize_unfold n c sl : usize (UNode n c sl) = S (kids_size sl).
  Proof. induction sl as [|[[e ch]|] r IH]; simpl in *; auto; lia. Qed.

  (** ** the numbers are the pre-order positions *)
  Definition ids (l : list (nat * utree * nat)) : list nat := map (fun p => fst (fst p)) l.

  Lemma nreps_ids t : forall id top, ids (nreps t id top) = seq id (usize t).
  Proof.
    induction t as [n c sl IH] using utree_ind'. intros id top.
    rewrite nreps_unfold, usize_unfold. unfold ids. simpl. f_equal. fold (ids (nreps_go nreps top sl (S id))).
    generalize (S id). induction IH as [|[[e ch]|] r Hs _ IHr]; intros k; simpl; auto.
    unfold ids in *. rewrite map_app, Hs, IHr, seq_app. reflexivity.
  Qed.

  Lemma nreps_nodes t : forall id top, map (fun p => snd (fst p)) (nreps t id top) = nodes t.
  Proof.
    induction t as [n c sl IH] using utree_ind'. intros id top.
    rewrite nreps_unfold. simpl. f_equal.
    generalize (S id). induction IH as [|[[e ch]|] r Hs _ IHr]; intros k; simpl; auto.
    now rewrite map_app, Hs, IHr.
  Qed.

  Lemma nreps_range t id top j x r : In (j, x, r) (nreps t id top) -> id <= j < id + usize t.
  Proof.
    intros H. assert (X : In j (ids (nreps t id top))).
    { unfold ids. apply in_map_iff. exists (j, x, r). auto. }
    rewrite nreps_ids in X. apply in_seq in X. lia.
  Qed.

  Lemma nreps_key_unique t id top j x r x' r' :
    In (j, x, r) (nreps t id top) -> In (j, x', r') (nreps t id top) -> x = x' /\ r = r'.
  Proof.
    assert (N : NoDup (ids (nreps t id top))) by (rewrite nreps_ids; apply seq_NoDup).
    revert N. generalize (nreps t id top). induction l as [|[[j0 x0] r0] l IH]; simpl; intros N H1 H2; [tauto|].
    inversion N as [|? ? Nj Nl]; subst.
    destruct H1 as [E1|H1], H2 as [E2|H2].
    - inversion E1; inversion E2; subst. auto.
    - inversion E1; subst. exfalso. apply Nj. unfold ids. apply in_map_iff. exists (j, x', r'). auto.
    - inversion E2; subst. exfalso. apply Nj. unfold ids. apply in_map_iff. exists (j, x, r). auto.
    - auto.
  Qed.

  (** ** short branches join nodes with the same top node *)
  Lemma short_pairs_In (ge : list (nat * nat * einfo)) u v :
    In (u, v) (short_pairs sh ge) <-> exists e, In (u, v, e) ge /\ sh e = true.
  Proof.
    unfold short_pairs. rewrite in_map_iff. split.
    - intros [[[u' v'] e] [E H]]. simpl in E. inversion E; subst. apply filter_In in H. simpl in H.
      exists e. tauto.
    - intros [e [H S]]. exists (u, v, e). split; auto. apply filter_In. auto.
  Qed.

  Lemma nreps_head t id top : exists r, nreps t id top = (id, t, top) :: r.
  Proof. destruct t as [n c sl]. rewrite nreps_unfold. eauto. Qed.

  Lemma edge_same_top t : forall id top u v e,
      In (u, v, e) (gedges t id) -> sh e = true ->
      exists xu xv r, In (u, xu, r) (nreps t id top) /\ In (v, xv, r) (nreps t id top).
  Proof.
    induction t as [n c sl IH] using utree_ind'. intros id top u v e H Sh.
    rewrite gedges_unfold in H. rewrite nreps_unfold.
    assert (G : forall l next, Forall (fun s : slot => match s with
                  | Some (_, t) => forall id top u v e, In (u, v, e) (gedges t id) -> sh e = true ->
                       exists xu xv r, In (u, xu, r) (nreps t id top) /\ In (v, xv, r) (nreps t id top)
                  | None => True end) l ->
                In (u, v, e) (gedges_go l id next) ->
                (u = id /\ exists xv, In (v, xv, top) (nreps_go nreps top l next)) \/
                (exists xu xv r, In (u, xu, r) (nreps_go nreps top l next) /\ In (v, xv, r) (nreps_go nreps top l next))).
    { clear H. induction l as [|[[e0 ch]|] r IHr]; intros next HF H; simpl in H; [destruct H| |].
      - apply Forall_cons_iff in HF as [Hc HFr]. simpl nreps_go.
        destruct H as [E|H]; [|apply in_app_iff in H; destruct H as [H|H]].
        + inversion E; subst. left. split; auto. rewrite Sh.
          destruct (nreps_head ch v top) as [r0 ->]. exists ch. simpl. now left.
        + destruct (Hc next (if sh e0 then top else next) u v e H Sh) as [xu [xv [r0 [A B]]]].
          right. exists xu, xv, r0. split; apply in_app_iff; auto.
        + destruct (IHr (next + usize ch) HFr H) as [[-> [xv A]]|[xu [xv [r0 [A B]]]]].
          * left. split; auto. exists xv. apply in_app_iff. auto.
          * right. exists xu, xv, r0. split; apply in_app_iff; auto.
      - apply Forall_cons_iff in HF as [_ HFr]. simpl nreps_go. auto. }
    destruct (G sl (S id) IH H) as [[-> [xv A]]|[xu [xv [r0 [A B]]]]].
    - exists (UNode n c sl), xv, top. split; [now left|now right].
    - exists xu, xv, r0. split; now right.
  Qed.

  (** every node is connected to the top node of its piece *)
  Lemma node_conn_top E t : forall id top x nx r,
      incl (short_pairs sh (gedges t id)) E -> conn E id top ->
      In (x, nx, r) (nreps t id top) -> conn E x r.
  Proof.
    induction t as [n c sl IH] using utree_ind'. intros id top x nx r HE Ht H.
    rewrite nreps_unfold in H. rewrite gedges_unfold in HE.
    destruct H as [X|H]; [inversion X; subst; auto|].
    assert (G : forall l next, Forall (fun s : slot => match s with
                  | Some (_, t) => forall id top x nx r, incl (short_pairs sh (gedges t id)) E ->
                       conn E id top -> In (x, nx, r) (nreps t id top) -> conn E x r
                  | None => True end) l ->
                incl (short_pairs sh (gedges_go l id next)) E ->
                In (x, nx, r) (nreps_go nreps top l next) -> conn E x r).
    { clear H HE. induction l as [|[[e0 ch]|] r0 IHr]; intros next HF HE H; simpl in H; [destruct H| |].
      - apply Forall_cons_iff in HF as [Hc HFr]. simpl gedges_go in HE.
        assert (HE1 : incl (short_pairs sh (gedges ch next)) E).
        { intros [a b] Hab. apply HE. apply short_pairs_In in Hab. destruct Hab as [e1 [A B]].
          apply short_pairs_In. exists e1. split; auto. right. apply in_app_iff. auto. }
        assert (HE2 : incl (short_pairs sh (gedges_go r0 id (next + usize ch))) E).
        { intros [a b] Hab. apply HE. apply short_pairs_In in Hab. destruct Hab as [e1 [A B]].
          apply short_pairs_In. exists e1. split; auto. right. apply in_app_iff. auto. }
        apply in_app_iff in H. destruct H as [H|H]; [|eapply IHr; eauto].
        apply (Hc next (if sh e0 then top else next) x nx r); auto.
        destruct (sh e0) eqn:S0; [|apply conn_refl].
        eapply conn_trans; [|exact Ht]. apply conn_sym, conn_edge. apply HE.
        apply short_pairs_In. exists e0. split; auto. now left.
      - apply Forall_cons_iff in HF as [_ HFr]. eapply IHr; eauto. }
    eapply G; eauto.
  Qed.

  (** connected by short branches iff same top node *)
  Theorem conn_same_top t x nx rx y ny ry :
    let L := nreps t 0 0 in
    let E := short_pairs sh (gedges t 0) in
    In (x, nx, rx) L -> In (y, ny, ry) L -> (conn E x y <-> rx = ry).
  Proof.
    intros L E Hx Hy. split.
    - intros H.
      assert (SR : forall a b, conn E a b ->
                               forall r, (exists na, In (a, na, r) L) <-> (exists nb, In (b, nb, r) L)).
      { clear. induction 1 as [a|u v Huv|a b H IH|a b c H1 IH1 H2 IH2]; intros r.
        - tauto.
        - apply short_pairs_In in Huv. destruct Huv as [e [He S]].
          destruct (edge_same_top t 0 0 u v e He S) as [xu [xv [r0 [A B]]]]. split.
          + intros [na Hn]. destruct (nreps_key_unique t 0 0 u na r xu r0 Hn A) as [_ ->]. eauto.
          + intros [nb Hn]. destruct (nreps_key_unique t 0 0 v nb r xv r0 Hn B) as [_ ->]. eauto.
        - symmetry. apply IH.
        - rewrite IH1. apply IH2. }
      destruct (proj1 (SR x y H rx) (ex_intro _ nx Hx)) as [ny' Hy'].
      now destruct (nreps_key_unique t 0 0 y ny' rx ny ry Hy' Hy).
    - intros <-.
      assert (Cx : conn E x rx) by (eapply (node_conn_top E t 0 0); eauto; [apply incl_refl|apply conn_refl]).
      assert (Cy : conn E y rx) by (eapply (node_conn_top E t 0 0); eauto; [apply incl_refl|apply conn_refl]).
      eapply conn_trans; [exact Cx|now apply conn_sym].
  Qed.
End Reps.
