(** Newick -> Nexus with a TRANSLATE table -> parse, at the token level: the parser reads
    back the table the writer printed and the Newick strings of the renamed trees. *)
From Coq Require Import String Ascii ZArith Bool Arith Lia List Permutation.
From GT Require Import Base.Sexp Base.UTree Spec.Obs Model.Nexus Proofs.NexusLex Proofs.NexusWords
     Proofs.NexusRoundTrip Proofs.NexusRoundTripMain.
Import ListNotations.
Local Open Scope string_scope.

(** * the TRANSLATE command *)
(** one line per taxon: index (a decimal number) and label *)
Definition tr_line (p : nat * string) : string := "   " ++ itoa (fst p) ++ " " ++ snd p ++ nl.
Definition tr_text (ps : list (nat * string)) (rest : string) : string := cat (map tr_line ps) ++ "  ;" ++ rest.
Definition tr_table (ps : list (nat * string)) (tbl : list (string * string)) : list (string * string) :=
  fold_left (fun t p => assoc_set (itoa (fst p)) (snd p) t) ps tbl.

Lemma sc_tr_end : forall x, scan_iw ("  ;" ++ x) = (ENDOFCOMMAND, ";", x).
Proof. reflexivity. Qed.

Lemma parse_translate_spec : forall ps tbl fuel rest,
    Forall (fun p => (Z.of_nat (fst p) < two63)%Z /\ label_ok (snd p)) ps ->
    String.length (tr_text ps rest) < fuel ->
    parse_translate fuel tbl (tr_text ps rest) = Ret (tr_table ps tbl) None rest.
Proof.
  induction ps as [|[k lab] r IH]; intros tbl fuel rest HF Hf; unfold tr_text in *.
  - cbn [map cat fold_right] in *. change ("" ++ "  ;" ++ rest) with ("  ;" ++ rest) in *.
    fuel1 fuel. cbn [parse_translate]. rewrite sc_tr_end. tk. reflexivity.
  - inversion HF as [|? ? [Hk [Hw Hc]] Hr]; subst. cbn [fst snd] in *.
    cbn [map cat fold_right] in *. fold (cat (map tr_line r)) in *.
    unfold tr_line at 1 in Hf. unfold tr_line at 1. cbn [fst snd] in *.
    rewrite !app_assoc_s in *.
    fuel1 fuel. cbn [parse_translate].
    rewrite (scan_iw_blanks_word "   " (itoa k)) by (first [apply itoa_word | reflexivity]).
    rewrite (itoa_classify k Hk). tk.
    rewrite (scan_iw_blanks_word " " lab) by (first [exact Hw | reflexivity]).
    assert (G : parse_translate fuel (assoc_set (itoa k) lab tbl) (cat (map tr_line r) ++ "  ;" ++ rest) =
                Ret (tr_table r (assoc_set (itoa k) lab tbl)) None rest).
    { apply IH; [exact Hr|len]. }
    destruct Hc as [Hc|Hc]; rewrite Hc; tk; rewrite sc_nl; tk; exact G.
Qed.

(** * the TREES block with a TRANSLATE command *)
Lemma sc_translate : forall x, scan_iw ("  TRANSLATE" ++ nl ++ x) = (TRANSLATE, "TRANSLATE", nl ++ x).
Proof. reflexivity. Qed.

Definition trees_text_tr (ps : list (nat * string)) (es : list entry) (rest : string) : string :=
  nl ++ "  TRANSLATE" ++ nl ++ tr_text ps (nl ++ lines_text es ("END;" ++ rest)).

Lemma parse_trees_tr_spec : forall ps es fuel tbl0 rest,
    Forall (fun p => (Z.of_nat (fst p) < two63)%Z /\ label_ok (snd p)) ps ->
    Forall entry_ok es ->
    String.length (trees_text_tr ps es rest) < fuel ->
    parse_trees fuel (mkTS [] [] tbl0) None (trees_text_tr ps es rest) =
    Ret (mkTS (map entry_name es) (map entry_body es) (Some (tr_table ps []))) None rest.
Proof.
  intros ps es fuel tbl0 rest HP HE Hf. unfold trees_text_tr in *.
  fuel1 fuel. cbn [parse_trees]. rewrite sc_nl. tk.
  fuel1 fuel. cbn [parse_trees]. rewrite sc_translate. tk.
  assert (PT : parse_translate fuel [] (nl ++ tr_text ps (nl ++ lines_text es ("END;" ++ rest))) =
               Ret (tr_table ps []) None (nl ++ lines_text es ("END;" ++ rest))).
  { fuel1 fuel. cbn [parse_translate]. rewrite sc_nl. tk.
    apply parse_translate_spec; [exact HP|len]. }
  rewrite PT. tk. cbn [tnames tstrings].
  fuel1 fuel. cbn [parse_trees]. rewrite sc_nl. tk.
  rewrite parse_trees_spec; [reflexivity|exact HE|].
  unfold tr_text in Hf. len.
Qed.

(** * the whole document *)
Definition doc_text_tr (n : nat) (labels : list string) (ps : list (nat * string)) (es : list entry) : string :=
  "#NEXUS" ++ nl ++ "BEGIN TAXA;" ++
  taxa_text n labels (nl ++ "BEGIN TREES;" ++ trees_text_tr ps es nl).

Definition doc_state_tr (n : nat) (labels : list string) (ps : list (nat * string)) (es : list entry) : nexus_st :=
  mkNS (Z.of_nat n) (Some labels) (Some (map entry_name es, map entry_body es)) (Some (tr_table ps [])) None "*"%char "-"%char
       (map (fun _ => Some (tr_table ps [])) (map entry_name es)).

Section Doc.
  Variable nparse : string -> utree + string.

  Theorem parse_doc_text_tr : forall n labels ps es fuel,
      (Z.of_nat n < two63)%Z -> Forall label_ok labels -> NoDup labels ->
      Forall (fun p => (Z.of_nat (fst p) < two63)%Z /\ label_ok (snd p)) ps ->
      Forall entry_ok es ->
      String.length (doc_text_tr n labels ps es) + 2 <= fuel ->
      nexus_parse_fuel nparse fuel (doc_text_tr n labels ps es) = finish nparse (doc_state_tr n labels ps es).
  Proof.
    intros n labels ps es fuel Hn HL ND HP HE Hf. unfold nexus_parse_fuel, doc_text_tr in *.
    rewrite (scan_iw_word "#NEXUS") by reflexivity.
    change (classify "#NEXUS") with NEXUS. tk.
    fuel1 fuel. cbn [main_loop]. rewrite sc_nl. tk.
    fuel1 fuel. cbn [main_loop]. rewrite sc_begin_taxa. tk. rewrite sc_taxa. rewrite sc_semi. tk.
    rewrite parse_taxa_spec; [|exact Hn|exact HL|exact ND|unfold taxa_text in *; len]. tk.
    fuel1 fuel. cbn [main_loop]. rewrite sc_nl. tk.
    fuel1 fuel. cbn [main_loop]. rewrite sc_begin_trees. tk. rewrite sc_trees. rewrite sc_semi. tk.
    cbn [ns_table nexus0 ns_taxantax ns_taxlabels ns_trees ns_data ns_missing ns_gap ns_tabs] in *.
    rewrite parse_trees_tr_spec; [|exact HP|exact HE|unfold taxa_text in *; len]. tk. cbn [tnames tstrings ttable app prev_trees ns_trees fst snd].
    fuel1 fuel. cbn [main_loop]. rewrite sc_nl0. tk.
    fuel1 fuel. cbn [main_loop]. rewrite sc_eof. tk. reflexivity.
  Qed.
End Doc.

(** * the writer's map: the i-th taxon seen gets the index i *)
Definition vals_ok (m : list (string * string)) : Prop := map snd m = map itoa (seq 0 (length m)).

Lemma add_tips_vals : forall names m, vals_ok m -> vals_ok (add_tips names m).
Proof.
  unfold add_tips. induction names as [|n r IH]; intros m H; simpl; [exact H|].
  apply IH. destruct (assoc_get n m); [exact H|].
  unfold vals_ok in *. rewrite map_app, app_length. simpl. rewrite H.
  replace (length m + 1) with (S (length m)) by lia. rewrite seq_S, map_app. reflexivity.
Qed.

Lemma final_map_vals : forall l m, vals_ok m -> vals_ok (final_map l m).
Proof.
  unfold final_map. induction l as [|p r IH]; intros m H; simpl; [exact H|].
  apply IH. apply add_tips_vals. exact H.
Qed.

Fixpoint assoc_pos (n : string) (m : list (string * string)) : nat :=
  match m with
  | [] => 0
  | (x, _) :: r => if String.eqb x n then 0 else S (assoc_pos n r)
  end.

Lemma assoc_pos_spec : forall m k0 n,
    map snd m = map itoa (seq k0 (length m)) -> In n (map fst m) ->
    assoc_get n m = Some (itoa (k0 + assoc_pos n m)) /\ assoc_pos n m < length m.
Proof.
  induction m as [|[x v] m IH]; intros k0 n H Hin; simpl in *; [tauto|].
  inversion H as [[Hv Hr]].
  destruct (String.eqb x n) eqn:E.
  - split; [rewrite Nat.add_0_r; reflexivity|lia].
  - apply String.eqb_neq in E. destruct Hin as [C|C]; [contradiction|].
    destruct (IH (S k0) n Hr C) as [A B]. split; [|lia].
    rewrite A. f_equal. f_equal. lia.
Qed.

Section Writer.
  Variable wnewick : utree -> string.

  (** the trees as they are printed: tip names replaced by the indices known so far *)
  Fixpoint rendered (m : list (string * string)) (l : list (nat * utree)) : list (nat * utree) :=
    match l with
    | [] => []
    | (id, t) :: r => let m' := add_tips (all_tip_names t) m in
                      (id, renamed true m' t) :: rendered m' r
    end.

  Lemma write_trees_true : forall l m,
      write_trees wnewick true m l = (final_map l m, cat (map (tree_line wnewick) (rendered m l))).
  Proof.
    induction l as [|[id t] r IH]; intros m; simpl; [reflexivity|].
    rewrite IH. reflexivity.
  Qed.

  Definition pairs_of (l : list (nat * utree)) : list (nat * string) :=
    map (fun n => (assoc_pos n (final_map l []), n)) (labels_of l).

  Lemma labels_in_map : forall l n, In n (labels_of l) -> In n (map fst (final_map l [])).
  Proof.
    intros l n H. unfold labels_of in H. eapply Permutation_in; [apply ssort_perm|exact H].
  Qed.

  Lemma tr_lines_eq : forall l,
      map (fun n => "   " ++ match assoc_get n (final_map l []) with Some i => i | None => "" end ++ " " ++ n ++ nl)
          (labels_of l) = map tr_line (pairs_of l).
  Proof.
    intros l. unfold pairs_of. rewrite map_map. apply map_ext_in. intros n Hn.
    destruct (assoc_pos_spec (final_map l []) 0 n (final_map_vals l [] eq_refl) (labels_in_map l n Hn)) as [A _].
    rewrite A. reflexivity.
  Qed.

  Lemma pairs_ok : forall l,
      (Z.of_nat (length (final_map l [])) < two63)%Z -> Forall label_ok (labels_of l) ->
      Forall (fun p => (Z.of_nat (fst p) < two63)%Z /\ label_ok (snd p)) (pairs_of l).
  Proof.
    intros l Hn HL. unfold pairs_of. apply Forall_forall. intros p Hp. apply in_map_iff in Hp.
    destruct Hp as [n [Hp Hn']]. subst p. cbn [fst snd]. split.
    - destruct (assoc_pos_spec (final_map l []) 0 n (final_map_vals l [] eq_refl) (labels_in_map l n Hn')) as [_ B]. lia.
    - rewrite Forall_forall in HL. apply HL. exact Hn'.
  Qed.

  Theorem write_nexus_doc_text_tr : forall l,
      Forall (fun p => newick_ok (wnewick (snd p)) = true) (rendered [] l) ->
      write_nexus wnewick true l =
      doc_text_tr (length (final_map l [])) (labels_of l) (pairs_of l) (entries_of wnewick (rendered [] l)).
  Proof.
    intros l H. unfold write_nexus. rewrite write_trees_true.
    unfold doc_text_tr, taxa_text, labels_text, trees_text_tr, tr_text. rewrite !concat_with_empty.
    fold (labels_of l). rewrite tr_lines_eq.
    rewrite <- (lines_of_trees wnewick (rendered [] l) ("END;" ++ nl) H).
    cbv beta iota. rewrite !app_assoc_s. reflexivity.
  Qed.
End Writer.

Section Main.
  Variable wnewick : utree -> string.
  Variable nparse : string -> utree + string.

  Lemma build_trees_ok_tr : forall (labels : list string) tbl (st : nexus_st) (its : list (string * string * utree * utree)),
      ns_taxlabels st = Some labels ->
      Forall (fun x => let '(_, s, t, t') := x in
                       nparse (s ++ ";") = inl t /\ rename_tree tbl t = inl t' /\
                       forallb (fun n => mem n labels) (tip_names t') = true /\
                       length (tips t') = length labels) its ->
      build_trees nparse st (map (fun x => fst (fst (fst x))) its) (map (fun x => snd (fst (fst x))) its)
                  (map (fun _ => Some tbl) (map (fun x => fst (fst (fst x))) its)) =
      inl (map (fun x => (fst (fst (fst x)), snd x)) its).
  Proof.
    intros labels tbl st its HL. induction its as [|[[[n s] t] t'] r IH]; intros H; [reflexivity|].
    inversion H as [|? ? H0 Hr]; subst. cbn in H0. destruct H0 as [H1 [H2 [H3 H4]]].
    cbn [map fst snd build_trees]. rewrite H1. rewrite H2. rewrite HL. rewrite H3. cbn [negb].
    rewrite H4. rewrite Nat.eqb_refl. cbn [negb]. rewrite (IH Hr). reflexivity.
  Qed.

  (** a printed tree: its text is readable inside a TREE command, the Newick parser reads
      [p t] from it, Rename with the table read back gives [q t], which has the declared taxa *)
  Definition tree_ok_tr (labels : list string) (tbl : list (string * string)) (p q : utree -> utree) (t : utree) : Prop :=
    newick_ok (wnewick t) = true /\
    nparse (wnewick t) = inl (p t) /\
    rename_tree tbl (p t) = inl (q t) /\
    forallb (fun n => mem n labels) (tip_names (q t)) = true /\
    length (tips (q t)) = length labels.

  Theorem nexus_round_trip_translate : forall (l : list (nat * utree)) (p q : utree -> utree),
      (Z.of_nat (length (final_map l [])) < two63)%Z ->
      Forall label_ok (labels_of l) ->
      Forall (fun it => tree_ok_tr (labels_of l) (tr_table (pairs_of l) []) p q (snd it)) (rendered [] l) ->
      nexus_parse nparse (write_nexus wnewick true l) =
      POk (mkDoc (map (fun it => ("tree" ++ itoa (fst it), q (snd it))) (rendered [] l)) false).
  Proof.
    intros l p q Hn HL HT.
    assert (HN : Forall (fun it => newick_ok (wnewick (snd it)) = true) (rendered [] l)).
    { eapply Forall_impl; [|exact HT]. intros a [H _]. exact H. }
    unfold nexus_parse.
    rewrite (write_nexus_doc_text_tr wnewick l HN).
    rewrite parse_doc_text_tr; [|exact Hn|exact HL|apply labels_nodup|apply pairs_ok; assumption| |unfold nexus_fuel; lia].
    2:{ unfold entries_of. apply Forall_forall. intros e He. apply in_map_iff in He.
        destruct He as [it [He Hi]]. subst e. rewrite Forall_forall in HN.
        exact (proj1 (newick_ok_entry (fst it) _ (HN it Hi))). }
    unfold finish, doc_state_tr.
    cbn [ns_taxantax ns_taxlabels ns_trees ns_table ns_data ns_missing ns_gap ns_tabs].
    rewrite <- labels_length. unfold zlength.
    replace (Z.of_nat (length (labels_of l)) =? -1)%Z with false by (symmetry; apply Z.eqb_neq; lia).
    rewrite Z.eqb_refl. cbn [negb andb orb Ascii.eqb Bool.eqb].
    set (tbl := tr_table (pairs_of l) []) in *.
    set (its := map (fun it => ("tree" ++ itoa (fst it), entry_body (entry_of (fst it) (wnewick (snd it))),
                                p (snd it), q (snd it))) (rendered [] l)).
    assert (E1 : map entry_name (entries_of wnewick (rendered [] l)) = map (fun x => fst (fst (fst x))) its).
    { unfold its, entries_of. rewrite !map_map. apply map_ext_in. intros it Hi. cbn [fst snd].
      unfold entry_of. destruct (chop_semi (wnewick (snd it))); reflexivity. }
    assert (E2 : map entry_body (entries_of wnewick (rendered [] l)) = map (fun x => snd (fst (fst x))) its).
    { unfold its, entries_of. rewrite !map_map. reflexivity. }
    rewrite E1, E2.
    rewrite (build_trees_ok_tr (labels_of l) tbl); [| reflexivity |].
    - f_equal. f_equal. unfold its. rewrite map_map. reflexivity.
    - unfold its. apply Forall_forall. intros x Hx. apply in_map_iff in Hx. destruct Hx as [it [Hx Hi]]. subst x.
      rewrite Forall_forall in HT. destruct (HT it Hi) as [A [B [C [D E]]]].
      destruct (newick_ok_entry (fst it) _ A) as [_ Hb]. rewrite <- Hb. auto.
  Qed.
End Main.
