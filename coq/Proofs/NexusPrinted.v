(** The trees as printed with a TRANSLATE table (tip names replaced by decimal numbers) are
    still inside C01's quantifier: [wfN] is kept by a renaming that turns tip names into
    decimal numbers and leaves the other names alone. *)
From Coq Require Import String Ascii ZArith QArith Bool Arith Lia List.
From GT Require Import Base.Sexp Base.UTree Spec.NewickSpec Model.Newick Model.Nexus
     Proofs.NewickLex Proofs.NewickCanon Proofs.NewickUtf8
     Proofs.NexusWords Proofs.NexusRoundTrip Proofs.NexusFirst Proofs.NexusRename.
Import ListNotations.
Local Close Scope Q_scope.
Local Open Scope string_scope.

Lemma digit_enum : forall c, is_digit c = true ->
    In c ["0"; "1"; "2"; "3"; "4"; "5"; "6"; "7"; "8"; "9"]%char.
Proof.
  intros c H. unfold is_digit, digit_val in H.
  destruct ((48 <=? Z.of_nat (nat_of_ascii c))%Z && (Z.of_nat (nat_of_ascii c) <=? 57)%Z) eqn:E; [|discriminate].
  apply andb_true_iff in E. destruct E as [E1 E2]. apply Z.leb_le in E1. apply Z.leb_le in E2.
  assert (R : c = ascii_of_nat (nat_of_ascii c)) by (symmetry; apply ascii_nat_embedding).
  assert (C : nat_of_ascii c = 48 \/ nat_of_ascii c = 49 \/ nat_of_ascii c = 50 \/ nat_of_ascii c = 51 \/
              nat_of_ascii c = 52 \/ nat_of_ascii c = 53 \/ nat_of_ascii c = 54 \/ nat_of_ascii c = 55 \/
              nat_of_ascii c = 56 \/ nat_of_ascii c = 57) by lia.
  repeat (destruct C as [C|C]; [rewrite C in R; subst c; simpl; tauto|]). rewrite C in R. subst c. simpl. tauto.
Qed.

Ltac digit_cases H :=
  apply digit_enum in H; simpl in H;
  repeat (destruct H as [H|H]; [subst|]); try contradiction.

Lemma trim_with_zero : forall w fuel s, w s = 0 -> trim_with w fuel s = s.
Proof. intros w [|f] s H; simpl; [reflexivity|rewrite H; reflexivity]. Qed.

Lemma blank_prefix_digit : forall d r, is_digit d = true -> blank_prefix (String d r) = 0.
Proof.
  intros d r H. digit_cases H; destruct r as [|b [|c r3]]; reflexivity.
Qed.

Lemma blank_suffix_digit : forall d r, is_digit d = true -> blank_suffix_rev (String d r) = 0.
Proof.
  intros d r H. digit_cases H; destruct r as [|b [|c r3]]; try reflexivity;
    unfold blank_suffix_rev; cbn [is_blank1 Ascii.eqb Bool.eqb orb];
    repeat (match goal with
            | |- context [byte_in ?a ?x ?y] =>
              lazymatch a with
              | Ascii _ _ _ _ _ _ _ _ => change (byte_in a x y) with false
              end
            end);
    cbn [orb]; rewrite ?andb_false_r; reflexivity.
Qed.

Lemma srev_app_app : forall s a b, srev_app (srev_app s a) b = srev_app a (s ++ b).
Proof.
  induction s as [|c r IH]; intros a b; simpl; [reflexivity|]. rewrite IH. reflexivity.
Qed.

Lemma srev_involutive : forall s, srev (srev s) = s.
Proof. intros s. unfold srev. rewrite srev_app_app. simpl. apply app_nil_r_s. Qed.

Lemma srev_app_digits : forall s acc, all_chars is_digit s = true -> all_chars is_digit acc = true ->
    all_chars is_digit (srev_app s acc) = true.
Proof.
  induction s as [|c r IH]; intros acc Hs Ha; simpl in *; [exact Ha|].
  apply andb_true_iff in Hs. destruct Hs as [Hc Hr]. apply IH; [exact Hr|]. simpl. rewrite Hc, Ha. reflexivity.
Qed.

Lemma trim_space_digits : forall s, all_chars is_digit s = true -> trim_space s = s.
Proof.
  intros s H. unfold trim_space.
  assert (L : trim_left s = s).
  { unfold trim_left. apply trim_with_zero. destruct s as [|d r]; [reflexivity|].
    simpl in H. apply andb_true_iff in H. destruct H as [Hd _]. apply blank_prefix_digit. exact Hd. }
  rewrite L. unfold trim_right.
  rewrite trim_with_zero; [apply srev_involutive|].
  pose proof (srev_app_digits s "" H eq_refl) as D. fold (srev s) in D.
  destruct (srev s) as [|d r]; [reflexivity|].
  simpl in D. apply andb_true_iff in D. destruct D as [Hd _]. apply blank_suffix_digit. exact Hd.
Qed.

Lemma digit_name_char : forall c, is_digit c = true -> name_char c = true /\ is_ascii c = true.
Proof. intros c H. digit_cases H; split; reflexivity. Qed.

Lemma forall_chars_digits : forall (p : ascii -> bool) s,
    (forall c, is_digit c = true -> p c = true) -> all_chars is_digit s = true -> forall_chars p s = true.
Proof.
  induction s as [|c r IH]; intros Hp H; simpl in *; [reflexivity|].
  apply andb_true_iff in H. destruct H as [Hc Hr]. rewrite (Hp c Hc), (IH Hp Hr). reflexivity.
Qed.

(** a decimal number is a legal tip name for C01 *)
Lemma itoa_tip_name_ok : forall k, tip_name_ok (itoa k) = true.
Proof.
  intros k. pose proof (itoa_digits k) as D. pose proof (itoa_nonempty k) as NE.
  unfold tip_name_ok.
  assert (E1 : String.eqb (itoa k) "" = false) by (apply String.eqb_neq; exact NE).
  rewrite E1. cbn [negb andb].
  rewrite (forall_chars_digits name_char _ (fun c H => proj1 (digit_name_char c H)) D). cbn [andb].
  unfold no_blank_around. rewrite (trim_space_digits _ D), String.eqb_refl. cbn [andb].
  pose proof (tok_ok_ascii _ (forall_chars_digits is_ascii _ (fun c H => proj2 (digit_name_char c H)) D)) as T.
  unfold text_ok. unfold tok_ok in T. rewrite T. rewrite String.eqb_refl. reflexivity.
Qed.

Section Keep.
  Variable numeric : string -> bool.
  Variable numok : Q -> bool.
  Variable m : list (string * string).

  (** tips get decimal numbers (or keep their name), other nodes keep their name *)
  Definition node_keep (x : utree) : Prop :=
    if is_tip x then (exists k, ren_name m (uname x) = itoa k) /\ uname x <> ""
    else ren_name m (uname x) = uname x.

  Lemma kids_of_ren : forall (sl : list slot),
      kids_of (map (ren_slot m) sl) = map (fun p => (fst p, rename_nodes m (snd p))) (kids_of sl).
  Proof. induction sl as [|[[e ch]|] r IH]; unfold kids_of in *; simpl; [reflexivity| |]; rewrite IH; reflexivity. Qed.

  Lemma edge_ok_name : forall e a b, (String.eqb a "" = String.eqb b "") -> edge_ok numok e a = edge_ok numok e b.
  Proof. intros e a b H. unfold edge_ok. rewrite H. reflexivity. Qed.

  Lemma wfN_sub_rename : forall t e, wfN_sub numeric numok e t = true -> Forall node_keep (nodes t) ->
      wfN_sub numeric numok e (rename_nodes m t) = true.
  Proof.
    induction t as [n c sl IH] using utree_ind'. intros e W HN.
    cbn [nodes] in HN. inversion HN as [|? ? Hn0 Hks]; subst.
    pose proof (wfN_sub_inv numeric numok e n c sl W) as (Hup & _).
    cbn [wfN_sub] in W. repeat (apply andb_true_iff in W; destruct W as [W ?]).
    rename W into W1, H2 into Wn, H1 into Wc, H0 into We, H into Wk.
    change (rename_nodes m (UNode n c sl)) with (UNode (ren_name m n) c (map (ren_slot m) sl)).
    cbn [wfN_sub]. rewrite n_up_ren, W1, Wc. cbn [andb].
    unfold node_keep, is_tip, degree in Hn0. cbn [uslots uname] in Hn0.
    pose proof (n_up_length sl) as L. rewrite Hup in L.
    rewrite kids_of_ren.
    assert (A : (match map (fun p : einfo * utree => (fst p, rename_nodes m (snd p))) (kids_of sl) with
                 | [] => tip_name_ok (ren_name m n)
                 | _ :: _ => inner_name_ok numeric (ren_name m n)
                 end) = true /\ edge_ok numok e (ren_name m n) = true).
    { destruct (kids_of sl) as [|k r] eqn:K; simpl in L |- *.
      - rewrite L in Hn0. simpl in Hn0. destruct Hn0 as [[k Hk] NE]. rewrite Hk. split; [apply itoa_tip_name_ok|].
        rewrite <- We. apply edge_ok_name.
        apply String.eqb_neq in NE. rewrite NE. apply String.eqb_neq. apply itoa_nonempty.
      - destruct (Nat.eqb (length sl) 1) eqn:E; [apply Nat.eqb_eq in E; lia|].
        rewrite Hn0. split; assumption. }
    destruct A as [A1 A2]. rewrite A1, A2. cbn [andb].
    clear - IH Wk Hks. induction sl as [|[[e' ch]|] r IHr]; simpl in *; [reflexivity| |].
    - inversion IH as [|? ? Hc Hr]; subst. apply andb_true_iff in Wk. destruct Wk as [K1 K2].
      apply Forall_app in Hks. destruct Hks as [N1 N2].
      rewrite (Hc e' K1 N1). simpl. apply IHr; assumption.
    - inversion IH as [|? ? Hc Hr]; subst. apply IHr; assumption.
  Qed.

  Theorem wfN_rename : forall t, wfN numeric numok t = true -> Forall node_keep (nodes t) ->
      wfN numeric numok (rename_nodes m t) = true.
  Proof.
    intros [n c sl] W HN.
    cbn [nodes] in HN. inversion HN as [|? ? Hn0 Hks]; subst.
    pose proof (wfN_inv numeric numok n c sl W) as (Hup & Hlen & _).
    cbn [wfN] in W. repeat (apply andb_true_iff in W; destruct W as [W ?]).
    rename W into W1, H2 into Wl, H1 into Wn, H0 into Wc, H into Wk.
    change (rename_nodes m (UNode n c sl)) with (UNode (ren_name m n) c (map (ren_slot m) sl)).
    cbn [wfN]. rewrite n_up_ren, W1, Wc. rewrite kids_of_ren, map_length, Wl. cbn [andb].
    unfold node_keep, is_tip, degree in Hn0. cbn [uslots uname] in Hn0.
    pose proof (n_up_length sl) as L. rewrite Hup in L. simpl in L.
    destruct (Nat.eqb (length sl) 1) eqn:E; [apply Nat.eqb_eq in E; lia|].
    rewrite Hn0, Wn. cbn [andb].
    clear - Wk Hks. induction sl as [|[[e' ch]|] r IHr]; simpl in *; [reflexivity| |].
    - apply andb_true_iff in Wk. destruct Wk as [K1 K2].
      apply Forall_app in Hks. destruct Hks as [N1 N2].
      rewrite (wfN_sub_rename ch e' K1 N1). simpl. apply IHr; assumption.
    - apply IHr; assumption.
  Qed.
End Keep.
