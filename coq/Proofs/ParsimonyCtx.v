(** Infrastructure for the second passes: nodes addressed by paths, the arithmetic of a node
    whose neighbours (children, and possibly the part of the tree above it) each contribute
    "constant + 1 if the state is missing from a 0/1 vector". *)
From Coq Require Import String ZArith QArith Bool Arith Lia List.
From GT Require Import Base.UTree Spec.Obs Spec.Parsimony Model.Reroot Model.Parsimony
     Proofs.ParsimonyVec Proofs.ParsimonyHartigan Proofs.ParsimonyReroot.
Import ListNotations.
Local Close Scope Q_scope.

(** * addressing *)
(** position of slot [i] among the children *)
Definition kidx (sl : list slot) (i : nat) : nat := length (kids_of (firstn i sl)).

(** the vector a vtree (annotating [t]) holds at the node of path [p] *)
Fixpoint vec_at (t : utree) (vt : vtree) (p : list nat) : option vec :=
  match p with
  | [] => Some (vroot vt)
  | i :: q => match nth_error (uslots t) i with
              | Some (Some (_, c)) =>
                match nth_error (vkids vt) (kidx (uslots t) i) with
                | Some vc => vec_at c vc q
                | None => None
                end
              | _ => None
              end
  end.

Lemma kidx_0 : forall sl, kidx sl 0 = 0.
Proof. reflexivity. Qed.
Lemma kidx_S_some : forall p sl i, kidx (Some p :: sl) (S i) = S (kidx sl i).
Proof. reflexivity. Qed.
Lemma kidx_S_none : forall sl i, kidx (None :: sl) (S i) = kidx sl i.
Proof. reflexivity. Qed.

Lemma lsub_app : forall p q l, lsub l (p ++ q) = match lsub l p with Some c => lsub c q | None => None end.
Proof.
  induction p as [|i p IH]; intros q l; simpl; [reflexivity|].
  destruct (nth_error (lslots l) i) as [[c|]|]; auto.
Qed.

Lemma shape_lsub : forall p t l c, shape_ok t l = true -> node_at t p = Some c ->
  exists lc, lsub l p = Some lc /\ shape_ok c lc = true.
Proof.
  induction p as [|i p IH]; intros t l c Hs Hn; simpl in *.
  - inversion Hn; subst. eauto.
  - destruct t as [n cm sl]. destruct l as [x ll]. simpl in *.
    destruct (nth_error sl i) as [[[e d]|]|] eqn:E; try discriminate.
    destruct (shape_slots_nth sl ll i e d Hs E) as [ld [El Hd]].
    rewrite El. eapply IH; eauto.
Qed.

Section Ctx.
Variable tv : string -> vec.
Variable ts : string -> list nat.
Variable k : nat.

Notation kid_results := (kid_results tv k).
Notation edge_slot := (edge_slot tv ts k).
Notation vec_ok := (vec_ok k).

Definition rs_ok (rs : list (vtree * nat)) : Prop := Forall (fun r => vec_ok (vroot (fst r))) rs.

Lemma contrib_app : forall x a b, contrib x (a ++ b) = contrib x a + contrib x b.
Proof. induction a; intros; simpl; auto. rewrite IHa. lia. Qed.

Lemma kvecs_app : forall a b, kvecs (a ++ b) = kvecs a ++ kvecs b.
Proof. intros. unfold kvecs. apply map_app. Qed.

Lemma map_remove_nth : forall A B (f : A -> B) l j, map f (remove_nth j l) = remove_nth j (map f l).
Proof.
  induction l as [|a l IH]; intros j; simpl; [destruct j; reflexivity|].
  destruct j; simpl; [reflexivity | rewrite IH; reflexivity].
Qed.

(** the results of the children other than the one in slot [i] *)
Lemma kid_results_set_nth : forall sl i e c, nth_error sl i = Some (Some (e, c)) ->
  kid_results (set_nth i None sl) = remove_nth (kidx sl i) (kid_results sl).
Proof.
  induction sl as [|s sl IH]; intros i e c H.
  - destruct i; discriminate.
  - destruct i.
    + simpl in H. inversion H; subst. reflexivity.
    + simpl in H. rewrite set_nth_S. destruct s as [[e1 c1]|].
      * rewrite kidx_S_some. simpl. f_equal. eapply IH; eauto.
      * rewrite kidx_S_none. simpl. eapply IH; eauto.
Qed.

Lemma kid_results_nth : forall sl i e c, nth_error sl i = Some (Some (e, c)) ->
  nth_error (kid_results sl) (kidx sl i) = Some (uppass tv k c).
Proof.
  induction sl as [|s sl IH]; intros i e c H.
  - destruct i; discriminate.
  - destruct i.
    + simpl in H. inversion H; subst. reflexivity.
    + simpl in H. destruct s as [[e1 c1]|].
      * rewrite kidx_S_some. simpl. eapply IH; eauto.
      * rewrite kidx_S_none. simpl. eapply IH; eauto.
Qed.

Lemma edge_slot_set_nth : forall sl i, Forall edge_slot sl -> Forall edge_slot (set_nth i None sl).
Proof.
  induction sl as [|s sl IH]; intros i H.
  - rewrite set_nth_nil. constructor.
  - inversion H; subst. destruct i.
    + rewrite set_nth_0. constructor; [exact I | assumption].
    + rewrite set_nth_S. constructor; auto.
Qed.

Lemma rs_ok_remove_nth : forall rs j, rs_ok rs -> rs_ok (remove_nth j rs).
Proof.
  induction rs as [|r rs IH]; intros j H; simpl; [destruct j; constructor|].
  inversion H; subst. destruct j; [assumption | constructor; auto]. apply IH. assumption.
Qed.

(** * the arithmetic of a node *)
Lemma contrib_formula : forall rs, rs_ok rs -> rs <> [] ->
  let sum := vsum k (kvecs rs) in
  (forall x, contrib x rs + nth x sum 0 = sumc rs + length rs) /\
  1 <= vmax sum /\ 0 < k /\ length sum = k /\
  nth (first_max sum) sum 0 = vmax sum /\ first_max sum < k.
Proof.
  intros rs Hrs Hne sum.
  assert (Hlenk : Forall (fun v => length v = k) (kvecs rs)).
  { apply kvecs_forall. eapply Forall_impl; [|exact Hrs]. intros r [H _]. exact H. }
  assert (Hsum : forall x, nth x sum 0 = nsum x (kvecs rs)) by (intros; apply nth_vsum; exact Hlenk).
  assert (Hsl : length sum = k) by apply vsum_length.
  assert (Hpos : 1 <= vmax sum /\ 0 < k).
  { destruct rs as [|r0 rs'] eqn:E; [congruence|].
    inversion Hrs; subst. destruct H1 as [L [_ [y Hy]]].
    split.
    - pose proof (nth_le_vmax sum y). rewrite Hsum in H.
      pose proof (nsum_ge y (kvecs (r0 :: rs')) (vroot (fst r0)) (or_introl eq_refl)). lia.
    - destruct (Nat.lt_ge_cases y (length (vroot (fst r0)))) as [Q|Q]; [lia|].
      rewrite nth_overflow in Hy by assumption. discriminate. }
  destruct Hpos as [Hpos Hk0].
  split; [|split; [exact Hpos | split; [exact Hk0 | split; [exact Hsl | split]]]].
  - intros x. rewrite Hsum. apply (contrib_eq k). exact Hrs.
  - apply first_max_spec.
  - rewrite <- Hsl. apply first_max_lt. intro Q. rewrite Q in Hsl. simpl in Hsl. lia.
Qed.

Lemma cp_vec_ok : forall rs, rs_ok rs -> rs <> [] -> vec_ok (compute_parsimony (vsum k (kvecs rs))).
Proof.
  intros rs Hrs Hne.
  destruct (contrib_formula rs Hrs Hne) as [_ [_ [_ [Hsl [Hms Hlt]]]]].
  split; [|split].
  - rewrite compute_parsimony_length. exact Hsl.
  - intros. apply compute_parsimony_01.
  - exists (first_max (vsum k (kvecs rs))). rewrite nth_compute_parsimony, Hsl.
    apply Nat.ltb_lt in Hlt. rewrite Hlt, Hms, Nat.eqb_refl. reflexivity.
Qed.

(** [nth x (cp sum) = 1] iff the count of [x] is maximal *)
Lemma cp_max_iff : forall rs x, rs_ok rs -> rs <> [] ->
  let sum := vsum k (kvecs rs) in
  (nth x (compute_parsimony sum) 0 = 1 <-> nth x sum 0 = vmax sum).
Proof.
  intros rs x Hrs Hne sum.
  destruct (contrib_formula rs Hrs Hne) as [_ [Hpos [_ [Hsl _]]]]. fold sum in Hpos, Hsl.
  rewrite nth_compute_parsimony, Hsl.
  destruct (Nat.ltb x k) eqn:E.
  - destruct (Nat.eqb (nth x sum 0) (vmax sum)) eqn:E2.
    + apply Nat.eqb_eq in E2. tauto.
    + apply Nat.eqb_neq in E2. split; [discriminate | contradiction].
  - apply Nat.ltb_ge in E. rewrite (nth_overflow sum) by lia. split; [discriminate | lia].
Qed.

(** the part of the tree on the other side of a branch, seen from the state [y] at this end:
    the least of "change on the branch + contribution of the neighbours of the far end" *)
Definition above_const (rs : list (vtree * nat)) : nat :=
  sumc rs + length rs - vmax (vsum k (kvecs rs)).
Definition above_vec (rs : list (vtree * nat)) : vec := compute_parsimony (vsum k (kvecs rs)).

Lemma above_arith_LB : forall rs x y, rs_ok rs -> rs <> [] ->
  above_const rs + miss y (above_vec rs) <= contrib x rs + (if Nat.eqb x y then 0 else 1).
Proof.
  intros rs x y Hrs Hne. unfold above_const, above_vec, miss.
  destruct (contrib_formula rs Hrs Hne) as [Hc [Hpos [Hk0 [Hsl [Hms Hlt]]]]].
  set (sum := vsum k (kvecs rs)) in *.
  pose proof (Hc x) as Cx. pose proof (nth_le_vmax sum x) as Mx. pose proof (nth_le_vmax sum y) as My.
  pose proof (Hc (first_max sum)) as Cm. rewrite Hms in Cm.
  rewrite nth_compute_parsimony, Hsl.
  destruct (Nat.eqb x y) eqn:Exy.
  - apply Nat.eqb_eq in Exy. subst y.
    destruct (Nat.ltb x k) eqn:E.
    + destruct (Nat.eqb (nth x sum 0) (vmax sum)) eqn:E2.
      * lia.
      * apply Nat.eqb_neq in E2. lia.
    + apply Nat.ltb_ge in E. rewrite (nth_overflow sum) in Cx by lia. lia.
  - destruct (Nat.ltb y k); [destruct (Nat.eqb _ _)|]; lia.
Qed.

Lemma above_arith_UB : forall rs y, rs_ok rs -> rs <> [] ->
  exists x, contrib x rs + (if Nat.eqb x y then 0 else 1) = above_const rs + miss y (above_vec rs).
Proof.
  intros rs y Hrs Hne. unfold above_const, above_vec, miss.
  destruct (contrib_formula rs Hrs Hne) as [Hc [Hpos [Hk0 [Hsl [Hms Hlt]]]]].
  set (sum := vsum k (kvecs rs)) in *.
  pose proof (Hc (first_max sum)) as Cm. rewrite Hms in Cm.
  pose proof (nth_le_vmax sum y) as My.
  rewrite nth_compute_parsimony, Hsl.
  destruct (Nat.ltb y k) eqn:E.
  - destruct (Nat.eqb (nth y sum 0) (vmax sum)) eqn:E2.
    + apply Nat.eqb_eq in E2. exists y. rewrite Nat.eqb_refl. pose proof (Hc y). lia.
    + apply Nat.eqb_neq in E2. exists (first_max sum).
      destruct (Nat.eqb (first_max sum) y) eqn:E3.
      * apply Nat.eqb_eq in E3. rewrite E3 in Hms. congruence.
      * pose proof (Hc (first_max sum)). lia.
  - apply Nat.ltb_ge in E. exists (first_max sum).
    destruct (Nat.eqb (first_max sum) y) eqn:E3.
    + apply Nat.eqb_eq in E3. lia.
    + pose proof (Hc (first_max sum)). lia.
Qed.

(** * one slot of a labelling replaced *)
Lemma shape_slots_put : forall sl ll i e d ld,
  nth_error sl i = Some (Some (e, d)) -> shape_ok d ld = true ->
  shape_slots shape_ok (set_nth i None sl) ll = true ->
  shape_slots shape_ok sl (set_nth i (Some ld) ll) = true.
Proof.
  induction sl as [|s sl IH]; intros ll i e d ld Hn Hd Hs.
  - destruct i; discriminate.
  - destruct i.
    + simpl in Hn. inversion Hn; subst. rewrite set_nth_0 in Hs.
      destruct ll as [|[m|] ll]; simpl in Hs; try discriminate.
      rewrite set_nth_0. simpl. rewrite Hd. exact Hs.
    + simpl in Hn. rewrite set_nth_S in Hs.
      destruct ll as [|m ll]; [destruct s as [[? ?]|]; discriminate|].
      rewrite set_nth_S.
      destruct s as [[e1 c1]|]; destruct m as [m1|]; simpl in Hs; try discriminate; simpl.
      * apply andb_prop in Hs. destruct Hs as [H1 H2]. rewrite H1. simpl. eapply IH; eauto.
      * eapply IH; eauto.
Qed.

Lemma shape_slots_length : forall sl ll, shape_slots shape_ok sl ll = true -> length ll = length sl.
Proof.
  induction sl as [|s sl IH]; intros [|m ll] H; simpl in *; auto; try discriminate.
  - destruct s as [[? ?]|]; discriminate.
  - destruct s as [[e1 c1]|]; destruct m as [m1|]; try discriminate.
    + apply andb_prop in H. destruct H as [_ H]. f_equal. apply IH. exact H.
    + f_equal. apply IH. exact H.
Qed.

Lemma set_nth_length : forall A (l : list A) i x, length (set_nth i x l) = length l.
Proof.
  induction l as [|a l IH]; intros i x.
  - rewrite set_nth_nil. reflexivity.
  - destruct i; [reflexivity|]. rewrite set_nth_S. simpl. f_equal. apply IH.
Qed.

Lemma nth_set_nth_same : forall A (l : list A) i x, i < length l -> nth_error (set_nth i x l) i = Some x.
Proof.
  induction l as [|a l IH]; intros i x H; simpl in H; [lia|].
  destruct i; [reflexivity|]. rewrite set_nth_S. simpl. apply IH. lia.
Qed.

Lemma set_nth_set_nth : forall A (l : list A) i x y, set_nth i x (set_nth i y l) = set_nth i x l.
Proof.
  induction l as [|a l IH]; intros i x y.
  - rewrite !set_nth_nil. reflexivity.
  - destruct i; [reflexivity|]. rewrite !set_nth_S. f_equal. apply IH.
Qed.

Lemma shape_slots_none_at : forall sl ll i, i < length sl ->
  shape_slots shape_ok (set_nth i None sl) ll = true -> set_nth i None ll = ll.
Proof.
  induction sl as [|s sl IH]; intros ll i Hi Hs; simpl in Hi; [lia|].
  destruct i.
  - rewrite set_nth_0 in Hs. destruct ll as [|[m|] ll]; simpl in Hs; try discriminate. reflexivity.
  - rewrite set_nth_S in Hs. destruct ll as [|m ll]; [destruct s as [[? ?]|]; discriminate|].
    rewrite set_nth_S. f_equal.
    destruct s as [[e1 c1]|]; destruct m as [m1|]; simpl in Hs; try discriminate.
    + apply andb_prop in Hs. destruct Hs as [_ Hs]. apply (IH ll i); [lia | exact Hs].
    + apply (IH ll i); [lia | exact Hs].
Qed.

End Ctx.
