(** Heap model: the refinement square of Tree.SortNeighborsByTips against Model/Reroot.v
    [sort_by_tips]. *)
From Coq Require Import String ZArith QArith Bool Arith Lia Permutation List.
From GT Require Import Base.UTree Model.Reroot Model.Heap Model.HeapEdit Model.HeapEdit2 Proofs.Enum Proofs.Reorder Proofs.HeapBase Proofs.HeapRep
     Proofs.HeapGood Proofs.HeapGoodRep Proofs.HeapRerootL Proofs.HeapReorder Proofs.HeapReroot Proofs.HeapUnrootL Proofs.HeapUnroot
     Proofs.HeapCtx Proofs.HeapGraft Proofs.HeapPermute Proofs.HeapRotateSq.
Import ListNotations.
Local Close Scope Q_scope.

(** * the stable sort *)
Fixpoint sins {A} (key : A -> nat) (x : A) (l : list A) : list A :=
  match l with
  | [] => [x]
  | y :: r => if Nat.leb (key x) (key y) then x :: l else y :: sins key x r
  end.

Lemma stable_sort_by_cons {A} (key : A -> nat) x l : stable_sort_by key (x :: l) = sins key x (stable_sort_by key l).
Proof.
  unfold stable_sort_by. cbn [fold_right]. generalize (fold_right (fun x acc => (fix ins (l : list A) : list A :=
    match l with [] => [x] | y :: r => if Nat.leb (key x) (key y) then x :: l else y :: ins r end) acc) [] l).
  induction l0 as [|y r IH]; [reflexivity|]. cbn [sins]. destruct (Nat.leb (key x) (key y)); [reflexivity|]. f_equal. exact IH.
Qed.

Lemma Forall2_sins {A B} (R : A -> B -> Prop) (key : A -> nat) (key' : B -> nat) x y :
  (forall u v, R u v -> key u = key' v) -> R x y ->
  forall a b, Forall2 R a b -> Forall2 R (sins key x a) (sins key' y b).
Proof.
  intros Hk Hxy. induction 1 as [|u v a b Huv F IH]; cbn [sins]; [constructor; [exact Hxy|constructor]|].
  rewrite (Hk _ _ Hxy), (Hk _ _ Huv). destruct (Nat.leb (key' y) (key' v)).
  - constructor; [exact Hxy|constructor; assumption].
  - constructor; assumption.
Qed.

Lemma Forall2_stable_sort {A B} (R : A -> B -> Prop) (key : A -> nat) (key' : B -> nat) :
  (forall u v, R u v -> key u = key' v) ->
  forall a b, Forall2 R a b -> Forall2 R (stable_sort_by key a) (stable_sort_by key' b).
Proof.
  intros Hk. induction 1 as [|u v a b Huv F IH]; [constructor|].
  rewrite !stable_sort_by_cons. apply Forall2_sins; assumption.
Qed.

Lemma sins_map {A B} (f : A -> B) (key : A -> nat) (key' : B -> nat) x : (forall u, key' (f u) = key u) ->
  forall l, sins key' (f x) (map f l) = map f (sins key x l).
Proof.
  intros Hk. induction l as [|y r IH]; [reflexivity|]. cbn [map sins]. rewrite !Hk.
  destruct (Nat.leb (key x) (key y)); [reflexivity|]. cbn [map]. f_equal. exact IH.
Qed.

Lemma stable_sort_by_map {A B} (f : A -> B) (key : A -> nat) (key' : B -> nat) : (forall u, key' (f u) = key u) ->
  forall l, stable_sort_by key' (map f l) = map f (stable_sort_by key l).
Proof.
  intros Hk. induction l as [|x l IH]; [reflexivity|]. cbn [map]. rewrite !stable_sort_by_cons, IH. apply sins_map. exact Hk.
Qed.

(** * the sort on labelled trees *)
Definition lsort_keyed (f : ltree -> ltree * nat) (s : lslot) : lslot * nat :=
  match s with
  | None => (None, 0)
  | Some (e, ei, ch) => let '(ch', k) := f ch in (Some (e, ei, ch'), k)
  end.

Fixpoint lsort (lt : ltree) : ltree * nat :=
  match lt with
  | LNode i n c sl =>
    let keyed := map (lsort_keyed (fun ch => lsort ch)) sl in
    (LNode i n c (map fst (stable_sort_by (fun p => snd p) keyed)),
     if Nat.eqb (length sl) 1 then 1 else fold_right (fun p acc => snd p + acc) 0 keyed)
  end.

Lemma lsort_eq i n c sl :
  lsort (LNode i n c sl) =
  let keyed := map (lsort_keyed lsort) sl in
  (LNode i n c (map fst (stable_sort_by (fun p => snd p) keyed)),
   if Nat.eqb (length sl) 1 then 1 else fold_right (fun p acc => snd p + acc) 0 keyed).
Proof. reflexivity. Qed.

Lemma lid_lsort lt : lid (fst (lsort lt)) = lid lt.
Proof. destruct lt as [i n c sl]. reflexivity. Qed.

Definition erase_keyed (p : lslot * nat) : slot * nat := (erase_slot (fst p), snd p).

Theorem erase_lsort : forall lt, erase (fst (lsort lt)) = fst (sort_neighbors (erase lt)) /\ snd (lsort lt) = snd (sort_neighbors (erase lt)).
Proof.
  induction lt as [i n c sl IH] using ltree_ind'. rewrite erase_eq, sort_neighbors_eq, lsort_eq. cbv zeta. cbn [fst snd].
  assert (K : map sort_keyed (map erase_slot sl) = map erase_keyed (map (lsort_keyed lsort) sl)).
  { rewrite !map_map. apply map_ext_in. intros s Hs. rewrite Forall_forall in IH. specialize (IH s Hs).
    destruct s as [[[e ei] ch]|]; [|reflexivity]. cbn [erase_slot sort_keyed lsort_keyed]. destruct IH as [E1 E2].
    destruct (lsort ch) as [ch' k]. destruct (sort_neighbors (erase ch)) as [uch' uk]. cbn [fst snd] in *. subst. reflexivity. }
  rewrite K, map_length. split.
  - rewrite erase_eq. f_equal.
    rewrite (stable_sort_by_map erase_keyed (fun p => snd p) (fun p => snd p)) by reflexivity.
    rewrite !map_map. apply map_ext. intros [s k]. reflexivity.
  - destruct (Nat.eqb (length sl) 1); [reflexivity|].
    generalize (map (lsort_keyed lsort) sl). induction l as [|p l IHl]; [reflexivity|]. cbn [map fold_right]. rewrite IHl. reflexivity.
Qed.

Theorem lsort_perm : forall lt, Permutation (lids (fst (lsort lt))) (lids lt) /\ Permutation (leids (fst (lsort lt))) (leids lt).
Proof.
  induction lt as [i n c sl IH] using ltree_ind'. rewrite lsort_eq. cbv zeta. cbn [fst]. rewrite !lids_eq, !leids_eq.
  assert (G : Permutation (sids (map fst (map (lsort_keyed lsort) sl))) (sids sl) /\
              Permutation (seids (map fst (map (lsort_keyed lsort) sl))) (seids sl)).
  { induction sl as [|s sl IHsl]; [split; constructor|].
    apply Forall_cons_iff in IH. destruct IH as [Hs IH]. destruct (IHsl IH) as [F1 F2]. cbn [map].
    destruct s as [[[e ei] ch]|]; cbn [lsort_keyed].
    - destruct Hs as [E1 E2]. destruct (lsort ch) as [ch' k]. cbn [fst] in *. cbn [sids seids flat_map].
      split; [apply Permutation_app; assumption|apply perm_skip; apply Permutation_app; assumption].
    - cbn [fst sids seids flat_map app]. split; assumption. }
  destruct G as [G1 G2].
  assert (P : Permutation (map fst (stable_sort_by (fun p : lslot * nat => snd p) (map (lsort_keyed lsort) sl))) (map fst (map (lsort_keyed lsort) sl))).
  { apply Permutation_map. symmetry. apply stable_sort_by_perm. }
  split.
  - apply perm_skip. etransitivity; [|exact G1]. apply Permutation_flat_map. exact P.
  - etransitivity; [|exact G2]. apply Permutation_flat_map. exact P.
Qed.
