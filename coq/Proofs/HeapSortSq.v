(** Heap model: the refinement square of Tree.SortNeighborsByTips against Model/Reroot.v
    [sort_by_tips]. *)
From Coq Require Import String ZArith QArith Bool Arith Lia Permutation List.
From GT Require Import Base.UTree Model.Reroot Model.Heap Model.HeapEdit Model.HeapEdit2 Proofs.Enum Proofs.Reorder Proofs.HeapBase Proofs.HeapRep
     Proofs.HeapGood Proofs.HeapGoodRep Proofs.HeapRerootL Proofs.HeapReorder Proofs.HeapReroot Proofs.HeapUnrootL Proofs.HeapUnroot
     Proofs.HeapCtx Proofs.HeapGraft Proofs.HeapPermute Proofs.HeapRotateSq.
Import ListNotations.
Local Close Scope Q_scope.

(** * the stable sort *)
Fixpoint sins {A} (key : A -> nat) (x : A) (l : list A) : list A :=
  match l with
  | [] => [x]
  | y :: r => if Nat.leb (key x) (key y) then x :: l else y :: sins key x r
  end.

Lemma stable_sort_by_cons {A} (key : A -> nat) x l : stable_sort_by key (x :: l) = sins key x (stable_sort_by key l).
Proof.
  unfold stable_sort_by. cbn [fold_right]. generalize (fold_right (fun x acc => (fix ins (l : list A) : list A :=
    match l with [] => [x] | y :: r => if Nat.leb (key x) (key y) then x :: l else y :: ins r end) acc) [] l).
  induction l0 as [|y r IH]; [reflexivity|]. cbn [sins]. destruct (Nat.leb (key x) (key y)); [reflexivity|]. f_equal. exact IH.
Qed.

Lemma Forall2_sins {A B} (R : A -> B -> Prop) (key : A -> nat) (key' : B -> nat) x y :
  (forall u v, R u v -> key u = key' v) -> R x y ->
  forall a b, Forall2 R a b -> Forall2 R (sins key x a) (sins key' y b).
Proof.
  intros Hk Hxy. induction 1 as [|u v a b Huv F IH]; cbn [sins]; [constructor; [exact Hxy|constructor]|].
  rewrite (Hk _ _ Hxy), (Hk _ _ Huv). destruct (Nat.leb (key' y) (key' v)).
  - constructor; [exact Hxy|constructor; assumption].
  - constructor; assumption.
Qed.

Lemma Forall2_stable_sort {A B} (R : A -> B -> Prop) (key : A -> nat) (key' : B -> nat) :
  (forall u v, R u v -> key u = key' v) ->
  forall a b, Forall2 R a b -> Forall2 R (stable_sort_by key a) (stable_sort_by key' b).
Proof.
  intros Hk. induction 1 as [|u v a b Huv F IH]; [constructor|].
  rewrite !stable_sort_by_cons. apply Forall2_sins; assumption.
Qed.

Lemma sins_map {A B} (f : A -> B) (key : A -> nat) (key' : B -> nat) x : (forall u, key' (f u) = key u) ->
  forall l, sins key' (f x) (map f l) = map f (sins key x l).
Proof.
  intros Hk. induction l as [|y r IH]; [reflexivity|]. cbn [map sins]. rewrite !Hk.
  destruct (Nat.leb (key x) (key y)); [reflexivity|]. cbn [map]. f_equal. exact IH.
Qed.

Lemma stable_sort_by_map {A B} (f : A -> B) (key : A -> nat) (key' : B -> nat) : (forall u, key' (f u) = key u) ->
  forall l, stable_sort_by key' (map f l) = map f (stable_sort_by key l).
Proof.
  intros Hk. induction l as [|x l IH]; [reflexivity|]. cbn [map]. rewrite !stable_sort_by_cons, IH. apply sins_map. exact Hk.
Qed.

(** * the sort on labelled trees *)
Definition lsort_keyed (f : ltree -> ltree * nat) (s : lslot) : lslot * nat :=
  match s with
  | None => (None, 0)
  | Some (e, ei, ch) => let '(ch', k) := f ch in (Some (e, ei, ch'), k)
  end.

Fixpoint lsort (lt : ltree) : ltree * nat :=
  match lt with
  | LNode i n c sl =>
    let keyed := map (lsort_keyed (fun ch => lsort ch)) sl in
    (LNode i n c (map fst (stable_sort_by (fun p => snd p) keyed)),
     if Nat.eqb (length sl) 1 then 1 else fold_right (fun p acc => snd p + acc) 0 keyed)
  end.

Lemma lsort_eq i n c sl :
  lsort (LNode i n c sl) =
  let keyed := map (lsort_keyed lsort) sl in
  (LNode i n c (map fst (stable_sort_by (fun p => snd p) keyed)),
   if Nat.eqb (length sl) 1 then 1 else fold_right (fun p acc => snd p + acc) 0 keyed).
Proof. reflexivity. Qed.

Lemma lid_lsort lt : lid (fst (lsort lt)) = lid lt.
Proof. destruct lt as [i n c sl]. reflexivity. Qed.

Definition erase_keyed (p : lslot * nat) : slot * nat := (erase_slot (fst p), snd p).

Theorem erase_lsort : forall lt, erase (fst (lsort lt)) = fst (sort_neighbors (erase lt)) /\ snd (lsort lt) = snd (sort_neighbors (erase lt)).
Proof.
  induction lt as [i n c sl IH] using ltree_ind'. rewrite erase_eq, sort_neighbors_eq, lsort_eq. cbv zeta. cbn [fst snd].
  assert (K : map sort_keyed (map erase_slot sl) = map erase_keyed (map (lsort_keyed lsort) sl)).
  { rewrite !map_map. apply map_ext_in. intros s Hs. rewrite Forall_forall in IH. specialize (IH s Hs).
    destruct s as [[[e ei] ch]|]; [|reflexivity]. cbn [erase_slot sort_keyed lsort_keyed]. destruct IH as [E1 E2].
    destruct (lsort ch) as [ch' k]. destruct (sort_neighbors (erase ch)) as [uch' uk]. cbn [fst snd] in *. subst. reflexivity. }
  rewrite K, map_length. split.
  - rewrite erase_eq. f_equal.
    rewrite (stable_sort_by_map erase_keyed (fun p => snd p) (fun p => snd p)) by reflexivity.
    rewrite !map_map. apply map_ext. intros [s k]. reflexivity.
  - destruct (Nat.eqb (length sl) 1); [reflexivity|].
    generalize (map (lsort_keyed lsort) sl). induction l as [|p l IHl]; [reflexivity|]. cbn [map fold_right]. rewrite IHl. reflexivity.
Qed.

Theorem lsort_perm : forall lt, Permutation (lids (fst (lsort lt))) (lids lt) /\ Permutation (leids (fst (lsort lt))) (leids lt).
Proof.
  induction lt as [i n c sl IH] using ltree_ind'. rewrite lsort_eq. cbv zeta. cbn [fst]. rewrite !lids_eq, !leids_eq.
  assert (G : Permutation (sids (map fst (map (lsort_keyed lsort) sl))) (sids sl) /\
              Permutation (seids (map fst (map (lsort_keyed lsort) sl))) (seids sl)).
  { induction sl as [|s sl IHsl]; [split; constructor|].
    apply Forall_cons_iff in IH. destruct IH as [Hs IH]. destruct (IHsl IH) as [F1 F2]. cbn [map].
    destruct s as [[[e ei] ch]|]; cbn [lsort_keyed].
    - destruct Hs as [E1 E2]. destruct (lsort ch) as [ch' k]. cbn [fst] in *. cbn [sids seids flat_map].
      split; [apply Permutation_app; assumption|apply perm_skip; apply Permutation_app; assumption].
    - cbn [fst sids seids flat_map app]. split; assumption. }
  destruct G as [G1 G2].
  assert (P : Permutation (map fst (stable_sort_by (fun p : lslot * nat => snd p) (map (lsort_keyed lsort) sl))) (map fst (map (lsort_keyed lsort) sl))).
  { apply Permutation_map. symmetry. apply stable_sort_by_perm. }
  split.
  - apply perm_skip. etransitivity; [|exact G1]. apply Permutation_flat_map. exact P.
  - etransitivity; [|exact G2]. apply Permutation_flat_map. exact P.
Qed.

(** * the recursion on the heap *)
Definition sort_spec (lt : ltree) : Prop := forall fuel prev h,
  shape true h prev lt -> NoDup (lids lt) -> (forall p pe, prev = Some (p, pe) -> ~ In p (lids lt)) -> lheight lt <= fuel ->
  exists h', sort_neighbors_heap fuel (lid lt) (option_map fst prev) h = HOk (h', snd (lsort lt)) /\ same_but_nodes h h' /\
    (forall y, ~ In y (lids lt) -> alookup y (hnodes h') = alookup y (hnodes h)) /\
    (forall y, alookup y (hnodes h') <> None <-> alookup y (hnodes h) <> None) /\
    shape true h' prev (fst (lsort lt)).

Lemma sort_neighbors_heap_S f cur prev h :
  sort_neighbors_heap (S f) cur prev h =
  do hn <- get_node h cur;
  if Nat.ltb (length (hbr hn)) (length (hneigh hn)) then HPanic
  else
    do p <- sort_loop (fun c h => sort_neighbors_heap f c (Some cur) h) prev (hneigh hn) h;
    let sorted := stable_sort_by (fun x : nat * (nat * nat) => fst x) (combine (snd p) (combine (hneigh hn) (hbr hn))) in
    do hc <- get_node (fst p) cur;
    HOk (set_node (fst p) cur (mkHN (hname hc) (hcom hc) (map (fun x => fst (snd x)) sorted) (map (fun x => snd (snd x)) sorted)),
         if Nat.eqb (length (hneigh hn)) 1 then 1 else fold_right Nat.add 0 (snd p)).
Proof. reflexivity. Qed.

Lemma sort_loop_ok f i prev : forall slr l h,
  Forall2 (slot_ok true h prev i) l slr ->
  (forall e ei ch, In (Some (e, ei, ch)) slr -> sort_spec ch /\ lheight ch <= f /\ ~ In i (lids ch)) ->
  NoDup (sids slr) -> (forall p pe, prev = Some (p, pe) -> ~ In p (sids slr)) ->
  exists h', sort_loop (fun c h => sort_neighbors_heap f c (Some i) h) (option_map fst prev) (map fst l) h
             = HOk (h', map snd (map (lsort_keyed lsort) slr)) /\ same_but_nodes h h' /\
     (forall y, ~ In y (sids slr) -> alookup y (hnodes h') = alookup y (hnodes h)) /\
     (forall y, alookup y (hnodes h') <> None <-> alookup y (hnodes h) <> None) /\
     Forall2 (slot_ok true h' prev i) l (map fst (map (lsort_keyed lsort) slr)).
Proof.
  induction slr as [|s slr IH]; intros l h F Hk Nd Hp.
  - inversion F. subst. exists h. cbn [map sort_loop]. split; [reflexivity|]. split; [repeat split|]. split; [reflexivity|]. split; [reflexivity|constructor].
  - apply Forall2_cons_inv_r in F. destruct F as (ce & l' & -> & Hs & F). cbn [map sort_loop].
    destruct s as [[[e ei] ch]|].
    + cbn [slot_ok] in Hs. destruct Hs as (B1 & B2 & B3 & B4 & B5).
      cbn [sids flat_map] in Nd, Hp. fold (sids slr) in Nd, Hp. apply NoDup_app_iff in Nd. destruct Nd as (N1 & N2 & N3).
      assert (opt_nat_eqb (Some (fst ce)) (option_map fst prev) = false) as ->.
      { destruct prev as [[p pe]|]; [|reflexivity]. cbn. apply Nat.eqb_neq. intros E.
        apply (Hp p pe eq_refl). apply in_or_app. left. rewrite <- E, <- B3. apply lid_in_lids. }
      destruct (Hk e ei ch (or_introl eq_refl)) as (Sp & Hh & Hi).
      destruct (Sp f (Some (i, snd ce)) h B5 N1) as (h1 & E1 & (S1 & S2 & S3 & S4) & Fr1 & Dm1 & Sh1).
      { intros p pe [= <- <-]. exact Hi. } { exact Hh. }
      cbn [option_map fst] in E1. rewrite B3 in E1. rewrite E1. cbn [hbind fst snd].
      assert (F1 : Forall2 (slot_ok true h1 prev i) l' slr).
      { eapply (slots_frame true h h1); [exact S1| |exact F]. intros y Hy. apply Fr1. intros Hy'. exact (N3 y Hy' Hy). }
      destruct (IH l' h1 F1 (fun e0 ei0 ch0 H0 => Hk e0 ei0 ch0 (or_intror H0)) N2) as (h2 & E2 & (T1 & T2 & T3 & T4) & Fr2 & Dm2 & F2).
      { intros p pe E Hy. apply (Hp p pe E). apply in_or_app. right. exact Hy. }
      rewrite E2. cbn [hbind fst snd lsort_keyed].
      destruct (lsort ch) as [ch' k] eqn:Ech. cbn [fst snd] in *.
      exists h2. split; [reflexivity|]. split; [repeat split; congruence|]. split; [|split].
      * intros y Hy. cbn [sids flat_map] in Hy. rewrite Fr2, Fr1; [reflexivity| |]; intros Hy'; apply Hy; apply in_or_app; [left|right]; exact Hy'.
      * intros y. rewrite Dm2. apply Dm1.
      * constructor; [|exact F2]. cbn [slot_ok].
        pose proof (lid_lsort ch) as El. rewrite Ech in El. cbn [fst] in El.
        repeat split; try assumption; [congruence| |].
        -- eapply edge_ok_eq; [|eapply edge_ok_eq; [|exact B4]]; [rewrite T1|rewrite S1]; reflexivity.
        -- eapply shape_frame; [| |exact Sh1].
           ++ intros y Hy. apply Fr2. intros Hy'. apply (N3 y); [|exact Hy'].
              destruct (lsort_perm ch) as [P _]. rewrite Ech in P. cbn [fst] in P. eapply Permutation_in; [exact P|exact Hy].
           ++ intros y _. rewrite T1. reflexivity.
    + cbn [slot_ok] in Hs. cbn [sids flat_map app] in Nd, Hp. fold (sids slr) in Nd, Hp.
      assert (opt_nat_eqb (Some (fst ce)) (option_map fst prev) = true) as ->.
      { rewrite Hs. cbn. apply Nat.eqb_refl. }
      destruct (IH l' h F (fun e0 ei0 ch0 H0 => Hk e0 ei0 ch0 (or_intror H0)) Nd Hp) as (h2 & E2 & T & Fr2 & Dm2 & F2).
      rewrite E2. cbn [hbind fst snd lsort_keyed].
      exists h2. split; [reflexivity|]. split; [exact T|]. split; [exact Fr2|]. split; [exact Dm2|].
      constructor; [exact Hs|exact F2].
Qed.

Lemma combine_map_snd {A B C} (l : list (A * (B * C))) :
  combine (map (fun x => fst (snd x)) l) (map (fun x => snd (snd x)) l) = map snd l.
Proof. induction l as [|[a [b c]] l IH]; [reflexivity|]. cbn. f_equal. exact IH. Qed.

Lemma fold_add_map {A} (g : A -> nat) l : fold_right Nat.add 0 (map g l) = fold_right (fun p acc => g p + acc) 0 l.
Proof. induction l as [|x l IH]; [reflexivity|]. cbn. rewrite IH. reflexivity. Qed.

Lemma Forall2_keyed {A B} (P : A -> B -> Prop) : forall (ces : list A) (keyed : list (B * nat)),
  Forall2 P ces (map fst keyed) ->
  Forall2 (fun (x : nat * A) (y : B * nat) => fst x = snd y /\ P (snd x) (fst y)) (combine (map snd keyed) ces) keyed.
Proof.
  intros ces keyed. revert ces. induction keyed as [|[s k] keyed IH]; intros ces F; inversion F; subst; [constructor|].
  cbn [map combine snd]. constructor; [split; [reflexivity|assumption]|apply IH; assumption].
Qed.

Lemma Forall2_unkeyed {A B} (P : A -> B -> Prop) (a : list (nat * A)) (b : list (B * nat)) :
  Forall2 (fun x y => fst x = snd y /\ P (snd x) (fst y)) a b -> Forall2 P (map snd a) (map fst b).
Proof. induction 1 as [|x y a b [_ H] F IH]; [constructor|]. cbn [map]. constructor; assumption. Qed.

Theorem sort_spec_all : forall lt, sort_spec lt.
Proof.
  induction lt as [i n c sl IH] using ltree_ind'. intros fuel prev h Sh Nd Hp Hf.
  destruct fuel as [|f]; [cbn in Hf; lia|]. cbn [lid]. rewrite sort_neighbors_heap_S.
  apply shape_unfold in Sh. destruct Sh as [hn (A1 & A2 & A3 & A4 & A5)].
  pose proof (Forall2_length' _ _ _ A5) as L5. rewrite combine_length, <- A4, Nat.min_id in L5.
  rewrite lids_eq in Nd, Hp |- *. fold (sids sl) in Nd, Hp |- *. apply NoDup_cons_iff in Nd. destruct Nd as [Ni Nd].
  unfold get_node at 1. rewrite A1. cbn [hbind].
  destruct (Nat.ltb_spec (length (hbr hn)) (length (hneigh hn))) as [Hlt|_]; [lia|].
  rewrite Forall_forall in IH.
  destruct (sort_loop_ok f i prev sl (combine (hneigh hn) (hbr hn)) h A5) as (h1 & E & (S1 & S2 & S3 & S4) & Fr & Dm & F').
  { intros e ei ch Hs. split; [exact (IH _ Hs)|]. split; [pose proof (lheight_child i n c sl _ _ _ Hs); lia|].
    intros Hi. apply Ni. eapply in_sids; eassumption. }
  { exact Nd. }
  { intros p pe E Hy. apply (Hp p pe E). right. exact Hy. }
  change (map fst (combine (hneigh hn) (hbr hn))) with (map fst (slots_of hn)) in E. rewrite (slots_of_fst hn A4) in E.
  rewrite E. cbn [hbind fst snd].
  assert (Hi1 : alookup i (hnodes h1) = Some hn) by (rewrite (Fr i Ni); exact A1).
  unfold get_node. rewrite Hi1. cbn [hbind]. rewrite lsort_eq. cbv zeta. cbn [fst snd].
  set (keyed := map (lsort_keyed lsort) sl) in *.
  set (sorted := stable_sort_by (fun x : nat * (nat * nat) => fst x) (combine (map snd keyed) (combine (hneigh hn) (hbr hn)))).
  set (hn' := mkHN (hname hn) (hcom hn) (map (fun x => fst (snd x)) sorted) (map (fun x => snd (snd x)) sorted)).
  set (h2 := set_node h1 i hn').
  assert (Hi2 : forall y, y <> i -> alookup y (hnodes h2) = alookup y (hnodes h1)).
  { intros y Hy. unfold h2. cbn [set_node hnodes]. apply alookup_aupd_ne. exact Hy. }
  exists h2. split.
  { f_equal. f_equal. rewrite L5. destruct (Nat.eqb (length sl) 1); [reflexivity|]. apply fold_add_map. }
  split; [repeat split; assumption|]. split; [|split].
  - intros y Hy. rewrite Hi2 by (intros ->; apply Hy; left; reflexivity). apply Fr. intros Hy'. apply Hy. right. exact Hy'.
  - intros y. unfold h2. cbn [set_node hnodes]. rewrite alookup_aupd.
    destruct (Nat.eqb_spec y i) as [->|_]; [|apply Dm]. rewrite A1. split; discriminate.
  - apply shape_unfold. exists hn'. split; [|split; [exact A2|split; [exact A3|split]]].
    + unfold h2. cbn [set_node hnodes]. rewrite alookup_aupd, Nat.eqb_refl. reflexivity.
    + unfold hn'. cbn [hneigh hbr]. rewrite !map_length. reflexivity.
    + unfold hn'. cbn [hneigh hbr]. rewrite combine_map_snd.
      assert (F2 : Forall2 (slot_ok true h2 prev i) (combine (hneigh hn) (hbr hn)) (map fst keyed)).
      { apply (slots_frame true h1 h2 prev i _ _ eq_refl); [|exact F']. intros y Hy. apply Hi2. intros ->.
        apply Ni. destruct (lsort_perm (LNode i n c sl)) as [_ _].
        assert (Pm : Permutation (sids (map fst keyed)) (sids sl)).
        { clear - sl. unfold keyed. induction sl as [|s sl IHsl]; [constructor|]. cbn [map]. destruct s as [[[e ei] ch]|]; cbn [lsort_keyed].
          - destruct (lsort_perm ch) as [P _]. destruct (lsort ch) as [ch' k]. cbn [fst] in *. cbn [sids flat_map]. apply Permutation_app; assumption.
          - exact IHsl. }
        eapply Permutation_in; [exact Pm|exact Hy]. }
      apply Forall2_keyed in F2. unfold sorted.
      apply (Forall2_unkeyed (slot_ok true h2 prev i)).
      apply (Forall2_stable_sort _ (fun x : nat * (nat * nat) => fst x) (fun p : lslot * nat => snd p)); [|exact F2].
      intros u v [Huv _]. exact Huv.
Qed.

(** * the square *)
Theorem sort_neighbors_Rep h lt : Rep h lt ->
  exists h', sort_neighbors_by_tips_heap h = HOk h' /\ Rep h' (fst (lsort lt)).
Proof.
  intros R. unfold sort_neighbors_by_tips_heap. rewrite (rep_root _ _ R).
  destruct (sort_spec_all lt (hfuel h) None h (rep_shape _ _ R) (rep_nd _ _ R)) as (h' & E & (S1 & S2 & S3 & S4) & Fr & Dm & Sh).
  { intros p pe [=]. } { unfold hfuel. pose proof (Rep_fuel _ _ R). lia. }
  cbn [option_map] in E. rewrite E. cbn [hbind fst]. exists h'. split; [reflexivity|].
  destruct (lsort_perm lt) as [P1 P2]. destruct (erase_lsort lt) as [Ee _].
  constructor.
  - rewrite S2, lid_lsort. exact (rep_root _ _ R).
  - exact Sh.
  - unfold lwf. rewrite Ee. eapply tperm_wf; [apply sort_neighbors_tperm|exact (rep_wf _ _ R)].
  - eapply Permutation_NoDup; [symmetry; exact P1|exact (rep_nd _ _ R)].
  - eapply Permutation_NoDup; [symmetry; exact P2|exact (rep_ned _ _ R)].
  - intros y. rewrite Dm, <- (rep_nodes _ _ R y). split; intros Hy; (eapply Permutation_in; [|exact Hy]); [exact P1|symmetry; exact P1].
  - intros y. rewrite S1, <- (rep_edges _ _ R y). split; intros Hy; (eapply Permutation_in; [|exact Hy]); [exact P2|symmetry; exact P2].
  - intros y Hy. rewrite S3. apply (rep_fn _ _ R). eapply Permutation_in; [exact P1|exact Hy].
  - intros y Hy. rewrite S4. apply (rep_fe _ _ R). eapply Permutation_in; [exact P2|exact Hy].
Qed.

Theorem sort_neighbors_square h t : Good h -> abs h = Some t ->
  exists h', sort_neighbors_by_tips_heap h = HOk h' /\ Good h' /\ abs h' = Some (sort_by_tips t).
Proof.
  intros G Ha. destruct (Good_abs_Rep h t G Ha) as (lt & R & <-).
  destruct (sort_neighbors_Rep h lt R) as (h' & E & R').
  exists h'. split; [exact E|]. split; [exact (Rep_Good _ _ R')|]. rewrite (Rep_abs _ _ R'). f_equal.
  exact (proj1 (erase_lsort lt)).
Qed.
