(** Nexus scanner on words: a non-empty run of identifier bytes followed by a delimiter is
    one token with that literal; decimal numbers written by [itoa] are read back by
    [parse_int]. *)
From Coq Require Import String Ascii ZArith Bool Arith Lia List.
From GT Require Import Base.Sexp Base.UTree Model.Nexus Proofs.NexusLex.
Import ListNotations.
Local Open Scope string_scope.

Fixpoint all_chars (p : ascii -> bool) (s : string) : bool :=
  match s with EmptyString => true | String c r => p c && all_chars p r end.

(** an identifier byte that is not the scanner's EOF marker *)
Definition wchar (c : ascii) : bool := is_ident c && negb (is_nul c).
Definition word (s : string) : bool := negb (String.eqb s "") && all_chars wchar s.
(** the scanner stops in front of [s]: end of input or a byte that is neither an identifier
    byte nor NUL *)
Definition delim (s : string) : bool :=
  match s with EmptyString => true | String c _ => negb (is_ident c) && negb (is_nul c) end.

Lemma app_assoc_s : forall a b c : string, (a ++ b) ++ c = a ++ (b ++ c).
Proof. induction a; simpl; intros; congruence. Qed.

Lemma app_nil_r_s : forall a : string, a ++ "" = a.
Proof. induction a; simpl; congruence. Qed.

Lemma span0_word : forall w rest, all_chars wchar w = true -> delim rest = true ->
    span0 is_ident (w ++ rest) = (w, rest).
Proof.
  induction w as [|c w IH]; simpl; intros rest Hw Hd.
  - destruct rest as [|d r]; simpl in *; [reflexivity|].
    apply andb_true_iff in Hd. destruct Hd as [H1 H2].
    apply negb_true_iff in H1. apply negb_true_iff in H2. rewrite H1, H2. reflexivity.
  - apply andb_true_iff in Hw. destruct Hw as [Hc Hw]. unfold wchar in Hc.
    apply andb_true_iff in Hc. destruct Hc as [Hi Hn]. apply negb_true_iff in Hn.
    rewrite Hn, Hi. rewrite (IH rest Hw Hd). reflexivity.
Qed.

Lemma is_ident_inv : forall c, is_ident c = true ->
    is_ws c = false /\ is_nl c = false /\ is_cr c = false /\
    Ascii.eqb c "[" = false /\ Ascii.eqb c "]" = false /\ Ascii.eqb c ";" = false /\
    Ascii.eqb c "=" = false /\ Ascii.eqb c "," = false.
Proof.
  intros c H. unfold is_ident in H. apply negb_true_iff in H.
  repeat (apply orb_false_iff in H; destruct H as [H ?]). repeat split; assumption.
Qed.

(** Scan on a word followed by a delimiter *)
Lemma scan_word : forall w rest, word w = true -> delim rest = true ->
    scan (w ++ rest) = (classify w, w, rest).
Proof.
  intros w rest Hw Hd. unfold word in Hw. apply andb_true_iff in Hw. destruct Hw as [Hne Hw].
  destruct w as [|c w]; [discriminate Hne|]. simpl in Hw. apply andb_true_iff in Hw. destruct Hw as [Hc Hw].
  unfold wchar in Hc. apply andb_true_iff in Hc. destruct Hc as [Hi Hn]. apply negb_true_iff in Hn.
  destruct (is_ident_inv c Hi) as (A1 & A2 & A3 & A4 & A5 & A6 & A7 & A8).
  simpl. rewrite A1, A2, A3, Hn, A4, A5, A6, A7, A8.
  unfold scan_ident. rewrite (span0_word w rest Hw Hd). reflexivity.
Qed.

(** blanks *)
Definition blanks (s : string) : bool := negb (String.eqb s "") && all_chars (fun c => Ascii.eqb c " ") s.

Lemma span0_blanks : forall b rest, all_chars (fun c => Ascii.eqb c " ") b = true ->
    (match rest with EmptyString => true | String c _ => negb (is_ws c) && negb (is_nul c) end) = true ->
    span0 is_ws (b ++ rest) = (b, rest).
Proof.
  induction b as [|c b IH]; simpl; intros rest Hb Hr.
  - destruct rest as [|d r]; [reflexivity|]. simpl.
    apply andb_true_iff in Hr. destruct Hr as [H1 H2].
    apply negb_true_iff in H1. apply negb_true_iff in H2. rewrite H1, H2. reflexivity.
  - apply andb_true_iff in Hb. destruct Hb as [Hc Hb]. apply Ascii.eqb_eq in Hc. subst c.
    simpl. rewrite (IH rest Hb Hr). reflexivity.
Qed.

(** scanIgnoreWhitespace on blanks + word + delimiter *)
Lemma scan_iw_blanks_word : forall b w rest, blanks b = true -> word w = true -> delim rest = true ->
    scan_iw (b ++ w ++ rest) = (classify w, w, rest).
Proof.
  intros b w rest Hb Hw Hd. unfold blanks in Hb. apply andb_true_iff in Hb. destruct Hb as [Hne Hb].
  destruct b as [|c b]; [discriminate Hne|]. simpl in Hb. apply andb_true_iff in Hb. destruct Hb as [Hc Hb].
  apply Ascii.eqb_eq in Hc. subst c.
  unfold scan_iw. simpl.
  assert (R : (match w ++ rest with EmptyString => true | String c _ => negb (is_ws c) && negb (is_nul c) end) = true).
  { pose proof Hw as Hw'. unfold word in Hw'. apply andb_true_iff in Hw'. destruct Hw' as [Hn Hw'].
    destruct w as [|c w]; [discriminate Hn|]. simpl in *. apply andb_true_iff in Hw'. destruct Hw' as [Hc _].
    unfold wchar in Hc. apply andb_true_iff in Hc. destruct Hc as [Hi Hz].
    destruct (is_ident_inv c Hi) as (A1 & _). rewrite A1, Hz. reflexivity. }
  rewrite (span0_blanks b (w ++ rest) Hb R). simpl.
  apply scan_word; assumption.
Qed.

Lemma scan_iw_word : forall w rest, word w = true -> delim rest = true ->
    tok_eqb (classify w) WS = false ->
    scan_iw (w ++ rest) = (classify w, w, rest).
Proof.
  intros w rest Hw Hd Hc. unfold scan_iw. rewrite (scan_word w rest Hw Hd). rewrite Hc. reflexivity.
Qed.

Lemma classify_not_ws : forall w, tok_eqb (classify w) WS = false.
Proof.
  intros w. unfold classify. destruct (parse_int w); [reflexivity|].
  unfold keyword.
  repeat match goal with |- context [if ?b then _ else _] => destruct b; try reflexivity end.
Qed.

(** * decimal numbers *)
Definition is_digit (c : ascii) : bool := match digit_val c with Some _ => true | None => false end.

Lemma digit_char : forall d, (0 <= d < 10)%Z ->
    digit_val (ascii_of_nat (Z.to_nat (48 + d))) = Some d.
Proof.
  intros d H.
  assert (C : (d = 0 \/ d = 1 \/ d = 2 \/ d = 3 \/ d = 4 \/ d = 5 \/ d = 6 \/ d = 7 \/ d = 8 \/ d = 9)%Z) by lia.
  repeat (destruct C as [C|C]; [subst d; reflexivity|]). subst d. reflexivity.
Qed.

Lemma pos_digits_val : forall fuel z acc,
    (0 <= z)%Z -> (Z.log2 z < Z.of_nat fuel)%Z ->
    exists k, forall a, digits_val (pos_digits fuel z acc) a = digits_val acc (a * 10 ^ Z.of_nat k + z)%Z.
Proof.
  induction fuel as [|f IH]; intros z acc Hz Hl.
  - pose proof (Z.log2_nonneg z). lia.
  - cbn [pos_digits]. cbv zeta.
    assert (Hm : (0 <= z mod 10 < 10)%Z) by (apply Z.mod_pos_bound; lia).
    destruct (z / 10 =? 0)%Z eqn:E.
    + apply Z.eqb_eq in E. exists 1. intros a. cbn [digits_val]. rewrite (digit_char _ Hm).
      f_equal. rewrite (Z.div_mod z 10) at 2 by lia. rewrite E. simpl Z.of_nat. lia.
    + apply Z.eqb_neq in E.
      assert (Hq : (0 <= z / 10)%Z) by (apply Z.div_pos; lia).
      assert (Hz10 : (10 <= z)%Z).
      { destruct (Z_lt_le_dec z 10); [|assumption]. rewrite Z.div_small in E by lia. lia. }
      assert (Hlog : (Z.log2 (z / 10) < Z.of_nat f)%Z).
      { assert (z / 10 <= z / 2)%Z by (apply Z.div_le_compat_l; lia).
        assert (Z.log2 (z / 10) <= Z.log2 (z / 2))%Z by (apply Z.log2_le_mono; assumption).
        assert (Z.log2 (z / 2) = Z.log2 z - 1)%Z.
        { assert (3 <= Z.log2 z)%Z by (apply Z.log2_le_pow2; simpl; lia).
          rewrite <- Z.div2_div. rewrite Z.div2_spec. rewrite Z.log2_shiftr by lia. lia. }
        lia. }
      destruct (IH (z / 10)%Z (String (ascii_of_nat (Z.to_nat (48 + z mod 10))) acc) Hq Hlog) as [k Hk].
      exists (S k). intros a. rewrite Hk. cbn [digits_val]. rewrite (digit_char _ Hm).
      f_equal. rewrite Nat2Z.inj_succ. rewrite Z.pow_succ_r by lia.
      rewrite (Z.div_mod z 10) at 3 by lia. lia.
Qed.

Lemma pos_digits_digits : forall fuel z acc,
    (0 <= z)%Z -> all_chars is_digit acc = true -> all_chars is_digit (pos_digits fuel z acc) = true.
Proof.
  induction fuel as [|f IH]; intros z acc Hz Ha; [exact Ha|].
  cbn [pos_digits]. cbv zeta.
  assert (Hm : (0 <= z mod 10 < 10)%Z) by (apply Z.mod_pos_bound; lia).
  assert (D : all_chars is_digit (String (ascii_of_nat (Z.to_nat (48 + z mod 10))) acc) = true).
  { cbn [all_chars]. apply andb_true_iff. split; [unfold is_digit; rewrite (digit_char _ Hm); reflexivity|exact Ha]. }
  destruct (z / 10 =? 0)%Z; [exact D|]. apply IH; [apply Z.div_pos; lia|exact D].
Qed.

Lemma pos_digits_nonempty : forall fuel z acc, pos_digits (S fuel) z acc <> "".
Proof.
  intros fuel z acc. revert z acc. induction fuel as [|f IH]; intros z acc.
  - cbn [pos_digits]. cbv zeta. destruct (z / 10 =? 0)%Z; discriminate.
  - cbn [pos_digits] in *. cbv zeta in *. destruct (z / 10 =? 0)%Z; [discriminate|]. apply IH.
Qed.

Definition itoa_z (n : nat) : Z := Z.of_nat n.

Lemma itoa_digits : forall n, all_chars is_digit (itoa n) = true.
Proof.
  intros n. unfold itoa, string_of_nat, string_of_Z.
  destruct (Z.of_nat n <? 0)%Z eqn:E; [apply Z.ltb_lt in E; lia|].
  apply pos_digits_digits; [lia|reflexivity].
Qed.

Lemma itoa_nonempty : forall n, itoa n <> "".
Proof.
  intros n. unfold itoa, string_of_nat, string_of_Z.
  destruct (Z.of_nat n <? 0)%Z eqn:E; [discriminate|]. apply pos_digits_nonempty.
Qed.

Lemma itoa_val : forall n, digits_val (itoa n) 0%Z = Some (Z.of_nat n).
Proof.
  intros n. unfold itoa, string_of_nat, string_of_Z.
  destruct (Z.of_nat n <? 0)%Z eqn:E; [apply Z.ltb_lt in E; lia|].
  destruct (pos_digits_val (S (Z.to_nat (Z.log2 (Z.of_nat n)))) (Z.of_nat n) "") as [k Hk]; [lia| |].
  - pose proof (Z.log2_nonneg (Z.of_nat n)). lia.
  - rewrite Hk. simpl. reflexivity.
Qed.

Lemma digit_is_wchar : forall c, is_digit c = true -> wchar c = true.
Proof.
  intros c H. unfold is_digit, digit_val in H.
  destruct ((48 <=? Z.of_nat (nat_of_ascii c))%Z && (Z.of_nat (nat_of_ascii c) <=? 57)%Z) eqn:E; [|discriminate].
  apply andb_true_iff in E. destruct E as [E1 E2]. apply Z.leb_le in E1. apply Z.leb_le in E2.
  assert (R : c = ascii_of_nat (nat_of_ascii c)) by (symmetry; apply ascii_nat_embedding).
  assert (C : nat_of_ascii c = 48 \/ nat_of_ascii c = 49 \/ nat_of_ascii c = 50 \/ nat_of_ascii c = 51 \/
              nat_of_ascii c = 52 \/ nat_of_ascii c = 53 \/ nat_of_ascii c = 54 \/ nat_of_ascii c = 55 \/
              nat_of_ascii c = 56 \/ nat_of_ascii c = 57) by lia.
  repeat (destruct C as [C|C]; [rewrite C in R; subst c; reflexivity|]). rewrite C in R. subst c. reflexivity.
Qed.

Lemma all_chars_impl : forall (p q : ascii -> bool) s, (forall c, p c = true -> q c = true) ->
    all_chars p s = true -> all_chars q s = true.
Proof.
  induction s as [|c s IH]; simpl; intros Hpq H; [reflexivity|].
  apply andb_true_iff in H. destruct H as [H1 H2]. rewrite (Hpq c H1), (IH Hpq H2). reflexivity.
Qed.

Lemma all_chars_app : forall p a b, all_chars p (a ++ b) = all_chars p a && all_chars p b.
Proof. induction a as [|c a IH]; simpl; intros b; [reflexivity|]. rewrite IH. apply andb_assoc. Qed.

Lemma itoa_word : forall n, word (itoa n) = true.
Proof.
  intros n. unfold word. apply andb_true_iff. split.
  - apply negb_true_iff. apply String.eqb_neq. apply itoa_nonempty.
  - eapply all_chars_impl; [apply digit_is_wchar|apply itoa_digits].
Qed.

(** a digit string is not "+..." / "-..." : ParseInt reads the whole literal *)
Lemma itoa_parse_int : forall n, (Z.of_nat n < two63)%Z -> parse_int (itoa n) = Some (Z.of_nat n).
Proof.
  intros n Hn. unfold parse_int.
  pose proof (itoa_digits n) as D. pose proof (itoa_nonempty n) as NE. pose proof (itoa_val n) as V.
  destruct (itoa n) as [|c r] eqn:E; [contradiction NE; reflexivity|].
  simpl in D. apply andb_true_iff in D. destruct D as [Dc _].
  assert (Hp : Ascii.eqb c "+" = false /\ Ascii.eqb c "-" = false).
  { split; destruct (Ascii.eqb c _) eqn:Q; try reflexivity; apply Ascii.eqb_eq in Q; subst c; discriminate Dc. }
  destruct Hp as [Hp Hm].
  assert (S1 : (match String c r with
                | String "+" r0 => (false, r0)
                | String "-" r0 => (true, r0)
                | _ => (false, String c r)
                end) = (false, String c r)).
  { destruct c as [b0 b1 b2 b3 b4 b5 b6 b7].
    destruct b0, b1, b2, b3, b4, b5, b6, b7; try reflexivity; simpl in Hp, Hm; discriminate. }
  rewrite S1. rewrite V.
  replace (Z.of_nat n <? two63)%Z with true by (symmetry; apply Z.ltb_lt; exact Hn). reflexivity.
Qed.

Lemma itoa_classify : forall n, (Z.of_nat n < two63)%Z -> classify (itoa n) = NUMERIC.
Proof. intros n H. unfold classify. rewrite (itoa_parse_int n H). reflexivity. Qed.
