(** Proofs about the worker-pool interleaving model (Model/Pool.v), part 1: safety.
    Conservation of jobs (T1), schedule independence of the results (T2), errors reach the
    caller (T3), the hang of a worker that returns without wg.Done() (T6).
    Part 2 (liveness, T4 T5) is Proofs/PoolLive.v. *)
From Coq Require Import Bool Arith Lia List Permutation.
From GT Require Import Model.Pool.
Import ListNotations.

Local Arguments pending {job res err} s.
Local Arguments closed {job res err} s.
Local Arguments queue {job res err} s.
Local Arguments ws {job res err} s.
Local Arguments out {job res err} s.
Local Arguments errs {job res err} s.
Local Arguments mkSt {job res err}.
Local Arguments producer_step {job res err} s.
Local Arguments worker_step {job res err}.
Local Arguments step {job res err}.
Local Arguments run {job res err}.
Local Arguments init {job res err}.
Local Arguments finished {job res err} s.
Local Arguments busy_jobs {job res err} s.
Local Arguments is_exited {job} w.

(** * Lists with one position replaced *)

Lemma set_nth_mid {A} (l1 l2 : list A) (w x : A) :
  set_nth (length l1) x (l1 ++ w :: l2) = l1 ++ x :: l2.
Proof.
  unfold set_nth. induction l1 as [|a l1 IH]; simpl; [reflexivity|].
  now rewrite IH.
Qed.

Lemma nth_error_mid {A} (l : list A) i w :
  nth_error l i = Some w ->
  exists l1 l2, l = l1 ++ w :: l2 /\ length l1 = i /\ forall x, set_nth i x l = l1 ++ x :: l2.
Proof.
  intros H. destruct (nth_error_split _ _ H) as (l1 & l2 & Hl & Hlen).
  exists l1, l2. repeat split; auto.
  intros x. subst. apply set_nth_mid.
Qed.

Lemma nth_error_mid_eq {A} (l1 l2 : list A) x :
  nth_error (l1 ++ x :: l2) (length l1) = Some x.
Proof. induction l1; simpl; auto. Qed.

Lemma nth_error_mid_neq {A} (l1 l2 : list A) x y k :
  k <> length l1 -> nth_error (l1 ++ x :: l2) k = nth_error (l1 ++ y :: l2) k.
Proof.
  revert k. induction l1 as [|a l1 IH]; intros [|k] Hk; simpl in *; auto; try congruence.
Qed.

Lemma in_mid_swap {A} (l1 l2 : list A) (x y z : A) :
  In z (l1 ++ x :: l2) -> z <> x -> In z (l1 ++ y :: l2).
Proof.
  intros H Hn. apply in_app_or in H. apply in_or_app.
  destruct H as [H|[H|H]]; auto; [congruence | right; right; auto].
Qed.

Lemma Permutation_filter' {A} (p : A -> bool) (l l' : list A) :
  Permutation l l' -> Permutation (filter p l) (filter p l').
Proof.
  induction 1; simpl.
  - constructor.
  - destruct (p x); auto.
  - destruct (p x), (p y); auto. constructor.
  - eapply Permutation_trans; eauto.
Qed.

Lemma perm_rev4 {A} (a b c d : list A) :
  Permutation (a ++ b ++ c ++ d) (d ++ c ++ b ++ a).
Proof.
  eapply Permutation_trans; [apply Permutation_app_comm|].
  replace (d ++ c ++ b ++ a) with ((d ++ c ++ b) ++ a) by (now rewrite <- !app_assoc).
  apply Permutation_app_tail.
  eapply Permutation_trans; [apply Permutation_app_comm|].
  rewrite (app_assoc d c). apply Permutation_app_tail.
  apply Permutation_app_comm.
Qed.

Lemma filter_all_false {A} (p : A -> bool) (l : list A) :
  (forall x, In x l -> p x = false) -> filter p l = [].
Proof.
  induction l as [|a l IH]; simpl; intros H; auto.
  rewrite (H a) by auto. apply IH. intros; apply H; auto.
Qed.

Lemma filter_all_true {A} (p : A -> bool) (l : list A) :
  (forall x, In x l -> p x = true) -> filter p l = l.
Proof.
  induction l as [|a l IH]; simpl; intros H; auto.
  rewrite (H a) by auto. f_equal. apply IH. intros; apply H; auto.
Qed.

Lemma filter_in_nonnil {A} (p : A -> bool) (l : list A) x :
  In x l -> p x = true -> filter p l <> [].
Proof.
  intros Hi Hp E. assert (In x (filter p l)) by (apply filter_In; auto).
  rewrite E in H. destruct H.
Qed.

Section PoolProofs.
  Variables (job res err : Type).
  Variable f : job -> res.
  Variable fails : job -> bool.
  Variable e_of : job -> err.
  Variable on_fail : fail_mode.
  Variable done_on_exit : bool.

  Local Notation state := (st job res err).
  Local Notation wstepf := (worker_step f fails e_of on_fail done_on_exit).
  Local Notation stepf := (step f fails e_of on_fail done_on_exit).
  Local Notation runf := (run f fails e_of on_fail done_on_exit).

  (** * The worker step as a relation (inversion principle for [worker_step]) *)

  Inductive wstep (s : state) (i : nat) : state -> Prop :=
  | WS_stutter :
      (nth_error (ws s) i = None
       \/ (nth_error (ws s) i = Some Idle /\ queue s = [] /\ closed s = false)
       \/ nth_error (ws s) i = Some Exited
       \/ nth_error (ws s) i = Some Dead) ->
      wstep s i s
  | WS_take l1 l2 j q :
      ws s = l1 ++ Idle :: l2 -> length l1 = i -> queue s = j :: q ->
      wstep s i (mkSt (pending s) (closed s) q (l1 ++ Busy j :: l2) (out s) (errs s))
  | WS_exit l1 l2 :
      ws s = l1 ++ Idle :: l2 -> length l1 = i -> queue s = [] -> closed s = true ->
      wstep s i (mkSt (pending s) true [] (l1 ++ Exited :: l2) (out s) (errs s))
  | WS_ok l1 l2 j :
      ws s = l1 ++ Busy j :: l2 -> length l1 = i -> fails j = false ->
      wstep s i (mkSt (pending s) (closed s) (queue s) (l1 ++ Idle :: l2) (out s ++ [f j]) (errs s))
  | WS_cont l1 l2 j :
      ws s = l1 ++ Busy j :: l2 -> length l1 = i -> fails j = true -> on_fail = Continue ->
      wstep s i (mkSt (pending s) (closed s) (queue s) (l1 ++ Idle :: l2) (out s ++ [f j])
                      (errs s ++ [e_of j]))
  | WS_stop l1 l2 j :
      ws s = l1 ++ Busy j :: l2 -> length l1 = i -> fails j = true -> on_fail = Stop ->
      wstep s i (mkSt (pending s) (closed s) (queue s)
                      (l1 ++ (if done_on_exit then Exited else Dead) :: l2) (out s)
                      (errs s ++ [e_of j])).

  Lemma worker_step_spec s i : wstep s i (wstepf s i).
  Proof.
    unfold worker_step.
    destruct (nth_error (ws s) i) as [w|] eqn:E.
    - destruct (nth_error_mid _ _ _ E) as (l1 & l2 & Hl & Hlen & Hset).
      destruct w as [|j| |].
      + destruct (queue s) as [|j q] eqn:Q.
        * destruct (closed s) eqn:C.
          -- rewrite Hset. eapply WS_exit; eauto.
          -- apply WS_stutter. rewrite E. auto.
        * rewrite Hset. eapply WS_take; eauto.
      + destruct (fails j) eqn:F.
        * destruct on_fail eqn:O; rewrite Hset.
          -- eapply WS_cont; eauto.
          -- eapply WS_stop; eauto.
        * rewrite Hset. eapply WS_ok; eauto.
      + apply WS_stutter. rewrite E. auto.
      + apply WS_stutter. rewrite E. auto.
    - apply WS_stutter. auto.
  Qed.

  Lemma run_app sched1 sched2 s : runf (sched1 ++ sched2) s = runf sched2 (runf sched1 s).
  Proof. unfold run. apply fold_left_app. Qed.

  Lemma run_cons a sched s : runf (a :: sched) s = runf sched (stepf s a).
  Proof. reflexivity. Qed.

  Lemma run_inv (P : state -> Prop) :
    (forall s a, P s -> P (stepf s a)) -> forall sched s, P s -> P (runf sched s).
  Proof.
    intros Hstep sched. induction sched as [|a sched IH]; intros s Hs; simpl; auto.
  Qed.

  (** * Busy jobs, finished *)

  Definition bjw (w : wstate job) : list job := match w with Busy j => [j] | _ => [] end.

  Lemma busy_jobs_ws (s : state) : busy_jobs s = flat_map bjw (ws s).
  Proof. reflexivity. Qed.

  Lemma bj_mid l1 w l2 : flat_map bjw (l1 ++ w :: l2) = flat_map bjw l1 ++ bjw w ++ flat_map bjw l2.
  Proof. rewrite flat_map_app. reflexivity. Qed.

  Lemma finished_all (s : state) : finished s = true -> forall w, In w (ws s) -> w = Exited.
  Proof.
    unfold finished. rewrite forallb_forall. intros H w Hw.
    specialize (H w Hw). destruct w; simpl in H; congruence.
  Qed.

  Lemma finished_busy_nil (s : state) : finished s = true -> busy_jobs s = [].
  Proof.
    intros H. pose proof (finished_all s H) as Ha. rewrite busy_jobs_ws.
    induction (ws s) as [|w l IH]; simpl; auto.
    rewrite (Ha w) by (left; auto). simpl. apply IH. intros; apply Ha; right; auto.
  Qed.

  Lemma finished_in_exited (s : state) : finished s = true -> 1 <= length (ws s) -> In Exited (ws s).
  Proof.
    intros H Hl. pose proof (finished_all s H) as Ha.
    destruct (ws s) as [|w l]; simpl in Hl; [lia|].
    left. apply Ha. left; auto.
  Qed.

  Lemma dead_not_finished (s : state) : In Dead (ws s) -> finished s = false.
  Proof.
    intros H. destruct (finished s) eqn:F; auto.
    pose proof (finished_all s F _ H). discriminate.
  Qed.

  (** * The invariant of every reachable state (all fail modes) *)

  Definition outs_of (processed : list job) : list res :=
    match on_fail with
    | Continue => map f processed
    | Stop => map f (filter (fun j => negb (fails j)) processed)
    end.

  Definition conserved (jobs : list job) (s : state) : Prop :=
    exists processed,
      Permutation jobs (processed ++ busy_jobs s ++ queue s ++ pending s)
      /\ out s = outs_of processed
      /\ errs s = map e_of (filter fails processed).

  Definition normal_exits (s : state) : Prop :=
    In Exited (ws s) -> (closed s = true /\ queue s = []) \/ (on_fail = Stop /\ errs s <> []).

  Record inv (jobs : list job) (n : nat) (s : state) : Prop := mkInv {
    inv_closed : closed s = true -> pending s = [];
    inv_exits : normal_exits s;
    inv_cons : conserved jobs s;
    inv_len : length (ws s) = n;
    inv_nodead : done_on_exit = true \/ on_fail = Continue -> ~ In Dead (ws s)
  }.

  Lemma inv_init jobs n : inv jobs n (init jobs n).
  Proof.
    split; simpl.
    - discriminate.
    - intros H. apply repeat_spec in H. discriminate.
    - exists []. unfold busy_jobs. simpl.
      replace (flat_map _ (repeat Idle n)) with (@nil job).
      + simpl. split; [apply Permutation_refl|]. split; auto.
        unfold outs_of. destruct on_fail; reflexivity.
      + induction n; simpl; auto.
    - apply repeat_length.
    - intros _ H. apply repeat_spec in H. discriminate.
  Qed.

  Lemma app_nonnil {A} (l : list A) x : l ++ [x] <> [].
  Proof. destruct l; discriminate. Qed.

  Lemma outs_of_snoc_ok p j : fails j = false -> outs_of (p ++ [j]) = outs_of p ++ [f j].
  Proof.
    intros F. unfold outs_of. destruct on_fail.
    - now rewrite map_app.
    - rewrite filter_app, map_app. simpl. now rewrite F.
  Qed.

  Lemma inv_step jobs n s a : inv jobs n s -> inv jobs n (stepf s a).
  Proof.
    intros [Hc He (p & Hp & Ho & Her) Hl Hd].
    destruct a as [|i]; simpl.
    - (* producer *)
      unfold producer_step. destruct (pending s) as [|j pd] eqn:Pd.
      + split; simpl; auto.
        * intros H. destruct (He H) as [[_ Q]|R]; [left|right]; auto.
        * exists p. unfold busy_jobs in *. simpl. auto.
      + split; simpl; auto.
        * intros C. specialize (Hc C). discriminate.
        * intros H. destruct (He H) as [[C _]|R]; [|right; auto].
          specialize (Hc C). discriminate.
        * exists p. unfold busy_jobs in *. simpl. repeat split; auto.
          rewrite <- app_assoc. simpl. exact Hp.
    - (* worker i *)
      destruct (worker_step_spec s i) as
        [St | l1 l2 j q Hw Hi Q | l1 l2 Hw Hi Q C | l1 l2 j Hw Hi F | l1 l2 j Hw Hi F O | l1 l2 j Hw Hi F O].
      + split; auto. exists p; auto.
      + (* take *)
        unfold normal_exits in He. rewrite busy_jobs_ws in Hp. rewrite Hw, Q in *.
        split; simpl; auto.
        * intros H. destruct He as [[_ Q']|R]; [|discriminate|right; auto].
          eapply in_mid_swap; eauto. discriminate.
        * exists p. rewrite busy_jobs_ws. simpl. repeat split; auto.
          rewrite bj_mid in *. simpl in *.
          eapply Permutation_trans; [exact Hp|].
          apply Permutation_app_head. rewrite <- !app_assoc. apply Permutation_app_head.
          simpl. symmetry. apply Permutation_middle.
        * rewrite <- Hl. rewrite !app_length. reflexivity.
        * intros D H. apply (Hd D). eapply in_mid_swap; eauto. discriminate.
      + (* exit *)
        unfold normal_exits in He. rewrite busy_jobs_ws in Hp. rewrite Hw, Q in *.
        split; simpl; auto.
        * intros _. left; auto.
        * exists p. rewrite busy_jobs_ws. simpl. repeat split; auto.
          rewrite bj_mid in *. simpl in *. exact Hp.
        * rewrite <- Hl. rewrite !app_length. reflexivity.
        * intros D H. apply (Hd D). eapply in_mid_swap; eauto. discriminate.
      + (* finish, no failure *)
        unfold normal_exits in He. rewrite busy_jobs_ws in Hp. rewrite Hw in *.
        split; simpl; auto.
        * intros H. destruct He as [L|[R1 R2]]; [|left; auto|].
          -- eapply in_mid_swap; eauto. discriminate.
          -- right. split; auto.
        * exists (p ++ [j]). rewrite busy_jobs_ws. simpl. repeat split.
          -- rewrite bj_mid in *. simpl in *.
             eapply Permutation_trans; [exact Hp|].
             rewrite <- !app_assoc. apply Permutation_app_head. simpl.
             symmetry. apply Permutation_middle.
          -- rewrite Ho. symmetry. apply outs_of_snoc_ok; auto.
          -- rewrite filter_app. simpl. rewrite F, app_nil_r. auto.
        * rewrite <- Hl. rewrite !app_length. reflexivity.
        * intros D H. apply (Hd D). eapply in_mid_swap; eauto. discriminate.
      + (* finish, failure, Continue *)
        unfold normal_exits in He. rewrite busy_jobs_ws in Hp. rewrite Hw in *.
        split; simpl; auto.
        * intros H. destruct He as [L|[R1 R2]]; [|left; auto|].
          -- eapply in_mid_swap; eauto. discriminate.
          -- congruence.
        * exists (p ++ [j]). rewrite busy_jobs_ws. simpl. repeat split.
          -- rewrite bj_mid in *. simpl in *.
             eapply Permutation_trans; [exact Hp|].
             rewrite <- !app_assoc. apply Permutation_app_head. simpl.
             symmetry. apply Permutation_middle.
          -- rewrite Ho. unfold outs_of. rewrite O. now rewrite map_app.
          -- rewrite filter_app. simpl. rewrite F, map_app, Her. reflexivity.
        * rewrite <- Hl. rewrite !app_length. reflexivity.
        * intros D H. apply (Hd D). eapply in_mid_swap; eauto. discriminate.
      + (* failure, Stop *)
        unfold normal_exits in He. rewrite busy_jobs_ws in Hp. rewrite Hw in *.
        split; simpl; auto.
        * intros _. right. split; auto. apply app_nonnil.
        * exists (p ++ [j]). rewrite busy_jobs_ws. simpl. repeat split.
          -- rewrite bj_mid in *. simpl in *.
             replace (bjw (if done_on_exit then Exited else Dead)) with (@nil job)
               by (destruct done_on_exit; reflexivity).
             eapply Permutation_trans; [exact Hp|].
             rewrite <- !app_assoc. apply Permutation_app_head. simpl.
             symmetry. apply Permutation_middle.
          -- rewrite Ho. unfold outs_of. rewrite O. rewrite filter_app. simpl.
             rewrite F. simpl. now rewrite app_nil_r.
          -- rewrite filter_app. simpl. rewrite F, map_app, Her. reflexivity.
        * rewrite <- Hl. rewrite !app_length. reflexivity.
        * intros D H. destruct D as [D|D]; [|congruence]. rewrite D in H.
          apply (Hd (or_introl D)). eapply in_mid_swap; eauto. discriminate.
  Qed.

  Lemma inv_run jobs n sched s : inv jobs n s -> inv jobs n (runf sched s).
  Proof. apply run_inv. intros; apply inv_step; auto. Qed.

  Lemma inv_reach jobs n sched : inv jobs n (runf sched (init jobs n)).
  Proof. apply inv_run, inv_init. Qed.

  (** * T1 conservation *)

  (** every job is, at every moment and under every schedule, in exactly one place *)
  Lemma conservation_general jobs n sched :
    let s := runf sched (init jobs n) in
    exists processed,
      Permutation jobs (pending s ++ queue s ++ busy_jobs s ++ processed)
      /\ out s = outs_of processed
      /\ errs s = map e_of (filter fails processed).
  Proof.
    intros s. destruct (inv_cons _ _ _ (inv_reach jobs n sched)) as (p & Hp & Ho & He).
    exists p. repeat split; auto. fold s in Hp.
    eapply Permutation_trans; [exact Hp|]. apply perm_rev4.
  Qed.

  Definition no_stop_failure (jobs : list job) : Prop :=
    on_fail = Continue \/ (forall j, In j jobs -> fails j = false).

  Lemma outs_of_nsf jobs p :
    no_stop_failure jobs -> (forall j, In j p -> In j jobs) -> outs_of p = map f p.
  Proof.
    intros [O|N] Hin; unfold outs_of.
    - now rewrite O.
    - destruct on_fail; auto. rewrite filter_all_true; auto.
      intros j Hj. rewrite N; auto.
  Qed.

  Lemma conservation_results jobs n sched :
    no_stop_failure jobs ->
    let s := runf sched (init jobs n) in
    Permutation (map f jobs)
                (out s ++ map f (busy_jobs s) ++ map f (queue s) ++ map f (pending s)).
  Proof.
    intros H s. destruct (inv_cons _ _ _ (inv_reach jobs n sched)) as (p & Hp & Ho & He).
    fold s in Hp, Ho, He.
    rewrite Ho, (outs_of_nsf jobs p H).
    - rewrite <- !map_app. apply Permutation_map. exact Hp.
    - intros j Hj. eapply Permutation_in; [symmetry; exact Hp|]. apply in_or_app; auto.
  Qed.

  (** * T2 schedule independence *)

  (** at the end nothing is left anywhere unless a worker stopped on an error *)
  Lemma finished_all_processed jobs n s :
    inv jobs n s -> 1 <= n -> finished s = true ->
    exists processed,
      out s = outs_of processed /\ errs s = map e_of (filter fails processed)
      /\ (forall j, In j processed -> In j jobs)
      /\ ((Permutation jobs processed) \/ (on_fail = Stop /\ errs s <> [])).
  Proof.
    intros [Hc He (p & Hp & Ho & Her) Hl Hd] Hn Hf.
    exists p. repeat split; auto.
    - intros j Hj. eapply Permutation_in; [symmetry; exact Hp|]. apply in_or_app; auto.
    - assert (Hex : In Exited (ws s)) by (apply finished_in_exited; auto; lia).
      destruct (He Hex) as [[C Q]|R]; [left|right; auto].
      rewrite (finished_busy_nil s Hf), Q, (Hc C) in Hp. simpl in Hp.
      now rewrite app_nil_r in Hp.
  Qed.

  Lemma nsf_no_errs jobs p :
    no_stop_failure jobs -> (forall j, In j p -> In j jobs) ->
    on_fail = Stop -> map e_of (filter fails p) = [].
  Proof.
    intros [O|N] Hin S; [congruence|].
    rewrite filter_all_false; auto.
  Qed.

  Lemma results_schedule_independent jobs n sched :
    no_stop_failure jobs -> 1 <= n ->
    let s := runf sched (init jobs n) in
    finished s = true -> Permutation (out s) (map f jobs).
  Proof.
    intros H Hn s Hf.
    destruct (finished_all_processed jobs n s (inv_reach jobs n sched) Hn Hf)
      as (p & Ho & Her & Hsub & Hp).
    rewrite Ho, (outs_of_nsf jobs p H Hsub).
    destruct Hp as [Hp|[S Hne]].
    - apply Permutation_map. symmetry. exact Hp.
    - exfalso. apply Hne. rewrite Her. eapply nsf_no_errs; eauto.
  Qed.

  (** * T3 errors reach the caller *)

  Lemma errors_reach_caller jobs n sched :
    1 <= n ->
    let s := runf sched (init jobs n) in
    finished s = true -> (exists j, In j jobs /\ fails j = true) -> errs s <> [].
  Proof.
    intros Hn s Hf (j & Hj & Fj).
    destruct (finished_all_processed jobs n s (inv_reach jobs n sched) Hn Hf)
      as (p & Ho & Her & Hsub & Hp).
    destruct Hp as [Hp|[S Hne]]; auto.
    rewrite Her. intros E. apply map_eq_nil in E. revert E.
    apply filter_in_nonnil with (x := j); auto.
    eapply Permutation_in; eauto.
  Qed.

  Lemma errors_all_reported jobs n sched :
    on_fail = Continue -> 1 <= n ->
    let s := runf sched (init jobs n) in
    finished s = true -> Permutation (errs s) (map e_of (filter fails jobs)).
  Proof.
    intros O Hn s Hf.
    destruct (finished_all_processed jobs n s (inv_reach jobs n sched) Hn Hf)
      as (p & Ho & Her & Hsub & Hp).
    destruct Hp as [Hp|[S Hne]]; [|congruence].
    rewrite Her. apply Permutation_map, Permutation_filter'. symmetry. exact Hp.
  Qed.

  (** without workers "finished" holds vacuously at once and nothing is computed *)
  Lemma zero_workers_finished jobs sched :
    let s := runf sched (init jobs 0) in finished s = true /\ out s = [] /\ errs s = [].
  Proof.
    simpl.
    assert (G : forall s : state, ws s = [] -> out s = [] -> errs s = [] ->
                let s' := runf sched s in ws s' = [] /\ out s' = [] /\ errs s' = []).
    { induction sched as [|a sc IH]; intros s W O E; simpl; auto.
      apply IH; destruct a as [|i]; simpl; auto.
      - unfold producer_step; destruct (pending s); auto.
      - unfold worker_step. rewrite W. destruct i; auto.
      - unfold producer_step; destruct (pending s); auto.
      - unfold worker_step. rewrite W. destruct i; auto.
      - unfold producer_step; destruct (pending s); auto.
      - unfold worker_step. rewrite W. destruct i; auto. }
    destruct (G (init jobs 0)) as (W & O & E); auto.
    unfold finished. rewrite W. auto.
  Qed.

  (** * Dead workers (used by T6) *)

  Lemma dead_persists s a : In Dead (ws s) -> In Dead (ws (stepf s a)).
  Proof.
    intros H. destruct a as [|i]; simpl.
    - unfold producer_step. destruct (pending s); simpl; auto.
    - destruct (worker_step_spec s i) as
        [St | l1 l2 j q Hw Hi Q | l1 l2 Hw Hi Q C | l1 l2 j Hw Hi F | l1 l2 j Hw Hi F O | l1 l2 j Hw Hi F O];
        auto; simpl; rewrite Hw in H; eapply in_mid_swap; eauto; discriminate.
  Qed.

  Lemma dead_never_finished sched s : In Dead (ws s) -> finished (runf sched s) = false.
  Proof.
    intros H. apply dead_not_finished.
    apply (run_inv (fun s => In Dead (ws s))); auto. intros; apply dead_persists; auto.
  Qed.

End PoolProofs.

(** * T6 the defect pattern: Stop without deferred Done *)
Section Defect.
  Variables (job res err : Type).
  Variable f : job -> res.
  Variable fails : job -> bool.
  Variable e_of : job -> err.

  Local Notation runf := (run f fails e_of Stop false).

  (** the producer sends the first job, worker 0 takes it and dies: whatever happens next,
      wg.Wait() never returns *)
  Lemma stop_without_done_hangs j rest n sched :
    fails j = true ->
    finished (runf ([0; 1; 1] ++ sched) (init (j :: rest) (S n))) = false.
  Proof.
    intros F. rewrite run_app. apply dead_never_finished.
    simpl. unfold worker_step; simpl. unfold worker_step; simpl. rewrite F. simpl. auto.
  Qed.

  Lemma single_worker_single_job_never_finishes j sched :
    fails j = true -> finished (runf sched (init [j] 1)) = false.
  Proof.
    intros F.
    set (P := fun s : st job res err =>
      (closed s = true -> pending s = []) /\
      exists w, ws s = [w] /\
        match w with
        | Idle => queue s ++ pending s = [j]
        | Busy j' => j' = j
        | Exited => False
        | Dead => True
        end).
    assert (HP : P (runf sched (init [j] 1))).
    { apply (run_inv _ _ _ f fails e_of Stop false P); unfold P; clear P.
      - intros s a (Hc & w & Hw & Hm). destruct a as [|i]; simpl.
        + unfold producer_step. destruct (pending s) as [|j' pd] eqn:Pd; simpl.
          * split; auto. exists w. split; auto.
          * split; [intros C; specialize (Hc C); discriminate|].
            exists w. split; auto. destruct w; auto.
            rewrite <- app_assoc. simpl. exact Hm.
        + unfold worker_step. rewrite Hw.
          destruct i as [|i]; simpl; [|destruct i; simpl; split; auto; exists w; auto].
          destruct w as [|j'| |]; simpl.
          * destruct (queue s) as [|j' q] eqn:Q; simpl.
            -- destruct (closed s) eqn:C; simpl.
               ++ specialize (Hc eq_refl). rewrite Hc in Hm. discriminate.
               ++ split; [rewrite C; discriminate|]. exists (@Idle job). rewrite Q. auto.
            -- split; auto. exists (Busy j'). split; auto.
               simpl in Hm. congruence.
          * subst j'. rewrite F. simpl. split; auto. exists (@Dead job). auto.
          * destruct Hm.
          * split; auto. exists (@Dead job). auto.
      - split; simpl; [discriminate|]. exists (@Idle job). auto. }
    destruct HP as (_ & w & Hw & Hm). unfold finished. rewrite Hw.
    destruct w; simpl; auto. destruct Hm.
  Qed.
End Defect.
