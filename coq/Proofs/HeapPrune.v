(** Heap model: Tree.removeTip.  Part 1: deleting a leaf (a non-root node whose only slot is
    its parent slot): parent.delNeighbor(leaf); delNode(leaf) -- the first step of removeTip and
    the body of its single-node loop -- keeps the representation. *)
From Coq Require Import String ZArith QArith Bool Arith Lia Permutation List.
From GT Require Import Base.UTree Model.Reroot Model.Heap Proofs.Enum Proofs.HeapBase Proofs.HeapRep
     Proofs.HeapGood Proofs.HeapGoodRep Proofs.HeapRerootL Proofs.HeapReorder Proofs.HeapUnrootL Proofs.HeapUnroot
     Proofs.HeapCtx Proofs.HeapGraft Proofs.HeapCollapse.
Import ListNotations.
Local Close Scope Q_scope.

(** delNode on a node with exactly one branch *)
Lemma del_node_step1 h n hn e1 : alookup n (hnodes h) = Some hn -> hbr hn = [e1] ->
  exists h', del_node n h = HOk h' /\
    (forall x, alookup x (hnodes h') = if Nat.eqb x n then None else alookup x (hnodes h)) /\
    (forall e, alookup e (hedges h') = if Nat.eqb e e1 then None else alookup e (hedges h)) /\
    hroot h' = hroot h /\ hnextn h' = hnextn h /\ hnexte h' = hnexte h.
Proof.
  intros Hn Hb. unfold del_node, get_node. rewrite Hn. cbn [hbind]. rewrite Hb. cbn [fold_right].
  eexists. split; [reflexivity|]. cbn. split; [|split; [|repeat split]].
  - intros x. apply alookup_arem.
  - intros e. apply alookup_arem.
Qed.

Section DropLeaf.
  Variables (h : heap) (lt : ltree).
  Hypothesis R : Rep h lt.
  Variables (p : option (nat * nat)) (q : nat) (nm : string) (cm : list string) (l1 l2 : list lslot).
  Variables (ex : nat) (eix : einfo) (x : nat) (nmx : string) (cmx : list string).
  Let leaf := LNode x nmx cmx [None].
  Let sub := LNode q nm cm (l1 ++ Some (ex, eix, leaf) :: l2).
  Let new := LNode q nm cm (l1 ++ l2).
  Hypothesis Hsub : In (p, sub) (lsubs None lt).

  Lemma DL_facts : exists hq hx c1 c2,
    alookup q (hnodes h) = Some hq /\ alookup x (hnodes h) = Some hx /\
    slots_of hq = c1 ++ (x, ex) :: c2 /\ length c1 = length l1 /\
    Forall2 (slot_ok true h p q) c1 l1 /\ Forall2 (slot_ok true h p q) c2 l2 /\
    length (hneigh hq) = length (hbr hq) /\ hname hq = nm /\ hcom hq = cm /\
    hneigh hx = [q] /\ hbr hx = [ex] /\ alookup ex (hedges h) = Some (mkHE q x eix) /\ q <> x.
  Proof.
    pose proof (shape_lsubs _ _ _ _ _ _ (rep_shape _ _ R) Hsub) as Sh. unfold sub in Sh.
    apply shape_unfold in Sh. destruct Sh as [hq (A1 & A2 & A3 & A4 & A5)].
    apply Forall2_app_inv_r in A5. destruct A5 as (c1 & c2' & F1 & F2 & Ec).
    apply Forall2_cons_inv_r in F2. destruct F2 as (ce & c2 & Ec2 & Ok0 & F2'). rewrite Ec2 in Ec. clear Ec2 c2'.
    destruct ce as [x0 e0]. cbn [slot_ok fst snd] in Ok0. destruct Ok0 as (P0 & Ee & Er & [ed (E1 & E2 & E3 & E4)] & Shx).
    subst e0. unfold leaf in Er. cbn [lid] in Er. subst x0.
    unfold leaf in Shx. apply shape_unfold in Shx. destruct Shx as [hx (B1 & B2 & B3 & B4 & B5)].
    apply Forall2_cons_inv_r in B5. destruct B5 as ([q0 e0] & d2 & Ed & Okx & B5'). inversion B5'. subst d2. clear B5'.
    cbn [slot_ok] in Okx. injection Okx as <- <-.
    assert (Hng : hneigh hx = [q] /\ hbr hx = [ex]).
    { unfold slots_of in Ed. destruct (hneigh hx) as [|a [|a' ng]], (hbr hx) as [|b [|b' bs]]; cbn in B4, Ed; try discriminate; try lia.
      injection Ed as -> ->. split; reflexivity. }
    destruct Hng as [Hng Hbr]. destruct ed as [a b c]. cbn [hleft hright hinfo] in *. subst a b c.
    exists hq, hx, c1, c2. repeat split; try assumption; try (eapply Forall2_length'; eassumption).
    intros ->. assert (Nd : NoDup (lids sub)) by (eapply lsubs_NoDup; [exact (rep_nd _ _ R)|exact Hsub]).
    eapply (lids_head_notin _ _ _ _ Nd); [apply in_or_app; right; left; reflexivity|]. left. reflexivity.
  Qed.

  Theorem drop_leaf_Rep : exists h' hq,
    (do h1 <- del_neighbor q x h; del_node x h1) = HOk h' /\ Rep h' (lreplace q new lt) /\
    alookup q (hnodes h) = Some hq /\
    alookup q (hnodes h') = Some (mkHN (hname hq) (hcom hq) (del_nth (length l1) (hneigh hq)) (del_nth (length l1) (hbr hq))) /\
    length (hneigh hq) = S (length (l1 ++ l2)) /\ hroot h' = hroot h /\
    (forall y, y <> q -> y <> x -> alookup y (hnodes h') = alookup y (hnodes h)) /\
    (forall y, y <> ex -> alookup y (hedges h') = alookup y (hedges h)) /\
    alookup x (hnodes h') = None.
  Proof.
    destruct DL_facts as (hq & hx & c1 & c2 & Hq & Hx & Ec & Lc & F1 & F2 & A4 & A2 & A3 & Hng & Hbr & Hex & Nqx).
    pose proof (Rep_Good h lt R) as G.
    assert (Hnq : nth_error (hneigh hq) (length l1) = Some x).
    { rewrite <- (slots_of_fst hq A4), Ec, nth_error_map, <- Lc, nth_error_app_mid. reflexivity. }
    assert (I0 : index_of x (hneigh hq) = Some (length l1)) by (apply index_of_NoDup; [exact (g_nodup _ G q hq Hq)|exact Hnq]).
    assert (L0 : length l1 < length (hbr hq)) by (rewrite <- A4; apply nth_error_Some; congruence).
    destruct (del_neighbor_step h q x hq (length l1) Hq I0 L0) as [h1 (S1 & Nd1 & (Ed1 & Rt1 & Nn1 & Ne1))].
    rewrite S1. cbn [hbind].
    assert (Hx1 : alookup x (hnodes h1) = Some hx) by (rewrite Nd1; destruct (Nat.eqb_spec x q); [congruence|exact Hx]).
    destruct (del_node_step1 h1 x hx ex Hx1 Hbr) as [h' (S2 & Nd2 & Ed2 & Rt2 & Nn2 & Ne2)].
    set (hq' := mkHN (hname hq) (hcom hq) (del_nth (length l1) (hneigh hq)) (del_nth (length l1) (hbr hq))) in *.
    assert (Lq' : alookup q (hnodes h') = Some hq').
    { rewrite Nd2. destruct (Nat.eqb_spec q x); [congruence|]. rewrite Nd1, Nat.eqb_refl. reflexivity. }
    assert (Nsame : forall y, y <> q -> y <> x -> alookup y (hnodes h') = alookup y (hnodes h)).
    { intros y Y1 Y2. rewrite Nd2. destruct (Nat.eqb_spec y x); [contradiction|]. rewrite Nd1. destruct (Nat.eqb_spec y q); [contradiction|reflexivity]. }
    assert (Esame : forall y, y <> ex -> alookup y (hedges h') = alookup y (hedges h)).
    { intros y Y. rewrite Ed2. destruct (Nat.eqb_spec y ex); [contradiction|]. rewrite Ed1. reflexivity. }
    assert (Lhq : length (hneigh hq) = S (length (l1 ++ l2))).
    { rewrite <- (slots_of_fst hq A4), map_length, Ec, !app_length. cbn [length]. rewrite (Forall2_length' _ _ _ F1), (Forall2_length' _ _ _ F2). lia. }
    exists h', hq. split; [exact S2|]. split; [|repeat split; try assumption; try congruence; rewrite Nd2, Nat.eqb_refl; reflexivity].
    (* ids of the sub-node *)
    assert (Nd : NoDup (lids sub)) by (eapply lsubs_NoDup; [exact (rep_nd _ _ R)|exact Hsub]).
    pose proof (shape_lsubs _ _ _ _ _ _ (rep_shape _ _ R) Hsub) as Shsub.
    pose proof (shape_NoDup_leids _ _ _ Shsub Nd) as Ned.
    assert (EN : lids sub = q :: sids l1 ++ x :: sids l2).
    { unfold sub. rewrite lids_eq. fold (sids (l1 ++ Some (ex, eix, leaf) :: l2)). rewrite sids_app_cons. unfold leaf. rewrite lids_eq. reflexivity. }
    assert (EE : leids sub = seids l1 ++ ex :: seids l2).
    { unfold sub. rewrite leids_eq. fold (seids (l1 ++ Some (ex, eix, leaf) :: l2)). rewrite seids_app_cons. unfold leaf. rewrite leids_eq. reflexivity. }
    assert (ENn : lids new = q :: sids l1 ++ sids l2) by (unfold new; rewrite lids_eq; fold (sids (l1 ++ l2)); rewrite sids_app; reflexivity).
    assert (EEn : leids new = seids l1 ++ seids l2) by (unfold new; rewrite leids_eq; fold (seids (l1 ++ l2)); rewrite seids_app; reflexivity).
    rewrite EN in Nd. rewrite EE in Ned.
    assert (PN : Permutation (x :: lids new) (lids sub)).
    { rewrite EN, ENn. rewrite perm_swap. apply perm_skip. apply Permutation_middle. }
    assert (PE : Permutation (ex :: leids new) (leids sub)) by (rewrite EE, EEn; apply Permutation_middle).
    pose proof (Permutation_NoDup (Permutation_sym PN)) as X1. rewrite EN in X1. specialize (X1 Nd). apply NoDup_cons_iff in X1. destruct X1 as [Rn NdN].
    pose proof (Permutation_NoDup (Permutation_sym PE)) as X2. rewrite EE in X2. specialize (X2 Ned). apply NoDup_cons_iff in X2. destruct X2 as [Re NdE].
    assert (InN : forall y, In y (lids new) <-> In y (lids sub) /\ y <> x).
    { intros y. split.
      - intros Hy. split; [eapply Permutation_in; [exact PN|right; exact Hy]|intros ->; contradiction].
      - intros [Hy Hne]. apply (Permutation_in _ (Permutation_sym PN)) in Hy. destruct Hy as [E0|Hy]; [congruence|exact Hy]. }
    assert (InE : forall y, In y (leids new) <-> In y (leids sub) /\ y <> ex).
    { intros y. split.
      - intros Hy. split; [eapply Permutation_in; [exact PE|right; exact Hy]|intros ->; contradiction].
      - intros [Hy Hne]. apply (Permutation_in _ (Permutation_sym PE)) in Hy. destruct Hy as [E0|Hy]; [congruence|exact Hy]. }
    assert (SubN : forall y, In y (lids sub) -> In y (lids lt)) by (intros y Hy; eapply lsubs_sub_lids; eassumption).
    assert (SubE : forall y, In y (leids sub) -> In y (leids lt)) by (intros y Hy; eapply lsubs_sub_leids; eassumption).
    assert (Inq : In q (lids sub)) by (rewrite EN; left; reflexivity).
    assert (Inx : In x (lids sub)) by (rewrite EN; right; apply in_or_app; right; left; reflexivity).
    assert (Inex : In ex (leids sub)) by (rewrite EE; apply in_or_app; right; left; reflexivity).
    (* sibling slots are unchanged *)
    assert (Tr : forall cs ls, (forall s, In s ls -> In s (l1 ++ l2)) ->
               Forall2 (slot_ok true h p q) cs ls -> Forall2 (slot_ok true h' p q) cs ls).
    { intros cs ls Hls F. eapply Forall2_impl_r; [exact F|]. intros ce s Hs Hok. destruct s as [[[e2 ei2] X]|]; [|exact Hok].
      pose proof (Hls _ Hs) as Hs'.
      assert (HXn : forall y, In y (lids X) -> In y (lids new) /\ y <> q).
      { intros y Hy. split; [unfold new; eapply in_lids_child; eassumption|]. intros ->.
        pose proof NdN as N'. rewrite ENn in N'. apply NoDup_cons_iff in N'. apply (proj1 N'). rewrite <- sids_app. eapply in_sids; eassumption. }
      assert (HXe : forall y, In y (e2 :: leids X) -> In y (leids new)).
      { intros y [<-|Hy]; unfold new; [eapply in_leids_here|eapply in_leids_child]; eassumption. }
      cbn [slot_ok] in *. destruct Hok as (B1 & B2 & B3 & B4 & B5). repeat split; try assumption.
      - eapply edge_ok_eq; [|exact B4]. rewrite <- B2. apply Esame. apply (InE e2). apply HXe. left. reflexivity.
      - eapply shape_frame; [| |exact B5].
        + intros y Hy. destruct (HXn y Hy) as [Y1 Y2]. apply Nsame; [exact Y2|]. apply (InN y). exact Y1.
        + intros y Hy. apply Esame. apply (InE y). apply HXe. right. exact Hy. }
    apply (Rep_replace h h' lt q p sub new R Hsub eq_refl eq_refl).
    - unfold new. apply shape_unfold. exists hq'. split; [exact Lq'|]. unfold hq'. cbn [hname hcom hneigh hbr].
      split; [exact A2|]. split; [exact A3|].
      split; [pose proof (del_nth_length (length l1) (hneigh hq) ltac:(lia)); pose proof (del_nth_length (length l1) (hbr hq) L0); lia|].
      rewrite combine_del_nth. change (combine (hneigh hq) (hbr hq)) with (slots_of hq). rewrite Ec, <- Lc, del_nth_app_mid.
      apply Forall2_app; apply Tr; try assumption; intros s Hs; apply in_or_app; [left|right]; exact Hs.
    - intros y Hy Hy'. apply Nsame; intros ->; contradiction.
    - intros y Hy Hy'. apply Esame. intros ->. contradiction.
    - intros Wsub. unfold sub in Wsub. apply lwf_iff in Wsub. destruct Wsub as [X1 X2]. unfold new. apply lwf_iff. split.
      + rewrite !lnup_app in *. unfold lnup in X1 at 2. cbn in X1. fold (lnup l2) in X1. lia.
      + intros e' ei' ch' Hin. apply (X2 e' ei' ch'). apply in_app_or in Hin. apply in_or_app. destruct Hin; [left|right; right]; assumption.
    - intros Wsub. unfold sub in Wsub. apply lwf_sub_iff in Wsub. destruct Wsub as [X1 X2]. unfold new. apply lwf_sub_iff. split.
      + rewrite !lnup_app in *. unfold lnup in X1 at 2. cbn in X1. fold (lnup l2) in X1. lia.
      + intros e' ei' ch' Hin. apply (X2 e' ei' ch'). apply in_app_or in Hin. apply in_or_app. destruct Hin; [left|right; right]; assumption.
    - congruence.
    - exact NdN.
    - intros y Hy. left. apply InN in Hy. tauto.
    - exact NdE.
    - intros y Hy. left. apply InE in Hy. tauto.
    - intros y. rewrite InN. destruct (Nat.eq_dec y x) as [->|Nx].
      { rewrite Nd2, Nat.eqb_refl. split; [congruence|]. intros [[_ X]|[_ X]]; [congruence|contradiction]. }
      destruct (Nat.eq_dec y q) as [->|Nq]; [rewrite Lq'; split; [intros _; left; tauto|discriminate]|].
      rewrite (Nsame y Nq Nx), <- (rep_nodes _ _ R y). split.
      + intros Hy. destruct (in_dec Nat.eq_dec y (lids sub)); tauto.
      + intros [[X _]|[X _]]; [apply SubN; exact X|exact X].
    - intros y. rewrite InE. destruct (Nat.eq_dec y ex) as [->|Nex].
      { rewrite Ed2, Nat.eqb_refl. split; [congruence|]. intros [[_ X]|[_ X]]; [congruence|contradiction]. }
      rewrite (Esame y Nex), <- (rep_edges _ _ R y). split.
      + intros Hy. destruct (in_dec Nat.eq_dec y (leids sub)); tauto.
      + intros [[X _]|[X _]]; [apply SubE; exact X|exact X].
    - intros y Hy. replace (hnextn h') with (hnextn h) by congruence. apply (rep_fn _ _ R).
      destruct (Nat.eq_dec y x) as [->|Nx]; [rewrite Nd2, Nat.eqb_refl in Hy; congruence|].
      destruct (Nat.eq_dec y q) as [->|Nq]; [apply SubN; exact Inq|].
      rewrite (Nsame y Nq Nx) in Hy. apply (rep_nodes _ _ R). exact Hy.
    - intros y Hy. replace (hnexte h') with (hnexte h) by congruence. apply (rep_fe _ _ R).
      destruct (Nat.eq_dec y ex) as [->|Nex]; [rewrite Ed2, Nat.eqb_refl in Hy; congruence|].
      rewrite (Esame y Nex) in Hy. apply (rep_edges _ _ R). exact Hy.
  Qed.
End DropLeaf.

(** * a leaf of a good heap, seen from the tree *)
Lemma lsubs_ctx : forall lt prev p sub, In (p, sub) (lsubs prev lt) -> (p, sub) = (prev, lt) \/ exists m e, p = Some (m, e).
Proof.
  induction lt as [i n c sl IH] using ltree_ind'. intros prev p sub Hin. rewrite lsubs_eq in Hin.
  destruct Hin as [E|Hin]; [left; symmetry; exact E|]. right.
  apply in_flat_map in Hin. destruct Hin as [s [Hs Hin]]. rewrite Forall_forall in IH. specialize (IH s Hs).
  destruct s as [[[e ei] ch]|]; [|destruct Hin]. destruct (IH _ _ _ Hin) as [[= -> _]|H]; [eauto|exact H].
Qed.

Lemma leaf_view h lt x hx q ex : Rep h lt -> alookup x (hnodes h) = Some hx -> hneigh hx = [q] -> hbr hx = [ex] ->
  x <> hroot h ->
  exists p nm cm l1 l2 eix nmx cmx,
    In (p, LNode q nm cm (l1 ++ Some (ex, eix, LNode x nmx cmx [None]) :: l2)) (lsubs None lt).
Proof.
  intros R Hx Hng Hbr Hnr.
  destruct (Rep_view h lt R x hx Hx) as (p & nmx & cmx & slx & V1 & V2 & V3 & V4 & V5 & V6).
  unfold slots_of in V3. rewrite Hng, Hbr in V3. cbn [combine] in V3.
  pose proof (Forall2_length' _ _ _ V3) as Lx. destruct slx as [|s [|s' slx]]; cbn in Lx; try lia.
  destruct V5 as [[-> W]|[[m [e ->]] W]].
  { exfalso. destruct (lsubs_ctx _ _ _ _ V1) as [E|[m [e E]]]; [|discriminate].
    injection E as <-. apply Hnr. rewrite (rep_root _ _ R). reflexivity. }
  apply Forall2_cons_inv_r in V3. destruct V3 as (ce & c0 & Ec & Ok0 & _). injection Ec as <- _.
  destruct s as [[[e2 ei2] X]|]; [cbn in W; discriminate|].
  cbn [slot_ok] in Ok0. injection Ok0 as -> ->.
  destruct (lsubs_parent _ _ _ _ _ V1) as [[E _]|(pp & nm & cm & sl & eix & H1 & H2)]; [discriminate|].
  destruct (in_split _ _ H2) as [l1 [l2 ->]].
  exists pp, nm, cm, l1, l2, eix, nmx, cmx. exact H1.
Qed.

(** deleting a leaf keeps the heap good *)
Theorem drop_leaf_good h x hx q ex : Good h -> alookup x (hnodes h) = Some hx -> hneigh hx = [q] -> hbr hx = [ex] ->
  x <> hroot h ->
  exists h', (do h1 <- del_neighbor q x h; del_node x h1) = HOk h' /\ Good h'.
Proof.
  intros G Hx Hng Hbr Hnr. destruct (Good_Rep h G) as [lt R].
  destruct (leaf_view h lt x hx q ex R Hx Hng Hbr Hnr) as (p & nm & cm & l1 & l2 & eix & nmx & cmx & Hsub).
  destruct (drop_leaf_Rep h lt R p q nm cm l1 l2 ex eix x nmx cmx Hsub) as (h' & hq & Ev & R' & _).
  exists h'. split; [exact Ev|eapply Rep_Good; exact R'].
Qed.

(** removeTip, the case where nothing else has to be done (tree.go Case 3): the neighbour of
    the tip keeps at least three neighbours *)
Theorem remove_tip_case3_good h name tip ht q ex hq : Good h ->
  alookup tip (hnodes h) = Some ht -> hneigh ht = [q] -> hbr ht = [ex] -> tip <> hroot h ->
  alookup q (hnodes h) = Some hq -> 4 <= length (hneigh hq) ->
  exists h', remove_tip_heap name tip h = HOk h' /\ Good h'.
Proof.
  intros G Ht Hng Hbr Hnr Hq Hdeg. destruct (Good_Rep h G) as [lt R].
  destruct (leaf_view h lt tip ht q ex R Ht Hng Hbr Hnr) as (p & nm & cm & l1 & l2 & eix & nmx & cmx & Hsub).
  destruct (DL_facts h lt R p q nm cm l1 l2 ex eix tip nmx cmx Hsub)
    as (hq0 & hx & c1 & c2 & Hq0 & Hx0 & _ & _ & _ & _ & _ & _ & _ & _ & _ & Hex & _).
  destruct (drop_leaf_Rep h lt R p q nm cm l1 l2 ex eix tip nmx cmx Hsub) as (h' & hq1 & Ev & R' & Hq1 & Hq' & Lq & _).
  rewrite Hq in Hq1. injection Hq1 as <-.
  unfold remove_tip_heap, get_node. rewrite Ht. cbn [hbind]. rewrite Hng. cbn [length Nat.eqb negb].
  unfold nth_res. rewrite Hbr. cbn [nth_error hbind]. unfold get_edge. rewrite Hex. cbn [hbind hleft].
  destruct (del_neighbor q tip h) as [h1| |] eqn:E1; cbn [hbind] in Ev; try discriminate. cbn [hbind]. rewrite Ev. cbn [hbind].
  rewrite Hq'. cbn [hbind hneigh].
  assert (Ld : S (length (del_nth (length l1) (hneigh hq))) = length (hneigh hq)).
  { apply del_nth_length. rewrite Lq, app_length. lia. }
  destruct (Nat.eqb_spec (length (del_nth (length l1) (hneigh hq))) 1) as [E|_]; [lia|]. cbn [hbind].
  rewrite Hq'. cbn [hbind hneigh]. destruct (Nat.eqb_spec (length (del_nth (length l1) (hneigh hq))) 2) as [E|_]; [lia|].
  exists h'. split; [reflexivity|eapply Rep_Good; exact R'].
Qed.

(** * removeTip Case 2, building blocks *)

(** the child side of delNeighbor(old parent) + ConnectNodes(new parent, child): the parent
    slot of [b] moves to the end of its arrays and now holds ([a], [e3]) *)
Lemma reattach_child h h' r eb b nmb cmb slb hnb ib a e3 :
  alookup b (hnodes h) = Some hnb -> hname hnb = nmb -> hcom hnb = cmb ->
  length (hneigh hnb) = length (hbr hnb) ->
  Forall2 (slot_ok true h (Some (r, eb)) b) (slots_of hnb) slb -> lnup slb = 1 ->
  (forall y, In y (sids slb) -> y <> r) -> index_of r (hneigh hnb) = Some ib ->
  alookup b (hnodes h') = Some (mkHN (hname hnb) (hcom hnb) (del_nth ib (hneigh hnb) ++ [a]) (del_nth ib (hbr hnb) ++ [e3])) ->
  (forall y, In y (sids slb) -> alookup y (hnodes h') = alookup y (hnodes h)) ->
  (forall y, In y (seids slb) -> alookup y (hedges h') = alookup y (hedges h) /\ y <> e3) ->
  shape true h' (Some (a, e3)) (LNode b nmb cmb (ldrop_up slb ++ [None])).
Proof.
  intros Hb Hnm Hcm Hlen F Hup Hr Hib Hb' Fn Fe.
  destruct (drop_up_Forall2 (slot_ok true h (Some (r, eb)) b) r slb (hneigh hnb) (hbr hnb) Hlen F) as [ib' (B1 & B2 & B3)].
  { intros j y Hj. eapply neigh_iff_none; eassumption. }
  { apply lnup_pos_in. lia. }
  rewrite Hib in B1. injection B1 as <-.
  assert (Lib : ib < length (hneigh hnb)) by lia.
  pose proof (del_nth_length ib (hneigh hnb) Lib) as Lb1. pose proof (del_nth_length ib (hbr hnb) B2) as Lb2.
  assert (Zb : lnup (ldrop_up slb) = 0) by (rewrite lnup_drop_up, Hup; reflexivity).
  apply shape_unfold. eexists. split; [exact Hb'|]. cbn [hname hcom hneigh hbr].
  split; [exact Hnm|]. split; [exact Hcm|]. split; [rewrite !app_length; cbn; lia|].
  rewrite combine_app_eq by lia. apply Forall2_app; [|constructor; [reflexivity|constructor]].
  eapply Forall2_impl_r; [exact B3|]. intros ce s Hs Hok. destruct s as [[[e ei] ch]|]; [|exfalso; exact (lnup_zero_notin _ Zb Hs)].
  apply in_ldrop_up in Hs. cbn [slot_ok] in *. destruct Hok as (_ & E2 & E3 & E4 & E5).
  split.
  { intros E0. injection E0 as E0. destruct (Fe e) as [_ N]; [eapply in_seids_here; exact Hs|]. apply N. rewrite E2, <- E0. reflexivity. }
  split; [exact E2|]. split; [exact E3|]. split.
  - eapply edge_ok_eq; [|exact E4]. rewrite <- E2. apply Fe. eapply in_seids_here. exact Hs.
  - eapply shape_frame; [| |exact E5].
    + intros y Hy. apply Fn. eapply in_sids; eassumption.
    + intros y Hy. apply Fe. eapply in_seids; eassumption.
Qed.

(** the heap after suppressing the inner node [i] between its parent [P] and its only child [C] *)
Record splice_desc (h h' : heap) (P i C eP eC : nat) (XP XC : hnode) (einfo : einfo) : Prop := {
  sd_nodes : forall x, alookup x (hnodes h') =
     if Nat.eqb x i then None else if Nat.eqb x P then Some XP else if Nat.eqb x C then Some XC else alookup x (hnodes h);
  sd_edges : forall y, alookup y (hedges h') =
     if Nat.eqb y eP then None else if Nat.eqb y eC then None
     else if Nat.eqb y (hnexte h) then Some (mkHE P C einfo) else alookup y (hedges h);
  sd_root : hroot h' = hroot h;
  sd_nextn : hnextn h' = hnextn h;
  sd_nexte : hnexte h' = S (hnexte h)
}.

Section Splice.
  Variables (h h' : heap) (lt : ltree).
  Hypothesis R : Rep h lt.
  Variables (p : option (nat * nat)) (P : nat) (nmP : string) (cmP : list string) (l1 l2 : list lslot).
  Variables (eP : nat) (eiP : einfo) (i : nat) (nmi : string) (cmi : list string) (pfirst : bool).
  Variables (eC : nat) (eiC : einfo) (C : nat) (nmC : string) (cmC : list string) (slC : list lslot).
  Let Cn := LNode C nmC cmC slC.
  Let sli : list lslot := if pfirst then [None; Some (eC, eiC, Cn)] else [Some (eC, eiC, Cn); None].
  Let In_ := LNode i nmi cmi sli.
  Let sub := LNode P nmP cmP (l1 ++ Some (eP, eiP, In_) :: l2).
  Hypothesis Hsub : In (p, sub) (lsubs None lt).
  Variables (hP hC : hnode) (iC : nat) (einfo : einfo).
  Hypothesis HP : alookup P (hnodes h) = Some hP.
  Hypothesis HC : alookup C (hnodes h) = Some hC.
  Hypothesis HiC : index_of i (hneigh hC) = Some iC.
  Let enew := hnexte h.
  Let XP := mkHN (hname hP) (hcom hP) (del_nth (length l1) (hneigh hP) ++ [C]) (del_nth (length l1) (hbr hP) ++ [enew]).
  Let XC := mkHN (hname hC) (hcom hC) (del_nth iC (hneigh hC) ++ [P]) (del_nth iC (hbr hC) ++ [enew]).
  Hypothesis D : splice_desc h h' P i C eP eC XP XC einfo.
  Let Cn' := LNode C nmC cmC (ldrop_up slC ++ [None]).
  Let new := LNode P nmP cmP ((l1 ++ l2) ++ [Some (enew, einfo, Cn')]).

  Lemma SP_sli : sids sli = C :: sids slC /\ seids sli = eC :: seids slC /\ In (Some (eC, eiC, Cn)) sli.
  Proof.
    unfold sli, Cn. destruct pfirst; cbn [sids seids flat_map app]; rewrite ?app_nil_r, ?lids_eq; fold (sids slC) (seids slC);
      (split; [reflexivity|split; [rewrite leids_eq; reflexivity|]]); [right; left; reflexivity|left; reflexivity].
  Qed.

  Lemma SP_ids : lids sub = P :: sids l1 ++ (i :: C :: sids slC) ++ sids l2 /\
                 leids sub = seids l1 ++ eP :: (eC :: seids slC) ++ seids l2 /\
                 lids new = P :: (sids l1 ++ sids l2) ++ C :: sids slC /\
                 leids new = (seids l1 ++ seids l2) ++ enew :: seids slC.
  Proof.
    destruct SP_sli as (E1 & E2 & _). unfold sub, new, In_, Cn'. rewrite !lids_eq, !leids_eq.
    fold (sids (l1 ++ Some (eP, eiP, LNode i nmi cmi sli) :: l2)) (seids (l1 ++ Some (eP, eiP, LNode i nmi cmi sli) :: l2)).
    rewrite sids_app_cons, seids_app_cons, lids_eq, leids_eq. fold (sids sli) (seids sli). rewrite E1, E2.
    fold (sids ((l1 ++ l2) ++ [Some (enew, einfo, LNode C nmC cmC (ldrop_up slC ++ [None]))]))
         (seids ((l1 ++ l2) ++ [Some (enew, einfo, LNode C nmC cmC (ldrop_up slC ++ [None]))])).
    rewrite !sids_app, !seids_app. cbn [sids seids flat_map]. rewrite lids_eq, leids_eq.
    fold (sids (ldrop_up slC ++ [None])) (seids (ldrop_up slC ++ [None])). rewrite sids_app, seids_app, sids_drop_up, seids_drop_up.
    cbn [sids seids flat_map]. rewrite !app_nil_r. repeat split; reflexivity.
  Qed.

  Lemma SP_HsubI : In (Some (P, eP), In_) (lsubs None lt).
  Proof. eapply lsubs_trans; [exact Hsub|]. unfold sub. eapply lsubs_child. apply in_or_app. right. left. reflexivity. Qed.
  Lemma SP_HsubC : In (Some (i, eC), Cn) (lsubs None lt).
  Proof. eapply lsubs_trans; [exact SP_HsubI|]. unfold In_. eapply lsubs_child. apply SP_sli. Qed.

  Lemma SP_facts : exists c1 c2,
    slots_of hP = c1 ++ (i, eP) :: c2 /\ length c1 = length l1 /\
    Forall2 (slot_ok true h p P) c1 l1 /\ Forall2 (slot_ok true h p P) c2 l2 /\
    length (hneigh hP) = length (hbr hP) /\ hname hP = nmP /\ hcom hP = cmP /\
    alookup eP (hedges h) <> None /\ alookup eC (hedges h) <> None /\ alookup i (hnodes h) <> None /\
    hname hC = nmC /\ hcom hC = cmC /\ length (hneigh hC) = length (hbr hC) /\
    Forall2 (slot_ok true h (Some (i, eC)) C) (slots_of hC) slC /\ lnup slC = 1 /\
    (forall e' ei' ch', In (Some (e', ei', ch')) slC -> lwf_sub ch').
  Proof.
    pose proof (shape_lsubs _ _ _ _ _ _ (rep_shape _ _ R) Hsub) as Sh. unfold sub in Sh.
    apply shape_unfold in Sh. destruct Sh as [hP0 (A1 & A2 & A3 & A4 & A5)]. rewrite HP in A1. injection A1 as <-.
    apply Forall2_app_inv_r in A5. destruct A5 as (c1 & c2' & F1 & F2 & Ec).
    apply Forall2_cons_inv_r in F2. destruct F2 as (ce & c2 & Ec2 & Ok0 & F2'). rewrite Ec2 in Ec. clear Ec2 c2'.
    destruct ce as [x0 e0]. cbn [slot_ok fst snd] in Ok0. destruct Ok0 as (_ & Ee & Er & [ed (E1 & _)] & _).
    subst e0. unfold In_ in Er. cbn [lid] in Er. subst x0.
    pose proof (shape_lsubs _ _ _ _ _ _ (rep_shape _ _ R) SP_HsubC) as ShC. unfold Cn in ShC.
    apply shape_unfold in ShC. destruct ShC as [hC0 (B1 & B2 & B3 & B4 & B5)]. rewrite HC in B1. injection B1 as <-.
    destruct (lwf_sub_lsubs lt None _ _ (or_introl (rep_wf _ _ R)) SP_HsubC) as [E|W]; [discriminate|].
    unfold Cn in W. apply lwf_sub_iff in W. destruct W as [W1 W2].
    exists c1, c2. repeat split; try assumption; try (eapply Forall2_length'; eassumption); try congruence.
    - apply (rep_edges _ _ R). eapply lsubs_sub_leids; [exact SP_HsubI|]. unfold In_. eapply in_leids_here. apply SP_sli.
    - apply (rep_nodes _ _ R). eapply lsubs_in_lids with (sub := In_). exact SP_HsubI.
  Qed.

  Theorem SP_Rep : Rep h' (lreplace P new lt).
  Proof.
    destruct SP_facts as (c1 & c2 & Ec & Lc & F1 & F2 & A4 & A2 & A3 & HeP & HeC & Hi & B2 & B3 & B4 & B5 & W1 & W2).
    destruct SP_ids as (EN & EE & ENn & EEn).
    assert (Nd : NoDup (lids sub)) by (eapply lsubs_NoDup; [exact (rep_nd _ _ R)|exact Hsub]).
    pose proof (shape_lsubs _ _ _ _ _ _ (rep_shape _ _ R) Hsub) as Shsub.
    pose proof (shape_NoDup_leids _ _ _ Shsub Nd) as Ned.
    assert (SubN : forall y, In y (lids sub) -> In y (lids lt)) by (intros y Hy; eapply lsubs_sub_lids; eassumption).
    assert (SubE : forall y, In y (leids sub) -> In y (leids lt)) by (intros y Hy; eapply lsubs_sub_leids; eassumption).
    assert (FreshE : forall y, In y (leids lt) -> y <> enew) by (intros y Hy; apply (rep_fe _ _ R) in Hy; unfold enew; lia).
    assert (PN : Permutation (i :: lids new) (lids sub)).
    { rewrite EN, ENn. rewrite perm_swap. apply perm_skip. rewrite <- !app_assoc. rewrite Permutation_middle. apply Permutation_app_head.
      cbn [app]. apply perm_skip. apply (Permutation_app_comm (sids l2) (C :: sids slC)). }
    pose proof (Permutation_NoDup (Permutation_sym PN) Nd) as X1. apply NoDup_cons_iff in X1. destruct X1 as [Rn NdN].
    assert (InN : forall y, In y (lids new) <-> In y (lids sub) /\ y <> i).
    { intros y. split.
      - intros Hy. split; [eapply Permutation_in; [exact PN|right; exact Hy]|intros ->; contradiction].
      - intros [Hy Hne]. apply (Permutation_in _ (Permutation_sym PN)) in Hy. destruct Hy as [E0|Hy]; [congruence|exact Hy]. }
    assert (PE : Permutation (eP :: eC :: seids l1 ++ seids l2 ++ seids slC) (leids sub)).
    { rewrite EE. symmetry. rewrite <- (Permutation_middle (seids l1) _ eP). apply perm_skip. cbn [app].
      rewrite <- (Permutation_middle (seids l1) _ eC). apply perm_skip. apply Permutation_app_head. apply Permutation_app_comm. }
    pose proof (Permutation_NoDup (Permutation_sym PE) Ned) as X2. apply NoDup_cons_iff in X2. destruct X2 as [Re1 X2].
    apply NoDup_cons_iff in X2. destruct X2 as [Re2 NdE0].
    assert (InE0 : forall y, In y (seids l1 ++ seids l2 ++ seids slC) <-> In y (leids sub) /\ y <> eP /\ y <> eC).
    { intros y. split.
      - intros Hy. split; [eapply Permutation_in; [exact PE|right; right; exact Hy]|]. split; intros ->; [apply Re1; right; exact Hy|contradiction].
      - intros (Hy & N1 & N2). apply (Permutation_in _ (Permutation_sym PE)) in Hy. destruct Hy as [E0|[E0|Hy]]; [congruence|congruence|exact Hy]. }
    assert (InE : forall y, In y (leids new) <-> y = enew \/ In y (seids l1 ++ seids l2 ++ seids slC)).
    { intros y. rewrite EEn. repeat (progress cbn [In] || rewrite in_app_iff). intuition. }
    assert (InP : In P (lids sub)) by (rewrite EN; left; reflexivity).
    assert (Ini : In i (lids sub)) by (rewrite EN; right; apply in_or_app; right; left; reflexivity).
    assert (InC : In C (lids sub)) by (rewrite EN; right; apply in_or_app; right; right; left; reflexivity).
    assert (IneP : In eP (leids sub)) by (rewrite EE; apply in_or_app; right; left; reflexivity).
    assert (IneC : In eC (leids sub)) by (rewrite EE; apply in_or_app; right; right; left; reflexivity).
    assert (Dist : P <> i /\ C <> i /\ P <> C).
    { rewrite EN in Nd. apply NoDup_cons_iff in Nd. destruct Nd as [N1 N2]. apply NoDup_app_iff in N2. destruct N2 as (_ & N3 & _).
      apply NoDup_app_iff in N3. destruct N3 as (N4 & _). apply NoDup_cons_iff in N4. destruct N4 as [N5 _].
      repeat split; intros E0.
      - apply N1. rewrite E0. apply in_or_app. right. left. reflexivity.
      - apply N5. left. exact E0.
      - apply N1. rewrite E0. apply in_or_app. right. right. left. reflexivity. }
    destruct Dist as (NPi & NCi & NPC).
    assert (NP' : alookup P (hnodes h') = Some XP).
    { rewrite (sd_nodes _ _ _ _ _ _ _ _ _ _ D). destruct (Nat.eqb_spec P i); [contradiction|]. rewrite Nat.eqb_refl. reflexivity. }
    assert (NC' : alookup C (hnodes h') = Some XC).
    { rewrite (sd_nodes _ _ _ _ _ _ _ _ _ _ D). destruct (Nat.eqb_spec C i); [contradiction|]. destruct (Nat.eqb_spec C P); [congruence|].
      rewrite Nat.eqb_refl. reflexivity. }
    assert (Nsame : forall y, y <> i -> y <> P -> y <> C -> alookup y (hnodes h') = alookup y (hnodes h)).
    { intros y Y1 Y2 Y3. rewrite (sd_nodes _ _ _ _ _ _ _ _ _ _ D). destruct (Nat.eqb_spec y i); [contradiction|].
      destruct (Nat.eqb_spec y P); [contradiction|]. destruct (Nat.eqb_spec y C); [contradiction|]. reflexivity. }
    assert (Esame : forall y, y <> eP -> y <> eC -> y <> enew -> alookup y (hedges h') = alookup y (hedges h)).
    { intros y Y1 Y2 Y3. rewrite (sd_edges _ _ _ _ _ _ _ _ _ _ D). destruct (Nat.eqb_spec y eP); [contradiction|].
      destruct (Nat.eqb_spec y eC); [contradiction|]. destruct (Nat.eqb_spec y (hnexte h)); [contradiction|]. reflexivity. }
    assert (Enew' : alookup enew (hedges h') = Some (mkHE P C einfo)).
    { rewrite (sd_edges _ _ _ _ _ _ _ _ _ _ D). unfold enew.
      destruct (Nat.eqb_spec (hnexte h) eP) as [E0|_]; [exfalso; apply (FreshE eP); [apply SubE; exact IneP|symmetry; exact E0]|].
      destruct (Nat.eqb_spec (hnexte h) eC) as [E0|_]; [exfalso; apply (FreshE eC); [apply SubE; exact IneC|symmetry; exact E0]|].
      rewrite Nat.eqb_refl. reflexivity. }
    (* inner ids / edges of the untouched parts *)
    assert (InnN : forall y, In y (sids l1 ++ sids l2 ++ sids slC) -> In y (lids sub) /\ y <> i /\ y <> P /\ y <> C).
    { intros y Hy. rewrite EN in Nd. apply NoDup_cons_iff in Nd. destruct Nd as [N1 N2]. apply NoDup_app_iff in N2. destruct N2 as (M1 & M2 & M3).
      apply NoDup_app_iff in M2. destruct M2 as (M4 & M5 & M6). apply NoDup_cons_iff in M4. destruct M4 as [M7 M8]. apply NoDup_cons_iff in M8. destruct M8 as [M9 _].
      rewrite !in_app_iff in Hy. split; [rewrite EN; right; rewrite !in_app_iff; cbn [In]; tauto|]. repeat split; intros ->.
      - destruct Hy as [Hy|[Hy|Hy]]; [apply (M3 i Hy); apply in_or_app; left; left; reflexivity|apply (M6 i); [left; reflexivity|exact Hy]|apply M7; right; exact Hy].
      - apply N1. rewrite !in_app_iff. cbn [In]. tauto.
      - destruct Hy as [Hy|[Hy|Hy]]; [apply (M3 C Hy); apply in_or_app; left; right; left; reflexivity|apply (M6 C); [right; left; reflexivity|exact Hy]|exact (M9 Hy)]. }
    assert (InnE : forall y, In y (seids l1 ++ seids l2 ++ seids slC) -> alookup y (hedges h') = alookup y (hedges h) /\ y <> enew).
    { intros y Hy. apply InE0 in Hy. destruct Hy as (Y1 & Y2 & Y3). pose proof (FreshE y (SubE y Y1)) as Y4. split; [apply Esame; assumption|exact Y4]. }
    (* sibling slots of P *)
    assert (Tr : forall cs ls, (forall s, In s ls -> In s (l1 ++ l2)) ->
               Forall2 (slot_ok true h p P) cs ls -> Forall2 (slot_ok true h' p P) cs ls).
    { intros cs ls Hls F. eapply Forall2_impl_r; [exact F|]. intros ce s Hs Hok. destruct s as [[[e2 ei2] X]|]; [|exact Hok].
      pose proof (Hls _ Hs) as Hs'.
      assert (HXn : forall y, In y (lids X) -> In y (sids l1 ++ sids l2 ++ sids slC)).
      { intros y Hy. rewrite app_assoc. apply in_or_app. left. rewrite <- sids_app. eapply in_sids; eassumption. }
      assert (HXe : forall y, In y (e2 :: leids X) -> In y (seids l1 ++ seids l2 ++ seids slC)).
      { intros y Hy. rewrite app_assoc. apply in_or_app. left. rewrite <- seids_app.
        destruct Hy as [<-|Hy]; [eapply in_seids_here|eapply in_seids]; eassumption. }
      cbn [slot_ok] in *. destruct Hok as (B1' & B2' & B3' & B4' & B5'). repeat split; try assumption.
      - eapply edge_ok_eq; [|exact B4']. rewrite <- B2'. apply InnE. apply HXe. left. reflexivity.
      - eapply shape_frame; [| |exact B5'].
        + intros y Hy. destruct (InnN y (HXn y Hy)) as (_ & Y1 & Y2 & Y3). apply Nsame; assumption.
        + intros y Hy. apply InnE. apply HXe. right. exact Hy. }
    assert (L0 : length l1 < length (hneigh hP)).
    { rewrite <- (slots_of_fst hP A4), map_length, Ec, app_length. cbn. lia. }
    apply (Rep_replace h h' lt P p sub new R Hsub eq_refl eq_refl).
    - unfold new. apply shape_unfold. exists XP. split; [exact NP'|]. unfold XP. cbn [hname hcom hneigh hbr].
      split; [exact A2|]. split; [exact A3|].
      pose proof (del_nth_length (length l1) (hneigh hP) L0). pose proof (del_nth_length (length l1) (hbr hP) ltac:(lia)).
      split; [rewrite !app_length; cbn; lia|]. rewrite combine_app_eq by lia. rewrite combine_del_nth.
      change (combine (hneigh hP) (hbr hP)) with (slots_of hP). rewrite Ec, <- Lc, del_nth_app_mid.
      apply Forall2_app; [apply Forall2_app; apply Tr; try assumption; intros s Hs; apply in_or_app; [left|right]; exact Hs|].
      constructor; [|constructor]. cbn [slot_ok fst snd lid]. split.
      { destruct p as [[pp pe]|]; [|discriminate]. intros [= X1 X2].
        destruct (Rep_parent h lt R pp pe sub Hsub) as (hm & ed0 & P1 & P2 & P3 & _).
        apply (FreshE pe); [apply (rep_edges _ _ R); congruence|exact X2]. }
      split; [reflexivity|]. split; [reflexivity|]. split; [eexists; split; [exact Enew'|]; repeat split|].
      eapply (reattach_child h h' i eC C nmC cmC slC hC iC P enew); try eassumption.
      + intros y Hy. apply (InnN y). apply in_or_app. right. apply in_or_app. right. exact Hy.
      + intros y Hy. destruct (InnN y) as (_ & Y1 & Y2 & Y3); [apply in_or_app; right; apply in_or_app; right; exact Hy|]. apply Nsame; assumption.
      + intros y Hy. apply InnE. apply in_or_app. right. apply in_or_app. right. exact Hy.
    - intros y Hy Hy'. apply Nsame; intros ->; contradiction.
    - intros y Hy Hy'. apply Esame; [intros ->; contradiction|intros ->; contradiction|apply FreshE; exact Hy].
    - intros Wsub. unfold sub in Wsub. apply lwf_iff in Wsub. destruct Wsub as [Y1 Y2]. unfold new. apply lwf_iff. split.
      + rewrite !lnup_app in *. unfold lnup in Y1 at 2. cbn in Y1. fold (lnup l2) in Y1. unfold lnup at 3. cbn. lia.
      + intros e' ei' ch' Hin. apply in_app_or in Hin. destruct Hin as [Hin|[[= <- <- <-]|[]]].
        * apply (Y2 e' ei' ch'). apply in_app_or in Hin. apply in_or_app. destruct Hin; [left|right; right]; assumption.
        * unfold Cn'. apply lwf_sub_iff. split; [rewrite lnup_app, lnup_drop_up, W1; reflexivity|].
          intros e2 ei2 ch2 Hin. apply in_app_or in Hin. destruct Hin as [Hin|[E0|[]]]; [|discriminate]. apply in_ldrop_up in Hin. exact (W2 _ _ _ Hin).
    - intros Wsub. unfold sub in Wsub. apply lwf_sub_iff in Wsub. destruct Wsub as [Y1 Y2]. unfold new. apply lwf_sub_iff. split.
      + rewrite !lnup_app in *. unfold lnup in Y1 at 2. cbn in Y1. fold (lnup l2) in Y1. unfold lnup at 3. cbn. lia.
      + intros e' ei' ch' Hin. apply in_app_or in Hin. destruct Hin as [Hin|[[= <- <- <-]|[]]].
        * apply (Y2 e' ei' ch'). apply in_app_or in Hin. apply in_or_app. destruct Hin; [left|right; right]; assumption.
        * unfold Cn'. apply lwf_sub_iff. split; [rewrite lnup_app, lnup_drop_up, W1; reflexivity|].
          intros e2 ei2 ch2 Hin. apply in_app_or in Hin. destruct Hin as [Hin|[E0|[]]]; [|discriminate]. apply in_ldrop_up in Hin. exact (W2 _ _ _ Hin).
    - exact (sd_root _ _ _ _ _ _ _ _ _ _ D).
    - exact NdN.
    - intros y Hy. left. apply InN in Hy. tauto.
    - rewrite EEn. eapply Permutation_NoDup; [apply Permutation_middle|]. constructor.
      + rewrite <- app_assoc. intros Hy. apply InE0 in Hy. destruct Hy as (Y1 & _). exact (FreshE enew (SubE _ Y1) eq_refl).
      + rewrite <- app_assoc. exact NdE0.
    - intros y Hy. apply InE in Hy. destruct Hy as [->|Hy]; [right; intros X; exact (FreshE enew X eq_refl)|left; apply InE0 in Hy; tauto].
    - intros y. rewrite InN. rewrite (sd_nodes _ _ _ _ _ _ _ _ _ _ D).
      destruct (Nat.eqb_spec y i) as [->|Ni]; [split; [congruence|]; intros [[_ X]|[_ X]]; [congruence|contradiction]|].
      destruct (Nat.eqb_spec y P) as [->|NP]; [split; [intros _; left; tauto|discriminate]|].
      destruct (Nat.eqb_spec y C) as [->|NC]; [split; [intros _; left; tauto|discriminate]|].
      rewrite <- (rep_nodes _ _ R y). split.
      + intros Hy. destruct (in_dec Nat.eq_dec y (lids sub)); tauto.
      + intros [[X _]|[X _]]; [apply SubN; exact X|exact X].
    - intros y. rewrite InE. rewrite (sd_edges _ _ _ _ _ _ _ _ _ _ D).
      destruct (Nat.eqb_spec y eP) as [->|N1].
      { split; [congruence|]. intros [[X|X]|[_ X]]; [exfalso; apply (FreshE eP); [apply SubE; exact IneP|exact X]|apply InE0 in X; tauto|contradiction]. }
      destruct (Nat.eqb_spec y eC) as [->|N2].
      { split; [congruence|]. intros [[X|X]|[_ X]]; [exfalso; apply (FreshE eC); [apply SubE; exact IneC|exact X]|apply InE0 in X; tauto|contradiction]. }
      destruct (Nat.eqb_spec y (hnexte h)) as [->|N3]; [split; [intros _; left; left; reflexivity|discriminate]|].
      rewrite <- (rep_edges _ _ R y). split.
      + intros Hy. destruct (in_dec Nat.eq_dec y (leids sub)) as [Hin0|Hin0]; [left; right; apply InE0; tauto|right; tauto].
      + intros [[X|X]|[X _]]; [unfold enew in X; contradiction|apply SubE; apply InE0 in X; tauto|exact X].
    - intros y Hy. rewrite (sd_nextn _ _ _ _ _ _ _ _ _ _ D). apply (rep_fn _ _ R). rewrite (sd_nodes _ _ _ _ _ _ _ _ _ _ D) in Hy.
      destruct (Nat.eqb_spec y i); [congruence|]. destruct (Nat.eqb_spec y P) as [E1|_]; [rewrite E1; apply SubN; exact InP|].
      destruct (Nat.eqb_spec y C) as [E1|_]; [rewrite E1; apply SubN; exact InC|]. apply (rep_nodes _ _ R). exact Hy.
    - intros y Hy. rewrite (sd_nexte _ _ _ _ _ _ _ _ _ _ D). rewrite (sd_edges _ _ _ _ _ _ _ _ _ _ D) in Hy.
      destruct (Nat.eqb_spec y eP); [congruence|]. destruct (Nat.eqb_spec y eC); [congruence|].
      destruct (Nat.eqb_spec y (hnexte h)) as [E1|_]; [lia|]. apply (rep_edges _ _ R), (rep_fe _ _ R) in Hy. lia.
  Qed.
End Splice.

(** * removeTip: the tail of the function (Case 2 / Case 3), and the function in pieces *)
Local Open Scope string_scope.
Definition suppress_tail (tipname : string) (internal : nat) (h : heap) : hres heap :=
    do hi <- get_node h internal;
    if Nat.eqb (length (hneigh hi)) 2 then
      do n1 <- nth_res (hneigh hi) 0;
      do n2 <- nth_res (hneigh hi) 1;
      do b1 <- nth_res (hbr hi) 0;
      do b2 <- nth_res (hbr hi) 1;
      do bd1 <- get_edge h b1;
      do bd2 <- get_edge h b2;
      let length1 := elen (hinfo bd1) in
      let length2 := elen (hinfo bd2) in
      let sup1 := esup (hinfo bd1) in
      let sup2 := esup (hinfo bd2) in
      let dir1 := Nat.eqb (hleft bd1) n1 in
      let dir2 := Nat.eqb (hright bd2) n2 in
      do h <- del_neighbor n1 internal h;
      do h <- del_neighbor n2 internal h;
      do hn1 <- get_node h n1;
      do hn2 <- get_node h n2;
      do (e, h) <-
         (if dir1 && dir2 then connect_nodes n1 n2 h
          else if negb dir1 && negb dir2 then connect_nodes n2 n1 h
          else if negb dir1 && dir2 then
            if negb (Nat.eqb (hroot h) internal)
            then HErr ("The tree root is not the internal node, but it should be, while removing tip " ++ tipname)
            else if Nat.ltb 1 (length (hneigh hn1)) then
              do (e, h) <- connect_nodes n1 n2 h; HOk (e, set_root h n1)
            else if Nat.ltb 1 (length (hneigh hn2)) then
              do (e, h) <- connect_nodes n2 n1 h; HOk (e, set_root h n2)
            else if Nat.eqb (length (hneigh hn2)) 1 || Nat.eqb (length (hneigh hn1)) 1 then
              HErr ("After removing the tip " ++ tipname ++ " connected to the root, RemoveTip could not find a new node to set as a root (the children of the root are either tips or single nodes). You can run gotree collapse single or call RemoveSingleNodes.")
            else HErr ("The tree after tip removal is only made of two tips after removing tip " ++ tipname)
          else HErr ("Branches of internal node are not oriented as they should be while removing tip " ++ tipname));
      (* math.Max(0,l1)+math.Max(0,l2) and math.Max(sup1,sup2) are symmetric on floats; the model
         lists the branch nearer the root first, as Model/Prune.v [merge_edge] does *)
      let swap := negb dir1 && negb dir2 in
      let la := if swap then length2 else length1 in
      let lb := if swap then length1 else length2 in
      let sa := if swap then sup2 else sup1 in
      let sb := if swap then sup1 else sup2 in
      do h <- (if negb (qeqb la nilv) || negb (qeqb lb nilv)
               then set_info h e (fun i => mkE (qmax 0%Q la + qmax 0%Q lb)%Q (esup i) (epv i) (ecom i))
               else HOk h);
      do hn1 <- get_node h n1;
      do hn2 <- get_node h n2;
      do h <- (if (negb (qeqb sa nilv) || negb (qeqb sb nilv)) &&
                  Nat.ltb 1 (length (hneigh (if swap then hn2 else hn1))) &&
                  Nat.ltb 1 (length (hneigh (if swap then hn1 else hn2)))
               then set_info h e (fun i => mkE (elen i) (qmax sa sb) (epv i) (ecom i))
               else HOk h);
      del_node internal h
    else HOk h.
Local Close Scope string_scope.

Lemma remove_tip_heap_eq tipname tip h :
  remove_tip_heap tipname tip h =
  do ht <- get_node h tip;
  if negb (Nat.eqb (length (hneigh ht)) 1) then HErr err_rm_not_tip
  else
    do b0 <- nth_res (hbr ht) 0;
    do bd0 <- get_edge h b0;
    let internal := hleft bd0 in
    do h <- del_neighbor internal tip h;
    do h <- del_node tip h;
    do hi <- get_node h internal;
    do (internal, h, fin) <-
       (if Nat.eqb (length (hneigh hi)) 1 then
          do (internal, h) <- single_path_loop (hfuel h) internal h;
          do hi <- get_node h internal;
          if Nat.eqb (hroot h) internal && Nat.eqb (length (hneigh hi)) 1 then
            do c <- nth_res (hneigh hi) 0;
            let h := set_root h c in
            do h <- del_neighbor c internal h;
            do h <- del_node internal h;
            HOk (internal, h, true)
          else HOk (internal, h, false)
        else HOk (internal, h, false));
    if (fin : bool) then HOk h else suppress_tail tipname internal h.
Proof. reflexivity. Qed.

(** the information of the branch made by Case 2 (same body as Model/Prune.v [merge_edge]) *)
Definition merged_info (e1 e2 : einfo) (inner1 inner2 : bool) : einfo :=
  mkE (if negb (qeqb (elen e1) nilv) || negb (qeqb (elen e2) nilv)
       then (qmax 0%Q (elen e1) + qmax 0%Q (elen e2))%Q else nilv)
      (if (negb (qeqb (esup e1) nilv) || negb (qeqb (esup e2) nilv)) && inner1 && inner2
       then qmax (esup e1) (esup e2) else nilv)
      nilv [].

(** Case 2 on an inner node [i] between its parent [P] and its only remaining child [C] *)
Lemma suppress_inner_eval h name i hi P C eP eC (pfirst : bool) hP hC jP jC iP iC :
  alookup i (hnodes h) = Some hi ->
  hneigh hi = (if pfirst then [P; C] else [C; P]) -> hbr hi = (if pfirst then [eP; eC] else [eC; eP]) ->
  alookup eP (hedges h) = Some (mkHE P i iP) -> alookup eC (hedges h) = Some (mkHE i C iC) ->
  alookup P (hnodes h) = Some hP -> alookup C (hnodes h) = Some hC -> P <> C -> P <> i -> C <> i ->
  index_of i (hneigh hP) = Some jP -> jP < length (hbr hP) ->
  index_of i (hneigh hC) = Some jC -> jC < length (hbr hC) ->
  eP <> hnexte h -> eC <> hnexte h -> eP <> eC ->
  exists h' einfo, suppress_tail name i h = HOk h' /\
    splice_desc h h' P i C eP eC
      (mkHN (hname hP) (hcom hP) (del_nth jP (hneigh hP) ++ [C]) (del_nth jP (hbr hP) ++ [hnexte h]))
      (mkHN (hname hC) (hcom hC) (del_nth jC (hneigh hC) ++ [P]) (del_nth jC (hbr hC) ++ [hnexte h])) einfo /\
    einfo = merged_info iP iC (Nat.ltb 1 (length (del_nth jP (hneigh hP) ++ [C]))) (Nat.ltb 1 (length (del_nth jC (hneigh hC) ++ [P]))).
Proof.
  intros Hi Hng Hbr EP EC HP HC NPC NPi NCi IP LP IC LC FP FC NE.
  unfold suppress_tail, get_node at 1. rewrite Hi. cbn [hbind]. rewrite Hng, Hbr.
  destruct pfirst; cbn [length Nat.eqb nth_res nth_error hbind]; unfold get_edge at 1 2; rewrite ?EP, ?EC; cbn [hbind hleft hright hinfo].
  - (* parent slot first: n1 = P, n2 = C *)
    rewrite !Nat.eqb_refl. cbn [andb].
    destruct (del_neighbor_step h P i hP jP HP IP LP) as [h1 (S1 & Nd1 & (Ed1 & Rt1 & Nn1 & Ne1))]. rewrite S1. cbn [hbind].
    assert (HC1 : alookup C (hnodes h1) = Some hC) by (rewrite Nd1; destruct (Nat.eqb_spec C P); [congruence|exact HC]).
    destruct (del_neighbor_step h1 C i hC jC HC1 IC LC) as [h2 (S2 & Nd2 & (Ed2 & Rt2 & Nn2 & Ne2))]. rewrite S2. cbn [hbind].
    set (YP := mkHN (hname hP) (hcom hP) (del_nth jP (hneigh hP)) (del_nth jP (hbr hP))) in *.
    set (YC := mkHN (hname hC) (hcom hC) (del_nth jC (hneigh hC)) (del_nth jC (hbr hC))) in *.
    assert (AP : alookup P (hnodes h2) = Some YP) by (rewrite Nd2; destruct (Nat.eqb_spec P C); [congruence|]; rewrite Nd1, Nat.eqb_refl; reflexivity).
    assert (AC : alookup C (hnodes h2) = Some YC) by (rewrite Nd2, Nat.eqb_refl; reflexivity).
    unfold get_node. rewrite AP, AC. cbn [hbind].
    destruct (connect_nodes_step h2 P C YP YC NPC AP AC) as [h3 (S3 & Nd3 & Ed3 & Rt3 & Nn3 & Ne3)]. rewrite S3. cbn [hbind].
    assert (Hne2 : hnexte h2 = hnexte h) by congruence. assert (Hed2 : hedges h2 = hedges h) by congruence. rewrite Hne2 in *.
    match goal with |- context [if ?c then set_info ?hh ?e ?f else HOk ?hh] =>
      destruct (set_info_if_step hh e P C e0 c f) as [h5 (S5 & Nd5 & Rt5 & Nn5 & Ne5 & Ed5)] end.
    { rewrite Ed3, Nat.eqb_refl. reflexivity. }
    rewrite S5. cbn [hbind]. rewrite Nd5, (Nd3 P), Nat.eqb_refl. cbn [hbind]. rewrite (Nd3 C).
    destruct (Nat.eqb_spec C P); [congruence|]. rewrite Nat.eqb_refl. cbn [hbind].
    match goal with |- context [if ?c then set_info ?hh ?e ?f else HOk ?hh] =>
      destruct (set_info_if_step hh e P C _ c f (eq_trans (Ed5 e) ltac:(rewrite Nat.eqb_refl; reflexivity)))
        as [h6 (S6 & Nd6 & Rt6 & Nn6 & Ne6 & Ed6)] end.
    rewrite S6. cbn [hbind].
    assert (Hi6 : alookup i (hnodes h6) = Some hi).
    { rewrite Nd6, Nd5, Nd3. destruct (Nat.eqb_spec i P); [congruence|]. destruct (Nat.eqb_spec i C); [congruence|].
      rewrite Nd2. destruct (Nat.eqb_spec i C); [congruence|]. rewrite Nd1. destruct (Nat.eqb_spec i P); [congruence|]. exact Hi. }
    destruct (del_node_step2 h6 i hi eP eC Hi6 Hbr) as [h7 (S7 & Nd7 & Ed7 & Rt7 & Nn7 & Ne7)].
    eexists h7, _. split; [exact S7|]. split; [constructor|].
    + intros x. rewrite Nd7, Nd6, Nd5, Nd3, Nd2, Nd1. unfold app_slot, YP, YC. cbn [hname hcom hneigh hbr].
      eqb_cases; subst; try congruence; reflexivity.
    + intros y. rewrite Ed7, Ed6, Ed5, Ed3, Hed2. eqb_cases; subst; try congruence; reflexivity.
    + congruence.
    + congruence.
    + congruence.
    + unfold merged_info, app_slot, YP, YC, e0. cbn [hneigh elen esup epv ecom negb andb].
      repeat match goal with |- context [if ?c then _ else _] => destruct c end; reflexivity.
  - (* child slot first: n1 = C, n2 = P *)
    destruct (Nat.eqb_spec i C) as [E|_]; [congruence|]. destruct (Nat.eqb_spec i P) as [E|_]; [congruence|]. cbn [andb negb].
    destruct (del_neighbor_step h C i hC jC HC IC LC) as [h1 (S1 & Nd1 & (Ed1 & Rt1 & Nn1 & Ne1))]. rewrite S1. cbn [hbind].
    assert (HP1 : alookup P (hnodes h1) = Some hP) by (rewrite Nd1; destruct (Nat.eqb_spec P C); [congruence|exact HP]).
    destruct (del_neighbor_step h1 P i hP jP HP1 IP LP) as [h2 (S2 & Nd2 & (Ed2 & Rt2 & Nn2 & Ne2))]. rewrite S2. cbn [hbind].
    set (YP := mkHN (hname hP) (hcom hP) (del_nth jP (hneigh hP)) (del_nth jP (hbr hP))) in *.
    set (YC := mkHN (hname hC) (hcom hC) (del_nth jC (hneigh hC)) (del_nth jC (hbr hC))) in *.
    assert (AC : alookup C (hnodes h2) = Some YC) by (rewrite Nd2; destruct (Nat.eqb_spec C P); [congruence|]; rewrite Nd1, Nat.eqb_refl; reflexivity).
    assert (AP : alookup P (hnodes h2) = Some YP) by (rewrite Nd2, Nat.eqb_refl; reflexivity).
    unfold get_node. rewrite AP, AC. cbn [hbind].
    destruct (connect_nodes_step h2 P C YP YC NPC AP AC) as [h3 (S3 & Nd3 & Ed3 & Rt3 & Nn3 & Ne3)]. rewrite S3. cbn [hbind].
    assert (Hne2 : hnexte h2 = hnexte h) by congruence. assert (Hed2 : hedges h2 = hedges h) by congruence. rewrite Hne2 in *.
    match goal with |- context [if ?c then set_info ?hh ?e ?f else HOk ?hh] =>
      destruct (set_info_if_step hh e P C e0 c f) as [h5 (S5 & Nd5 & Rt5 & Nn5 & Ne5 & Ed5)] end.
    { rewrite Ed3, Nat.eqb_refl. reflexivity. }
    rewrite S5. cbn [hbind]. rewrite Nd5, (Nd3 C). destruct (Nat.eqb_spec C P); [congruence|]. rewrite Nat.eqb_refl. cbn [hbind].
    rewrite (Nd3 P), Nat.eqb_refl. cbn [hbind].
    match goal with |- context [if ?c then set_info ?hh ?e ?f else HOk ?hh] =>
      destruct (set_info_if_step hh e P C _ c f (eq_trans (Ed5 e) ltac:(rewrite Nat.eqb_refl; reflexivity)))
        as [h6 (S6 & Nd6 & Rt6 & Nn6 & Ne6 & Ed6)] end.
    rewrite S6. cbn [hbind].
    assert (Hi6 : alookup i (hnodes h6) = Some hi).
    { rewrite Nd6, Nd5, Nd3. destruct (Nat.eqb_spec i P); [congruence|]. destruct (Nat.eqb_spec i C); [congruence|].
      rewrite Nd2. destruct (Nat.eqb_spec i P); [congruence|]. rewrite Nd1. destruct (Nat.eqb_spec i C); [congruence|]. exact Hi. }
    destruct (del_node_step2 h6 i hi eC eP Hi6 Hbr) as [h7 (S7 & Nd7 & Ed7 & Rt7 & Nn7 & Ne7)].
    eexists h7, _. split; [exact S7|]. split; [constructor|].
    + intros x. rewrite Nd7, Nd6, Nd5, Nd3, Nd2, Nd1. unfold app_slot, YP, YC. cbn [hname hcom hneigh hbr].
      eqb_cases; subst; try congruence; reflexivity.
    + intros y. rewrite Ed7, Ed6, Ed5, Ed3, Hed2. eqb_cases; subst; try congruence; reflexivity.
    + congruence.
    + congruence.
    + congruence.
    + unfold merged_info, app_slot, YP, YC, e0. cbn [hneigh elen esup epv ecom negb andb].
      repeat match goal with |- context [if ?c then _ else _] => destruct c end; reflexivity.
Qed.

Lemma two_slots_one_up (sl : list lslot) : length sl = 2 -> lnup sl = 1 ->
  exists e ei ch, sl = [None; Some (e, ei, ch)] \/ sl = [Some (e, ei, ch); None].
Proof.
  intros L U. destruct sl as [|a [|b [|c sl]]]; cbn in L; try lia.
  destruct a as [[[e1 i1] c1]|], b as [[[e2 i2] c2]|]; cbn in U; try discriminate.
  - exists e1, i1, c1. right. reflexivity.
  - exists e2, i2, c2. left. reflexivity.
Qed.

(** Case 2 on a non-root node keeps the representation; the new tree is explicit *)
Theorem suppress_inner_Rep_x h lt name p P0 nmP cmP l1 l2 eP0 eiP i nmi cmi (pfirst : bool) eC eiC C nmC cmC slC : Rep h lt ->
  let sli := if pfirst then [None; Some (eC, eiC, LNode C nmC cmC slC)] else [Some (eC, eiC, LNode C nmC cmC slC); None] in
  In (p, LNode P0 nmP cmP (l1 ++ Some (eP0, eiP, LNode i nmi cmi sli) :: l2)) (lsubs None lt) ->
  exists h', suppress_tail name i h = HOk h' /\
    Rep h' (lreplace P0 (LNode P0 nmP cmP ((l1 ++ l2) ++
              [Some (hnexte h, merged_info eiP eiC (Nat.ltb 1 (length (l1 ++ Some (eP0, eiP, LNode i nmi cmi sli) :: l2))) (Nat.ltb 1 (length slC)),
                     LNode C nmC cmC (ldrop_up slC ++ [None]))])) lt).
Proof.
  intros R sli Hsub. pose proof (Rep_Good h lt R) as G.
  assert (HsubI : In (Some (P0, eP0), LNode i nmi cmi sli) (lsubs None lt)).
  { eapply lsubs_trans; [exact Hsub|]. eapply lsubs_child. apply in_or_app. right. left. reflexivity. }
  destruct (lwf_sub_lsubs lt None _ _ (or_introl (rep_wf _ _ R)) HsubI) as [E|W]; [discriminate|].
  apply lwf_sub_iff in W. destruct W as [W1 W2]. unfold sli in *. clear sli.
  (* the records *)
  pose proof (shape_lsubs _ _ _ _ _ _ (rep_shape _ _ R) HsubI) as ShI. apply shape_unfold in ShI. destruct ShI as [hi (I1 & I2 & I3 & I4 & I5)].
  pose proof (shape_lsubs _ _ _ _ _ _ (rep_shape _ _ R) Hsub) as ShP. apply shape_unfold in ShP. destruct ShP as [hP (A1 & A2 & A3 & A4 & A5)].
  pose proof (Forall2_length' _ _ _ A5) as LenP.
  apply Forall2_app_inv_r in A5. destruct A5 as (c1 & c2' & F1 & F2 & Ec).
  apply Forall2_cons_inv_r in F2. destruct F2 as (ce & c2 & Ec2 & Ok0 & F2'). rewrite Ec2 in Ec. clear Ec2 c2'.
  destruct ce as [x0 e0]. cbn [slot_ok fst snd lid] in Ok0. destruct Ok0 as (_ & Ee & Er & [edP (E1 & E2 & E3 & E4)] & _). subst e0 x0.
  destruct edP as [a b c]. cbn [hleft hright hinfo] in E2, E3, E4. subst a b c.
  pose proof (Forall2_length' _ _ _ F1) as Lc.
  assert (HsubC : In (Some (i, eC), LNode C nmC cmC slC) (lsubs None lt)).
  { eapply lsubs_trans; [exact HsubI|]. eapply lsubs_child. destruct pfirst; [right; left|left]; reflexivity. }
  pose proof (shape_lsubs _ _ _ _ _ _ (rep_shape _ _ R) HsubC) as ShC. apply shape_unfold in ShC. destruct ShC as [hC (B1 & B2 & B3 & B4 & B5)].
  pose proof (Forall2_length' _ _ _ B5) as LenC.
  destruct (lwf_sub_lsubs lt None _ _ (or_introl (rep_wf _ _ R)) HsubC) as [E|WC]; [discriminate|].
  apply lwf_sub_iff in WC. destruct WC as [WC1 WC2].
  (* i's own record *)
  assert (Hrec : hneigh hi = (if pfirst then [P0; C] else [C; P0]) /\ hbr hi = (if pfirst then [eP0; eC] else [eC; eP0]) /\
                 alookup eC (hedges h) = Some (mkHE i C eiC)).
  { unfold slots_of in I5. destruct pfirst; apply Forall2_cons_inv_r in I5; destruct I5 as (ce1 & r1 & Er1 & O1 & I5);
      apply Forall2_cons_inv_r in I5; destruct I5 as (ce2 & r2 & Er2 & O2 & I5); inversion I5; subst r2 r1;
      destruct (hneigh hi) as [|x1 [|x2 [|x3 ng]]], (hbr hi) as [|y1 [|y2 [|y3 bs]]]; cbn in I4, Er1; try discriminate; try lia;
      injection Er1 as <- <-; cbn [slot_ok fst snd lid] in O1, O2.
    - injection O1 as <- <-. destruct O2 as (_ & <- & <- & [ed (X1 & X2 & X3 & X4)] & _).
      destruct ed as [a b c]. cbn in X2, X3, X4. subst. repeat split. exact X1.
    - injection O2 as <- <-. destruct O1 as (_ & <- & <- & [ed (X1 & X2 & X3 & X4)] & _).
      destruct ed as [a b c]. cbn in X2, X3, X4. subst. repeat split. exact X1. }
  destruct Hrec as (Hng & Hbr & EC).
  destruct (Rep_parent h lt R P0 eP0 _ HsubI) as (hm & edp & Q1 & Q2 & Q3 & Q4 & Q5 & Q6). cbn [lid] in Q5.
  set (sli := if pfirst then [None; Some (eC, eiC, LNode C nmC cmC slC)] else [Some (eC, eiC, LNode C nmC cmC slC); None]) in *.
  set (subP := LNode P0 nmP cmP (l1 ++ Some (eP0, eiP, LNode i nmi cmi sli) :: l2)) in *.
  assert (Nd : NoDup (lids subP)) by (eapply lsubs_NoDup; [exact (rep_nd _ _ R)|exact Hsub]).
  assert (NdI : NoDup (lids (LNode i nmi cmi sli))).
  { eapply lsubs_NoDup; [exact (rep_nd _ _ R)|exact HsubI]. }
  assert (InC_I : In C (lids (LNode i nmi cmi sli))).
  { rewrite lids_eq. right. unfold sli. destruct pfirst; cbn; left; reflexivity. }
  assert (NPi : P0 <> i) by (intros E0; apply Q6; rewrite E0; left; reflexivity).
  assert (NPC : P0 <> C) by (intros E0; apply Q6; rewrite E0; exact InC_I).
  assert (NCi : C <> i).
  { intros E0. rewrite lids_eq in NdI. apply NoDup_cons_iff in NdI. apply (proj1 NdI). rewrite <- E0. unfold sli. destruct pfirst; cbn; left; reflexivity. }
  assert (HnP : nth_error (hneigh hP) (length l1) = Some i).
  { rewrite <- (slots_of_fst hP A4). unfold slots_of. rewrite Ec, nth_error_map, <- Lc, nth_error_app_mid. reflexivity. }
  assert (IP : index_of i (hneigh hP) = Some (length l1)) by (apply index_of_NoDup; [exact (g_nodup _ G P0 hP A1)|exact HnP]).
  assert (LP : length l1 < length (hbr hP)) by (rewrite <- A4; apply nth_error_Some; congruence).
  destruct (drop_up_Forall2 (slot_ok true h (Some (i, eC)) C) i slC (hneigh hC) (hbr hC) B4 B5) as [jC (IC & LC & _)].
  { intros j y Hj. eapply neigh_iff_none; [exact B5|exact B4| |exact Hj].
    intros z Hz ->. rewrite lids_eq in NdI. apply NoDup_cons_iff in NdI. apply (proj1 NdI).
    unfold sli. destruct pfirst; cbn [flat_map app]; rewrite ?app_nil_r, lids_eq; right; exact Hz. }
  { apply lnup_pos_in. lia. }
  assert (FrE : forall y, alookup y (hedges h) <> None -> y <> hnexte h) by (intros y Hy; apply (g_fresh_e _ G) in Hy; lia).
  assert (NE : eP0 <> eC).
  { intros E0. rewrite E0, EC in E1. injection E1 as X1 X2. congruence. }
  destruct (suppress_inner_eval h name i hi P0 C eP0 eC pfirst hP hC (length l1) jC eiP eiC I1 Hng Hbr E1 EC A1 B1 NPC NPi NCi IP LP IC LC)
    as (h' & einfo & Ev & D & Einfo); [apply FrE; congruence|apply FrE; congruence|exact NE|].
  exists h'. split; [exact Ev|].
  assert (Einfo' : einfo = merged_info eiP eiC (Nat.ltb 1 (length (l1 ++ Some (eP0, eiP, LNode i nmi cmi sli) :: l2))) (Nat.ltb 1 (length slC))).
  { rewrite Einfo. f_equal; f_equal; rewrite app_length; cbn [length]; rewrite Nat.add_1_r.
    - rewrite del_nth_length by (rewrite A4; exact LP). rewrite <- LenP. unfold slots_of. rewrite combine_length, <- A4, Nat.min_id. reflexivity.
    - rewrite del_nth_length by (rewrite B4; exact LC). rewrite <- LenC. unfold slots_of. rewrite combine_length, <- B4, Nat.min_id. reflexivity. }
  rewrite <- Einfo'.
  exact (SP_Rep h h' lt R p P0 nmP cmP l1 l2 eP0 eiP i nmi cmi pfirst eC eiC C nmC cmC slC Hsub hP hC jC einfo A1 B1 IC D).
Qed.

Theorem suppress_inner_Rep h lt name P0 eP0 i nmi cmi sli : Rep h lt ->
  In (Some (P0, eP0), LNode i nmi cmi sli) (lsubs None lt) -> length sli = 2 ->
  exists h' lt', suppress_tail name i h = HOk h' /\ Rep h' lt'.
Proof.
  intros R HsubI Lsl.
  destruct (lwf_sub_lsubs lt None _ _ (or_introl (rep_wf _ _ R)) HsubI) as [E|W]; [discriminate|].
  apply lwf_sub_iff in W. destruct W as [W1 W2].
  destruct (two_slots_one_up sli Lsl W1) as (eC & eiC & Cn & Hsli).
  destruct Cn as [C nmC cmC slC].
  destruct (lsubs_parent _ _ _ _ _ HsubI) as [[E _]|(p & nmP & cmP & sl & eiP & Hsub & Hs)]; [discriminate|].
  destruct (in_split _ _ Hs) as [l1 [l2 El]]. rewrite El in Hsub.
  set (pfirst := match sli with None :: _ => true | _ => false end).
  assert (Esli : sli = if pfirst then [None; Some (eC, eiC, LNode C nmC cmC slC)] else [Some (eC, eiC, LNode C nmC cmC slC); None]).
  { unfold pfirst. destruct Hsli as [E| E]; rewrite E; reflexivity. }
  rewrite Esli in Hsub.
  destruct (suppress_inner_Rep_x h lt name p P0 nmP cmP l1 l2 eP0 eiP i nmi cmi pfirst eC eiC C nmC cmC slC R Hsub) as (h' & Ev & R').
  exists h'. eexists. split; [exact Ev|exact R'].
Qed.

Lemma unroot_desc_info h h' r a b ea eb e3 Xa Xb i i' : unroot_desc h h' r a b ea eb e3 Xa Xb i -> i = i' ->
  unroot_desc h h' r a b ea eb e3 Xa Xb i'.
Proof. intros D <-. exact D. Qed.

(** * Case 2 on the root of a tree with two root branches (the root is suppressed) *)
Lemma suppress_root_eval h name hr n1 n2 e1 e2 hn1 hn2 i1 i2 ei1 ei2 :
  alookup (hroot h) (hnodes h) = Some hr -> hneigh hr = [n1; n2] -> hbr hr = [e1; e2] ->
  alookup n1 (hnodes h) = Some hn1 -> alookup n2 (hnodes h) = Some hn2 ->
  n1 <> n2 -> n1 <> hroot h -> n2 <> hroot h ->
  index_of (hroot h) (hneigh hn1) = Some i1 -> i1 < length (hbr hn1) ->
  index_of (hroot h) (hneigh hn2) = Some i2 -> i2 < length (hbr hn2) ->
  alookup e1 (hedges h) = Some (mkHE (hroot h) n1 ei1) -> alookup e2 (hedges h) = Some (mkHE (hroot h) n2 ei2) ->
  e1 <> hnexte h -> e2 <> hnexte h ->
  let e3 := hnexte h in
  let X1 m := mkHN (hname hn1) (hcom hn1) (del_nth i1 (hneigh hn1) ++ [m]) (del_nth i1 (hbr hn1) ++ [e3]) in
  let X2 m := mkHN (hname hn2) (hcom hn2) (del_nth i2 (hneigh hn2) ++ [m]) (del_nth i2 (hbr hn2) ++ [e3]) in
  let info := merged_info ei1 ei2 (Nat.ltb 1 (S (length (del_nth i1 (hneigh hn1))))) (Nat.ltb 1 (S (length (del_nth i2 (hneigh hn2))))) in
  if Nat.ltb 1 (length (del_nth i1 (hneigh hn1))) then
    exists h', suppress_tail name (hroot h) h = HOk h' /\ unroot_desc h h' (hroot h) n1 n2 e1 e2 e3 (X1 n2) (X2 n1) info
  else if Nat.ltb 1 (length (del_nth i2 (hneigh hn2))) then
    exists h', suppress_tail name (hroot h) h = HOk h' /\ unroot_desc h h' (hroot h) n2 n1 e2 e1 e3 (X2 n1) (X1 n2) info
  else suppress_tail name (hroot h) h =
       HErr (if Nat.eqb (length (del_nth i2 (hneigh hn2))) 1 || Nat.eqb (length (del_nth i1 (hneigh hn1))) 1
             then ("After removing the tip " ++ name ++ " connected to the root, RemoveTip could not find a new node to set as a root (the children of the root are either tips or single nodes). You can run gotree collapse single or call RemoveSingleNodes.")%string
             else ("The tree after tip removal is only made of two tips after removing tip " ++ name)%string).
Proof.
  intros Hr Hng Hbr Hn1 Hn2 N12 N1r N2r I1 L1 I2 L2 E1 E2 F1 F2. cbv zeta.
  destruct (Nat.ltb 1 (length (del_nth i1 (hneigh hn1)))) eqn:D1; [|destruct (Nat.ltb 1 (length (del_nth i2 (hneigh hn2)))) eqn:D2].
  all: unfold suppress_tail, get_node at 1; rewrite Hr; cbn [hbind]; rewrite Hng, Hbr; cbn [length Nat.eqb nth_res nth_error hbind]; unfold get_edge at 1 2; rewrite E1, E2; cbn [hbind hleft hright hinfo]; destruct (Nat.eqb_spec (hroot h) n1) as [E|_]; [congruence|]; rewrite Nat.eqb_refl; cbn [andb negb]; destruct (del_neighbor_step h n1 (hroot h) hn1 i1 Hn1 I1 L1) as [h1 (S1 & Nd1 & (Ed1 & Rt1 & Nn1 & Ne1))]; rewrite S1; cbn [hbind]; assert (Hn2' : alookup n2 (hnodes h1) = Some hn2) by (rewrite Nd1; destruct (Nat.eqb_spec n2 n1); [congruence|exact Hn2]); destruct (del_neighbor_step h1 n2 (hroot h) hn2 i2 Hn2' I2 L2) as [h2 (S2 & Nd2 & (Ed2 & Rt2 & Nn2 & Ne2))]; rewrite S2; cbn [hbind]; set (Y1 := mkHN (hname hn1) (hcom hn1) (del_nth i1 (hneigh hn1)) (del_nth i1 (hbr hn1))) in *; set (Y2 := mkHN (hname hn2) (hcom hn2) (del_nth i2 (hneigh hn2)) (del_nth i2 (hbr hn2))) in *; assert (A1 : alookup n1 (hnodes h2) = Some Y1) by (rewrite Nd2; destruct (Nat.eqb_spec n1 n2); [congruence|]; rewrite Nd1, Nat.eqb_refl; reflexivity); assert (A2 : alookup n2 (hnodes h2) = Some Y2) by (rewrite Nd2, Nat.eqb_refl; reflexivity); assert (Hne2 : hnexte h2 = hnexte h) by congruence; assert (Hed2 : hedges h2 = hedges h) by congruence; assert (Hrt2 : hroot h2 = hroot h) by congruence; unfold get_node; rewrite A1, A2; cbn [hbind]; rewrite Hrt2, Nat.eqb_refl; cbn [negb Y1 Y2 hneigh].
  - rewrite D1. destruct (connect_nodes_step h2 n1 n2 Y1 Y2 N12 A1 A2) as [h3 (S3 & Nd3 & Ed3 & Rt3 & Nn3 & Ne3)]. rewrite S3. cbn [hbind]. rewrite Hne2 in *.
    match goal with |- context [if ?c then set_info ?hh ?e ?f else HOk ?hh] =>
      destruct (set_info_if_step hh e n1 n2 e0 c f) as [h5 (S5 & Nd5 & Rt5 & Nn5 & Ne5 & Ed5)] end.
    { cbn [set_root hedges]. rewrite Ed3, Nat.eqb_refl. reflexivity. }
    rewrite S5. cbn [hbind]. rewrite Nd5. cbn [set_root hnodes]. rewrite (Nd3 n1), Nat.eqb_refl. cbn [hbind].
    rewrite (Nd3 n2). destruct (Nat.eqb_spec n2 n1); [congruence|]. rewrite Nat.eqb_refl. cbn [hbind].
    match goal with |- context [if ?c then set_info ?hh ?e ?f else HOk ?hh] =>
      destruct (set_info_if_step hh e n1 n2 _ c f (eq_trans (Ed5 e) ltac:(rewrite Nat.eqb_refl; reflexivity)))
        as [h6 (S6 & Nd6 & Rt6 & Nn6 & Ne6 & Ed6)] end.
    rewrite S6. cbn [hbind].
    assert (Hr6 : alookup (hroot h) (hnodes h6) = Some hr).
    { rewrite Nd6, Nd5. cbn [set_root hnodes]. rewrite Nd3.
      destruct (Nat.eqb_spec (hroot h) n1); [congruence|]. destruct (Nat.eqb_spec (hroot h) n2); [congruence|].
      rewrite Nd2. destruct (Nat.eqb_spec (hroot h) n2); [congruence|]. rewrite Nd1. destruct (Nat.eqb_spec (hroot h) n1); [congruence|]. exact Hr. }
    destruct (del_node_step2 h6 (hroot h) hr e1 e2 Hr6 Hbr) as [h7 (S7 & Nd7 & Ed7 & Rt7 & Nn7 & Ne7)].
    eexists h7. split; [exact S7|]. eapply unroot_desc_info; [constructor|].
    + intros x. rewrite Nd7, Nd6, Nd5. cbn [set_root hnodes]. rewrite Nd3, Nd2, Nd1. unfold app_slot, Y1, Y2. cbn [hname hcom hneigh hbr].
      eqb_cases; subst; try congruence; reflexivity.
    + intros y. rewrite Ed7, Ed6, Ed5. cbn [set_root hedges]. rewrite Ed3, Hed2. eqb_cases; subst; try congruence; reflexivity.
    + rewrite Rt7, Rt6, Rt5. reflexivity.
    + rewrite Nn7, Nn6, Nn5. cbn. congruence.
    + rewrite Ne7, Ne6, Ne5. cbn. congruence.
    + unfold merged_info, app_slot, Y1, Y2, e0. cbn [hneigh elen esup epv ecom negb andb]. rewrite !app_length. cbn [length]. rewrite !Nat.add_1_r.
      repeat match goal with |- context [if ?c then _ else _] => destruct c end; reflexivity.
  - rewrite D1, D2. destruct (connect_nodes_step h2 n2 n1 Y2 Y1 (not_eq_sym N12) A2 A1) as [h3 (S3 & Nd3 & Ed3 & Rt3 & Nn3 & Ne3)]. rewrite S3. cbn [hbind]. rewrite Hne2 in *.
      match goal with |- context [if ?c then set_info ?hh ?e ?f else HOk ?hh] =>
        destruct (set_info_if_step hh e n2 n1 e0 c f) as [h5 (S5 & Nd5 & Rt5 & Nn5 & Ne5 & Ed5)] end.
      { cbn [set_root hedges]. rewrite Ed3, Nat.eqb_refl. reflexivity. }
      rewrite S5. cbn [hbind]. rewrite Nd5. cbn [set_root hnodes]. rewrite (Nd3 n1). destruct (Nat.eqb_spec n1 n2); [congruence|].
      rewrite Nat.eqb_refl. cbn [hbind]. rewrite (Nd3 n2), Nat.eqb_refl. cbn [hbind].
      match goal with |- context [if ?c then set_info ?hh ?e ?f else HOk ?hh] =>
        destruct (set_info_if_step hh e n2 n1 _ c f (eq_trans (Ed5 e) ltac:(rewrite Nat.eqb_refl; reflexivity)))
          as [h6 (S6 & Nd6 & Rt6 & Nn6 & Ne6 & Ed6)] end.
      rewrite S6. cbn [hbind].
      assert (Hr6 : alookup (hroot h) (hnodes h6) = Some hr).
      { rewrite Nd6, Nd5. cbn [set_root hnodes]. rewrite Nd3.
        destruct (Nat.eqb_spec (hroot h) n2); [congruence|]. destruct (Nat.eqb_spec (hroot h) n1); [congruence|].
        rewrite Nd2. destruct (Nat.eqb_spec (hroot h) n2); [congruence|]. rewrite Nd1. destruct (Nat.eqb_spec (hroot h) n1); [congruence|]. exact Hr. }
      destruct (del_node_step2 h6 (hroot h) hr e1 e2 Hr6 Hbr) as [h7 (S7 & Nd7 & Ed7 & Rt7 & Nn7 & Ne7)].
      eexists h7. split; [exact S7|]. eapply unroot_desc_info; [constructor|].
      * intros x. rewrite Nd7, Nd6, Nd5. cbn [set_root hnodes]. rewrite Nd3, Nd2, Nd1. unfold app_slot, Y1, Y2. cbn [hname hcom hneigh hbr].
        eqb_cases; subst; try congruence; reflexivity.
      * intros y. rewrite Ed7, Ed6, Ed5. cbn [set_root hedges]. rewrite Ed3, Hed2. eqb_cases; subst; try congruence; reflexivity.
      * rewrite Rt7, Rt6, Rt5. reflexivity.
      * rewrite Nn7, Nn6, Nn5. cbn. congruence.
      * rewrite Ne7, Ne6, Ne5. cbn. congruence.
      * unfold merged_info, app_slot, Y1, Y2, e0. cbn [hneigh elen esup epv ecom negb andb]. rewrite !app_length. cbn [length]. rewrite !Nat.add_1_r.
        repeat match goal with |- context [if ?c then _ else _] => destruct c end; reflexivity.
  - rewrite D1, D2. destruct (Nat.eqb (length (del_nth i2 (hneigh hn2))) 1 || Nat.eqb (length (del_nth i1 (hneigh hn1))) 1); cbn [hbind]; reflexivity.
Qed.

(** Case 2 on the root keeps the representation (or reports that no new root can be chosen); explicit *)
Theorem suppress_root_Rep_x h name r nm cm e1 ei1 n1 nm1 cm1 sl1 e2 ei2 n2 nm2 cm2 sl2 :
  Rep h (LNode r nm cm [Some (e1, ei1, LNode n1 nm1 cm1 sl1); Some (e2, ei2, LNode n2 nm2 cm2 sl2)]) ->
  let info := merged_info ei1 ei2 (Nat.ltb 1 (length sl1)) (Nat.ltb 1 (length sl2)) in
  if Nat.ltb 1 (length sl1 - 1) then
    exists h', suppress_tail name (hroot h) h = HOk h' /\
      Rep h' (LNode n1 nm1 cm1 (ldrop_up sl1 ++ [Some (hnexte h, info, LNode n2 nm2 cm2 (ldrop_up sl2 ++ [None]))]))
  else if Nat.ltb 1 (length sl2 - 1) then
    exists h', suppress_tail name (hroot h) h = HOk h' /\
      Rep h' (LNode n2 nm2 cm2 (ldrop_up sl2 ++ [Some (hnexte h, info, LNode n1 nm1 cm1 (ldrop_up sl1 ++ [None]))]))
  else suppress_tail name (hroot h) h =
       HErr (if Nat.eqb (length sl2 - 1) 1 || Nat.eqb (length sl1 - 1) 1
             then ("After removing the tip " ++ name ++ " connected to the root, RemoveTip could not find a new node to set as a root (the children of the root are either tips or single nodes). You can run gotree collapse single or call RemoveSingleNodes.")%string
             else ("The tree after tip removal is only made of two tips after removing tip " ++ name)%string).
Proof.
  intros R. set (sl := [Some (e1, ei1, LNode n1 nm1 cm1 sl1); Some (e2, ei2, LNode n2 nm2 cm2 sl2)]) in *.
  pose proof (rep_root _ _ R) as Hroot. cbn [lid] in Hroot. subst r.
  pose proof (rep_shape _ _ R) as Sh. pose proof Sh as Sh0. apply shape_unfold in Sh. destruct Sh as [hr (A1 & A2 & A3 & A4 & A5)].
  destruct (shape_length _ _ _ _ _ _ _ _ Sh0 A1) as [Lr _].
  pose proof (rep_wf _ _ R) as W. apply lwf_iff in W. destruct W as [W0 Wk]. unfold sl in *. clear sl. cbn [length] in Lr.
  (* the root's two slots *)
  unfold slots_of in A5. destruct (hneigh hr) as [|x1 [|x2 [|x3 ng]]] eqn:Eng; cbn in Lr; try lia.
  destruct (hbr hr) as [|b1 [|b2 [|b3 bs]]] eqn:Ebr; cbn in A4; try lia. cbn [combine] in A5.
  inversion A5 as [|? ? ? ? O1 A5']; subst. inversion A5' as [|? ? ? ? O2 _]; subst. clear A5 A5'.
  cbn [slot_ok fst snd lid] in O1, O2.
  destruct O1 as (_ & <- & <- & [ed1 (E1 & E1i & E1l & E1r)] & S1).
  destruct O2 as (_ & <- & <- & [ed2 (E2 & E2i & E2l & E2r)] & S2).
  destruct (child_view _ _ _ _ _ _ _ S1 (Wk _ _ _ (or_introl eq_refl))) as [hn1 (B1 & B2 & B3 & B4 & B5 & B6 & B7 & B8)].
  destruct (child_view _ _ _ _ _ _ _ S2 (Wk _ _ _ (or_intror (or_introl eq_refl)))) as [hn2 (C1 & C2 & C3 & C4 & C5 & C6 & C7 & C8)].
  (* distinctness *)
  pose proof (rep_nd _ _ R) as Nd. rewrite lids_eq in Nd. cbn [flat_map] in Nd. rewrite !lids_eq in Nd. fold (sids sl1) (sids sl2) in Nd. rewrite app_nil_r in Nd.
  pose proof (rep_ned _ _ R) as Ned. rewrite leids_eq in Ned. cbn [flat_map] in Ned. rewrite !leids_eq in Ned. fold (seids sl1) (seids sl2) in Ned. rewrite app_nil_r in Ned.
  assert (P1 : Permutation ((hroot h) :: (n1 :: sids sl1) ++ n2 :: sids sl2) ((hroot h) :: n1 :: n2 :: sids sl1 ++ sids sl2)).
  { apply perm_skip. cbn [app]. apply perm_skip. symmetry. apply Permutation_middle. }
  assert (P2 : Permutation ((hroot h) :: (n1 :: sids sl1) ++ n2 :: sids sl2) ((hroot h) :: n2 :: n1 :: sids sl2 ++ sids sl1)).
  { apply perm_skip. rewrite Permutation_app_comm. cbn [app]. apply perm_skip. symmetry. apply Permutation_middle. }
  assert (Q1 : Permutation ((e1 :: seids sl1) ++ e2 :: seids sl2) (e1 :: e2 :: seids sl1 ++ seids sl2)).
  { cbn [app]. apply perm_skip. symmetry. apply Permutation_middle. }
  assert (Q2 : Permutation ((e1 :: seids sl1) ++ e2 :: seids sl2) (e2 :: e1 :: seids sl2 ++ seids sl1)).
  { rewrite Permutation_app_comm. cbn [app]. apply perm_skip. symmetry. apply Permutation_middle. }
  pose proof (Permutation_NoDup P1 Nd) as Nd1. pose proof (Permutation_NoDup P2 Nd) as Nd2.
  pose proof (Permutation_NoDup Q1 Ned) as Ned1. pose proof (Permutation_NoDup Q2 Ned) as Ned2.
  assert (Dn : forall x, alookup x (hnodes h) <> None <-> In x ((hroot h) :: (n1 :: sids sl1) ++ n2 :: sids sl2)).
  { intros x. rewrite <- (rep_nodes _ _ R x). rewrite lids_eq. cbn [flat_map]. rewrite !lids_eq. fold (sids sl1) (sids sl2). rewrite app_nil_r. reflexivity. }
  assert (De : forall e, alookup e (hedges h) <> None <-> In e ((e1 :: seids sl1) ++ e2 :: seids sl2)).
  { intros x. rewrite <- (rep_edges _ _ R x). rewrite leids_eq. cbn [flat_map]. rewrite !leids_eq. fold (seids sl1) (seids sl2). rewrite app_nil_r. reflexivity. }
  assert (Fn : forall x, alookup x (hnodes h) <> None -> x < hnextn h).
  { intros x Hx. apply (rep_fn _ _ R). apply (rep_nodes _ _ R). exact Hx. }
  assert (Fe : forall e, alookup e (hedges h) <> None -> e < hnexte h).
  { intros x Hx. apply (rep_fe _ _ R). apply (rep_edges _ _ R). exact Hx. }
  assert (Dist : n1 <> n2 /\ n1 <> (hroot h) /\ n2 <> (hroot h)).
  { apply NoDup_cons_iff in Nd1. destruct Nd1 as [X1 X2]. apply NoDup_cons_iff in X2. destruct X2 as [X3 _].
    repeat split; intros E.
    - apply X3. left. symmetry. exact E.
    - apply X1. left. exact E.
    - apply X1. right. left. exact E. }
  destruct Dist as (N12 & N1r & N2r).
  (* index of the root in its two neighbours *)
  assert (Hs1 : forall z, In z (sids sl1) -> z <> (hroot h)).
  { intros z Hz ->. apply NoDup_cons_iff in Nd1. apply (proj1 Nd1). right. right. apply in_or_app. left. exact Hz. }
  assert (Hs2 : forall z, In z (sids sl2) -> z <> (hroot h)).
  { intros z Hz ->. apply NoDup_cons_iff in Nd1. apply (proj1 Nd1). right. right. apply in_or_app. right. exact Hz. }
  destruct (drop_up_Forall2 (slot_ok true h (Some ((hroot h), e1)) n1) (hroot h) sl1 (hneigh hn1) (hbr hn1) B4 B6) as [i1 (I1 & I1' & _)].
  { intros j y Hj. eapply neigh_iff_none; [exact B6|exact B4|exact Hs1|exact Hj]. }
  { apply lnup_pos_in. lia. }
  destruct (drop_up_Forall2 (slot_ok true h (Some ((hroot h), e2)) n2) (hroot h) sl2 (hneigh hn2) (hbr hn2) C4 C6) as [i2 (I2 & I2' & _)].
  { intros j y Hj. eapply neigh_iff_none; [exact C6|exact C4|exact Hs2|exact Hj]. }
  { apply lnup_pos_in. lia. }
  assert (F1 : e1 <> hnexte h). { intros E. assert (e1 < hnexte h); [apply Fe; congruence|lia]. }
  assert (F2 : e2 <> hnexte h). { intros E. assert (e2 < hnexte h); [apply Fe; congruence|lia]. }
  pose proof (suppress_root_eval h name hr n1 n2 e1 e2 hn1 hn2 i1 i2 ei1 ei2 A1 Eng Ebr B1 C1 N12 N1r N2r I1 I1' I2 I2') as Ev.
  assert (Hed1 : alookup e1 (hedges h) = Some (mkHE (hroot h) n1 ei1)).
  { destruct ed1 as [a b c]. cbn in E1i, E1l, E1r. subst. exact E1. }
  assert (Hed2 : alookup e2 (hedges h) = Some (mkHE (hroot h) n2 ei2)).
  { destruct ed2 as [a b c]. cbn in E2i, E2l, E2r. subst. exact E2. }
  specialize (Ev Hed1 Hed2 F1 F2). cbv zeta in Ev.
  assert (Len1 : length (del_nth i1 (hneigh hn1)) = length sl1 - 1).
  { pose proof (del_nth_length i1 (hneigh hn1) ltac:(rewrite B4; exact I1')). lia. }
  assert (Len2 : length (del_nth i2 (hneigh hn2)) = length sl2 - 1).
  { pose proof (del_nth_length i2 (hneigh hn2) ltac:(rewrite C4; exact I2')). lia. }
  assert (P1' : 0 < length sl1) by (rewrite <- B5, B4; lia). assert (P2' : 0 < length sl2) by (rewrite <- C5, C4; lia).
  rewrite Len1, Len2 in Ev. replace (S (length sl1 - 1)) with (length sl1) in Ev by lia. replace (S (length sl2 - 1)) with (length sl2) in Ev by lia.
  cbv zeta. destruct (Nat.ltb 1 (length sl1 - 1)).
  - destruct Ev as (h' & Ev & D). exists h'. split; [exact Ev|].
    eapply (unroot_generic h h' (hroot h) n1 n2 e1 e2 (hnexte h) nm1 nm2 cm1 cm2 sl1 sl2 hn1 hn2 i1 i2); try eassumption; try reflexivity.
    + intros x. rewrite Dn. split; intros Hx; [eapply Permutation_in; [exact P1|exact Hx]|eapply Permutation_in; [symmetry; exact P1|exact Hx]].
    + intros x. rewrite De. split; intros Hx; [eapply Permutation_in; [exact Q1|exact Hx]|eapply Permutation_in; [symmetry; exact Q1|exact Hx]].
  - destruct (Nat.ltb 1 (length sl2 - 1)).
    + destruct Ev as (h' & Ev & D). exists h'. split; [exact Ev|].
      eapply (unroot_generic h h' (hroot h) n2 n1 e2 e1 (hnexte h) nm2 nm1 cm2 cm1 sl2 sl1 hn2 hn1 i2 i1); try eassumption; try reflexivity.
      * intros x. rewrite Dn. split; intros Hx; [eapply Permutation_in; [exact P2|exact Hx]|eapply Permutation_in; [symmetry; exact P2|exact Hx]].
      * intros x. rewrite De. split; intros Hx; [eapply Permutation_in; [exact Q2|exact Hx]|eapply Permutation_in; [symmetry; exact Q2|exact Hx]].
    + exact Ev.
Qed.

Theorem suppress_root_Rep h lt name : Rep h lt -> length (lslots lt) = 2 ->
  (exists h' lt', suppress_tail name (hroot h) h = HOk h' /\ Rep h' lt') \/
  (exists m, suppress_tail name (hroot h) h = HErr m).
Proof.
  intros R L2. destruct lt as [r0 nm cm sl]. cbn [lslots] in L2.
  pose proof (rep_wf _ _ R) as W. apply lwf_iff in W. destruct W as [W0 Wk].
  destruct sl as [|s1 [|s2 [|s3 sl]]]; cbn in L2; try lia.
  destruct s1 as [[[e1 ei1] [n1 nm1 cm1 sl1]]|]; [|cbn in W0; discriminate].
  destruct s2 as [[[e2 ei2] [n2 nm2 cm2 sl2]]|]; [|cbn in W0; discriminate].
  pose proof (suppress_root_Rep_x h name r0 nm cm e1 ei1 n1 nm1 cm1 sl1 e2 ei2 n2 nm2 cm2 sl2 R) as X. cbv zeta in X.
  destruct (Nat.ltb 1 (length sl1 - 1)); [|destruct (Nat.ltb 1 (length sl2 - 1))].
  - destruct X as (h' & Ev & R'). left. exists h'. eexists. split; [exact Ev|exact R'].
  - destruct X as (h' & Ev & R'). left. exists h'. eexists. split; [exact Ev|exact R'].
  - right. eexists. exact X.
Qed.

(** * Case 1b: the root is left with one neighbour: that neighbour becomes the root *)
Theorem drop_root_Rep h r nm cm ec eic c nmc cmc slc :
  Rep h (LNode r nm cm [Some (ec, eic, LNode c nmc cmc slc)]) ->
  exists h', (do h1 <- del_neighbor c r (set_root h c); del_node r h1) = HOk h' /\
             Rep h' (LNode c nmc cmc (ldrop_up slc)).
Proof.
  intros R. pose proof (rep_root _ _ R) as Hroot. cbn [lid] in Hroot.
  pose proof (rep_shape _ _ R) as Sh. apply shape_unfold in Sh. destruct Sh as [hr (A1 & A2 & A3 & A4 & A5)].
  apply Forall2_cons_inv_r in A5. destruct A5 as ([c0 e0] & tl & Esl & Ok0 & A5). inversion A5. subst tl. clear A5.
  cbn [slot_ok fst snd lid] in Ok0. destruct Ok0 as (_ & <- & <- & [ed (E1 & E2 & E3 & E4)] & Shc).
  assert (Hrec : hneigh hr = [c] /\ hbr hr = [ec]).
  { unfold slots_of in Esl. destruct (hneigh hr) as [|a [|a' ng]], (hbr hr) as [|b [|b' bs]]; cbn in A4, Esl; try discriminate; try lia.
    injection Esl as -> ->. split; reflexivity. }
  destruct Hrec as [Hng Hbr].
  apply shape_unfold in Shc. destruct Shc as [hc (B1 & B2 & B3 & B4 & B5)].
  pose proof (rep_wf _ _ R) as W. apply lwf_iff in W. destruct W as [_ Wk].
  pose proof (Wk _ _ _ (or_introl eq_refl)) as Wc. apply lwf_sub_iff in Wc. destruct Wc as [Wc1 Wc2].
  pose proof (rep_nd _ _ R) as Nd. rewrite lids_eq in Nd. cbn [flat_map] in Nd. rewrite lids_eq, app_nil_r in Nd. fold (sids slc) in Nd.
  pose proof (rep_ned _ _ R) as Ned. rewrite leids_eq in Ned. cbn [flat_map] in Ned. rewrite leids_eq, app_nil_r in Ned. fold (seids slc) in Ned.
  apply NoDup_cons_iff in Nd. destruct Nd as [N1 N2]. apply NoDup_cons_iff in Ned. destruct Ned as [M1 M2].
  assert (Ncr : c <> r) by (intros E0; apply N1; left; exact E0).
  destruct (drop_up_Forall2 (slot_ok true h (Some (r, ec)) c) r slc (hneigh hc) (hbr hc) B4 B5) as [ic (I1 & I2 & I3)].
  { intros j y Hj. eapply neigh_iff_none; [exact B5|exact B4| |exact Hj]. intros z Hz ->. apply N1. right. exact Hz. }
  { apply lnup_pos_in. lia. }
  assert (Hc' : alookup c (hnodes (set_root h c)) = Some hc) by exact B1.
  destruct (del_neighbor_step (set_root h c) c r hc ic Hc' I1 I2) as [h1 (S1 & Nd1 & (Ed1 & Rt1 & Nn1 & Ne1))].
  rewrite S1. cbn [hbind].
  assert (Hr1 : alookup r (hnodes h1) = Some hr).
  { rewrite Nd1. destruct (Nat.eqb_spec r c); [congruence|]. exact A1. }
  destruct (del_node_step1 h1 r hr ec Hr1 Hbr) as [h' (S2 & Nd2 & Ed2 & Rt2 & Nn2 & Ne2)].
  exists h'. split; [exact S2|].
  set (Yc := mkHN (hname hc) (hcom hc) (del_nth ic (hneigh hc)) (del_nth ic (hbr hc))) in *.
  assert (Lc' : alookup c (hnodes h') = Some Yc).
  { rewrite Nd2. destruct (Nat.eqb_spec c r); [congruence|]. rewrite Nd1, Nat.eqb_refl. reflexivity. }
  assert (Nsame : forall y, y <> c -> y <> r -> alookup y (hnodes h') = alookup y (hnodes h)).
  { intros y Y1 Y2. rewrite Nd2. destruct (Nat.eqb_spec y r); [contradiction|]. rewrite Nd1. destruct (Nat.eqb_spec y c); [contradiction|reflexivity]. }
  assert (Esame : forall y, y <> ec -> alookup y (hedges h') = alookup y (hedges h)).
  { intros y Y. rewrite Ed2. destruct (Nat.eqb_spec y ec); [contradiction|]. rewrite Ed1. reflexivity. }
  assert (Zc : lnup (ldrop_up slc) = 0) by (rewrite lnup_drop_up, Wc1; reflexivity).
  assert (InnN : forall y, In y (sids slc) -> y <> c /\ y <> r).
  { intros y Hy. apply NoDup_cons_iff in N2. split; intros ->; [exact (proj1 N2 Hy)|apply N1; right; exact Hy]. }
  constructor.
  - cbn [lid]. rewrite Rt2, Rt1. reflexivity.
  - apply shape_unfold. exists Yc. split; [exact Lc'|]. unfold Yc. cbn [hname hcom hneigh hbr].
    split; [exact B2|]. split; [exact B3|].
    split; [pose proof (del_nth_length ic (hneigh hc) ltac:(lia)); pose proof (del_nth_length ic (hbr hc) I2); lia|].
    eapply Forall2_impl_r; [exact I3|]. intros ce s Hs Hok. destruct s as [[[e2 ei2] X]|]; [|exfalso; exact (lnup_zero_notin _ Zc Hs)].
    apply in_ldrop_up in Hs. cbn [slot_ok] in *. destruct Hok as (_ & X2 & X3 & X4 & X5). split; [discriminate|].
    split; [exact X2|]. split; [exact X3|]. split.
    + eapply edge_ok_eq; [|exact X4]. rewrite <- X2. apply Esame. intros ->. apply M1. eapply in_seids_here. exact Hs.
    + eapply shape_frame; [| |exact X5].
      * intros y Hy. destruct (InnN y) as [Y1 Y2]; [eapply in_sids; eassumption|]. apply Nsame; assumption.
      * intros y Hy. apply Esame. intros ->. apply M1. eapply in_seids; eassumption.
  - apply lwf_iff. split; [exact Zc|]. intros e' ei' ch' Hin. apply in_ldrop_up in Hin. exact (Wc2 _ _ _ Hin).
  - rewrite lids_eq. fold (sids (ldrop_up slc)). rewrite sids_drop_up. exact N2.
  - rewrite leids_eq. fold (seids (ldrop_up slc)). rewrite seids_drop_up. exact M2.
  - intros y. rewrite lids_eq. fold (sids (ldrop_up slc)). rewrite sids_drop_up.
    destruct (Nat.eq_dec y r) as [->|Nr].
    { rewrite Nd2, Nat.eqb_refl. split; [|congruence]. intros [E0|Hy]; [congruence|]. exfalso. apply N1. right. exact Hy. }
    destruct (Nat.eq_dec y c) as [->|Nc]; [rewrite Lc'; split; [discriminate|intros _; left; reflexivity]|].
    rewrite (Nsame y Nc Nr), <- (rep_nodes _ _ R y). rewrite lids_eq. cbn [flat_map]. rewrite lids_eq, app_nil_r. fold (sids slc).
    cbn [In]. split; [intros [E0|Hy]; [congruence|tauto]|intros [E0|[E0|Hy]]; [congruence|congruence|tauto]].
  - intros y. rewrite leids_eq. fold (seids (ldrop_up slc)). rewrite seids_drop_up.
    destruct (Nat.eq_dec y ec) as [->|Nec].
    { rewrite Ed2, Nat.eqb_refl. split; [|congruence]. intros Hy. contradiction. }
    rewrite (Esame y Nec), <- (rep_edges _ _ R y). rewrite leids_eq. cbn [flat_map]. rewrite leids_eq, app_nil_r. fold (seids slc).
    cbn [In]. split; [tauto|intros [E0|Hy]; [congruence|exact Hy]].
  - intros y Hy. replace (hnextn h') with (hnextn h) by (rewrite Nn2, Nn1; reflexivity). apply (rep_fn _ _ R).
    rewrite lids_eq in Hy. fold (sids (ldrop_up slc)) in Hy. rewrite sids_drop_up in Hy.
    rewrite lids_eq. cbn [flat_map]. rewrite lids_eq, app_nil_r. fold (sids slc). right. exact Hy.
  - intros y Hy. replace (hnexte h') with (hnexte h) by (rewrite Ne2, Ne1; reflexivity). apply (rep_fe _ _ R).
    rewrite leids_eq in Hy. fold (seids (ldrop_up slc)) in Hy. rewrite seids_drop_up in Hy.
    rewrite leids_eq. cbn [flat_map]. rewrite leids_eq, app_nil_r. fold (seids slc). right. exact Hy.
Qed.

(** * the single-node loop of Case 1 *)
Lemma one_neighbour_record h lt q hq : Rep h lt -> alookup q (hnodes h) = Some hq -> length (hneigh hq) = 1 ->
  exists m b, hneigh hq = [m] /\ hbr hq = [b].
Proof.
  intros R Hq L1. pose proof (g_len _ (Rep_Good h lt R) q hq Hq) as Hl.
  destruct (hneigh hq) as [|m [|m' ng]]; cbn in L1; try lia. destruct (hbr hq) as [|b [|b' bs]]; cbn in Hl; try lia.
  exists m, b. split; reflexivity.
Qed.

Lemma single_path_loop_Rep : forall fuel h lt q, Rep h lt -> In q (lids lt) -> length (lids lt) < fuel ->
  exists q' h' lt' hq', single_path_loop fuel q h = HOk (q', h') /\ Rep h' lt' /\
    alookup q' (hnodes h') = Some hq' /\ (q' = hroot h' \/ length (hneigh hq') <> 1).
Proof.
  induction fuel as [|f IH]; intros h lt q R Hin Hf; [lia|].
  cbn [single_path_loop]. pose proof (proj1 (rep_nodes _ _ R q) Hin) as Hq.
  destruct (alookup q (hnodes h)) as [hq|] eqn:Eq; [clear Hq|congruence].
  unfold get_node. rewrite Eq. cbn [hbind].
  destruct (Nat.eqb_spec (hroot h) q) as [Er|Nr]; cbn [negb andb].
  { exists q, h, lt, hq. split; [reflexivity|]. split; [exact R|]. split; [exact Eq|]. left. symmetry. exact Er. }
  destruct (Nat.eqb_spec (length (hneigh hq)) 1) as [L1|L1].
  2:{ exists q, h, lt, hq. split; [reflexivity|]. split; [exact R|]. split; [exact Eq|]. right. exact L1. }
  destruct (one_neighbour_record h lt q hq R Eq L1) as (m & b & Hng & Hbr).
  destruct (leaf_view h lt q hq m b R Eq Hng Hbr (not_eq_sym Nr)) as (p & nm & cm & l1 & l2 & eix & nmx & cmx & Hsub).
  destruct (DL_facts h lt R p m nm cm l1 l2 b eix q nmx cmx Hsub)
    as (hQ & hx & c1 & c2 & HQ & Hx0 & _ & _ & _ & _ & _ & _ & _ & _ & _ & Hex & _).
  destruct (drop_leaf_Rep h lt R p m nm cm l1 l2 b eix q nmx cmx Hsub) as (h1 & hQ1 & Ev & R1 & HQ1 & HQ' & _ & _ & Nsame & _ & Hgone).
  unfold nth_res. rewrite Hbr. cbn [nth_error hbind]. unfold get_edge. rewrite Hex. cbn [hbind hleft].
  destruct (del_neighbor m q h) as [h0| |] eqn:E0; cbn [hbind] in Ev; try discriminate. cbn [hbind]. rewrite Ev. cbn [hbind].
  set (lt1 := lreplace m (LNode m nm cm (l1 ++ l2)) lt) in *.
  assert (HinQ : In m (lids lt1)) by (apply (rep_nodes _ _ R1); congruence).
  assert (Hlen : length (lids lt1) < f).
  { assert (S (length (lids lt1)) <= length (lids lt)); [|lia].
    apply (NoDup_incl_length (l := q :: lids lt1)).
    - constructor; [|exact (rep_nd _ _ R1)]. intros Hy. apply (rep_nodes _ _ R1) in Hy. congruence.
    - intros y [<-|Hy]; [exact Hin|]. apply (rep_nodes _ _ R1) in Hy. apply (rep_nodes _ _ R).
      destruct (Nat.eq_dec y m) as [->|Nm]; [congruence|]. destruct (Nat.eq_dec y q) as [->|Nq]; [congruence|].
      rewrite <- (Nsame y Nm Nq). exact Hy. }
  exact (IH h1 lt1 m R1 HinQ Hlen).
Qed.

(** * the tail (Case 2 / Case 3) on any node of a represented heap *)
Lemma suppress_tail_good h lt name i h' : Rep h lt -> In i (lids lt) -> suppress_tail name i h = HOk h' -> Good h'.
Proof.
  intros R Hin E. pose proof (proj1 (rep_nodes _ _ R i) Hin) as Hi.
  destruct (alookup i (hnodes h)) as [hi|] eqn:Ei; [clear Hi|congruence].
  destruct (Rep_view h lt R i hi Ei) as (p & nm & cm & sl & V1 & V2 & V3 & _).
  assert (Lsl : length (hneigh hi) = length sl).
  { pose proof (Forall2_length' _ _ _ V3) as X. rewrite <- (slots_of_fst hi V2), map_length. exact X. }
  destruct (Nat.eq_dec (length sl) 2) as [L2|L2].
  - destruct p as [[P0 eP0]|].
    + destruct (suppress_inner_Rep h lt name P0 eP0 i nm cm sl R V1 L2) as (h2 & lt2 & E2 & R2).
      rewrite E in E2. injection E2 as <-. eapply Rep_Good. exact R2.
    + destruct (lsubs_ctx _ _ _ _ V1) as [E0|[m [e E0]]]; [|discriminate]. injection E0 as E0.
      assert (Hr : hroot h = i) by (rewrite (rep_root _ _ R), <- E0; reflexivity).
      assert (L2' : length (lslots lt) = 2) by (rewrite <- E0; exact L2).
      destruct (suppress_root_Rep h lt name R L2') as [(h2 & lt2 & E2 & R2)|[msg E2]]; rewrite Hr in E2; rewrite E in E2.
      * injection E2 as <-. eapply Rep_Good. exact R2.
      * discriminate.
  - unfold suppress_tail in E. unfold get_node at 1 in E. rewrite Ei in E. cbn [hbind] in E.
    destruct (Nat.eqb_spec (length (hneigh hi)) 2) as [X|_]; [lia|]. injection E as <-. eapply Rep_Good. exact R.
Qed.

(** * Tree.removeTip keeps the heap good *)
Theorem remove_tip_heap_good h name tip h' : Good h -> remove_tip_heap name tip h = HOk h' -> Good h'.
Proof.
  intros G E. destruct (Good_Rep h G) as [lt R]. rewrite remove_tip_heap_eq in E.
  unfold get_node at 1 in E. destruct (alookup tip (hnodes h)) as [ht|] eqn:Et; [|discriminate]. cbn [hbind] in E.
  destruct (Nat.eqb_spec (length (hneigh ht)) 1) as [L1|L1]; cbn [negb] in E; [|discriminate].
  destruct (one_neighbour_record h lt tip ht R Et L1) as (m & b & Hng & Hbr).
  unfold nth_res at 1 in E. rewrite Hbr in E. cbn [nth_error hbind] in E.
  assert (Hs : has_slot h tip m b) by (exists ht; split; [exact Et|unfold slots_of; rewrite Hng, Hbr; left; reflexivity]).
  destruct (g_slot_exists _ G tip m b Hs) as [_ Hb]. destruct (alookup b (hedges h)) as [bd0|] eqn:Eb; [clear Hb|congruence].
  unfold get_edge at 1 in E. rewrite Eb in E. cbn [hbind] in E.
  destruct (Nat.eq_dec tip (hroot h)) as [Er|Nr].
  { (* the tip is the root: internal is the tip itself, delNeighbor fails *)
    exfalso. destruct (g_rank _ G) as [rank [R0 R1]]. pose proof (R1 b bd0 Eb) as Hrk.
    destruct (g_ends _ G tip m b bd0 Hs Eb) as [[X Y]|[X Y]].
    - rewrite X in E. unfold del_neighbor, get_node in E. rewrite Et in E. cbn [hbind] in E. rewrite Hng in E.
      cbn [index_of] in E. destruct (Nat.eqb_spec m tip) as [E0|_]; [|discriminate].
      rewrite X, Y, E0 in Hrk. lia.
    - rewrite Y, Er, R0 in Hrk. discriminate. }
  destruct (leaf_view h lt tip ht m b R Et Hng Hbr Nr) as (p & nm & cm & l1 & l2 & eix & nmx & cmx & Hsub).
  destruct (DL_facts h lt R p m nm cm l1 l2 b eix tip nmx cmx Hsub)
    as (hQ & hx & c1 & c2 & HQ & Hx0 & _ & _ & _ & _ & _ & _ & _ & _ & _ & Hex & _).
  destruct (drop_leaf_Rep h lt R p m nm cm l1 l2 b eix tip nmx cmx Hsub) as (h1 & hQ1 & Ev & R1 & HQ1 & HQ' & _ & _ & _ & _ & _).
  rewrite Hex in Eb. injection Eb as <-. cbn [hleft] in E.
  destruct (del_neighbor m tip h) as [h0| |] eqn:E0; cbn [hbind] in Ev, E; try discriminate. rewrite Ev in E. cbn [hbind] in E.
  set (lt1 := lreplace m (LNode m nm cm (l1 ++ l2)) lt) in *.
  assert (HinQ : In m (lids lt1)) by (apply (rep_nodes _ _ R1); congruence).
  unfold get_node at 1 in E. rewrite HQ' in E. cbn [hbind] in E.
  match type of E with context [if ?c then _ else _] => destruct c eqn:Elen end.
  2:{ cbn [hbind] in E. exact (suppress_tail_good h1 lt1 name m h' R1 HinQ E). }
  (* Case 1: the single-node loop *)
  destruct (single_path_loop_Rep (hfuel h1) h1 lt1 m R1 HinQ) as (q' & h2 & lt2 & hq' & Lp & R2 & Hq' & Hstop).
  { unfold hfuel. pose proof (lids_le_nodes h1 lt1 (rep_nd _ _ R1) (fun y Hy => proj1 (rep_nodes _ _ R1 y) Hy)). lia. }
  rewrite Lp in E. cbn [hbind] in E. unfold get_node at 1 in E. rewrite Hq' in E. cbn [hbind] in E.
  assert (Hinq' : In q' (lids lt2)) by (apply (rep_nodes _ _ R2); congruence).
  match type of E with context [if ?c then _ else _] => destruct c eqn:Efin end.
  2:{ cbn [hbind] in E. exact (suppress_tail_good h2 lt2 name q' h' R2 Hinq' E). }
  (* Case 1b *)
  apply andb_true_iff in Efin. destruct Efin as [Fr Fl]. apply Nat.eqb_eq in Fr, Fl.
  destruct lt2 as [r2 nm2 cm2 sl2]. pose proof (rep_root _ _ R2) as Hroot2. cbn [lid] in Hroot2.
  assert (Er2 : r2 = q') by congruence. rewrite Er2 in *. clear Er2.
  pose proof (rep_shape _ _ R2) as Sh2. pose proof Sh2 as Sh2'. apply shape_unfold in Sh2. destruct Sh2 as [hq2 (A1 & A2 & A3 & A4 & A5)].
  rewrite Hq' in A1. injection A1 as <-.
  destruct (shape_length _ _ _ _ _ _ _ _ Sh2' Hq') as [Ls _].
  destruct sl2 as [|s2 [|s3 sl2]]; cbn in Ls; try lia.
  pose proof (rep_wf _ _ R2) as W2. apply lwf_iff in W2. destruct W2 as [W20 _].
  destruct s2 as [[[ec eic] [c nmc cmc slc]]|]; [|cbn in W20; discriminate].
  apply Forall2_cons_inv_r in A5. destruct A5 as ([c0 e0] & tl & Esl & Ok0 & A5). inversion A5. subst tl. clear A5.
  cbn [slot_ok fst snd lid] in Ok0. destruct Ok0 as (_ & <- & <- & _).
  assert (Hng' : hneigh hq' = [c]).
  { unfold slots_of in Esl. destruct (hneigh hq') as [|a [|a' ng]], (hbr hq') as [|b' [|b'' bs]]; cbn in A4, Esl; try discriminate; try lia.
    injection Esl as -> _. reflexivity. }
  rewrite Hng' in E. cbn [nth_res nth_error hbind] in E.
  destruct (drop_root_Rep h2 q' nm2 cm2 ec eic c nmc cmc slc R2) as (h3 & E3 & R3).
  destruct (del_neighbor c q' (set_root h2 c)) as [h4| |] eqn:E4; cbn [hbind] in E3, E; try discriminate.
  rewrite E3 in E. cbn [hbind] in E. injection E as <-. eapply Rep_Good. exact R3.
Qed.
