(** Heap model: Tree.removeTip.  Part 1: deleting a leaf (a non-root node whose only slot is
    its parent slot): parent.delNeighbor(leaf); delNode(leaf) -- the first step of removeTip and
    the body of its single-node loop -- keeps the representation. *)
From Coq Require Import String ZArith QArith Bool Arith Lia Permutation List.
From GT Require Import Base.UTree Model.Reroot Model.Heap Proofs.Enum Proofs.HeapBase Proofs.HeapRep
     Proofs.HeapGood Proofs.HeapGoodRep Proofs.HeapRerootL Proofs.HeapReorder Proofs.HeapUnrootL Proofs.HeapUnroot
     Proofs.HeapCtx Proofs.HeapGraft Proofs.HeapCollapse.
Import ListNotations.
Local Close Scope Q_scope.

(** delNode on a node with exactly one branch *)
Lemma del_node_step1 h n hn e1 : alookup n (hnodes h) = Some hn -> hbr hn = [e1] ->
  exists h', del_node n h = HOk h' /\
    (forall x, alookup x (hnodes h') = if Nat.eqb x n then None else alookup x (hnodes h)) /\
    (forall e, alookup e (hedges h') = if Nat.eqb e e1 then None else alookup e (hedges h)) /\
    hroot h' = hroot h /\ hnextn h' = hnextn h /\ hnexte h' = hnexte h.
Proof.
  intros Hn Hb. unfold del_node, get_node. rewrite Hn. cbn [hbind]. rewrite Hb. cbn [fold_right].
  eexists. split; [reflexivity|]. cbn. split; [|split; [|repeat split]].
  - intros x. apply alookup_arem.
  - intros e. apply alookup_arem.
Qed.

Section DropLeaf.
  Variables (h : heap) (lt : ltree).
  Hypothesis R : Rep h lt.
  Variables (p : option (nat * nat)) (q : nat) (nm : string) (cm : list string) (l1 l2 : list lslot).
  Variables (ex : nat) (eix : einfo) (x : nat) (nmx : string) (cmx : list string).
  Let leaf := LNode x nmx cmx [None].
  Let sub := LNode q nm cm (l1 ++ Some (ex, eix, leaf) :: l2).
  Let new := LNode q nm cm (l1 ++ l2).
  Hypothesis Hsub : In (p, sub) (lsubs None lt).

  Lemma DL_facts : exists hq hx c1 c2,
    alookup q (hnodes h) = Some hq /\ alookup x (hnodes h) = Some hx /\
    slots_of hq = c1 ++ (x, ex) :: c2 /\ length c1 = length l1 /\
    Forall2 (slot_ok true h p q) c1 l1 /\ Forall2 (slot_ok true h p q) c2 l2 /\
    length (hneigh hq) = length (hbr hq) /\ hname hq = nm /\ hcom hq = cm /\
    hneigh hx = [q] /\ hbr hx = [ex] /\ alookup ex (hedges h) = Some (mkHE q x eix) /\ q <> x.
  Proof.
    pose proof (shape_lsubs _ _ _ _ _ _ (rep_shape _ _ R) Hsub) as Sh. unfold sub in Sh.
    apply shape_unfold in Sh. destruct Sh as [hq (A1 & A2 & A3 & A4 & A5)].
    apply Forall2_app_inv_r in A5. destruct A5 as (c1 & c2' & F1 & F2 & Ec).
    apply Forall2_cons_inv_r in F2. destruct F2 as (ce & c2 & Ec2 & Ok0 & F2'). rewrite Ec2 in Ec. clear Ec2 c2'.
    destruct ce as [x0 e0]. cbn [slot_ok fst snd] in Ok0. destruct Ok0 as (P0 & Ee & Er & [ed (E1 & E2 & E3 & E4)] & Shx).
    subst e0. unfold leaf in Er. cbn [lid] in Er. subst x0.
    unfold leaf in Shx. apply shape_unfold in Shx. destruct Shx as [hx (B1 & B2 & B3 & B4 & B5)].
    apply Forall2_cons_inv_r in B5. destruct B5 as ([q0 e0] & d2 & Ed & Okx & B5'). inversion B5'. subst d2. clear B5'.
    cbn [slot_ok] in Okx. injection Okx as <- <-.
    assert (Hng : hneigh hx = [q] /\ hbr hx = [ex]).
    { unfold slots_of in Ed. destruct (hneigh hx) as [|a [|a' ng]], (hbr hx) as [|b [|b' bs]]; cbn in B4, Ed; try discriminate; try lia.
      injection Ed as -> ->. split; reflexivity. }
    destruct Hng as [Hng Hbr]. destruct ed as [a b c]. cbn [hleft hright hinfo] in *. subst a b c.
    exists hq, hx, c1, c2. repeat split; try assumption; try (eapply Forall2_length'; eassumption).
    intros ->. assert (Nd : NoDup (lids sub)) by (eapply lsubs_NoDup; [exact (rep_nd _ _ R)|exact Hsub]).
    eapply (lids_head_notin _ _ _ _ Nd); [apply in_or_app; right; left; reflexivity|]. left. reflexivity.
  Qed.

  Theorem drop_leaf_Rep : exists h' hq,
    (do h1 <- del_neighbor q x h; del_node x h1) = HOk h' /\ Rep h' (lreplace q new lt) /\
    alookup q (hnodes h) = Some hq /\
    alookup q (hnodes h') = Some (mkHN (hname hq) (hcom hq) (del_nth (length l1) (hneigh hq)) (del_nth (length l1) (hbr hq))) /\
    length (hneigh hq) = S (length (l1 ++ l2)) /\ hroot h' = hroot h /\
    (forall y, y <> q -> y <> x -> alookup y (hnodes h') = alookup y (hnodes h)) /\
    (forall y, y <> ex -> alookup y (hedges h') = alookup y (hedges h)).
  Proof.
    destruct DL_facts as (hq & hx & c1 & c2 & Hq & Hx & Ec & Lc & F1 & F2 & A4 & A2 & A3 & Hng & Hbr & Hex & Nqx).
    pose proof (Rep_Good h lt R) as G.
    assert (Hnq : nth_error (hneigh hq) (length l1) = Some x).
    { rewrite <- (slots_of_fst hq A4), Ec, nth_error_map, <- Lc, nth_error_app_mid. reflexivity. }
    assert (I0 : index_of x (hneigh hq) = Some (length l1)) by (apply index_of_NoDup; [exact (g_nodup _ G q hq Hq)|exact Hnq]).
    assert (L0 : length l1 < length (hbr hq)) by (rewrite <- A4; apply nth_error_Some; congruence).
    destruct (del_neighbor_step h q x hq (length l1) Hq I0 L0) as [h1 (S1 & Nd1 & (Ed1 & Rt1 & Nn1 & Ne1))].
    rewrite S1. cbn [hbind].
    assert (Hx1 : alookup x (hnodes h1) = Some hx) by (rewrite Nd1; destruct (Nat.eqb_spec x q); [congruence|exact Hx]).
    destruct (del_node_step1 h1 x hx ex Hx1 Hbr) as [h' (S2 & Nd2 & Ed2 & Rt2 & Nn2 & Ne2)].
    set (hq' := mkHN (hname hq) (hcom hq) (del_nth (length l1) (hneigh hq)) (del_nth (length l1) (hbr hq))) in *.
    assert (Lq' : alookup q (hnodes h') = Some hq').
    { rewrite Nd2. destruct (Nat.eqb_spec q x); [congruence|]. rewrite Nd1, Nat.eqb_refl. reflexivity. }
    assert (Nsame : forall y, y <> q -> y <> x -> alookup y (hnodes h') = alookup y (hnodes h)).
    { intros y Y1 Y2. rewrite Nd2. destruct (Nat.eqb_spec y x); [contradiction|]. rewrite Nd1. destruct (Nat.eqb_spec y q); [contradiction|reflexivity]. }
    assert (Esame : forall y, y <> ex -> alookup y (hedges h') = alookup y (hedges h)).
    { intros y Y. rewrite Ed2. destruct (Nat.eqb_spec y ex); [contradiction|]. rewrite Ed1. reflexivity. }
    assert (Lhq : length (hneigh hq) = S (length (l1 ++ l2))).
    { rewrite <- (slots_of_fst hq A4), map_length, Ec, !app_length. cbn [length]. rewrite (Forall2_length' _ _ _ F1), (Forall2_length' _ _ _ F2). lia. }
    exists h', hq. split; [exact S2|]. split; [|repeat split; try assumption; congruence].
    (* ids of the sub-node *)
    assert (Nd : NoDup (lids sub)) by (eapply lsubs_NoDup; [exact (rep_nd _ _ R)|exact Hsub]).
    pose proof (shape_lsubs _ _ _ _ _ _ (rep_shape _ _ R) Hsub) as Shsub.
    pose proof (shape_NoDup_leids _ _ _ Shsub Nd) as Ned.
    assert (EN : lids sub = q :: sids l1 ++ x :: sids l2).
    { unfold sub. rewrite lids_eq. fold (sids (l1 ++ Some (ex, eix, leaf) :: l2)). rewrite sids_app_cons. unfold leaf. rewrite lids_eq. reflexivity. }
    assert (EE : leids sub = seids l1 ++ ex :: seids l2).
    { unfold sub. rewrite leids_eq. fold (seids (l1 ++ Some (ex, eix, leaf) :: l2)). rewrite seids_app_cons. unfold leaf. rewrite leids_eq. reflexivity. }
    assert (ENn : lids new = q :: sids l1 ++ sids l2) by (unfold new; rewrite lids_eq; fold (sids (l1 ++ l2)); rewrite sids_app; reflexivity).
    assert (EEn : leids new = seids l1 ++ seids l2) by (unfold new; rewrite leids_eq; fold (seids (l1 ++ l2)); rewrite seids_app; reflexivity).
    rewrite EN in Nd. rewrite EE in Ned.
    assert (PN : Permutation (x :: lids new) (lids sub)).
    { rewrite EN, ENn. rewrite perm_swap. apply perm_skip. apply Permutation_middle. }
    assert (PE : Permutation (ex :: leids new) (leids sub)) by (rewrite EE, EEn; apply Permutation_middle).
    pose proof (Permutation_NoDup (Permutation_sym PN)) as X1. rewrite EN in X1. specialize (X1 Nd). apply NoDup_cons_iff in X1. destruct X1 as [Rn NdN].
    pose proof (Permutation_NoDup (Permutation_sym PE)) as X2. rewrite EE in X2. specialize (X2 Ned). apply NoDup_cons_iff in X2. destruct X2 as [Re NdE].
    assert (InN : forall y, In y (lids new) <-> In y (lids sub) /\ y <> x).
    { intros y. split.
      - intros Hy. split; [eapply Permutation_in; [exact PN|right; exact Hy]|intros ->; contradiction].
      - intros [Hy Hne]. apply (Permutation_in _ (Permutation_sym PN)) in Hy. destruct Hy as [E0|Hy]; [congruence|exact Hy]. }
    assert (InE : forall y, In y (leids new) <-> In y (leids sub) /\ y <> ex).
    { intros y. split.
      - intros Hy. split; [eapply Permutation_in; [exact PE|right; exact Hy]|intros ->; contradiction].
      - intros [Hy Hne]. apply (Permutation_in _ (Permutation_sym PE)) in Hy. destruct Hy as [E0|Hy]; [congruence|exact Hy]. }
    assert (SubN : forall y, In y (lids sub) -> In y (lids lt)) by (intros y Hy; eapply lsubs_sub_lids; eassumption).
    assert (SubE : forall y, In y (leids sub) -> In y (leids lt)) by (intros y Hy; eapply lsubs_sub_leids; eassumption).
    assert (Inq : In q (lids sub)) by (rewrite EN; left; reflexivity).
    assert (Inx : In x (lids sub)) by (rewrite EN; right; apply in_or_app; right; left; reflexivity).
    assert (Inex : In ex (leids sub)) by (rewrite EE; apply in_or_app; right; left; reflexivity).
    (* sibling slots are unchanged *)
    assert (Tr : forall cs ls, (forall s, In s ls -> In s (l1 ++ l2)) ->
               Forall2 (slot_ok true h p q) cs ls -> Forall2 (slot_ok true h' p q) cs ls).
    { intros cs ls Hls F. eapply Forall2_impl_r; [exact F|]. intros ce s Hs Hok. destruct s as [[[e2 ei2] X]|]; [|exact Hok].
      pose proof (Hls _ Hs) as Hs'.
      assert (HXn : forall y, In y (lids X) -> In y (lids new) /\ y <> q).
      { intros y Hy. split; [unfold new; eapply in_lids_child; eassumption|]. intros ->.
        pose proof NdN as N'. rewrite ENn in N'. apply NoDup_cons_iff in N'. apply (proj1 N'). rewrite <- sids_app. eapply in_sids; eassumption. }
      assert (HXe : forall y, In y (e2 :: leids X) -> In y (leids new)).
      { intros y [<-|Hy]; unfold new; [eapply in_leids_here|eapply in_leids_child]; eassumption. }
      cbn [slot_ok] in *. destruct Hok as (B1 & B2 & B3 & B4 & B5). repeat split; try assumption.
      - eapply edge_ok_eq; [|exact B4]. rewrite <- B2. apply Esame. apply (InE e2). apply HXe. left. reflexivity.
      - eapply shape_frame; [| |exact B5].
        + intros y Hy. destruct (HXn y Hy) as [Y1 Y2]. apply Nsame; [exact Y2|]. apply (InN y). exact Y1.
        + intros y Hy. apply Esame. apply (InE y). apply HXe. right. exact Hy. }
    apply (Rep_replace h h' lt q p sub new R Hsub eq_refl eq_refl).
    - unfold new. apply shape_unfold. exists hq'. split; [exact Lq'|]. unfold hq'. cbn [hname hcom hneigh hbr].
      split; [exact A2|]. split; [exact A3|].
      split; [pose proof (del_nth_length (length l1) (hneigh hq) ltac:(lia)); pose proof (del_nth_length (length l1) (hbr hq) L0); lia|].
      rewrite combine_del_nth. change (combine (hneigh hq) (hbr hq)) with (slots_of hq). rewrite Ec, <- Lc, del_nth_app_mid.
      apply Forall2_app; apply Tr; try assumption; intros s Hs; apply in_or_app; [left|right]; exact Hs.
    - intros y Hy Hy'. apply Nsame; intros ->; contradiction.
    - intros y Hy Hy'. apply Esame. intros ->. contradiction.
    - intros Wsub. unfold sub in Wsub. apply lwf_iff in Wsub. destruct Wsub as [X1 X2]. unfold new. apply lwf_iff. split.
      + rewrite !lnup_app in *. unfold lnup in X1 at 2. cbn in X1. fold (lnup l2) in X1. lia.
      + intros e' ei' ch' Hin. apply (X2 e' ei' ch'). apply in_app_or in Hin. apply in_or_app. destruct Hin; [left|right; right]; assumption.
    - intros Wsub. unfold sub in Wsub. apply lwf_sub_iff in Wsub. destruct Wsub as [X1 X2]. unfold new. apply lwf_sub_iff. split.
      + rewrite !lnup_app in *. unfold lnup in X1 at 2. cbn in X1. fold (lnup l2) in X1. lia.
      + intros e' ei' ch' Hin. apply (X2 e' ei' ch'). apply in_app_or in Hin. apply in_or_app. destruct Hin; [left|right; right]; assumption.
    - congruence.
    - exact NdN.
    - intros y Hy. left. apply InN in Hy. tauto.
    - exact NdE.
    - intros y Hy. left. apply InE in Hy. tauto.
    - intros y. rewrite InN. destruct (Nat.eq_dec y x) as [->|Nx].
      { rewrite Nd2, Nat.eqb_refl. split; [congruence|]. intros [[_ X]|[_ X]]; [congruence|contradiction]. }
      destruct (Nat.eq_dec y q) as [->|Nq]; [rewrite Lq'; split; [intros _; left; tauto|discriminate]|].
      rewrite (Nsame y Nq Nx), <- (rep_nodes _ _ R y). split.
      + intros Hy. destruct (in_dec Nat.eq_dec y (lids sub)); tauto.
      + intros [[X _]|[X _]]; [apply SubN; exact X|exact X].
    - intros y. rewrite InE. destruct (Nat.eq_dec y ex) as [->|Nex].
      { rewrite Ed2, Nat.eqb_refl. split; [congruence|]. intros [[_ X]|[_ X]]; [congruence|contradiction]. }
      rewrite (Esame y Nex), <- (rep_edges _ _ R y). split.
      + intros Hy. destruct (in_dec Nat.eq_dec y (leids sub)); tauto.
      + intros [[X _]|[X _]]; [apply SubE; exact X|exact X].
    - intros y Hy. replace (hnextn h') with (hnextn h) by congruence. apply (rep_fn _ _ R).
      destruct (Nat.eq_dec y x) as [->|Nx]; [rewrite Nd2, Nat.eqb_refl in Hy; congruence|].
      destruct (Nat.eq_dec y q) as [->|Nq]; [apply SubN; exact Inq|].
      rewrite (Nsame y Nq Nx) in Hy. apply (rep_nodes _ _ R). exact Hy.
    - intros y Hy. replace (hnexte h') with (hnexte h) by congruence. apply (rep_fe _ _ R).
      destruct (Nat.eq_dec y ex) as [->|Nex]; [rewrite Ed2, Nat.eqb_refl in Hy; congruence|].
      rewrite (Esame y Nex) in Hy. apply (rep_edges _ _ R). exact Hy.
  Qed.
End DropLeaf.

(** * a leaf of a good heap, seen from the tree *)
Lemma lsubs_ctx : forall lt prev p sub, In (p, sub) (lsubs prev lt) -> (p, sub) = (prev, lt) \/ exists m e, p = Some (m, e).
Proof.
  induction lt as [i n c sl IH] using ltree_ind'. intros prev p sub Hin. rewrite lsubs_eq in Hin.
  destruct Hin as [E|Hin]; [left; symmetry; exact E|]. right.
  apply in_flat_map in Hin. destruct Hin as [s [Hs Hin]]. rewrite Forall_forall in IH. specialize (IH s Hs).
  destruct s as [[[e ei] ch]|]; [|destruct Hin]. destruct (IH _ _ _ Hin) as [[= -> _]|H]; [eauto|exact H].
Qed.

Lemma leaf_view h lt x hx q ex : Rep h lt -> alookup x (hnodes h) = Some hx -> hneigh hx = [q] -> hbr hx = [ex] ->
  x <> hroot h ->
  exists p nm cm l1 l2 eix nmx cmx,
    In (p, LNode q nm cm (l1 ++ Some (ex, eix, LNode x nmx cmx [None]) :: l2)) (lsubs None lt).
Proof.
  intros R Hx Hng Hbr Hnr.
  destruct (Rep_view h lt R x hx Hx) as (p & nmx & cmx & slx & V1 & V2 & V3 & V4 & V5 & V6).
  unfold slots_of in V3. rewrite Hng, Hbr in V3. cbn [combine] in V3.
  pose proof (Forall2_length' _ _ _ V3) as Lx. destruct slx as [|s [|s' slx]]; cbn in Lx; try lia.
  destruct V5 as [[-> W]|[[m [e ->]] W]].
  { exfalso. destruct (lsubs_ctx _ _ _ _ V1) as [E|[m [e E]]]; [|discriminate].
    injection E as <-. apply Hnr. rewrite (rep_root _ _ R). reflexivity. }
  apply Forall2_cons_inv_r in V3. destruct V3 as (ce & c0 & Ec & Ok0 & _). injection Ec as <- _.
  destruct s as [[[e2 ei2] X]|]; [cbn in W; discriminate|].
  cbn [slot_ok] in Ok0. injection Ok0 as -> ->.
  destruct (lsubs_parent _ _ _ _ _ V1) as [[E _]|(pp & nm & cm & sl & eix & H1 & H2)]; [discriminate|].
  destruct (in_split _ _ H2) as [l1 [l2 ->]].
  exists pp, nm, cm, l1, l2, eix, nmx, cmx. exact H1.
Qed.

(** deleting a leaf keeps the heap good *)
Theorem drop_leaf_good h x hx q ex : Good h -> alookup x (hnodes h) = Some hx -> hneigh hx = [q] -> hbr hx = [ex] ->
  x <> hroot h ->
  exists h', (do h1 <- del_neighbor q x h; del_node x h1) = HOk h' /\ Good h'.
Proof.
  intros G Hx Hng Hbr Hnr. destruct (Good_Rep h G) as [lt R].
  destruct (leaf_view h lt x hx q ex R Hx Hng Hbr Hnr) as (p & nm & cm & l1 & l2 & eix & nmx & cmx & Hsub).
  destruct (drop_leaf_Rep h lt R p q nm cm l1 l2 ex eix x nmx cmx Hsub) as (h' & hq & Ev & R' & _).
  exists h'. split; [exact Ev|eapply Rep_Good; exact R'].
Qed.

(** removeTip, the case where nothing else has to be done (tree.go Case 3): the neighbour of
    the tip keeps at least three neighbours *)
Theorem remove_tip_case3_good h name tip ht q ex hq : Good h ->
  alookup tip (hnodes h) = Some ht -> hneigh ht = [q] -> hbr ht = [ex] -> tip <> hroot h ->
  alookup q (hnodes h) = Some hq -> 4 <= length (hneigh hq) ->
  exists h', remove_tip_heap name tip h = HOk h' /\ Good h'.
Proof.
  intros G Ht Hng Hbr Hnr Hq Hdeg. destruct (Good_Rep h G) as [lt R].
  destruct (leaf_view h lt tip ht q ex R Ht Hng Hbr Hnr) as (p & nm & cm & l1 & l2 & eix & nmx & cmx & Hsub).
  destruct (DL_facts h lt R p q nm cm l1 l2 ex eix tip nmx cmx Hsub)
    as (hq0 & hx & c1 & c2 & Hq0 & Hx0 & _ & _ & _ & _ & _ & _ & _ & _ & _ & Hex & _).
  destruct (drop_leaf_Rep h lt R p q nm cm l1 l2 ex eix tip nmx cmx Hsub) as (h' & hq1 & Ev & R' & Hq1 & Hq' & Lq & _).
  rewrite Hq in Hq1. injection Hq1 as <-.
  unfold remove_tip_heap, get_node. rewrite Ht. cbn [hbind]. rewrite Hng. cbn [length Nat.eqb negb].
  unfold nth_res. rewrite Hbr. cbn [nth_error hbind]. unfold get_edge. rewrite Hex. cbn [hbind hleft].
  destruct (del_neighbor q tip h) as [h1| |] eqn:E1; cbn [hbind] in Ev; try discriminate. cbn [hbind]. rewrite Ev. cbn [hbind].
  rewrite Hq'. cbn [hbind hneigh].
  assert (Ld : S (length (del_nth (length l1) (hneigh hq))) = length (hneigh hq)).
  { apply del_nth_length. rewrite Lq, app_length. lia. }
  destruct (Nat.eqb_spec (length (del_nth (length l1) (hneigh hq))) 1) as [E|_]; [lia|]. cbn [hbind].
  rewrite Hq'. cbn [hbind hneigh]. destruct (Nat.eqb_spec (length (del_nth (length l1) (hneigh hq))) 2) as [E|_]; [lia|].
  exists h'. split; [reflexivity|eapply Rep_Good; exact R'].
Qed.

(** * removeTip Case 2, building blocks *)

(** the child side of delNeighbor(old parent) + ConnectNodes(new parent, child): the parent
    slot of [b] moves to the end of its arrays and now holds ([a], [e3]) *)
Lemma reattach_child h h' r eb b nmb cmb slb hnb ib a e3 :
  alookup b (hnodes h) = Some hnb -> hname hnb = nmb -> hcom hnb = cmb ->
  length (hneigh hnb) = length (hbr hnb) ->
  Forall2 (slot_ok true h (Some (r, eb)) b) (slots_of hnb) slb -> lnup slb = 1 ->
  (forall y, In y (sids slb) -> y <> r) -> index_of r (hneigh hnb) = Some ib ->
  alookup b (hnodes h') = Some (mkHN (hname hnb) (hcom hnb) (del_nth ib (hneigh hnb) ++ [a]) (del_nth ib (hbr hnb) ++ [e3])) ->
  (forall y, In y (sids slb) -> alookup y (hnodes h') = alookup y (hnodes h)) ->
  (forall y, In y (seids slb) -> alookup y (hedges h') = alookup y (hedges h) /\ y <> e3) ->
  shape true h' (Some (a, e3)) (LNode b nmb cmb (ldrop_up slb ++ [None])).
Proof.
  intros Hb Hnm Hcm Hlen F Hup Hr Hib Hb' Fn Fe.
  destruct (drop_up_Forall2 (slot_ok true h (Some (r, eb)) b) r slb (hneigh hnb) (hbr hnb) Hlen F) as [ib' (B1 & B2 & B3)].
  { intros j y Hj. eapply neigh_iff_none; eassumption. }
  { apply lnup_pos_in. lia. }
  rewrite Hib in B1. injection B1 as <-.
  assert (Lib : ib < length (hneigh hnb)) by lia.
  pose proof (del_nth_length ib (hneigh hnb) Lib) as Lb1. pose proof (del_nth_length ib (hbr hnb) B2) as Lb2.
  assert (Zb : lnup (ldrop_up slb) = 0) by (rewrite lnup_drop_up, Hup; reflexivity).
  apply shape_unfold. eexists. split; [exact Hb'|]. cbn [hname hcom hneigh hbr].
  split; [exact Hnm|]. split; [exact Hcm|]. split; [rewrite !app_length; cbn; lia|].
  rewrite combine_app_eq by lia. apply Forall2_app; [|constructor; [reflexivity|constructor]].
  eapply Forall2_impl_r; [exact B3|]. intros ce s Hs Hok. destruct s as [[[e ei] ch]|]; [|exfalso; exact (lnup_zero_notin _ Zb Hs)].
  apply in_ldrop_up in Hs. cbn [slot_ok] in *. destruct Hok as (_ & E2 & E3 & E4 & E5).
  split.
  { intros E0. injection E0 as E0. destruct (Fe e) as [_ N]; [eapply in_seids_here; exact Hs|]. apply N. rewrite E2, <- E0. reflexivity. }
  split; [exact E2|]. split; [exact E3|]. split.
  - eapply edge_ok_eq; [|exact E4]. rewrite <- E2. apply Fe. eapply in_seids_here. exact Hs.
  - eapply shape_frame; [| |exact E5].
    + intros y Hy. apply Fn. eapply in_sids; eassumption.
    + intros y Hy. apply Fe. eapply in_seids; eassumption.
Qed.

(** the heap after suppressing the inner node [i] between its parent [P] and its only child [C] *)
Record splice_desc (h h' : heap) (P i C eP eC : nat) (XP XC : hnode) (einfo : einfo) : Prop := {
  sd_nodes : forall x, alookup x (hnodes h') =
     if Nat.eqb x i then None else if Nat.eqb x P then Some XP else if Nat.eqb x C then Some XC else alookup x (hnodes h);
  sd_edges : forall y, alookup y (hedges h') =
     if Nat.eqb y eP then None else if Nat.eqb y eC then None
     else if Nat.eqb y (hnexte h) then Some (mkHE P C einfo) else alookup y (hedges h);
  sd_root : hroot h' = hroot h;
  sd_nextn : hnextn h' = hnextn h;
  sd_nexte : hnexte h' = S (hnexte h)
}.

Section Splice.
  Variables (h h' : heap) (lt : ltree).
  Hypothesis R : Rep h lt.
  Variables (p : option (nat * nat)) (P : nat) (nmP : string) (cmP : list string) (l1 l2 : list lslot).
  Variables (eP : nat) (eiP : einfo) (i : nat) (nmi : string) (cmi : list string) (pfirst : bool).
  Variables (eC : nat) (eiC : einfo) (C : nat) (nmC : string) (cmC : list string) (slC : list lslot).
  Let Cn := LNode C nmC cmC slC.
  Let sli : list lslot := if pfirst then [None; Some (eC, eiC, Cn)] else [Some (eC, eiC, Cn); None].
  Let In_ := LNode i nmi cmi sli.
  Let sub := LNode P nmP cmP (l1 ++ Some (eP, eiP, In_) :: l2).
  Hypothesis Hsub : In (p, sub) (lsubs None lt).
  Variables (hP hC : hnode) (iC : nat) (einfo : einfo).
  Hypothesis HP : alookup P (hnodes h) = Some hP.
  Hypothesis HC : alookup C (hnodes h) = Some hC.
  Hypothesis HiC : index_of i (hneigh hC) = Some iC.
  Let enew := hnexte h.
  Let XP := mkHN (hname hP) (hcom hP) (del_nth (length l1) (hneigh hP) ++ [C]) (del_nth (length l1) (hbr hP) ++ [enew]).
  Let XC := mkHN (hname hC) (hcom hC) (del_nth iC (hneigh hC) ++ [P]) (del_nth iC (hbr hC) ++ [enew]).
  Hypothesis D : splice_desc h h' P i C eP eC XP XC einfo.
  Let Cn' := LNode C nmC cmC (ldrop_up slC ++ [None]).
  Let new := LNode P nmP cmP ((l1 ++ l2) ++ [Some (enew, einfo, Cn')]).

  Lemma SP_sli : sids sli = C :: sids slC /\ seids sli = eC :: seids slC /\ In (Some (eC, eiC, Cn)) sli.
  Proof.
    unfold sli, Cn. destruct pfirst; cbn [sids seids flat_map app]; rewrite ?app_nil_r, ?lids_eq; fold (sids slC) (seids slC);
      (split; [reflexivity|split; [rewrite leids_eq; reflexivity|]]); [right; left; reflexivity|left; reflexivity].
  Qed.

  Lemma SP_ids : lids sub = P :: sids l1 ++ (i :: C :: sids slC) ++ sids l2 /\
                 leids sub = seids l1 ++ eP :: (eC :: seids slC) ++ seids l2 /\
                 lids new = P :: (sids l1 ++ sids l2) ++ C :: sids slC /\
                 leids new = (seids l1 ++ seids l2) ++ enew :: seids slC.
  Proof.
    destruct SP_sli as (E1 & E2 & _). unfold sub, new, In_, Cn'. rewrite !lids_eq, !leids_eq.
    fold (sids (l1 ++ Some (eP, eiP, LNode i nmi cmi sli) :: l2)) (seids (l1 ++ Some (eP, eiP, LNode i nmi cmi sli) :: l2)).
    rewrite sids_app_cons, seids_app_cons, lids_eq, leids_eq. fold (sids sli) (seids sli). rewrite E1, E2.
    fold (sids ((l1 ++ l2) ++ [Some (enew, einfo, LNode C nmC cmC (ldrop_up slC ++ [None]))]))
         (seids ((l1 ++ l2) ++ [Some (enew, einfo, LNode C nmC cmC (ldrop_up slC ++ [None]))])).
    rewrite !sids_app, !seids_app. cbn [sids seids flat_map]. rewrite lids_eq, leids_eq.
    fold (sids (ldrop_up slC ++ [None])) (seids (ldrop_up slC ++ [None])). rewrite sids_app, seids_app, sids_drop_up, seids_drop_up.
    cbn [sids seids flat_map]. rewrite !app_nil_r. repeat split; reflexivity.
  Qed.

  Lemma SP_HsubI : In (Some (P, eP), In_) (lsubs None lt).
  Proof. eapply lsubs_trans; [exact Hsub|]. unfold sub. eapply lsubs_child. apply in_or_app. right. left. reflexivity. Qed.
  Lemma SP_HsubC : In (Some (i, eC), Cn) (lsubs None lt).
  Proof. eapply lsubs_trans; [exact SP_HsubI|]. unfold In_. eapply lsubs_child. apply SP_sli. Qed.

  Lemma SP_facts : exists c1 c2,
    slots_of hP = c1 ++ (i, eP) :: c2 /\ length c1 = length l1 /\
    Forall2 (slot_ok true h p P) c1 l1 /\ Forall2 (slot_ok true h p P) c2 l2 /\
    length (hneigh hP) = length (hbr hP) /\ hname hP = nmP /\ hcom hP = cmP /\
    alookup eP (hedges h) <> None /\ alookup eC (hedges h) <> None /\ alookup i (hnodes h) <> None /\
    hname hC = nmC /\ hcom hC = cmC /\ length (hneigh hC) = length (hbr hC) /\
    Forall2 (slot_ok true h (Some (i, eC)) C) (slots_of hC) slC /\ lnup slC = 1 /\
    (forall e' ei' ch', In (Some (e', ei', ch')) slC -> lwf_sub ch').
  Proof.
    pose proof (shape_lsubs _ _ _ _ _ _ (rep_shape _ _ R) Hsub) as Sh. unfold sub in Sh.
    apply shape_unfold in Sh. destruct Sh as [hP0 (A1 & A2 & A3 & A4 & A5)]. rewrite HP in A1. injection A1 as <-.
    apply Forall2_app_inv_r in A5. destruct A5 as (c1 & c2' & F1 & F2 & Ec).
    apply Forall2_cons_inv_r in F2. destruct F2 as (ce & c2 & Ec2 & Ok0 & F2'). rewrite Ec2 in Ec. clear Ec2 c2'.
    destruct ce as [x0 e0]. cbn [slot_ok fst snd] in Ok0. destruct Ok0 as (_ & Ee & Er & [ed (E1 & _)] & _).
    subst e0. unfold In_ in Er. cbn [lid] in Er. subst x0.
    pose proof (shape_lsubs _ _ _ _ _ _ (rep_shape _ _ R) SP_HsubC) as ShC. unfold Cn in ShC.
    apply shape_unfold in ShC. destruct ShC as [hC0 (B1 & B2 & B3 & B4 & B5)]. rewrite HC in B1. injection B1 as <-.
    destruct (lwf_sub_lsubs lt None _ _ (or_introl (rep_wf _ _ R)) SP_HsubC) as [E|W]; [discriminate|].
    unfold Cn in W. apply lwf_sub_iff in W. destruct W as [W1 W2].
    exists c1, c2. repeat split; try assumption; try (eapply Forall2_length'; eassumption); try congruence.
    - apply (rep_edges _ _ R). eapply lsubs_sub_leids; [exact SP_HsubI|]. unfold In_. eapply in_leids_here. apply SP_sli.
    - apply (rep_nodes _ _ R). eapply lsubs_in_lids with (sub := In_). exact SP_HsubI.
  Qed.

  Theorem SP_Rep : Rep h' (lreplace P new lt).
  Proof.
    destruct SP_facts as (c1 & c2 & Ec & Lc & F1 & F2 & A4 & A2 & A3 & HeP & HeC & Hi & B2 & B3 & B4 & B5 & W1 & W2).
    destruct SP_ids as (EN & EE & ENn & EEn).
    assert (Nd : NoDup (lids sub)) by (eapply lsubs_NoDup; [exact (rep_nd _ _ R)|exact Hsub]).
    pose proof (shape_lsubs _ _ _ _ _ _ (rep_shape _ _ R) Hsub) as Shsub.
    pose proof (shape_NoDup_leids _ _ _ Shsub Nd) as Ned.
    assert (SubN : forall y, In y (lids sub) -> In y (lids lt)) by (intros y Hy; eapply lsubs_sub_lids; eassumption).
    assert (SubE : forall y, In y (leids sub) -> In y (leids lt)) by (intros y Hy; eapply lsubs_sub_leids; eassumption).
    assert (FreshE : forall y, In y (leids lt) -> y <> enew) by (intros y Hy; apply (rep_fe _ _ R) in Hy; unfold enew; lia).
    assert (PN : Permutation (i :: lids new) (lids sub)).
    { rewrite EN, ENn. rewrite perm_swap. apply perm_skip. rewrite <- !app_assoc. rewrite Permutation_middle. apply Permutation_app_head.
      cbn [app]. apply perm_skip. apply (Permutation_app_comm (sids l2) (C :: sids slC)). }
    pose proof (Permutation_NoDup (Permutation_sym PN) Nd) as X1. apply NoDup_cons_iff in X1. destruct X1 as [Rn NdN].
    assert (InN : forall y, In y (lids new) <-> In y (lids sub) /\ y <> i).
    { intros y. split.
      - intros Hy. split; [eapply Permutation_in; [exact PN|right; exact Hy]|intros ->; contradiction].
      - intros [Hy Hne]. apply (Permutation_in _ (Permutation_sym PN)) in Hy. destruct Hy as [E0|Hy]; [congruence|exact Hy]. }
    assert (PE : Permutation (eP :: eC :: seids l1 ++ seids l2 ++ seids slC) (leids sub)).
    { rewrite EE. symmetry. rewrite <- (Permutation_middle (seids l1) _ eP). apply perm_skip. cbn [app].
      rewrite <- (Permutation_middle (seids l1) _ eC). apply perm_skip. apply Permutation_app_head. apply Permutation_app_comm. }
    pose proof (Permutation_NoDup (Permutation_sym PE) Ned) as X2. apply NoDup_cons_iff in X2. destruct X2 as [Re1 X2].
    apply NoDup_cons_iff in X2. destruct X2 as [Re2 NdE0].
    assert (InE0 : forall y, In y (seids l1 ++ seids l2 ++ seids slC) <-> In y (leids sub) /\ y <> eP /\ y <> eC).
    { intros y. split.
      - intros Hy. split; [eapply Permutation_in; [exact PE|right; right; exact Hy]|]. split; intros ->; [apply Re1; right; exact Hy|contradiction].
      - intros (Hy & N1 & N2). apply (Permutation_in _ (Permutation_sym PE)) in Hy. destruct Hy as [E0|[E0|Hy]]; [congruence|congruence|exact Hy]. }
    assert (InE : forall y, In y (leids new) <-> y = enew \/ In y (seids l1 ++ seids l2 ++ seids slC)).
    { intros y. rewrite EEn. repeat (progress cbn [In] || rewrite in_app_iff). intuition. }
    assert (InP : In P (lids sub)) by (rewrite EN; left; reflexivity).
    assert (Ini : In i (lids sub)) by (rewrite EN; right; apply in_or_app; right; left; reflexivity).
    assert (InC : In C (lids sub)) by (rewrite EN; right; apply in_or_app; right; right; left; reflexivity).
    assert (IneP : In eP (leids sub)) by (rewrite EE; apply in_or_app; right; left; reflexivity).
    assert (IneC : In eC (leids sub)) by (rewrite EE; apply in_or_app; right; right; left; reflexivity).
    assert (Dist : P <> i /\ C <> i /\ P <> C).
    { rewrite EN in Nd. apply NoDup_cons_iff in Nd. destruct Nd as [N1 N2]. apply NoDup_app_iff in N2. destruct N2 as (_ & N3 & _).
      apply NoDup_app_iff in N3. destruct N3 as (N4 & _). apply NoDup_cons_iff in N4. destruct N4 as [N5 _].
      repeat split; intros E0.
      - apply N1. rewrite E0. apply in_or_app. right. left. reflexivity.
      - apply N5. left. exact E0.
      - apply N1. rewrite E0. apply in_or_app. right. right. left. reflexivity. }
    destruct Dist as (NPi & NCi & NPC).
    assert (NP' : alookup P (hnodes h') = Some XP).
    { rewrite (sd_nodes _ _ _ _ _ _ _ _ _ _ D). destruct (Nat.eqb_spec P i); [contradiction|]. rewrite Nat.eqb_refl. reflexivity. }
    assert (NC' : alookup C (hnodes h') = Some XC).
    { rewrite (sd_nodes _ _ _ _ _ _ _ _ _ _ D). destruct (Nat.eqb_spec C i); [contradiction|]. destruct (Nat.eqb_spec C P); [congruence|].
      rewrite Nat.eqb_refl. reflexivity. }
    assert (Nsame : forall y, y <> i -> y <> P -> y <> C -> alookup y (hnodes h') = alookup y (hnodes h)).
    { intros y Y1 Y2 Y3. rewrite (sd_nodes _ _ _ _ _ _ _ _ _ _ D). destruct (Nat.eqb_spec y i); [contradiction|].
      destruct (Nat.eqb_spec y P); [contradiction|]. destruct (Nat.eqb_spec y C); [contradiction|]. reflexivity. }
    assert (Esame : forall y, y <> eP -> y <> eC -> y <> enew -> alookup y (hedges h') = alookup y (hedges h)).
    { intros y Y1 Y2 Y3. rewrite (sd_edges _ _ _ _ _ _ _ _ _ _ D). destruct (Nat.eqb_spec y eP); [contradiction|].
      destruct (Nat.eqb_spec y eC); [contradiction|]. destruct (Nat.eqb_spec y (hnexte h)); [contradiction|]. reflexivity. }
    assert (Enew' : alookup enew (hedges h') = Some (mkHE P C einfo)).
    { rewrite (sd_edges _ _ _ _ _ _ _ _ _ _ D). unfold enew.
      destruct (Nat.eqb_spec (hnexte h) eP) as [E0|_]; [exfalso; apply (FreshE eP); [apply SubE; exact IneP|symmetry; exact E0]|].
      destruct (Nat.eqb_spec (hnexte h) eC) as [E0|_]; [exfalso; apply (FreshE eC); [apply SubE; exact IneC|symmetry; exact E0]|].
      rewrite Nat.eqb_refl. reflexivity. }
    (* inner ids / edges of the untouched parts *)
    assert (InnN : forall y, In y (sids l1 ++ sids l2 ++ sids slC) -> In y (lids sub) /\ y <> i /\ y <> P /\ y <> C).
    { intros y Hy. rewrite EN in Nd. apply NoDup_cons_iff in Nd. destruct Nd as [N1 N2]. apply NoDup_app_iff in N2. destruct N2 as (M1 & M2 & M3).
      apply NoDup_app_iff in M2. destruct M2 as (M4 & M5 & M6). apply NoDup_cons_iff in M4. destruct M4 as [M7 M8]. apply NoDup_cons_iff in M8. destruct M8 as [M9 _].
      rewrite !in_app_iff in Hy. split; [rewrite EN; right; rewrite !in_app_iff; cbn [In]; tauto|]. repeat split; intros ->.
      - destruct Hy as [Hy|[Hy|Hy]]; [apply (M3 i Hy); apply in_or_app; left; left; reflexivity|apply (M6 i); [left; reflexivity|exact Hy]|apply M7; right; exact Hy].
      - apply N1. rewrite !in_app_iff. cbn [In]. tauto.
      - destruct Hy as [Hy|[Hy|Hy]]; [apply (M3 C Hy); apply in_or_app; left; right; left; reflexivity|apply (M6 C); [right; left; reflexivity|exact Hy]|exact (M9 Hy)]. }
    assert (InnE : forall y, In y (seids l1 ++ seids l2 ++ seids slC) -> alookup y (hedges h') = alookup y (hedges h) /\ y <> enew).
    { intros y Hy. apply InE0 in Hy. destruct Hy as (Y1 & Y2 & Y3). pose proof (FreshE y (SubE y Y1)) as Y4. split; [apply Esame; assumption|exact Y4]. }
    (* sibling slots of P *)
    assert (Tr : forall cs ls, (forall s, In s ls -> In s (l1 ++ l2)) ->
               Forall2 (slot_ok true h p P) cs ls -> Forall2 (slot_ok true h' p P) cs ls).
    { intros cs ls Hls F. eapply Forall2_impl_r; [exact F|]. intros ce s Hs Hok. destruct s as [[[e2 ei2] X]|]; [|exact Hok].
      pose proof (Hls _ Hs) as Hs'.
      assert (HXn : forall y, In y (lids X) -> In y (sids l1 ++ sids l2 ++ sids slC)).
      { intros y Hy. rewrite app_assoc. apply in_or_app. left. rewrite <- sids_app. eapply in_sids; eassumption. }
      assert (HXe : forall y, In y (e2 :: leids X) -> In y (seids l1 ++ seids l2 ++ seids slC)).
      { intros y Hy. rewrite app_assoc. apply in_or_app. left. rewrite <- seids_app.
        destruct Hy as [<-|Hy]; [eapply in_seids_here|eapply in_seids]; eassumption. }
      cbn [slot_ok] in *. destruct Hok as (B1' & B2' & B3' & B4' & B5'). repeat split; try assumption.
      - eapply edge_ok_eq; [|exact B4']. rewrite <- B2'. apply InnE. apply HXe. left. reflexivity.
      - eapply shape_frame; [| |exact B5'].
        + intros y Hy. destruct (InnN y (HXn y Hy)) as (_ & Y1 & Y2 & Y3). apply Nsame; assumption.
        + intros y Hy. apply InnE. apply HXe. right. exact Hy. }
    assert (L0 : length l1 < length (hneigh hP)).
    { rewrite <- (slots_of_fst hP A4), map_length, Ec, app_length. cbn. lia. }
    apply (Rep_replace h h' lt P p sub new R Hsub eq_refl eq_refl).
    - unfold new. apply shape_unfold. exists XP. split; [exact NP'|]. unfold XP. cbn [hname hcom hneigh hbr].
      split; [exact A2|]. split; [exact A3|].
      pose proof (del_nth_length (length l1) (hneigh hP) L0). pose proof (del_nth_length (length l1) (hbr hP) ltac:(lia)).
      split; [rewrite !app_length; cbn; lia|]. rewrite combine_app_eq by lia. rewrite combine_del_nth.
      change (combine (hneigh hP) (hbr hP)) with (slots_of hP). rewrite Ec, <- Lc, del_nth_app_mid.
      apply Forall2_app; [apply Forall2_app; apply Tr; try assumption; intros s Hs; apply in_or_app; [left|right]; exact Hs|].
      constructor; [|constructor]. cbn [slot_ok fst snd lid]. split.
      { destruct p as [[pp pe]|]; [|discriminate]. intros [= X1 X2].
        destruct (Rep_parent h lt R pp pe sub Hsub) as (hm & ed0 & P1 & P2 & P3 & _).
        apply (FreshE pe); [apply (rep_edges _ _ R); congruence|exact X2]. }
      split; [reflexivity|]. split; [reflexivity|]. split; [eexists; split; [exact Enew'|]; repeat split|].
      eapply (reattach_child h h' i eC C nmC cmC slC hC iC P enew); try eassumption.
      + intros y Hy. apply (InnN y). apply in_or_app. right. apply in_or_app. right. exact Hy.
      + intros y Hy. destruct (InnN y) as (_ & Y1 & Y2 & Y3); [apply in_or_app; right; apply in_or_app; right; exact Hy|]. apply Nsame; assumption.
      + intros y Hy. apply InnE. apply in_or_app. right. apply in_or_app. right. exact Hy.
    - intros y Hy Hy'. apply Nsame; intros ->; contradiction.
    - intros y Hy Hy'. apply Esame; [intros ->; contradiction|intros ->; contradiction|apply FreshE; exact Hy].
    - intros Wsub. unfold sub in Wsub. apply lwf_iff in Wsub. destruct Wsub as [Y1 Y2]. unfold new. apply lwf_iff. split.
      + rewrite !lnup_app in *. unfold lnup in Y1 at 2. cbn in Y1. fold (lnup l2) in Y1. unfold lnup at 3. cbn. lia.
      + intros e' ei' ch' Hin. apply in_app_or in Hin. destruct Hin as [Hin|[[= <- <- <-]|[]]].
        * apply (Y2 e' ei' ch'). apply in_app_or in Hin. apply in_or_app. destruct Hin; [left|right; right]; assumption.
        * unfold Cn'. apply lwf_sub_iff. split; [rewrite lnup_app, lnup_drop_up, W1; reflexivity|].
          intros e2 ei2 ch2 Hin. apply in_app_or in Hin. destruct Hin as [Hin|[E0|[]]]; [|discriminate]. apply in_ldrop_up in Hin. exact (W2 _ _ _ Hin).
    - intros Wsub. unfold sub in Wsub. apply lwf_sub_iff in Wsub. destruct Wsub as [Y1 Y2]. unfold new. apply lwf_sub_iff. split.
      + rewrite !lnup_app in *. unfold lnup in Y1 at 2. cbn in Y1. fold (lnup l2) in Y1. unfold lnup at 3. cbn. lia.
      + intros e' ei' ch' Hin. apply in_app_or in Hin. destruct Hin as [Hin|[[= <- <- <-]|[]]].
        * apply (Y2 e' ei' ch'). apply in_app_or in Hin. apply in_or_app. destruct Hin; [left|right; right]; assumption.
        * unfold Cn'. apply lwf_sub_iff. split; [rewrite lnup_app, lnup_drop_up, W1; reflexivity|].
          intros e2 ei2 ch2 Hin. apply in_app_or in Hin. destruct Hin as [Hin|[E0|[]]]; [|discriminate]. apply in_ldrop_up in Hin. exact (W2 _ _ _ Hin).
    - exact (sd_root _ _ _ _ _ _ _ _ _ _ D).
    - exact NdN.
    - intros y Hy. left. apply InN in Hy. tauto.
    - rewrite EEn. eapply Permutation_NoDup; [apply Permutation_middle|]. constructor.
      + rewrite <- app_assoc. intros Hy. apply InE0 in Hy. destruct Hy as (Y1 & _). exact (FreshE enew (SubE _ Y1) eq_refl).
      + rewrite <- app_assoc. exact NdE0.
    - intros y Hy. apply InE in Hy. destruct Hy as [->|Hy]; [right; intros X; exact (FreshE enew X eq_refl)|left; apply InE0 in Hy; tauto].
    - intros y. rewrite InN. rewrite (sd_nodes _ _ _ _ _ _ _ _ _ _ D).
      destruct (Nat.eqb_spec y i) as [->|Ni]; [split; [congruence|]; intros [[_ X]|[_ X]]; [congruence|contradiction]|].
      destruct (Nat.eqb_spec y P) as [->|NP]; [split; [intros _; left; tauto|discriminate]|].
      destruct (Nat.eqb_spec y C) as [->|NC]; [split; [intros _; left; tauto|discriminate]|].
      rewrite <- (rep_nodes _ _ R y). split.
      + intros Hy. destruct (in_dec Nat.eq_dec y (lids sub)); tauto.
      + intros [[X _]|[X _]]; [apply SubN; exact X|exact X].
    - intros y. rewrite InE. rewrite (sd_edges _ _ _ _ _ _ _ _ _ _ D).
      destruct (Nat.eqb_spec y eP) as [->|N1].
      { split; [congruence|]. intros [[X|X]|[_ X]]; [exfalso; apply (FreshE eP); [apply SubE; exact IneP|exact X]|apply InE0 in X; tauto|contradiction]. }
      destruct (Nat.eqb_spec y eC) as [->|N2].
      { split; [congruence|]. intros [[X|X]|[_ X]]; [exfalso; apply (FreshE eC); [apply SubE; exact IneC|exact X]|apply InE0 in X; tauto|contradiction]. }
      destruct (Nat.eqb_spec y (hnexte h)) as [->|N3]; [split; [intros _; left; left; reflexivity|discriminate]|].
      rewrite <- (rep_edges _ _ R y). split.
      + intros Hy. destruct (in_dec Nat.eq_dec y (leids sub)) as [Hin0|Hin0]; [left; right; apply InE0; tauto|right; tauto].
      + intros [[X|X]|[X _]]; [unfold enew in X; contradiction|apply SubE; apply InE0 in X; tauto|exact X].
    - intros y Hy. rewrite (sd_nextn _ _ _ _ _ _ _ _ _ _ D). apply (rep_fn _ _ R). rewrite (sd_nodes _ _ _ _ _ _ _ _ _ _ D) in Hy.
      destruct (Nat.eqb_spec y i); [congruence|]. destruct (Nat.eqb_spec y P) as [E1|_]; [rewrite E1; apply SubN; exact InP|].
      destruct (Nat.eqb_spec y C) as [E1|_]; [rewrite E1; apply SubN; exact InC|]. apply (rep_nodes _ _ R). exact Hy.
    - intros y Hy. rewrite (sd_nexte _ _ _ _ _ _ _ _ _ _ D). rewrite (sd_edges _ _ _ _ _ _ _ _ _ _ D) in Hy.
      destruct (Nat.eqb_spec y eP); [congruence|]. destruct (Nat.eqb_spec y eC); [congruence|].
      destruct (Nat.eqb_spec y (hnexte h)) as [E1|_]; [lia|]. apply (rep_edges _ _ R), (rep_fe _ _ R) in Hy. lia.
  Qed.
End Splice.
