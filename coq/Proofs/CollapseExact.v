(** C07, collapse: the exact set of remaining branches.
    - with removeRoot, for a selection that does not depend on the position: the branches of
      the result are exactly the tip branches and the non-selected branches of the input;
    - without removeRoot the result is the same whenever no node has two neighbours
      (unrooted tree without single-child nodes);
    - on a rooted tree the two root branches stay and each side is treated as above. *)
From Coq Require Import String ZArith QArith Bool Arith Lia List Permutation Setoid Morphisms.
From GT Require Import Base.UTree Spec.Obs Model.Reroot Spec.Unrooted Proofs.RerootBase Proofs.PruneBase
     Model.Prune Model.Collapse Proofs.PruneStep Proofs.PruneSub Proofs.CollapseBase Proofs.CollapseSplits.
Import ListNotations.
Local Close Scope Q_scope.
Local Arguments n_up : simpl never.
Local Arguments leaves : simpl never.
Local Arguments wf_sub : simpl never.
Local Arguments no_single_sub : simpl never.

Lemma Permutation_filter' {A} (f : A -> bool) l l' : Permutation l l' -> Permutation (filter f l) (filter f l').
Proof.
  induction 1; simpl; auto.
  - destruct (f x); auto.
  - destruct (f x), (f y); auto. apply perm_swap.
  - etransitivity; eauto.
Qed.

Lemma perm_filter_split {A} (p : A -> bool) (X Y Z : list A) :
  Permutation (X ++ Y) Z -> Forall (fun x => p x = true) X -> Forall (fun x => p x = false) Y ->
  Permutation X (filter p Z).
Proof.
  intros H HX HY. rewrite <- (Permutation_filter' p _ _ H), filter_app.
  assert (E1 : filter p X = X).
  { clear -HX. induction HX; simpl; auto. now rewrite H, IHHX. }
  assert (E2 : filter p Y = []).
  { clear -HY. induction HY; simpl; auto. now rewrite H. }
  now rewrite E1, E2, app_nil_r.
Qed.

Section Exact.
  Variable rt : bool.
  Variable s : einfo -> utree -> bool.
  Notation sel := (fun (_ : nat) (e : einfo) (c : utree) => s e c).
  Notation proc := (proc true rt sel).
  Notation proc_go := (proc_go true rt sel).
  Notation ghost := (ghost true rt sel).
  Notation ghost_go := (ghost_go true rt sel).

  (** the branch is contracted *)
  Definition coll (p : einfo * utree) : bool := s (fst p) (snd p) && negb (is_tip (snd p)).
  Definition stays (p : einfo * utree) : bool := negb (coll p).
  (** a remaining branch as it appears in the result *)
  Definition view_adj (p : einfo * utree) : einfo * list string :=
    (if s (fst p) (snd p) && is_tip (snd p) && rt then set_len0 (fst p) else fst p, leaves (snd p)).

  Lemma decide_true k e c n : decide true sel k e c n = coll (e, c).
  Proof. unfold decide, coll. simpl. now rewrite andb_true_r. Qed.

  Definition exact_inv (K : list (einfo * einfo * utree)) (C : list (einfo * utree)) : Prop :=
    Forall (fun x => stays (korig x) = true /\ kview x = view_adj (korig x)) K /\
    Forall (fun p => stays p = false) C.

  Lemma ghost_go_exact top sl :
    Forall (fun sl0 : slot => match sl0 with
                              | Some (_, c) => forall top k m K C, ghost c top k m = (K, C) -> exact_inv K C
                              | None => True end) sl ->
    forall k m K C, ghost_go top sl k m = (K, C) -> exact_inv K C.
  Proof.
    induction sl as [|[[e c]|] r IHr]; intros IH k m K C Hg.
    - simpl in Hg. injection Hg as HK HC. subst. split; constructor.
    - inversion IH as [|? ? Hc Hr]; subst. specialize (IHr Hr).
      rewrite ghost_go_some in Hg. cbv zeta in Hg. rewrite decide_true in Hg.
      destruct (coll (e, c)) eqn:Ed.
      + destruct (proc c false (S k) (m + (if top then length r else length (kids_of r)))) as [bc ac].
        destruct (ghost c false (S k) (m + (if top then length r else length (kids_of r)))) as [kc cc] eqn:Egc.
        destruct (ghost_go top r (k + 1 + span c) (m + length bc + length ac)) as [kr cr] eqn:Egr.
        injection Hg as HK HC. subst K C.
        destruct (Hc _ _ _ _ _ Egc) as [H1 H2]. destruct (IHr _ _ _ _ Egr) as [G1 G2].
        split; [apply Forall_app; auto|]. constructor; [|apply Forall_app; auto].
        unfold stays. now rewrite Ed.
      + destruct (ghost c true (S k) 0) as [k1 c1] eqn:Egc.
        destruct (ghost_go top r (k + 1 + span c) (S m)) as [kr cr] eqn:Egr.
        injection Hg as HK HC. subst K C.
        destruct (Hc _ _ _ _ _ Egc) as [H1 H2]. destruct (IHr _ _ _ _ Egr) as [G1 G2].
        split; [|apply Forall_app; auto]. constructor; [|apply Forall_app; auto].
        unfold stays, korig, kview, view_adj, adj. simpl. rewrite Ed. auto.
    - inversion IH as [|? ? _ Hr]; subst. specialize (IHr Hr).
      rewrite ghost_go_none in Hg. destruct top; eauto.
  Qed.

  Lemma ghost_exact : forall t top k m K C, ghost t top k m = (K, C) -> exact_inv K C.
  Proof.
    induction t as [n cm sl IH] using utree_ind'. intros top k m K C Hg.
    rewrite ghost_eq in Hg. exact (ghost_go_exact top sl IH k m K C Hg).
  Qed.

  (** a node that stays, with the branches below it *)
  Lemma proc_exact t k m b a :
    wf_sub t = true -> proc t true k m = (b, a) ->
    veq (map view (brs (b ++ a))) (map view_adj (filter stays (branches t))).
  Proof.
    intros Hw Hp. destruct (ghost t true k m) as [K C] eqn:Eg.
    destruct (proc_split true rt sel t true k m b a K C Hw Hp Eg) as [H1 [H2 _]].
    destruct (ghost_exact _ _ _ _ _ _ Eg) as [E1 E2].
    destruct t as [n cm sl]. simpl uslots in H2. rewrite branches_unfold.
    assert (P : Permutation (map korig K) (filter stays (brs sl))).
    { apply (perm_filter_split stays _ C); auto.
      clear -E1. induction E1 as [|x K [Hx _] _ IH]; simpl; constructor; auto. }
    etransitivity; [exact H1|]. apply veq_perm.
    rewrite <- (Permutation_map view_adj P), map_map.
    assert (E : map kview K = map (fun x => view_adj (korig x)) K).
    { clear -E1. induction E1 as [|x K [_ Hx] _ IH]; simpl; auto. now rewrite Hx, IH. }
    now rewrite E.
  Qed.

  Theorem remove_edges_exact t :
    wf t = true ->
    veq (map view (branches (remove_edges true rt sel t))) (map view_adj (filter stays (branches t))).
  Proof.
    destruct t as [n cm sl]. intros Hw. unfold remove_edges.
    destruct (proc (UNode n cm sl) true 0 0) as [b a] eqn:Ep.
    destruct (ghost (UNode n cm sl) true 0 0) as [K C] eqn:Eg.
    destruct (proc_split_root true rt sel _ _ _ _ _ _ _ Hw Ep Eg) as [H1 [H2 _]].
    destruct (ghost_exact _ _ _ _ _ _ Eg) as [E1 E2].
    simpl uname. simpl ucom. rewrite !branches_unfold.
    assert (P : Permutation (map korig K) (filter stays (brs sl))).
    { apply (perm_filter_split stays _ C); auto.
      clear -E1. induction E1 as [|x K [Hx _] _ IH]; simpl; constructor; auto. }
    etransitivity; [exact H1|]. apply veq_perm.
    rewrite <- (Permutation_map view_adj P), map_map.
    assert (E : map kview K = map (fun x => view_adj (korig x)) K).
    { clear -E1. induction E1 as [|x K [_ Hx] _ IH]; simpl; auto. now rewrite Hx, IH. }
    now rewrite E.
  Qed.
End Exact.

(** * without removeRoot: same result when no array ever has two entries *)
Section Transfer.
  Variable rt : bool.
  Variable sel : nat -> einfo -> utree -> bool.

  Definition cnt (top : bool) (l : list slot) : nat := if top then length l else length (kids_of l).

  Lemma decide_transfer k e c n :
    degree c <> 2 -> 3 <= n -> decide false sel k e c n = decide true sel k e c n.
  Proof.
    intros Hd Hn. unfold decide. simpl.
    destruct (Nat.eqb (degree c) 2) eqn:E1; [apply Nat.eqb_eq in E1; lia|].
    destruct (Nat.eqb n 2) eqn:E2; [apply Nat.eqb_eq in E2; lia|]. reflexivity.
  Qed.

  Lemma nss_degree c : no_single_sub c = true -> degree c <> 2.
  Proof.
    destruct c as [n cm sl]. rewrite nss_unfold. unfold degree. simpl. intros H.
    apply andb_true_iff in H. destruct H as [H _]. now apply negb_true_iff, Nat.eqb_neq in H.
  Qed.
  Lemma nss_kids c : no_single_sub c = true -> forallb (fun p => no_single_sub (snd p)) (kids_of (uslots c)) = true.
  Proof. destruct c as [n cm sl]. rewrite nss_unfold. simpl. intros H. apply andb_true_iff in H. tauto. Qed.

  Ltac kidsplit :=
    repeat (rewrite ?kids_of_app, ?kids_of_cons_some, ?kids_of_cons_none, ?forallb_app, ?andb_true_iff,
            ?n_up_app, ?n_up_cons, ?n_up_nil, ?app_length, ?kleaves_app, ?kleaves_cons in *; simpl forallb in *; simpl snd in *;
            simpl length in *).

  (** the entries produced by a contraction are not empty *)
  Lemma proc_nonempty rr c k m bc ac :
    wf_sub c = true -> is_tip c = false -> Collapse.proc rr rt sel c false k m = (bc, ac) -> 1 <= length bc + length ac.
  Proof.
    intros Hw Ht Hp. destruct (proc_basic rr rt sel c false k m bc ac Hw Hp) as [_ [_ [_ H4]]].
    destruct (nontip_leaves c Hw Ht) as [Hk _].
    rewrite <- app_length. destruct (bc ++ ac) eqn:E; [|simpl; lia].
    change (kleaves (kids_of [])) with (@nil string) in H4. apply Permutation_nil in H4.
    apply kleaves_nil_iff in H4. congruence.
  Qed.

  Lemma proc_go_transfer top sl :
    Forall (fun s0 : slot => match s0 with
                             | Some (_, c) => forall top k m, wf_sub c = true -> no_single_sub c = true ->
                                                              (3 <= m + cnt top (uslots c) \/ kids_of (uslots c) = []) ->
                                                              Collapse.proc false rt sel c top k m = Collapse.proc true rt sel c top k m
                             | None => True end) sl ->
    forallb (fun p => wf_sub (snd p)) (kids_of sl) = true ->
    forallb (fun p => no_single_sub (snd p)) (kids_of sl) = true ->
    forall k m, (3 <= m + cnt top sl \/ kids_of sl = []) ->
                proc_go false rt sel top sl k m = proc_go true rt sel top sl k m.
  Proof.
    induction sl as [|[[e c]|] r IHr]; intros IH Hw Hs k m HN; [reflexivity| |].
    - inversion IH as [|? ? Hc Hr]; subst. kidsplit. destruct Hw as [Hwc Hwr]. destruct Hs as [Hsc Hsr].
      specialize (IHr Hr Hwr Hsr).
      destruct HN as [HN|HN]; [|discriminate].
      assert (HN' : 3 <= m + 1 + (if top then length r else length (kids_of r))).
      { unfold cnt in HN. destruct top; kidsplit; simpl in HN; lia. }
      rewrite !proc_go_some. cbv zeta.
      rewrite (decide_transfer k e c _ (nss_degree c Hsc) HN').
      destruct (decide true sel k e c (m + 1 + (if top then length r else length (kids_of r)))) eqn:Ed.
      + assert (Ht : is_tip c = false) by (eapply decide_nontip; eauto).
        destruct (nontip_leaves c Hwc Ht) as [Hk _].
        assert (Hk2 : 2 <= length (kids_of (uslots c))).
        { generalize (length_slots (uslots c)). rewrite (wf_sub_up c Hwc).
          generalize (nss_degree c Hsc). unfold degree, is_tip, degree in *. apply Nat.eqb_neq in Ht.
          destruct (kids_of (uslots c)) as [|? [|? ?]]; simpl; try congruence; lia. }
        rewrite Hc; auto.
        2:{ left. unfold cnt. lia. }
        destruct (Collapse.proc true rt sel c false (S k) (m + (if top then length r else length (kids_of r)))) as [bc ac] eqn:Ec.
        generalize (proc_nonempty true c _ _ _ _ Hwc Ht Ec). intros Hne.
        rewrite IHr; auto.
        destruct (kids_of r) eqn:Ekr; auto. left. unfold cnt. rewrite Ekr. destruct top; simpl in *; lia.
      + rewrite Hc; auto.
        2:{ unfold cnt. simpl. generalize (nss_degree c Hsc). unfold degree. intros Hd.
            generalize (length_slots (uslots c)). rewrite (wf_sub_up c Hwc).
            destruct (kids_of (uslots c)) as [|? [|? ?]]; simpl; auto; intros; left; lia. }
        rewrite IHr; auto.
        destruct (kids_of r) eqn:Ekr; auto. left. unfold cnt. rewrite Ekr. destruct top; simpl in *; lia.
    - inversion IH as [|? ? _ Hr]; subst. kidsplit. specialize (IHr Hr Hw Hs).
      rewrite !proc_go_none. destruct top.
      + rewrite IHr; auto. destruct HN as [HN|HN]; auto. left. unfold cnt in *. simpl in HN. lia.
      + apply IHr. destruct HN as [HN|HN]; auto.
  Qed.

  Lemma proc_transfer : forall c top k m,
      wf_sub c = true -> no_single_sub c = true -> (3 <= m + cnt top (uslots c) \/ kids_of (uslots c) = []) ->
      Collapse.proc false rt sel c top k m = Collapse.proc true rt sel c top k m.
  Proof.
    induction c as [n cm sl IH] using utree_ind'. intros top k m Hw Hs HN.
    rewrite !proc_eq. simpl uslots in HN.
    exact (proc_go_transfer top sl IH (wf_sub_kids _ Hw) (nss_kids _ Hs) k m HN).
  Qed.

  (** unrooted trees without single-child nodes *)
  Theorem remove_edges_transfer t :
    wf t = true -> no_single t = true -> 3 <= degree t ->
    remove_edges false rt sel t = remove_edges true rt sel t.
  Proof.
    destruct t as [n cm sl]. intros Hw Hs Hd. unfold remove_edges. rewrite !proc_eq.
    rewrite wf_unfold in Hw. apply andb_true_iff in Hw. destruct Hw as [_ Hw].
    rewrite (proc_go_transfer true sl); auto.
    all: try (apply Forall_forall; intros [[e c]|] _; auto; intros; now apply proc_transfer).
    all: try (left; unfold cnt, degree in *; simpl in *; lia).
  Qed.

  (** rooted trees: the two root branches stay, each side is treated on its own *)
  Definition rebuilt (c : utree) (k : nat) : utree :=
    let '(b, a) := Collapse.proc true rt sel c true k 0 in UNode (uname c) (ucom c) (b ++ a).

  Theorem remove_edges_rooted n cm e1 c1 e2 c2 :
    wf (UNode n cm [Some (e1, c1); Some (e2, c2)]) = true ->
    no_single (UNode n cm [Some (e1, c1); Some (e2, c2)]) = true ->
    remove_edges false rt sel (UNode n cm [Some (e1, c1); Some (e2, c2)]) =
    UNode n cm [Some (adj rt sel 0 e1 c1, rebuilt c1 1); Some (adj rt sel (1 + span c1) e2 c2, rebuilt c2 (S (1 + span c1)))].
  Proof.
    intros Hw Hs. rewrite wf_unfold in Hw. apply andb_true_iff in Hw. destruct Hw as [_ Hw].
    unfold no_single, kids in Hs. simpl in Hw, Hs. rewrite !andb_true_r in *.
    apply andb_true_iff in Hw. destruct Hw as [Hw1 Hw2]. apply andb_true_iff in Hs. destruct Hs as [Hs1 Hs2].
    assert (HN : forall c, wf_sub c = true -> no_single_sub c = true ->
                           3 <= 0 + cnt true (uslots c) \/ kids_of (uslots c) = []).
    { intros c Hwc Hsc. unfold cnt. generalize (nss_degree c Hsc). unfold degree. intros Hd.
      generalize (length_slots (uslots c)). rewrite (wf_sub_up c Hwc).
      destruct (kids_of (uslots c)) as [|? [|? ?]]; simpl; auto; intros; left; lia. }
    unfold remove_edges. rewrite proc_eq, !proc_go_some. cbv zeta.
    assert (D1 : decide false sel 0 e1 c1 (0 + 1 + length [Some (e2, c2)]) = false).
    { unfold decide. simpl. now rewrite orb_true_r, andb_false_r. }
    rewrite D1. rewrite (proc_transfer c1 true 1 0 Hw1 Hs1 (HN c1 Hw1 Hs1)).
    unfold rebuilt. destruct (Collapse.proc true rt sel c1 true 1 0) as [b1 a1].
    rewrite !proc_go_some. cbv zeta.
    assert (D2 : decide false sel (0 + 1 + span c1) e2 c2 (1 + 1 + @length slot []) = false).
    { unfold decide. simpl. now rewrite orb_true_r, andb_false_r. }
    rewrite D2. rewrite (proc_transfer c2 true _ 0 Hw2 Hs2 (HN c2 Hw2 Hs2)).
    cbn [Nat.add]. destruct (Collapse.proc true rt sel c2 true (S (S (span c1))) 0) as [b2 a2].
    simpl. reflexivity.
  Qed.
End Transfer.

(** * the exact-set statements for the commands' default (removeRoot = false) *)
Section Default.
  Variable rt : bool.
  Variable s : einfo -> utree -> bool.
  Notation sel := (fun (_ : nat) (e : einfo) (c : utree) => s e c).

  (** unrooted trees *)
  Theorem remove_edges_exact_unrooted t :
    wf t = true -> no_single t = true -> 3 <= degree t ->
    veq (map view (branches (remove_edges false rt sel t)))
        (map (view_adj rt s) (filter (stays s) (branches t))).
  Proof.
    intros Hw Hs Hd. rewrite remove_edges_transfer by auto. now apply remove_edges_exact.
  Qed.

  Lemma rebuilt_view e c k :
    wf_sub c = true ->
    veq (view (adj rt sel k e c, rebuilt rt sel c (S k)) :: map view (branches (rebuilt rt sel c (S k))))
        (view_adj rt s (e, c) :: map (view_adj rt s) (filter (stays s) (branches c))).
  Proof.
    intros Hw. unfold rebuilt.
    destruct (Collapse.proc true rt sel c true (S k) 0) as [b a] eqn:Ep.
    destruct (proc_basic true rt sel c true _ _ _ _ Hw Ep) as [B1 [B2 [B3 B4]]].
    apply veq_cons.
    - unfold view, view_adj, adj. simpl. split; simpl; auto. apply rebuilt_leaves; auto.
    - rewrite branches_unfold. eapply proc_exact; eauto.
  Qed.

  (** rooted trees: the two root branches stay, the others are treated as above *)
  Theorem remove_edges_exact_rooted n cm e1 c1 e2 c2 :
    wf (UNode n cm [Some (e1, c1); Some (e2, c2)]) = true ->
    no_single (UNode n cm [Some (e1, c1); Some (e2, c2)]) = true ->
    veq (map view (branches (remove_edges false rt sel (UNode n cm [Some (e1, c1); Some (e2, c2)]))))
        ((view_adj rt s (e1, c1) :: map (view_adj rt s) (filter (stays s) (branches c1))) ++
         (view_adj rt s (e2, c2) :: map (view_adj rt s) (filter (stays s) (branches c2)))).
  Proof.
    intros Hw Hs. rewrite remove_edges_rooted by auto.
    rewrite wf_unfold in Hw. apply andb_true_iff in Hw. destruct Hw as [_ Hw]. simpl in Hw.
    rewrite andb_true_r in Hw. apply andb_true_iff in Hw. destruct Hw as [Hw1 Hw2].
    rewrite branches_unfold, !brs_cons_some. change (brs []) with (@nil (einfo * utree)). rewrite app_nil_r.
    rewrite map_cons, map_app, map_cons.
    change (?x :: ?l ++ ?y :: ?l') with ((x :: l) ++ (y :: l')).
    apply veq_app; apply rebuilt_view; auto.
  Qed.
End Default.

Theorem remove_edges_count rt s t :
  wf t = true ->
  length (branches (remove_edges true rt (fun _ e c => s e c) t)) = length (filter (stays s) (branches t)).
Proof.
  intros Hw. generalize (remove_edges_exact rt s t Hw). intros H.
  apply PermR_length in H. now rewrite !map_length in H.
Qed.
