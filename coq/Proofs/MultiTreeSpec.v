(** What the multi-Newick reader (Model/MultiTree.v) delivers, as a function of the physical
    lines of the file (lines that fit bufio's buffer: every read is a whole line): the lines
    are concatenated (without their terminators) up to and including the first line after
    which the buffer ends -- trailing blanks and tabs ignored -- with ';'; each such chunk is
    handed to the single-tree parser, which delivers at most one tree; what follows the last
    such line is dropped silently. *)
From Coq Require Import String Ascii ZArith Bool Arith Lia List.
From GT Require Import Base.UTree Model.MultiTree Proofs.MultiTree.
Import ListNotations.
Local Open Scope string_scope.

(** the buffer ends with ';' up to trailing blanks (the splitter's own test) *)
Definition ends_semi (ln : string) : bool :=
  match last_char ln "0"%char with ScanOk c => is_semi c | _ => false end.

(** the chunks handed to the parser *)
Fixpoint split_lines (acc : string) (lines : list string) : list string :=
  match lines with
  | [] => []
  | l :: r => if ends_semi (acc ++ l) then (acc ++ l) :: split_lines "" r else split_lines (acc ++ l) r
  end.

Definition whole_lines (lines : list string) : list phys_read := map (fun l => (l, false)) lines.

Section Spec.
  Variable nparse : string -> utree + string.

  (** records: one per chunk, ids from [id], until the first chunk the parser rejects *)
  Fixpoint deliver (id : nat) (cs : list string) : list item :=
    match cs with
    | [] => []
    | c :: r => match nparse c with
                | inr m => [IErr id m]
                | inl t => ITree id t :: deliver (S id) r
                end
    end.

  Lemma last_char_semi : forall ln last,
      is_semi last = false -> exists c, last_char ln last = ScanOk c /\ is_semi c = ends_semi ln.
  Proof.
    intros ln last H. unfold ends_semi. unfold last_char.
    destruct (0 <? zlen ln)%Z eqn:E.
    - pose proof (last_char_ok ln last) as [c Hc]. unfold last_char in Hc. rewrite E in Hc.
      exists c. split; [exact Hc|].
      destruct (byte_at ln (zlen ln - 1)); [|discriminate]. rewrite Hc. reflexivity.
    - exists last. split; [reflexivity|]. simpl. rewrite H. reflexivity.
  Qed.

  (** the first closing line *)
  Fixpoint first_close (acc : string) (lines : list string) : option (string * list string) :=
    match lines with
    | [] => None
    | l :: r => if ends_semi (acc ++ l) then Some (acc ++ l, r) else first_close (acc ++ l) r
    end.

  Lemma rus_loop_lines : forall lines ln last pre,
      is_semi last = false -> ends_semi ln = false ->
      match first_close ln lines with
      | Some (c, r) => rus_loop (whole_lines lines) ln last pre = RLine c (whole_lines r)
      | None => exists x, rus_loop (whole_lines lines) ln last pre = REof x
      end.
  Proof.
    induction lines as [|l r IH]; intros ln last pre H He; simpl.
    - rewrite H. rewrite orb_true_r. destruct (last_char_semi ln last H) as [c [Hc Hs]]. rewrite Hc.
      rewrite Hs, He. eauto.
    - rewrite H. rewrite orb_true_r.
      destruct (last_char_semi (ln ++ l) last H) as [c [Hc Hs]]. rewrite Hc.
      destruct (ends_semi (ln ++ l)) eqn:E.
      + destruct r as [|l2 r2]; simpl; rewrite Hs; reflexivity.
      + apply IH; [exact Hs|exact E].
  Qed.

  Lemma rus_lines : forall lines,
      match first_close "" lines with
      | Some (c, r) => read_until_semicolon (whole_lines lines) = RLine c (whole_lines r)
      | None => exists x, read_until_semicolon (whole_lines lines) = REof x
      end.
  Proof. intros lines. apply rus_loop_lines; reflexivity. Qed.

  Lemma split_first_close : forall lines acc,
      split_lines acc lines = match first_close acc lines with
                              | Some (c, r) => c :: split_lines "" r
                              | None => []
                              end.
  Proof.
    induction lines as [|l r IH]; intros acc; simpl; [reflexivity|].
    destruct (ends_semi (acc ++ l)); [reflexivity|apply IH].
  Qed.

  Lemma first_close_shorter : forall lines acc c r, first_close acc lines = Some (c, r) -> length r < length lines.
  Proof.
    induction lines as [|l r0 IH]; intros acc c r H; simpl in H; [discriminate|].
    destruct (ends_semi (acc ++ l)).
    - inversion H; subst. simpl. lia.
    - apply IH in H. simpl. lia.
  Qed.

  Lemma multi_loop_lines : forall fuel id c rest,
      length rest < fuel ->
      multi_loop nparse fuel id c (whole_lines rest) = MDone (deliver id (c :: split_lines "" rest)).
  Proof.
    induction fuel as [|f IH]; intros id c rest Hf; [lia|].
    cbn [multi_loop deliver]. destruct (nparse c) as [t|m]; [|reflexivity].
    rewrite (split_first_close rest "").
    pose proof (rus_lines rest) as R.
    destruct (first_close "" rest) as [[c' r']|] eqn:E.
    - rewrite R. rewrite IH; [reflexivity|]. apply first_close_shorter in E. lia.
    - destruct R as [x R]. rewrite R. reflexivity.
  Qed.

  (** the reader loop of ReadMultiTrees on a file given by its lines *)
  Theorem read_multi_lines : forall lines,
      read_multi nparse (whole_lines lines) =
      MDone (match split_lines "" lines with
             | [] => [IErr 0 "EOF"]
             | cs => deliver 0 cs
             end).
  Proof.
    intros lines. unfold read_multi. rewrite (split_first_close lines "").
    pose proof (rus_lines lines) as R.
    destruct (first_close "" lines) as [[c r]|] eqn:E.
    - rewrite R. unfold whole_lines at 1. rewrite map_length.
      rewrite multi_loop_lines; [reflexivity|]. apply first_close_shorter in E. lia.
    - destruct R as [x R]. rewrite R. reflexivity.
  Qed.

  (** at most one tree per chunk, at most one chunk per line: a file with more trees than
      lines ending in ';' cannot be delivered completely *)
  Lemma deliver_bound : forall cs id, n_trees (deliver id cs) <= length cs.
  Proof.
    induction cs as [|c r IH]; intros id; unfold n_trees; simpl; [lia|].
    destruct (nparse c); simpl; [|lia]. specialize (IH (S id)). unfold n_trees in IH. lia.
  Qed.

  Lemma split_lines_bound : forall lines acc, length (split_lines acc lines) <= length lines.
  Proof.
    induction lines as [|l r IH]; intros acc; simpl; [lia|].
    destruct (ends_semi (acc ++ l)); simpl; [specialize (IH ""); lia|specialize (IH (acc ++ l)); lia].
  Qed.

  Theorem read_multi_one_tree_per_line : forall lines,
      n_trees (items_of (read_multi nparse (whole_lines lines))) <= length lines.
  Proof.
    intros lines. rewrite read_multi_lines.
    pose proof (split_lines_bound lines "") as B.
    destruct (split_lines "" lines) as [|c r] eqn:E.
    - unfold n_trees. simpl. lia.
    - pose proof (deliver_bound (c :: r) 0) as D. unfold items_of. simpl length in *. lia.
  Qed.
End Spec.

(** * what [ends_semi] means *)
Fixpoint all_blank (s : string) : bool :=
  match s with EmptyString => true | String c r => is_blank c && all_blank r end.

Lemma get_app_r : forall s t k, String.get (String.length s + k) (s ++ t) = String.get k t.
Proof. induction s as [|a s IH]; intros t k; simpl; [reflexivity|apply IH]. Qed.

Lemma length_app : forall s t, String.length (s ++ t) = String.length s + String.length t.
Proof. induction s as [|a s IH]; intros t; simpl; [reflexivity|]. rewrite IH. reflexivity. Qed.

Lemma byte_at_app_r : forall s t (k : nat),
    byte_at (s ++ t) (Z.of_nat (String.length s + k)) = String.get k t.
Proof.
  intros s t k. unfold byte_at.
  destruct (Z.of_nat (String.length s + k) <? 0)%Z eqn:E; [apply Z.ltb_lt in E; lia|].
  rewrite Nat2Z.id. apply get_app_r.
Qed.

Lemma get_blank : forall bl k c, all_blank bl = true -> String.get k bl = Some c -> is_blank c = true.
Proof.
  induction bl as [|a bl IH]; intros k c H G; simpl in *; [discriminate|].
  apply andb_true_iff in H. destruct H as [H1 H2].
  destruct k; [inversion G; subst; exact H1|eapply IH; eassumption].
Qed.

(** scanning back from position |s|+k over blanks reaches the non-blank c at position |s| *)
Lemma back_scan_reaches : forall s c bl k fuel b,
    is_blank c = false -> all_blank bl = true ->
    k <= String.length bl -> k < fuel ->
    String.get k (String c bl) = Some b ->
    back_scan fuel (s ++ String c bl) (Z.of_nat (String.length s + k)) b = ScanOk c.
Proof.
  intros s c bl. induction k as [|k IH]; intros fuel b Hc Hbl Hk Hf Hb.
  - simpl in Hb. inversion Hb; subst b. destruct fuel; [lia|]. simpl. rewrite Hc. reflexivity.
  - destruct fuel as [|f]; [lia|]. simpl in Hb.
    assert (Bb : is_blank b = true) by (eapply get_blank; eassumption).
    cbn [back_scan]. rewrite Bb.
    replace (0 <? Z.of_nat (String.length s + S k))%Z with true by (symmetry; apply Z.ltb_lt; lia).
    cbn [andb].
    replace (Z.of_nat (String.length s + S k) - 1)%Z with (Z.of_nat (String.length s + k)) by lia.
    rewrite byte_at_app_r.
    destruct (String.get k (String c bl)) as [b'|] eqn:G.
    + apply IH; first [assumption | reflexivity | lia].
    + exfalso. destruct (get_some (String c bl) k) as [x Hx]; [simpl; lia|]. congruence.
Qed.

Theorem ends_semi_last_nonblank : forall s c bl,
    is_blank c = false -> all_blank bl = true -> ends_semi (s ++ String c bl) = is_semi c.
Proof.
  intros s c bl Hc Hbl. unfold ends_semi, last_char.
  assert (L : zlen (s ++ String c bl) = Z.of_nat (String.length s + S (String.length bl))).
  { unfold zlen. rewrite length_app. reflexivity. }
  rewrite L.
  replace (0 <? Z.of_nat (String.length s + S (String.length bl)))%Z with true by (symmetry; apply Z.ltb_lt; lia).
  replace (Z.of_nat (String.length s + S (String.length bl)) - 1)%Z
    with (Z.of_nat (String.length s + String.length bl)) by lia.
  rewrite byte_at_app_r.
  destruct (get_some (String c bl) (String.length bl)) as [b Hb]; [simpl; lia|]. rewrite Hb.
  rewrite back_scan_reaches; try assumption; try lia; [reflexivity|].
  rewrite length_app. simpl. lia.
Qed.

Corollary ends_semi_true : forall s bl, all_blank bl = true -> ends_semi (s ++ String ";" bl) = true.
Proof. intros s bl H. rewrite ends_semi_last_nonblank; [reflexivity|reflexivity|exact H]. Qed.

(** a buffer of blanks only does not close a chunk *)
Lemma back_scan_blank : forall fuel ln i b,
    all_blank ln = true -> is_blank b = true ->
    forall c, back_scan fuel ln i b = ScanOk c -> is_blank c = true.
Proof.
  induction fuel as [|f IH]; intros ln i b Hl Hb c H; simpl in H; [discriminate|].
  destruct (is_blank b && (0 <? i)%Z).
  - destruct (byte_at ln (i - 1)) as [x|] eqn:G; [|discriminate].
    eapply IH; [exact Hl| |exact H].
    unfold byte_at in G. destruct (i - 1 <? 0)%Z; [discriminate|]. eapply get_blank; eassumption.
  - inversion H; subst. exact Hb.
Qed.

Theorem ends_semi_blank : forall s, all_blank s = true -> ends_semi s = false.
Proof.
  intros s H. unfold ends_semi, last_char.
  destruct (0 <? zlen s)%Z; [|reflexivity].
  destruct (byte_at s (zlen s - 1)) as [b|] eqn:G; [|reflexivity].
  assert (Bb : is_blank b = true).
  { unfold byte_at in G. destruct (zlen s - 1 <? 0)%Z; [discriminate|]. eapply get_blank; eassumption. }
  destruct (back_scan (S (S (String.length s))) s (zlen s - 1) b) as [c| |] eqn:E; try reflexivity.
  pose proof (back_scan_blank _ _ _ _ H Bb c E) as Bc.
  unfold is_blank in Bc. unfold is_semi.
  destruct (Ascii.eqb c ";") eqn:Q; [|reflexivity].
  apply Ascii.eqb_eq in Q. subst c. discriminate Bc.
Qed.
