(** C16, rooted AllTopologies: what exactly is returned (planted trees: an unnamed root with
    ONE branch, of NIL length, to an unnamed node with three neighbours, parent first), and
    the rooted binary trees obtained by dropping the planted root: same tips, same key, all
    (2n-3)!! of them pairwise different. *)
From Coq Require Import String Ascii ZArith QArith Bool Arith Lia List Permutation Sorted.
From GT Require Import Base.UTree Spec.Obs Spec.GenShape Spec.Unrooted Model.Reroot Model.Rand2
     Model.TreeGen Proofs.RerootBase Proofs.Splits Proofs.TreeGenNames
     Proofs.TreeGenTopo Proofs.TreeGenTopo2.
Import ListNotations.
Local Close Scope Q_scope.
Local Open Scope list_scope.
Local Arguments n_up : simpl never.

(** drop the planted root: the single child becomes the root, its parent slot is removed *)
Definition unplant (t : utree) : option utree :=
  match t with
  | UNode _ _ [Some (_, UNode n c sl)] => Some (UNode n c (drop_up sl))
  | _ => None
  end.

Lemma sset_eqb_refl a : sset_eqb a a = true.
Proof.
  unfold sset_eqb. induction a as [|x a IH]; simpl; auto. now rewrite String.eqb_refl, IH.
Qed.

Theorem unplant_spec t : wf t = true -> planted t = true ->
  exists r, unplant t = Some r /\ wf r = true /\ binary true r = true /\
            leaves r = leaves t /\ topo_key true r = topo_key true t.
Proof.
  destruct t as [n0 c0 sl0]. intros W P.
  unfold planted in P. destruct sl0 as [|[[e ch]|] [|s2 r0]]; try discriminate.
  apply andb_prop in P. destruct P as [Pt Pb].
  rewrite wf_eq in W. apply andb_prop in W. destruct W as [_ W]. simpl in W.
  rewrite andb_true_r in W.
  destruct ch as [n c sl].
  rewrite wf_sub_eq in W. apply andb_prop in W. destruct W as [U Ws]. apply Nat.eqb_eq in U.
  rewrite bin_sub_eq in Pb. apply andb_prop in Pb. destruct Pb as [Pl Bs].
  unfold is_tip, degree in Pt. simpl uslots in Pt.
  assert (L3 : length sl = 3).
  { destruct (Nat.eqb (length sl) 1) eqn:E1; [discriminate|]. simpl in Pl.
    now apply Nat.eqb_eq in Pl. }
  exists (UNode n c (drop_up sl)). split; [reflexivity|].
  assert (EK : kids_of (drop_up sl) = kids_of sl) by apply kids_of_drop_up.
  assert (Elv : leaves (UNode n c (drop_up sl)) = leaves (UNode n0 c0 [Some (e, UNode n c sl)])).
  { rewrite (leaves_kids n c (drop_up sl) n c sl eq_refl EK).
    rewrite (leaves_unfold n0 c0). simpl kids_of. unfold kleaves. simpl flat_map.
    now rewrite app_nil_r. }
  split; [|split; [|split; [exact Elv|]]].
  - rewrite wf_eq, n_up_drop_up, U. simpl. rewrite sub_all_kids, EK, <- sub_all_kids. exact Ws.
  - unfold binary, degree. simpl uslots. rewrite length_drop_up by lia. rewrite L3. simpl.
    rewrite sub_all_kids, EK, <- sub_all_kids. exact Bs.
  - unfold topo_key, tipset. rewrite Elv.
    set (all := sset (leaves (UNode n0 c0 [Some (e, UNode n c sl)]))).
    assert (EC : clades (UNode n c (drop_up sl)) = clades (UNode n c sl)).
    { rewrite !clades_unfold, !slots_clades_kids, EK. reflexivity. }
    assert (ET : clades (UNode n0 c0 [Some (e, UNode n c sl)]) = all :: clades (UNode n c sl)).
    { rewrite (clades_unfold n0 c0). simpl. rewrite app_nil_r. f_equal.
      unfold all. rewrite (leaves_unfold n0 c0). simpl kids_of. unfold kleaves. simpl flat_map.
      now rewrite app_nil_r. }
    rewrite EC, ET. simpl filter. rewrite sset_eqb_refl. reflexivity.
Qed.

(** * The exact shape of the returned trees *)
(** the tree under construction once the first tip has been grafted *)
Definition RI (t : utree) : Prop :=
  exists ch, t = UNode EmptyString [] [Some (eL nilv, ch)] /\
             uname ch = EmptyString /\ ucom ch = [].

Lemma grafts_go_name tip n c l : forall pre,
  Forall (fun g => uname g = n /\ ucom g = c) (grafts_go tip n c pre l).
Proof.
  induction l as [|[[e ch]|] r IH]; intros pre; simpl grafts_go.
  - constructor.
  - constructor; [split; reflexivity|]. apply Forall_app. split; [|apply IH].
    apply Forall_map. apply Forall_forall. intros g _. split; reflexivity.
  - apply IH.
Qed.

Lemma grafts_name tip t :
  Forall (fun g => uname g = uname t /\ ucom g = ucom t) (grafts tip t).
Proof. destruct t as [n c sl]. rewrite grafts_unfold. apply grafts_go_name. Qed.

Lemma grafts_RI tip t : RI t -> Forall RI (grafts tip t).
Proof.
  intros [ch [-> [Hn Hc]]]. rewrite grafts_unfold. simpl grafts_go. constructor.
  - exists (graft_node (eL nilv) (eL nilv) tip ch). repeat split.
  - rewrite app_nil_r. apply Forall_map.
    eapply Forall_impl; [|apply (grafts_name tip ch)].
    intros g [Gn Gc]. exists g. split; [reflexivity|]. split; congruence.
Qed.

Lemma grafts_start_RI tip names : Forall RI (grafts tip (start_rooted names)).
Proof.
  unfold start_rooted, tip_node. rewrite grafts_unfold. simpl. constructor; [|constructor].
  exists (graft_node (eL nilv) (eL nilv) tip (UNode (topo_name names 0) [] [None])).
  repeat split.
Qed.

Lemma topo_pre_RI names fuel : forall total t,
  RI t -> Forall RI (topo_pre fuel names total t).
Proof.
  induction fuel as [|f IH]; intros total t Ht; simpl.
  - constructor; auto.
  - apply Forall_flat_map. eapply Forall_impl; [|apply grafts_RI; exact Ht].
    intros g Hg. now apply IH.
Qed.

Lemma clone_e_nil : clone_e (eL nilv) = eL nilv.
Proof. reflexivity. Qed.

(** an unnamed root without comments, one branch with NIL length / support / p-value and no
    comment, to an unnamed node without comments whose neighbours are the root (first, because
    of Tree.Clone) and two children *)
Theorem all_topologies_rooted_shape_names n names ts : 2 <= n ->
  all_topologies n true names = Ok ts ->
  Forall (fun t => exists a b,
            t = UNode EmptyString [] [Some (eL nilv, UNode EmptyString [] [None; Some a; Some b])])
         ts.
Proof.
  intros Hn H.
  pose proof (all_topologies_rooted_trees_names n names ts Hn H) as HT.
  rewrite (all_topologies_rooted_eq n names ts Hn H) in *. rewrite topo_rec_pre in *.
  assert (HR : Forall RI (topo_pre (n - 1) names 1 (start_rooted names))).
  { destruct (n - 1) as [|f] eqn:E; [lia|].
    change (topo_pre (S f) names 1 (start_rooted names))
      with (flat_map (topo_pre f names 2)
                     (grafts (tip_node (topo_name names 1)) (start_rooted names))).
    apply Forall_flat_map.
    eapply Forall_impl; [|apply grafts_start_RI]. intros g Hg. now apply topo_pre_RI. }
  rewrite Forall_map in HT. rewrite Forall_map.
  rewrite Forall_forall in *. intros t0 Ht0.
  destruct (HR t0 Ht0) as [ch [-> [Hn' Hc']]]. destruct (HT _ Ht0) as [W [P _]].
  destruct ch as [n' c' sl']. simpl in Hn', Hc'. subst n' c'.
  assert (EC : clone (UNode EmptyString [] [Some (eL nilv, UNode EmptyString [] sl')]) =
               UNode EmptyString [] [Some (eL nilv, UNode EmptyString [] (None :: cl_slots sl'))])
    by reflexivity.
  rewrite EC in W, P. rewrite EC.
  unfold planted in P. apply andb_prop in P. destruct P as [Pt Pb].
  rewrite bin_sub_eq in Pb. apply andb_prop in Pb. destruct Pb as [Pl _].
  unfold is_tip, degree in Pt. simpl uslots in Pt.
  rewrite wf_eq in W. apply andb_prop in W. destruct W as [_ W].
  unfold sub_all in W. cbn [forallb] in W.
  rewrite andb_true_r, wf_sub_eq in W. apply andb_prop in W. destruct W as [U _].
  apply Nat.eqb_eq in U. rewrite n_up_cons in U.
  destruct (cl_slots sl') as [|s1 [|s2 [|s3 r]]]; simpl in Pt, Pl; try discriminate.
  destruct s1 as [a|], s2 as [b|]; rewrite ?n_up_cons in U;
    try (unfold n_up in U; simpl in U; lia).
  exists a, b. reflexivity.
Qed.

Theorem all_topologies_rooted_shape n ts : 2 <= n -> all_topologies n true [] = Ok ts ->
  Forall (fun t => exists e c, t = UNode EmptyString [] [Some (e, c)] /\
                               degree c = 3 /\ uname c = EmptyString) ts.
Proof.
  intros Hn H. eapply Forall_impl; [|exact (all_topologies_rooted_shape_names n [] ts Hn H)].
  intros t [a [b ->]]. eexists _, _. split; [reflexivity|]. split; reflexivity.
Qed.

(** * Dropping the planted root *)
Lemma Forall_exists_list {A B} (R : A -> B -> Prop) l :
  Forall (fun a => exists b, R a b) l -> exists l', Forall2 R l l'.
Proof.
  induction 1 as [|a l [b Hb] Hl [l' IH]]; [exists []; constructor|].
  exists (b :: l'). now constructor.
Qed.

Theorem all_topologies_rooted_unplanted n ts : 2 <= n -> all_topologies n true [] = Ok ts ->
  exists rs, map unplant ts = map Some rs /\ length rs = n_rooted n /\
    Forall (fun r => wf r = true /\ binary true r = true /\ UTree.rooted r = true /\
                     Permutation (leaves r) (map (fun k => topo_name [] k) (seq 0 n))) rs /\
    NoDup (map (topo_key true) rs).
Proof.
  intros Hn H.
  pose proof (all_topologies_rooted_trees n ts Hn H) as HT.
  pose proof (all_topologies_rooted_distinct n ts Hn H) as HD.
  destruct (all_topologies_rooted_length n Hn) as [ts' [H' HL]].
  rewrite H in H'. inversion H'; subst ts'. clear H'.
  set (R := fun t r => unplant t = Some r /\ wf r = true /\ binary true r = true /\
                       leaves r = leaves t /\ topo_key true r = topo_key true t).
  assert (HE : Forall (fun t => exists r, R t r) ts).
  { eapply Forall_impl; [|exact HT]. intros t [W [P _]]. exact (unplant_spec t W P). }
  destruct (Forall_exists_list R ts HE) as [rs HF].
  exists rs.
  assert (E1 : map unplant ts = map Some rs /\ map (topo_key true) rs = map (topo_key true) ts /\
               length rs = length ts).
  { clear - HF. induction HF as [|t r ts rs (U & _ & _ & _ & K) HF (I1 & I2 & I3)];
      cbn [map length]; auto.
    rewrite U, I1, K, I2, I3. auto. }
  destruct E1 as (E1 & E2 & E3).
  split; [exact E1|]. split; [congruence|]. split; [|now rewrite E2].
  clear - HF HT. induction HF as [|t r ts rs (U & W & B & L & K) HF IH]; constructor.
  - inversion HT as [|? ? (_ & _ & P) _]; subst. split; auto. split; auto. split.
    + unfold binary in B. apply andb_prop in B. destruct B as [B _]. exact B.
    + now rewrite L.
  - apply IH. now inversion HT.
Qed.
