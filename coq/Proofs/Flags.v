(** C19: the documented default is the value used, iff no two registrations bind one variable
    to different defaults. *)
From Coq Require Import String Bool List.
From GT Require Import Model.Flags.
Import ListNotations.

Lemma lookup_fold_register_notin rs s v :
  (forall r, In r rs -> rvar r <> v) ->
  lookup (fold_left register rs s) v = lookup s v.
Proof.
  revert s; induction rs as [|r rs IH]; intros s Hn; cbn [fold_left]; [reflexivity|].
  rewrite IH by (intros r' Hr'; apply Hn; right; exact Hr').
  unfold register; cbn [lookup].
  destruct (String.eqb_spec (rvar r) v) as [E|E]; [|reflexivity].
  exfalso; apply (Hn r); [left; reflexivity|exact E].
Qed.

(** the final value of a bound variable is the default of some registration binding it,
    namely the last one *)
Lemma final_is_last rs s v :
  (exists r, In r rs /\ rvar r = v) ->
  exists pre r post, rs = pre ++ r :: post /\ rvar r = v /\
                     (forall r', In r' post -> rvar r' <> v) /\
                     lookup (fold_left register rs s) v = Some (rdef r).
Proof.
  revert s; induction rs as [|r0 rs IH] using rev_ind; intros s [r [Hin Hv]]; [destruct Hin|].
  destruct (String.eqb_spec (rvar r0) v) as [E|E].
  - exists rs, r0, []. split; [reflexivity|]. split; [exact E|]. split.
    + intros r' Hr'. destruct Hr'.
    + rewrite fold_left_app; cbn [fold_left]. unfold register; cbn [lookup].
      rewrite E, String.eqb_refl. reflexivity.
  - apply in_app_or in Hin. destruct Hin as [Hin|Hin].
    2:{ destruct Hin as [Hin|Hin]; [subst r0; contradiction|destruct Hin]. }
    destruct (IH s (ex_intro _ r (conj Hin Hv))) as (pre & r1 & post & Hrs & Hv1 & Hpost & Hl).
    exists pre, r1, (post ++ [r0]). split; [|split; [exact Hv1|split]].
    + rewrite Hrs, <- app_assoc. reflexivity.
    + intros r' Hr'. apply in_app_or in Hr'. destruct Hr' as [Hr'|Hr'].
      * apply Hpost; exact Hr'.
      * destruct Hr' as [Hr'|Hr']; [subst r'; exact E|destruct Hr'].
    + rewrite fold_left_app; cbn [fold_left]. unfold register at 1; cbn [lookup].
      destruct (String.eqb_spec (rvar r0) v) as [E'|_]; [contradiction|exact Hl].
Qed.

Lemma ostring_eqb_spec a b : ostring_eqb a b = true <-> a = Some b.
Proof.
  destruct a as [x|]; cbn; [|split; discriminate].
  split; [intros H; apply String.eqb_eq in H; subst; reflexivity|intros H; injection H as ->; apply String.eqb_refl].
Qed.

Lemma no_conflict_spec rs :
  no_conflict rs = true <->
  (forall r1 r2, In r1 rs -> In r2 rs -> rvar r1 = rvar r2 -> rdef r1 = rdef r2).
Proof.
  unfold no_conflict. rewrite forallb_forall. split.
  - intros H r1 r2 H1 H2 Hv. specialize (H r1 H1). rewrite forallb_forall in H. specialize (H r2 H2).
    apply orb_true_iff in H. destruct H as [H|H].
    + apply negb_true_iff in H. apply String.eqb_neq in H. contradiction.
    + apply String.eqb_eq; exact H.
  - intros H r1 H1. rewrite forallb_forall. intros r2 H2.
    destruct (String.eqb_spec (rvar r1) (rvar r2)) as [E|E]; cbn; [|reflexivity].
    apply String.eqb_eq. apply H; assumption.
Qed.

Theorem consistent_iff_no_conflict rs : consistent rs = true <-> no_conflict rs = true.
Proof.
  rewrite no_conflict_spec. unfold consistent, used_when_omitted, final. rewrite forallb_forall. split.
  - intros H r1 r2 H1 H2 Hv.
    pose proof (H r1 H1) as A1. pose proof (H r2 H2) as A2.
    apply ostring_eqb_spec in A1. apply ostring_eqb_spec in A2. rewrite Hv in A1. rewrite A1 in A2.
    injection A2 as ->. reflexivity.
  - intros H r Hr. apply ostring_eqb_spec.
    destruct (final_is_last rs [] (rvar r) (ex_intro _ r (conj Hr eq_refl))) as (pre & r1 & post & Hrs & Hv1 & _ & Hl).
    rewrite Hl. f_equal. apply H; [|exact Hr|exact Hv1].
    rewrite Hrs. apply in_or_app. right. left. reflexivity.
Qed.

(** the value a command uses when its option is omitted is the documented default *)
Theorem consistent_used rs r :
  consistent rs = true -> In r rs -> used_when_omitted rs r = Some (rdef r).
Proof.
  unfold consistent. rewrite forallb_forall. intros H Hr. apply ostring_eqb_spec. apply H. exact Hr.
Qed.

(** registering more options (of other commands) on fresh variables changes nothing *)
Theorem register_other_preserves rs extra r :
  In r rs -> (forall r', In r' extra -> rvar r' <> rvar r) ->
  used_when_omitted (rs ++ extra) r = used_when_omitted rs r.
Proof.
  intros _ Hfresh. unfold used_when_omitted, final. rewrite fold_left_app.
  apply lookup_fold_register_notin. exact Hfresh.
Qed.

(** passing the documented default explicitly, in any of the three ways of writing it, leaves the
    option at its default and no stray argument, provided the option consumes its value (empty
    NoOptDefVal); with a non-empty NoOptDefVal different from the default the space-separated forms do not *)
Lemma parse_given_default :
  forall f d, parse_given ""%string f d = (d, 0).
Proof. intros f d. destruct f; reflexivity. Qed.

Lemma parse_given_noopt_refuted :
  forall noopt d, noopt <> ""%string -> parse_given noopt LongSpace d <> (d, 0).
Proof.
  intros noopt d Hn. unfold parse_given.
  destruct (String.eqb_spec noopt ""%string) as [E|_]; [contradiction|].
  intros H. inversion H.
Qed.
