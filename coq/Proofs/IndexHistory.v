(** C04 over the operation alphabet of Model/History.v: whatever the operation, if it succeeds
    and yields a good tree, the recomputed tables describe that tree; and for almost every
    operation the result IS a good tree as soon as the input is one and the operation's side
    condition holds. *)
From Coq Require Import String ZArith QArith Bool Arith Lia List Permutation.
From GT Require Import Base.UTree Spec.Obs Model.Reroot Model.Index Model.History.
From GT Require Model.Outgroup Model.Prune Model.Collapse Model.LocalEdit Model.NNI Model.Nexus.
From GT Require Import Proofs.IndexBase Proofs.IndexTree Proofs.IndexSplit Proofs.IndexEdit Proofs.IndexEditOps
     Proofs.IndexEditDeg Proofs.History.
From GT Require Proofs.Unroot Proofs.NNITop.
Import ListNotations.
Local Close Scope Q_scope.

Theorem C04_after_any_edit : forall o t t', run_op o t = Ok t' -> good t' -> tables_describe t'.
Proof. intros o t t' _ G. now apply good_tables. Qed.

Definition disjoint (a b : list string) : Prop := forall x, In x a -> In x b -> False.

(** what an operation needs beyond [good t] and its [side] condition for the result to be a
    good tree (Rename: not covered, the requirement is the conclusion itself) *)
Definition edit_pre (o : op) (t t' : utree) : Prop :=
  match o with
  | OUnroot | OOutgroup _ _ _ => rooted t = true -> Proofs.Unroot.root_has_inner_child t = true
  | OPrune _ _ => 2 <= length (leaves t')
  | OGraft _ g => good g /\ disjoint (leaves t) (leaves g)
  | OMerge t2 => good t2 /\ disjoint (leaves t) (leaves t2)
  | OSubtree _ => 2 <= degree t'
  | ORename _ _ => good t'
  | _ => True
  end.

Theorem run_op_good : forall o t t',
    good t -> side (false, o) t -> edit_pre o t t' -> run_op o t = Ok t' -> good t'.
Proof.
  intros o t t' G S P H. pose proof G as (W & D & ND).
  destruct o; simpl in S, P, H.
  - (* reroot *) eapply reroot_good; eauto.
  - (* unroot *) inversion H; subst. destruct (rooted t) eqn:R.
    + apply unroot_good; auto.
    + now rewrite Proofs.Unroot.unroot_not_rooted.
  - (* outgroup *)
    destruct (Nat.ltb (length (tips t)) 3); [discriminate|].
    destruct remove.
    + exact (proj1 (outgroup_remove_tables strict t names t' G P H)).
    + exact (proj1 (outgroup_tables strict t names t' G P H)).
  - (* midpoint *) destruct S as [_ S]. eapply midpoint_tables; eauto.
  - (* rotate *) inversion H; subst. now apply rotate_good.
  - (* sort *) inversion H; subst. now apply sort_good.
  - (* prune *) destruct S as (NS & _ & _). eapply remove_tips_tables'; eauto.
  - (* collapse len *) inversion H; subst. now apply collapse_len_tables'.
  - (* collapse sup *) inversion H; subst. now apply collapse_sup_tables'.
  - (* collapse depth *) eapply collapse_depth_tables'; eauto.
  - (* resolve *) inversion H; subst. now apply resolve_tables'.
  - (* remove single *) inversion H; subst. now apply remove_single_tables.
  - (* graft *) destruct P as [Gg Dis]. exact (proj1 (graft_tables' t g t' _ tip G Gg Dis H)).
  - (* insert *)
    destruct S as (_ & He & Hg).
    assert (Hidx : forall x, In x (leaves t) -> In x (tip_names t)).
    { intros x Hx. destruct (root_NI t W D) as [_ ->]. exact Hx. }
    exact (proj1 (insert_identical_tables' t t' _ groups G Hidx He Hg H)).
  - (* merge *) destruct P as [G2 Dis]. exact (proj1 (merge_tables t t2 t' _ _ G G2 Dis H)).
  - (* nni *)
    unfold nni_step in H. destruct (nni_pick k t) as [r|] eqn:Pk; [|inversion H; subst; exact G].
    assert (Hr : In r (Model.NNI.nni_list t)).
    { unfold nni_pick in Pk. destruct (Model.NNI.nni_list t) eqn:L; [discriminate|].
      rewrite <- L in *. eapply nth_error_In; eauto. }
    destruct (Model.NNI.apply r t) as [t1|] eqn:A; [|discriminate].
    destruct undo.
    + destruct (Proofs.NNITop.undo_apply_list t r W Hr) as (t1' & A' & U').
      rewrite A in A'. inversion A'; subst t1'. rewrite U' in H. inversion H; subst. exact G.
    + inversion H; subst. eapply nni_tables'; eauto.
  - (* rename *) exact P.
  - (* clone *) inversion H; subst. now apply clone_tables'.
  - (* subtree *)
    destruct (Model.LocalEdit.subtree t i) as [s|] eqn:E; [|discriminate]. inversion H; subst.
    eapply subtree_tables; eauto.
Qed.

(** both together *)
Theorem C04_after_any_edit_good : forall o t t',
    good t -> side (false, o) t -> edit_pre o t t' -> run_op o t = Ok t' ->
    good t' /\ tables_describe t'.
Proof.
  intros. assert (good t') by (eapply run_op_good; eauto). split; auto. now apply good_tables.
Qed.
