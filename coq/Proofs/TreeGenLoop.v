(** C16: the invariant of the insertion loops (uniform / Yule / caterpillar), what
    [set_lens] and the final RerootFirst do, and the resulting facts about [close_state]. *)
From Coq Require Import String ZArith QArith Bool Arith Lia List Permutation.
From GT Require Import Base.UTree Spec.Obs Spec.GenShape Model.Reroot Model.Rand2 Model.TreeGen
     Proofs.RerootBase Proofs.C05Main Proofs.TreeGenNames Proofs.TreeGenGraft.
Import ListNotations.
Local Close Scope Q_scope.
Local Arguments n_up : simpl never.

Lemma eid_eI k : eid (eI k) = k.
Proof. unfold eid, eI. simpl. apply Nat2Z.id. Qed.

Lemma tipn_wf_sub i : wf_sub (tipn i) = true.
Proof. reflexivity. Qed.
Lemma tipn_bin_sub i : bin_sub (tipn i) = true.
Proof. reflexivity. Qed.
Lemma tipn_eids i : eids (tipn i) = [].
Proof. reflexivity. Qed.
Lemma tipn_tnames i : tnames (tipn i) = [tip_name i].
Proof. reflexivity. Qed.

(** ** the invariant *)
Definition st_tree (st : gen_state) : utree := fst (fst st).
Definition st_m (st : gen_state) : nat := snd (fst st).
Definition st_asg (st : gen_state) : list nat := snd st.

(** shape of the tree under construction.  Unrooted: the root is the tip Tip0 with one
    branch; the node below it has three neighbours as soon as one tip has been grafted. *)
Definition shape (rooted : bool) (t : utree) : Prop :=
  if rooted then wf t = true /\ degree t = 2 /\ sub_all bin_sub (uslots t) = true
  else exists e c, t = UNode (tip_name 0) [] [Some (e, c)] /\ wf_sub c = true /\ bin_sub c = true /\
                   (degree c = 3 \/ eids c = []).

Record inv (rooted : bool) (i : nat) (st : gen_state) : Prop := mkInv {
  inv_ids : Permutation (eids (st_tree st)) (seq 0 (st_m st));
  inv_m : st_m st = unif_bound rooted i;
  inv_tips : Permutation (tnames (st_tree st)) (map tip_name (seq 0 i));
  inv_shape : shape rooted (st_tree st);
  inv_asg : forall k, k < st_m st -> In k (st_asg st);
  inv_asg_len : length (st_asg st) = (if rooted then 2 else 1) + 3 * (i - 2)
}.

Lemma inv_init rooted : inv rooted 2 (init_state rooted).
Proof.
  destruct rooted; constructor; simpl; try reflexivity;
    try (now (unfold eids; simpl; rewrite ?eid_eI; reflexivity)).
  - apply perm_swap.
  - repeat split.
  - unfold st_m. simpl. intros k Hk. destruct k as [|[|k]]; auto; lia.
  - exists (eI 0), (tipn 1). repeat split. now right.
  - unfold st_m. simpl. intros k Hk. destruct k as [|k]; auto; lia.
Qed.

Lemma seq_SS m : Permutation (m :: S m :: seq 0 m) (seq 0 (S (S m))).
Proof. rewrite !seq_S. simpl. perm. Qed.

Lemma inv_step rooted i st k : 2 <= i -> inv rooted i st -> k < st_m st ->
  inv rooted (S i) (graft_step st i k).
Proof.
  intros Hi [Hids Hm Htips Hshape Hasg Hlen] Hk.
  destruct st as [[t m] asg]. unfold st_tree, st_m, st_asg in *. simpl in *.
  assert (Hnd : NoDup (eids t)).
  { eapply Permutation_NoDup; [symmetry; exact Hids|apply seq_NoDup]. }
  assert (Hin : In k (eids t)).
  { eapply Permutation_in; [symmetry; exact Hids|]. apply in_seq. lia. }
  constructor; unfold st_tree, st_m, st_asg, graft_step; cbn [fst snd].
  - etransitivity; [apply (graft_mu k (eI m) (eI (S m)) (tipn i) _ _ t Hnd Hin)|].
    cbv beta. rewrite !eid_eI. fold eids. rewrite tipn_eids. cbn [app].
    etransitivity; [|apply seq_SS]. now do 2 apply perm_skip.
  - rewrite Hm. unfold unif_bound. destruct rooted; lia.
  - etransitivity; [apply (graft_mu k (eI m) (eI (S m)) (tipn i) _ _ t Hnd Hin)|].
    cbv beta. fold tnames. rewrite tipn_tnames. cbn [app Nat.eqb].
    rewrite seq_S, map_app. cbn [map Nat.add].
    etransitivity; [|apply Permutation_cons_append]. now apply perm_skip.
  - unfold shape in *. destruct rooted.
    + destruct Hshape as [W [D B]]. repeat split.
      * apply graft_wf; auto.
      * now rewrite graft_degree.
      * apply graft_sub_all_bin; auto.
    + destruct Hshape as [e [c [-> [W [B D]]]]].
      rewrite graft_id_unfold. cbn [map G].
      destruct (Nat.eqb (eid e) k) eqn:E.
      * eexists _, _. split; [reflexivity|]. repeat split.
        -- apply graft_node_wf_sub; auto.
        -- apply graft_node_bin_sub; auto.
        -- now left.
      * eexists _, _. split; [reflexivity|]. repeat split.
        -- apply graft_wf_sub; auto.
        -- apply graft_bin_sub; auto.
        -- left. rewrite graft_degree. destruct D as [D|D]; auto.
           exfalso. rewrite eids_unfold, eids_sl_cons_some in Hin.
           unfold eids_sl, mu_sl in Hin. simpl in Hin. rewrite app_nil_r, D in Hin.
           apply Nat.eqb_neq in E. destruct Hin as [Hin|[]]. contradiction.
  - intros x Hx. apply in_or_app.
    destruct (Nat.lt_ge_cases x m) as [L|L]; [left; auto|right].
    simpl. assert (x = m \/ x = S m) as [->| ->] by lia; auto.
  - rewrite app_length, Hlen. simpl. destruct rooted; lia.
Qed.

(** ** [set_lens] only changes lengths *)
Lemma set_lens_unfold f n c sl :
  set_lens f (UNode n c sl) =
  UNode n c (map (fun s => match s with
                           | None => None
                           | Some (e, ch) => Some (mkE (f (eid e)) (esup e) (epv e) (ecom e), set_lens f ch)
                           end) sl).
Proof. reflexivity. Qed.

Lemma set_lens_degree f t : degree (set_lens f t) = degree t.
Proof. destruct t. rewrite set_lens_unfold. unfold degree. simpl. apply map_length. Qed.

Lemma set_lens_n_up f sl :
  n_up (map (fun s : slot => match s with
                      | None => None
                      | Some (e, ch) => Some (mkE (f (eid e)) (esup e) (epv e) (ecom e), set_lens f ch)
                      end) sl) = n_up sl.
Proof.
  induction sl as [|[[e ch]|] r IH]; cbn [map]; rewrite ?n_up_cons; auto.
Qed.

(** a predicate defined by "local test on the neighbour list shape + the same below" *)
Lemma set_lens_sub_all (p : utree -> bool) f sl :
  Forall (fun s => match s with Some (_, t) => p (set_lens f t) = p t | None => True end) sl ->
  sub_all p (map (fun s : slot => match s with
                      | None => None
                      | Some (e, ch) => Some (mkE (f (eid e)) (esup e) (epv e) (ecom e), set_lens f ch)
                      end) sl) = sub_all p sl.
Proof.
  unfold sub_all. induction 1 as [|s r Hs Hr IH]; cbn [map forallb]; auto.
  rewrite IH. destruct s as [[e ch]|]; auto. now rewrite Hs.
Qed.

Lemma set_lens_wf_sub f t : wf_sub (set_lens f t) = wf_sub t.
Proof.
  induction t as [n c sl IH] using utree_ind'.
  rewrite set_lens_unfold, !wf_sub_def, set_lens_n_up, set_lens_sub_all; auto.
Qed.
Lemma set_lens_wf f t : wf (set_lens f t) = wf t.
Proof.
  destruct t as [n c sl].
  rewrite set_lens_unfold, !wf_def, set_lens_n_up, set_lens_sub_all; auto.
  apply Forall_forall. intros [[e ch]|] _; auto. apply set_lens_wf_sub.
Qed.
Lemma set_lens_bin_sub f t : bin_sub (set_lens f t) = bin_sub t.
Proof.
  induction t as [n c sl IH] using utree_ind'.
  rewrite set_lens_unfold, !bin_sub_def, map_length, set_lens_sub_all; auto.
Qed.
Lemma set_lens_sub_all_bin f t :
  sub_all bin_sub (uslots (set_lens f t)) = sub_all bin_sub (uslots t).
Proof.
  destruct t as [n c sl]. rewrite set_lens_unfold. simpl uslots.
  apply set_lens_sub_all. apply Forall_forall. intros [[e ch]|] _; auto. apply set_lens_bin_sub.
Qed.

Lemma set_lens_tnames f t : tnames (set_lens f t) = tnames t.
Proof.
  induction t as [n c sl IH] using utree_ind'.
  rewrite set_lens_unfold. unfold tnames. rewrite !mu_unfold, map_length. f_equal.
  unfold mu_sl. induction IH as [|s r Hs Hr IHr]; [reflexivity|].
  cbn [map flat_map]. rewrite IHr. f_equal.
  destruct s as [[e ch]|]; [|reflexivity]. cbn [app]. exact Hs.
Qed.

(** ** the final RerootFirst on the unrooted construction *)
Lemma sub_all_replace_up (p : utree -> bool) sl e x :
  sub_all p sl = true -> p x = true -> sub_all p (replace_up sl (Some (e, x))) = true.
Proof.
  unfold sub_all. induction sl as [|[[e' ch]|] r IH]; simpl; intros H Hx; auto.
  - apply andb_true_iff in H as [H1 H2]. now rewrite H1, IH.
  - now rewrite Hx, H.
Qed.

Lemma mu_sl_replace_up {X} (own : string -> nat -> list X) h sl e x :
  1 <= n_up sl ->
  Permutation (mu_sl own h (replace_up sl (Some (e, x)))) (h e ++ mu own h x ++ mu_sl own h sl).
Proof.
  induction sl as [|[[e' ch]|] r IH]; intros H.
  - unfold n_up in H. simpl in H. lia.
  - rewrite n_up_cons in H. simpl replace_up. rewrite !mu_sl_cons_some.
    etransitivity; [apply Permutation_app_head; apply IH; simpl in H; lia|]. perm.
  - simpl replace_up. rewrite mu_sl_cons_some, mu_sl_cons_none. perm.
Qed.

Lemma reroot_first_tip_root nm e n' c' sl' :
  length sl' = 3 ->
  reroot_first (UNode nm [] [Some (e, UNode n' c' sl')]) =
  Ok (UNode n' c' (replace_up sl' (Some (e, UNode nm [] [None])))).
Proof.
  intros L. unfold reroot_first. simpl nodes. cbn [find_index degree uslots length].
  simpl Nat.eqb. rewrite L. simpl Nat.eqb. cbv iota.
  unfold reroot. simpl paths. cbn [nth_error]. cbn [map app nth_error].
  simpl node_at. unfold degree. simpl uslots. rewrite L. simpl Nat.ltb. cbv iota.
  reflexivity.
Qed.
