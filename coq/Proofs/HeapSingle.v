(** Heap model: Tree.RemoveSingleNodes.  Part 1: the suppression of one node with two
    neighbours (removeSingleNodesRecur, the part after the recursive calls). *)
From Coq Require Import String ZArith QArith Bool Arith Lia Permutation List.
From GT Require Import Base.UTree Model.Reroot Model.LocalEdit Model.Heap Model.HeapEdit Model.HeapEdit2 Proofs.Enum Proofs.HeapBase Proofs.HeapRep
     Proofs.HeapGood Proofs.HeapGoodRep Proofs.HeapRerootL Proofs.HeapReorder Proofs.HeapReroot Proofs.HeapUnrootL Proofs.HeapUnroot
     Proofs.HeapCtx Proofs.HeapGraft Proofs.HeapCollapse Proofs.HeapPrune Proofs.HeapNNI.
Import ListNotations.
Local Close Scope Q_scope.

Record rs_desc (h h' : heap) (P i C eP eC : nat) (XP XC : hnode) (einfo : einfo) : Prop := {
  rd_nodes : forall x, alookup x (hnodes h') =
     if Nat.eqb x i then None else if Nat.eqb x P then Some XP else if Nat.eqb x C then Some XC else alookup x (hnodes h);
  rd_edges : forall y, alookup y (hedges h') =
     if Nat.eqb y eP then None else if Nat.eqb y eC then Some (mkHE P C einfo) else alookup y (hedges h);
  rd_root : hroot h' = hroot h;
  rd_nextn : hnextn h' = hnextn h;
  rd_nexte : hnexte h' = hnexte h
}.

Lemma rs_suppress_eval h i hi P C eP eC (pfirst : bool) hP hC jP jC iP iC :
  alookup i (hnodes h) = Some hi ->
  hneigh hi = (if pfirst then [P; C] else [C; P]) -> hbr hi = (if pfirst then [eP; eC] else [eC; eP]) ->
  alookup eP (hedges h) = Some (mkHE P i iP) -> alookup eC (hedges h) = Some (mkHE i C iC) ->
  alookup P (hnodes h) = Some hP -> alookup C (hnodes h) = Some hC -> P <> C -> P <> i -> C <> i ->
  index_of i (hneigh hP) = Some jP -> jP < length (hbr hP) ->
  index_of i (hneigh hC) = Some jC -> nth_error (hbr hC) jC = Some eC -> jC < length (hneigh hC) -> eP <> eC ->
  exists h', rs_suppress i P eP h = HOk h' /\
    rs_desc h h' P i C eP eC
      (mkHN (hname hP) (hcom hP) (del_nth jP (hneigh hP) ++ [C]) (del_nth jP (hbr hP) ++ [eC]))
      (mkHN (hname hC) (hcom hC) (put_nth jC P (hneigh hC)) (hbr hC)) (rs_edge iP iC).
Proof.
  intros Hi Hng Hbr EP EC HP HC NPC NPi NCi IP LP IC BC LC NE.
  unfold rs_suppress, get_edge at 1. rewrite EP. cbn [hbind hinfo].
  (* current.delNeighbor(previous) *)
  assert (Ik : exists k, index_of P (hneigh hi) = Some k /\ k < length (hbr hi) /\ del_nth k (hneigh hi) = [C] /\ del_nth k (hbr hi) = [eC]).
  { rewrite Hng, Hbr. destruct pfirst.
    - exists 0. cbn [index_of]. rewrite Nat.eqb_refl. repeat split. cbn. lia.
    - exists 1. cbn [index_of]. destruct (Nat.eqb_spec C P) as [E|_]; [congruence|]. rewrite Nat.eqb_refl. repeat split. cbn. lia. }
  destruct Ik as (k & Ik & Lk & Dk1 & Dk2).
  destruct (del_neighbor_step h i P hi k Hi Ik Lk) as [h1 (S1 & Nd1 & (Ed1 & Rt1 & Nn1 & Ne1))]. rewrite S1. cbn [hbind]. rewrite Dk1, Dk2 in Nd1.
  assert (HP1 : alookup P (hnodes h1) = Some hP) by (rewrite Nd1; destruct (Nat.eqb_spec P i); [congruence|exact HP]).
  destruct (del_neighbor_step h1 P i hP jP HP1 IP LP) as [h2 (S2 & Nd2 & (Ed2 & Rt2 & Nn2 & Ne2))]. rewrite S2. cbn [hbind].
  set (YP := mkHN (hname hP) (hcom hP) (del_nth jP (hneigh hP)) (del_nth jP (hbr hP))) in *.
  set (Yi := mkHN (hname hi) (hcom hi) [C] [eC]) in *.
  set (h3 := mkHeap (hnodes h2) (arem eP (hedges h2)) (hroot h2) (hnextn h2) (hnexte h2)).
  assert (Hi3 : alookup i (hnodes h3) = Some Yi).
  { unfold h3. cbn [hnodes]. rewrite Nd2. destruct (Nat.eqb_spec i P); [congruence|]. rewrite Nd1, Nat.eqb_refl. reflexivity. }
  unfold get_node at 1. rewrite Hi3. cbn [hbind Yi hneigh].
  destruct (Nat.eqb_spec C P) as [E|_]; [congruence|].
  (* the child *)
  assert (HC3 : alookup C (hnodes h3) = Some hC).
  { unfold h3. cbn [hnodes]. rewrite Nd2. destruct (Nat.eqb_spec C P); [congruence|]. rewrite Nd1. destruct (Nat.eqb_spec C i); [congruence|]. exact HC. }
  assert (HP3 : alookup P (hnodes h3) = Some YP).
  { unfold h3. cbn [hnodes]. rewrite Nd2, Nat.eqb_refl. reflexivity. }
  assert (EC3 : alookup eC (hedges h3) = Some (mkHE i C iC)).
  { unfold h3. cbn [hedges]. rewrite alookup_arem. destruct (Nat.eqb_spec eC eP); [congruence|]. rewrite Ed2, Ed1. exact EC. }
  unfold rs_child, node_index, get_node at 1. rewrite HC3. cbn [hbind]. rewrite IC. cbn [hbind].
  unfold set_neigh_at, get_node at 1. rewrite HC3. cbn [hbind]. rewrite (proj2 (Nat.ltb_lt _ _) LC). cbn [hbind].
  unfold br_at, get_node at 1. cbn [set_node hnodes]. rewrite alookup_aupd, Nat.eqb_refl. cbn [hbind hbr]. unfold nth_res. rewrite BC. cbn [hbind].
  unfold get_edge at 1. cbn [set_node hedges]. rewrite EC3. cbn [hbind hleft hright hinfo]. rewrite Nat.eqb_refl.
  unfold add_child, get_node at 1. cbn [set_edge set_node hnodes]. rewrite alookup_aupd. destruct (Nat.eqb_spec P C) as [E|_]; [congruence|]. rewrite HP3. cbn [hbind].
  match goal with |- context [if ?c then set_info ?hh ?e ?f else HOk ?hh] =>
    destruct (set_info_if_step hh e P C (mkE (elen iC) (qmax (esup iC) (esup iP)) (epv iC) (ecom iC)) c f) as [h5 (S5 & Nd5 & Rt5 & Nn5 & Ne5 & Ed5)] end.
  { cbn [set_node set_edge hedges]. rewrite alookup_aupd, Nat.eqb_refl. reflexivity. }
  rewrite S5. cbn [hbind].
  unfold unconnect_node, get_node. rewrite Nd5. cbn [set_node set_edge hnodes]. rewrite !alookup_aupd.
  destruct (Nat.eqb_spec i P) as [E|_]; [congruence|]. destruct (Nat.eqb_spec i C) as [E|_]; [congruence|]. rewrite Hi3. cbn [hbind].
  eexists. split; [reflexivity|]. constructor; cbn [hnodes hedges hroot hnextn hnexte].
  - intros x. rewrite alookup_arem. cbn [set_node set_edge hnodes]. rewrite !alookup_aupd. unfold h3. cbn [hnodes]. rewrite Nd2, Nd1.
    unfold YP. eqb_cases; subst; try congruence; reflexivity.
  - intros y. rewrite Ed5. cbn [set_node set_edge hedges]. rewrite !alookup_aupd. unfold h3. cbn [hedges]. rewrite alookup_arem, Ed2, Ed1.
    unfold rs_edge. cbn [elen esup epv ecom]. eqb_cases; subst; try congruence; try reflexivity.
    f_equal. f_equal. destruct (negb (qeqb (elen iC) nilv) || negb (qeqb (elen iP) nilv)); reflexivity.
  - rewrite Rt5. cbn. congruence.
  - rewrite Nn5. cbn. congruence.
  - rewrite Ne5. cbn. congruence.
Qed.

(** * the suppression keeps the representation *)
Section Suppress.
  Variables (h h' : heap) (lt : ltree).
  Hypothesis R : Rep h lt.
  Variables (p : option (nat * nat)) (P : nat) (nmP : string) (cmP : list string) (l1 l2 : list lslot).
  Variables (eP : nat) (eiP : einfo) (i : nat) (nmi : string) (cmi : list string) (pfirst : bool).
  Variables (eC : nat) (eiC : einfo) (C : nat) (nmC : string) (cmC : list string) (slC : list lslot).
  Let Cn := LNode C nmC cmC slC.
  Let sli : list lslot := if pfirst then [None; Some (eC, eiC, Cn)] else [Some (eC, eiC, Cn); None].
  Let In_ := LNode i nmi cmi sli.
  Let sub := LNode P nmP cmP (l1 ++ Some (eP, eiP, In_) :: l2).
  Hypothesis Hsub : In (p, sub) (lsubs None lt).
  Variables (hP hC : hnode) (iC : nat) (einfo : einfo).
  Hypothesis HP : alookup P (hnodes h) = Some hP.
  Hypothesis HC : alookup C (hnodes h) = Some hC.
  Hypothesis HiC : index_of i (hneigh hC) = Some iC.
  Let XP := mkHN (hname hP) (hcom hP) (del_nth (length l1) (hneigh hP) ++ [C]) (del_nth (length l1) (hbr hP) ++ [eC]).
  Let XC := mkHN (hname hC) (hcom hC) (put_nth iC P (hneigh hC)) (hbr hC).
  Hypothesis D : rs_desc h h' P i C eP eC XP XC einfo.
  Let new := LNode P nmP cmP ((l1 ++ l2) ++ [Some (eC, einfo, Cn)]).

  Lemma RS_ids : lids sub = P :: sids l1 ++ (i :: C :: sids slC) ++ sids l2 /\
                 leids sub = seids l1 ++ eP :: (eC :: seids slC) ++ seids l2 /\
                 lids new = P :: (sids l1 ++ sids l2) ++ C :: sids slC /\
                 leids new = (seids l1 ++ seids l2) ++ eC :: seids slC.
  Proof.
    assert (E12 : sids sli = C :: sids slC /\ seids sli = eC :: seids slC).
    { unfold sli, Cn. destruct pfirst; cbn [sids seids flat_map app]; rewrite ?app_nil_r, ?lids_eq; fold (sids slC) (seids slC);
        (split; [reflexivity|rewrite leids_eq; reflexivity]). }
    destruct E12 as [E1 E2]. unfold sub, new, In_. rewrite !lids_eq, !leids_eq.
    fold (sids (l1 ++ Some (eP, eiP, LNode i nmi cmi sli) :: l2)) (seids (l1 ++ Some (eP, eiP, LNode i nmi cmi sli) :: l2)).
    rewrite sids_app_cons, seids_app_cons, lids_eq, leids_eq. fold (sids sli) (seids sli). rewrite E1, E2.
    fold (sids ((l1 ++ l2) ++ [Some (eC, einfo, Cn)])) (seids ((l1 ++ l2) ++ [Some (eC, einfo, Cn)])).
    rewrite !sids_app, !seids_app. cbn [sids seids flat_map]. unfold Cn. rewrite lids_eq, leids_eq. fold (sids slC) (seids slC).
    rewrite !app_nil_r. repeat split; reflexivity.
  Qed.

  Theorem RS_Rep : Rep h' (lreplace P new lt).
  Proof.
    destruct (SP_facts h lt R p P nmP cmP l1 l2 eP eiP i nmi cmi pfirst eC eiC C nmC cmC slC Hsub hP hC HP HC)
      as (c1 & c2 & Ec & Lc & F1 & F2 & A4 & A2 & A3 & HeP & HeC & Hi & B2 & B3 & B4 & B5 & W1 & W2).
    destruct RS_ids as (EN & EE & ENn & EEn).
    assert (HsubI : In (Some (P, eP), In_) (lsubs None lt)).
    { eapply lsubs_trans; [exact Hsub|]. unfold sub. eapply lsubs_child. apply in_or_app. right. left. reflexivity. }
    assert (HsubC : In (Some (i, eC), Cn) (lsubs None lt)).
    { eapply lsubs_trans; [exact HsubI|]. unfold In_. eapply lsubs_child. unfold sli. destruct pfirst; [right; left|left]; reflexivity. }
    assert (Nd : NoDup (lids sub)) by (eapply lsubs_NoDup; [exact (rep_nd _ _ R)|exact Hsub]).
    pose proof (shape_lsubs _ _ _ _ _ _ (rep_shape _ _ R) Hsub) as Shsub.
    pose proof (shape_NoDup_leids _ _ _ Shsub Nd) as Ned.
    assert (SubN : forall y, In y (lids sub) -> In y (lids lt)) by (intros y Hy; eapply lsubs_sub_lids; [exact Hsub|exact Hy]).
    assert (SubE : forall y, In y (leids sub) -> In y (leids lt)) by (intros y Hy; eapply lsubs_sub_leids; [exact Hsub|exact Hy]).
    assert (PN : Permutation (i :: lids new) (lids sub)).
    { rewrite EN, ENn. rewrite perm_swap. apply perm_skip. rewrite <- !app_assoc. rewrite Permutation_middle. apply Permutation_app_head.
      cbn [app]. apply perm_skip. apply (Permutation_app_comm (sids l2) (C :: sids slC)). }
    pose proof (Permutation_NoDup (Permutation_sym PN) Nd) as X1. apply NoDup_cons_iff in X1. destruct X1 as [Rn NdN].
    assert (InN : forall y, In y (lids new) <-> In y (lids sub) /\ y <> i).
    { intros y. split.
      - intros Hy. split; [eapply Permutation_in; [exact PN|right; exact Hy]|intros ->; contradiction].
      - intros [Hy Hne]. apply (Permutation_in _ (Permutation_sym PN)) in Hy. destruct Hy as [E0|Hy]; [congruence|exact Hy]. }
    assert (PE : Permutation (eP :: eC :: seids l1 ++ seids l2 ++ seids slC) (leids sub)).
    { rewrite EE. symmetry. rewrite <- (Permutation_middle (seids l1) _ eP). apply perm_skip. cbn [app].
      rewrite <- (Permutation_middle (seids l1) _ eC). apply perm_skip. apply Permutation_app_head. apply Permutation_app_comm. }
    pose proof (Permutation_NoDup (Permutation_sym PE) Ned) as X2. apply NoDup_cons_iff in X2. destruct X2 as [Re1 X2].
    apply NoDup_cons_iff in X2. destruct X2 as [Re2 NdE0].
    assert (NePC : eP <> eC) by (intros E0; apply Re1; left; symmetry; exact E0).
    assert (InE0 : forall y, In y (seids l1 ++ seids l2 ++ seids slC) <-> In y (leids sub) /\ y <> eP /\ y <> eC).
    { intros y. split.
      - intros Hy. split; [eapply Permutation_in; [exact PE|right; right; exact Hy]|]. split; intros ->; [apply Re1; right; exact Hy|contradiction].
      - intros (Hy & N1 & N2). apply (Permutation_in _ (Permutation_sym PE)) in Hy. destruct Hy as [E0|[E0|Hy]]; [congruence|congruence|exact Hy]. }
    assert (InE : forall y, In y (leids new) <-> y = eC \/ In y (seids l1 ++ seids l2 ++ seids slC)).
    { intros y. rewrite EEn. repeat (progress cbn [In] || rewrite in_app_iff). intuition. }
    assert (InP : In P (lids sub)) by (rewrite EN; left; reflexivity).
    assert (Ini : In i (lids sub)) by (rewrite EN; right; apply in_or_app; right; left; reflexivity).
    assert (InC : In C (lids sub)) by (rewrite EN; right; apply in_or_app; right; right; left; reflexivity).
    assert (IneP : In eP (leids sub)) by (rewrite EE; apply in_or_app; right; left; reflexivity).
    assert (IneC : In eC (leids sub)) by (rewrite EE; apply in_or_app; right; right; left; reflexivity).
    assert (Dist : P <> i /\ C <> i /\ P <> C).
    { rewrite EN in Nd. apply NoDup_cons_iff in Nd. destruct Nd as [N1 N2]. apply NoDup_app_iff in N2. destruct N2 as (_ & N3 & _).
      apply NoDup_app_iff in N3. destruct N3 as (N4 & _). apply NoDup_cons_iff in N4. destruct N4 as [N5 _].
      repeat split; intros E0.
      - apply N1. rewrite E0. apply in_or_app. right. left. reflexivity.
      - apply N5. left. exact E0.
      - apply N1. rewrite E0. apply in_or_app. right. right. left. reflexivity. }
    destruct Dist as (NPi & NCi & NPC).
    assert (NP' : alookup P (hnodes h') = Some XP).
    { rewrite (rd_nodes _ _ _ _ _ _ _ _ _ _ D). destruct (Nat.eqb_spec P i); [contradiction|]. rewrite Nat.eqb_refl. reflexivity. }
    assert (NC' : alookup C (hnodes h') = Some XC).
    { rewrite (rd_nodes _ _ _ _ _ _ _ _ _ _ D). destruct (Nat.eqb_spec C i); [contradiction|]. destruct (Nat.eqb_spec C P); [congruence|].
      rewrite Nat.eqb_refl. reflexivity. }
    assert (Nsame : forall y, y <> i -> y <> P -> y <> C -> alookup y (hnodes h') = alookup y (hnodes h)).
    { intros y Y1 Y2 Y3. rewrite (rd_nodes _ _ _ _ _ _ _ _ _ _ D). destruct (Nat.eqb_spec y i); [contradiction|].
      destruct (Nat.eqb_spec y P); [contradiction|]. destruct (Nat.eqb_spec y C); [contradiction|]. reflexivity. }
    assert (Esame : forall y, y <> eP -> y <> eC -> alookup y (hedges h') = alookup y (hedges h)).
    { intros y Y1 Y2. rewrite (rd_edges _ _ _ _ _ _ _ _ _ _ D). destruct (Nat.eqb_spec y eP); [contradiction|].
      destruct (Nat.eqb_spec y eC); [contradiction|]. reflexivity. }
    assert (EC' : alookup eC (hedges h') = Some (mkHE P C einfo)).
    { rewrite (rd_edges _ _ _ _ _ _ _ _ _ _ D). destruct (Nat.eqb_spec eC eP) as [E0|_]; [congruence|]. rewrite Nat.eqb_refl. reflexivity. }
    assert (InnN : forall y, In y (sids l1 ++ sids l2 ++ sids slC) -> In y (lids sub) /\ y <> i /\ y <> P /\ y <> C).
    { intros y Hy. rewrite EN in Nd. apply NoDup_cons_iff in Nd. destruct Nd as [N1 N2]. apply NoDup_app_iff in N2. destruct N2 as (M1 & M2 & M3).
      apply NoDup_app_iff in M2. destruct M2 as (M4 & M5 & M6). apply NoDup_cons_iff in M4. destruct M4 as [M7 M8]. apply NoDup_cons_iff in M8. destruct M8 as [M9 _].
      rewrite !in_app_iff in Hy. split; [rewrite EN; right; rewrite !in_app_iff; cbn [In]; tauto|]. repeat split; intros ->.
      - destruct Hy as [Hy|[Hy|Hy]]; [apply (M3 i Hy); apply in_or_app; left; left; reflexivity|apply (M6 i); [left; reflexivity|exact Hy]|apply M7; right; exact Hy].
      - apply N1. rewrite !in_app_iff. cbn [In]. tauto.
      - destruct Hy as [Hy|[Hy|Hy]]; [apply (M3 C Hy); apply in_or_app; left; right; left; reflexivity|apply (M6 C); [right; left; reflexivity|exact Hy]|exact (M9 Hy)]. }
    assert (InnE : forall y, In y (seids l1 ++ seids l2 ++ seids slC) -> alookup y (hedges h') = alookup y (hedges h)).
    { intros y Hy. apply InE0 in Hy. destruct Hy as (Y1 & Y2 & Y3). apply Esame; assumption. }
    assert (Tr : forall cs ls, (forall s, In s ls -> In s (l1 ++ l2)) ->
               Forall2 (slot_ok true h p P) cs ls -> Forall2 (slot_ok true h' p P) cs ls).
    { intros cs ls Hls F. eapply Forall2_impl_r; [exact F|]. intros ce s Hs Hok. destruct s as [[[e2 ei2] X]|]; [|exact Hok].
      pose proof (Hls _ Hs) as Hs'.
      assert (HXn : forall y, In y (lids X) -> In y (sids l1 ++ sids l2 ++ sids slC)).
      { intros y Hy. rewrite app_assoc. apply in_or_app. left. rewrite <- sids_app. eapply in_sids; eassumption. }
      assert (HXe : forall y, In y (e2 :: leids X) -> In y (seids l1 ++ seids l2 ++ seids slC)).
      { intros y Hy. rewrite app_assoc. apply in_or_app. left. rewrite <- seids_app.
        destruct Hy as [<-|Hy]; [eapply in_seids_here|eapply in_seids]; eassumption. }
      cbn [slot_ok] in *. destruct Hok as (B1' & B2' & B3' & B4' & B5'). repeat split; try assumption.
      - eapply edge_ok_eq; [|exact B4']. rewrite <- B2'. apply InnE. apply HXe. left. reflexivity.
      - eapply shape_frame; [| |exact B5'].
        + intros y Hy. destruct (InnN y (HXn y Hy)) as (_ & Y1 & Y2 & Y3). apply Nsame; assumption.
        + intros y Hy. apply InnE. apply HXe. right. exact Hy. }
    assert (L0 : length l1 < length (hneigh hP)).
    { rewrite <- (slots_of_fst hP A4), map_length, Ec, app_length. cbn. lia. }
    pose proof (shape_lsubs _ _ _ _ _ _ (rep_shape _ _ R) HsubC) as ShC.
    assert (ECh : alookup eC (hedges h) = Some (mkHE i C eiC)).
    { pose proof (shape_lsubs _ _ _ _ _ _ (rep_shape _ _ R) HsubI) as ShI. apply shape_unfold in ShI. destruct ShI as [hi (I1 & I2 & I3 & I4 & I5)].
      assert (Hin : In (Some (eC, eiC, LNode C nmC cmC slC)) (if pfirst then [None; Some (eC, eiC, LNode C nmC cmC slC)] else [Some (eC, eiC, LNode C nmC cmC slC); None])).
      { destruct pfirst; [right; left|left]; reflexivity. }
      destruct (Forall2_in_r _ _ _ _ I5 Hin) as [[c0 e0] [_ Hok]]. cbn [slot_ok fst snd lid] in Hok.
      destruct Hok as (_ & <- & <- & [ed (X1 & X2 & X3 & X4)] & _). destruct ed as [a b c]. cbn in X2, X3, X4. subst. exact X1. }
    apply (Rep_replace h h' lt P p sub new R Hsub eq_refl eq_refl).
    - unfold new. apply shape_unfold. exists XP. split; [exact NP'|]. unfold XP. cbn [hname hcom hneigh hbr].
      split; [exact A2|]. split; [exact A3|].
      pose proof (del_nth_length (length l1) (hneigh hP) L0). pose proof (del_nth_length (length l1) (hbr hP) ltac:(lia)).
      split; [rewrite !app_length; cbn; lia|]. rewrite combine_app_eq by lia. rewrite combine_del_nth.
      change (combine (hneigh hP) (hbr hP)) with (slots_of hP). rewrite Ec, <- Lc, del_nth_app_mid.
      apply Forall2_app; [apply Forall2_app; apply Tr; try assumption; intros s Hs; apply in_or_app; [left|right]; exact Hs|].
      constructor; [|constructor]. cbn [slot_ok fst snd lid]. split.
      { destruct p as [[pp pe]|]; [|discriminate]. intros [= X1 X2].
        destruct (Rep_parent h lt R pp pe sub Hsub) as (hm & ed0 & P1 & P2 & P3 & P4 & P5 & _). cbn [lid] in P5.
        rewrite X2, ECh in P3. injection P3 as <-. cbn in P5. congruence. }
      split; [reflexivity|]. split; [reflexivity|]. split; [eexists; split; [exact EC'|]; repeat split|].
      apply (reparent_shape h h' i P eC C nmC cmC slC hC iC ShC W1 HC HiC).
      + intros y Hy. apply (InnN y). apply in_or_app. right. apply in_or_app. right. exact Hy.
      + exact NC'.
      + intros y Hy. destruct (InnN y) as (_ & Y1 & Y2 & Y3); [apply in_or_app; right; apply in_or_app; right; exact Hy|]. split; [apply Nsame; assumption|exact Y2].
      + intros y Hy. apply InnE. apply in_or_app. right. apply in_or_app. right. exact Hy.
    - intros y Hy Hy'. apply Nsame; intros ->; contradiction.
    - intros y Hy Hy'. apply Esame; intros ->; contradiction.
    - intros Wsub. unfold sub in Wsub. apply lwf_iff in Wsub. destruct Wsub as [Y1 Y2]. unfold new. apply lwf_iff. split.
      + rewrite !lnup_app in *. unfold lnup in Y1 at 2. cbn in Y1. fold (lnup l2) in Y1. unfold lnup at 3. cbn. lia.
      + intros e' ei' ch' Hin. apply in_app_or in Hin. destruct Hin as [Hin|[[= <- <- <-]|[]]].
        * apply (Y2 e' ei' ch'). apply in_app_or in Hin. apply in_or_app. destruct Hin; [left|right; right]; assumption.
        * unfold Cn. apply lwf_sub_iff. split; assumption.
    - intros Wsub. unfold sub in Wsub. apply lwf_sub_iff in Wsub. destruct Wsub as [Y1 Y2]. unfold new. apply lwf_sub_iff. split.
      + rewrite !lnup_app in *. unfold lnup in Y1 at 2. cbn in Y1. fold (lnup l2) in Y1. unfold lnup at 3. cbn. lia.
      + intros e' ei' ch' Hin. apply in_app_or in Hin. destruct Hin as [Hin|[[= <- <- <-]|[]]].
        * apply (Y2 e' ei' ch'). apply in_app_or in Hin. apply in_or_app. destruct Hin; [left|right; right]; assumption.
        * unfold Cn. apply lwf_sub_iff. split; assumption.
    - exact (rd_root _ _ _ _ _ _ _ _ _ _ D).
    - exact NdN.
    - intros y Hy. left. apply InN in Hy. tauto.
    - rewrite EEn. eapply Permutation_NoDup; [apply Permutation_middle|]. rewrite <- app_assoc. constructor; [exact Re2|exact NdE0].
    - intros y Hy. left. apply InE in Hy. destruct Hy as [->|Hy]; [exact IneC|apply InE0 in Hy; tauto].
    - intros y. rewrite InN. rewrite (rd_nodes _ _ _ _ _ _ _ _ _ _ D).
      destruct (Nat.eqb_spec y i) as [->|Ni]; [split; [congruence|]; intros [[_ X]|[_ X]]; [congruence|contradiction]|].
      destruct (Nat.eqb_spec y P) as [->|NP]; [split; [intros _; left; tauto|discriminate]|].
      destruct (Nat.eqb_spec y C) as [->|NC]; [split; [intros _; left; tauto|discriminate]|].
      rewrite <- (rep_nodes _ _ R y). split.
      + intros Hy. destruct (in_dec Nat.eq_dec y (lids sub)); tauto.
      + intros [[X _]|[X _]]; [apply SubN; exact X|exact X].
    - intros y. rewrite InE. rewrite (rd_edges _ _ _ _ _ _ _ _ _ _ D).
      destruct (Nat.eqb_spec y eP) as [->|N1].
      { split; [congruence|]. intros [[X|X]|[_ X]]; [congruence|apply InE0 in X; tauto|contradiction]. }
      destruct (Nat.eqb_spec y eC) as [->|N2]; [split; [intros _; left; left; reflexivity|discriminate]|].
      rewrite <- (rep_edges _ _ R y). split.
      + intros Hy. destruct (in_dec Nat.eq_dec y (leids sub)) as [Hin0|Hin0]; [left; right; apply InE0; tauto|right; tauto].
      + intros [[X|X]|[X _]]; [contradiction|apply SubE; apply InE0 in X; tauto|exact X].
    - intros y Hy. rewrite (rd_nextn _ _ _ _ _ _ _ _ _ _ D). apply (rep_fn _ _ R). rewrite (rd_nodes _ _ _ _ _ _ _ _ _ _ D) in Hy.
      destruct (Nat.eqb_spec y i); [congruence|]. destruct (Nat.eqb_spec y P) as [E1|_]; [rewrite E1; apply SubN; exact InP|].
      destruct (Nat.eqb_spec y C) as [E1|_]; [rewrite E1; apply SubN; exact InC|]. apply (rep_nodes _ _ R). exact Hy.
    - intros y Hy. rewrite (rd_nexte _ _ _ _ _ _ _ _ _ _ D). rewrite (rd_edges _ _ _ _ _ _ _ _ _ _ D) in Hy.
      destruct (Nat.eqb_spec y eP); [congruence|].
      destruct (Nat.eqb_spec y eC) as [E1|_]; [rewrite E1; apply (rep_fe _ _ R); apply SubE; exact IneC|]. apply (rep_edges _ _ R), (rep_fe _ _ R) in Hy. exact Hy.
  Qed.
End Suppress.

(** the suppression of a node with two neighbours, on a represented heap *)
Theorem rs_suppress_Rep h lt p P0 nmP cmP l1 l2 eP0 eiP i nmi cmi (pfirst : bool) eC eiC C nmC cmC slC : Rep h lt ->
  let sli := if pfirst then [None; Some (eC, eiC, LNode C nmC cmC slC)] else [Some (eC, eiC, LNode C nmC cmC slC); None] in
  In (p, LNode P0 nmP cmP (l1 ++ Some (eP0, eiP, LNode i nmi cmi sli) :: l2)) (lsubs None lt) ->
  exists h', rs_suppress i P0 eP0 h = HOk h' /\
    Rep h' (lreplace P0 (LNode P0 nmP cmP ((l1 ++ l2) ++ [Some (eC, rs_edge eiP eiC, LNode C nmC cmC slC)])) lt).
Proof.
  intros R sli Hsub. pose proof (Rep_Good h lt R) as G.
  assert (HsubI : In (Some (P0, eP0), LNode i nmi cmi sli) (lsubs None lt)).
  { eapply lsubs_trans; [exact Hsub|]. eapply lsubs_child. apply in_or_app. right. left. reflexivity. }
  destruct (lwf_sub_lsubs lt None _ _ (or_introl (rep_wf _ _ R)) HsubI) as [E|W]; [discriminate|].
  apply lwf_sub_iff in W. destruct W as [W1 W2]. unfold sli in *. clear sli.
  (* the records *)
  pose proof (shape_lsubs _ _ _ _ _ _ (rep_shape _ _ R) HsubI) as ShI. apply shape_unfold in ShI. destruct ShI as [hi (I1 & I2 & I3 & I4 & I5)].
  pose proof (shape_lsubs _ _ _ _ _ _ (rep_shape _ _ R) Hsub) as ShP. apply shape_unfold in ShP. destruct ShP as [hP (A1 & A2 & A3 & A4 & A5)].
  pose proof (Forall2_length' _ _ _ A5) as LenP.
  apply Forall2_app_inv_r in A5. destruct A5 as (c1 & c2' & F1 & F2 & Ec).
  apply Forall2_cons_inv_r in F2. destruct F2 as (ce & c2 & Ec2 & Ok0 & F2'). rewrite Ec2 in Ec. clear Ec2 c2'.
  destruct ce as [x0 e0]. cbn [slot_ok fst snd lid] in Ok0. destruct Ok0 as (_ & Ee & Er & [edP (E1 & E2 & E3 & E4)] & _). subst e0 x0.
  destruct edP as [a b c]. cbn [hleft hright hinfo] in E2, E3, E4. subst a b c.
  pose proof (Forall2_length' _ _ _ F1) as Lc.
  assert (HsubC : In (Some (i, eC), LNode C nmC cmC slC) (lsubs None lt)).
  { eapply lsubs_trans; [exact HsubI|]. eapply lsubs_child. destruct pfirst; [right; left|left]; reflexivity. }
  pose proof (shape_lsubs _ _ _ _ _ _ (rep_shape _ _ R) HsubC) as ShC. apply shape_unfold in ShC. destruct ShC as [hC (B1 & B2 & B3 & B4 & B5)].
  pose proof (Forall2_length' _ _ _ B5) as LenC.
  destruct (lwf_sub_lsubs lt None _ _ (or_introl (rep_wf _ _ R)) HsubC) as [E|WC]; [discriminate|].
  apply lwf_sub_iff in WC. destruct WC as [WC1 WC2].
  (* i's own record *)
  assert (Hrec : hneigh hi = (if pfirst then [P0; C] else [C; P0]) /\ hbr hi = (if pfirst then [eP0; eC] else [eC; eP0]) /\
                 alookup eC (hedges h) = Some (mkHE i C eiC)).
  { unfold slots_of in I5. destruct pfirst; apply Forall2_cons_inv_r in I5; destruct I5 as (ce1 & r1 & Er1 & O1 & I5);
      apply Forall2_cons_inv_r in I5; destruct I5 as (ce2 & r2 & Er2 & O2 & I5); inversion I5; subst r2 r1;
      destruct (hneigh hi) as [|x1 [|x2 [|x3 ng]]], (hbr hi) as [|y1 [|y2 [|y3 bs]]]; cbn in I4, Er1; try discriminate; try lia;
      injection Er1 as <- <-; cbn [slot_ok fst snd lid] in O1, O2.
    - injection O1 as <- <-. destruct O2 as (_ & <- & <- & [ed (X1 & X2 & X3 & X4)] & _).
      destruct ed as [a b c]. cbn in X2, X3, X4. subst. repeat split. exact X1.
    - injection O2 as <- <-. destruct O1 as (_ & <- & <- & [ed (X1 & X2 & X3 & X4)] & _).
      destruct ed as [a b c]. cbn in X2, X3, X4. subst. repeat split. exact X1. }
  destruct Hrec as (Hng & Hbr & EC).
  destruct (Rep_parent h lt R P0 eP0 _ HsubI) as (hm & edp & Q1 & Q2 & Q3 & Q4 & Q5 & Q6). cbn [lid] in Q5.
  set (sli := if pfirst then [None; Some (eC, eiC, LNode C nmC cmC slC)] else [Some (eC, eiC, LNode C nmC cmC slC); None]) in *.
  set (subP := LNode P0 nmP cmP (l1 ++ Some (eP0, eiP, LNode i nmi cmi sli) :: l2)) in *.
  assert (Nd : NoDup (lids subP)) by (eapply lsubs_NoDup; [exact (rep_nd _ _ R)|exact Hsub]).
  assert (NdI : NoDup (lids (LNode i nmi cmi sli))).
  { eapply lsubs_NoDup; [exact (rep_nd _ _ R)|exact HsubI]. }
  assert (InC_I : In C (lids (LNode i nmi cmi sli))).
  { rewrite lids_eq. right. unfold sli. destruct pfirst; cbn; left; reflexivity. }
  assert (NPi : P0 <> i) by (intros E0; apply Q6; rewrite E0; left; reflexivity).
  assert (NPC : P0 <> C) by (intros E0; apply Q6; rewrite E0; exact InC_I).
  assert (NCi : C <> i).
  { intros E0. rewrite lids_eq in NdI. apply NoDup_cons_iff in NdI. apply (proj1 NdI). rewrite <- E0. unfold sli. destruct pfirst; cbn; left; reflexivity. }
  assert (HnP : nth_error (hneigh hP) (length l1) = Some i).
  { rewrite <- (slots_of_fst hP A4). unfold slots_of. rewrite Ec, nth_error_map, <- Lc, nth_error_app_mid. reflexivity. }
  assert (IP : index_of i (hneigh hP) = Some (length l1)) by (apply index_of_NoDup; [exact (g_nodup _ G P0 hP A1)|exact HnP]).
  assert (LP : length l1 < length (hbr hP)) by (rewrite <- A4; apply nth_error_Some; congruence).
  destruct (drop_up_Forall2 (slot_ok true h (Some (i, eC)) C) i slC (hneigh hC) (hbr hC) B4 B5) as [jC (IC & LC & _)].
  { intros j y Hj. eapply neigh_iff_none; [exact B5|exact B4| |exact Hj].
    intros z Hz ->. rewrite lids_eq in NdI. apply NoDup_cons_iff in NdI. apply (proj1 NdI).
    unfold sli. destruct pfirst; cbn [flat_map app]; rewrite ?app_nil_r, lids_eq; right; exact Hz. }
  { apply lnup_pos_in. lia. }
  assert (FrE : forall y, alookup y (hedges h) <> None -> y <> hnexte h) by (intros y Hy; apply (g_fresh_e _ G) in Hy; lia).
  assert (NE : eP0 <> eC).
  { intros E0. rewrite E0, EC in E1. injection E1 as X1 X2. congruence. }
  assert (NthC : nth_error (hneigh hC) jC = Some i) by (destruct (index_of_spec _ _ _ IC) as [X _]; exact X).
  assert (BC : nth_error (hbr hC) jC = Some eC).
  { assert (Hn : nth_error slC jC = Some None).
    { eapply (neigh_iff_none h i C eC hC slC B5 B4); [|exact NthC|reflexivity].
      intros z Hz ->. rewrite lids_eq in NdI. apply NoDup_cons_iff in NdI. apply (proj1 NdI).
      unfold sli. destruct pfirst; cbn [flat_map app]; rewrite ?app_nil_r, lids_eq; right; exact Hz. }
    destruct (Forall2_nth_r _ _ _ _ _ B5 Hn) as [[c0 b0] [K1 K2]]. cbn [slot_ok] in K2. injection K2 as <- <-.
    rewrite <- (slots_of_snd hC B4). unfold slots_of in *. rewrite nth_error_map, K1. reflexivity. }
  assert (LCn : jC < length (hneigh hC)) by (apply nth_error_Some; congruence).
  destruct (rs_suppress_eval h i hi P0 C eP0 eC pfirst hP hC (length l1) jC eiP eiC I1 Hng Hbr E1 EC A1 B1 NPC NPi NCi IP LP IC BC LCn NE)
    as (h' & Ev & D).
  exists h'. split; [exact Ev|].
  exact (RS_Rep h h' lt R p P0 nmP cmP l1 l2 eP0 eiP i nmi cmi pfirst eC eiC C nmC cmC slC Hsub hP hC jC (rs_edge eiP eiC) A1 B1 IC D).
Qed.
