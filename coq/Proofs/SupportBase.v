(** Lemmas shared by the C10 proofs: counting in duplicate-free lists, structure of [leaves],
    [clades], [edges] on well-formed trees. *)
From Coq Require Import String ZArith QArith Bool Arith Lia Permutation List.
From GT Require Import Base.UTree Spec.Obs Spec.Support Model.Support.
Import ListNotations.
Local Close Scope Q_scope.

(** * membership *)
Lemma mem_In : forall x l, mem x l = true <-> In x l.
Proof.
  intros x l. unfold mem. rewrite existsb_exists. split.
  - intros [y [Hy E]]. apply String.eqb_eq in E. subst. exact Hy.
  - intros H. exists x. split; [exact H | apply String.eqb_refl].
Qed.

Lemma mem_false : forall x l, mem x l = false <-> ~ In x l.
Proof.
  intros x l. rewrite <- mem_In. destruct (mem x l); split; intros; congruence.
Qed.

Lemma smem_mem : forall x l, smem x l = mem x l.
Proof. reflexivity. Qed.

Lemma mem_app : forall x a b, mem x (a ++ b) = mem x a || mem x b.
Proof. intros. unfold mem. apply existsb_app. Qed.

Lemma mem_filter : forall x f l, mem x (filter f l) = mem x l && f x.
Proof.
  intros x f l. induction l as [|y l IH]; simpl; [reflexivity|].
  destruct (f y) eqn:Fy; simpl.
  - rewrite IH. destruct (String.eqb x y) eqn:E; simpl; [|reflexivity].
    apply String.eqb_eq in E. subst. rewrite Fy. destruct (mem y l); reflexivity.
  - rewrite IH. destruct (String.eqb x y) eqn:E; simpl; [|reflexivity].
    apply String.eqb_eq in E. subst. rewrite Fy. rewrite andb_false_r. reflexivity.
Qed.

(** * counting *)
Definition cnt {A} (f : A -> bool) (l : list A) : nat := length (filter f l).

Lemma cnt_app : forall A (f : A -> bool) a b, cnt f (a ++ b) = cnt f a + cnt f b.
Proof. intros. unfold cnt. rewrite filter_app, app_length. reflexivity. Qed.

Lemma cnt_le : forall A (f : A -> bool) l, cnt f l <= length l.
Proof.
  intros. unfold cnt. induction l; simpl; [lia|]. destruct (f a); simpl; lia.
Qed.

Lemma cnt_ext_in : forall A (f g : A -> bool) l,
    (forall x, In x l -> f x = g x) -> cnt f l = cnt g l.
Proof.
  intros A f g l H. unfold cnt. induction l as [|a l IH]; simpl; [reflexivity|].
  rewrite (H a (or_introl eq_refl)). destruct (g a); simpl; rewrite IH; auto.
  all: intros; apply H; right; assumption.
Qed.

Lemma cnt_perm : forall A (f : A -> bool) l l', Permutation l l' -> cnt f l = cnt f l'.
Proof.
  intros A f l l' P. unfold cnt. induction P; simpl; try reflexivity.
  - destruct (f x); simpl; lia.
  - destruct (f x), (f y); simpl; reflexivity.
  - lia.
Qed.

Lemma cnt_split : forall A (f g : A -> bool) l,
    cnt f l = cnt (fun x => f x && g x) l + cnt (fun x => f x && negb (g x)) l.
Proof.
  intros. unfold cnt. induction l as [|a l IH]; simpl; [reflexivity|].
  destruct (f a), (g a); simpl; lia.
Qed.

Lemma cnt_filter : forall A (f g : A -> bool) l, cnt f (filter g l) = cnt (fun x => f x && g x) l.
Proof.
  intros. unfold cnt. induction l as [|a l IH]; simpl; [reflexivity|].
  destruct (g a); simpl; [destruct (f a); simpl; rewrite IH; reflexivity|].
  rewrite andb_false_r. exact IH.
Qed.

Lemma cnt_neg : forall A (f : A -> bool) l, cnt f l + cnt (fun x => negb (f x)) l = length l.
Proof.
  intros. unfold cnt. induction l as [|a l IH]; simpl; [reflexivity|].
  destruct (f a); simpl; lia.
Qed.

(** the elements of X lying in a duplicate-free sublist B are B, up to order *)
Lemma filter_mem_perm : forall X B,
    NoDup X -> NoDup B -> incl B X -> Permutation (filter (fun x => mem x B) X) B.
Proof.
  intros X B HX HB Hin. apply NoDup_Permutation.
  - apply NoDup_filter. exact HX.
  - exact HB.
  - intros x. rewrite filter_In, mem_In. split; [tauto|]. intros H. split; [apply Hin; exact H|exact H].
Qed.

Lemma cnt_transfer : forall X B (g : string -> bool),
    NoDup X -> NoDup B -> incl B X -> cnt (fun x => g x && mem x B) X = cnt g B.
Proof.
  intros X B g HX HB Hin. rewrite <- cnt_filter. apply cnt_perm. apply filter_mem_perm; assumption.
Qed.

Lemma cnt_mem_length : forall X B, NoDup X -> NoDup B -> incl B X -> cnt (fun x => mem x B) X = length B.
Proof.
  intros X B HX HB Hin.
  rewrite (cnt_ext_in _ _ (fun x => true && mem x B)) by reflexivity.
  rewrite cnt_transfer by assumption. unfold cnt.
  clear. induction B; simpl; auto.
Qed.

(** |L Δ B| = (|L| - |L ∩ B|) + |B \ L| *)
Lemma symdiff_count : forall X B (inL : string -> bool),
    NoDup X -> NoDup B -> incl B X ->
    cnt (fun x => xorb (inL x) (mem x B)) X
    = (cnt inL X - cnt inL B) + cnt (fun x => negb (inL x)) B.
Proof.
  intros X B inL HX HB Hin.
  rewrite (cnt_split _ _ (fun x => mem x B)).
  assert (E1 : cnt (fun x => xorb (inL x) (mem x B) && mem x B) X = cnt (fun x => negb (inL x)) B).
  { rewrite <- (cnt_transfer X B) by assumption. apply cnt_ext_in. intros x _.
    destruct (inL x), (mem x B); reflexivity. }
  assert (E2 : cnt (fun x => xorb (inL x) (mem x B) && negb (mem x B)) X = cnt inL X - cnt inL B).
  { rewrite <- (cnt_transfer X B inL) by assumption.
    rewrite (cnt_split _ inL (fun x => mem x B) X).
    rewrite (cnt_ext_in _ (fun x => xorb (inL x) (mem x B) && negb (mem x B))
                        (fun x => inL x && negb (mem x B))).
    - lia.
    - intros x _. destruct (inL x), (mem x B); reflexivity. }
  rewrite E1, E2. lia.
Qed.

(** * slots *)
Lemma slots_length : forall sl : list slot, length sl = n_up sl + length (kids_of sl).
Proof.
  induction sl as [|s sl IH]; simpl; [reflexivity|].
  unfold n_up in *. destruct s as [[e c]|]; simpl; lia.
Qed.

Lemma flat_map_kids : forall A (f : utree -> list A) (sl : list slot),
    flat_map (fun s => match s with Some (_, c) => f c | None => [] end) sl
    = flat_map (fun ec => f (snd ec)) (kids_of sl).
Proof.
  intros A f sl. induction sl as [|s sl IH]; simpl; [reflexivity|].
  destruct s as [[e c]|]; simpl; rewrite IH; reflexivity.
Qed.

Lemma in_kids_of : forall (sl : list slot) e c, In (Some (e, c)) sl <-> In (e, c) (kids_of sl).
Proof.
  intros sl e c. unfold kids_of. rewrite in_flat_map. split.
  - intros H. exists (Some (e, c)). split; [exact H|left; reflexivity].
  - intros [s [Hs Hin]]. destruct s as [p|]; simpl in Hin; [|contradiction].
    destruct Hin as [E|[]]. subst. exact Hs.
Qed.

(** * well-formed subtrees: Go's tips are the leaves *)
Lemma wf_sub_inv : forall n c sl,
    wf_sub (UNode n c sl) = true ->
    n_up sl = 1 /\ (forall e ch, In (Some (e, ch)) sl -> wf_sub ch = true).
Proof.
  intros n c sl H. simpl in H. apply andb_prop in H. destruct H as [H1 H2].
  apply Nat.eqb_eq in H1. split; [exact H1|].
  intros e ch Hin. rewrite forallb_forall in H2. apply (H2 _ Hin).
Qed.

Lemma wf_inv : forall n c sl,
    wf (UNode n c sl) = true ->
    n_up sl = 0 /\ (forall e ch, In (Some (e, ch)) sl -> wf_sub ch = true).
Proof.
  intros n c sl H. simpl in H. apply andb_prop in H. destruct H as [H1 H2].
  apply Nat.eqb_eq in H1. split; [exact H1|].
  intros e ch Hin. rewrite forallb_forall in H2. apply (H2 _ Hin).
Qed.

Lemma flat_map_ext_slots : forall A (f g : utree -> list A) (sl : list slot),
    (forall e c, In (Some (e, c)) sl -> f c = g c) ->
    flat_map (fun s => match s with Some (_, c) => f c | None => [] end) sl
    = flat_map (fun s => match s with Some (_, c) => g c | None => [] end) sl.
Proof.
  intros A f g sl H. induction sl as [|s sl IH]; simpl; [reflexivity|].
  rewrite IH by (intros; eapply H; right; eassumption).
  destruct s as [[e c]|]; [|reflexivity]. rewrite (H e c (or_introl eq_refl)). reflexivity.
Qed.

Lemma all_tip_names_leaves : forall c, wf_sub c = true -> all_tip_names c = leaves c.
Proof.
  induction c as [n cm sl IH] using utree_ind'. intros W.
  apply wf_sub_inv in W. destruct W as [Hup Hk].
  pose proof (slots_length sl) as HL.
  simpl. destruct (Nat.eqb (length sl) 1) eqn:E.
  - apply Nat.eqb_eq in E. destruct (kids_of sl) eqn:K; [reflexivity|]. simpl in HL. lia.
  - apply Nat.eqb_neq in E. destruct (kids_of sl) eqn:K; [simpl in HL; lia|].
    apply flat_map_ext_slots. intros e c Hin.
    rewrite Forall_forall in IH. apply (IH _ Hin). apply (Hk _ _ Hin).
Qed.

Lemma tip_names_leaves_sub : forall c, wf_sub c = true -> map uname (tips c) = leaves c.
Proof.
  induction c as [n cm sl IH] using utree_ind'. intros W.
  apply wf_sub_inv in W. destruct W as [Hup Hk].
  pose proof (slots_length sl) as HL.
  cbn [tips leaves]. unfold is_tip, degree. cbn [uslots].
  destruct (Nat.eqb (length sl) 1) eqn:E.
  - apply Nat.eqb_eq in E. destruct (kids_of sl) eqn:K; [|simpl in HL; lia].
    assert (sl = [None]) as ->.
    { destruct sl as [|s [|s' r]]; simpl in E; try lia. destruct s as [[e c]|]; [discriminate K|reflexivity]. }
    reflexivity.
  - apply Nat.eqb_neq in E. destruct (kids_of sl) eqn:K; [simpl in HL; lia|].
    simpl. clear K HL E Hup.
    induction sl as [|s sl IHsl]; simpl; [reflexivity|].
    rewrite map_app. rewrite IHsl.
    + destruct s as [[e c]|]; [|reflexivity]. f_equal.
      rewrite Forall_forall in IH. apply (IH (Some (e, c))); [left; reflexivity|].
      apply (Hk e c). left. reflexivity.
    + inversion IH; assumption.
    + intros e c Hin. apply (Hk e c). right. exact Hin.
Qed.

(** * the root *)
Definition good (t : utree) : Prop := wf t = true /\ 2 <= degree t /\ NoDup (leaves t).

Lemma root_kids : forall n c sl, wf (UNode n c sl) = true -> 2 <= length sl -> kids_of sl <> [].
Proof.
  intros n c sl W D. apply wf_inv in W. destruct W as [Hup _].
  pose proof (slots_length sl). destruct (kids_of sl); [simpl in *; lia|discriminate].
Qed.

Lemma leaves_root : forall n c sl,
    kids_of sl <> [] ->
    leaves (UNode n c sl) = flat_map (fun s => match s with Some (_, ch) => leaves ch | None => [] end) sl.
Proof.
  intros n c sl K. simpl. destruct (kids_of sl); [congruence|reflexivity].
Qed.

Lemma tip_names_leaves : forall t, wf t = true -> 2 <= degree t -> tip_names t = leaves t.
Proof.
  intros [n c sl] W D. unfold degree in D. simpl in D.
  pose proof (root_kids _ _ _ W D) as K. rewrite (leaves_root _ _ _ K).
  apply wf_inv in W. destruct W as [_ Hk].
  unfold tip_names. cbn [tips]. unfold is_tip, degree. cbn [uslots].
  replace (Nat.eqb (length sl) 1) with false by (symmetry; apply Nat.eqb_neq; lia).
  simpl. clear K D.
  induction sl as [|s sl IH]; simpl; [reflexivity|].
  rewrite map_app, IH by (intros; eapply Hk; right; eassumption).
  destruct s as [[e ch]|]; [|reflexivity]. f_equal.
  apply tip_names_leaves_sub. apply (Hk e ch). left. reflexivity.
Qed.

Lemma ntax_root_leaves : forall t, wf t = true -> 2 <= degree t -> ntax_root t = length (leaves t).
Proof.
  intros [n c sl] W D. unfold degree in D. simpl in D.
  pose proof (root_kids _ _ _ W D) as K. rewrite (leaves_root _ _ _ K).
  apply wf_inv in W. destruct W as [_ Hk].
  unfold ntax_root, kids. cbn [uslots]. f_equal.
  rewrite <- (flat_map_kids _ all_tip_names sl).
  apply flat_map_ext_slots. intros e ch Hin. apply all_tip_names_leaves. apply (Hk _ _ Hin).
Qed.

Lemma tips_length : forall t, wf t = true -> 2 <= degree t -> length (tips t) = length (leaves t).
Proof.
  intros t W D. rewrite <- (tip_names_leaves t W D). unfold tip_names. rewrite map_length. reflexivity.
Qed.

(** * all proper subtrees, pre-order *)
Fixpoint subs (t : utree) : list utree :=
  match t with
  | UNode _ _ sl =>
    flat_map (fun s => match s with Some (_, c) => c :: subs c | None => [] end) sl
  end.

Lemma clades_subs : forall t, clades t = map leaves (subs t).
Proof.
  induction t as [n c sl IH] using utree_ind'. simpl.
  induction sl as [|s sl IHsl]; simpl; [reflexivity|].
  rewrite map_app. rewrite IHsl by (inversion IH; assumption).
  destruct s as [[e ch]|]; [|reflexivity]. simpl. inversion IH as [|? ? H1 H2]; subst.
  rewrite H1. reflexivity.
Qed.

Lemma subs_in : forall t x,
    In x (subs t) <->
    exists e c, In (Some (e, c)) (uslots t) /\ (x = c \/ In x (subs c)).
Proof.
  intros [n cm sl] x. simpl. rewrite in_flat_map. split.
  - intros [s [Hs Hin]]. destruct s as [[e c]|]; [|contradiction].
    exists e, c. split; [exact Hs|]. simpl in Hin. destruct Hin as [E|H]; [left; symmetry; exact E|right; exact H].
  - intros [e [c [Hs H]]]. exists (Some (e, c)). split; [exact Hs|].
    simpl. destruct H as [E|H]; [left; symmetry; exact E|right; exact H].
Qed.

Lemma subs_wf_sub : forall t x,
    (forall e c, In (Some (e, c)) (uslots t) -> wf_sub c = true) -> In x (subs t) -> wf_sub x = true.
Proof.
  induction t as [n cm sl IH] using utree_ind'. intros x Hk Hin.
  apply subs_in in Hin. destruct Hin as [e [c [Hs [E|H]]]].
  - subst. apply (Hk _ _ Hs).
  - rewrite Forall_forall in IH. apply (IH _ Hs x); [|exact H].
    pose proof (Hk _ _ Hs) as W. destruct c as [n' c' sl']. apply wf_sub_inv in W. exact (proj2 W).
Qed.

Lemma subs_wf : forall t x, wf t = true -> In x (subs t) -> wf_sub x = true.
Proof.
  intros [n c sl] x W. apply subs_wf_sub. apply wf_inv in W. exact (proj2 W).
Qed.

(** a child's leaves are a segment of the parent's *)
Lemma leaves_child_segment : forall n cm sl e c,
    In (Some (e, c)) sl -> exists l1 l2, leaves (UNode n cm sl) = l1 ++ leaves c ++ l2.
Proof.
  intros n cm sl e c Hin.
  assert (K : kids_of sl <> []).
  { apply in_kids_of in Hin. destruct (kids_of sl); [contradiction|discriminate]. }
  rewrite (leaves_root _ _ _ K).
  apply in_split in Hin. destruct Hin as [s1 [s2 ->]].
  rewrite flat_map_app. simpl. eexists. eexists. reflexivity.
Qed.

Lemma subs_segment : forall t x, In x (subs t) -> exists l1 l2, leaves t = l1 ++ leaves x ++ l2.
Proof.
  induction t as [n cm sl IH] using utree_ind'. intros x Hin.
  apply subs_in in Hin. destruct Hin as [e [c [Hs [E|H]]]].
  - subst. eapply leaves_child_segment. exact Hs.
  - rewrite Forall_forall in IH. destruct (IH _ Hs x H) as [a [b E]].
    destruct (leaves_child_segment n cm sl e c Hs) as [l1 [l2 E2]].
    rewrite E2, E. exists (l1 ++ a), (b ++ l2). rewrite <- !app_assoc. reflexivity.
Qed.

Lemma nodup_app_r : forall A (a b : list A), NoDup (a ++ b) -> NoDup b.
Proof.
  induction a as [|x a IH]; simpl; intros b H; [exact H|]. inversion H; subst. apply IH. assumption.
Qed.

Lemma nodup_app_l : forall A (a b : list A), NoDup (a ++ b) -> NoDup a.
Proof.
  induction a as [|x a IH]; simpl; intros b H; [constructor|]. inversion H as [|? ? H1 H2]; subst.
  constructor; [|eapply IH; eassumption]. intro Hin. apply H1. apply in_or_app. left. exact Hin.
Qed.

Lemma segment_nodup : forall A (l1 b l2 : list A), NoDup (l1 ++ b ++ l2) -> NoDup b.
Proof.
  intros A l1 b l2 H. apply nodup_app_r in H. apply nodup_app_l in H. exact H.
Qed.

Lemma subs_nodup : forall t x, NoDup (leaves t) -> In x (subs t) -> NoDup (leaves x).
Proof.
  intros t x N Hin. destruct (subs_segment t x Hin) as [l1 [l2 E]]. rewrite E in N.
  eapply segment_nodup. exact N.
Qed.

Lemma subs_incl : forall t x, In x (subs t) -> incl (leaves x) (leaves t).
Proof.
  intros t x Hin. destruct (subs_segment t x Hin) as [l1 [l2 E]]. rewrite E.
  intros y Hy. apply in_or_app. right. apply in_or_app. left. exact Hy.
Qed.

(** * Edges() lists every branch of a well-formed tree *)
Lemma edges_below_subs : forall t,
    (forall e c, In (Some (e, c)) (uslots t) -> wf_sub c = true) ->
    map snd (edges_below t) = subs t.
Proof.
  induction t as [n cm sl IH] using utree_ind'. intros Hk. simpl.
  simpl in Hk. induction sl as [|s sl IHsl]; simpl; [reflexivity|].
  rewrite map_app. rewrite IHsl.
  - destruct s as [[e c]|]; [|reflexivity]. simpl. f_equal. f_equal.
    pose proof (Hk e c (or_introl eq_refl)) as W.
    inversion IH as [|? ? H1 H2]; subst.
    destruct (Nat.ltb 1 (degree c)) eqn:D.
    + apply H1. destruct c as [n' c' sl']. apply wf_sub_inv in W. exact (proj2 W).
    + apply Nat.ltb_ge in D. destruct c as [n' c' sl']. unfold degree in D. simpl in D.
      apply wf_sub_inv in W. destruct W as [Hup _].
      pose proof (slots_length sl') as HL.
      simpl. rewrite (flat_map_kids _ (fun c => c :: subs c)).
      destruct (kids_of sl'); [reflexivity|simpl in HL; lia].
  - inversion IH; assumption.
  - intros e c Hin. apply (Hk e c). right. exact Hin.
Qed.

Lemma edges_subs : forall t, wf t = true -> map snd (edges t) = subs t.
Proof.
  intros [n c sl] W. apply edges_below_subs. apply wf_inv in W. exact (proj2 W).
Qed.

Lemma edges_in_subs : forall t e c, wf t = true -> In (e, c) (edges t) -> In c (subs t).
Proof.
  intros t e c W Hin. rewrite <- (edges_subs t W). apply in_map_iff. exists (e, c). split; [reflexivity|exact Hin].
Qed.
