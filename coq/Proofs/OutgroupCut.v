(** C05, rooting on an outgroup / at the midpoint: [cut_and_root] (a new node in the middle of a
    branch, then re-rooting on it) keeps well-formedness, leaves and tip-to-tip distances, and
    the shape of its result: a root with exactly two children, one of which is the lower end
    of the branch that was cut. *)
From Coq Require Import String ZArith QArith Bool Arith Lia List Permutation Setoid Morphisms.
From GT Require Import Base.UTree Spec.Obs Model.Reroot Model.Outgroup Spec.Unrooted
     Proofs.RerootBase Proofs.Reroot Proofs.Reorder Proofs.OutgroupBase.
Import ListNotations.
Local Close Scope Q_scope.
Local Arguments n_up : simpl never.

Lemma node_at_app p : forall t q, node_at t (p ++ q) = match node_at t p with Some m => node_at m q | None => None end.
Proof.
  induction p as [|k r IH]; intros t q; simpl; auto.
  destruct (nth_error (uslots t) k) as [[[e ch]|]|]; auto.
Qed.

Lemma node_at_replace_up_same n c sl n2 c2 x k r m :
  node_at (UNode n c sl) (k :: r) = Some m -> node_at (UNode n2 c2 (replace_up sl x)) (k :: r) = Some m.
Proof.
  simpl. destruct (nth_error sl k) as [[[e ch]|]|] eqn:E; try discriminate.
  now rewrite (nth_error_replace_up _ x _ _ E).
Qed.

(** re-rooting on the node reached through slot [k] of the node at [p]: the new root is that
    node, its parent slot now holding the branch it was reached by *)
Lemma reroot_path_shape p : forall t pm k e m,
  node_at t p = Some pm -> nth_error (uslots pm) k = Some (Some (e, m)) ->
  exists R, reroot_path t (p ++ [k]) =
            Some (UNode (uname m) (ucom m) (replace_up (uslots m) (Some (e, R)))).
Proof.
  induction p as [|k1 r IH]; intros t pm k e m Hn Hk.
  - simpl in Hn. inversion Hn; subst pm. destruct t as [n c sl]. simpl in *.
    rewrite Hk. destruct m as [n' c' sl']. simpl. eauto.
  - destruct t as [n c sl].
    change ((k1 :: r) ++ [k]) with (k1 :: (r ++ [k])).
    simpl in Hn. simpl reroot_path. unfold rotate_to.
    destruct (nth_error sl k1) as [[[e1 [n' c' sl']]|]|] eqn:E1; try discriminate.
    set (x := Some (e1, UNode n c (set_nth k1 None sl))).
    destruct r as [|k2 r2].
    + simpl in Hn. inversion Hn; subst pm. simpl in Hk.
      apply (IH (UNode n' c' (replace_up sl' x)) (UNode n' c' (replace_up sl' x)) k e m); [reflexivity|].
      simpl. now apply nth_error_replace_up.
    + apply (IH (UNode n' c' (replace_up sl' x)) pm k e m); [|exact Hk].
      now apply node_at_replace_up_same with (n := n') (c := c').
Qed.

Lemma reroot_path_det t p a b : reroot_path t p = Some a -> reroot_path t p = Some b -> a = b.
Proof. congruence. Qed.

(** ** the main statement about [cut_and_root] *)
Theorem cut_and_root_spec w t2 pp k cf eP eC P e ch :
  wf t2 = true -> 2 <= degree t2 ->
  node_at t2 pp = Some P -> nth_error (uslots P) k = Some (Some (e, ch)) ->
  (w eP + w eC == w e)%Q ->
  exists t4 R,
    cut_and_root t2 pp k cf eP eC = Some t4 /\
    t4 = UNode "" [] (if cf then [Some (eC, cut_child ch); Some (eP, R)]
                      else [Some (eP, R); Some (eC, cut_child ch)]) /\
    wf t4 = true /\ Permutation (leaves t4) (leaves t2) /\
    dists_equiv (pairdists w t4) (pairdists w t2).
Proof.
  intros Hwf Hdeg Hn Hk Hw.
  destruct (cut_slot_spec w k cf eP eC P e ch Hk Hw)
    as [P' [C1 [C2 [C3 [C4 [C5 [C6 [C7 C8]]]]]]]].
  destruct (update_at_spec w pp t2 P (cut_slot k cf eP eC) P' Hn C1 C2 C4 C5 C3)
    as [t3 [U1 [U2 [U3 [U4 [U5 U6]]]]]].
  assert (W3 : wf t3 = true) by auto.
  assert (D3 : 2 <= degree t3) by lia.
  set (X := cut_node cf eC ch) in *.
  assert (NX : node_at t3 (pp ++ [degree P - 1]) = Some X).
  { rewrite node_at_app, U3. simpl. now rewrite C8. }
  assert (PO : path_ok t3 (pp ++ [degree P - 1])).
  { eapply node_at_path_ok; eauto. unfold X. destruct cf; simpl; unfold degree; simpl; lia. }
  destruct (reroot_path_preserves _ _ W3 D3 PO) as [t4 [E4 [W4 [D4 [L4 P4]]]]].
  destruct (reroot_path_shape pp t3 P' (degree P - 1) eP X U3 C8) as [R ER].
  assert (E4' : t4 = UNode (uname X) (ucom X) (replace_up (uslots X) (Some (eP, R)))) by congruence.
  exists t4, R. split; [|split; [|split; [|split]]].
  - unfold cut_and_root. rewrite Hn, U1. exact E4.
  - rewrite E4'. unfold X, cut_node. destruct cf; reflexivity.
  - exact W4.
  - rewrite L4. destruct U2 as [L _]. exact L.
  - etransitivity; [apply P4|]. destruct U2 as [_ [_ D]]. exact D.
Qed.
