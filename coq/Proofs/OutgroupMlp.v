(** C05 (iv), correctness of the longest-path search (max_length_path_spec):
    [mlp s = Some (p, l)]: [l] is the sum of the branch lengths along [p], [p] leads to a leaf
    (Proofs/OutgroupMidDist.v: mlp_leaf), and no leaf of [s] is deeper than [l]. *)
From Coq Require Import String ZArith QArith Bool Arith Lia List Permutation Setoid Morphisms.
From GT Require Import Base.UTree Spec.Obs Model.Reroot Model.Outgroup Spec.Unrooted
     Proofs.RerootBase Proofs.Reroot Proofs.Reorder
     Proofs.OutgroupBase Proofs.OutgroupCut Proofs.OutgroupKeep Proofs.OutgroupMidpoint Proofs.OutgroupMidDist.
Import ListNotations.
Local Close Scope Q_scope.
Local Arguments n_up : simpl never.

Definition qsum (l : list Q) : Q := fold_right Qplus 0%Q l.

Lemma qsum_app a b : (qsum (a ++ b) == qsum a + qsum b)%Q.
Proof. induction a; simpl; [ring|]. rewrite IHa. ring. Qed.

Lemma qltb_true a b : qltb a b = true -> (a < b)%Q.
Proof.
  unfold qltb. intros H. apply negb_true_iff in H. apply Qnot_le_lt. intros L.
  apply Qle_bool_iff in L. congruence.
Qed.
Lemma qltb_false a b : qltb a b = false -> (b <= a)%Q.
Proof. unfold qltb. intros H. apply negb_false_iff in H. now apply Qle_bool_iff. Qed.

(** what is known of the children *)
Definition mlp_child_ok (rec : utree -> option (list nat * Q)) (s : slot) : Prop :=
  match s with
  | Some (_, c) => forall p l, rec c = Some (p, l) ->
                               (l == qsum (map elen (path_edges c p)))%Q /\
                               Forall (fun x => (snd x <= l)%Q) (depths elen c)
  | None => True
  end.

Lemma mlp_go_value rec l : Forall (mlp_child_ok rec) l -> forall i best cur best' cur',
  mlp_go rec i l best cur = Some (best', cur') ->
  (forall j e c x, nth_error l j = Some (Some (e, c)) -> In x (depths elen c) ->
                   (elen e + snd x <= cur')%Q) /\
  (best <> [] -> (cur <= cur')%Q) /\
  ((best' = best /\ cur' = cur) \/
   exists j e c p l', nth_error l j = Some (Some (e, c)) /\ rec c = Some (p, l') /\
                      best' = (i + j) :: p /\ (cur' == l' + elen e)%Q).
Proof.
  induction 1 as [|s r Hs Hr IH]; intros i best cur best' cur' H.
  - simpl in H. inversion H; subst. split; [intros [|j] e c x Hj; discriminate|].
    split; [intros _; apply Qle_refl | now left].
  - destruct s as [[e c]|].
    + simpl in H. destruct (qeqb (elen e) nilv); [discriminate|].
      destruct (rec c) as [[p l']|] eqn:Ec; [|discriminate].
      destruct (Hs p l' Ec) as [Hsum Hmax].
      destruct (qltb cur (l' + elen e) || no_path best) eqn:Econd.
      * destruct (IH _ _ _ _ _ H) as [HB [HC HS]].
        assert (Hc1 : (l' + elen e <= cur')%Q) by (apply HC; discriminate).
        split; [|split].
        -- intros [|j] e0 c0 x Hj Hx; simpl in Hj.
           ++ inversion Hj; subst e0 c0. rewrite Forall_forall in Hmax. specialize (Hmax x Hx).
              eapply Qle_trans; [|exact Hc1]. rewrite (Qplus_comm l'). now apply Qplus_le_r.
           ++ eapply HB; eauto.
        -- intros Hb. apply orb_true_iff in Econd as [E|E].
           ++ apply qltb_true in E. eapply Qle_trans; [apply Qlt_le_weak; exact E | exact Hc1].
           ++ destruct best; [congruence|discriminate].
        -- right. destruct HS as [[-> ->]|(j&e0&c0&p0&l0&Hj&Hr0&Hb&Hc)].
           ++ exists 0, e, c, p, l'. rewrite Nat.add_0_r. repeat split; auto; try reflexivity.
           ++ exists (S j), e0, c0, p0, l0. simpl. replace (i + S j) with (S i + j) by lia. auto.
      * apply orb_false_iff in Econd as [E1 E2]. apply qltb_false in E1.
        destruct (IH _ _ _ _ _ H) as [HB [HC HS]].
        assert (Hb : best <> []) by (intros ->; discriminate).
        split; [|split].
        -- intros [|j] e0 c0 x Hj Hx; simpl in Hj.
           ++ inversion Hj; subst e0 c0. rewrite Forall_forall in Hmax. specialize (Hmax x Hx).
              eapply Qle_trans; [|apply HC; exact Hb]. eapply Qle_trans; [|exact E1].
              rewrite (Qplus_comm l'). now apply Qplus_le_r.
           ++ eapply HB; eauto.
        -- intros _. now apply HC.
        -- destruct HS as [HS|(j&e0&c0&p0&l0&Hj&Hr0&Hb0&Hc)]; [now left|right].
           exists (S j), e0, c0, p0, l0. simpl. replace (i + S j) with (S i + j) by lia. auto.
    + simpl in H. destruct (IH _ _ _ _ _ H) as [HB [HC HS]].
      split; [|split]; auto.
      * intros [|j] e0 c0 x Hj Hx; simpl in Hj; [discriminate|]. eapply HB; eauto.
      * destruct HS as [HS|(j&e0&c0&p0&l0&Hj&Hr0&Hb0&Hc)]; [now left|right].
        exists (S j), e0, c0, p0, l0. simpl. replace (i + S j) with (S i + j) by lia. auto.
Qed.

Theorem mlp_spec s : forall p l,
  mlp s = Some (p, l) ->
  (l == qsum (map elen (path_edges s p)))%Q /\
  Forall (fun x => (snd x <= l)%Q) (depths elen s).
Proof.
  induction s as [n c sl IH] using utree_ind'. intros p l H.
  rewrite mlp_unfold in H.
  assert (HC : Forall (mlp_child_ok mlp) sl).
  { rewrite Forall_forall in *. intros [[e ch]|] Hin; simpl; auto. exact (IH _ Hin). }
  destruct (mlp_go_value mlp sl HC 0 [] 0%Q p l H) as [HB [_ HS]].
  split.
  - destruct HS as [[-> ->]|(j&e&ch&p'&l'&Hj&Hr&Hb&Hc)]; [reflexivity|].
    simpl in Hb. subst p. simpl. rewrite Hj. simpl.
    rewrite Forall_forall in IH. destruct (IH _ (nth_error_In _ _ Hj) p' l' Hr) as [Hsum _].
    rewrite Hc, Hsum. ring.
  - rewrite depths_unfold. destruct (kids_of sl) as [|x K] eqn:EK.
    + constructor; [|constructor]. simpl.
      destruct HS as [[-> ->]|(j&e&ch&p'&l'&Hj&_&_&_)]; [apply Qle_refl|].
      exfalso. assert (In (e, ch) (kids_of sl)) by (apply kids_of_In; eapply nth_error_In; eauto).
      rewrite EK in H0. destruct H0.
    + rewrite <- EK. apply Forall_forall. intros y Hy. apply in_concat in Hy as [d [Hd Hy]].
      unfold kD in Hd. apply in_map_iff in Hd as [[e ch] [<- Hin]]. cbn [fst snd] in Hy.
      unfold shift in Hy. apply in_map_iff in Hy as [z [<- Hz]]. simpl.
      apply kids_of_In in Hin. destruct (In_nth_error _ _ Hin) as [j Hj].
      eapply HB; eauto.
Qed.

(** the leaf reached by a path is at the depth given by the branches of the path *)
Lemma depth_of_path w p : forall s b,
  node_at s p = Some b -> kids b = [] ->
  exists d, In (uname b, d) (depths w s) /\ (d == qsum (map w (path_edges s p)))%Q.
Proof.
  induction p as [|k r IH]; intros s b Hn Hb.
  - simpl in Hn. inversion Hn; subst. destruct b as [n c sl]. unfold kids in Hb. simpl in Hb.
    exists 0%Q. rewrite depths_unfold, Hb. simpl. split; [now left | reflexivity].
  - destruct s as [n c sl]. simpl in Hn.
    destruct (nth_error sl k) as [[[e ch]|]|] eqn:Ek; try discriminate.
    destruct (IH ch b Hn Hb) as [d [Hd Hs]].
    assert (Hin : In (e, ch) (kids_of sl)) by (apply kids_of_In; eapply nth_error_In; eauto).
    assert (NE : kids_of sl <> []) by (intros K; rewrite K in Hin; destruct Hin).
    exists (w e + d)%Q. split.
    + rewrite depths_node by exact NE. apply in_concat. exists (shift (w e) (depths w ch)). split.
      * unfold kD. apply in_map_iff. exists (e, ch). auto.
      * unfold shift. apply in_map_iff. exists (uname b, d). auto.
    + simpl. rewrite Ek. simpl. now rewrite Hs.
Qed.

Lemma path_edges_app p1 : forall s m p2,
  node_at s p1 = Some m -> path_edges s (p1 ++ p2) = path_edges s p1 ++ path_edges m p2.
Proof.
  induction p1 as [|k r IH]; intros s m p2 H.
  - simpl in H. inversion H; subst. reflexivity.
  - simpl in H. simpl. destruct (nth_error (uslots s) k) as [[[e c]|]|]; try discriminate.
    simpl. f_equal. now apply IH.
Qed.
