(** C16: RandomUniformBinaryTree, RandomYuleBinaryTree, RandomCaterpillarBinaryTree return,
    for every size from 3 tips on and every choice vector within bounds, a well-formed binary
    tree with the requested rootedness whose tips are exactly Tip0..Tip(n-1); smaller sizes. *)
From Coq Require Import String ZArith QArith Bool Arith Lia List Permutation.
From GT Require Import Base.UTree Spec.Obs Spec.GenShape Spec.Counting Model.Reroot Model.Rand2 Model.TreeGen
     Proofs.RerootBase Proofs.C05Main Proofs.SamplingBase Proofs.TreeGenNames Proofs.TreeGenGraft Proofs.TreeGenLoop.
Import ListNotations.
Local Close Scope Q_scope.
Local Arguments n_up : simpl never.

(** what the property asks of a generated tree with tips Tip0..Tip(n-1) *)
Definition good_tree (rooted : bool) (n : nat) (t : utree) : Prop :=
  wf t = true /\ binary rooted t = true /\ UTree.rooted t = rooted /\
  Permutation (leaves t) (map tip_name (seq 0 n)) /\ NoDup (leaves t) /\
  leaves t = tip_names t.

Lemma good_tree_intro rooted n t :
  wf t = true -> binary rooted t = true -> Permutation (tnames t) (map tip_name (seq 0 n)) ->
  good_tree rooted n t.
Proof.
  intros W B P.
  assert (D : degree t = if rooted then 2 else 3).
  { unfold binary in B. apply andb_true_iff in B as [B _]. now apply Nat.eqb_eq in B. }
  assert (L : leaves t = tip_names t) by (apply leaves_tip_names; auto; destruct rooted; lia).
  repeat split; auto.
  - unfold UTree.rooted. rewrite D. now destruct rooted.
  - now rewrite L, <- tnames_tip_names.
  - rewrite L, <- tnames_tip_names.
    eapply Permutation_NoDup; [symmetry; exact P|apply tip_names_NoDup].
Qed.

(** ** the common tail *)
Theorem close_state_ok rooted i st ls : 3 <= i -> inv rooted i st ->
  exists t, close_state rooted ls st = GOk t /\ good_tree rooted i t.
Proof.
  intros Hi [Hids Hm Htips Hshape Hasg Hlen].
  destruct st as [[t m] asg]. unfold st_tree, st_m, st_asg in *. cbn [fst snd] in *.
  unfold close_state. set (f := fun k => last_assign asg ls k nilv).
  unfold finish, shape in *. destruct rooted.
  - destruct Hshape as [W [D B]].
    eexists. split; [reflexivity|].
    apply good_tree_intro.
    + now rewrite set_lens_wf.
    + unfold binary. now rewrite set_lens_degree, D, set_lens_sub_all_bin, B.
    + now rewrite set_lens_tnames.
  - destruct Hshape as [e [c [-> [W [B D]]]]].
    assert (D3 : degree c = 3).
    { destruct D as [D|D]; auto. exfalso.
      rewrite eids_unfold, eids_sl_cons_some in Hids. unfold eids_sl, mu_sl in Hids. simpl in Hids.
      rewrite D in Hids. apply Permutation_length in Hids. rewrite seq_length in Hids. simpl in Hids.
      unfold unif_bound in Hm. lia. }
    rewrite set_lens_unfold. cbn [map].
    set (e' := mkE (f (eid e)) (esup e) (epv e) (ecom e)).
    assert (Wc : wf_sub (set_lens f c) = true) by now rewrite set_lens_wf_sub.
    assert (Bc : bin_sub (set_lens f c) = true) by now rewrite set_lens_bin_sub.
    assert (Dc : degree (set_lens f c) = 3) by now rewrite set_lens_degree.
    assert (Tc : tnames (set_lens f c) = tnames c) by apply set_lens_tnames.
    destruct (set_lens f c) as [n' c' sl'] eqn:Ec.
    unfold degree in Dc. simpl in Dc.
    rewrite (reroot_first_tip_root _ _ _ _ _ Dc).
    rewrite wf_sub_def in Wc. apply andb_true_iff in Wc as [U Wc]. apply Nat.eqb_eq in U.
    rewrite bin_sub_def in Bc. apply andb_true_iff in Bc as [_ Bc].
    eexists. split; [reflexivity|].
    apply good_tree_intro.
    + rewrite wf_def, n_up_replace_up, U. simpl. apply sub_all_replace_up; auto.
    + unfold binary, degree. simpl uslots. rewrite length_replace_up, Dc. simpl.
      apply sub_all_replace_up; auto.
    + unfold tnames in *. rewrite mu_unfold, length_replace_up, Dc. cbn [Nat.eqb app].
      etransitivity; [apply mu_sl_replace_up; lia|].
      rewrite mu_unfold in Tc. rewrite Dc in Tc. cbn [Nat.eqb app] in Tc.
      cbn [app]. rewrite Tc.
      etransitivity; [|exact Htips].
      rewrite !mu_unfold. cbn [length Nat.eqb]. rewrite mu_sl_cons_some.
      unfold mu_sl at 2. cbn [flat_map mu length Nat.eqb app]. rewrite !app_nil_r. reflexivity.
Qed.

(** ** bounds of the plans *)
Lemma plan_bounds_app a b : plan_bounds (a ++ b) = plan_bounds a ++ plan_bounds b.
Proof. unfold plan_bounds. apply flat_map_app. Qed.

Lemma plan_bounds_steps (f : nat -> nat) l :
  plan_bounds (flat_map (fun i => [DInt (f i); DFloat; DFloat; DFloat]) l) = map f l.
Proof. induction l as [|x l IH]; simpl; auto. now rewrite <- IH. Qed.

Lemma init_plan_bounds rooted : plan_bounds (init_plan rooted) = [].
Proof. now destruct rooted. Qed.

Lemma small_false n : 3 <= n -> Nat.ltb n 3 = false.
Proof. intros H. destruct (Nat.ltb_spec n 3); [lia|reflexivity]. Qed.

Lemma uniform_bounds_eq n rooted : 3 <= n ->
  uniform_bounds n rooted = map (unif_bound rooted) (seq 2 (n - 2)).
Proof.
  intros H. unfold uniform_bounds, uniform_plan. rewrite small_false by auto.
  now rewrite plan_bounds_app, init_plan_bounds, plan_bounds_steps.
Qed.

Lemma yule_bounds_eq n rooted : 3 <= n -> yule_bounds n rooted = seq 2 (n - 2).
Proof.
  intros H. unfold yule_bounds, yule_plan. rewrite small_false by auto.
  rewrite plan_bounds_app, init_plan_bounds, (plan_bounds_steps (fun i => i)). simpl. apply map_id.
Qed.

(** ** RandomUniformBinaryTree *)
Lemma unif_loop_inv rooted cs : forall i st, 2 <= i -> inv rooted i st ->
  in_bounds cs (map (unif_bound rooted) (seq i (length cs))) ->
  inv rooted (i + length cs) (unif_loop i cs st).
Proof.
  unfold in_bounds.
  induction cs as [|k cs IH]; intros i st Hi Hinv Hb; simpl.
  - now rewrite Nat.add_0_r.
  - simpl in Hb. inversion Hb; subst.
    replace (i + S (length cs)) with (S i + length cs) by lia.
    apply IH; [lia| |assumption].
    apply inv_step; auto. now rewrite (inv_m _ _ _ Hinv).
Qed.

Theorem uniform_tree_ok n rooted cs ls :
  3 <= n -> in_bounds cs (uniform_bounds n rooted) ->
  exists t, uniform_tree n rooted cs ls = GOk t /\ good_tree rooted n t.
Proof.
  intros Hn Hb. rewrite uniform_bounds_eq in Hb by auto.
  assert (L : length cs = n - 2).
  { apply in_bounds_length in Hb. now rewrite map_length, seq_length in Hb. }
  unfold uniform_tree.
  destruct (Nat.ltb_spec n 3); [lia|]. cbn [andb].
  rewrite L, Nat.eqb_refl. cbn [negb].
  assert (I : inv rooted (2 + length cs) (unif_loop 2 cs (init_state rooted))).
  { apply unif_loop_inv; [lia|apply inv_init|now rewrite L]. }
  replace (2 + length cs) with n in I by lia.
  apply close_state_ok; [lia|exact I].
Qed.

Theorem uniform_tree_small n rooted cs ls :
  n < 3 -> exists msg, uniform_tree n rooted cs ls = GErr msg.
Proof.
  unfold uniform_tree. intros H. destruct (Nat.ltb_spec n 3); [|lia]. destruct rooted; simpl; eauto.
Qed.

(** ** tip.br[0] is found *)
Definition tn_own := (fun (n : string) (d : nat) => if Nat.eqb d 1 then [n] else []).
Definition tn_h := (fun _ : einfo => @nil string).

Lemma find_tip_edge_unfold nm n c sl :
  find_tip_edge nm (UNode n c sl) =
  fold_right (fun s acc =>
                match s with
                | None => acc
                | Some (e, ch) =>
                  if is_tip ch && String.eqb (uname ch) nm then Some (eid e)
                  else match find_tip_edge nm ch with Some k => Some k | None => acc end
                end) None sl.
Proof. reflexivity. Qed.

Lemma find_tip_edge_spec nm t :
  (forall k, find_tip_edge nm t = Some k -> In k (eids t)) /\
  (In nm (mu_sl tn_own tn_h (uslots t)) -> exists k, find_tip_edge nm t = Some k).
Proof.
  induction t as [n c sl IH] using utree_ind'.
  rewrite find_tip_edge_unfold, eids_unfold. simpl uslots.
  induction IH as [|s r Hs Hr IHr]; cbn [fold_right].
  - split; [discriminate|intros []].
  - destruct IHr as [I1 I2]. destruct s as [[e ch]|].
    + rewrite eids_sl_cons_some, mu_sl_cons_some. destruct Hs as [H1 H2].
      destruct (is_tip ch && String.eqb (uname ch) nm) eqn:T.
      * split; [|eauto]. intros k Hk. inversion Hk; subst. apply in_or_app. left. now left.
      * destruct (find_tip_edge nm ch) as [k0|] eqn:F.
        -- split; [|eauto]. intros k Hk. inversion Hk; subst. apply in_or_app. left. right. now apply H1.
        -- split.
           ++ intros k Hk. apply in_or_app. right. now apply I1.
           ++ intros Hin. apply in_app_or in Hin as [Hin|Hin]; [|now apply I2].
              exfalso. unfold tn_h in Hin. cbn [app] in Hin.
              destruct ch as [n' c' sl']. rewrite mu_unfold in Hin.
              apply in_app_or in Hin as [Hin|Hin].
              ** unfold tn_own in Hin. unfold is_tip, degree in T. simpl in T.
                 destruct (Nat.eqb (length sl') 1); [|destruct Hin].
                 destruct Hin as [<-|[]]. rewrite String.eqb_refl in T. discriminate.
              ** destruct (H2 Hin) as [k Hk]. discriminate.
    + rewrite mu_sl_cons_none. split; auto.
Qed.

Lemma tip_br0_found rooted i st j : 2 <= i -> inv rooted i st -> j < i ->
  exists k, tip_br0 (tip_name j) (st_tree st) = Some k /\ k < st_m st.
Proof.
  intros Hi [Hids Hm Htips Hshape Hasg Hlen] Hj.
  assert (Hlt : forall k, In k (eids (st_tree st)) -> k < st_m st).
  { intros k Hk. eapply Permutation_in in Hk; [|exact Hids]. apply in_seq in Hk. lia. }
  assert (Hnm : In (tip_name j) (tnames (st_tree st))).
  { eapply Permutation_in; [symmetry; exact Htips|]. apply in_map. apply in_seq. lia. }
  unfold tip_br0, shape in *. destruct rooted.
  - destruct Hshape as [W [D B]].
    unfold is_tip. rewrite D. cbn [Nat.eqb andb].
    destruct (st_tree st) as [n c sl] eqn:Et. unfold degree in D. simpl in D.
    unfold tnames in Hnm. rewrite mu_unfold, D in Hnm. cbn [Nat.eqb app] in Hnm.
    destruct (find_tip_edge_spec (tip_name j) (UNode n c sl)) as [F1 F2].
    destruct (F2 Hnm) as [k Hk]. exists k. split; auto.
  - destruct Hshape as [e [c [Et [W [B D]]]]]. rewrite Et in *.
    unfold is_tip, degree. cbn [uslots length Nat.eqb andb uname].
    destruct (String.eqb (tip_name 0) (tip_name j)) eqn:E.
    + unfold first_edge_id. cbn [uslots]. eexists. split; [reflexivity|].
      apply Hlt. rewrite eids_unfold, eids_sl_cons_some. now left.
    + unfold tnames in Hnm. rewrite mu_unfold in Hnm. cbn [length Nat.eqb] in Hnm.
      destruct Hnm as [Hnm|Hnm]; [rewrite Hnm, String.eqb_refl in E; discriminate|].
      destruct (find_tip_edge_spec (tip_name j) (UNode (tip_name 0) [] [Some (e, c)])) as [F1 F2].
      destruct (F2 Hnm) as [k Hk]. exists k. split; auto.
Qed.

Lemma tip_step_inv rooted i st j : 2 <= i -> inv rooted i st -> j < i ->
  exists st', tip_step st i j = Some st' /\ inv rooted (S i) st'.
Proof.
  intros Hi Hinv Hj. destruct (tip_br0_found rooted i st j Hi Hinv Hj) as [k [Hk Hlt]].
  unfold tip_step. unfold st_tree in Hk. rewrite Hk. eexists. split; [reflexivity|].
  now apply inv_step.
Qed.

(** ** RandomYuleBinaryTree *)
Lemma yule_loop_inv rooted cs : forall i st, 2 <= i -> inv rooted i st ->
  in_bounds cs (seq i (length cs)) ->
  exists st', yule_loop i cs st = Some st' /\ inv rooted (i + length cs) st'.
Proof.
  unfold in_bounds.
  induction cs as [|j cs IH]; intros i st Hi Hinv Hb; simpl.
  - rewrite Nat.add_0_r. eauto.
  - simpl in Hb. inversion Hb; subst.
    destruct (tip_step_inv rooted i st j Hi Hinv) as [st1 [E1 I1]]; auto.
    rewrite E1. replace (i + S (length cs)) with (S i + length cs) by lia.
    apply IH; auto.
Qed.

Theorem yule_tree_ok n rooted cs ls :
  3 <= n -> in_bounds cs (yule_bounds n rooted) ->
  exists t, yule_tree n rooted cs ls = GOk t /\ good_tree rooted n t.
Proof.
  intros Hn Hb. rewrite yule_bounds_eq in Hb by auto.
  assert (L : length cs = n - 2).
  { apply in_bounds_length in Hb. now rewrite seq_length in Hb. }
  unfold yule_tree.
  destruct (Nat.ltb_spec n 3); [lia|]. cbn [andb].
  rewrite L, Nat.eqb_refl. cbn [negb].
  destruct (yule_loop_inv rooted cs 2 (init_state rooted)) as [st [E I]];
    [lia|apply inv_init|now rewrite L|].
  rewrite E. replace (2 + length cs) with n in I by lia.
  apply close_state_ok; [lia|exact I].
Qed.

Theorem yule_tree_small n rooted cs ls :
  n < 3 -> exists msg, yule_tree n rooted cs ls = GErr msg.
Proof.
  unfold yule_tree. intros H. destruct (Nat.ltb_spec n 3); [|lia]. destruct rooted; simpl; eauto.
Qed.

(** ** RandomCaterpillarBinaryTree *)
Lemma cat_loop_inv rooted fuel : forall i st, 2 <= i -> inv rooted i st ->
  exists st', cat_loop fuel i st = Some st' /\ inv rooted (i + fuel) st'.
Proof.
  induction fuel as [|f IH]; intros i st Hi Hinv; simpl.
  - rewrite Nat.add_0_r. eauto.
  - destruct (tip_step_inv rooted i st (i - 1) Hi Hinv) as [st1 [E1 I1]]; [lia|].
    rewrite E1. replace (i + S f) with (S i + f) by lia. apply IH; auto.
Qed.

Theorem caterpillar_tree_ok n rooted ls :
  3 <= n -> exists t, caterpillar_tree n rooted ls = GOk t /\ good_tree rooted n t.
Proof.
  intros Hn. unfold caterpillar_tree.
  destruct (Nat.ltb_spec n 3); [lia|]. cbn [andb].
  destruct (cat_loop_inv rooted (n - 2) 2 (init_state rooted)) as [st [E I]]; [lia|apply inv_init|].
  rewrite E. replace (2 + (n - 2)) with n in I by lia.
  apply close_state_ok; [lia|exact I].
Qed.

Theorem caterpillar_tree_small n rooted ls :
  n < 3 -> exists msg, caterpillar_tree n rooted ls = GErr msg.
Proof.
  unfold caterpillar_tree. intros H. destruct (Nat.ltb_spec n 3); [|lia]. destruct rooted; simpl; eauto.
Qed.

(** ** two tips unrooted: a clean rejection (the size test comes first) *)
Theorem unrooted_two_tips_rejected cs ls :
  uniform_tree 2 false cs ls = GErr err_lt3u /\ yule_tree 2 false cs ls = GErr err_lt3u /\
  caterpillar_tree 2 false ls = GErr err_lt3u.
Proof. repeat split. Qed.
