(** The Newick parser of Model/Newick.v never runs out of its fuel [S (length s)]: every
    iteration of parseIter consumes at least one character or stops. *)
From Coq Require Import String Ascii ZArith QArith Bool Arith Lia List.
From GT Require Import Base.UTree Model.Newick Proofs.NewickLex.
Import ListNotations.
Local Close Scope Q_scope.
Local Open Scope string_scope.

Section Fuel.
  Variable numeric : string -> bool.
  Variable parse_num : string -> option Q.

  Notation step := (step numeric parse_num).
  Notation parse_iter := (parse_iter numeric parse_num).

  Lemma step_length : forall st s st' r,
      step st s = Cont st' r -> String.length r < String.length s.
  Proof.
    intros st s st' r H. unfold Newick.step in H.
    destruct (scan_iw numeric s) as [[[tok lit] r0] pre] eqn:E.
    destruct tok; try congruence;
      try (pose proof (scan_iw_length _ _ _ _ _ _ E ltac:(discriminate)) as Hlen).
    - (* ILLEGAL *) inversion H; subst; assumption.
    - (* EOF *) repeat break_match_hyp; discriminate.
    - (* WS *) inversion H; subst; assumption.
    - (* IDENT *)
      unfold with_num in H.
      repeat break_match_hyp; try discriminate; inversion H; subst; assumption.
    - (* NUMERIC *)
      unfold with_num in H.
      repeat break_match_hyp; try discriminate; inversion H; subst; assumption.
    - (* OPENPAR *)
      repeat break_match_hyp; try discriminate; inversion H; subst; assumption.
    - (* CLOSEPAR *)
      repeat break_match_hyp; try discriminate; inversion H; subst; assumption.
    - (* STARTLEN *)
      destruct (scan_iw numeric r0) as [[[tok2 lit2] r2] pre2] eqn:E2.
      pose proof (scan_iw_length_le _ _ _ _ _ _ E2) as Hle.
      unfold with_num in H.
      repeat break_match_hyp; try discriminate; inversion H; subst; lia.
    - (* OPENBRACK *)
      destruct (consume_comment numeric (S (String.length r0)) "" r0) as [c r'| |] eqn:Ec; try discriminate.
      pose proof (consume_length _ _ _ _ _ _ Ec) as Hc.
      repeat break_match_hyp; try discriminate; inversion H; subst; lia.
    - (* NEWSIBLING *)
      repeat break_match_hyp; try discriminate; inversion H; subst; assumption.
    - (* EOT *) repeat break_match_hyp; discriminate.
  Qed.

  Lemma step_no_fuel : forall st s, step st s <> Stop IFuel.
  Proof.
    intros st s H. unfold Newick.step in H.
    destruct (scan_iw numeric s) as [[[tok lit] r0] pre] eqn:E.
    destruct tok; try discriminate; unfold with_num in H.
    - repeat break_match_hyp; discriminate.
    - repeat break_match_hyp; discriminate.
    - repeat break_match_hyp; discriminate.
    - repeat break_match_hyp; discriminate.
    - repeat break_match_hyp; discriminate.
    - destruct (scan_iw numeric r0) as [[[tok2 lit2] r2] pre2] eqn:E2.
      repeat break_match_hyp; discriminate.
    - destruct (consume_comment numeric (S (String.length r0)) "" r0) as [c r'| |] eqn:Ec.
      + repeat break_match_hyp; discriminate.
      + discriminate.
      + exfalso. eapply consume_no_fuel; [|exact Ec]. lia.
    - repeat break_match_hyp; discriminate.
    - repeat break_match_hyp; discriminate.
  Qed.

  Lemma parse_iter_no_fuel : forall fuel st s,
      String.length s < fuel -> parse_iter fuel st s <> IFuel.
  Proof.
    induction fuel; intros st s Hlt; [lia|]. simpl.
    destruct (step st s) as [st' r|x] eqn:E.
    - apply IHfuel. apply step_length in E. lia.
    - intro Hx. subst. eapply step_no_fuel; eassumption.
  Qed.

  (** more fuel does not change a result *)
  Lemma parse_iter_mono : forall fuel st s x,
      parse_iter fuel st s = x -> x <> IFuel -> forall k, parse_iter (fuel + k) st s = x.
  Proof.
    induction fuel; intros st s x H Hx k; simpl in H.
    - congruence.
    - simpl. destruct (step st s) as [st' r|y]; auto.
  Qed.

  Lemma parse_iter_enough : forall fuel st s,
      String.length s < fuel -> parse_iter fuel st s = parse_iter (S (String.length s)) st s.
  Proof.
    intros fuel st s Hlt.
    replace fuel with (S (String.length s) + (fuel - S (String.length s))) by lia.
    apply parse_iter_mono; [reflexivity|]. apply parse_iter_no_fuel. lia.
  Qed.

  Theorem parse_raw_no_fuel : forall s, parse_raw numeric parse_num s <> POutOfFuel.
  Proof.
    intros s. unfold parse_raw, parse_fuel.
    destruct (scan_iw numeric s) as [[[tok lit] r] pre] eqn:E.
    pose proof (scan_iw_spec _ _ _ _ _ _ E) as [Hs Hpre].
    assert (Hiter : forall pre1, String.length pre1 <= String.length s ->
              match parse_iter (S (String.length s)) st0 pre1 with
              | IErr m => PErr m
              | IRet st rest =>
                if negb (lvl st =? 0)%Z then PErr "newick error : mismatched parenthesis after parsing"
                else let '(tok3, _, _, _) := scan_iw numeric rest in
                     if negb (token_eqb tok3 EOT) then PErr "found"
                     else match final_tree st with
                          | Some t => POk (trim_tips t)
                          | None => PErr "model: no root"
                          end
              | IFuel => POutOfFuel
              end <> POutOfFuel).
    { intros pre1 Hle.
      pose proof (parse_iter_no_fuel (S (String.length s)) st0 pre1 ltac:(lia)) as Hnf.
      destruct (parse_iter (S (String.length s)) st0 pre1); try congruence.
      repeat break_match; discriminate. }
    destruct tok;
      try (cbv beta iota; destruct (negb (token_eqb _ OPENPAR)); [discriminate|apply Hiter; assumption]).
    (* OPENBRACK *)
    destruct (consume_comment numeric (S (String.length r)) "" r) as [c r'| |] eqn:Ec.
    - destruct (scan_iw numeric r') as [[[tok2 lit2] r2] pre2] eqn:E2.
      destruct (negb (token_eqb tok2 OPENPAR)); [discriminate|]. apply Hiter.
      pose proof (consume_length _ _ _ _ _ _ Ec).
      pose proof (scan_iw_spec _ _ _ _ _ _ E2) as [_ Hp2].
      pose proof (scan_length_le _ _ _ _ _ _ Hs). lia.
    - discriminate.
    - exfalso. eapply consume_no_fuel; [|exact Ec]. lia.
  Qed.

  Theorem parse_no_fuel : forall s, parse numeric parse_num s <> POutOfFuel.
  Proof. intros s. unfold parse. apply parse_raw_no_fuel. Qed.
End Fuel.
