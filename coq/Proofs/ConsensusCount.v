(** C09, counting: what AddEdgeCount leaves in the (association-list) index after all the branches
    of all the trees went through it: one entry per bipartition, holding the number of branches
    that define it and the sum of their lengths.  HashEquals (bitset.EqualOrComplement) is an
    equivalence on all keys, so no hypothesis on the keys is needed here. *)
From Coq Require Import String NArith ZArith QArith Bool Arith Lia List Permutation Setoid.
From GT Require Import Base.UTree Spec.Obs Model.Reroot Model.Index Model.HashMap Model.EdgeIndex
     Model.Compare Model.Consensus Proofs.IndexSplit Proofs.CompareBase.
Import ListNotations.
Local Close Scope Q_scope.

(** * HashEquals is an equivalence *)
Lemma ekey_eqb_refl k : ekey_eqb k k = true.
Proof. unfold ekey_eqb, hash_equals. apply eoc_iff. now left. Qed.
Lemma ekey_eqb_sym a b : ekey_eqb a b = true -> ekey_eqb b a = true.
Proof. apply eoc_sym. Qed.
Lemma ekey_eqb_trans a b c : ekey_eqb a b = true -> ekey_eqb b c = true -> ekey_eqb a c = true.
Proof. apply eoc_trans. Qed.
Lemma ekey_eqb_sym_eq a b : ekey_eqb a b = ekey_eqb b a.
Proof.
  destruct (ekey_eqb a b) eqn:E1, (ekey_eqb b a) eqn:E2; auto.
  - apply ekey_eqb_sym in E1. congruence.
  - apply ekey_eqb_sym in E2. congruence.
Qed.
Lemma ekey_eqb_class a b c : ekey_eqb a b = true -> ekey_eqb c a = ekey_eqb c b.
Proof.
  intros H. destruct (ekey_eqb c a) eqn:E1, (ekey_eqb c b) eqn:E2; auto.
  - rewrite (ekey_eqb_trans _ _ _ E1 H) in E2. discriminate.
  - rewrite (ekey_eqb_trans _ _ _ E2 (ekey_eqb_sym _ _ H)) in E1. discriminate.
Qed.

(** * number of branches, and sum of the lengths, of the bipartition of [k] in a list of branches *)
Definition class_count (k : ekey) (ks : list ekey) : Z := count_if (fun k' => ekey_eqb k' k) ks.
Definition class_len (k : ekey) (ks : list ekey) : Q :=
  fold_right Qplus 0%Q (map ek_len (filter (fun k' => ekey_eqb k' k) ks)).

Lemma class_count_app k l1 l2 : class_count k (l1 ++ l2) = (class_count k l1 + class_count k l2)%Z.
Proof. unfold class_count, count_if. rewrite filter_app, app_length. lia. Qed.

Lemma class_len_app k l1 l2 : (class_len k (l1 ++ l2) == class_len k l1 + class_len k l2)%Q.
Proof.
  unfold class_len. rewrite filter_app, map_app.
  induction (map ek_len (filter (fun k' => ekey_eqb k' k) l1)) as [|x r IH]; simpl.
  - now rewrite Qplus_0_l.
  - rewrite IH. now rewrite Qplus_assoc.
Qed.

Lemma class_count_eq k k' ks : ekey_eqb k k' = true -> class_count k ks = class_count k' ks.
Proof.
  intros H. unfold class_count, count_if. f_equal. f_equal. apply filter_ext_in'. intros x _. now apply ekey_eqb_class.
Qed.

(** * the association list after a sequence of AddEdgeCount *)
Definition add_list (a : aindex) (ks : list ekey) : aindex :=
  fold_left (fun a k => match ai_add a k with Some a' => a' | None => a end) ks a.

Lemma add_all_assoc ks : forall a, add_all aindex ai_add a ks = Some (add_list a ks).
Proof.
  induction ks as [|k r IH]; intros a; simpl; auto.
  unfold ai_add at 1 3. destruct (assoc_value ekey einfo_v ekey_eqb a k) as [[c l]|]; apply IH.
Qed.

(** invariant: [done] = the branches already added *)
Record inv (a : aindex) (done : list ekey) : Prop := mkInv {
  inv_val : forall k c l, In (k, (c, l)) a -> c = class_count k done /\ (l == class_len k done)%Q;
  inv_all : forall k', In k' done -> exists kv, In kv a /\ ekey_eqb k' (fst kv) = true;
  inv_sep : forall pre k v post, a = pre ++ (k, v) :: post ->
                                 forall kv, In kv (pre ++ post) -> ekey_eqb k (fst kv) = false
}.

Lemma bucket_find_split (b : ekey) (a : aindex) kv :
  bucket_find ekey einfo_v ekey_eqb b a = Some kv ->
  exists pre post, a = pre ++ kv :: post /\ ekey_eqb b (fst kv) = true /\
                   (forall x, In x pre -> ekey_eqb b (fst x) = false).
Proof.
  unfold bucket_find. induction a as [|x r IH]; simpl; [discriminate|].
  destruct (ekey_eqb b (fst x)) eqn:E.
  - intros H. inversion H; subst. exists [], r. repeat split; auto. intros ? [].
  - intros H. destruct (IH H) as (pre & post & -> & E' & F). exists (x :: pre), post. repeat split; auto.
    intros y [<-|Hy]; auto.
Qed.

Lemma bucket_find_none (b : ekey) (a : aindex) :
  bucket_find ekey einfo_v ekey_eqb b a = None -> forall x, In x a -> ekey_eqb b (fst x) = false.
Proof.
  unfold bucket_find. intros H x Hx. destruct (ekey_eqb b (fst x)) eqn:E; auto.
  assert (N := find_none _ _ H x Hx). simpl in N. congruence.
Qed.

Lemma bucket_set_split (b : ekey) v' pre k v post :
  (forall x, In x pre -> ekey_eqb b (fst x) = false) -> ekey_eqb b k = true ->
  bucket_set ekey einfo_v ekey_eqb b v' (pre ++ (k, v) :: post) = Some (pre ++ (k, v') :: post).
Proof.
  induction pre as [|[k0 v0] r IH]; simpl; intros F E.
  - now rewrite E.
  - pose proof (F (k0, v0) (or_introl eq_refl)) as E0. simpl in E0. rewrite E0.
    rewrite IH; auto.
Qed.

Lemma inv_step a done b : inv a done -> inv (add_list a [b]) (done ++ [b]).
Proof.
  intros [Hv Ha Hs]. unfold add_list. simpl. unfold ai_add, assoc_value.
  destruct (bucket_find ekey einfo_v ekey_eqb b a) as [[k [c l]]|] eqn:F.
  - (* the bipartition is already there: its entry is updated in place *)
    destruct (bucket_find_split b a _ F) as (pre & post & -> & E & Fpre). simpl in E. simpl snd.
    unfold assoc_put. rewrite (bucket_set_split b _ pre k (c, l) post Fpre E).
    assert (Hk : In (k, (c, l)) (pre ++ (k, (c, l)) :: post)) by (apply in_or_app; right; now left).
    destruct (Hv _ _ _ Hk) as [Ec El].
    assert (Others : forall kv, In kv (pre ++ post) -> ekey_eqb b (fst kv) = false).
    { intros kv Hkv. destruct (ekey_eqb b (fst kv)) eqn:X; auto.
      pose proof (Hs pre k (c, l) post eq_refl kv Hkv) as N.
      rewrite (ekey_eqb_trans _ _ _ (ekey_eqb_sym _ _ E) X) in N. discriminate. }
    constructor.
    + intros k1 c1 l1 Hin. rewrite class_count_app, class_len_app.
      unfold class_count at 2, class_len at 2. simpl. rewrite count_if_cons, count_if_nil.
      apply in_app_or in Hin. destruct Hin as [Hin|[Hin|Hin]].
      * assert (In (k1, (c1, l1)) (pre ++ post)) by (apply in_or_app; now left).
        pose proof (Others _ H) as Eb. simpl in Eb. rewrite Eb. simpl.
        destruct (Hv k1 c1 l1) as [A B]; [apply in_or_app; now left|].
        split; [lia|]. rewrite B. now rewrite Qplus_0_r.
      * inversion Hin; subst. rewrite E. simpl. split; [lia|]. rewrite El. now rewrite Qplus_0_r.
      * assert (In (k1, (c1, l1)) (pre ++ post)) by (apply in_or_app; now right).
        pose proof (Others _ H) as Eb. simpl in Eb. rewrite Eb. simpl.
        destruct (Hv k1 c1 l1) as [A B]; [apply in_or_app; right; now right|].
        split; [lia|]. rewrite B. now rewrite Qplus_0_r.
    + intros k' Hk'. apply in_app_or in Hk'. destruct Hk' as [Hk'|[<-|[]]].
      * destruct (Ha k' Hk') as (kv & Hkv & Ekv). apply in_app_or in Hkv. destruct Hkv as [Hkv|[<-|Hkv]].
        -- exists kv. split; auto. apply in_or_app. now left.
        -- exists (k, ((c + 1)%Z, (l + ek_len b)%Q)). split; auto. apply in_or_app. right. now left.
        -- exists kv. split; auto. apply in_or_app. right. now right.
      * exists (k, ((c + 1)%Z, (l + ek_len b)%Q)). split; auto. apply in_or_app. right. now left.
    + intros pre' k2 v2 post' Eq kv Hkv.
      (* same keys, in the same positions, as before *)
      assert (Keys : map fst (pre' ++ (k2, v2) :: post') = map fst (pre ++ (k, (c, l)) :: post)).
      { rewrite <- Eq. rewrite !map_app. reflexivity. }
      symmetry in Keys. rewrite (map_app fst pre') in Keys. simpl in Keys.
      (* rebuild a decomposition of the old list with the same keys *)
      assert (D : exists pre0 v0 post0, pre ++ (k, (c, l)) :: post = pre0 ++ (k2, v0) :: post0 /\
                                        map fst pre0 = map fst pre' /\ map fst post0 = map fst post').
      { clear - Keys. revert pre' Keys. generalize (pre ++ (k, (c, l)) :: post). intros L.
        induction L as [|x L IH]; intros pre' Keys.
        - destruct pre'; discriminate.
        - destruct pre' as [|y pre']; simpl in Keys.
          + inversion Keys. destruct x as [kx vx]. simpl in *. subst.
            exists [], vx, L. repeat split; auto.
          + inversion Keys. destruct (IH pre' H1) as (pre0 & v0 & post0 & E & A & B).
            exists (x :: pre0), v0, post0. repeat split; simpl; try congruence. }
      destruct D as (pre0 & v0 & post0 & E0 & A & B).
      assert (exists kv0, In kv0 (pre0 ++ post0) /\ fst kv0 = fst kv).
      { assert (In (fst kv) (map fst (pre' ++ post'))) by (apply in_map; auto).
        rewrite map_app, <- A, <- B, <- map_app in H. apply in_map_iff in H. destruct H as (kv0 & ? & ?). eauto. }
      destruct H as (kv0 & Hkv0 & <-). apply (Hs pre0 k2 v0 post0 E0 kv0 Hkv0).
  - (* a new bipartition: appended *)
    pose proof (bucket_find_none b a F) as Fn.
    rewrite assoc_put_fresh by exact Fn.
    assert (Z0 : class_count b done = 0%Z /\ class_len b done = 0%Q).
    { assert (N : filter (fun k' => ekey_eqb k' b) done = []).
      { destruct (filter (fun k' => ekey_eqb k' b) done) as [|x r] eqn:Ef; auto. exfalso.
        assert (Hx : In x (filter (fun k' => ekey_eqb k' b) done)) by (rewrite Ef; now left).
        apply filter_In in Hx. destruct Hx as [Hx Ex].
        destruct (Ha x Hx) as (kv & Hkv & Ekv).
        pose proof (Fn kv Hkv) as N. rewrite (ekey_eqb_trans _ _ _ (ekey_eqb_sym _ _ Ex) Ekv) in N. discriminate. }
      unfold class_count, class_len, count_if. rewrite N. auto. }
    destruct Z0 as [Zc Zl].
    constructor.
    + intros k1 c1 l1 Hin. rewrite class_count_app, class_len_app.
      unfold class_count at 2, class_len at 2. simpl. rewrite count_if_cons, count_if_nil.
      apply in_app_or in Hin. destruct Hin as [Hin|[Hin|[]]].
      * pose proof (Fn _ Hin) as Eb. simpl in Eb. rewrite Eb. simpl.
        destruct (Hv _ _ _ Hin) as [A B]. split; [lia|]. rewrite B. now rewrite Qplus_0_r.
      * inversion Hin; subst. rewrite ekey_eqb_refl. simpl. rewrite Zc, Zl. split; [lia|].
        now rewrite Qplus_0_l, Qplus_0_r.
    + intros k' Hk'. apply in_app_or in Hk'. destruct Hk' as [Hk'|[<-|[]]].
      * destruct (Ha k' Hk') as (kv & Hkv & Ekv). exists kv. split; auto. apply in_or_app. now left.
      * exists (b, (1%Z, ek_len b)). split; [apply in_or_app; right; now left|]. apply ekey_eqb_refl.
    + intros pre' k2 v2 post' Eq kv Hkv.
      destruct post' as [|p post'] using rev_ind.
      * (* the new entry is the one singled out *)
        apply app_inj_tail in Eq. destruct Eq as [-> Eq]. inversion Eq; subst.
        rewrite app_nil_r in Hkv. apply Fn. exact Hkv.
      * clear IHpost'. rewrite app_comm_cons, app_assoc in Eq. apply app_inj_tail in Eq. destruct Eq as [Eq Ep]. subst p.
        apply in_app_or in Hkv. destruct Hkv as [Hkv|Hkv].
        -- apply (Hs pre' k2 v2 post' Eq kv). apply in_or_app. now left.
        -- apply in_app_or in Hkv. destruct Hkv as [Hkv|[<-|[]]].
           ++ apply (Hs pre' k2 v2 post' Eq kv). apply in_or_app. now right.
           ++ simpl. rewrite ekey_eqb_sym_eq. apply (Fn (k2, v2)). rewrite Eq. apply in_or_app. right. now left.
Qed.

Lemma inv_nil : inv [] [].
Proof.
  constructor.
  - intros ? ? ? [].
  - intros ? [].
  - intros pre k v post E. destruct pre; discriminate.
Qed.

Lemma add_list_app a l1 l2 : add_list a (l1 ++ l2) = add_list (add_list a l1) l2.
Proof. unfold add_list. apply fold_left_app. Qed.

Lemma inv_add_list ks : forall a done, inv a done -> inv (add_list a ks) (done ++ ks).
Proof.
  induction ks as [|k r IH]; intros a done I.
  - simpl. now rewrite app_nil_r.
  - change (k :: r) with ([k] ++ r). rewrite add_list_app, app_assoc. apply IH. now apply inv_step.
Qed.

(** after all the branches [ks] went through AddEdgeCount (from an empty index): every entry
    holds the number of branches of its bipartition and the sum of their lengths; every branch
    has its entry; distinct entries are distinct bipartitions *)
Theorem add_all_counts ks :
  exists a, add_all aindex ai_add [] ks = Some a /\
            (forall k c l, In (k, (c, l)) a -> c = class_count k ks /\ (l == class_len k ks)%Q) /\
            (forall k', In k' ks -> exists kv, In kv a /\ ekey_eqb k' (fst kv) = true) /\
            (forall pre k v post, a = pre ++ (k, v) :: post ->
                                  forall kv, In kv (pre ++ post) -> ekey_eqb k (fst kv) = false).
Proof.
  exists (add_list [] ks). split; [apply add_all_assoc|].
  destruct (inv_add_list ks [] [] inv_nil) as [A B C]. simpl in *. auto.
Qed.

(** * the counts do not depend on the order of the branches (hence of the trees) *)
Theorem class_count_perm k ks ks' : Permutation ks ks' -> class_count k ks = class_count k ks'.
Proof.
  intros P. unfold class_count, count_if. f_equal. apply Permutation_length.
  induction P; simpl; auto.
  - destruct (ekey_eqb x k); auto.
  - destruct (ekey_eqb x k), (ekey_eqb y k); auto. apply perm_swap.
  - eapply Permutation_trans; eauto.
Qed.

Theorem class_len_perm k ks ks' : Permutation ks ks' -> (class_len k ks == class_len k ks')%Q.
Proof.
  intros P. unfold class_len. induction P; simpl.
  - reflexivity.
  - destruct (ekey_eqb x k); simpl; auto. now rewrite IHP.
  - destruct (ekey_eqb x k), (ekey_eqb y k); simpl; try reflexivity.
    rewrite !Qplus_assoc. now rewrite (Qplus_comm (ek_len y)).
  - now rewrite IHP1.
Qed.
