(** Nexus writer then parser on concrete tree lists, with the Newick writer/parser of C01:
    on one common taxon set the trees come back; on differing taxon sets the parser rejects
    the writer's output (open finding C13-nexus-taxa-union). *)
From Coq Require Import String Ascii ZArith QArith Bool Arith List.
From GT Require Import Base.UTree Spec.NewickSpec Model.Newick Model.NewickNum Model.MultiTree Model.Nexus
     Proofs.MultiTreeSkip.
Import ListNotations.
Local Close Scope Q_scope.
Local Open Scope string_scope.

Definition wC : utree -> string := Newick.write fmt_go.
Definition tip (n : string) : slot := Some (e0, UNode n [] [None]).
Definition tipl (n : string) (l : Q) : slot := Some (mkE l nilv nilv [], UNode n [] [None]).

Definition t_abc : utree := UNode "" [] [tipl "a" (1#2); tip "b"; tipl "c" 2].
Definition t_ab : utree := UNode "" [] [tip "a"; tip "b"].
Definition t_cab : utree :=
  UNode "" [] [tip "c"; Some (mkE 1 (3#4) nilv [], UNode "" [] [None; tip "a"; tip "b"])].

(** the trees a Nexus text delivers, as Newick texts, or the error *)
Definition read_back (text : string) : list string + string :=
  match nexus_parse np_c01 text with
  | Nexus.POk d => inl (map (fun p => wC (snd p)) (doc_trees d))
  | Nexus.PErr e => inr e
  | Nexus.PPanic => inr "panic"
  | Nexus.POutOfFuel => inr "out of fuel"
  end.

Lemma nexus_round_trip_same_taxa : forall translate : bool,
    read_back (write_nexus wC translate [(0, t_abc); (1, t_cab)]) = inl [wC t_abc; wC t_cab].
Proof. intros [|]; vm_compute; reflexivity. Qed.

Lemma nexus_round_trip_differing_taxa : forall translate : bool,
    read_back (write_nexus wC translate [(0, t_abc); (1, t_ab)]) =
    inr "Some tax names defined in TAXLABELS are not present in the tree".
Proof. intros [|]; vm_compute; reflexivity. Qed.

Lemma tree_nexus_round_trip : read_back (tree_nexus wC t_cab) = inl [wC t_cab].
Proof. vm_compute. reflexivity. Qed.
