(** C05: the whole oracle of Judge/C05.v accepts the model, operation by operation.
    reroot / unroot: [same_tree_obs] and the index clause; rotate / sort: [same_tree_obs]
    (Proofs/OracleC05.v); outgroup without / with removal and midpoint: Proofs/OracleOut.v,
    OracleRm.v, OracleMid.v.  The index clause is checked on the tables that ReinitIndexes
    computes on the result (C04's [index_tables], [tables_obs]). *)
From Coq Require Import String ZArith QArith Bool Arith Lia List Permutation.
From GT Require Import Base.Sexp Base.UTree Spec.Obs Model.Reroot Model.Index Model.Outgroup Spec.Unrooted
     Judge.Common Judge.C05
     Proofs.Reroot Proofs.Unroot Proofs.C05Main Proofs.IndexSplit Proofs.IndexEditOps
     Proofs.OutgroupKeep Proofs.OracleC05 Proofs.OracleIndex.
Import ListNotations.
Local Close Scope Q_scope.

Theorem oracle_reroot_accepts t i t' :
  wf t = true -> 2 <= degree t -> NoDup (leaves t) -> reroot t i = Ok t' ->
  same_tree_obs t t' = None /\
  (let '(idx, st, bs) := tables_obs t' in index_ok_data t' idx st bs = None).
Proof.
  intros Hwf Hd ND H. split; [eapply oracle_accepts_reroot; eauto|].
  destruct (reroot_all t i t' Hwf Hd H) as (W & D & L & _).
  apply index_ok_tables. repeat split; auto. eapply Permutation_NoDup; [symmetry; exact L | exact ND].
Qed.

Theorem oracle_unroot_accepts t :
  wf t = true -> 2 <= degree t -> (rooted t = true -> root_has_inner_child t = true) -> NoDup (leaves t) ->
  same_tree_obs t (unroot t) = None /\
  (let '(idx, st, bs) := tables_obs (unroot t) in index_ok_data (unroot t) idx st bs = None).
Proof.
  intros Hwf Hd Hi ND. split; [now apply oracle_accepts_unroot|].
  destruct (unroot_stage t Hwf Hd Hi) as [W [D [L _]]].
  apply index_ok_tables. repeat split; auto. eapply Permutation_NoDup; [symmetry; exact L | exact ND].
Qed.
