(** Heap model: the refinement square of GraftTipOnEdge: grafting a new tip on the k-th
    branch of the heap is [ugraft name k] on the tree. *)
From Coq Require Import String ZArith QArith Bool Arith Lia Permutation List.
From GT Require Import Base.UTree Model.Reroot Model.TreeGen Model.Heap Model.HeapSpec Proofs.Enum Proofs.HeapBase Proofs.HeapRep
     Proofs.HeapGood Proofs.HeapGoodRep Proofs.HeapRerootL Proofs.HeapReorder Proofs.HeapUnrootL Proofs.HeapUnroot
     Proofs.HeapCtx Proofs.HeapGraft.
Import ListNotations.
Local Close Scope Q_scope.

Lemma nth_ext_map {A B} (f g : A -> B) (l : list A) :
  (forall j a, nth_error l j = Some a -> f a = g a) -> map f l = map g l.
Proof.
  induction l as [|a l IH]; intros H; [reflexivity|]. cbn. f_equal; [exact (H 0 a eq_refl)|].
  apply IH. intros j b Hj. exact (H (S j) b Hj).
Qed.

Section LG.
  Variables (n nn ne ne2 : nat) (name : string) (e : nat).

  Definition gslot (f : ltree -> ltree) (s : lslot) : lslot :=
    match s with
    | Some (e', ei, ch) => if Nat.eqb e' e then Some (e', halve ei, graft_wrap n nn ne ne2 name ei ch)
                           else Some (e', ei, f ch)
    | None => None
    end.

  Fixpoint lgraft (lt : ltree) : ltree :=
    match lt with
    | LNode i nm cm sl =>
      LNode i nm cm (map (fun s : lslot => match s with
                        | Some (e', ei, ch) => if Nat.eqb e' e then Some (e', halve ei, graft_wrap n nn ne ne2 name ei ch)
                                               else Some (e', ei, lgraft ch)
                        | None => None end) sl)
    end.

  Lemma lgraft_eq i nm cm sl : lgraft (LNode i nm cm sl) = LNode i nm cm (map (gslot lgraft) sl).
  Proof. reflexivity. Qed.

  Lemma lgraft_notin : forall lt, ~ In e (leids lt) -> lgraft lt = lt.
  Proof.
    induction lt as [i nm cm sl IH] using ltree_ind'. intros Hn. rewrite lgraft_eq. f_equal.
    rewrite leids_eq in Hn. fold (seids sl) in Hn.
    induction IH as [|s sl Hs _ IHsl]; [reflexivity|]. cbn [map]. f_equal.
    - destruct s as [[[e' ei] ch]|]; [|reflexivity]. cbn [gslot].
      destruct (Nat.eqb_spec e' e) as [->|_]; [exfalso; apply Hn; left; reflexivity|].
      rewrite Hs; [reflexivity|]. intros Hi. apply Hn. cbn. right. apply in_or_app. left. exact Hi.
    - apply IHsl. intros Hi. apply Hn. cbn [seids flat_map]. apply in_or_app. right. exact Hi.
  Qed.

  Lemma gslot_notin sl : ~ In e (seids sl) -> map (gslot lgraft) sl = sl.
  Proof.
    intros Hn. assert (X : lgraft (LNode 0 EmptyString [] sl) = LNode 0 EmptyString [] sl) by (apply lgraft_notin; exact Hn).
    rewrite lgraft_eq in X. injection X as X. exact X.
  Qed.

  (** the grafted tree is the local replacement of HeapGraft.v *)
  Lemma lgraft_lreplace : forall lt prev p l nm cm l1 l2 ei ch,
    NoDup (lids lt) -> NoDup (leids lt) -> In (p, LNode l nm cm (l1 ++ Some (e, ei, ch) :: l2)) (lsubs prev lt) ->
    lgraft lt = lreplace l (LNode l nm cm (l1 ++ Some (e, halve ei, graft_wrap n nn ne ne2 name ei ch) :: l2)) lt.
  Proof.
    induction lt as [i nm0 cm0 sl IH] using ltree_ind'. intros prev p l nm cm l1 l2 ei ch Nd Ned Hin.
    rewrite lsubs_eq in Hin. rewrite lreplace_eq, lgraft_eq. destruct Hin as [E|Hin].
    - injection E as <- <- <- <- ->. rewrite Nat.eqb_refl. f_equal.
      rewrite leids_eq in Ned. fold (seids (l1 ++ Some (e, ei, ch) :: l2)) in Ned. rewrite seids_app_cons in Ned.
      apply NoDup_app_iff in Ned. destruct Ned as (N1 & N2 & N3). apply NoDup_cons_iff in N2. destruct N2 as [N4 N5].
      rewrite map_app. cbn [map gslot]. rewrite Nat.eqb_refl.
      rewrite (gslot_notin l1) by (intros Hi; apply (N3 e Hi); left; reflexivity).
      rewrite (gslot_notin l2) by (intros Hi; apply N4; apply in_or_app; right; exact Hi). reflexivity.
    - apply in_flat_map in Hin. destruct Hin as [s [Hs Hin]]. destruct s as [[[es eis] chs]|]; [|destruct Hin].
      assert (Hl : In l (lids chs)) by (eapply lsubs_in_lids with (sub := LNode l nm cm _); exact Hin).
      assert (He : In e (leids chs)).
      { eapply lsubs_sub_leids; [exact Hin|]. eapply in_leids_here. apply in_or_app. right. left. reflexivity. }
      rewrite lids_eq in Nd. apply NoDup_cons_iff in Nd. destruct Nd as [Ni Nd]. fold (sids sl) in Ni, Nd.
      rewrite leids_eq in Ned. fold (seids sl) in Ned.
      destruct (Nat.eqb_spec i l) as [->|_]; [exfalso; apply Ni; eapply in_sids; eassumption|]. f_equal.
      destruct (In_nth_error _ _ Hs) as [js Hjs]. rewrite Forall_forall in IH.
      apply nth_ext_map. intros j s Hj. destruct s as [[[e' ei'] ch']|]; [|reflexivity]. cbn [gslot lreplace_slot].
      destruct (Nat.eq_dec j js) as [->|Hne].
      + rewrite Hjs in Hj. injection Hj as -> -> ->.
        destruct (Nat.eqb_spec e' e) as [->|_].
        { exfalso. pose proof (NoDup_flat_map_in _ _ _ Ned Hs) as Hd. cbn in Hd. apply NoDup_cons_iff in Hd. exact (proj1 Hd He). }
        f_equal. f_equal. eapply (IH _ Hs); [| |exact Hin].
        * exact (NoDup_flat_map_in _ _ _ Nd Hs).
        * pose proof (NoDup_flat_map_in _ _ _ Ned Hs) as Hd. cbn in Hd. apply NoDup_cons_iff in Hd. exact (proj2 Hd).
      + assert (He' : ~ In e (e' :: leids ch')).
        { intros Hi. apply Hne. eapply (NoDup_flat_map_nth _ _ _ _ _ _ e Ned Hj Hjs); cbn; [exact Hi|right; exact He]. }
        destruct (Nat.eqb_spec e' e) as [->|_]; [exfalso; apply He'; left; reflexivity|].
        rewrite lgraft_notin by (intros Hi; apply He'; right; exact Hi).
        rewrite lreplace_notin; [reflexivity|]. intros Hi. apply Hne.
        eapply (NoDup_flat_map_nth _ _ _ _ _ _ l Nd Hj Hjs); cbn; assumption.
  Qed.
End LG.

Lemma ugrafts_eq tip n c sl : ugrafts tip (UNode n c sl) = ugrafts_slots (ugrafts tip) tip n c [] sl.
Proof. reflexivity. Qed.

Lemma ugrafts_length tip : forall lt, length (ugrafts tip (erase lt)) = length (leids lt).
Proof.
  induction lt as [i nm cm sl IH] using ltree_ind'. rewrite erase_eq, ugrafts_eq, leids_eq.
  generalize (@nil slot). induction IH as [|s sl Hs _ IHsl]; intros pre; [reflexivity|].
  destruct s as [[[e ei] ch]|]; cbn [map erase_slot ugrafts_slots flat_map].
  - cbn [length]. rewrite !app_length, map_length, Hs, IHsl. reflexivity.
  - apply IHsl.
Qed.

Section GraftSq.
  Variables (n nn ne ne2 : nat) (name : string) (e : nat).
  Let tip := UNode name [] [None].

  Lemma erase_gslot_hit ei ch :
    erase_slot (Some (e, halve ei, graft_wrap n nn ne ne2 name ei ch)) = graft_slot tip ei (erase ch).
  Proof. reflexivity. Qed.

  Lemma ugrafts_nth : forall lt k, NoDup (leids lt) -> nth_error (leids lt) k = Some e ->
    nth_error (ugrafts tip (erase lt)) k = Some (erase (lgraft n nn ne ne2 name e lt)).
  Proof.
    induction lt as [i nm cm sl IH] using ltree_ind'. intros k Nd Hk.
    rewrite erase_eq, ugrafts_eq, lgraft_eq, erase_eq. rewrite leids_eq in Nd, Hk. fold (seids sl) in Nd, Hk.
    assert (H : forall l pre k, sl = pre ++ l -> nth_error (seids l) k = Some e ->
              nth_error (ugrafts_slots (ugrafts tip) tip nm cm (map erase_slot pre) (map erase_slot l)) k =
              Some (UNode nm cm (map erase_slot pre ++ map erase_slot (map (gslot n nn ne ne2 name e (lgraft n nn ne ne2 name e)) l)))).
    { induction l as [|s l IHl]; intros pre k0 Esl Hk0; [destruct k0; discriminate|].
      assert (Esl' : sl = (pre ++ [s]) ++ l) by (rewrite <- app_assoc; exact Esl).
      assert (Hs : In s sl) by (rewrite Esl; apply in_or_app; right; left; reflexivity).
      rewrite Esl, seids_app in Nd. apply NoDup_app_iff in Nd. destruct Nd as (N1 & N2 & N3).
      destruct s as [[[e' ei] ch]|]; cbn [map erase_slot ugrafts_slots seids flat_map] in *.
      - fold (seids l) in *. apply NoDup_cons_iff in N2. destruct N2 as [N4 N5]. apply NoDup_app_iff in N5. destruct N5 as (N6 & N7 & N8).
        destruct k0 as [|k0]; cbn [nth_error app] in Hk0; cbn [nth_error].
        + injection Hk0 as ->. cbn [gslot]. rewrite Nat.eqb_refl. rewrite erase_gslot_hit.
          rewrite (gslot_notin n nn ne ne2 name e l) by (intros Hi; apply N4; apply in_or_app; right; exact Hi). reflexivity.
        + assert (Ne' : e' <> e).
          { intros ->. apply N4. eapply nth_error_In. exact Hk0. }
          cbn [gslot]. destruct (Nat.eqb_spec e' e) as [E0|_]; [contradiction|].
          destruct (Nat.lt_ge_cases k0 (length (leids ch))) as [Hlt|Hge].
          * rewrite nth_error_app1 in Hk0 by exact Hlt.
            rewrite nth_error_app1 by (rewrite map_length, ugrafts_length; exact Hlt).
            rewrite nth_error_map. rewrite Forall_forall in IH. rewrite (IH _ Hs k0 N6 Hk0). cbn [option_map].
            rewrite (gslot_notin n nn ne ne2 name e l); [reflexivity|]. intros Hi. apply (N8 e); [eapply nth_error_In; exact Hk0|exact Hi].
          * rewrite nth_error_app2 in Hk0 by exact Hge.
            rewrite nth_error_app2 by (rewrite map_length, ugrafts_length; exact Hge). rewrite map_length, ugrafts_length.
            pose proof (IHl (pre ++ [Some (e', ei, ch)]) (k0 - length (leids ch)) Esl' Hk0) as X.
            rewrite map_app in X. cbn [map erase_slot] in X. rewrite X. rewrite <- app_assoc. cbn [app].
            rewrite lgraft_notin; [reflexivity|]. intros Hi. apply (N8 e Hi). eapply nth_error_In. exact Hk0.
      - pose proof (IHl (pre ++ [None]) k0 Esl' Hk0) as X. rewrite map_app in X. cbn [map erase_slot] in X. rewrite X.
        rewrite <- app_assoc. reflexivity. }
    exact (H sl [] k eq_refl Hk).
  Qed.
End GraftSq.

(** * the square *)
Theorem graft_new_tip_square h t name k e : Good h -> abs h = Some t ->
  (exists lt, dump h = Some lt /\ nth_error (leids lt) k = Some e) ->
  exists tip ne ne2 nn h' t', graft_new_tip name e h = HOk (tip, ne, ne2, nn, h') /\
    Good h' /\ ugraft name k t = Some t' /\ abs h' = Some t'.
Proof.
  intros G Ha (lt0 & Hd & Hk). destruct (Good_Rep h G) as [lt R]. rewrite (Rep_dump _ _ R) in Hd. injection Hd as <-.
  rewrite (Rep_abs _ _ R) in Ha. injection Ha as <-.
  assert (He : alookup e (hedges h) <> None) by (apply (rep_edges _ _ R); eapply nth_error_In; exact Hk).
  destruct (graft_new_tip_Rep_strong h lt name e R He) as (h' & p & l & nm & cm & l1 & l2 & ei & ch & Hsub & Ev & R').
  rewrite <- (lgraft_lreplace (hnextn h) (S (hnextn h)) (hnexte h) (S (hnexte h)) name e lt None p l nm cm l1 l2 ei ch
                (rep_nd _ _ R) (rep_ned _ _ R) Hsub) in R'.
  do 6 eexists. split; [exact Ev|]. split; [eapply Rep_Good; exact R'|]. split.
  - unfold ugraft. apply ugrafts_nth; [exact (rep_ned _ _ R)|exact Hk].
  - apply Rep_abs. exact R'.
Qed.
