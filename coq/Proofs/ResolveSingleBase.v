(** C07, resolve on trees that may contain single-child inner nodes: the branches added by
    Resolve never define the bipartition of a branch of the input (so [usplits], which merges the
    branches defining the same bipartition, keeps the input's merged lengths and supports), and
    the number of single-child inner nodes does not change. *)
From Coq Require Import String ZArith QArith Bool Arith Lia List Permutation Setoid Morphisms.
From GT Require Import Base.UTree Spec.Obs Spec.Contract Model.Reroot Model.Rand Spec.Unrooted Proofs.RerootBase Proofs.PruneBase
     Model.Prune Model.Collapse Proofs.PruneStep Proofs.PruneSub Proofs.PruneRoot Proofs.CollapseBase
     Proofs.CollapseDist Proofs.CollapseResolveBase Proofs.CollapseResolve Proofs.OracleSets.
Import ListNotations.
Local Close Scope Q_scope.
Local Arguments n_up : simpl never.
Local Arguments leaves : simpl never.
Local Arguments wf_sub : simpl never.
Local Arguments reparent : simpl never.

Notation item := (einfo * utree)%type.
Notation vw := ((Q * Q * Q) * list string)%type.

(** * lists *)
Lemma nodup_disj {T} (X Y : list T) a : NoDup (X ++ Y) -> In a X -> In a Y -> False.
Proof.
  induction X as [|x X IH]; simpl; intros H HX HY; [tauto|]. inversion H; subst.
  destruct HX as [->|HX]; [apply H2, in_or_app; now right|auto].
Qed.

Lemma Forall2_impl_in {T U} (R R' : T -> U -> Prop) l l' :
  (forall x y, In x l -> In y l' -> R x y -> R' x y) -> Forall2 R l l' -> Forall2 R' l l'.
Proof.
  intros H F. induction F; constructor.
  - apply H; simpl; auto.
  - apply IHF. intros; apply H; simpl; auto.
Qed.

Lemma Forall2_in_l {T U} (R : T -> U -> Prop) l l' x : Forall2 R l l' -> In x l -> exists y, In y l' /\ R x y.
Proof.
  induction 1; simpl; [tauto|]. intros [->|Hx]; [eauto|]. destruct (IHForall2 Hx) as [y' [? ?]]. eauto.
Qed.

Lemma kleaves_in ks x : In x (kleaves ks) <-> exists k, In k ks /\ In x (leaves (snd k)).
Proof. unfold kleaves. rewrite in_flat_map. reflexivity. Qed.

Lemma kid_incl (ks : list item) k : In k ks -> incl (leaves (snd k)) (kleaves ks).
Proof. intros H x Hx. apply kleaves_in. eauto. Qed.

Lemma nonempty_in (l : list string) : l <> [] -> exists a, In a l.
Proof. destruct l; [congruence|]. intros _. exists s. now left. Qed.

(** * two sides of the same bipartition *)
Section Sep.
  Variable A : list string.

  (** [C] is neither [P] nor the complement of [P] in [A] *)
  Definition sep (C P : list string) : Prop :=
    (exists a, In a A /\ ((In a C /\ ~ In a P) \/ (~ In a C /\ In a P))) /\
    (exists a, In a A /\ ((In a C /\ In a P) \/ (~ In a C /\ ~ In a P))).

  Lemma sep_key C P : sep C P -> canon_side A (sset C) <> canon_side A (sset P).
  Proof.
    intros [[a [Ha W1]] [b [Hb W2]]] E. unfold canon_side in E. destruct A as [|m r] eqn:EA; [destruct Ha|].
    rewrite <- EA in *. clear EA.
    assert (X : forall l x, In x (sdiff A (sset l)) <-> In x A /\ ~ In x l).
    { intros l x. rewrite sdiff_In, sset_In. reflexivity. }
    destruct (smem m (sset C)), (smem m (sset P)).
    - assert (H : In a (sdiff A (sset C)) <-> In a (sdiff A (sset P))) by now rewrite E.
      rewrite !X in H. tauto.
    - assert (H : In b (sdiff A (sset C)) <-> In b (sset P)) by now rewrite E.
      rewrite X, sset_In in H. tauto.
    - assert (H : In b (sset C) <-> In b (sdiff A (sset P))) by now rewrite E.
      rewrite X, sset_In in H. tauto.
    - assert (H : In a (sset C) <-> In a (sset P)) by now rewrite E.
      rewrite !sset_In in H. tauto.
  Qed.

  (** a branch added by Resolve below a node whose leaves are [U], the views of the input's
      branches below that node being [olds] *)
  Definition gnew (U : list string) (olds : list vw) (v : vw) : Prop :=
    is_new v /\ (exists a, In a (snd v)) /\ incl (snd v) U /\ (exists a, In a U /\ ~ In a (snd v)) /\
    Forall (fun p => sep (snd v) (snd p)) olds.

  Definition binv (U : list string) (olds res : list vw) : Prop :=
    exists news, Forall (gnew U olds) news /\ veq2 res (olds ++ news).

  (** ** old branches lie inside one child *)
  Lemma branches_incl' : forall t p, In p (branches t) -> incl (leaves (snd p)) (leaves t).
  Proof.
    induction t as [n1 c1 sl1 IH] using utree_ind'. intros p Hp.
    rewrite branches_unfold in Hp. unfold brs in Hp. rewrite in_flat_map in Hp.
    destruct Hp as [[[e1 ch]|] [Hs1 Hp]]; [|destruct Hp].
    assert (Hin : incl (leaves ch) (leaves (UNode n1 c1 sl1))).
    { intros y Hy. rewrite leaves_unfold. assert (Hk1 : In (e1, ch) (kids_of sl1)) by (apply kids_of_In; auto).
      destruct (kids_of sl1) eqn:E; [destruct Hk1|]. rewrite <- E in *. apply kleaves_in. exists (e1, ch). auto. }
    destruct Hp as [<-|Hp]; [exact Hin|].
    rewrite Forall_forall in IH. intros x Hx. apply Hin. exact (IH _ Hs1 p Hp x Hx).
  Qed.

  Lemma bviews_kid ks p : In p (bviews ks) -> exists k, In k ks /\ incl (snd p) (leaves (snd k)).
  Proof.
    unfold bviews. rewrite in_flat_map. intros [k [Hk Hp]]. exists k. split; auto.
    unfold bview in Hp. destruct Hp as [<-|Hp]; [apply incl_refl|].
    apply in_map_iff in Hp. destruct Hp as [q [<- Hq]]. simpl. now apply branches_incl'.
  Qed.

  (** ** from a child to its parent *)
  Lemma lift_kid ks k1 e c k2 v :
    ks = k1 ++ (e, c) :: k2 -> NoDup (kleaves ks) -> incl (kleaves ks) A ->
    gnew (leaves c) (map view2 (branches c)) v -> gnew (kleaves ks) (bviews ks) v.
  Proof.
    intros -> Hn Hi [G1 [[a0 G2] [G3 [[a1 [G4 G5]] G6]]]].
    rewrite kleaves_app, kleaves_cons in Hn, Hi. simpl snd in *.
    assert (Hc : incl (leaves c) (kleaves (k1 ++ (e, c) :: k2))).
    { rewrite kleaves_app, kleaves_cons. simpl. intros x Hx. apply in_or_app. right. apply in_or_app. now left. }
    assert (D1 : forall x, In x (leaves c) -> ~ In x (kleaves k1)).
    { intros x Hx H1. exact (nodup_disj _ _ x Hn H1 (in_or_app _ _ _ (or_introl Hx))). }
    assert (D2 : forall x, In x (leaves c) -> ~ In x (kleaves k2)).
    { intros x Hx H2. apply NoDup_app_remove_l in Hn. exact (nodup_disj _ _ x Hn Hx H2). }
    assert (HA : forall x, In x (leaves c) -> In x A).
    { intros x Hx. apply Hi. apply in_or_app. right. apply in_or_app. now left. }
    unfold gnew. split; [exact G1|]. split; [eauto|]. split; [intros x Hx; apply Hc, G3, Hx|].
    split; [exists a1; split; auto|].
    rewrite bviews_app. change (bviews ((e, c) :: k2)) with (bview (e, c) ++ bviews k2).
    apply Forall_app. split; [|apply Forall_app; split].
    - apply Forall_forall. intros p Hp. destruct (bviews_kid _ _ Hp) as [k [Hk Hsub]].
      assert (Hp1 : forall x, In x (snd p) -> In x (kleaves k1)) by (intros x Hx; apply (kid_incl k1 k Hk), Hsub, Hx).
      split.
      + exists a0. split; [apply HA, G3, G2|]. left. split; auto. intros H. apply (D1 a0); auto.
      + exists a1. split; [now apply HA|]. right. split; auto. intros H. apply (D1 a1); auto.
    - unfold bview. constructor; [|exact G6]. unfold view2. simpl snd. split.
      + exists a1. split; [now apply HA|]. right. auto.
      + exists a0. split; [apply HA, G3, G2|]. left. auto.
    - apply Forall_forall. intros p Hp. destruct (bviews_kid _ _ Hp) as [k [Hk Hsub]].
      assert (Hp1 : forall x, In x (snd p) -> In x (kleaves k2)) by (intros x Hx; apply (kid_incl k2 k Hk), Hsub, Hx).
      split.
      + exists a0. split; [apply HA, G3, G2|]. left. split; auto. intros H. apply (D2 a0); auto.
      + exists a1. split; [now apply HA|]. right. split; auto. intros H. apply (D2 a1); auto.
  Qed.

  (** ** the caterpillar: the added clades contain the first two items and miss the kept ones *)
  Lemma caterpillar2 rest : forall a,
    exists news, Permutation (bview (fold_left join2 rest a)) (bviews (a :: rest) ++ news) /\
      Forall (fun v => is_new v /\ exists b r', rest = b :: r' /\
                       incl (leaves (snd a) ++ leaves (snd b)) (snd v) /\
                       incl (snd v) (leaves (snd a) ++ kleaves rest)) news.
  Proof.
    induction rest as [|b rest IH]; intros a.
    - exists []. split; [|constructor]. unfold bviews. simpl. now rewrite !app_nil_r.
    - simpl fold_left. destruct (IH (join2 a b)) as [news [H1 H2]].
      exists (((0%Q, nilv, nilv), leaves (snd a) ++ leaves (snd b)) :: news). split.
      + rewrite H1. change (bviews (join2 a b :: rest)) with (bview (join2 a b) ++ bviews rest).
        change (bviews (a :: b :: rest)) with (bview a ++ bview b ++ bviews rest).
        rewrite join2_bview. perm.
      + constructor.
        * split; [reflexivity|]. exists b, rest. split; auto. simpl snd. split; [apply incl_refl|].
          rewrite kleaves_cons. intros x Hx. apply in_app_or in Hx. apply in_or_app.
          destruct Hx; auto. right. apply in_or_app. auto.
        * eapply Forall_impl; [|exact H2]. intros v [V1 [b2 [r2 [E [V2 V3]]]]]. split; auto.
          exists b, rest. split; auto. rewrite join2_leaves in V2, V3. split.
          -- intros x Hx. apply V2. apply in_or_app. now left.
          -- rewrite kleaves_cons. intros x Hx. specialize (V3 x Hx). rewrite <- app_assoc in V3. exact V3.
  Qed.

  Lemma cat_gnew (keepk : list item) a b r' U olds v :
    NoDup (kleaves (keepk ++ a :: b :: r')) ->
    (forall x, In x U <-> In x (kleaves (keepk ++ a :: b :: r'))) -> incl U A ->
    (forall p, In p olds -> exists k', In k' (keepk ++ a :: b :: r') /\ incl (snd p) (leaves (snd k'))) ->
    keepk <> [] ->
    (forall P k', In k' (keepk ++ a :: b :: r') -> incl P (leaves (snd k')) ->
                  exists x, In x A /\ ~ In x (leaves (snd a) ++ kleaves (b :: r')) /\ ~ In x P) ->
    is_new v -> incl (leaves (snd a) ++ leaves (snd b)) (snd v) -> incl (snd v) (leaves (snd a) ++ kleaves (b :: r')) ->
    gnew U olds v.
  Proof.
    intros Hn HU HA Hold Hk W2 V1 V2 V3.
    rewrite kleaves_app, kleaves_cons in Hn.
    assert (Hn2 := NoDup_app_remove_l _ _ Hn).
    destruct (nonempty_in _ (leaves_nonempty (snd a))) as [xa Hxa].
    destruct (nonempty_in _ (leaves_nonempty (snd b))) as [xb Hxb].
    assert (Hsub : incl (leaves (snd a) ++ kleaves (b :: r')) U).
    { intros x Hx. apply HU. rewrite kleaves_app, kleaves_cons. apply in_or_app. now right. }
    assert (Ca : In xa (snd v)) by (apply V2, in_or_app; now left).
    assert (Cb : In xb (snd v)) by (apply V2, in_or_app; now right).
    assert (Dab : ~ In xb (leaves (snd a))).
    { intros H. apply (nodup_disj _ _ xb Hn2 H). rewrite kleaves_cons. apply in_or_app. now left. }
    unfold gnew. split; [exact V1|]. split; [eauto|]. split; [intros x Hx; apply Hsub, V3, Hx|]. split.
    - destruct keepk as [|m kr]; [congruence|].
      destruct (nonempty_in _ (leaves_nonempty (snd m))) as [xm Hxm].
      assert (Hm : In xm (kleaves (m :: kr))) by (rewrite kleaves_cons; apply in_or_app; now left).
      exists xm. split.
      + apply HU. rewrite kleaves_app, kleaves_cons. apply in_or_app. now left.
      + intros H. apply V3 in H. exact (nodup_disj _ _ xm Hn Hm H).
    - apply Forall_forall. intros p Hp. destruct (Hold p Hp) as [k' [Hk' Hsubp]]. split.
      + apply in_app_or in Hk'. destruct Hk' as [Hk'|[<-|Hk']].
        * exists xa. split; [apply HA, Hsub, in_or_app; now left|]. left. split; auto.
          intros H. apply Hsubp in H. apply (nodup_disj _ _ xa Hn (kid_incl keepk k' Hk' _ H)).
          apply in_or_app. now left.
        * exists xb. split; [apply HA, Hsub, in_or_app; right; rewrite kleaves_cons; apply in_or_app; now left|].
          left. split; auto.
        * exists xa. split; [apply HA, Hsub, in_or_app; now left|]. left. split; auto.
          intros H. apply Hsubp in H. apply (nodup_disj _ _ xa Hn2 Hxa). exact (kid_incl (b :: r') k' Hk' _ H).
      + destruct (W2 (snd p) k' Hk' Hsubp) as [x [X1 [X2 X3]]]. exists x. split; auto. right. split; auto.
  Qed.
End Sep.
