(** Nexus scanner facts (Model/Nexus.v): every token consumes input, except the EOF token at
    the end of the input. *)
From Coq Require Import String Ascii ZArith Bool Arith Lia List.
From GT Require Import Base.UTree Model.Nexus.
Import ListNotations.
Local Open Scope string_scope.

Lemma tok_eqb_true : forall a b, tok_eqb a b = true -> a = b.
Proof. intros a b; destruct a, b; simpl; intros H; try discriminate H; reflexivity. Qed.

Lemma tok_eqb_refl : forall a, tok_eqb a a = true.
Proof. destruct a; reflexivity. Qed.

Lemma tok_eqb_false : forall a b, tok_eqb a b = false -> a <> b.
Proof. intros a b H ->. rewrite tok_eqb_refl in H. discriminate. Qed.

Lemma span0_length : forall p s a b, span0 p s = (a, b) -> String.length b <= String.length s.
Proof.
  induction s as [|c s IH]; simpl; intros a b H.
  - inversion H; subst; simpl; lia.
  - destruct (is_nul c).
    + inversion H; subst; lia.
    + destruct (p c).
      * destruct (span0 p s) as [x y] eqn:E. inversion H; subst. specialize (IH _ _ eq_refl). lia.
      * inversion H; subst; simpl; lia.
Qed.

(** scanIdent on a non-empty input consumes its first byte *)
Lemma scan_ident_length : forall c s t l r,
    scan_ident (String c s) = (t, l, r) -> String.length r <= String.length s.
Proof.
  intros c s t l r H. unfold scan_ident in H.
  destruct (span0 is_ident s) as [w r'] eqn:E. inversion H; subst.
  eapply span0_length; eassumption.
Qed.

Lemma scan_ident_empty : forall t l r, scan_ident "" = (t, l, r) -> r = "".
Proof. intros t l r H. unfold scan_ident in H. simpl in H. inversion H; reflexivity. Qed.

(** Scan: at the end of the input the EOF token, forever; otherwise at least one byte is consumed *)
Lemma scan_empty : scan "" = (EOF, "", "").
Proof. reflexivity. Qed.

Lemma scan_consumes : forall c s t l r,
    scan (String c s) = (t, l, r) -> String.length r <= String.length s.
Proof.
  intros c s t l r H. unfold scan in H.
  destruct (is_ws c).
  { destruct (span0 is_ws s) as [w r'] eqn:E. inversion H; subst. eapply span0_length; eassumption. }
  destruct (is_nl c); [inversion H; subst; lia|].
  destruct (is_cr c).
  { destruct s as [|c2 s2].
    - apply scan_ident_empty in H. subst. simpl. lia.
    - destruct (is_nl c2); [inversion H; subst; simpl; lia|].
      apply scan_ident_length in H. simpl. lia. }
  destruct (is_nul c); [inversion H; subst; lia|].
  destruct (Ascii.eqb c "["); [inversion H; subst; lia|].
  destruct (Ascii.eqb c "]"); [inversion H; subst; lia|].
  destruct (Ascii.eqb c ";"); [inversion H; subst; lia|].
  destruct (Ascii.eqb c "="); [inversion H; subst; lia|].
  destruct (Ascii.eqb c ","); [inversion H; subst; lia|].
  eapply scan_ident_length; eassumption.
Qed.

Lemma scan_spec : forall s t l r,
    scan s = (t, l, r) ->
    String.length r <= String.length s /\ (t <> EOF -> String.length r < String.length s).
Proof.
  intros s t l r H. destruct s as [|c s].
  - rewrite scan_empty in H. inversion H; subst. split; [lia|]. intros C; contradiction C; reflexivity.
  - apply scan_consumes in H. simpl. split; lia.
Qed.

(** scanIgnoreWhitespace *)
Lemma scan_iw_spec : forall s t l r,
    scan_iw s = (t, l, r) ->
    String.length r <= String.length s /\ (t <> EOF -> String.length r < String.length s).
Proof.
  intros s t l r H. unfold scan_iw in H.
  destruct (scan s) as [[t1 l1] r1] eqn:E1. apply scan_spec in E1. destruct E1 as [A1 B1].
  destruct (tok_eqb t1 WS) eqn:W.
  - apply tok_eqb_true in W. subst t1.
    assert (String.length r1 < String.length s) by (apply B1; discriminate).
    apply scan_spec in H. destruct H as [A2 _]. split; [lia|intros; lia].
  - inversion H; subst. split; assumption.
Qed.

Lemma scan_iw_empty : scan_iw "" = (EOF, "", "").
Proof. reflexivity. Qed.

(** parseUnsupportedKey: accepted only after an '=' and a value were consumed *)
Lemma unsupported_key_spec : forall s e r,
    unsupported_key s = (e, r) ->
    String.length r <= String.length s /\ (e = None -> String.length r < String.length s).
Proof.
  intros s e r H. unfold unsupported_key in H.
  destruct (scan_iw s) as [[t l] r1] eqn:E1. apply scan_iw_spec in E1. destruct E1 as [A1 B1].
  destruct (negb (tok_eqb t EQUAL)) eqn:Q.
  - inversion H; subst. split; [lia|discriminate].
  - apply negb_false_iff in Q. apply tok_eqb_true in Q. subst t.
    assert (String.length r1 < String.length s) by (apply B1; discriminate).
    destruct (scan_iw r1) as [[t2 l2] r2] eqn:E2. apply scan_iw_spec in E2. destruct E2 as [A2 _].
    destruct (negb (tok_eqb t2 IDENT) && negb (tok_eqb t2 NUMERIC)); inversion H; subst; split; intros; lia.
Qed.
