(** C07, collapse: contracting branches of length 0 (absent counts as 0) keeps every
    tip-to-tip path length. *)
From Coq Require Import String ZArith QArith Bool Arith Lia List Permutation Setoid Morphisms.
From GT Require Import Base.UTree Spec.Obs Model.Reroot Spec.Unrooted Proofs.RerootBase Proofs.PruneBase
     Model.Prune Model.Collapse Proofs.PruneStep Proofs.PruneSub Proofs.PruneRoot Proofs.CollapseBase.
Import ListNotations.
Local Close Scope Q_scope.
Local Arguments n_up : simpl never.
Local Arguments leaves : simpl never.
Local Arguments depths : simpl never.
Local Arguments pairdists : simpl never.
Local Arguments wf_sub : simpl never.

(** * aggregates of contribution lists *)
Definition aeq (X Y : list contrib) : Prop :=
  deq (aggD X) (aggD Y) /\ dists_equiv (aggP X) (aggP Y).

Global Instance aeq_Equivalence : Equivalence aeq.
Proof.
  split.
  - intros X; split; reflexivity.
  - intros X Y [H1 H2]; split; now symmetry.
  - intros X Y Z [H1 H2] [H3 H4]; split; etransitivity; eauto.
Qed.

Lemma aggD_app X Y : aggD (X ++ Y) = aggD X ++ aggD Y.
Proof. unfold aggD. now rewrite map_app, concat_app. Qed.

Lemma aggP_app X Y : Permutation (aggP (X ++ Y)) (aggP X ++ aggP Y ++ symcross (aggD X) (aggD Y)).
Proof.
  unfold contrib in *. unfold aggP, aggD. rewrite !map_app, concat_app.
  etransitivity; [apply Permutation_app_tail, cross_all_app|]. perm.
Qed.

Lemma aeq_perm X Y : Permutation X Y -> aeq X Y.
Proof. intros H. split; [apply deq_perm, aggD_perm, H | apply dists_equiv_perm, aggP_perm, H]. Qed.

Lemma aeq_app X X' Y Y' : aeq X X' -> aeq Y Y' -> aeq (X ++ Y) (X' ++ Y').
Proof.
  intros [H1 H2] [H3 H4]. split.
  - rewrite !aggD_app. now apply deq_app.
  - etransitivity; [apply dists_equiv_perm, aggP_app|].
    etransitivity; [|symmetry; apply dists_equiv_perm, aggP_app].
    apply dists_equiv_app; auto. apply dists_equiv_app; auto. now apply symcross_deq.
Qed.

Lemma aggD_single x : aggD [x] = fst x.
Proof. unfold aggD. simpl. apply app_nil_r. Qed.
Lemma aggP_single x : aggP [x] = snd x.
Proof. unfold aggP. simpl. apply app_nil_r. Qed.

Lemma aeq_single x y : ceq x y -> aeq [x] [y].
Proof. intros [H1 H2]. split; now rewrite ?aggD_single, ?aggP_single. Qed.

(** a group of contributions seen as one contribution *)
Lemma aeq_group Y : aeq [(aggD Y, aggP Y)] Y.
Proof. split; now rewrite ?aggD_single, ?aggP_single. Qed.

Lemma shift_zero q l : (q == 0)%Q -> deq (shift q l) l.
Proof.
  intros Hq. apply deq_Forall2. unfold shift. induction l as [|x l IH]; simpl; constructor; auto.
  split; simpl; auto. rewrite Hq. ring.
Qed.

Section Dist.
  Variable rr rt : bool.
  Variable sel : nat -> einfo -> utree -> bool.
  Notation w := len0.
  Notation proc := (proc rr rt sel).
  Notation proc_go := (proc_go rr rt sel).
  Hypothesis Hz : forall k e c, sel k e c = true -> (len0 e == 0)%Q.

  Ltac kidsplit :=
    repeat (rewrite ?kids_of_app, ?kids_of_cons_some, ?kids_of_cons_none, ?forallb_app, ?andb_true_iff,
            ?n_up_app, ?n_up_cons, ?n_up_nil, ?app_length, ?kleaves_app, ?kleaves_cons in *; simpl forallb in *; simpl snd in *;
            simpl length in *).

  Lemma len0_set_len0 e : len0 (set_len0 e) = 0%Q.
  Proof. reflexivity. Qed.

  Lemma adj_len0 k e c : (w (adj rt sel k e c) == w e)%Q.
  Proof.
    unfold adj. destruct (sel k e c) eqn:E; simpl; [|reflexivity].
    destruct (is_tip c && rt); [|reflexivity]. rewrite len0_set_len0. symmetry. eauto.
  Qed.

  Definition dist_inv (sl b a : list slot) : Prop :=
    aeq (contribs w (kids_of (b ++ a))) (contribs w (kids_of sl)).

  (** a node that stays *)
  Lemma rebuilt_contrib e e' c b1 a1 :
    wf_sub c = true -> (w e' == w e)%Q ->
    basic_inv true (uslots c) b1 a1 -> dist_inv (uslots c) b1 a1 ->
    ceq (contrib_of w (e', UNode (uname c) (ucom c) (b1 ++ a1))) (contrib_of w (e, c)).
  Proof.
    intros Hw He [B1 [B2 [B3 B4]]] [D1 D2]. destruct c as [n cm sl]. simpl in *.
    unfold contrib_of. simpl fst. simpl snd. split; simpl.
    - apply shift_deq; auto.
      destruct (kids_of sl) eqn:Ek.
      + change (kleaves []) with (@nil string) in B4. symmetry in B4. apply Permutation_nil in B4.
        apply kleaves_nil_iff in B4. rewrite !depths_leaf; auto. reflexivity.
      + assert (Hk : kids_of (b1 ++ a1) <> []).
        { intros E0. rewrite E0 in B4. change (kleaves []) with (@nil string) in B4.
          apply Permutation_nil in B4. apply kleaves_nil_iff in B4. discriminate. }
        rewrite !depths_agg; auto; [|rewrite Ek; discriminate]. rewrite Ek. exact D1.
    - rewrite !pairdists_agg. exact D2.
  Qed.

  Lemma proc_go_dist top sl :
    Forall (fun s : slot => match s with
                            | Some (_, c) => forall top k m b a, wf_sub c = true -> proc c top k m = (b, a) -> dist_inv (uslots c) b a
                            | None => True end) sl ->
    forallb (fun p => wf_sub (snd p)) (kids_of sl) = true ->
    forall k m b a, proc_go top sl k m = (b, a) -> dist_inv sl b a.
  Proof.
    induction sl as [|[[e c]|] r IHr]; intros IH Hw k m b a Hp.
    - simpl in Hp. injection Hp as Hb Ha. subst. unfold dist_inv. simpl. reflexivity.
    - inversion IH as [|? ? Hc Hr]; subst. kidsplit. destruct Hw as [Hwc Hwr]. specialize (IHr Hr Hwr).
      rewrite proc_go_some in Hp. cbv zeta in Hp.
      destruct (decide rr sel k e c (m + 1 + (if top then length r else length (kids_of r)))) eqn:Ed.
      + destruct (proc c false (S k) (m + (if top then length r else length (kids_of r)))) as [bc ac] eqn:Ec.
        destruct (proc_go top r (k + 1 + span c) (m + length bc + length ac)) as [b' a'] eqn:Er.
        injection Hp as Hb Ha. subst b a.
        generalize (Hc false _ _ _ _ Hwc Ec). intros H1.
        generalize (IHr _ _ _ _ Er). intros G1.
        destruct (nontip_leaves c Hwc (decide_nontip _ _ _ _ _ _ Ed)) as [Hk _].
        unfold dist_inv in *. kidsplit.
        transitivity ((contribs w (kids_of b' ++ kids_of a')) ++ contribs w (kids_of bc ++ kids_of ac)).
        { apply aeq_perm. unfold contribs. rewrite <- map_app. apply Permutation_map. perm. }
        change (contribs w ((e, c) :: kids_of r)) with ([contrib_of w (e, c)] ++ contribs w (kids_of r)).
        transitivity (contribs w (kids_of r) ++ [contrib_of w (e, c)]); [|apply aeq_perm; perm].
        apply aeq_app; auto.
        etransitivity; [exact H1|].
        etransitivity; [symmetry; apply aeq_group|].
        apply aeq_single. destruct c as [n cm sl]. simpl uslots in *. unfold contrib_of. simpl fst. simpl snd.
        split; simpl.
        * rewrite depths_agg by auto. symmetry. apply shift_zero. eapply Hz. eapply decide_sel; eauto.
        * now rewrite pairdists_agg.
      + destruct (proc c true (S k) 0) as [b1 a1] eqn:Ec.
        destruct (proc_go top r (k + 1 + span c) (S m)) as [b' a'] eqn:Er.
        injection Hp as Hb Ha. subst b a.
        generalize (Hc true _ _ _ _ Hwc Ec). intros H1.
        generalize (IHr _ _ _ _ Er). intros G1.
        generalize (proc_basic rr rt sel c true _ _ _ _ Hwc Ec). intros B.
        unfold dist_inv in *. simpl app. kidsplit.
        change (contribs w ((adj rt sel k e c, UNode (uname c) (ucom c) (b1 ++ a1)) :: kids_of b' ++ kids_of a'))
          with ([contrib_of w (adj rt sel k e c, UNode (uname c) (ucom c) (b1 ++ a1))] ++ contribs w (kids_of b' ++ kids_of a')).
        change (contribs w ((e, c) :: kids_of r)) with ([contrib_of w (e, c)] ++ contribs w (kids_of r)).
        apply aeq_app; auto. apply aeq_single.
        apply rebuilt_contrib; auto using adj_len0.
        unfold dist_inv. now kidsplit.
    - inversion IH as [|? ? _ Hr]; subst. kidsplit. specialize (IHr Hr Hw).
      rewrite proc_go_none in Hp. destruct top.
      + destruct (proc_go true r k (S m)) as [b' a'] eqn:Er. injection Hp as Hb Ha. subst b a.
        generalize (IHr _ _ _ _ Er). unfold dist_inv. simpl app. now kidsplit.
      + generalize (IHr _ _ _ _ Hp). unfold dist_inv. now kidsplit.
  Qed.

  Lemma proc_dist : forall t top k m b a,
      wf_sub t = true -> proc t top k m = (b, a) -> dist_inv (uslots t) b a.
  Proof.
    induction t as [n cm sl IH] using utree_ind'. intros top k m b a Hw Hp.
    rewrite proc_eq in Hp. simpl uslots.
    exact (proc_go_dist top sl IH (wf_sub_kids (UNode n cm sl) Hw) k m b a Hp).
  Qed.

  Theorem remove_edges_dists t :
    wf t = true -> dists_equiv (pairdists w (remove_edges rr rt sel t)) (pairdists w t).
  Proof.
    destruct t as [n cm sl]. intros Hw. unfold remove_edges.
    destruct (proc (UNode n cm sl) true 0 0) as [b a] eqn:Ep.
    rewrite proc_eq in Ep. rewrite wf_unfold in Hw. apply andb_true_iff in Hw. destruct Hw as [_ Hw].
    assert (D : dist_inv sl b a).
    { refine (proc_go_dist true sl _ Hw 0 0 b a Ep).
      apply Forall_forall. intros [[e c]|] _; auto. intros. eapply proc_dist; eauto. }
    simpl uname. simpl ucom. rewrite !pairdists_agg. apply D.
  Qed.
End Dist.

(** collapsing the branches of length <= 0 *)
Lemma sel_len_zero e : sel_len 0%Q e = true -> (len0 e == 0)%Q.
Proof.
  unfold sel_len, len0. intros H. destruct (Qle_bool 0 (elen e)) eqn:E; [|reflexivity].
  apply Qle_bool_iff in H, E. now apply Qle_antisym.
Qed.

Theorem collapse_len_zero_dists rr rt t :
  wf t = true -> dists_equiv (pairdists len0 (collapse_len 0%Q rr rt t)) (pairdists len0 t).
Proof.
  intros Hw. unfold collapse_len. apply remove_edges_dists; auto.
  intros k e c. apply sel_len_zero.
Qed.
