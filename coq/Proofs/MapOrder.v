(** C18: loops that range over a Go map, modelled as a fold over an ARBITRARY permutation of
    the key list.  One order-independence lemma per shape of loop body. *)
From Coq Require Import String Bool Arith Lia List Permutation Sorted Morphisms Setoid OrderedTypeEx.
Import ListNotations.

(** * generic: folding commuting updates is independent of the order *)
Section FoldPerm.
  Context {A B : Type} (R : A -> A -> Prop) {HR : Equivalence R} (f : A -> B -> A).
  Hypothesis f_proper : forall a a' x, R a a' -> R (f a x) (f a' x).
  Hypothesis f_comm : forall a x y, R (f (f a x) y) (f (f a y) x).

  Lemma fold_left_proper l : forall a a', R a a' -> R (fold_left f l a) (fold_left f l a').
  Proof.
    induction l as [|x l IH]; intros a a' H; cbn [fold_left]; [exact H|].
    apply IH. apply f_proper. exact H.
  Qed.

  Theorem fold_left_perm l l' :
    Permutation l l' -> forall a a', R a a' -> R (fold_left f l a) (fold_left f l' a').
  Proof.
    induction 1 as [|x l l' HP IH|x y l|l l' l'' H1 IH1 H2 IH2]; intros a a' Ha; cbn [fold_left].
    - exact Ha.
    - apply IH. apply f_proper. exact Ha.
    - etransitivity.
      + apply fold_left_proper. apply f_comm.
      + apply fold_left_proper. apply f_proper. apply f_proper. exact Ha.
    - etransitivity; [apply IH1; exact Ha|]. apply IH2. reflexivity.
  Qed.
End FoldPerm.

(** restricted variant: the updates commute on the elements of the list only (e.g. distinct keys) *)
Section FoldPermIn.
  Context {A B : Type} (R : A -> A -> Prop) {HR : Equivalence R} (f : A -> B -> A) (P : B -> B -> Prop).
  Hypothesis f_proper : forall a a' x, R a a' -> R (f a x) (f a' x).
  Hypothesis f_comm : forall a x y, P x y -> R (f (f a x) y) (f (f a y) x).
  Hypothesis P_sym : forall x y, P x y -> P y x.

  (** all pairs at distinct positions are related by P *)
  Fixpoint pairwise (l : list B) : Prop :=
    match l with [] => True | x :: r => Forall (P x) r /\ pairwise r end.

  Lemma pairwise_perm l l' : Permutation l l' -> pairwise l -> pairwise l'.
  Proof.
    induction 1 as [|x l l' HP IH|x y l|l l' l'' H1 IH1 H2 IH2]; cbn [pairwise]; intros H.
    - exact I.
    - destruct H as [Hx Hl]. split; [|apply IH; exact Hl].
      eapply Permutation_Forall; eassumption.
    - destruct H as [Hy [Hx Hl]]. inversion Hy as [|? ? Pyx Hyl]; subst.
      split; [constructor; [apply P_sym; exact Pyx|exact Hx]|]. split; assumption.
    - apply IH2. apply IH1. exact H.
  Qed.

  Theorem fold_left_perm_in l l' :
    Permutation l l' -> pairwise l -> forall a a', R a a' -> R (fold_left f l a) (fold_left f l' a').
  Proof.
    induction 1 as [|x l l' HP IH|x y l|l l' l'' H1 IH1 H2 IH2]; intros Hpw a a' Ha; cbn [fold_left].
    - exact Ha.
    - apply IH; [exact (proj2 Hpw)|]. apply f_proper. exact Ha.
    - destruct Hpw as [Hy _]. inversion Hy as [|? ? Pyx _]; subst.
      etransitivity.
      + apply (fold_left_proper R f f_proper). apply f_comm. exact Pyx.
      + apply (fold_left_proper R f f_proper). apply f_proper. apply f_proper. exact Ha.
    - etransitivity; [apply IH1; [exact Hpw|exact Ha]|].
      apply IH2; [eapply pairwise_perm; eassumption|reflexivity].
  Qed.
End FoldPermIn.

(** * maps as functions, pointwise equality *)
Definition fmap (V : Type) := string -> option V.
Definition feq {V} (m m' : fmap V) : Prop := forall k, m k = m' k.
Global Instance feq_equiv {V} : Equivalence (@feq V).
Proof. split; [intros m k; reflexivity|intros m m' H k; symmetry; apply H|intros a b c H1 H2 k; rewrite H1; apply H2]. Qed.
Definition upd {V} (m : fmap V) (k : string) (v : option V) : fmap V :=
  fun k' => if String.eqb k' k then v else m k'.

Lemma upd_comm {V} (m : fmap V) k1 v1 k2 v2 :
  k1 <> k2 \/ v1 = v2 -> feq (upd (upd m k1 v1) k2 v2) (upd (upd m k2 v2) k1 v1).
Proof.
  intros H k. unfold upd.
  destruct (String.eqb_spec k k2) as [E2|E2], (String.eqb_spec k k1) as [E1|E1]; try reflexivity.
  subst. destruct H as [H|H]; [contradiction|symmetry; exact H].
Qed.
Lemma upd_proper {V} (m m' : fmap V) k v : feq m m' -> feq (upd m k v) (upd m' k v).
Proof. intros H k'. unfold upd. destruct (String.eqb k' k); [reflexivity|apply H]. Qed.

(** ** shape InsertOnly: `for k := range m { dst[k] = g(k) }` *)
Theorem insert_only_order_independent {V} (g : string -> V) (dst : fmap V) keys keys' :
  Permutation keys keys' ->
  feq (fold_left (fun d k => upd d k (Some (g k))) keys dst)
      (fold_left (fun d k => upd d k (Some (g k))) keys' dst).
Proof.
  intros HP. apply (fold_left_perm feq (fun d k => upd d k (Some (g k)))); [| |exact HP|reflexivity].
  - intros a a' x H. apply upd_proper. exact H.
  - intros a x y. apply upd_comm.
    destruct (String.eqb_spec x y) as [E|E]; [right; subst; reflexivity|left; exact E].
Qed.

(** ** shape DeleteAll: `for k := range m { delete(m, k) }` *)
Theorem delete_all_order_independent {V} (m : fmap V) keys keys' :
  Permutation keys keys' ->
  feq (fold_left (fun d k => upd d k None) keys m) (fold_left (fun d k => upd d k None) keys' m).
Proof.
  intros HP. apply (fold_left_perm feq (fun d k => upd d k (@None V))); [| |exact HP|reflexivity].
  - intros a a' x H. apply upd_proper. exact H.
  - intros a x y. apply upd_comm. right. reflexivity.
Qed.

(** ** shape CommutativeAggregate: `for k, n := range src { dst[k] += n }` (absent counts as 0) *)
Definition addto (d : fmap nat) (kv : string * nat) : fmap nat :=
  upd d (fst kv) (Some (match d (fst kv) with Some x => x + snd kv | None => snd kv end)).
Theorem aggregate_order_independent (dst : fmap nat) kvs kvs' :
  Permutation kvs kvs' -> feq (fold_left addto kvs dst) (fold_left addto kvs' dst).
Proof.
  intros HP. apply (fold_left_perm feq addto); [| |exact HP|reflexivity].
  - intros a a' [k n] H k'. unfold addto, upd; cbn [fst snd]. rewrite (H k).
    destruct (String.eqb k' k); [reflexivity|apply H].
  - intros a [k1 n1] [k2 n2] k. unfold addto, upd; cbn [fst snd].
    destruct (String.eqb_spec k1 k2) as [E12|E12].
    + subst k2. rewrite !String.eqb_refl.
      destruct (String.eqb k k1); [|reflexivity].
      destruct (a k1) as [x|]; f_equal; lia.
    + assert (String.eqb k2 k1 = false) as F21 by (apply String.eqb_neq; intros E; apply E12; symmetry; exact E).
      rewrite F21.
      destruct (String.eqb_spec k k2) as [E2|E2], (String.eqb_spec k k1) as [E1|E1]; try reflexivity.
      subst. contradiction.
Qed.

(** ** shape Existential: `for k := range m { if !p(k) { return err } }`, err does not mention k *)
Theorem existential_order_independent (p : string -> bool) keys keys' :
  Permutation keys keys' -> forallb p keys = forallb p keys'.
Proof.
  induction 1 as [|x l l' HP IH|x y l|l l' l'' H1 IH1 H2 IH2]; cbn [forallb].
  - reflexivity.
  - rewrite IH. reflexivity.
  - destruct (p x), (p y); reflexivity.
  - rewrite IH1. exact IH2.
Qed.

(** ** shape IdempotentMarks: `for k := range m { if keep(k) { counts[idx(k)] = 1 } }` *)
Definition mark (idx : string -> nat) (keep : string -> bool) (c : nat -> nat) (k : string) : nat -> nat :=
  if keep k then (fun i => if Nat.eqb i (idx k) then 1 else c i) else c.
Definition peq (c c' : nat -> nat) : Prop := forall i, c i = c' i.
Global Instance peq_equiv : Equivalence peq.
Proof. split; [intros c i; reflexivity|intros c c' H i; symmetry; apply H|intros a b c H1 H2 i; rewrite H1; apply H2]. Qed.
Theorem marks_order_independent idx keep c keys keys' :
  Permutation keys keys' -> peq (fold_left (mark idx keep) keys c) (fold_left (mark idx keep) keys' c).
Proof.
  intros HP. apply (fold_left_perm peq (mark idx keep)); [| |exact HP|reflexivity].
  - intros a a' x H i. unfold mark. destruct (keep x); [|apply H]. destruct (Nat.eqb i (idx x)); [reflexivity|apply H].
  - intros a x y i. unfold mark. destruct (keep x), (keep y); try reflexivity.
    destruct (Nat.eqb i (idx y)), (Nat.eqb i (idx x)); reflexivity.
Qed.

(** ** shape IndependentUpdates (Tree.Rename): `for old, new := range namemap { if n, ok := index[old]; ok { n.name = new } }`
    with an index built BEFORE the loop that maps distinct names to distinct nodes *)
Definition rename_step (index : string -> option nat) (names : nat -> string) (kv : string * string) : nat -> string :=
  match index (fst kv) with
  | Some id => fun i => if Nat.eqb i id then snd kv else names i
  | None => names
  end.
Definition seq_eq (a b : nat -> string) : Prop := forall i, a i = b i.
Global Instance seq_eq_equiv : Equivalence seq_eq.
Proof. split; [intros c i; reflexivity|intros c c' H i; symmetry; apply H|intros a b c H1 H2 i; rewrite H1; apply H2]. Qed.

Theorem independent_updates_order_independent index names kvs kvs' :
  (forall a b id, index a = Some id -> index b = Some id -> a = b) ->     (* index is injective *)
  NoDup (map fst kvs) ->                                                   (* map keys are distinct *)
  Permutation kvs kvs' ->
  seq_eq (fold_left (rename_step index) kvs names) (fold_left (rename_step index) kvs' names).
Proof.
  intros Hinj Hnd HP.
  apply (fold_left_perm_in seq_eq (rename_step index) (fun x y => fst x <> fst y)); [| | |exact HP| |reflexivity].
  - intros a a' [k v] H i. unfold rename_step; cbn [fst snd]. destruct (index k) as [id|]; [|apply H].
    destruct (Nat.eqb i id); [reflexivity|apply H].
  - intros a [k1 v1] [k2 v2] Hne i. cbn [fst] in Hne. unfold rename_step; cbn [fst snd].
    destruct (index k1) as [id1|] eqn:E1, (index k2) as [id2|] eqn:E2; try reflexivity.
    destruct (Nat.eqb_spec i id2) as [A|A], (Nat.eqb_spec i id1) as [B|B]; try reflexivity.
    subst. exfalso. apply Hne. eapply Hinj; eassumption.
  - intros x y H E. apply H. symmetry. exact E.
  - clear HP. induction kvs as [|[k v] r IH]; cbn [pairwise map fst]; [exact I|].
    cbn [map fst] in Hnd. inversion Hnd as [|? ? Hnotin Hnd']; subst. split; [|apply IH; exact Hnd'].
    apply Forall_forall. intros [k' v'] Hin E. cbn [fst] in E. apply Hnotin. subst.
    change k' with (fst (k', v')). apply in_map. exact Hin.
Qed.

(** ** shape CollectThenSort: `for k := range m { keys = append(keys, k) }; sort.Strings(keys)` *)
Fixpoint sinsert (x : string) (l : list string) : list string :=
  match l with
  | [] => [x]
  | y :: r => match String.compare x y with
              | Lt => x :: l
              | Eq => x :: l
              | Gt => y :: sinsert x r
              end
  end.
Definition ssort (l : list string) : list string := fold_right sinsert [] l.

Definition sle (a b : string) : Prop := String.compare a b <> Gt.

Lemma cmp_trans_lt a b c : String.compare a b = Lt -> String.compare b c = Lt -> String.compare a c = Lt.
Proof.
  intros H1 H2. apply String_as_OT.cmp_lt in H1. apply String_as_OT.cmp_lt in H2.
  apply String_as_OT.cmp_lt. eapply String_as_OT.lt_trans; eassumption.
Qed.
Lemma cmp_eq a b : String.compare a b = Eq <-> a = b.
Proof. exact (String_as_OT.cmp_eq a b). Qed.
Lemma cmp_gt_lt a b : String.compare a b = Gt <-> String.compare b a = Lt.
Proof.
  rewrite (String.compare_antisym b a). destruct (String.compare a b); cbn; split; congruence.
Qed.

Lemma sle_trans a b c : sle a b -> sle b c -> sle a c.
Proof.
  unfold sle. intros H1 H2 H3.
  destruct (String.compare a b) eqn:E1; [|idtac|congruence].
  - apply cmp_eq in E1. subst. contradiction.
  - destruct (String.compare b c) eqn:E2; [|idtac|congruence].
    + apply cmp_eq in E2. subst. congruence.
    + rewrite (cmp_trans_lt _ _ _ E1 E2) in H3. discriminate.
Qed.
Lemma sle_antisym a b : sle a b -> sle b a -> a = b.
Proof.
  unfold sle. intros H1 H2.
  destruct (String.compare a b) eqn:E1; [apply cmp_eq; exact E1| |congruence].
  exfalso. apply H2. apply cmp_gt_lt. exact E1.
Qed.
Lemma sle_total a b : sle a b \/ sle b a.
Proof.
  unfold sle. destruct (String.compare a b) eqn:E; [left; congruence|left; congruence|].
  right. apply cmp_gt_lt in E. rewrite E. congruence.
Qed.

Lemma sinsert_perm x l : Permutation (x :: l) (sinsert x l).
Proof.
  induction l as [|y r IH]; cbn [sinsert]; [reflexivity|].
  destruct (String.compare x y); try reflexivity.
  etransitivity; [apply perm_swap|]. constructor. exact IH.
Qed.
Lemma ssort_perm l : Permutation l (ssort l).
Proof.
  induction l as [|x r IH]; cbn [ssort fold_right]; [reflexivity|].
  etransitivity; [constructor; exact IH|]. apply sinsert_perm.
Qed.

Lemma sinsert_sorted x l : StronglySorted sle l -> StronglySorted sle (sinsert x l).
Proof.
  induction 1 as [|y r Hr IH Hy]; cbn [sinsert]; [repeat constructor|].
  destruct (String.compare x y) eqn:E.
  - constructor; [constructor; assumption|]. constructor; [unfold sle; congruence|].
    apply cmp_eq in E. subst. exact Hy.
  - constructor; [constructor; assumption|]. constructor; [unfold sle; congruence|].
    eapply Forall_impl; [|exact Hy]. intros z Hz. eapply sle_trans; [|exact Hz]. unfold sle; congruence.
  - constructor; [exact IH|].
    eapply Permutation_Forall; [apply sinsert_perm|]. constructor; [|exact Hy].
    unfold sle. apply cmp_gt_lt in E. rewrite E. congruence.
Qed.
Lemma ssort_sorted l : StronglySorted sle (ssort l).
Proof. induction l as [|x r IH]; cbn [ssort fold_right]; [constructor|apply sinsert_sorted; exact IH]. Qed.

(** two sorted lists with the same elements are equal *)
Lemma sorted_perm_unique l : forall l',
  StronglySorted sle l -> StronglySorted sle l' -> Permutation l l' -> l = l'.
Proof.
  induction l as [|x r IH]; intros l' Hs Hs' HP.
  - apply Permutation_nil in HP. symmetry; exact HP.
  - destruct l' as [|y r']; [apply Permutation_sym, Permutation_nil in HP; discriminate|].
    inversion Hs as [|? ? Hr Hx]; subst. inversion Hs' as [|? ? Hr' Hy]; subst.
    assert (x = y) as ->.
    { apply sle_antisym.
      - assert (In y (x :: r)) as Hin by (eapply Permutation_in; [apply Permutation_sym; exact HP|left; reflexivity]).
        destruct Hin as [->|Hin]; [unfold sle; rewrite (proj2 (cmp_eq y y) eq_refl); congruence|].
        rewrite Forall_forall in Hx. apply Hx. exact Hin.
      - assert (In x (y :: r')) as Hin by (eapply Permutation_in; [exact HP|left; reflexivity]).
        destruct Hin as [->|Hin]; [unfold sle; rewrite (proj2 (cmp_eq x x) eq_refl); congruence|].
        rewrite Forall_forall in Hy. apply Hy. exact Hin. }
    f_equal. apply IH; [exact Hr|exact Hr'|]. eapply Permutation_cons_inv. exact HP.
Qed.

Theorem collect_then_sort_order_independent keys keys' :
  Permutation keys keys' -> ssort keys = ssort keys'.
Proof.
  intros HP. apply sorted_perm_unique; [apply ssort_sorted|apply ssort_sorted|].
  etransitivity; [apply Permutation_sym, ssort_perm|]. etransitivity; [exact HP|apply ssort_perm].
Qed.

(** ** shape CollectDistinctThenSort (ParsimonyAcr): values appended when first seen, then sorted *)
Fixpoint dedup (seen : list string) (l : list string) : list string :=
  match l with
  | [] => []
  | x :: r => if existsb (String.eqb x) seen then dedup seen r else x :: dedup (x :: seen) r
  end.

Lemma dedup_in seen l x : In x (dedup seen l) <-> In x l /\ ~ In x seen.
Proof.
  revert seen; induction l as [|y r IH]; intros seen; cbn [dedup].
  - split; [intros []|intros [[] _]].
  - destruct (existsb (String.eqb y) seen) eqn:E.
    + rewrite IH. apply existsb_exists in E. destruct E as [z [Hz Ez]]. apply String.eqb_eq in Ez. subst z.
      split; [intros [H1 H2]; split; [right; exact H1|exact H2]|].
      intros [[->|H1] H2]; [contradiction|split; assumption].
    + assert (~ In y seen) as Hy.
      { intros Hin. assert (existsb (String.eqb y) seen = true) as C; [|congruence].
        apply existsb_exists. exists y. split; [exact Hin|apply String.eqb_refl]. }
      cbn [In]. rewrite IH. cbn [In]. split.
      * intros [->|[H1 H2]]; [split; [left; reflexivity|exact Hy]|].
        split; [right; exact H1|intros H; apply H2; right; exact H].
      * intros [[->|H1] H2]; [left; reflexivity|].
        destruct (String.eqb_spec y x) as [->|Ne]; [left; reflexivity|].
        right. split; [exact H1|intros [H|H]; [contradiction|contradiction]].
Qed.
Lemma dedup_nodup seen l : NoDup (dedup seen l).
Proof.
  revert seen; induction l as [|y r IH]; intros seen; cbn [dedup]; [constructor|].
  destruct (existsb (String.eqb y) seen); [apply IH|].
  constructor; [|apply IH]. rewrite dedup_in. intros [_ H]. apply H. left. reflexivity.
Qed.

Theorem collect_distinct_then_sort_order_independent vals vals' :
  Permutation vals vals' -> ssort (dedup [] vals) = ssort (dedup [] vals').
Proof.
  intros HP. apply collect_then_sort_order_independent.
  apply NoDup_Permutation; [apply dedup_nodup|apply dedup_nodup|].
  intros x. rewrite !dedup_in. split; intros [H1 H2]; (split; [|exact H2]).
  - eapply Permutation_in; eassumption.
  - eapply Permutation_in; [apply Permutation_sym; exact HP|exact H1].
Qed.

(** ** shape InsertDistinctOrError (MutationList.Append): inserts every key, fails if one is
    already present; success/failure and the resulting map do not depend on the order *)
Definition append_step {V} (src : string -> V) (st : option (fmap V)) (k : string) : option (fmap V) :=
  match st with
  | None => None
  | Some d => match d k with Some _ => None | None => Some (upd d k (Some (src k))) end
  end.
Definition ofeq {V} (a b : option (fmap V)) : Prop :=
  match a, b with Some x, Some y => feq x y | None, None => True | _, _ => False end.
Global Instance ofeq_equiv {V} : Equivalence (@ofeq V).
Proof.
  split.
  - intros [x|]; cbn; [reflexivity|exact I].
  - intros [x|] [y|]; cbn; try tauto. intros H; symmetry; exact H.
  - intros [x|] [y|] [z|]; cbn; try tauto. intros H1 H2; etransitivity; eassumption.
Qed.
Theorem append_order_independent {V} (src : string -> V) (dst : fmap V) keys keys' :
  NoDup keys -> Permutation keys keys' ->
  ofeq (fold_left (append_step src) keys (Some dst)) (fold_left (append_step src) keys' (Some dst)).
Proof.
  intros Hnd HP.
  apply (fold_left_perm_in ofeq (append_step src) (fun x y => x <> y)); [| | |exact HP| |reflexivity].
  - intros [a|] [a'|] x; cbn; try tauto. intros H. rewrite (H x). destruct (a' x); cbn; [exact I|].
    apply upd_proper. exact H.
  - intros [a|] x y Hne; cbn [append_step ofeq]; [|exact I].
    assert (String.eqb y x = false) as Fyx by (apply String.eqb_neq; intros E; apply Hne; symmetry; exact E).
    assert (String.eqb x y = false) as Fxy by (apply String.eqb_neq; exact Hne).
    assert (forall (d : fmap V) v, upd d x v y = d y) as Uy by (intros d v; unfold upd; rewrite Fyx; reflexivity).
    assert (forall (d : fmap V) v, upd d y v x = d x) as Ux by (intros d v; unfold upd; rewrite Fxy; reflexivity).
    destruct (a x) eqn:Ex, (a y) eqn:Ey; cbn [append_step ofeq]; rewrite ?Uy, ?Ux, ?Ex, ?Ey; cbn [append_step ofeq]; try exact I.
    apply upd_comm. left. exact Hne.
  - intros x y H E. apply H. symmetry. exact E.
  - clear HP. induction keys as [|k r IH]; cbn [pairwise]; [exact I|].
    inversion Hnd as [|? ? Hnotin Hnd']; subst. split; [|apply IH; exact Hnd'].
    apply Forall_forall. intros k' Hin E. subst. contradiction.
Qed.
