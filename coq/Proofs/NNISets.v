(** C17, bipartitions as membership: two leaf lists agree (same bipartition of the tips) or
    cross; the leaf sets below the branches of one tree are nested or disjoint, so a tree
    never has two crossing splits; hence two trees, one with a split X and the other with a
    split crossing X, do not have the same splits. *)
From Coq Require Import String ZArith QArith Bool Arith Lia List Permutation.
From GT Require Import Base.UTree Spec.Obs Spec.Unrooted Spec.NNISpec Model.Reroot
     Proofs.RerootBase Proofs.Splits.
Import ListNotations.
Local Close Scope Q_scope.
Local Arguments leaves : simpl never.
Local Arguments bsplits : simpl never.
Local Arguments kleaves : simpl never.
Local Arguments kbs : simpl never.

Definition clade (y : einfo * list string * bool) : list string := snd (fst y).

(** ** same bipartition, by membership *)
Definition agree (L x y : list string) : Prop :=
  (forall a, In a L -> (In a x <-> In a y)) \/ (forall a, In a L -> (In a x <-> ~ In a y)).

Lemma same_bipartition_agree L x y : NoDup L -> same_bipartition L x y -> agree L x y.
Proof.
  intros ND [H|H].
  - left. intros a _. split; intros Ha; [eapply Permutation_in; eauto | eapply Permutation_in; [symmetry|]; eauto].
  - right. intros a Ha.
    assert (ND' : NoDup (x ++ y)) by (eapply Permutation_NoDup; [symmetry|]; eauto).
    split.
    + intros Hx Hy. eapply NoDup_app_disjoint; eauto.
    + intros Hy. assert (Hxy : In a (x ++ y)) by (eapply Permutation_in; [symmetry|]; eauto).
      apply in_app_or in Hxy. tauto.
Qed.

Definition crosses (L x y : list string) : Prop :=
  (exists a, In a L /\ In a x /\ In a y) /\
  (exists a, In a L /\ In a x /\ ~ In a y) /\
  (exists a, In a L /\ ~ In a x /\ In a y) /\
  (exists a, In a L /\ ~ In a x /\ ~ In a y).

Lemma crosses_sym L x y : crosses L x y -> crosses L y x.
Proof.
  intros ((a & A1 & A2 & A3) & (b & B1 & B2 & B3) & (c & C1 & C2 & C3) & (d & D1 & D2 & D3)).
  repeat split; [exists a | exists c | exists b | exists d]; auto.
Qed.

Lemma crosses_agree_l L x x' y : agree L x x' -> crosses L x y -> crosses L x' y.
Proof.
  intros [H|H] ((a & A1 & A2 & A3) & (b & B1 & B2 & B3) & (c & C1 & C2 & C3) & (d & D1 & D2 & D3)).
  - repeat split; [exists a | exists b | exists c | exists d]; repeat split; auto;
      try (apply H; auto); try (intros X; apply H in X; auto).
  - repeat split; [exists c | exists d | exists a | exists b]; repeat split; auto.
    + destruct (in_dec string_dec c x') as [I|I]; auto. exfalso. apply C2. apply H; auto.
    + destruct (in_dec string_dec d x') as [I|I]; auto. exfalso. apply D2. apply H; auto.
    + intros X. apply (proj1 (H a A1)) in A2. contradiction.
    + intros X. apply (proj1 (H b B1)) in B2. contradiction.
Qed.

Lemma crosses_agree_r L x y y' : agree L y y' -> crosses L x y -> crosses L x y'.
Proof. intros H C. apply crosses_sym. eapply crosses_agree_l; eauto. now apply crosses_sym. Qed.

Lemma crosses_permL L L' x y : Permutation L L' -> crosses L x y -> crosses L' x y.
Proof.
  intros HP ((a & A1 & A2) & (b & B1 & B2) & (c & C1 & C2) & (d & D1 & D2)).
  repeat split; [exists a | exists b | exists c | exists d]; split; auto; eapply Permutation_in; eauto.
Qed.

(** ** nested or disjoint *)
Definition laminar (x y : list string) : Prop :=
  (forall a, In a x -> ~ In a y) \/ incl x y \/ incl y x.

Lemma laminar_not_crosses L x y : laminar x y -> ~ crosses L x y.
Proof.
  intros [H|[H|H]] ((a & A1 & A2 & A3) & (b & B1 & B2 & B3) & (c & C1 & C2 & C3) & _).
  - exact (H a A2 A3).
  - exact (B3 (H b B2)).
  - exact (C2 (H c C3)).
Qed.

Lemma bsplits_clade_incl t : forall y, In y (bsplits t) -> incl (clade y) (leaves t).
Proof.
  induction t as [n c sl IH] using utree_ind'. intros y Hy.
  rewrite bsplits_unfold in Hy. rewrite leaves_unfold.
  assert (IHK : Forall (fun p => forall y, In y (bsplits (snd p)) -> incl (clade y) (leaves (snd p))) (kids_of sl)).
  { rewrite Forall_forall in *. intros [e ch] Hp. apply kids_of_In in Hp. exact (IH _ Hp). }
  clear IH. destruct (kids_of sl) as [|p0 K0] eqn:E; [destruct Hy|]. rewrite <- E in *. clear E p0 K0.
  induction IHK as [|p K Hp _ IHr]; [destruct Hy|].
  rewrite kbs_cons in Hy. change (p :: K) with ([p] ++ K). rewrite kleaves_app.
  destruct Hy as [<-|Hy].
  - unfold clade. cbn [fst snd]. unfold kleaves. cbn [flat_map]. rewrite app_nil_r. apply incl_appl, incl_refl.
  - apply in_app_or in Hy. destruct Hy as [Hy|Hy].
    + apply incl_appl. unfold kleaves. cbn [flat_map]. rewrite app_nil_r. now apply Hp.
    + apply incl_appr. now apply IHr.
Qed.

Lemma NoDup_app_l {A} (x y : list A) : NoDup (x ++ y) -> NoDup x.
Proof. induction x; simpl; intros H; [constructor|]. inversion H; subst. constructor; auto. rewrite in_app_iff in *. tauto. Qed.
Lemma NoDup_app_r {A} (x y : list A) : NoDup (x ++ y) -> NoDup y.
Proof. induction x; simpl; intros H; auto. inversion H; subst. auto. Qed.

Theorem bsplits_laminar t :
  NoDup (leaves t) -> forall y1 y2, In y1 (bsplits t) -> In y2 (bsplits t) -> laminar (clade y1) (clade y2).
Proof.
  induction t as [n c sl IH] using utree_ind'. intros ND y1 y2 H1 H2.
  rewrite bsplits_unfold in H1, H2. rewrite leaves_unfold in ND.
  assert (IHK : Forall (fun p => NoDup (leaves (snd p)) -> forall y1 y2, In y1 (bsplits (snd p)) ->
                                 In y2 (bsplits (snd p)) -> laminar (clade y1) (clade y2)) (kids_of sl)).
  { rewrite Forall_forall in *. intros [e ch] Hp. apply kids_of_In in Hp. exact (IH _ Hp). }
  clear IH. destruct (kids_of sl) as [|p0 K0] eqn:E; [destruct H1|]. rewrite <- E in *. clear E p0 K0.
  revert y1 y2 H1 H2. induction IHK as [|p K Hp _ IHr]; intros y1 y2 H1 H2; [destruct H1|].
  rewrite kbs_cons in H1, H2. change (p :: K) with ([p] ++ K) in ND. rewrite kleaves_app in ND.
  unfold kleaves at 1 in ND. cbn [flat_map] in ND. rewrite app_nil_r in ND.
  pose proof (NoDup_app_l _ _ ND) as NDp. pose proof (NoDup_app_r _ _ ND) as NDK.
  (* where an entry lives: the head of p's block, inside p, or in the other blocks *)
  assert (inK : forall y, In y (kbs K) -> incl (clade y) (kleaves K)).
  { clear. induction K as [|q K IH]; intros y Hy; [destruct Hy|].
    rewrite kbs_cons in Hy. change (q :: K) with ([q] ++ K). rewrite kleaves_app.
    unfold kleaves at 1. cbn [flat_map]. rewrite app_nil_r.
    destruct Hy as [<-|Hy]; [apply incl_appl, incl_refl|].
    apply in_app_or in Hy. destruct Hy as [Hy|Hy]; [apply incl_appl; now apply bsplits_clade_incl | apply incl_appr; auto]. }
  assert (inP : forall y, (fst p, leaves (snd p), isleaf (snd p)) = y \/ In y (bsplits (snd p)) ->
                          incl (clade y) (leaves (snd p))).
  { intros y [<-|Hy]; [apply incl_refl | now apply bsplits_clade_incl]. }
  assert (cut : forall y y', ((fst p, leaves (snd p), isleaf (snd p)) = y \/ In y (bsplits (snd p))) ->
                             In y' (kbs K) -> forall a, In a (clade y) -> ~ In a (clade y')).
  { intros y y' Hy Hy' a Ha Ha'. eapply NoDup_app_disjoint; [exact ND| |]; [eapply inP; eauto | eapply inK; eauto]. }
  destruct H1 as [H1|H1]; [|apply in_app_or in H1; destruct H1 as [H1|H1]];
    (destruct H2 as [H2|H2]; [|apply in_app_or in H2; destruct H2 as [H2|H2]]).
  - subst. right; left; apply incl_refl.
  - subst y1. right; right. unfold clade at 2. cbn [fst snd]. now apply bsplits_clade_incl.
  - left. eapply cut; eauto.
  - subst y2. right; left. unfold clade at 2. cbn [fst snd]. now apply bsplits_clade_incl.
  - now apply Hp.
  - left. eapply cut; eauto.
  - left. intros a Ha Ha'. eapply (cut y2 y1); eauto.
  - left. intros a Ha Ha'. eapply (cut y2 y1); eauto.
  - now apply IHr.
Qed.

(** ** two trees with crossing splits are different *)
Theorem crossing_distinct t1 t2 X1 X2 :
  NoDup (leaves t1) ->
  has_split t1 X1 -> has_split t2 X2 -> crosses (leaves t1) X1 X2 ->
  ~ same_splits t1 t2.
Proof.
  intros ND (y1 & I1 & S1) H2 CR SS.
  apply SS in H2. destruct H2 as (y2 & I2 & S2).
  apply (same_bipartition_agree _ _ _ ND) in S1, S2.
  apply (crosses_agree_l _ _ _ _ S1), (crosses_agree_r _ _ _ _ S2) in CR.
  exact (laminar_not_crosses _ _ _ (bsplits_laminar t1 ND y1 y2 I1 I2) CR).
Qed.

(** ** four corners *)
Section Corners.
  Variables L A B C D : list string.
  Hypothesis ND : NoDup L.
  Hypothesis HL : Permutation L (A ++ B ++ C ++ D).
  Hypothesis NA : A <> [].
  Hypothesis NB : B <> [].
  Hypothesis NC : C <> [].
  Hypothesis NDd : D <> [].

  Lemma corners_nodup : NoDup (A ++ B ++ C ++ D).
  Proof. eapply Permutation_NoDup; eauto. Qed.

  Lemma inL a : In a L <-> In a A \/ In a B \/ In a C \/ In a D.
  Proof.
    split; intros H.
    - apply (Permutation_in _ HL) in H. rewrite !in_app_iff in H. tauto.
    - apply (Permutation_in _ (Permutation_sym HL)). rewrite !in_app_iff. tauto.
  Qed.

  Lemma dAB a : In a A -> In a B -> False.
  Proof. intros; eapply (NoDup_app_disjoint A (B ++ C ++ D)); [apply corners_nodup|eauto|]. rewrite !in_app_iff; tauto. Qed.
  Lemma dAC a : In a A -> In a C -> False.
  Proof. intros; eapply (NoDup_app_disjoint A (B ++ C ++ D)); [apply corners_nodup|eauto|]. rewrite !in_app_iff; tauto. Qed.
  Lemma dAD a : In a A -> In a D -> False.
  Proof. intros; eapply (NoDup_app_disjoint A (B ++ C ++ D)); [apply corners_nodup|eauto|]. rewrite !in_app_iff; tauto. Qed.
  Lemma dBC a : In a B -> In a C -> False.
  Proof. intros; eapply (NoDup_app_disjoint B (C ++ D)); [apply (NoDup_app_r _ _ corners_nodup)|eauto|]. rewrite !in_app_iff; tauto. Qed.
  Lemma dBD a : In a B -> In a D -> False.
  Proof. intros; eapply (NoDup_app_disjoint B (C ++ D)); [apply (NoDup_app_r _ _ corners_nodup)|eauto|]. rewrite !in_app_iff; tauto. Qed.
  Lemma dCD a : In a C -> In a D -> False.
  Proof. intros; eapply (NoDup_app_disjoint C D); [apply (NoDup_app_r _ _ (NoDup_app_r _ _ corners_nodup))|eauto|eauto]. Qed.

  Lemma pick (X : list string) : X <> [] -> exists a, In a X.
  Proof. destruct X as [|a X]; [congruence|]. intros _. exists a. now left. Qed.

  (** a list made of two corners *)
  Definition two (X U V : list string) : Prop := forall a, In a X <-> In a U \/ In a V.

  Lemma two_perm X U V : Permutation X (U ++ V) -> two X U V.
  Proof.
    intros H a. split; intros Ha.
    - apply (Permutation_in _ H) in Ha. now apply in_app_or.
    - apply (Permutation_in _ (Permutation_sym H)). now apply in_or_app.
  Qed.

  Ltac fin w := pose proof (dAB w); pose proof (dAC w); pose proof (dAD w);
                pose proof (dBC w); pose proof (dBD w); pose proof (dCD w); tauto.

  (** the old central split B+D against the new one, in either stored form *)
  Lemma cross_old_new old new :
    two old B D -> (two new A D \/ two new C B) -> crosses L old new.
  Proof.
    intros Ho Hn. unfold two in *.
    destruct (pick A NA) as [a Ha], (pick B NB) as [b Hb], (pick C NC) as [c Hc], (pick D NDd) as [d Hd].
    destruct Hn as [Hn|Hn].
    - repeat split; [exists d; rewrite inL, Ho, Hn; fin d | exists b; rewrite inL, Ho, Hn; fin b | exists a; rewrite inL, Ho, Hn; fin a | exists c; rewrite inL, Ho, Hn; fin c].
    - repeat split; [exists b; rewrite inL, Ho, Hn; fin b | exists d; rewrite inL, Ho, Hn; fin d | exists c; rewrite inL, Ho, Hn; fin c | exists a; rewrite inL, Ho, Hn; fin a].
  Qed.

  (** the two new splits of the same branch: A+D | C+B against A+B | C+D *)
  Lemma cross_new_new new1 new2 :
    (two new1 A D \/ two new1 C B) -> (two new2 A B \/ two new2 C D) -> crosses L new1 new2.
  Proof.
    intros H1 H2. unfold two in *.
    destruct (pick A NA) as [a Ha], (pick B NB) as [b Hb], (pick C NC) as [c Hc], (pick D NDd) as [d Hd].
    destruct H1 as [H1|H1], H2 as [H2|H2].
    - repeat split; [exists a; rewrite inL, H1, H2; fin a | exists d; rewrite inL, H1, H2; fin d | exists b; rewrite inL, H1, H2; fin b | exists c; rewrite inL, H1, H2; fin c].
    - repeat split; [exists d; rewrite inL, H1, H2; fin d | exists a; rewrite inL, H1, H2; fin a | exists c; rewrite inL, H1, H2; fin c | exists b; rewrite inL, H1, H2; fin b].
    - repeat split; [exists b; rewrite inL, H1, H2; fin b | exists c; rewrite inL, H1, H2; fin c | exists a; rewrite inL, H1, H2; fin a | exists d; rewrite inL, H1, H2; fin d].
    - repeat split; [exists c; rewrite inL, H1, H2; fin c | exists b; rewrite inL, H1, H2; fin b | exists d; rewrite inL, H1, H2; fin d | exists a; rewrite inL, H1, H2; fin a].
  Qed.
End Corners.
